/-
C04 — the glob matcher `C03.glob` (= `ircutils.hostmaskPatternEqual`): equivalence with a
declarative match relation, invariance under IRC case folding.
-/
import LimnoriaModel.C03.Lemmas
namespace C04
open Py C03

/-- declarative semantics of a hostmask pattern: `*` matches any run of characters other than
LF, `?` one such character, any other pattern character one character of its class
(`patCharMatch`: the four rfc1459 pairs, ASCII letters up to case, else identity); the whole
hostmask must be consumed, except that one final LF is tolerated (the `$` of the regexp). -/
inductive Matches : Str → Str → Prop
  | nil : Matches [] []
  | nilLF : Matches [] ['\n']
  | starSkip {ps h} : Matches ps h → Matches ('*' :: ps) h
  | starEat {ps c cs} : c ≠ '\n' → Matches ('*' :: ps) cs → Matches ('*' :: ps) (c :: cs)
  | qmark {ps c cs} : c ≠ '\n' → Matches ps cs → Matches ('?' :: ps) (c :: cs)
  | char {p ps c cs} : p ≠ '*' → p ≠ '?' → patCharMatch p c = true → Matches ps cs →
      Matches (p :: ps) (c :: cs)

theorem starAux_iff {k : Str → Bool} {ps : Str} (hk : ∀ h, k h = true ↔ Matches ps h) (h : Str) :
    starAux k h = true ↔ Matches ('*' :: ps) h := by
  induction h with
  | nil =>
    simp only [starAux]
    constructor
    · intro hh; exact .starSkip ((hk []).1 hh)
    · intro hm
      cases hm with
      | starSkip hm' => exact (hk []).2 hm'
  | cons c cs ih =>
    simp only [starAux, Bool.or_eq_true, Bool.and_eq_true, bne_iff_ne, ne_eq]
    constructor
    · rintro (hh | ⟨hc, hh⟩)
      · exact .starSkip ((hk _).1 hh)
      · exact .starEat hc (ih.1 hh)
    · intro hm
      cases hm with
      | starSkip hm' => exact Or.inl ((hk _).2 hm')
      | starEat hc hm' => exact Or.inr ⟨hc, ih.2 hm'⟩
      | char h1 _ _ _ => exact absurd rfl h1

/-- **the matcher computes the declarative relation** -/
theorem glob_iff_matches (p h : Str) : glob p h = true ↔ Matches p h := by
  induction p generalizing h with
  | nil =>
    simp only [glob, Bool.or_eq_true, beq_iff_eq]
    constructor
    · rintro (e | e)
      · rw [e]; exact .nil
      · rw [e]; exact .nilLF
    · intro hm
      cases hm with
      | nil => exact Or.inl rfl
      | nilLF => exact Or.inr rfl
  | cons x xs ih =>
    simp only [glob]
    by_cases hx : x = '*'
    · subst hx
      simp only [beq_self_eq_true, if_true]
      exact starAux_iff ih h
    · have hx' : (x == '*') = false := by simp [hx]
      simp only [hx', Bool.false_eq_true, if_false]
      cases h with
      | nil =>
        simp only [Bool.false_eq_true, false_iff]
        intro hm
        cases hm with
        | starSkip _ => exact hx rfl
      | cons c cs =>
        simp only
        by_cases hq : x = '?'
        · subst hq
          simp only [beq_self_eq_true, if_true, Bool.and_eq_true, bne_iff_ne, ne_eq]
          constructor
          · rintro ⟨hc, hh⟩; exact .qmark hc ((ih cs).1 hh)
          · intro hm
            cases hm with
            | qmark hc hm' => exact ⟨hc, (ih cs).2 hm'⟩
            | char _ h2 _ _ => exact absurd rfl h2
        · have hq' : (x == '?') = false := by simp [hq]
          simp only [hq', Bool.false_eq_true, if_false, Bool.and_eq_true]
          constructor
          · rintro ⟨hc, hh⟩; exact .char hx hq hc ((ih cs).1 hh)
          · intro hm
            cases hm with
            | starSkip _ => exact absurd rfl hx
            | starEat _ _ => exact absurd rfl hx
            | qmark _ _ => exact absurd rfl hq
            | char _ _ hc hm' => exact ⟨hc, (ih cs).2 hm'⟩

example : Matches ['a', '*', '[', '?'] ['A', 'x', 'y', '{', 'z'] := by
  rw [← glob_iff_matches]; decide

/-! ### case folding -/

theorem upper_enum (x : Char) (h : 'A' ≤ x ∧ x ≤ 'Z') : x.toNat = 65 ∨ x.toNat = 66 ∨ x.toNat = 67 ∨ x.toNat = 68 ∨ x.toNat = 69 ∨ x.toNat = 70 ∨ x.toNat = 71 ∨ x.toNat = 72 ∨ x.toNat = 73 ∨ x.toNat = 74 ∨ x.toNat = 75 ∨ x.toNat = 76 ∨ x.toNat = 77 ∨ x.toNat = 78 ∨ x.toNat = 79 ∨ x.toNat = 80 ∨ x.toNat = 81 ∨ x.toNat = 82 ∨ x.toNat = 83 ∨ x.toNat = 84 ∨ x.toNat = 85 ∨ x.toNat = 86 ∨ x.toNat = 87 ∨ x.toNat = 88 ∨ x.toNat = 89 ∨ x.toNat = 90 := by
  obtain ⟨h1, h2⟩ := h
  rw [Char.le_def] at h1 h2
  simp only [UInt32.le_iff_toNat_le] at h1 h2
  have e1 : 65 ≤ x.toNat := h1
  have e2 : x.toNat ≤ 90 := h2
  omega

/-- ASCII lowering of an upper-case letter is a lower-case letter -/
theorem asciiLowerChar_upper (x : Char) (h : 'A' ≤ x ∧ x ≤ 'Z') :
    ('a' ≤ asciiLowerChar x ∧ asciiLowerChar x ≤ 'z') ∧ ¬ ('a' ≤ x ∧ x ≤ 'z') := by
  have hx : x = Char.ofNat x.toNat := (Char.ofNat_toNat x).symm
  rcases upper_enum x h with h | h | h | h | h | h | h | h | h | h | h | h | h | h | h | h | h | h | h | h | h | h | h | h | h | h <;> (rw [hx, h]; decide)

/-- a character that is not a lower-case ASCII letter is the ASCII-lowering of itself only -/
theorem asciiLowerChar_eq_of_not_lower {x k : Char} (hk : ¬ ('a' ≤ k ∧ k ≤ 'z'))
    (h : asciiLowerChar x = k) : x = k := by
  by_cases hu : 'A' ≤ x ∧ x ≤ 'Z'
  · have := (asciiLowerChar_upper x hu).1
    rw [h] at this
    exact absurd this hk
  · unfold asciiLowerChar at h
    simp only [hu, if_false] at h
    exact h

theorem asciiLowerChar_fix {k : Char} (hk : ¬ ('A' ≤ k ∧ k ≤ 'Z')) : asciiLowerChar k = k := by
  unfold asciiLowerChar; simp only [hk, if_false]

/-- the class of a character under the pattern language: the four rfc1459 pairs collapse, ASCII
letters collapse with their lower case -/
def cls (c : Char) : Char :=
  if c == '[' || c == '{' then '{'
  else if c == '}' || c == ']' then '}'
  else if c == '|' || c == '\\' then '|'
  else if c == '^' || c == '~' then '^'
  else asciiLowerChar c

theorem cls_special_rep {k : Char} (hk : k = '{' ∨ k = '}' ∨ k = '|' ∨ k = '^') (c : Char)
    (h : asciiLowerChar c = k) : c = k := by
  apply asciiLowerChar_eq_of_not_lower _ h
  rcases hk with e | e | e | e <;> (subst e; decide)

theorem patCharMatch_eq_cls (p c : Char) : patCharMatch p c = (cls p == cls c) := by
  have fixB : ∀ k : Char, (k = '[' ∨ k = '{' ∨ k = '}' ∨ k = ']' ∨ k = '|' ∨ k = '\\' ∨ k = '^' ∨ k = '~') →
      asciiLowerChar k = k ∧ ¬ ('a' ≤ k ∧ k ≤ 'z') := by
    intro k hk
    rcases hk with e | e | e | e | e | e | e | e <;> (subst e; decide)
  unfold patCharMatch cls
  by_cases p1 : (p == '[' || p == '{') = true
  · simp only [p1, if_true]
    by_cases c1 : (c == '[' || c == '{') = true
    · simp [c1]
    · simp only [c1, Bool.false_eq_true, if_false]
      by_cases c2 : (c == '}' || c == ']') = true
      · simp [c2]
      · by_cases c3 : (c == '|' || c == '\\') = true
        · simp [c2, c3]
        · by_cases c4 : (c == '^' || c == '~') = true
          · simp [c2, c3, c4]
          · simp only [c2, c3, c4, Bool.false_eq_true, if_false]
            symm
            rw [beq_eq_false_iff_ne]
            intro e
            have := cls_special_rep (Or.inl rfl) c e.symm
            subst this
            simp at c1
  · simp only [p1, Bool.false_eq_true, if_false]
    by_cases p2 : (p == '}' || p == ']') = true
    · simp only [p2, if_true]
      by_cases c1 : (c == '[' || c == '{') = true
      · have : (c == '}' || c == ']') = false := by
          simp only [Bool.or_eq_true, beq_iff_eq] at c1
          rcases c1 with e | e <;> (subst e; decide)
        simp [c1, this]
      · by_cases c2 : (c == '}' || c == ']') = true
        · simp [c1, c2]
        · by_cases c3 : (c == '|' || c == '\\') = true
          · simp [c1, c2, c3]
          · by_cases c4 : (c == '^' || c == '~') = true
            · simp [c1, c2, c3, c4]
            · simp only [c1, c2, c3, c4, Bool.false_eq_true, if_false]
              symm
              rw [beq_eq_false_iff_ne]
              intro e
              have := cls_special_rep (Or.inr (Or.inl rfl)) c e.symm
              subst this
              simp at c2
    · simp only [p2, Bool.false_eq_true, if_false]
      by_cases p3 : (p == '|' || p == '\\') = true
      · simp only [p3, if_true]
        by_cases c1 : (c == '[' || c == '{') = true
        · have : (c == '|' || c == '\\') = false := by
            simp only [Bool.or_eq_true, beq_iff_eq] at c1
            rcases c1 with e | e <;> (subst e; decide)
          simp [c1, this]
        · by_cases c2 : (c == '}' || c == ']') = true
          · have : (c == '|' || c == '\\') = false := by
              simp only [Bool.or_eq_true, beq_iff_eq] at c2
              rcases c2 with e | e <;> (subst e; decide)
            simp [c1, c2, this]
          · by_cases c3 : (c == '|' || c == '\\') = true
            · simp [c1, c2, c3]
            · by_cases c4 : (c == '^' || c == '~') = true
              · simp [c1, c2, c3, c4]
              · simp only [c1, c2, c3, c4, Bool.false_eq_true, if_false]
                symm
                rw [beq_eq_false_iff_ne]
                intro e
                have := cls_special_rep (Or.inr (Or.inr (Or.inl rfl))) c e.symm
                subst this
                simp at c3
      · simp only [p3, Bool.false_eq_true, if_false]
        by_cases p4 : (p == '^' || p == '~') = true
        · simp only [p4, if_true]
          have flip : (c == '~' || c == '^') = (c == '^' || c == '~') := Bool.or_comm _ _
          rw [flip]
          by_cases c1 : (c == '[' || c == '{') = true
          · have : (c == '^' || c == '~') = false := by
              simp only [Bool.or_eq_true, beq_iff_eq] at c1
              rcases c1 with e | e <;> (subst e; decide)
            simp [c1, this]
          · by_cases c2 : (c == '}' || c == ']') = true
            · have : (c == '^' || c == '~') = false := by
                simp only [Bool.or_eq_true, beq_iff_eq] at c2
                rcases c2 with e | e <;> (subst e; decide)
              simp [c1, c2, this]
            · by_cases c3 : (c == '|' || c == '\\') = true
              · have : (c == '^' || c == '~') = false := by
                  simp only [Bool.or_eq_true, beq_iff_eq] at c3
                  rcases c3 with e | e <;> (subst e; decide)
                simp [c1, c2, c3, this]
              · by_cases c4 : (c == '^' || c == '~') = true
                · simp [c1, c2, c3, c4]
                · simp only [c1, c2, c3, c4, Bool.false_eq_true, if_false]
                  symm
                  rw [beq_eq_false_iff_ne]
                  intro e
                  have := cls_special_rep (Or.inr (Or.inr (Or.inr rfl))) c e.symm
                  subst this
                  simp at c4
        · simp only [p4, Bool.false_eq_true, if_false]
          -- `p` is an ordinary character
          have pne : ∀ k : Char, (k = '[' ∨ k = '{' ∨ k = '}' ∨ k = ']' ∨ k = '|' ∨ k = '\\' ∨ k = '^' ∨ k = '~') →
              asciiLowerChar p ≠ k := by
            intro k hk e
            have := asciiLowerChar_eq_of_not_lower (fixB k hk).2 e
            subst this
            rcases hk with e | e | e | e | e | e | e | e <;> (subst e; simp at p1 p2 p3 p4)
          have classCase : ∀ (k r : Char),
              (k = '[' ∨ k = '{' ∨ k = '}' ∨ k = ']' ∨ k = '|' ∨ k = '\\' ∨ k = '^' ∨ k = '~') →
              (r = '{' ∨ r = '}' ∨ r = '|' ∨ r = '^') →
              (asciiLowerChar p == asciiLowerChar k) = (asciiLowerChar p == r) := by
            intro k r hk hr
            rw [(fixB k hk).1]
            have h1 : (asciiLowerChar p == k) = false := by rw [beq_eq_false_iff_ne]; exact pne k hk
            have h2 : (asciiLowerChar p == r) = false := by
              rw [beq_eq_false_iff_ne]
              apply pne r
              rcases hr with e | e | e | e <;> (subst e; simp)
            rw [h1, h2]
          by_cases c1 : (c == '[' || c == '{') = true
          · simp only [c1, if_true]
            simp only [Bool.or_eq_true, beq_iff_eq] at c1
            rcases c1 with e | e <;> (subst e; exact classCase _ _ (by simp) (by simp))
          · simp only [c1, Bool.false_eq_true, if_false]
            by_cases c2 : (c == '}' || c == ']') = true
            · simp only [c2, if_true]
              simp only [Bool.or_eq_true, beq_iff_eq] at c2
              rcases c2 with e | e <;> (subst e; exact classCase _ _ (by simp) (by simp))
            · simp only [c2, Bool.false_eq_true, if_false]
              by_cases c3 : (c == '|' || c == '\\') = true
              · simp only [c3, if_true]
                simp only [Bool.or_eq_true, beq_iff_eq] at c3
                rcases c3 with e | e <;> (subst e; exact classCase _ _ (by simp) (by simp))
              · simp only [c3, Bool.false_eq_true, if_false]
                by_cases c4 : (c == '^' || c == '~') = true
                · simp only [c4, if_true]
                  simp only [Bool.or_eq_true, beq_iff_eq] at c4
                  rcases c4 with e | e <;> (subst e; exact classCase _ _ (by simp) (by simp))
                · simp only [c4, Bool.false_eq_true, if_false]

/-- obligation on the extracted case table: both characters of every pair are in the same
pattern class (this is what makes hostmask matching IRC-case-insensitive) -/
theorem rfc1459_table_classes : Gen.rfc1459Table.all (fun p => cls p.1 == cls p.2) = true := by decide

theorem cls_toLowerChar (c : Char) : cls (toLowerChar c) = cls c := by
  rcases toLowerChar_cases c with h | h
  · rw [h]
  · have := rfc1459_table_classes
    rw [List.all_eq_true] at this
    have := this _ h
    simp only [beq_iff_eq] at this
    exact this.symm

theorem patCharMatch_toLower (p c : Char) :
    patCharMatch (toLowerChar p) (toLowerChar c) = patCharMatch p c := by
  rw [patCharMatch_eq_cls, patCharMatch_eq_cls, cls_toLowerChar, cls_toLowerChar]

theorem mem_special_star : '*' ∈ specialChars := by decide
theorem mem_special_qmark : '?' ∈ specialChars := by decide
theorem mem_special_lf : '\n' ∈ specialChars := by decide

theorem beq_special_toLowerChar {k : Char} (hk : k ∈ specialChars) (c : Char) :
    (toLowerChar c == k) = (c == k) := by
  by_cases h : c = k
  · subst h; rw [toLowerChar_special hk]
  · have : toLowerChar c ≠ k := fun e => h ((toLowerChar_eq_special hk).1 e)
    have e1 : (toLowerChar c == k) = false := by simp [this]
    have e2 : (c == k) = false := by simp [h]
    rw [e1, e2]

theorem bne_special_toLowerChar {k : Char} (hk : k ∈ specialChars) (c : Char) :
    (toLowerChar c != k) = (c != k) := by
  simp only [bne, beq_special_toLowerChar hk]

theorem starAux_toLower {k k' : Str → Bool} (hk : ∀ h, k' (toLower h) = k h) (h : Str) :
    starAux k' (toLower h) = starAux k h := by
  induction h with
  | nil => simp only [toLower_nil, starAux]; exact hk []
  | cons c cs ih =>
    simp only [toLower_cons, starAux]
    have := hk (c :: cs)
    simp only [toLower_cons] at this
    rw [this, bne_special_toLowerChar mem_special_lf, ih]

/-- **hostmask matching is IRC-case-insensitive**: a pattern matches a hostmask iff the
IRC-lowered pattern matches the IRC-lowered hostmask (ASCII letters, `[]\~` ↔ `{}|^`) -/
theorem glob_case (p h : Str) : glob (toLower p) (toLower h) = glob p h := by
  induction p generalizing h with
  | nil =>
    simp only [toLower_nil, glob]
    cases h with
    | nil => rfl
    | cons c cs =>
      cases cs with
      | nil =>
        simp only [toLower_cons, toLower_nil]
        by_cases hc : c = '\n'
        · subst hc; simp [toLowerChar_special mem_special_lf]
        · simp
          exact beq_special_toLowerChar mem_special_lf c
      | cons d ds => simp [toLower_cons]
  | cons x xs ih =>
    simp only [toLower_cons, glob, beq_special_toLowerChar mem_special_star,
      beq_special_toLowerChar mem_special_qmark]
    split
    · exact starAux_toLower ih h
    · cases h with
      | nil => rfl
      | cons c cs =>
        simp only [toLower_cons, bne_special_toLowerChar mem_special_lf, patCharMatch_toLower, ih]

end C04
