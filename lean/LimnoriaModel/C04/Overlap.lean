/-
C04 — "two accounts can never own overlapping masks" as an invariant of every history:
no operation leaves two different accounts with masks that have a hostmask (without LF) in common.
-/
import LimnoriaModel.C04.Lemmas
import LimnoriaModel.C04.Glob
namespace C04
open Py C03

/-- every mask of `b` is a mask of the same account in `a` -/
def MasksFrom (a b : List User) : Prop :=
  ∀ u' ∈ b, ∀ m ∈ u'.hostmasks, ∃ u ∈ a, u.id = u'.id ∧ m ∈ u.hostmasks

/-- no hostmask (without LF — IRC prefixes have none) is matched by masks of two different accounts -/
def NoCommon (l : List User) : Prop :=
  ∀ u ∈ l, ∀ v ∈ l, u.id ≠ v.id → ∀ p ∈ u.hostmasks, ∀ q ∈ v.hostmasks,
    ∀ s, '\n' ∉ s → ¬ (glob p s = true ∧ glob q s = true)

/-- the same, for the pairs that do not involve account `id` -/
def NoCommonExcept (l : List User) (id : Nat) : Prop :=
  ∀ u ∈ l, ∀ v ∈ l, u.id ≠ v.id → u.id ≠ id → v.id ≠ id → ∀ p ∈ u.hostmasks, ∀ q ∈ v.hostmasks,
    ∀ s, '\n' ∉ s → ¬ (glob p s = true ∧ glob q s = true)

theorem NoCommon.except {l : List User} (h : NoCommon l) (id : Nat) : NoCommonExcept l id :=
  fun u hu v hv hne _ _ => h u hu v hv hne

theorem masksFrom_refl (a : List User) : MasksFrom a a := fun u' hu m hm => ⟨u', hu, rfl, hm⟩

theorem masksFrom_trans {a b c : List User} (h1 : MasksFrom a b) (h2 : MasksFrom b c) : MasksFrom a c := by
  intro u' hu m hm
  obtain ⟨v, hv, hid, hmv⟩ := h2 u' hu m hm
  obtain ⟨w, hw, hid', hmw⟩ := h1 v hv m hmv
  exact ⟨w, hw, hid'.trans hid, hmw⟩

theorem noCommon_of_masksFrom {a b : List User} (h : NoCommon a) (hm : MasksFrom a b) : NoCommon b := by
  intro u hu v hv hne p hp q hq s hs
  obtain ⟨u0, hu0, e1, hp0⟩ := hm u hu p hp
  obtain ⟨v0, hv0, e2, hq0⟩ := hm v hv q hq
  exact h u0 hu0 v0 hv0 (by rw [e1, e2]; exact hne) p hp0 q hq0 s hs

theorem noCommon_of_masksFrom_except {a b : List User} {id : Nat} (h : NoCommonExcept a id)
    (hm : MasksFrom a b) (hid : ∀ u ∈ b, u.id ≠ id) : NoCommon b := by
  intro u hu v hv hne p hp q hq s hs
  obtain ⟨u0, hu0, e1, hp0⟩ := hm u hu p hp
  obtain ⟨v0, hv0, e2, hq0⟩ := hm v hv q hq
  exact h u0 hu0 v0 hv0 (by rw [e1, e2]; exact hne) (by rw [e1]; exact hid u hu) (by rw [e2]; exact hid v hv)
    p hp0 q hq0 s hs

theorem masksFrom_put {l : List User} {u : User}
    (h : ∀ m ∈ u.hostmasks, ∃ v ∈ l, v.id = u.id ∧ m ∈ v.hostmasks) : MasksFrom l (putUser l u) := by
  intro u' hu m hm
  rcases C03.mem_putUser hu with e | e
  · subst e; exact h m hm
  · exact ⟨u', e, rfl, hm⟩

theorem masksRemove_sub {ms ms' : List Str} {m : Str} (h : masksRemove ms m = some ms') :
    ∀ x ∈ ms', x ∈ ms ∧ maskEq x m = false := by
  unfold masksRemove at h
  split at h
  · injection h with h; subst h
    intro x hx
    have := List.mem_filter.1 hx
    exact ⟨this.1, by simpa using this.2⟩
  · cases h

theorem removeOffending_masks (us : List User) (ids : List (Nat × CH)) :
    MasksFrom us (removeOffending us ids).1 := by
  induction ids generalizing us with
  | nil => exact masksFrom_refl _
  | cons x rest ih =>
    obtain ⟨id, c⟩ := x
    simp only [removeOffending]
    cases hf : us.find? (fun u => u.id == id) with
    | none => exact masksFrom_refl _
    | some u =>
      simp only
      split
      · exact masksFrom_refl _
      · rename_i ms hms
        have hm : u ∈ us := List.mem_of_find?_eq_some hf
        have h1 : MasksFrom us (putUser us { u with hostmasks := ms }) :=
          masksFrom_put (fun m hmm => ⟨u, hm, rfl, (masksRemove_sub hms m hmm).1⟩)
        exact masksFrom_trans h1 (ih _)

theorem slowPath_masks (st : St) (s : Str) : MasksFrom st.db.users (slowPath st s).1.db.users := by
  unfold slowPath
  split
  · exact masksFrom_refl _
  · exact masksFrom_refl _
  · exact removeOffending_masks _ _

theorem getUserId_masks (st : St) (s : Str) : MasksFrom st.db.users (getUserId st s).1.db.users := by
  unfold getUserId
  split
  · unfold getUserIdHost
    split
    · split
      · split
        · exact masksFrom_refl _
        · have := slowPath_masks (invalidateHost st s) s
          rw [(invalidateHost_db st s).1] at this
          exact this
      · exact slowPath_masks st s
    · exact slowPath_masks st s
  · unfold getUserIdName
    simp only
    split
    · exact masksFrom_refl _
    · split <;> exact masksFrom_refl _

/-- the records `setUser` works on after its name lookup -/
def afterNameLookup (st : St) (u : User) : St :=
  (getUserId { st with hc := {}, nc := {}, nextId := max st.nextId u.id } u.name).1

theorem afterNameLookup_masks (st : St) (u : User) : MasksFrom st.db.users (afterNameLookup st u).db.users :=
  getUserId_masks _ _

theorem afterNameLookup_inv {st : St} (hr : RecInv st) (u : User) : Inv (afterNameLookup st u) := by
  have hi1 : Inv { st with hc := {}, nc := {}, nextId := max st.nextId u.id } := by
    refine ⟨⟨hr.nodup, hr.names, ?_⟩, cacheInv_empty rfl rfl⟩
    intro v hv
    have := hr.ids v hv
    simp only
    omega
  exact getUserId_inv hi1 u.name

/-- outcome of `setUser`, in terms of the records after the name lookup -/
theorem setUser_outcome (st : St) (u : User) (live : Bool) :
    ((setUser st u live).2 ≠ .ok () ∧ (setUser st u live).1.db.users = st.db.users) ∨
    ((setUser st u live).2 ≠ .ok () ∧ (setUser st u live).1.db.users = (afterNameLookup st u).db.users) ∨
    ((setUser st u live).2 = .ok () ∧
      (setUser st u live).1.db.users =
        putUser (afterNameLookup st u).db.users (finalRecord (afterNameLookup st u) u live) ∧
      overlaps (afterNameLookup st u).db.users (afterNameLookup st u).db.timeout (afterNameLookup st u).now
        (finalRecord (afterNameLookup st u) u live) = false) := by
  unfold setUser afterNameLookup
  split
  · exact Or.inl ⟨(fun h => by cases h), rfl⟩
  · dsimp only
    split
    · exact Or.inr (Or.inl ⟨(fun h => by cases h), rfl⟩)
    · split
      · exact Or.inr (Or.inl ⟨(fun h => by cases h), rfl⟩)
      · rename_i ho
        exact Or.inr (Or.inr ⟨rfl, rfl, by simpa using ho⟩)

theorem finalRecord_masks (r : St) (u : User) (live : Bool) :
    ∀ m ∈ (finalRecord r u live).hostmasks,
      (∃ v ∈ r.db.users, v.id = u.id ∧ m ∈ v.hostmasks) ∨ m ∈ u.hostmasks := by
  intro m hm
  unfold finalRecord at hm
  cases live
  · exact Or.inr hm
  · simp only [if_true] at hm
    cases hg : r.db.getUserById u.id with
    | none => rw [hg] at hm; exact Or.inr hm
    | some w =>
      rw [hg] at hm
      exact Or.inl ⟨w, (getUserById_spec hg).1, (getUserById_spec hg).2, hm⟩

theorem finalRecord_id' (r : St) (u : User) (live : Bool) : (finalRecord r u live).id = u.id := by
  unfold finalRecord
  cases live
  · rfl
  · simp only [if_true]
    cases hg : r.db.getUserById u.id with
    | none => rfl
    | some w => exact (getUserById_spec hg).2

/-- **`setUser` keeps the accounts' masks disjoint**: if, before the call, the masks of the
accounts other than `u.id` are pairwise disjoint, then afterwards all accounts' masks are — when it
accepts (the overlap test covered the stored record against everybody else), and also when it
refuses, provided the masks were disjoint including the stored record of `u.id`. -/
theorem setUser_noCommon {st : St} (hr : RecInv st) (u : User) (live : Bool)
    (hex : NoCommonExcept st.db.users u.id)
    (hfail : (setUser st u live).2 ≠ .ok () → NoCommon st.db.users) :
    NoCommon (setUser st u live).1.db.users := by
  have hm := afterNameLookup_masks st u
  have hinv := afterNameLookup_inv hr u
  rcases setUser_outcome st u live with ⟨hres, e⟩ | ⟨hres, e⟩ | ⟨_, e, hov⟩
  · rw [e]; exact hfail hres
  · rw [e]; exact noCommon_of_masksFrom (hfail hres) hm
  · rw [e]
    have hwid := finalRecord_id' (afterNameLookup st u) u live
    -- masks of the final record against another account: the overlap test
    have hnew : ∀ v ∈ (afterNameLookup st u).db.users, v.id ≠ u.id →
        ∀ p ∈ (finalRecord (afterNameLookup st u) u live).hostmasks, ∀ q ∈ v.hostmasks,
        ∀ s, '\n' ∉ s → ¬ (glob p s = true ∧ glob q s = true) := by
      intro v hv hne p hp q hq s hs ⟨h1, h2⟩
      unfold overlaps at hov
      rw [List.any_eq_false] at hov
      have h3 := hov p hp
      simp only [Bool.not_eq_true] at h3
      rw [List.any_eq_false] at h3
      have h4 := h3 v hv
      have hne' : (v.id != (finalRecord (afterNameLookup st u) u live).id) = true := by
        rw [hwid]; simpa using hne
      simp only [hne', Bool.true_and, Bool.not_eq_true, Bool.or_eq_false_iff] at h4
      have h5 := h4.2
      rw [List.any_eq_false] at h5
      have h6 := h5 q hq
      simp only [Bool.not_eq_true, Bool.or_eq_false_iff] at h6
      rw [intersect_complete hs h1 h2] at h6
      exact absurd h6.2 (by simp)
    intro x hx y hy hne p hp q hq s hs hboth
    rcases mem_putUser' hinv.recs.nodup hx with ex | ⟨hx', hxid⟩ <;>
      rcases mem_putUser' hinv.recs.nodup hy with ey | ⟨hy', hyid⟩
    · rw [ex, ey] at hne; exact hne rfl
    · rw [ex] at hp
      exact hnew y hy' (by rw [← hwid]; exact hyid) p hp q hq s hs hboth
    · rw [ey] at hq
      exact hnew x hx' (by rw [← hwid]; exact hxid) q hq p hp s hs ⟨hboth.2, hboth.1⟩
    · obtain ⟨x0, hx0, e1, hp0⟩ := hm x hx' p hp
      obtain ⟨y0, hy0, e2, hq0⟩ := hm y hy' q hq
      exact hex x0 hx0 y0 hy0 (by rw [e1, e2]; exact hne) (by rw [e1, ← hwid]; exact hxid)
        (by rw [e2, ← hwid]; exact hyid) p hp0 q hq0 s hs hboth

/-- masks after `setUser`: from the old records, or from `u` -/
theorem setUser_masks (st : St) (u : User) (live : Bool) :
    ∀ u' ∈ (setUser st u live).1.db.users, ∀ m ∈ u'.hostmasks,
      (∃ v ∈ st.db.users, v.id = u'.id ∧ m ∈ v.hostmasks) ∨ (u'.id = u.id ∧ m ∈ u.hostmasks) := by
  have hm := afterNameLookup_masks st u
  rcases setUser_outcome st u live with ⟨_, e⟩ | ⟨_, e⟩ | ⟨_, e, _⟩
  · rw [e]; intro u' hu m hmm; exact Or.inl ⟨u', hu, rfl, hmm⟩
  · rw [e]; intro u' hu m hmm; exact Or.inl (hm u' hu m hmm)
  · rw [e]
    intro u' hu m hmm
    rcases C03.mem_putUser hu with e1 | e1
    · subst e1
      have hwid := finalRecord_id' (afterNameLookup st u) u live
      rcases finalRecord_masks _ u live m hmm with ⟨v, hv, hid, hmv⟩ | h
      · obtain ⟨w, hw, hwid', hmw⟩ := hm v hv m hmv
        exact Or.inl ⟨w, hw, by rw [hwid', hid, hwid], hmw⟩
      · exact Or.inr ⟨hwid, h⟩
    · exact Or.inl (hm u' e1 m hmm)

theorem getUserId_sig (st : St) (s : Str) (hr : RecInv st) :
    sig (getUserId st s).1.db.users = sig st.db.users := by
  have hslow : ∀ st : St, (st.db.users.map (fun u => u.id)).Nodup →
      sig (slowPath st s).1.db.users = sig st.db.users := by
    intro st hnd
    unfold slowPath
    split
    · rfl
    · rfl
    · exact removeOffending_sig _ _ hnd
  unfold getUserId
  split
  · unfold getUserIdHost
    split
    · split
      · split
        · rfl
        · have := hslow (invalidateHost st s) (by rw [(invalidateHost_db st s).1]; exact hr.nodup)
          rw [(invalidateHost_db st s).1] at this
          exact this
      · exact hslow st hr.nodup
    · exact hslow st hr.nodup
  · unfold getUserIdName
    simp only
    split
    · rfl
    · split <;> rfl

theorem noCommonExcept_put {l : List User} (hnd : (l.map (fun u => u.id)).Nodup) (h : NoCommon l)
    (u : User) : NoCommonExcept (putUser l u) u.id := by
  intro x hx y hy hne hxid hyid p hp q hq s hs
  rcases mem_putUser' hnd hx with e | ⟨hx', _⟩
  · rw [e] at hxid; exact absurd rfl hxid
  · rcases mem_putUser' hnd hy with e | ⟨hy', _⟩
    · rw [e] at hyid; exact absurd rfl hyid
    · exact h x hx' y hy' hne p hp q hq s hs

theorem noCommon_put_sub {l : List User} (h : NoCommon l) {u : User}
    (hsub : ∀ m ∈ u.hostmasks, ∃ v ∈ l, v.id = u.id ∧ m ∈ v.hostmasks) : NoCommon (putUser l u) :=
  noCommon_of_masksFrom h (masksFrom_put hsub)

theorem delUser_masks (st : St) (id : Nat) : MasksFrom st.db.users (delUser st id).1.db.users := by
  unfold delUser
  split
  · exact masksFrom_refl _
  · dsimp only
    rw [(invalidateId_db _ id).1]
    intro u' hu m hm
    exact ⟨u', (List.mem_filter.1 hu).1, rfl, hm⟩

theorem delUser_no_id (st : St) (id : Nat) (h : ∃ u ∈ st.db.users, u.id = id) :
    ∀ u ∈ (delUser st id).1.db.users, u.id ≠ id := by
  unfold delUser
  split
  · rename_i hn
    obtain ⟨u, hu, hid⟩ := h
    have : st.db.getUserById id ≠ none := by
      unfold Db.getUserById
      intro e
      rw [List.find?_eq_none] at e
      exact e u hu (by simp [hid])
    exact absurd hn this
  · dsimp only
    rw [(invalidateId_db _ id).1]
    intro u hu
    have := (List.mem_filter.1 hu).2
    simpa using this

/-- a record is changed without new masks (same id, same name), then `setUser` -/
theorem put_setUser_noCommon {st : St} (hi : Inv st) (hnc : NoCommon st.db.users) (u1 : User) (live : Bool)
    (hrec : RecInv { st with db := st.db.putUser u1 })
    (hsub : ∀ m ∈ u1.hostmasks, ∃ v ∈ st.db.users, v.id = u1.id ∧ m ∈ v.hostmasks) :
    NoCommon (setUser { st with db := st.db.putUser u1 } u1 live).1.db.users := by
  have h1 : NoCommon ({ st with db := st.db.putUser u1 } : St).db.users := noCommon_put_sub hnc hsub
  exact setUser_noCommon hrec u1 live (h1.except _) (fun _ => h1)

/-- a record gains masks, then `setUser`; when refused, `cleanup` (rollback / deletion) follows -/
theorem withUser_noCommon {st : St} (hnc : NoCommon st.db.users) (id : Nat) (f : User → St × Out)
    (hf : ∀ u, u ∈ st.db.users → u.id = id → NoCommon (f u).1.db.users) :
    NoCommon (withUser st id f).1.db.users := by
  unfold withUser
  split
  · rename_i u hu
    obtain ⟨hm, hid⟩ := getUserById_spec hu
    exact hf u hm hid
  · exact hnc

theorem registerTail_noCommon {st1 : St} (hi1 : Inv st1) (hnc : NoCommon st1.db.users) (u0 : User)
    (hu0 : u0 ∈ st1.db.users) (hm0 : u0.hostmasks = []) (hn : hasLineBreak u0.name = false) (h : Option Str) :
    NoCommon (registerTail st1 u0 h).1.db.users := by
  unfold registerTail
  cases h with
  | none =>
    dsimp only
    have hs : NoCommon (setUser st1 u0).1.db.users :=
      setUser_noCommon hi1.recs u0 true (hnc.except _) (fun _ => hnc)
    split
    · exact hs
    · exact noCommon_of_masksFrom hs (delUser_masks _ _)
  | some h =>
    dsimp only
    cases ha : addHostmask u0 h with
    | error e => exact noCommon_of_masksFrom hnc (delUser_masks _ _)
    | ok u1 =>
      dsimp only
      obtain ⟨hid, hnm⟩ := addHostmask_same ha
      have hrec := recInv_put_same (u := u1) hi1.recs ⟨u0, hu0, hid.symm, hnm.symm⟩
      have hex : NoCommonExcept ({ st1 with db := st1.db.putUser u1 } : St).db.users u1.id :=
        noCommonExcept_put hi1.recs.nodup hnc u1
      by_cases hres : (setUser { st1 with db := st1.db.putUser u1 } u1).2 = .ok ()
      · have hs := setUser_noCommon hrec u1 true hex (fun hne => absurd hres hne)
        rw [hres]; exact hs
      · -- refused: the account is deleted again; what remains are the other accounts
        have hmasks : MasksFrom ({ st1 with db := st1.db.putUser u1 } : St).db.users
            (setUser { st1 with db := st1.db.putUser u1 } u1).1.db.users := by
          intro u' hu m hm
          rcases setUser_masks _ u1 true u' hu m hm with h' | ⟨h1, h2⟩
          · exact h'
          · exact ⟨u1, mem_putUser_self _ _, h1.symm, h2⟩
        have hsinv := setUser_inv hrec u1 (by rw [hnm]; exact hn)
        have hstill : ∃ w ∈ (setUser { st1 with db := st1.db.putUser u1 } u1).1.db.users, w.id = u0.id := by
          -- ids are never removed by setUser
          have hsig : ∀ (l l' : List User), MasksFrom l l' → True := fun _ _ _ => trivial
          rcases setUser_outcome { st1 with db := st1.db.putUser u1 } u1 true with ⟨_, e⟩ | ⟨_, e⟩ | ⟨hok, _, _⟩
          · rw [e]; exact ⟨u1, mem_putUser_self _ _, hid⟩
          · rw [e]
            -- the name lookup keeps the signature
            have hmem : (u1.id, u1.name) ∈ sig ({ st1 with db := st1.db.putUser u1 } : St).db.users :=
              mem_sig (mem_putUser_self _ _)
            have hsg : sig (afterNameLookup { st1 with db := st1.db.putUser u1 } u1).db.users =
                sig ({ st1 with db := st1.db.putUser u1 } : St).db.users := by
              unfold afterNameLookup
              exact getUserId_sig _ _ (by
                refine ⟨hrec.nodup, hrec.names, ?_⟩
                intro v hv; have := hrec.ids v hv; simp only at this ⊢; omega)
            rw [← hsg] at hmem
            obtain ⟨w, hw, hwid, _⟩ := of_mem_sig hmem
            exact ⟨w, hw, hwid.trans hid⟩
          · exact absurd hok hres
        split
        · rename_i hok; rw [hok] at hres; exact absurd rfl hres
        · refine noCommon_of_masksFrom_except (id := u0.id) ?_ (masksFrom_trans hmasks (delUser_masks _ _))
            (delUser_no_id _ _ hstill)
          rw [← hid]; exact hex

theorem addHostmask_masks {u u1 : User} {h : Str} (e : addHostmask u h = .ok u1) :
    u1.hostmasks = masksAdd u.hostmasks h := by
  unfold addHostmask at e
  split at e
  · cases e
  · split at e
    · cases e
    · injection e with e; subst e; rfl

theorem mem_masksAdd {ms : List Str} {h m : Str} (hm : m ∈ masksAdd ms h) : m ∈ ms ∨ m = h := by
  unfold masksAdd at hm
  split at hm
  · exact Or.inl hm
  · rcases List.mem_append.1 hm with e | e
    · exact Or.inl e
    · exact Or.inr (List.mem_singleton.1 e)

theorem maskEq_refl (h : Str) : maskEq h h = true := by simp [maskEq]

theorem addAuth_masks {u u1 : User} {t now : Int} {h : Str} (e : addAuth u t now h = .ok u1) :
    u1.hostmasks = u.hostmasks := by
  unfold addAuth at e
  split at e
  · injection e with e; subst e; rfl
  · cases e

theorem step_noCommon {st : St} (hi : Inv st) (hnc : NoCommon st.db.users) (op : Op) :
    NoCommon (step st op).1.db.users := by
  cases op with
  | register name h =>
    simp only [step]
    split
    · exact hnc
    · rename_i hlb
      have hn : hasLineBreak name = false := by simpa using hlb
      have hfresh : st.nextId + 1 ∉ st.db.users.map (fun u => u.id) := by
        intro hm
        obtain ⟨v, hv, e⟩ := List.mem_map.1 hm
        have := hi.recs.ids v hv
        omega
      have hst1 : ({ (newUser st).1 with db := (newUser st).1.db.putUser { id := (newUser st).2, name := name } } : St) =
          { st with nextId := st.nextId + 1,
                    db := { st.db with users := st.db.users ++ [{ id := st.nextId + 1, name := name }] } } := by
        simp only [newUser, Db.putUser]
        rw [putUser_fresh (u := { id := st.nextId + 1 }) hfresh,
          putUser_append_same (x := { id := st.nextId + 1 }) (u := { id := st.nextId + 1, name := name }) hfresh rfl]
      have hi1 := inv_append_blank hi name hn
      have hnc0 : NoCommon (st.db.users ++ [({ id := st.nextId + 1, name := name } : User)]) := by
        refine noCommon_of_masksFrom hnc ?_
        intro u' hu m hm
        rcases List.mem_append.1 hu with e | e
        · exact ⟨u', e, rfl, hm⟩
        · rw [List.mem_singleton] at e; subst e; cases hm
      have husers : ({ (newUser st).1 with db := (newUser st).1.db.putUser { id := (newUser st).2, name := name } } : St).db.users =
          st.db.users ++ [({ id := st.nextId + 1, name := name } : User)] := by rw [hst1]
      have hnc1 : NoCommon ({ (newUser st).1 with db := (newUser st).1.db.putUser { id := (newUser st).2, name := name } } : St).db.users := by
        rw [husers]; exact hnc0
      rw [← hst1] at hi1
      exact registerTail_noCommon hi1 hnc1 { id := (newUser st).2, name := name } (mem_putUser_self _ _) rfl hn h
  | addHost id h =>
    simp only [step]
    apply withUser_noCommon hnc
    intro u hu huid
    cases ha : addHostmask u h with
    | error e => exact hnc
    | ok u1 =>
      dsimp only
      obtain ⟨hid, hnm⟩ := addHostmask_same ha
      have hmk := addHostmask_masks ha
      have hrec := recInv_put_same (u := u1) hi.recs ⟨u, hu, hid.symm, hnm.symm⟩
      have hex : NoCommonExcept ({ st with db := st.db.putUser u1 } : St).db.users u1.id :=
        noCommonExcept_put hi.recs.nodup hnc u1
      by_cases hres : (setUser { st with db := st.db.putUser u1 } u1).2 = .ok ()
      · have hs := setUser_noCommon hrec u1 true hex (fun hne => absurd hres hne)
        rw [hres]; exact hs
      · have hsinv := setUser_inv hrec u1 (by rw [hnm]; exact hi.recs.names u hu)
        -- where the masks of the state after the refused `setUser` come from
        have hsrc : ∀ x ∈ (setUser { st with db := st.db.putUser u1 } u1).1.db.users, ∀ m ∈ x.hostmasks,
            (∃ v ∈ st.db.users, v.id = x.id ∧ m ∈ v.hostmasks) ∨ (x.id = u.id ∧ m = h) := by
          intro x hx m hm
          have key : ∀ v ∈ ({ st with db := st.db.putUser u1 } : St).db.users, v.id = x.id → m ∈ v.hostmasks →
              (∃ v ∈ st.db.users, v.id = x.id ∧ m ∈ v.hostmasks) ∨ (x.id = u.id ∧ m = h) := by
            intro v hv hvid hmv
            rcases C03.mem_putUser hv with e | e
            · subst e
              rw [hmk] at hmv
              rcases mem_masksAdd hmv with e1 | e1
              · exact Or.inl ⟨u, hu, by rw [← hvid, hid], e1⟩
              · exact Or.inr ⟨by rw [← hvid, hid], e1⟩
            · exact Or.inl ⟨v, e, hvid, hmv⟩
          rcases setUser_masks _ u1 true x hx m hm with ⟨v, hv, hvid, hmv⟩ | ⟨h1, h2⟩
          · exact key v hv hvid hmv
          · exact key u1 (mem_putUser_self _ _) h1.symm h2
        have hfinal : ∀ (l : List User), (∀ x ∈ l, ∀ m ∈ x.hostmasks,
              (∃ v ∈ st.db.users, v.id = x.id ∧ m ∈ v.hostmasks) ∨ (x.id = u.id ∧ m = h)) →
            (∀ x ∈ l, x.id = u.id → ∀ m ∈ x.hostmasks, maskEq m h = false) → NoCommon l := by
          intro l h1 h2
          refine noCommon_of_masksFrom hnc ?_
          intro x hx m hm
          rcases h1 x hx m hm with h' | ⟨e1, e2⟩
          · exact h'
          · have := h2 x hx e1 m hm
            rw [e2, maskEq_refl] at this; cases this
        split
        · rename_i hok; rw [hok] at hres; exact absurd rfl hres
        · split
          · -- no record of that id any more
            rename_i hnone
            apply hfinal _ hsrc
            intro x hx hxid
            exfalso
            unfold Db.getUserById at hnone
            rw [List.find?_eq_none] at hnone
            exact hnone x hx (by simp [hxid, huid])
          · rename_i u' hu'
            obtain ⟨hm', hid'⟩ := getUserById_spec hu'
            split
            · rename_i u2 hr
              unfold removeHostmask at hr
              cases hmr : masksRemove u'.hostmasks h with
              | none => rw [hmr] at hr; cases hr
              | some ms =>
                rw [hmr] at hr
                injection hr with hr; subst hr
                dsimp only
                apply hfinal
                · intro x hx m hm
                  rcases C03.mem_putUser hx with e | e
                  · subst e
                    exact hsrc u' hm' m (masksRemove_sub hmr m hm).1
                  · exact hsrc x e m hm
                · intro x hx hxid m hm
                  rcases mem_putUser' hsinv.recs.nodup hx with e | ⟨_, hne⟩
                  · subst e; exact (masksRemove_sub hmr m hm).2
                  · exact absurd (hxid.trans (huid.trans hid'.symm)) hne
            · -- `removeHostmask` found nothing to remove: no stored mask equals `h`
              rename_i e hr
              apply hfinal _ hsrc
              intro x hx hxid m hm
              have hxu : x = u' := users_id_inj hsinv.recs.nodup hx hm' (hxid.trans (huid.trans hid'.symm))
              subst hxu
              unfold removeHostmask masksRemove at hr
              split at hr
              · rename_i hms
                split at hms
                · cases hms; cases hr
                · rename_i hany
                  simp only [Bool.not_eq_true] at hany
                  rw [List.any_eq_false] at hany
                  simpa using hany m hm
              · rename_i hms
                split at hms
                · cases hms
                · rename_i hany
                  simp only [Bool.not_eq_true] at hany
                  rw [List.any_eq_false] at hany
                  simpa using hany m hm
  | rmHost id h =>
    simp only [step]
    apply withUser_noCommon hnc
    intro u hu huid
    cases ha : removeHostmask u h with
    | error e => exact hnc
    | ok u1 =>
      dsimp only
      obtain ⟨hid, hnm, _, hsub⟩ := removeHostmask_spec ha
      exact put_setUser_noCommon hi hnc u1 true (recInv_put_same hi.recs ⟨u, hu, hid.symm, hnm.symm⟩)
        (fun m hm => ⟨u, hu, hid.symm, hsub m hm⟩)
  | identify id h =>
    simp only [step]
    apply withUser_noCommon hnc
    intro u hu huid
    cases ha : addAuth u st.db.timeout st.now h with
    | error e => exact hnc
    | ok u1 =>
      dsimp only
      obtain ⟨hid, hnm⟩ := addAuth_same ha
      have hmk := addAuth_masks ha
      exact put_setUser_noCommon hi hnc u1 true (recInv_put_same hi.recs ⟨u, hu, hid.symm, hnm.symm⟩)
        (fun m hm => ⟨u, hu, hid.symm, hmk ▸ hm⟩)
  | unidentify id =>
    simp only [step]
    apply withUser_noCommon hnc
    intro u hu huid
    dsimp only [clearAuth]
    obtain ⟨h1, h2, h3⟩ := clearAuth_fold_inv hi u.auth
    have hu' : u ∈ (u.auth.foldl (fun s e => invalidateHost s e.2) st).db.users := by rw [h2]; exact hu
    have hnc' : NoCommon (u.auth.foldl (fun s e => invalidateHost s e.2) st).db.users := by rw [h2]; exact hnc
    exact put_setUser_noCommon h1 hnc' { u with auth := [] } true
      (recInv_put_same h1.recs ⟨u, hu', rfl, rfl⟩) (fun m hm => ⟨u, hu', rfl, hm⟩)
  | logout id =>
    simp only [step]
    apply withUser_noCommon hnc
    intro u hu huid
    dsimp only [clearAuth]
    obtain ⟨h1, h2, h3⟩ := clearAuth_fold_inv hi u.auth
    have hu' : u ∈ (u.auth.foldl (fun s e => invalidateHost s e.2) st).db.users := by rw [h2]; exact hu
    have hnc' : NoCommon (u.auth.foldl (fun s e => invalidateHost s e.2) st).db.users := by rw [h2]; exact hnc
    exact noCommon_of_masksFrom hnc' (masksFrom_put (fun m hm => ⟨u, hu', rfl, hm⟩))
  | rename id name =>
    simp only [step]
    apply withUser_noCommon hnc
    intro _ _ _
    have hg := getUserId_inv hi name
    have hncg : NoCommon (getUserId st name).1.db.users := noCommon_of_masksFrom hnc (getUserId_masks st name)
    split
    · exact hncg
    · split
      · exact hncg
      · rename_i hlb
        have hn : hasLineBreak name = false := by simpa using hlb
        apply withUser_noCommon hncg
        intro u hu huid
        dsimp only
        refine put_setUser_noCommon hg hncg { u with name := name } true ⟨putUser_nodup hg.recs.nodup, ?_, ?_⟩
          (fun m hm => ⟨u, hu, rfl, hm⟩)
        · intro v hv
          rcases mem_putUser' hg.recs.nodup hv with e | e
          · rw [e]; exact hn
          · exact hg.recs.names v e.1
        · intro v hv
          rcases mem_putUser' hg.recs.nodup hv with e | e
          · rw [e]; exact hg.recs.ids u hu
          · exact hg.recs.ids v e.1
    · exact hncg
  | secure id b =>
    simp only [step]
    apply withUser_noCommon hnc
    intro u hu huid
    exact put_setUser_noCommon hi hnc { u with secure := b } true
      (recInv_put_same hi.recs ⟨u, hu, rfl, rfl⟩) (fun m hm => ⟨u, hu, rfl, hm⟩)
  | followNick id old new =>
    simp only [step]
    apply withUser_noCommon hnc
    intro u hu huid
    split
    · exact hnc
    · split
      · exact put_setUser_noCommon hi hnc { u with auth := followFirst old new (pruneScan st.db.timeout st.now old u.auth) } true
          (recInv_put_same hi.recs ⟨u, hu, rfl, rfl⟩) (fun m hm => ⟨u, hu, rfl, hm⟩)
      · exact put_setUser_noCommon hi hnc { u with auth := followAuth old new (pruneScan st.db.timeout st.now old u.auth) } true
          (recInv_put_same hi.recs ⟨u, hu, rfl, rfl⟩) (fun m hm => ⟨u, hu, rfl, hm⟩)
  | clearHosts id =>
    simp only [step]
    apply withUser_noCommon hnc
    intro u hu huid
    exact put_setUser_noCommon hi hnc { u with hostmasks := [] } true
      (recInv_put_same hi.recs ⟨u, hu, rfl, rfl⟩) (fun m hm => by cases hm)
  | setName id name =>
    simp only [step]
    apply withUser_noCommon hnc
    intro u hu huid
    split
    · exact hnc
    · rename_i hlb
      have hn : hasLineBreak name = false := by simpa using hlb
      dsimp only
      refine put_setUser_noCommon hi hnc { u with name := name } true ⟨putUser_nodup hi.recs.nodup, ?_, ?_⟩
        (fun m hm => ⟨u, hu, rfl, hm⟩)
      · intro v hv
        rcases mem_putUser' hi.recs.nodup hv with e | e
        · rw [e]; exact hn
        · exact hi.recs.names v e.1
      · intro v hv
        rcases mem_putUser' hi.recs.nodup hv with e | e
        · rw [e]; exact hi.recs.ids u hu
        · exact hi.recs.ids v e.1
  | load id name sec masks =>
    simp only [step]
    have h1 : NoCommon (setUser st { id := id, name := name, secure := sec, hostmasks := masks.foldl masksAdd [] } false).1.db.users :=
      setUser_noCommon hi.recs _ false (hnc.except _) (fun _ => hnc)
    have hi1 := setUser_inv' hi { id := id, name := name, secure := sec, hostmasks := masks.foldl masksAdd [] } false
    split
    · exact h1
    · exact setUser_noCommon hi1.recs _ false (h1.except _) (fun _ => h1)
  | delUser id =>
    simp only [step]
    exact noCommon_of_masksFrom hnc (delUser_masks st id)
  | tick dt => exact hnc
  | lookup s =>
    simp only [step]
    exact noCommon_of_masksFrom hnc (getUserId_masks st s)
  | pruned id kept =>
    simp only [step]
    apply withUser_noCommon hnc
    intro u hu huid
    split
    · exact noCommon_of_masksFrom hnc (masksFrom_put (fun m hm => ⟨u, hu, rfl, hm⟩))
    · exact hnc
  | order id masks =>
    simp only [step]
    apply withUser_noCommon hnc
    intro u hu huid
    split
    · rename_i hcond
      simp only [Bool.and_eq_true, List.all_eq_true] at hcond
      exact noCommon_put_sub hnc (fun m hm => ⟨u, hu, rfl, by simpa using hcond.1.2 m hm⟩)
    · exact hnc

end C04
