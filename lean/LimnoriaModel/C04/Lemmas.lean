/-
C04 — helper lemmas: dictionaries, the cache invariant, its preservation by every operation,
agreement of the cached lookup with the cache-free one.
-/
import LimnoriaModel.C04.Model
import LimnoriaModel.C03.Props
namespace C04
open Py C03

/-! ### dictionaries -/

theorem mem_dset {κ ν} [BEq κ] {l : List (κ × ν)} {k : κ} {v : ν} {p : κ × ν}
    (h : p ∈ dset l k v) : p = (k, v) ∨ p ∈ l := by
  induction l with
  | nil => simp only [dset, List.mem_singleton] at h; exact Or.inl h
  | cons q qs ih =>
    obtain ⟨k', v'⟩ := q
    simp only [dset] at h
    split at h
    · rcases List.mem_cons.1 h with e | e
      · exact Or.inl e
      · exact Or.inr (List.mem_cons_of_mem _ e)
    · rcases List.mem_cons.1 h with e | e
      · exact Or.inr (e ▸ List.mem_cons_self)
      · rcases ih e with e' | e'
        · exact Or.inl e'
        · exact Or.inr (List.mem_cons_of_mem _ e')

theorem mem_ddel {κ ν} [BEq κ] [LawfulBEq κ] {l : List (κ × ν)} {k : κ} {p : κ × ν}
    (h : p ∈ ddel l k) : p ∈ l ∧ p.1 ≠ k := by
  unfold ddel at h
  rw [List.mem_filter] at h
  refine ⟨h.1, ?_⟩
  intro e
  have := h.2
  simp [e] at this

theorem lookup_dset_self {κ ν} [BEq κ] [LawfulBEq κ] (l : List (κ × ν)) (k : κ) (v : ν) :
    (dset l k v).lookup k = some v := by
  induction l with
  | nil => simp [dset]
  | cons q qs ih =>
    obtain ⟨k', v'⟩ := q
    simp only [dset]
    split
    · simp [List.lookup]
    · rename_i hne
      simp only [List.lookup]
      have : (k == k') = false := by
        cases h : (k == k') with
        | false => rfl
        | true =>
          have e : k = k' := by simpa using h
          subst e; simp at hne
      rw [this]; exact ih

theorem lookup_dset_ne {κ ν} [BEq κ] [LawfulBEq κ] (l : List (κ × ν)) {k k' : κ} (v : ν)
    (hne : k' ≠ k) : (dset l k v).lookup k' = l.lookup k' := by
  induction l with
  | nil =>
    have : (k' == k) = false := by simp [hne]
    simp [dset, List.lookup, this]
  | cons q qs ih =>
    obtain ⟨k2, v2⟩ := q
    simp only [dset]
    split
    · rename_i heq
      have e : k2 = k := by simpa using heq
      subst e
      have : (k' == k2) = false := by simp [hne]
      simp [List.lookup, this]
    · simp only [List.lookup]
      split
      · rfl
      · exact ih

/-! ### matching -/

/-- `checkHostmask`'s truth value is the Boolean of the C03 model -/
theorem truthy_eq (u : User) (t now : Int) (h : Str) (ua : Bool) :
    (checkHostmask u t now h ua).truthy = u.checkHostmask t now h ua := by
  unfold checkHostmask User.checkHostmask
  cases hm : (ua && u.authMatch t now h)
  · simp only [Bool.false_eq_true, if_false, Bool.false_or]
    cases u.patMatch h <;> rfl
  · simp only [if_true, Bool.true_or]; rfl

theorem authLive_mono {t now now' : Int} {e : Int × Str} (hle : now ≤ now')
    (h : authLive t now' e = true) : authLive t now e = true := by
  unfold authLive at h ⊢
  simp only [Bool.not_eq_true', Bool.and_eq_false_iff, bne_eq_false_iff_eq, decide_eq_false_iff_not] at h ⊢
  rcases h with h | h
  · exact Or.inl h
  · right; omega

theorem checkHostmask_mono {u : User} {t now now' : Int} {h : Str} {ua : Bool} (hle : now ≤ now')
    (hm : u.checkHostmask t now' h ua = true) : u.checkHostmask t now h ua = true := by
  unfold User.checkHostmask at hm ⊢
  simp only [Bool.or_eq_true, Bool.and_eq_true] at hm ⊢
  rcases hm with ⟨h1, h2⟩ | h2
  · left
    refine ⟨h1, ?_⟩
    unfold User.authMatch at h2 ⊢
    rw [List.any_eq_true] at h2 ⊢
    obtain ⟨e, he, hp⟩ := h2
    simp only [Bool.and_eq_true] at hp
    exact ⟨e, he, by simp only [Bool.and_eq_true]; exact ⟨authLive_mono hle hp.1, hp.2⟩⟩
  · exact Or.inr h2

theorem scan_eq (st : St) (s : Str) :
    scan st s = (st.db.users.filter (fun u => u.checkHostmask st.db.timeout st.now s true)).map
      (fun u => (u.id, checkHostmask u st.db.timeout st.now s true)) := by
  unfold scan
  induction st.db.users with
  | nil => rfl
  | cons u us ih =>
    simp only [List.filterMap_cons, List.filter_cons, truthy_eq] at ih ⊢
    by_cases hc : u.checkHostmask st.db.timeout st.now s true = true
    · simp only [hc, if_true, List.map_cons, ih]
    · simp only [hc, Bool.false_eq_true, if_false, ih]

/-- a cached lookup and the cache-free lookup agree -/
def agrees : Lookup → R Nat → Prop
  | .found u, .ok id => u.id = id
  | .missing, .error .key => True
  | .duplicate, .error .value => True
  | .duplicate, .error .key => True     -- `removeHostmask(True)` interrupts the removal loop
  | _, _ => False

theorem slowPath_agrees (st : St) (s : Str) (hs : isUserHostmask s = true) :
    agrees (st.db.lookup st.now s) (slowPath st s).2 := by
  unfold Db.lookup slowPath
  simp only [hs, if_true, scan_eq]
  cases hf : st.db.users.filter (fun u => u.checkHostmask st.db.timeout st.now s true) with
  | nil => simp [agrees]
  | cons u us =>
    cases us with
    | nil => simp [agrees]
    | cons v vs =>
      simp only [List.map_cons]
      split <;> simp [agrees]

theorem slowPath_db_now (st : St) (s : Str) : (slowPath st s).1.now = st.now ∧
    (slowPath st s).1.db.timeout = st.db.timeout ∧ (slowPath st s).1.nc = st.nc ∧
    (slowPath st s).1.nextId = st.nextId := by
  unfold slowPath
  split <;> simp

/-! ### invariants -/

/-- the records: distinct ids, no line break in a stored name, `nextId` bounds the ids -/
structure RecInv (st : St) : Prop where
  nodup : (st.db.users.map (fun u => u.id)).Nodup
  names : ∀ u ∈ st.db.users, hasLineBreak u.name = false
  ids : ∀ u ∈ st.db.users, u.id ≤ st.nextId

/-- the caches: a cached hostmask is a user hostmask that no *other* user matches now; a cached
name is the name under which the first user of that (lowered) name is found; the reverse entry of
every cached name exists -/
structure CacheInv (st : St) : Prop where
  host : ∀ p ∈ st.hc.fwd, isUserHostmask p.1 = true ∧
    ∀ v ∈ st.db.users, v.id ≠ p.2 → v.checkHostmask st.db.timeout st.now p.1 true = false
  name : ∀ p ∈ st.nc.fwd, ∃ u, st.db.users.find? (fun u => asciiLower u.name == p.1) = some u ∧ u.id = p.2
  rev : ∀ p ∈ st.nc.fwd, st.nc.rev.lookup p.2 = some p.1

structure Inv (st : St) : Prop where
  recs : RecInv st
  cache : CacheInv st

theorem getUserById_spec {db : Db} {id : Nat} {u : User} (h : db.getUserById id = some u) :
    u ∈ db.users ∧ u.id = id := by
  unfold Db.getUserById at h
  refine ⟨List.mem_of_find?_eq_some h, ?_⟩
  have := List.find?_some h
  simpa using this

theorem filter_singleton {l : List User} (hnd : (l.map (fun u => u.id)).Nodup) {u : User}
    (hu : u ∈ l) {p : User → Bool} (hp : p u = true)
    (ho : ∀ v ∈ l, v.id ≠ u.id → p v = false) : l.filter p = [u] := by
  induction l with
  | nil => cases hu
  | cons x xs ih =>
    simp only [List.map_cons, List.nodup_cons, List.mem_map, not_exists, not_and] at hnd
    by_cases hx : x = u
    · subst hx
      have : xs.filter p = [] := by
        rw [List.filter_eq_nil_iff]
        intro v hv
        have hne : v.id ≠ x.id := fun e => hnd.1 v hv e
        simp [ho v (List.mem_cons_of_mem _ hv) hne]
      simp [hp, this]
    · have hu' : u ∈ xs := by
        rcases List.mem_cons.1 hu with e | e
        · exact absurd e.symm hx
        · exact e
      have hne : x.id ≠ u.id := fun e => hnd.1 u hu' e.symm
      have hpx : p x = false := ho x List.mem_cons_self hne
      simp only [List.filter_cons, hpx, Bool.false_eq_true, if_false]
      exact ih hnd.2 hu' (fun v hv => ho v (List.mem_cons_of_mem _ hv))

/-- **the cached lookup answers what the cache-free lookup answers** (one state) -/
theorem getUserId_agrees {st : St} (hr : RecInv st) (hc : CacheInv st) (s : Str) :
    agrees (st.db.lookup st.now s) (getUserId st s).2 := by
  unfold getUserId
  by_cases hs : isUserHostmask s = true
  · simp only [hs, if_true]
    unfold getUserIdHost
    cases hl : st.hc.fwd.lookup s with
    | none => exact slowPath_agrees st s hs
    | some id =>
      simp only
      cases hg : st.db.getUserById id with
      | none => exact slowPath_agrees st s hs
      | some u =>
        simp only [truthy_eq]
        obtain ⟨hmem, hid⟩ := getUserById_spec hg
        by_cases hm : u.checkHostmask st.db.timeout st.now s true = true
        · simp only [hm, if_true]
          have hcache := (hc.host (s, id) (lookup_mem hl)).2
          have hf : st.db.users.filter (fun u => u.checkHostmask st.db.timeout st.now s true) = [u] :=
            filter_singleton hr.nodup hmem hm (fun v hv hne => hcache v hv (by rw [← hid]; exact hne))
          unfold Db.lookup
          simp only [hs, if_true, hf]
          exact hid
        · simp only [hm, Bool.false_eq_true, if_false]
          have h1 : (invalidateHost st s).db = st.db ∧ (invalidateHost st s).now = st.now := by
            unfold invalidateHost invalidateId
            split <;> simp
          have := slowPath_agrees (invalidateHost st s) s hs
          rw [h1.1, h1.2] at this
          exact this
  · simp only [hs, Bool.false_eq_true, if_false]
    unfold getUserIdName Db.lookup
    simp only [hs, Bool.false_eq_true, if_false]
    cases hl : st.nc.fwd.lookup (asciiLower s) with
    | some id =>
      obtain ⟨u, hf, hid⟩ := hc.name (asciiLower s, id) (lookup_mem hl)
      simp only at hf
      simp only [hf]
      exact hid
    | none =>
      simp only
      cases hf : st.db.users.find? (fun u => asciiLower u.name == asciiLower s) with
      | some u => simp [agrees]
      | none => simp [agrees]

/-! ### records: signature (ids and names in dict order) -/

/-- what `RecInv` and the name cache depend on -/
def sig (l : List User) : List (Nat × Str) := l.map (fun u => (u.id, u.name))

theorem ids_of_sig (l : List User) : l.map (fun u => u.id) = (sig l).map (fun p => p.1) := by
  simp [sig, List.map_map, Function.comp_def]

theorem sig_putUser_same {l : List User} {u : User}
    (h : ∃ v ∈ l, v.id = u.id ∧ v.name = u.name) (hnd : (l.map (fun u => u.id)).Nodup) :
    sig (putUser l u) = sig l := by
  induction l with
  | nil => obtain ⟨v, hv, _⟩ := h; cases hv
  | cons x xs ih =>
    simp only [List.map_cons, List.nodup_cons, List.mem_map, not_exists, not_and] at hnd
    simp only [putUser]
    by_cases hx : x.id = u.id
    · simp only [hx, if_true, sig, List.map_cons]
      obtain ⟨v, hv, hvid, hvn⟩ := h
      rcases List.mem_cons.1 hv with e | e
      · subst e; rw [hvn]
      · exact absurd (hvid.trans hx.symm) (hnd.1 v e)
    · simp only [hx, if_false, sig, List.map_cons]
      obtain ⟨v, hv, hvid, hvn⟩ := h
      have hv' : v ∈ xs := by
        rcases List.mem_cons.1 hv with e | e
        · subst e; exact absurd hvid hx
        · exact e
      have := ih ⟨v, hv', hvid, hvn⟩ hnd.2
      simp only [sig] at this
      rw [this]

theorem putUser_ids {l : List User} {u : User} :
    (putUser l u).map (fun u => u.id) =
      if u.id ∈ l.map (fun u => u.id) then l.map (fun u => u.id) else l.map (fun u => u.id) ++ [u.id] := by
  induction l with
  | nil => simp [putUser]
  | cons x xs ih =>
    simp only [putUser]
    by_cases hx : x.id = u.id
    · simp [hx]
    · simp only [hx, if_false, List.map_cons, ih, List.mem_cons]
      have : ¬ u.id = x.id := fun e => hx e.symm
      by_cases hm : u.id ∈ xs.map (fun u => u.id)
      · simp [hm]
      · simp [hm, this]

theorem putUser_nodup {l : List User} {u : User} (hnd : (l.map (fun u => u.id)).Nodup) :
    ((putUser l u).map (fun u => u.id)).Nodup := by
  rw [putUser_ids]
  split
  · exact hnd
  · rename_i hm
    rw [List.nodup_append]
    exact ⟨hnd, by simp, by
      intro a ha b hb
      rw [List.mem_singleton] at hb
      subst hb
      intro e; subst e; exact hm ha⟩

theorem mem_putUser' {l : List User} {u v : User} (hnd : (l.map (fun u => u.id)).Nodup)
    (h : v ∈ putUser l u) : v = u ∨ (v ∈ l ∧ v.id ≠ u.id) := by
  induction l with
  | nil => simp only [putUser, List.mem_singleton] at h; exact Or.inl h
  | cons x xs ih =>
    simp only [List.map_cons, List.nodup_cons, List.mem_map, not_exists, not_and] at hnd
    simp only [putUser] at h
    by_cases hx : x.id = u.id
    · simp only [hx, if_true] at h
      rcases List.mem_cons.1 h with e | e
      · exact Or.inl e
      · exact Or.inr ⟨List.mem_cons_of_mem _ e, fun hv => hnd.1 v e (hv.trans hx.symm)⟩
    · simp only [hx, if_false] at h
      rcases List.mem_cons.1 h with e | e
      · subst e; exact Or.inr ⟨List.mem_cons_self, hx⟩
      · rcases ih hnd.2 e with e' | e'
        · exact Or.inl e'
        · exact Or.inr ⟨List.mem_cons_of_mem _ e'.1, e'.2⟩

theorem mem_putUser_self (l : List User) (u : User) : u ∈ putUser l u := by
  induction l with
  | nil => simp [putUser]
  | cons x xs ih =>
    simp only [putUser]
    split
    · exact List.mem_cons_self
    · exact List.mem_cons_of_mem _ ih

theorem mem_sig {l : List User} {u : User} (h : u ∈ l) : (u.id, u.name) ∈ sig l :=
  List.mem_map.2 ⟨u, h, rfl⟩

theorem of_mem_sig {l : List User} {p : Nat × Str} (h : p ∈ sig l) : ∃ u ∈ l, u.id = p.1 ∧ u.name = p.2 := by
  obtain ⟨u, hu, e⟩ := List.mem_map.1 h
  exact ⟨u, hu, by rw [← e], by rw [← e]⟩

theorem recInv_of_sig {st st' : St} (h : RecInv st) (hs : sig st'.db.users = sig st.db.users)
    (hn : st.nextId ≤ st'.nextId) : RecInv st' := by
  refine ⟨?_, ?_, ?_⟩
  · rw [ids_of_sig, hs, ← ids_of_sig]; exact h.nodup
  · intro u hu
    have := mem_sig hu
    rw [hs] at this
    obtain ⟨v, hv, _, hvn⟩ := of_mem_sig this
    simp only at hvn
    rw [← hvn]; exact h.names v hv
  · intro u hu
    have := mem_sig hu
    rw [hs] at this
    obtain ⟨v, hv, hvi, _⟩ := of_mem_sig this
    have := h.ids v hv
    simp only at hvi
    omega

theorem findName_sig {l l' : List User} (hs : sig l = sig l') (n : Str) (k : Nat)
    (h : ∃ u, l.find? (fun u => asciiLower u.name == n) = some u ∧ u.id = k) :
    ∃ u, l'.find? (fun u => asciiLower u.name == n) = some u ∧ u.id = k := by
  induction l generalizing l' with
  | nil => obtain ⟨u, hu, _⟩ := h; cases hu
  | cons x xs ih =>
    cases l' with
    | nil => cases hs
    | cons y ys =>
      simp only [sig, List.map_cons, List.cons.injEq, Prod.mk.injEq] at hs
      obtain ⟨⟨hid, hname⟩, hrest⟩ := hs
      obtain ⟨u, hu, huk⟩ := h
      simp only [List.find?_cons] at hu ⊢
      rw [← hname]
      cases hc : (asciiLower x.name == n) with
      | true =>
        rw [hc] at hu
        injection hu with hu
        exact ⟨y, rfl, by rw [← hid, hu]; exact huk⟩
      | false =>
        rw [hc] at hu
        exact ih hrest ⟨u, hu, huk⟩

/-! ### the cache invariant is monotone: fewer entries, fewer matches -/

theorem cacheInv_empty {st : St} (h : st.hc.fwd = []) (h' : st.nc.fwd = []) : CacheInv st := by
  refine ⟨?_, ?_, ?_⟩
  · intro p hp; rw [h] at hp; cases hp
  · intro p hp; rw [h'] at hp; cases hp
  · intro p hp; rw [h'] at hp; cases hp

theorem lookup_ddel_ne {κ ν} [BEq κ] [LawfulBEq κ] (l : List (κ × ν)) {k k' : κ} (hne : k' ≠ k) :
    (ddel l k).lookup k' = l.lookup k' := by
  unfold ddel
  induction l with
  | nil => rfl
  | cons q qs ih =>
    obtain ⟨k2, v2⟩ := q
    simp only [List.filter_cons]
    by_cases h2 : k2 = k
    · subst h2
      have : (k' == k2) = false := by simp [hne]
      simp [List.lookup, this, ih]
    · have : (k2 == k) = false := by simp [h2]
      simp only [this, Bool.not_false, if_true, List.lookup]
      split
      · rfl
      · exact ih

theorem invalidateId_db (st : St) (id : Nat) :
    (invalidateId st id).db = st.db ∧ (invalidateId st id).now = st.now ∧
    (invalidateId st id).nextId = st.nextId := by
  unfold invalidateId; simp

theorem invalidateId_cache {st : St} (h : CacheInv st) (id : Nat) : CacheInv (invalidateId st id) := by
  obtain ⟨hdb, hnow, _⟩ := invalidateId_db st id
  refine ⟨?_, ?_, ?_⟩
  · intro p hp
    rw [hdb, hnow]
    apply h.host p
    unfold invalidateId at hp
    simp only at hp
    split at hp
    · exact (List.mem_filter.1 hp).1
    · exact hp
  · intro p hp
    rw [hdb]
    apply h.name p
    unfold invalidateId at hp
    simp only at hp
    split at hp
    · exact (mem_ddel hp).1
    · exact hp
  · intro p hp
    unfold invalidateId at hp ⊢
    simp only at hp ⊢
    cases hn : st.nc.rev.lookup id with
    | some n =>
      rw [hn] at hp
      simp only at hp ⊢
      obtain ⟨hp1, hp2⟩ := mem_ddel hp
      have hrev := h.rev p hp1
      have hne : p.2 ≠ id := by
        intro e
        rw [e, hn] at hrev
        injection hrev with hrev
        exact hp2 hrev.symm
      rw [lookup_ddel_ne _ hne]
      exact hrev
    | none =>
      rw [hn] at hp
      exact h.rev p hp

theorem invalidateHost_db (st : St) (h : Str) :
    (invalidateHost st h).db = st.db ∧ (invalidateHost st h).now = st.now ∧
    (invalidateHost st h).nextId = st.nextId := by
  unfold invalidateHost
  split
  · exact ⟨rfl, rfl, rfl⟩
  · have := invalidateId_db
    simp [this]

theorem invalidateHost_cache {st : St} (hc : CacheInv st) (h : Str) : CacheInv (invalidateHost st h) := by
  unfold invalidateHost
  split
  · exact hc
  · apply invalidateId_cache
    refine ⟨?_, hc.name, hc.rev⟩
    intro p hp
    exact hc.host p (mem_ddel hp).1

/-! ### `getUserId` preserves the invariant -/

theorem room_fwd_sub (hc : HCache) {p : Str × Nat} (h : p ∈ hc.room.fwd) : p ∈ hc.fwd := by
  unfold HCache.room at h
  split at h
  · cases h
  · exact h

theorem cacheInsert_fwd {hc : HCache} {s : Str} {id : Nat} {p : Str × Nat}
    (h : p ∈ (cacheInsert hc s id).fwd) : p = (s, id) ∨ p ∈ hc.fwd := by
  unfold cacheInsert at h
  simp only at h
  have key : ∀ q, q ∈ (hc.setFwd s id).fwd → q = (s, id) ∨ q ∈ hc.fwd := by
    intro q hq
    unfold HCache.setFwd at hq
    rcases mem_dset hq with e | e
    · exact Or.inl e
    · exact Or.inr (room_fwd_sub hc e)
  split at h
  · exact key p h
  · unfold HCache.setRev at h
    exact key p (room_fwd_sub _ h)

theorem removeOffending_sig (us : List User) (ids : List (Nat × CH))
    (hnd : (us.map (fun u => u.id)).Nodup) : sig (removeOffending us ids).1 = sig us := by
  induction ids generalizing us with
  | nil => rfl
  | cons x rest ih =>
    obtain ⟨id, c⟩ := x
    simp only [removeOffending]
    cases hf : us.find? (fun u => u.id == id) with
    | none => rfl
    | some u =>
      simp only
      split
      · rfl
      · rename_i ms _
        have hmem : u ∈ us := List.mem_of_find?_eq_some hf
        have hs : sig (putUser us { u with hostmasks := ms }) = sig us :=
          sig_putUser_same ⟨u, hmem, rfl, rfl⟩ hnd
        have hnd' : ((putUser us { u with hostmasks := ms }).map (fun u => u.id)).Nodup := putUser_nodup hnd
        rw [ih _ hnd', hs]

theorem scan_singleton {st : St} {s : Str} {id : Nat} {c : CH} (h : scan st s = [(id, c)]) :
    ∀ v ∈ st.db.users, v.id ≠ id → v.checkHostmask st.db.timeout st.now s true = false := by
  rw [scan_eq] at h
  intro v hv hne
  cases hm : v.checkHostmask st.db.timeout st.now s true with
  | false => rfl
  | true =>
    have hvf : v ∈ st.db.users.filter (fun u => u.checkHostmask st.db.timeout st.now s true) :=
      List.mem_filter.2 ⟨hv, hm⟩
    cases hF : st.db.users.filter (fun u => u.checkHostmask st.db.timeout st.now s true) with
    | nil => rw [hF] at hvf; cases hvf
    | cons u us =>
      rw [hF] at h hvf
      cases us with
      | nil =>
        simp only [List.map_cons, List.map_nil, List.cons.injEq, Prod.mk.injEq, and_true] at h
        have : v = u := by simpa using hvf
        rw [this] at hne
        exact absurd h.1 hne
      | cons w ws => simp at h

theorem slowPath_inv {st : St} (hi : Inv st) (s : Str) (hs : isUserHostmask s = true) :
    Inv (slowPath st s).1 := by
  unfold slowPath
  split
  · exact hi
  · rename_i id c hscan
    refine ⟨⟨hi.recs.nodup, hi.recs.names, hi.recs.ids⟩, ⟨?_, hi.cache.name, hi.cache.rev⟩⟩
    intro p hp
    rcases cacheInsert_fwd hp with e | e
    · subst e
      exact ⟨hs, scan_singleton hscan⟩
    · exact hi.cache.host p e
  · have hsig := removeOffending_sig st.db.users (scan st s) hi.recs.nodup
    refine ⟨recInv_of_sig hi.recs hsig (Nat.le_refl _), ⟨?_, ?_, hi.cache.rev⟩⟩
    · intro p hp; cases hp
    · intro p hp
      exact findName_sig hsig.symm p.1 p.2 (hi.cache.name p hp)

theorem nroom_fwd_sub (nc : NCache) {p : Str × Nat} (h : p ∈ nc.room.fwd) : p ∈ nc.fwd := by
  unfold NCache.room at h
  split at h
  · cases h
  · exact h

theorem nroom_rev (nc : NCache) {p : Str × Nat} (h : p ∈ nc.room.fwd) : nc.room.rev = nc.rev := by
  unfold NCache.room at h ⊢
  split at h
  · cases h
  · rename_i hc; simp [hc]

theorem users_id_inj {l : List User} (hnd : (l.map (fun u => u.id)).Nodup) {u v : User}
    (hu : u ∈ l) (hv : v ∈ l) (h : u.id = v.id) : u = v := by
  induction l with
  | nil => cases hu
  | cons x xs ih =>
    simp only [List.map_cons, List.nodup_cons, List.mem_map, not_exists, not_and] at hnd
    rcases List.mem_cons.1 hu with e | e <;> rcases List.mem_cons.1 hv with e' | e'
    · rw [e, e']
    · subst e; exact absurd h.symm (hnd.1 v e')
    · subst e'; exact absurd h (hnd.1 u e)
    · exact ih hnd.2 e e'

theorem getUserIdName_inv {st : St} (hi : Inv st) (s : Str) : Inv (getUserIdName st s).1 := by
  unfold getUserIdName
  simp only
  split
  · exact hi
  · split
    · rename_i u hf
      have hu : u ∈ st.db.users := List.mem_of_find?_eq_some hf
      have hname : (asciiLower u.name == asciiLower s) = true := by
        have := List.find?_some hf; simpa using this
      refine ⟨⟨hi.recs.nodup, hi.recs.names, hi.recs.ids⟩, ⟨hi.cache.host, ?_, ?_⟩⟩
      · intro p hp
        simp only [NCache.setRev] at hp
        have hp1 := nroom_fwd_sub _ hp
        simp only [NCache.setFwd] at hp1
        rcases mem_dset hp1 with e | e
        · subst e; exact ⟨u, hf, rfl⟩
        · exact hi.cache.name p (nroom_fwd_sub _ e)
      · intro p hp
        simp only [NCache.setRev] at hp ⊢
        have hrv := nroom_rev _ hp
        rw [hrv]
        have hp1 := nroom_fwd_sub _ hp
        simp only [NCache.setFwd] at hp1 ⊢
        rcases mem_dset hp1 with e | e
        · subst e; exact lookup_dset_self _ _ _
        · have hold := nroom_fwd_sub _ e
          by_cases hid : p.2 = u.id
          · -- the same user: the cached name is this lowered name
            obtain ⟨u', hf', hid'⟩ := hi.cache.name p hold
            have hu' : u' ∈ st.db.users := List.mem_of_find?_eq_some hf'
            have : u' = u := users_id_inj hi.recs.nodup hu' hu (hid'.trans hid)
            subst this
            have hn' : (asciiLower u'.name == p.1) = true := by
              have := List.find?_some hf'; simpa using this
            have e1 : asciiLower u'.name = p.1 := by simpa using hn'
            have e2 : asciiLower u'.name = asciiLower s := by simpa using hname
            rw [hid, ← e1, e2]; exact lookup_dset_self _ _ _
          · rw [lookup_dset_ne _ _ hid, nroom_rev _ e]
            exact hi.cache.rev p hold
    · exact hi

theorem invalidateHost_inv {st : St} (hi : Inv st) (h : Str) : Inv (invalidateHost st h) := by
  obtain ⟨hdb, _, hn⟩ := invalidateHost_db st h
  refine ⟨⟨?_, ?_, ?_⟩, invalidateHost_cache hi.cache h⟩
  · rw [hdb]; exact hi.recs.nodup
  · rw [hdb]; exact hi.recs.names
  · rw [hdb, hn]; exact hi.recs.ids

theorem getUserIdHost_inv {st : St} (hi : Inv st) (s : Str) (hs : isUserHostmask s = true) :
    Inv (getUserIdHost st s).1 := by
  unfold getUserIdHost
  split
  · split
    · split
      · exact hi
      · exact slowPath_inv (invalidateHost_inv hi s) s hs
    · exact slowPath_inv hi s hs
  · exact slowPath_inv hi s hs

theorem getUserId_inv {st : St} (hi : Inv st) (s : Str) : Inv (getUserId st s).1 := by
  unfold getUserId
  split
  · rename_i hs; exact getUserIdHost_inv hi s hs
  · exact getUserIdName_inv hi s

/-- what `getUserId` leaves alone -/
theorem getUserId_frame (st : St) (s : Str) :
    (getUserId st s).1.now = st.now ∧ (getUserId st s).1.db.timeout = st.db.timeout ∧
    (getUserId st s).1.nextId = st.nextId := by
  unfold getUserId
  split
  · unfold getUserIdHost
    have hsp := slowPath_db_now
    have hih := invalidateHost_db
    split
    · split
      · split
        · exact ⟨rfl, rfl, rfl⟩
        · refine ⟨?_, ?_, ?_⟩
          · rw [(hsp _ s).1, (hih st s).2.1]
          · rw [(hsp _ s).2.1, (hih st s).1]
          · rw [(hsp _ s).2.2.2, (hih st s).2.2]
      · exact ⟨(hsp _ s).1, (hsp _ s).2.1, (hsp _ s).2.2.2⟩
    · exact ⟨(hsp _ s).1, (hsp _ s).2.1, (hsp _ s).2.2.2⟩
  · unfold getUserIdName
    simp only
    split
    · exact ⟨rfl, rfl, rfl⟩
    · split <;> exact ⟨rfl, rfl, rfl⟩

/-! ### `setUser`, `delUser` -/

theorem finalRecord_spec {r : St} (hr : RecInv r) (u : User) (live : Bool)
    (hn : hasLineBreak u.name = false) :
    (finalRecord r u live).id = u.id ∧ hasLineBreak (finalRecord r u live).name = false := by
  unfold finalRecord
  cases live
  · exact ⟨rfl, hn⟩
  · simp only [if_true]
    cases hg : r.db.getUserById u.id with
    | none => exact ⟨rfl, hn⟩
    | some w =>
      obtain ⟨hm, hid⟩ := getUserById_spec hg
      exact ⟨hid, hr.names w hm⟩

theorem setUser_inv {st : St} (hr : RecInv st) (u : User) (hn : hasLineBreak u.name = false)
    (live : Bool := true) : Inv (setUser st u live).1 := by
  unfold setUser
  simp only [hn, Bool.false_eq_true, if_false]
  have hi1 : Inv { st with hc := {}, nc := {}, nextId := max st.nextId u.id } := by
    refine ⟨⟨hr.nodup, hr.names, ?_⟩, cacheInv_empty rfl rfl⟩
    intro v hv
    have := hr.ids v hv
    simp only
    omega
  have hi2 := getUserId_inv hi1 u.name
  have hfr := getUserId_frame { st with hc := {}, nc := {}, nextId := max st.nextId u.id } u.name
  have hfin := finalRecord_spec hi2.recs u live hn
  split
  · exact hi2
  · split
    · exact hi2
    · refine ⟨⟨?_, ?_, ?_⟩, cacheInv_empty rfl rfl⟩
      · exact putUser_nodup hi2.recs.nodup
      · intro v hv
        rcases mem_putUser' hi2.recs.nodup hv with e | e
        · rw [e]; exact hfin.2
        · exact hi2.recs.names v e.1
      · intro v hv
        simp only
        rcases mem_putUser' hi2.recs.nodup hv with e | e
        · rw [e, hfin.1, hfr.2.2]; simp only; omega
        · exact hi2.recs.ids v e.1

theorem setUser_inv' {st : St} (hi : Inv st) (u : User) (live : Bool := true) :
    Inv (setUser st u live).1 := by
  by_cases hn : hasLineBreak u.name = true
  · unfold setUser; simp only [hn, if_true]; exact hi
  · exact setUser_inv hi.recs u (by simpa using hn) live

theorem find?_filter_of_found {α} {l : List α} {p q : α → Bool} {a : α}
    (h : l.find? p = some a) (hq : q a = true) : (l.filter q).find? p = some a := by
  induction l with
  | nil => cases h
  | cons x xs ih =>
    simp only [List.find?_cons] at h
    cases hp : p x with
    | true =>
      rw [hp] at h
      injection h with h; subst h
      simp [hq, hp]
    | false =>
      rw [hp] at h
      simp only [List.filter_cons]
      split
      · simp only [List.find?_cons, hp]; exact ih h
      · exact ih h

theorem delUser_inv {st : St} (hi : Inv st) (id : Nat) : Inv (delUser st id).1 := by
  unfold delUser
  split
  · exact hi
  · simp only
    have hsub : ∀ v, v ∈ st.db.users.filter (fun u => u.id != id) → v ∈ st.db.users ∧ v.id ≠ id := by
      intro v hv
      have := List.mem_filter.1 hv
      exact ⟨this.1, by simpa using this.2⟩
    have hrec : RecInv { st with db := { st.db with users := st.db.users.filter (fun u => u.id != id) }, hc := {} } := by
      refine ⟨?_, fun v hv => hi.recs.names v (hsub v hv).1, fun v hv => hi.recs.ids v (hsub v hv).1⟩
      have : (st.db.users.filter (fun u => u.id != id)).map (fun u => u.id) =
          (st.db.users.map (fun u => u.id)).filter (fun i => i != id) := by
        rw [List.filter_map]; rfl
      simp only
      rw [this]
      exact hi.recs.nodup.filter _
    obtain ⟨hdb, hnow, hnx⟩ := invalidateId_db
      { st with db := { st.db with users := st.db.users.filter (fun u => u.id != id) }, hc := {} } id
    refine ⟨⟨?_, ?_, ?_⟩, ⟨?_, ?_, ?_⟩⟩
    · rw [hdb]; exact hrec.nodup
    · rw [hdb]; exact hrec.names
    · rw [hdb, hnx]; exact hrec.ids
    · intro p hp
      unfold invalidateId at hp
      simp only at hp
      split at hp <;> cases hp
    · -- names: entries of the deleted id are gone, the others still find their user first
      intro p hp
      rw [hdb]
      simp only
      unfold invalidateId at hp
      simp only at hp
      cases hn : st.nc.rev.lookup id with
      | some n =>
        rw [hn] at hp
        simp only at hp
        obtain ⟨hp1, hp2⟩ := mem_ddel hp
        obtain ⟨u, hf, hid⟩ := hi.cache.name p hp1
        have hne : u.id ≠ id := by
          intro e
          have hrev := hi.cache.rev p hp1
          rw [← hid, e, hn] at hrev
          injection hrev with hrev
          exact hp2 hrev.symm
        exact ⟨u, find?_filter_of_found hf (by simpa using hne), hid⟩
      | none =>
        rw [hn] at hp
        obtain ⟨u, hf, hid⟩ := hi.cache.name p hp
        have hne : u.id ≠ id := by
          intro e
          have hrev := hi.cache.rev p hp
          rw [← hid, e, hn] at hrev
          cases hrev
        exact ⟨u, find?_filter_of_found hf (by simpa using hne), hid⟩
    · intro p hp
      have hc0 : CacheInv st := hi.cache
      -- the name cache part of `invalidateId` does not look at the records
      have hc1 : CacheInv { st with hc := {} } := by
        refine ⟨?_, hc0.name, hc0.rev⟩
        intro q hq; cases hq
      have hrev0 := (invalidateId_cache hc1 id).rev
      exact hrev0 p hp

/-! ### record mutations -/

theorem recInv_put_same {st : St} (hr : RecInv st) {u : User}
    (h : ∃ v ∈ st.db.users, v.id = u.id ∧ v.name = u.name) :
    RecInv { st with db := st.db.putUser u } :=
  recInv_of_sig hr (sig_putUser_same h hr.nodup) (Nat.le_refl _)

theorem isUserHostmask_glob_nil {h : Str} (hh : isUserHostmask h = true) : glob [] h = false := by
  cases h with
  | nil => simp [isUserHostmask, userHostBody] at hh
  | cons c cs =>
    cases cs with
    | nil =>
      simp [isUserHostmask] at hh
      split at hh <;> simp [userHostBody] at hh
    | cons d ds => simp [glob]

/-- for a user hostmask the truth value of `checkHostmask` is "a live login from it, or some
pattern matches" — independent of the enumeration order of the patterns -/
theorem checkHostmask_any {h : Str} (hh : isUserHostmask h = true) (u : User) (t now : Int) (ua : Bool) :
    u.checkHostmask t now h ua = ((ua && u.authMatch t now h) || u.hostmasks.any (fun p => glob p h)) := by
  unfold User.checkHostmask User.patMatch
  congr 1
  cases hf : u.hostmasks.find? (fun p => glob p h) with
  | none =>
    simp only
    rw [List.find?_eq_none] at hf
    symm
    rw [List.any_eq_false]
    intro p hp; simpa using hf p hp
  | some p =>
    simp only
    have hg : glob p h = true := by have := List.find?_some hf; simpa using this
    have hne : p ≠ [] := by
      intro e; rw [e, isUserHostmask_glob_nil hh] at hg; cases hg
    have : u.hostmasks.any (fun p => glob p h) = true :=
      List.any_eq_true.2 ⟨p, List.mem_of_find?_eq_some hf, hg⟩
    rw [this]
    cases p with
    | nil => exact absurd rfl hne
    | cons _ _ => rfl

/-- replacing a record by one of the same id and name that matches no more user hostmasks than
before keeps the invariant -/
theorem inv_put_weaker {st : St} (hi : Inv st) {v u' : User} (hv : v ∈ st.db.users)
    (hid : u'.id = v.id) (hname : u'.name = v.name)
    (hw : ∀ h, isUserHostmask h = true → u'.checkHostmask st.db.timeout st.now h true = true →
      v.checkHostmask st.db.timeout st.now h true = true) :
    Inv { st with db := st.db.putUser u' } := by
  have hsig : sig (putUser st.db.users u') = sig st.db.users :=
    sig_putUser_same ⟨v, hv, hid.symm, hname.symm⟩ hi.recs.nodup
  refine ⟨recInv_put_same hi.recs ⟨v, hv, hid.symm, hname.symm⟩, ⟨?_, ?_, hi.cache.rev⟩⟩
  · intro p hp
    refine ⟨(hi.cache.host p hp).1, ?_⟩
    intro w hw' hne
    rcases mem_putUser' hi.recs.nodup hw' with e | e
    · subst e
      cases hc : w.checkHostmask st.db.timeout st.now p.1 true with
      | false => exact hc
      | true =>
        have := hw p.1 (hi.cache.host p hp).1 hc
        rw [(hi.cache.host p hp).2 v hv (by rw [← hid]; exact hne)] at this
        cases this
    · exact (hi.cache.host p hp).2 w e.1 hne
  · intro p hp
    exact findName_sig hsig.symm p.1 p.2 (hi.cache.name p hp)

theorem putUser_fresh {l : List User} {u : User} (h : u.id ∉ l.map (fun u => u.id)) :
    putUser l u = l ++ [u] := by
  induction l with
  | nil => rfl
  | cons x xs ih =>
    simp only [List.map_cons, List.mem_cons, not_or] at h
    have : ¬ x.id = u.id := fun e => h.1 e.symm
    simp only [putUser, this, if_false, List.cons_append, ih h.2]

theorem putUser_append_same {l : List User} {x u : User} (h : u.id ∉ l.map (fun u => u.id))
    (hx : x.id = u.id) : putUser (l ++ [x]) u = l ++ [u] := by
  induction l with
  | nil => simp [putUser, hx]
  | cons y ys ih =>
    simp only [List.map_cons, List.mem_cons, not_or] at h
    have : ¬ y.id = u.id := fun e => h.1 e.symm
    simp only [List.cons_append, putUser, this, if_false, ih h.2]

theorem blank_user_matches_nothing (id : Nat) (name : Str) (t now : Int) (h : Str) (ua : Bool) :
    ({ id := id, name := name } : User).checkHostmask t now h ua = false := by
  simp [User.checkHostmask, User.authMatch, User.patMatch]

/-- appending a fresh, blank account -/
theorem inv_append_blank {st : St} (hi : Inv st) (name : Str) (hn : hasLineBreak name = false) :
    Inv { st with nextId := st.nextId + 1,
                  db := { st.db with users := st.db.users ++ [{ id := st.nextId + 1, name := name }] } } := by
  have hfresh : st.nextId + 1 ∉ st.db.users.map (fun u => u.id) := by
    intro hm
    obtain ⟨v, hv, e⟩ := List.mem_map.1 hm
    have := hi.recs.ids v hv
    omega
  refine ⟨⟨?_, ?_, ?_⟩, ⟨?_, ?_, hi.cache.rev⟩⟩
  · simp only [List.map_append, List.map_cons, List.map_nil]
    rw [List.nodup_append]
    refine ⟨hi.recs.nodup, by simp, ?_⟩
    intro a ha b hb
    rw [List.mem_singleton] at hb
    subst hb
    intro e; subst e; exact hfresh ha
  · intro v hv
    rcases List.mem_append.1 hv with e | e
    · exact hi.recs.names v e
    · rw [List.mem_singleton] at e; subst e; exact hn
  · intro v hv
    simp only
    rcases List.mem_append.1 hv with e | e
    · have := hi.recs.ids v e; omega
    · rw [List.mem_singleton] at e; subst e; exact Nat.le_refl _
  · intro p hp
    refine ⟨(hi.cache.host p hp).1, ?_⟩
    intro v hv hne
    simp only at hv ⊢
    rcases List.mem_append.1 hv with e | e
    · exact (hi.cache.host p hp).2 v e hne
    · rw [List.mem_singleton] at e; subst e; exact blank_user_matches_nothing _ _ _ _ _ _
  · intro p hp
    obtain ⟨u, hf, hid⟩ := hi.cache.name p hp
    refine ⟨u, ?_, hid⟩
    simp only
    rw [List.find?_append, hf]; rfl

/-! ### every operation preserves the invariant -/

theorem addHostmask_same {u u1 : User} {h : Str} (e : addHostmask u h = .ok u1) :
    u1.id = u.id ∧ u1.name = u.name := by
  unfold addHostmask at e
  split at e
  · cases e
  · split at e
    · cases e
    · injection e with e; subst e; exact ⟨rfl, rfl⟩

theorem removeHostmask_spec {u u1 : User} {h : Str} (e : removeHostmask u h = .ok u1) :
    u1.id = u.id ∧ u1.name = u.name ∧ u1.auth = u.auth ∧ ∀ p ∈ u1.hostmasks, p ∈ u.hostmasks := by
  unfold removeHostmask masksRemove at e
  split at e
  · rename_i ms hms
    split at hms
    · injection hms with hms
      injection e with e; subst e hms
      exact ⟨rfl, rfl, rfl, fun p hp => (List.mem_filter.1 hp).1⟩
    · cases hms
  · cases e

theorem addAuth_same {u u1 : User} {t now : Int} {h : Str} (e : addAuth u t now h = .ok u1) :
    u1.id = u.id ∧ u1.name = u.name := by
  unfold addAuth at e
  split at e
  · injection e with e; subst e; exact ⟨rfl, rfl⟩
  · cases e

theorem clearAuth_fold_inv {st : St} (hi : Inv st) (l : List (Int × Str)) :
    Inv (l.foldl (fun s e => invalidateHost s e.2) st) ∧
    (l.foldl (fun s e => invalidateHost s e.2) st).db = st.db ∧
    (l.foldl (fun s e => invalidateHost s e.2) st).nextId = st.nextId := by
  induction l generalizing st with
  | nil => exact ⟨hi, rfl, rfl⟩
  | cons e es ih =>
    simp only [List.foldl_cons]
    obtain ⟨h1, h2, h3⟩ := ih (invalidateHost_inv hi e.2)
    obtain ⟨hdb, _, hnx⟩ := invalidateHost_db st e.2
    exact ⟨h1, by rw [h2, hdb], by rw [h3, hnx]⟩

theorem withUser_inv {st : St} (hi : Inv st) (id : Nat) (f : User → St × Out)
    (hf : ∀ u, u ∈ st.db.users → u.id = id → Inv (f u).1) : Inv (withUser st id f).1 := by
  unfold withUser
  split
  · rename_i u hu
    obtain ⟨hm, hid⟩ := getUserById_spec hu
    exact hf u hm hid
  · exact hi

theorem any_perm_eq {l l' : List Str} (q : Str → Bool)
    (h1 : l'.all (fun m => l.contains m) = true) (h2 : l.all (fun m => l'.contains m) = true) :
    l'.any q = l.any q := by
  rw [List.all_eq_true] at h1 h2
  cases ha : l.any q with
  | true =>
    rw [List.any_eq_true] at ha ⊢
    obtain ⟨x, hx, hq⟩ := ha
    have := h2 x hx
    exact ⟨x, by simpa using this, hq⟩
  | false =>
    rw [List.any_eq_false] at ha ⊢
    intro x hx
    have := h1 x hx
    exact ha x (by simpa using this)

theorem register_tail {st1 : St} (hi1 : Inv st1) (u0 : User) (hu0 : u0 ∈ st1.db.users)
    (hn : hasLineBreak u0.name = false) (h : Option Str) : Inv (registerTail st1 u0 h).1 := by
  unfold registerTail
  cases h with
  | none =>
    dsimp only
    have hs := setUser_inv hi1.recs u0 hn
    split
    · exact hs
    · exact delUser_inv hs _
  | some h =>
    dsimp only
    cases ha : addHostmask u0 h with
    | error e => exact delUser_inv hi1 _
    | ok u1 =>
      dsimp only
      obtain ⟨hid, hnm⟩ := addHostmask_same ha
      have hrec := recInv_put_same (u := u1) hi1.recs ⟨u0, hu0, hid.symm, hnm.symm⟩
      have hs := setUser_inv hrec u1 (by rw [hnm]; exact hn)
      split
      · exact hs
      · exact delUser_inv hs _

theorem step_inv {st : St} (hi : Inv st) (op : Op) : Inv (step st op).1 := by
  cases op with
  | register name h =>
    simp only [step]
    split
    · exact hi
    · rename_i hlb
      have hn : hasLineBreak name = false := by simpa using hlb
      have hfresh : st.nextId + 1 ∉ st.db.users.map (fun u => u.id) := by
        intro hm
        obtain ⟨v, hv, e⟩ := List.mem_map.1 hm
        have := hi.recs.ids v hv
        omega
      -- the state after `newUser()` and `user.name = name`
      have hst1 : ({ (newUser st).1 with db := (newUser st).1.db.putUser { id := (newUser st).2, name := name } } : St) =
          { st with nextId := st.nextId + 1,
                    db := { st.db with users := st.db.users ++ [{ id := st.nextId + 1, name := name }] } } := by
        simp only [newUser, Db.putUser]
        rw [putUser_fresh (u := { id := st.nextId + 1 }) hfresh,
          putUser_append_same (x := { id := st.nextId + 1 }) (u := { id := st.nextId + 1, name := name }) hfresh rfl]
      have hi1 := inv_append_blank hi name hn
      rw [← hst1] at hi1
      exact register_tail hi1 { id := (newUser st).2, name := name } (mem_putUser_self _ _) hn h
  | addHost id h =>
    simp only [step]
    apply withUser_inv hi
    intro u hu huid
    cases ha : addHostmask u h with
    | error e => exact hi
    | ok u1 =>
      simp only
      obtain ⟨hid, hnm⟩ := addHostmask_same ha
      have hrec := recInv_put_same (u := u1) hi.recs ⟨u, hu, hid.symm, hnm.symm⟩
      have hs := setUser_inv hrec u1 (by rw [hnm]; exact hi.recs.names u hu)
      split
      · exact hs
      · -- rollback on the stored record
        split
        · exact hs
        · rename_i u' hu'
          obtain ⟨hm', _⟩ := getUserById_spec hu'
          split
          · rename_i u2 hr
            obtain ⟨h1, h2, h3, h4⟩ := removeHostmask_spec hr
            refine inv_put_weaker hs hm' h1 h2 ?_
            intro hh hhh hc
            rw [checkHostmask_any hhh] at hc ⊢
            simp only [Bool.or_eq_true] at hc ⊢
            rcases hc with hc | hc
            · left
              simp only [User.authMatch, h3] at hc ⊢
              exact hc
            · right
              rw [List.any_eq_true] at hc ⊢
              obtain ⟨p, hp, hg⟩ := hc
              exact ⟨p, h4 p hp, hg⟩
          · exact hs
  | rmHost id h =>
    simp only [step]
    apply withUser_inv hi
    intro u hu huid
    cases ha : removeHostmask u h with
    | error e => exact hi
    | ok u1 =>
      simp only
      obtain ⟨hid, hnm, _, _⟩ := removeHostmask_spec ha
      have hrec := recInv_put_same (u := u1) hi.recs ⟨u, hu, hid.symm, hnm.symm⟩
      exact setUser_inv hrec u1 (by rw [hnm]; exact hi.recs.names u hu)
  | identify id h =>
    simp only [step]
    apply withUser_inv hi
    intro u hu huid
    cases ha : addAuth u st.db.timeout st.now h with
    | error e => exact hi
    | ok u1 =>
      simp only
      obtain ⟨hid, hnm⟩ := addAuth_same ha
      have hrec := recInv_put_same (u := u1) hi.recs ⟨u, hu, hid.symm, hnm.symm⟩
      exact setUser_inv hrec u1 (by rw [hnm]; exact hi.recs.names u hu)
  | unidentify id =>
    simp only [step]
    apply withUser_inv hi
    intro u hu huid
    simp only [clearAuth]
    obtain ⟨h1, h2, h3⟩ := clearAuth_fold_inv hi u.auth
    have hu' : u ∈ (u.auth.foldl (fun s e => invalidateHost s e.2) st).db.users := by rw [h2]; exact hu
    have hrec := recInv_put_same (u := { u with auth := [] }) h1.recs ⟨u, hu', rfl, rfl⟩
    exact setUser_inv hrec { u with auth := [] } (hi.recs.names u hu)
  | logout id =>
    simp only [step]
    apply withUser_inv hi
    intro u hu huid
    simp only [clearAuth]
    obtain ⟨h1, h2, h3⟩ := clearAuth_fold_inv hi u.auth
    have hu' : u ∈ (u.auth.foldl (fun s e => invalidateHost s e.2) st).db.users := by rw [h2]; exact hu
    refine inv_put_weaker h1 hu' rfl rfl ?_
    intro hh hhh hc
    rw [checkHostmask_any hhh] at hc ⊢
    simp only [User.authMatch, List.any_nil, Bool.and_false, Bool.false_or] at hc
    simp only [Bool.or_eq_true]
    exact Or.inr hc
  | rename id name =>
    simp only [step]
    apply withUser_inv hi
    intro _ _ _
    have hg := getUserId_inv hi name
    split
    · exact hg
    · split
      · exact hg
      · rename_i hlb
        have hn : hasLineBreak name = false := by simpa using hlb
        apply withUser_inv hg
        intro u hu huid
        simp only
        refine setUser_inv ⟨putUser_nodup hg.recs.nodup, ?_, ?_⟩ _ hn
        · intro v hv
          rcases mem_putUser' hg.recs.nodup hv with e | e
          · rw [e]; exact hn
          · exact hg.recs.names v e.1
        · intro v hv
          rcases mem_putUser' hg.recs.nodup hv with e | e
          · rw [e]; exact hg.recs.ids u hu
          · exact hg.recs.ids v e.1
    · exact hg
  | secure id b =>
    simp only [step]
    apply withUser_inv hi
    intro u hu huid
    have hrec := recInv_put_same (u := { u with secure := b }) hi.recs ⟨u, hu, rfl, rfl⟩
    exact setUser_inv hrec { u with secure := b } (hi.recs.names u hu)
  | followNick id old new =>
    simp only [step]
    apply withUser_inv hi
    intro u hu huid
    split
    · exact hi
    · split
      · have hrec := recInv_put_same (u := { u with auth := followFirst old new (pruneScan st.db.timeout st.now old u.auth) }) hi.recs ⟨u, hu, rfl, rfl⟩
        exact setUser_inv hrec { u with auth := followFirst old new (pruneScan st.db.timeout st.now old u.auth) } (hi.recs.names u hu)
      · have hrec := recInv_put_same (u := { u with auth := followAuth old new (pruneScan st.db.timeout st.now old u.auth) }) hi.recs ⟨u, hu, rfl, rfl⟩
        exact setUser_inv hrec { u with auth := followAuth old new (pruneScan st.db.timeout st.now old u.auth) } (hi.recs.names u hu)
  | clearHosts id =>
    simp only [step]
    apply withUser_inv hi
    intro u hu huid
    have hrec := recInv_put_same (u := { u with hostmasks := [] }) hi.recs ⟨u, hu, rfl, rfl⟩
    exact setUser_inv hrec { u with hostmasks := [] } (hi.recs.names u hu)
  | setName id name =>
    simp only [step]
    apply withUser_inv hi
    intro u hu huid
    split
    · exact hi
    · rename_i hlb
      have hn : hasLineBreak name = false := by simpa using hlb
      refine setUser_inv ⟨putUser_nodup hi.recs.nodup, ?_, ?_⟩ { u with name := name } hn
      · intro v hv
        rcases mem_putUser' hi.recs.nodup hv with e | e
        · rw [e]; exact hn
        · exact hi.recs.names v e.1
      · intro v hv
        rcases mem_putUser' hi.recs.nodup hv with e | e
        · rw [e]; exact hi.recs.ids u hu
        · exact hi.recs.ids v e.1
  | load id name sec masks =>
    simp only [step]
    have h1 := setUser_inv' hi { id := id, name := name, secure := sec, hostmasks := masks.foldl masksAdd [] } false
    split
    · exact h1
    · exact setUser_inv' h1 _ false
  | delUser id =>
    simp only [step]
    exact delUser_inv hi id
  | tick dt =>
    simp only [step]
    refine ⟨⟨hi.recs.nodup, hi.recs.names, hi.recs.ids⟩, ⟨?_, hi.cache.name, hi.cache.rev⟩⟩
    intro p hp
    refine ⟨(hi.cache.host p hp).1, ?_⟩
    intro v hv hne
    simp only
    cases hc : v.checkHostmask st.db.timeout (st.now + ↑dt) p.1 true with
    | false => rfl
    | true =>
      have := checkHostmask_mono (now := st.now) (by omega) hc
      rw [(hi.cache.host p hp).2 v hv hne] at this
      cases this
  | lookup s =>
    simp only [step]
    exact getUserId_inv hi s
  | pruned id kept =>
    simp only [step]
    apply withUser_inv hi
    intro u hu huid
    split
    · refine inv_put_weaker hi hu rfl rfl ?_
      intro hh hhh hc
      rw [checkHostmask_any hhh] at hc ⊢
      simp only [Bool.or_eq_true, Bool.and_eq_true] at hc ⊢
      rcases hc with ⟨h1, h2⟩ | hc
      · left
        refine ⟨h1, ?_⟩
        simp only [User.authMatch, List.any_eq_true] at h2 ⊢
        obtain ⟨e, he, hm⟩ := h2
        exact ⟨e, (List.mem_filter.1 he).1, hm⟩
      · exact Or.inr hc
    · exact hi
  | order id masks =>
    simp only [step]
    apply withUser_inv hi
    intro u hu huid
    split
    · rename_i hcond
      simp only [Bool.and_eq_true] at hcond
      refine inv_put_weaker hi hu rfl rfl ?_
      intro hh hhh hc
      rw [checkHostmask_any hhh] at hc ⊢
      simp only [User.authMatch] at hc ⊢
      rw [any_perm_eq (fun p => glob p hh) hcond.1.2 hcond.2] at hc
      exact hc
    · exact hi

theorem init_inv (t : Int) : Inv { db := { timeout := t } } := by
  refine ⟨⟨by simp, ?_, ?_⟩, cacheInv_empty rfl rfl⟩
  · intro u hu; cases hu
  · intro u hu; cases hu

theorem run_inv {st : St} (hi : Inv st) (ops : List Op) : Inv (run st ops) := by
  induction ops generalizing st with
  | nil => exact hi
  | cons o os ih =>
    unfold run
    simp only [List.foldl_cons]
    exact ih (step_inv hi o)

/-- shape of a successful `setUser` -/
theorem setUser_ok_spec {st : St} {u : User} {live : Bool} (h : (setUser st u live).2 = .ok ()) :
    ∃ r : St, (setUser st u live).1 = { r with hc := {}, nc := {}, db := r.db.putUser (finalRecord r u live) } ∧
      overlaps r.db.users r.db.timeout r.now (finalRecord r u live) = false := by
  unfold setUser at h ⊢
  split
  · rename_i hlb; simp only [hlb, if_true] at h; cases h
  · rename_i hlb
    simp only [hlb] at h ⊢
    split
    · rename_i e hc; simp only [hc] at h; cases h
    · rename_i hc
      simp only [hc] at h
      split
      · rename_i ho; simp only [ho, if_true] at h; cases h
      · rename_i ho
        exact ⟨_, rfl, by simpa using ho⟩

/-! ### the reverse index of the hostmask cache is complete
`invalidateCache(hostmask=h)` does `self._hostmaskCache[id].remove(h)`, which would raise KeyError
if the set of the cached id were missing or did not contain `h`; the model is tolerant there.
`RevOK` shows that the tolerated case never arises in a reachable state. -/

def RevOK (hc : HCache) : Prop :=
  ∀ p ∈ hc.fwd, ∃ set, hc.rev.lookup p.2 = some set ∧ p.1 ∈ set

theorem revOK_empty : RevOK {} := by intro p hp; cases hp

theorem room_cases (hc : HCache) : hc.room = hc ∨ hc.room = {} := by
  unfold HCache.room; split
  · exact Or.inr rfl
  · exact Or.inl rfl

theorem revOK_room {hc : HCache} (h : RevOK hc) : RevOK hc.room := by
  rcases room_cases hc with e | e <;> rw [e]
  · exact h
  · exact revOK_empty

theorem revOK_cacheInsert {hc : HCache} (h : RevOK hc) (s : Str) (id : Nat) :
    RevOK (cacheInsert hc s id) := by
  have hr := revOK_room h
  unfold cacheInsert
  simp only
  -- after `_hostmaskCache[s] = id`
  have h1 : ∀ p ∈ (hc.setFwd s id).fwd, p = (s, id) ∨ (p ∈ hc.room.fwd) := by
    intro p hp; unfold HCache.setFwd at hp; exact mem_dset hp
  have hrev1 : (hc.setFwd s id).rev = hc.room.rev := rfl
  cases hl : (hc.setFwd s id).rev.lookup id with
  | some set =>
    simp only
    intro p hp
    simp only at hp ⊢
    rcases h1 p hp with e | e
    · subst e
      refine ⟨_, lookup_dset_self _ _ _, ?_⟩
      split
      · assumption
      · simp
    · obtain ⟨set', hs', hm'⟩ := hr p e
      by_cases hid : p.2 = id
      · rw [hid] at hs' ⊢
        rw [hrev1] at hl
        rw [hl] at hs'
        injection hs' with hs'; subst hs'
        refine ⟨_, lookup_dset_self _ _ _, ?_⟩
        split
        · exact hm'
        · exact List.mem_append_left _ hm'
      · refine ⟨set', ?_, hm'⟩
        rw [lookup_dset_ne _ _ hid, hrev1]; exact hs'
  | none =>
    simp only
    unfold HCache.setRev
    rcases room_cases (hc.setFwd s id) with e | e
    · rw [e]
      intro p hp
      simp only at hp ⊢
      rcases h1 p hp with e' | e'
      · subst e'; exact ⟨[s], lookup_dset_self _ _ _, by simp⟩
      · obtain ⟨set', hs', hm'⟩ := hr p e'
        by_cases hid : p.2 = id
        · rw [hid, ← hrev1, hl] at hs'; cases hs'
        · exact ⟨set', by rw [lookup_dset_ne _ _ hid, hrev1]; exact hs', hm'⟩
    · rw [e]; intro p hp; cases hp

theorem revOK_invalidateId {st : St} (h : RevOK st.hc) (id : Nat) : RevOK (invalidateId st id).hc := by
  unfold invalidateId
  simp only
  cases hl : st.hc.rev.lookup id with
  | none => exact h
  | some set =>
    simp only
    intro p hp
    simp only at hp ⊢
    obtain ⟨hp1, hp2⟩ := List.mem_filter.1 hp
    obtain ⟨set', hs', hm'⟩ := h p hp1
    have hid : p.2 ≠ id := by
      intro e
      rw [e, hl] at hs'
      injection hs' with hs'; subst hs'
      have : set.contains p.1 = true := by simpa using hm'
      rw [this] at hp2; cases hp2
    exact ⟨set', by rw [lookup_ddel_ne _ hid]; exact hs', hm'⟩

theorem revOK_invalidateHost {st : St} (h : RevOK st.hc) (x : Str) : RevOK (invalidateHost st x).hc := by
  unfold invalidateHost
  cases hl : st.hc.fwd.lookup x with
  | none => exact h
  | some id =>
    simp only
    apply revOK_invalidateId
    simp only
    intro p hp
    simp only at hp ⊢
    obtain ⟨hp1, hp2⟩ := mem_ddel hp
    obtain ⟨set', hs', hm'⟩ := h p hp1
    by_cases hid : p.2 = id
    · rw [hid] at hs' ⊢
      rw [hs']
      simp only
      have hm2 : p.1 ∈ set'.filter (fun y => y != x) := List.mem_filter.2 ⟨hm', by simpa using hp2⟩
      have hne : (set'.filter (fun y => y != x)).isEmpty = false := by
        cases hf : set'.filter (fun y => y != x) with
        | nil => rw [hf] at hm2; cases hm2
        | cons _ _ => rfl
      rw [hne]
      exact ⟨_, lookup_dset_self _ _ _, hm2⟩
    · refine ⟨set', ?_, hm'⟩
      cases hr : st.hc.rev.lookup id with
      | none => simp only; exact hs'
      | some set =>
        simp only
        split
        · rw [lookup_ddel_ne _ hid]; exact hs'
        · rw [lookup_dset_ne _ _ hid]; exact hs'

theorem revOK_slowPath {st : St} (h : RevOK st.hc) (s : Str) : RevOK (slowPath st s).1.hc := by
  unfold slowPath
  split
  · exact h
  · exact revOK_cacheInsert h s _
  · exact revOK_empty

theorem revOK_getUserId {st : St} (h : RevOK st.hc) (s : Str) : RevOK (getUserId st s).1.hc := by
  unfold getUserId
  split
  · unfold getUserIdHost
    split
    · split
      · split
        · exact h
        · exact revOK_slowPath (revOK_invalidateHost h s) s
      · exact revOK_slowPath h s
    · exact revOK_slowPath h s
  · unfold getUserIdName
    simp only
    split
    · exact h
    · split <;> exact h

theorem revOK_setUser {st : St} (h : RevOK st.hc) (u : User) (live : Bool := true) :
    RevOK (setUser st u live).1.hc := by
  unfold setUser
  split
  · exact h
  · simp only
    have h1 : RevOK (getUserId { st with hc := {}, nc := {}, nextId := max st.nextId u.id } u.name).1.hc :=
      revOK_getUserId revOK_empty _
    split
    · exact h1
    · split
      · exact h1
      · exact revOK_empty

theorem revOK_setUser' {st st' : St} (h : RevOK st.hc) (e : st'.hc = st.hc) (u : User) :
    RevOK (setUser st' u).1.hc := revOK_setUser (by rw [e]; exact h) u

theorem revOK_withUser {st : St} (h : RevOK st.hc) (id : Nat) (f : User → St × Out)
    (hf : ∀ u, RevOK (f u).1.hc) : RevOK (withUser st id f).1.hc := by
  unfold withUser
  split
  · exact hf _
  · exact h

theorem revOK_fold {st : St} (h : RevOK st.hc) (l : List (Int × Str)) :
    RevOK (l.foldl (fun s e => invalidateHost s e.2) st).hc := by
  induction l generalizing st with
  | nil => exact h
  | cons e es ih => simp only [List.foldl_cons]; exact ih (revOK_invalidateHost h e.2)

theorem revOK_delUser' {st : St} (h : RevOK st.hc) (id : Nat) : RevOK (delUser st id).1.hc := by
  unfold delUser
  split
  · exact h
  · exact revOK_invalidateId revOK_empty id

theorem revOK_registerTail (st1 : St) (u0 : User) (hm : Option Str) (h : RevOK st1.hc := by assumption) :
    RevOK (registerTail st1 u0 hm).1.hc := by
  unfold registerTail
  cases hm with
  | none =>
    dsimp only
    split
    · exact revOK_setUser h _
    · exact revOK_delUser' (revOK_setUser h _) _
  | some hm =>
    dsimp only
    split
    · exact revOK_delUser' h _
    · rename_i u1 _
      have hs : RevOK (setUser { st1 with db := st1.db.putUser u1 } u1).1.hc :=
        revOK_setUser (st := { st1 with db := st1.db.putUser u1 }) h u1
      split
      · exact hs
      · exact revOK_delUser' hs _

theorem revOK_step {st : St} (h : RevOK st.hc) (op : Op) : RevOK (step st op).1.hc := by
  cases op with
  | register name hm =>
    simp only [step]
    split
    · exact h
    · exact revOK_registerTail _ _ hm (by simpa [newUser] using h)
  | addHost id hm =>
    simp only [step]
    apply revOK_withUser h
    intro u
    split
    · exact h
    · split
      · dsimp only; (refine revOK_setUser ?_ _; exact h)
      · split
        · dsimp only; (refine revOK_setUser ?_ _; exact h)
        · split
          · dsimp only; (refine revOK_setUser ?_ _; exact h)
          · dsimp only; (refine revOK_setUser ?_ _; exact h)
  | rmHost id hm =>
    simp only [step]
    apply revOK_withUser h
    intro u
    split
    · exact h
    · dsimp only; (refine revOK_setUser ?_ _; exact h)
  | identify id hm =>
    simp only [step]
    apply revOK_withUser h
    intro u
    split
    · exact h
    · dsimp only; (refine revOK_setUser ?_ _; exact h)
  | unidentify id =>
    simp only [step]
    apply revOK_withUser h
    intro u
    dsimp only [clearAuth]; (refine revOK_setUser ?_ _; exact revOK_fold h u.auth)
  | logout id =>
    simp only [step]
    apply revOK_withUser h
    intro u
    dsimp only [clearAuth]
    exact revOK_fold h u.auth
  | rename id name =>
    simp only [step]
    apply revOK_withUser h
    intro _
    have hg := revOK_getUserId h name
    split
    · exact hg
    · split
      · exact hg
      · apply revOK_withUser hg
        intro u
        dsimp only; (refine revOK_setUser ?_ _; exact hg)
    · exact hg
  | secure id b =>
    simp only [step]
    apply revOK_withUser h
    intro u
    dsimp only; (refine revOK_setUser ?_ _; exact h)
  | followNick id old new =>
    simp only [step]
    apply revOK_withUser h
    intro u
    split
    · exact h
    · split
      · (refine revOK_setUser ?_ _; exact h)
      · (refine revOK_setUser ?_ _; exact h)
  | clearHosts id =>
    simp only [step]
    apply revOK_withUser h
    intro u
    dsimp only; (refine revOK_setUser ?_ _; exact h)
  | setName id name =>
    simp only [step]
    apply revOK_withUser h
    intro u
    split
    · exact h
    · dsimp only; (refine revOK_setUser ?_ _; exact h)
  | load id name sec masks =>
    simp only [step]
    have h1 := revOK_setUser h { id := id, name := name, secure := sec, hostmasks := masks.foldl masksAdd [] } false
    split
    · exact h1
    · exact revOK_setUser h1 _ false
  | delUser id =>
    simp only [step, delUser]
    split
    · exact h
    · exact revOK_invalidateId revOK_empty id
  | tick dt => exact h
  | lookup s =>
    simp only [step]
    exact revOK_getUserId h s
  | pruned id kept =>
    simp only [step]
    apply revOK_withUser h
    intro u
    split
    · exact h
    · exact h
  | order id masks =>
    simp only [step]
    apply revOK_withUser h
    intro u
    split <;> exact h

theorem revOK_run {st : St} (h : RevOK st.hc) (ops : List Op) : RevOK (run st ops).hc := by
  induction ops generalizing st with
  | nil => exact h
  | cons o os ih =>
    unfold run
    simp only [List.foldl_cons]
    exact ih (revOK_step h o)

/-! ### `checkCapability` through the caches -/

/-- `getUserId` only ever changes user records (and the caches) -/
theorem getUserId_db_frame (st : St) (s : Str) :
    (getUserId st s).1.db.channels = st.db.channels ∧ (getUserId st s).1.db.defaults = st.db.defaults ∧
    (getUserId st s).1.db.registered = st.db.registered ∧ (getUserId st s).1.db.defaultFlag = st.db.defaultFlag := by
  have hslow : ∀ st : St, (slowPath st s).1.db.channels = st.db.channels ∧
      (slowPath st s).1.db.defaults = st.db.defaults ∧ (slowPath st s).1.db.registered = st.db.registered ∧
      (slowPath st s).1.db.defaultFlag = st.db.defaultFlag := by
    intro st; unfold slowPath; split <;> simp
  unfold getUserId
  split
  · unfold getUserIdHost
    split
    · split
      · split
        · simp
        · have := hslow (invalidateHost st s)
          rw [(invalidateHost_db st s).1] at this
          exact this
      · exact hslow st
    · exact hslow st
  · unfold getUserIdName
    simp only
    split
    · simp
    · split <;> simp

/-- a successful `getUserId` leaves the records alone -/
theorem getUserId_ok_db {st : St} {s : Str} {id : Nat} (h : (getUserId st s).2 = .ok id) :
    (getUserId st s).1.db = st.db := by
  have hslow : ∀ st : St, (slowPath st s).2 = .ok id → (slowPath st s).1.db = st.db := by
    intro st h
    unfold slowPath at h ⊢
    split
    · rfl
    · rfl
    · rename_i h1 h2
      simp only [h1, h2] at h
      split at h <;> cases h
  unfold getUserId at h ⊢
  split
  · rename_i hs
    simp only [hs, if_true] at h
    unfold getUserIdHost at h ⊢
    split
    · rename_i id' hl
      simp only [hl] at h
      split
      · rename_i u hu
        simp only [hu] at h
        split
        · rfl
        · rename_i hc
          simp only [hc, if_false] at h
          rw [hslow _ h, (invalidateHost_db st s).1]
      · rename_i hu
        simp only [hu] at h
        exact hslow st h
    · rename_i hl
      simp only [hl] at h
      exact hslow st h
  · unfold getUserIdName
    simp only
    split
    · rfl
    · split <;> rfl

theorem find_by_id {l : List User} (hnd : (l.map (fun u => u.id)).Nodup) {u : User} (hu : u ∈ l) :
    l.find? (fun v => v.id == u.id) = some u := by
  induction l with
  | nil => cases hu
  | cons x xs ih =>
    simp only [List.map_cons, List.nodup_cons, List.mem_map, not_exists, not_and] at hnd
    simp only [List.find?_cons]
    rcases List.mem_cons.1 hu with e | e
    · subst e; simp
    · have : (x.id == u.id) = false := by
        simp only [beq_eq_false_iff_ne, ne_eq]
        exact fun h => hnd.1 u e h.symm
      rw [this]; exact ih hnd.2 e

/-- **The capability decision does not depend on the lookup caches**: in a state satisfying the
invariant, `checkCapability` run through `UsersDictionary.getUser` — cache hits, re-validation,
duplicate removal and all — returns what the cache-free `C03.Db.checkCapability` returns on the
same records at the same time. -/
theorem checkCapabilityS_eq {st : St} (hi : Inv st) (h cap : Str) (fl : Flags) :
    (checkCapabilityS st h cap fl).2 = st.db.checkCapability st.now h cap fl := by
  have hag := getUserId_agrees hi.recs hi.cache h
  have hfr := getUserId_frame st h
  have hdf := getUserId_db_frame st h
  by_cases hh : isUserHostmask h = true
  case neg =>
    have hh' : isUserHostmask h = false := by simpa using hh
    unfold checkCapabilityS recogniseS Db.checkCapability Db.recognise
    simp [hh']
  unfold checkCapabilityS recogniseS getUser Db.checkCapability Db.recognise
  simp only [hh, Bool.not_true, Bool.false_eq_true, if_false]
  cases hres : (getUserId st h).2 with
  | ok id =>
    have hdb := getUserId_ok_db hres
    rw [hres] at hag
    cases hl : st.db.lookup st.now h with
    | found u0 =>
      rw [hl] at hag
      have hmem : u0 ∈ st.db.users := C03.lookup_found_mem hl
      have hfind : st.db.getUserById id = some u0 := by
        unfold Db.getUserById
        rw [← hag]; exact find_by_id hi.recs.nodup hmem
      have e1 : (getUserId st h) = ((getUserId st h).1, (getUserId st h).2) := rfl
      rw [e1, hres]
      simp only [hdb, hfind, hfr.1]
      by_cases hc : (u0.secure && !u0.checkHostmask st.db.timeout st.now h false) = true
      · simp only [hc, if_true]
      · simp only [hc, Bool.false_eq_true, if_false]
    | missing => rw [hl] at hag; cases hag
    | duplicate => rw [hl] at hag; cases hag
  | error e =>
    rw [hres] at hag
    have e1 : (getUserId st h) = ((getUserId st h).1, (getUserId st h).2) := rfl
    rw [e1, hres]
    simp only
    have hunk : (getUserId st h).1.db.checkUnknown cap fl.ignoreDefaultAllow =
        st.db.checkUnknown cap fl.ignoreDefaultAllow := by
      unfold Db.checkUnknown Db.globalsUnknown Db.getChannel
      simp only [hdf.1, hdf.2.1, hdf.2.2.2]
    cases hl : st.db.lookup st.now h with
    | found u0 => rw [hl] at hag; cases e <;> cases hag
    | missing => simp only [hunk]
    | duplicate => simp only [hunk]

end C04
