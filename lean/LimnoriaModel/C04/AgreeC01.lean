/-
C04 ↔ C01 — the two places where the models of C01 (gate / dispatcher, agentK) and of C03/C04
describe the same code agree.  Kept out of `C04/Props.lean` so that neither check depends on the
other's files; built and reported (not part of the verdict) by `harness/c04.py`.
-/
import LimnoriaModel.C01.Model
import LimnoriaModel.C04.Props
namespace C04
open Py C03

/-- `DefaultCapabilities.setValue` without `--allow-default-owner`: C01's `setDefaults false` is the
default set of C03's `Db.setDefaults` -/
theorem setDefaults_agree (db : Db) (v : List Str) :
    C01.setDefaults false v = (db.setDefaults v).map (fun d => d.defaults) := by
  unfold C01.setDefaults Db.setDefaults
  cases CapSet.ofList v with
  | error e => rfl
  | ok s =>
    simp only [Bool.not_false, Bool.and_true]
    by_cases h : antiOwnerS ∈ s
    · simp [h, Except.map]
    · simp only [h, decide_false, Bool.not_false, if_true, if_false]
      cases CapSet.add s antiOwnerS <;> rfl

/-- the bot's first lookup of a sender that matches two accounts: C04's stateful `getUserId`
raises DuplicateHostmask exactly when C01's `checkIgnored` (on the same records) does, which is
when C01's dispatcher reports `crashed` and C04's `pstepA` abandons the command -/
theorem duplicate_agree {st : St} (hr : Reachable st) (ig : C01.IgnoreDb) (dI : Bool) (p : Str)
    (hp : isUserHostmask p = true) (hdup : (getUserId st p).2 = .error .value) :
    C01.checkIgnored st.db ig dI st.now p = .error .value ∧
    C01.ownerDoPrivmsg st.db ig dI st.now p = .crashed .value := by
  have ha := cache_transparent hr p
  rw [hdup] at ha
  have hl : st.db.lookup st.now p = .duplicate := by
    cases h : st.db.lookup st.now p with
    | found u => rw [h] at ha; cases ha
    | missing => rw [h] at ha; cases ha
    | duplicate => rfl
  have h1 : C01.checkIgnored st.db ig dI st.now p = .error .value := by
    unfold C01.checkIgnored C01.ignoredGlobal
    simp [hp, hl]
  refine ⟨h1, ?_⟩
  unfold C01.ownerDoPrivmsg
  simp [hp, h1]

end C04
