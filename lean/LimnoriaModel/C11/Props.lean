/-
C11 — property theorems.  (Helper lemmas: `Lemmas.lean`.)

A *history* is a list of `Op`s: queue a message, script the outcome of a future `send()` or
`recv()`, `Irc.die()`, one pass of `drivers.run()`.  All theorems below quantify over every
history from the initial connected state (`runOps env init ops`), i.e. over every message list,
every schedule of short writes / EAGAINs / socket errors and every fragmentation of the input —
and over every `env`: what `strptime` accepts, and what the Irc object queues in reaction to a
message *given everything it was fed before* (any deterministic Irc), provided no exception
escapes its `feedMsg` / `takeMsg` (`NoEscape env`; C07 derives that from the firewall).

Connections come in *epochs*: a message may make the Irc call `driver.reconnect()` (`env.reconnects`:
`ERROR :Closing link`, an STS policy …), a socket error schedules a reconnect that a `tick` makes
due.  Since fix 9171ff7 `reconnect()` empties both buffers and `_read` drops the rest of the chunk it
was processing.  `wire`, `taken`, `queued`, `rx`, `fed` are those of the *current* connection, so the
invariants below are statements about every single connection; the explicit chunk-independence
theorems are stated for streams in which nothing makes the Irc reconnect (`NoReconnect env`), since a
reconnect point is, by design, where chunk boundaries matter (`reconnect_drops_rest_of_chunk`).
-/
import LimnoriaModel.C11.Lemmas
import LimnoriaModel.C11.Utf8
import LimnoriaModel.C11.Multi
namespace C11
open Py

/-- the environment of the correspondence run (any time tag accepted, PING→PONG stub) -/
def stubEnv : Env := { timeOk := fun _ => true, react := pingPong }

theorem stubEnv_noEscape : NoEscape stubEnv := ⟨fun _ _ => rfl, fun _ => rfl, rfl⟩

/-! ## write side -/

/-- **The bytes accepted by the socket, followed by what is still buffered, are exactly the UTF-8
encoding of the messages handed to the driver so far, in order** — after every history. -/
theorem write_exact (env : Env) (hne : NoEscape env) (ops : List Op) :
    (runOps env init ops).wire ++ (runOps env init ops).outbuffer
      = utf8 (runOps env init ops).taken.flatten :=
  (inv_runOps hne ops init (inv_init env)).wire

/-- nothing queued is lost or duplicated between the Irc queue and the driver -/
theorem queue_conserved (env : Env) (hne : NoEscape env) (ops : List Op) :
    (runOps env init ops).taken ++ (runOps env init ops).queue = (runOps env init ops).queued :=
  (inv_runOps hne ops init (inv_init env)).queue

/-- **On drain the socket has received exactly the encodings of all queued messages, in order,
each once** — whatever the partial sends were. -/
theorem write_exact_drained (env : Env) (hne : NoEscape env) (ops : List Op)
    (hq : (runOps env init ops).queue = []) (hb : (runOps env init ops).outbuffer = []) :
    (runOps env init ops).wire = ((runOps env init ops).queued.map utf8).flatten := by
  have h1 := write_exact env hne ops
  have h2 := queue_conserved env hne ops
  rw [hb, List.append_nil] at h1
  rw [hq, List.append_nil] at h2
  rw [h1, h2, utf8_flatten]

def exHistory : List Op :=
  [.queue "PRIVMSG #c :héllo\r\n".toList, .scriptSend (.sent 14), .scriptSend (.error 11),
   .scriptSend (.sent 3), .loop, .loop, .loop]

example : (runOps stubEnv init exHistory).queue = [] ∧ (runOps stubEnv init exHistory).outbuffer = [] ∧
    (runOps stubEnv init exHistory).connected = true ∧ (runOps stubEnv init exHistory).wire.length = 20 := by
  decide

/-- **EAGAIN bursts are tolerated**: starting with a fresh counter, up to 121 consecutive
`send()` calls failing with EAGAIN leave the driver connected, nothing written, nothing lost,
the counter equal to the burst length (a later successful `send` resets it, `sendIfMsgs_sent`). -/
theorem eagain_tolerated (env : Env) (hne : NoEscape env) (k : Nat) (hk : k ≤ 121) (w : World)
    (rs : List SendRes)
    (hc : w.connected = true) (hz : w.zombie = false) (hi : w.ircZombie = false) (hcr : w.crashed = none)
    (hpd : w.pingDue = false) (hob : w.outbuffer ≠ []) (he : w.eagains = 0)
    (hs : w.sendScript = List.replicate k (.error 11) ++ rs) :
    (sendN env k w).connected = true ∧ (sendN env k w).wire = w.wire ∧
    (sendN env k w).outbuffer ++ utf8 (sendN env k w).queue.flatten = w.outbuffer ++ utf8 w.queue.flatten ∧
    (sendN env k w).eagains = k ∧ (sendN env k w).sendScript = rs := by
  have := sendN_eagain_burst hne k w rs hc hz hi hcr hpd hob (by omega) hs
  simpa [he] using this

/-- … and the 122nd consecutive EAGAIN disconnects (the bound in the code is `eagains > 120`). -/
theorem eagain_limit (env : Env) (hne : NoEscape env) (w : World) (rs : List SendRes)
    (hc : w.connected = true) (hz : w.zombie = false) (hi : w.ircZombie = false) (hcr : w.crashed = none)
    (hpd : w.pingDue = false) (hob : w.outbuffer ≠ []) (he : w.eagains > 120) (hs : w.sendScript = .error 11 :: rs) :
    (sendIfMsgs env w).connected = false ∧ (sendIfMsgs env w).wire = w.wire :=
  sendIfMsgs_eagain_limit hne w rs hc hz hi hcr hpd hob he hs

example : ∃ w : World, w.connected = true ∧ w.zombie = false ∧ w.ircZombie = false ∧ w.crashed = none ∧
    w.pingDue = false ∧ w.outbuffer ≠ [] ∧ w.eagains = 0 ∧ w.sendScript = List.replicate 121 (.error 11) ++ [.sent 1] :=
  ⟨{ outbuffer := [65], sendScript := List.replicate 121 (.error 11) ++ [.sent 1] }, rfl, rfl, rfl, rfl, rfl,
    by simp, rfl, rfl⟩

/-- **Progress**: when every `send()` accepts at least one byte, `len + 1` calls of
`_sendIfMsgs` empty the queue and the out-buffer (so `write_exact_drained` applies). -/
theorem drains (env : Env) (hne : NoEscape env) (k : Nat) (w : World)
    (hc : w.connected = true) (hz : w.zombie = false) (hi : w.ircZombie = false) (hcr : w.crashed = none)
    (hpd : w.pingDue = false) (hp : Positive w.sendScript) (hk : (w.outbuffer ++ utf8 w.queue.flatten).length ≤ k) :
    (sendN env (k + 1) w).outbuffer = [] ∧ (sendN env (k + 1) w).queue = [] ∧
    (sendN env (k + 1) w).connected = true :=
  sendN_drains hne k w hc hz hi hcr hpd hp hk

example : Positive [.sent 1, .sent 3, .sent 1] := by
  intro r hr
  simp only [List.mem_cons, List.not_mem_nil, or_false] at hr
  rcases hr with rfl | rfl | rfl
  · exact ⟨1, rfl, by omega⟩
  · exact ⟨3, rfl, by omega⟩
  · exact ⟨1, rfl, by omega⟩

/-! ## read side -/

/-- **What has been delivered to `feedMsg` is a function of the concatenation of all bytes
received, and the in-buffer is the unterminated tail of that concatenation** — after every
history, hence independently of how `recv()` chunked the stream. -/
theorem read_is_function_of_stream (env : Env) (hne : NoEscape env) (ops : List Op) :
    (runOps env init ops).fed = msgsOf env (splitLF (runOps env init ops).rx).1 ∧
    (runOps env init ops).inbuffer = (splitLF (runOps env init ops).rx).2 :=
  ⟨(inv_runOps hne ops init (inv_init env)).fed, (inv_runOps hne ops init (inv_init env)).inbuf⟩

/-- **Chunk independence**: two partitions of the same byte stream into non-empty `recv()` results,
each followed by a pass of the driver loop, deliver the same messages and leave the same
in-buffer — including partitions that cut inside a multi-byte character or between CR and LF. -/
theorem read_chunk_independent (env : Env) (hne : NoEscape env) (hnr : NoReconnect env) (cs₁ cs₂ : List Bytes)
    (h₁ : ∀ c ∈ cs₁, c ≠ []) (h₂ : ∀ c ∈ cs₂, c ≠ []) (h : cs₁.flatten = cs₂.flatten) :
    (runOps env init (chunkOps cs₁)).fed = (runOps env init (chunkOps cs₂)).fed ∧
    (runOps env init (chunkOps cs₁)).inbuffer = (runOps env init (chunkOps cs₂)).inbuffer := by
  obtain ⟨_, _, x1⟩ := calm_chunkOps hne hnr cs₁ h₁ init calm_init rfl
  obtain ⟨_, _, x2⟩ := calm_chunkOps hne hnr cs₂ h₂ init calm_init rfl
  obtain ⟨f1, b1⟩ := read_is_function_of_stream env hne (chunkOps cs₁)
  obtain ⟨f2, b2⟩ := read_is_function_of_stream env hne (chunkOps cs₂)
  have hx : (runOps env init (chunkOps cs₁)).rx = (runOps env init (chunkOps cs₂)).rx := by
    rw [x1, x2, h]
  rw [f1, f2, b1, b2, hx]
  exact ⟨rfl, rfl⟩

/-- … and what is delivered is the message sequence of the complete lines of the whole stream. -/
theorem read_delivers_lines (env : Env) (hne : NoEscape env) (hnr : NoReconnect env) (cs : List Bytes) (h : ∀ c ∈ cs, c ≠ []) :
    (runOps env init (chunkOps cs)).fed = msgsOf env (splitLF cs.flatten).1 ∧
    (runOps env init (chunkOps cs)).inbuffer = (splitLF cs.flatten).2 := by
  obtain ⟨_, _, x⟩ := calm_chunkOps hne hnr cs h init calm_init rfl
  obtain ⟨f, b⟩ := read_is_function_of_stream env hne (chunkOps cs)
  have hx : (runOps env init (chunkOps cs)).rx = cs.flatten := by rw [x]; rfl
  rw [f, b, hx]
  exact ⟨rfl, rfl⟩

/-- the same at the level of `_read` bodies, from any state whose in-buffer holds no LF -/
theorem read_chunks_from_any_state (env : Env) (hne : NoEscape env) (hnr : NoReconnect env) (w : World) (hw : LF ∉ w.inbuffer)
    (cs₁ cs₂ : List Bytes) (h : cs₁.flatten = cs₂.flatten) :
    (feedChunks env w cs₁).fed = (feedChunks env w cs₂).fed ∧
    (feedChunks env w cs₁).inbuffer = (feedChunks env w cs₂).inbuffer := by
  obtain ⟨a1, a2⟩ := feedChunks_spec hne hnr cs₁ w hw
  obtain ⟨b1, b2⟩ := feedChunks_spec hne hnr cs₂ w hw
  rw [a1, a2, b1, b2, h]
  exact ⟨rfl, rfl⟩

/-- framing loses and invents nothing: complete lines (each + LF) and the remainder are the stream;
no line and no remainder contains an LF; and it is Python's `split(b'\n')` + `pop()` -/
theorem framing_exact (b : Bytes) :
    ((splitLF b).1.flatMap (· ++ [LF])) ++ (splitLF b).2 = b ∧
    (∀ l ∈ (splitLF b).1, LF ∉ l) ∧ LF ∉ (splitLF b).2 ∧
    (splitLF b).1 ++ [(splitLF b).2] = splitB LF b :=
  ⟨splitLF_reconstruct b, splitLF_lines_no_lf b, splitLF_rem_no_lf b, splitLF_eq_split_pop b⟩

-- "é" cut in the middle and CR | LF cut: three chunkings of `PING :é\r\nPI`
example : (runOps stubEnv init (chunkOps [[80,73,78,71,32,58,195], [169,13], [10,80,73]])).fed
    = (runOps stubEnv init (chunkOps [[80,73,78,71,32,58,195,169,13,10,80,73]])).fed := by
  apply (read_chunk_independent stubEnv stubEnv_noEscape (fun _ _ => rfl) _ _ _ _ _).1 <;> simp

/-- **A reconnect point ends the connection's input**: when a line's message makes the Irc
reconnect, the remaining lines of that `recv()` chunk are not delivered, and the new connection
starts with empty buffers, nothing taken and nothing received. -/
theorem reconnect_drops_rest_of_chunk (env : Env) (hne : NoEscape env) (l : Bytes) (ls : List Bytes)
    (w : World) (m : C05.Msg) (wait : Bool) (hm : lineMsg env l = some m)
    (hr : env.reconnects w.allFed m = some wait) :
    feedLines env (l :: ls) w = reconnect env wait (feedMsg env m w) ∧
    (feedLines env (l :: ls) w).inbuffer = [] ∧ (feedLines env (l :: ls) w).outbuffer = [] ∧
    (feedLines env (l :: ls) w).fed = [] ∧ (feedLines env (l :: ls) w).rx = [] ∧
    (feedLines env (l :: ls) w).wire = [] := by
  have e : feedLines env (l :: ls) w = reconnect env wait (feedMsg env m w) := by
    unfold feedLines
    unfold lineMsg at hm
    cases h : parseMsg env.timeOk (decode l) with
    | empty => rw [h] at hm; cases hm
    | malformed => rw [h] at hm; cases hm
    | crash e => rw [h] at hm; cases hm
    | msg m' =>
      rw [h] at hm
      have : m' = m := by simpa using hm
      subst this
      simp only [hne.1 w.allFed m', hr]
  rw [e]
  unfold reconnect
  cases wait <;> exact ⟨rfl, rfl, rfl, rfl, rfl, rfl⟩

/-- **A ping time-out inside the `takeMsg` loop** (fix 67d65e0): what was queued and taken for the
connection that is dropped is dropped with it — the new connection starts with an empty out-buffer,
nothing accepted by its socket, and only what `Irc.reset()` queued. -/
theorem ping_timeout_reconnect_clean (env : Env) (hne : NoEscape env) (w : World)
    (hc : w.connected = true) (hz : w.zombie = false) (hp : w.pingDue = true) :
    sendIfMsgs env w = reconnect env false w ∧ (sendIfMsgs env w).outbuffer = [] ∧
    (sendIfMsgs env w).wire = [] ∧ (sendIfMsgs env w).connected = true ∧
    (sendIfMsgs env w).queue = (if w.ircZombie then [] else env.onReset) ∧
    (sendIfMsgs env w).pastWires = w.pastWires ++ [w.wire] := by
  have e : sendIfMsgs env w = reconnect env false w := by
    unfold sendIfMsgs
    rw [hne.2.1 w.queue]
    simp [hc, hz, hp]
  rw [e]
  unfold reconnect
  simp [hc]

/-- the correspondence environment: the stub Irc reconnects on `ERROR :Closing link…` -/
def driverEnv : Env := { timeOk := fun _ => true, react := pingPong, reconnects := errorReconnect }

def errLine : Bytes := utf8 "ERROR :Closing link: bye".toList
def pingLine : Bytes := utf8 "PING :x".toList

-- `ERROR :Closing link` and `PING :x` in one chunk: the PING is dropped, nothing is written
example : (runOps driverEnv init [.scriptRecv (.data (errLine ++ [LF] ++ pingLine ++ [LF])), .loop]).epoch = 1 ∧
    (runOps driverEnv init [.scriptRecv (.data (errLine ++ [LF] ++ pingLine ++ [LF])), .loop]).wire = [] ∧
    (runOps driverEnv init [.scriptRecv (.data (errLine ++ [LF] ++ pingLine ++ [LF])), .loop]).pastWires = [[]] := by
  decide

/-- **What is written is what is read**: decoding the encoding of any text gives the text back
(the driver's `str.encode()` and `decode_raw_line` are inverse on encoded text), so a line sent by
one bot is delivered to another as the message of exactly that text. -/
theorem decode_encode (s : Str) : decode (utf8 s) = s := decode_utf8 s

/-- the message a line carrying the text `s` is delivered as depends on `s` only -/
theorem line_roundtrip (env : Env) (s : Str) (m : C05.Msg) (h : parseMsg env.timeOk s = .msg m) :
    lineMsg env (utf8 s) = some m := by
  unfold lineMsg
  rw [decode_utf8, h]

/-! ## exception flow -/

/-- **No history makes an exception escape `SocketDriver.run()`** (no server line, however
malformed or badly encoded, and no socket outcome): `drivers.run` never sees the driver raise. -/
theorem never_crashes (env : Env) (hne : NoEscape env) (ops : List Op) :
    (runOps env init ops).crashed = none :=
  (inv_runOps hne ops init (inv_init env)).nocrash

/-! ## shutdown flush (known finding C11-zombie-flush)

Full statement — FALSE on the pinned tree:

    theorem flushed_when_removed (env : Env) (ops : List Op) :
        (runOps env init ops).removed = true → (runOps env init ops).outbuffer = []

("when the driver leaves the loop every byte of every message it took has been written").
`Irc.takeMsg` of a zombie Irc calls `driver.die()`, which unregisters the driver from
`drivers.run` *before* the final `send()`; if that `send()` is short (or EAGAIN) the rest of the
buffer is never written and the socket never closed. -/

/-- what holds: if no `send()` outcome is ever scripted — every `send()` accepts the whole
buffer — the out-buffer is empty after every history (in particular when the driver is removed). -/
theorem flushed_when_removed_partial (env : Env) (hne : NoEscape env) (ops : List Op)
    (h : scriptsNoSend ops) :
    (runOps env init ops).outbuffer = [] :=
  (flushed_runOps hne ops init ⟨rfl, rfl⟩ h).buffer

example : scriptsNoSend [Op.queue "QUIT :bye\r\n".toList, Op.ircDie, Op.loop] := by
  intro op h r; simp at h; rcases h with rfl | rfl | rfl <;> simp

/-- the counter-example: `QUIT :bye`, `Irc.die()`, and a `send()` that accepts 4 bytes -/
def zombieWitness : List Op :=
  [.queue "QUIT :bye\r\n".toList, .ircDie, .scriptSend (.sent 4), .loop, .loop, .loop]

theorem zombie_short_write_loses_tail :
    (runOps stubEnv init zombieWitness).removed = true ∧
    (runOps stubEnv init zombieWitness).wire = utf8 "QUIT".toList ∧
    (runOps stubEnv init zombieWitness).outbuffer = utf8 " :bye\r\n".toList ∧
    (runOps stubEnv init zombieWitness).sockClosed = false := by decide

end C11
