import LimnoriaModel.C11.Model
namespace C11
open Py

/-! ### the C05 parser never fails with anything but `malformed` (re-proved here so that this
module depends on the C05 *model* only) -/

theorem finish_no_crash (timeOk : Str → Bool) (tags : C05.Tags) (s : Str) (args : List Str) (e : String) :
    C05.finish timeOk tags s args ≠ .crash e := by
  unfold C05.finish
  split
  · simp
  · simp
  · simp only
    split
    · simp
    · split
      · simp
      · simp
      · split <;> simp

theorem parse_no_crash (timeOk : Str → Bool) (s : Str) (e : String) :
    C05.parse timeOk s ≠ .crash e := by
  unfold C05.parse
  split
  · simp
  · split
    · simp
    · exact finish_no_crash _ _ _ _ _

theorem parseMsg_no_crash (timeOk : Str → Bool) (s : Str) (e : String) :
    parseMsg timeOk s ≠ .crash e := by
  unfold parseMsg
  simp only
  split
  · simp
  · split
    · simp
    · simp
    · rename_i e' h
      exact absurd h (parse_no_crash _ _ _)

/-! ### line framing -/

theorem splitLF_cons_lf (bs : Bytes) :
    splitLF (LF :: bs) = ([] :: (splitLF bs).1, (splitLF bs).2) := by
  simp [splitLF]

theorem splitLF_cons_ne {b : UInt8} (h : b ≠ LF) (bs : Bytes) :
    splitLF (b :: bs) = (match (splitLF bs).1 with
      | [] => ([], b :: (splitLF bs).2)
      | l :: ls => ((b :: l) :: ls, (splitLF bs).2)) := by
  cases h1 : (splitLF bs).1 <;> simp [splitLF, h, h1]

/-- carry-concatenation: framing `x ++ y` = framing `x`, then framing (remainder of `x`) `++ y`. -/
theorem splitLF_append (x y : Bytes) :
    splitLF (x ++ y) =
      ((splitLF x).1 ++ (splitLF ((splitLF x).2 ++ y)).1, (splitLF ((splitLF x).2 ++ y)).2) := by
  induction x with
  | nil => simp [splitLF]
  | cons b bs ih =>
    by_cases hb : b = LF
    · subst hb
      simp only [List.cons_append, splitLF_cons_lf, ih]
    · simp only [List.cons_append, splitLF_cons_ne hb, ih]
      cases h1 : (splitLF bs).1 with
      | nil => simp [splitLF_cons_ne hb]
      | cons l ls => simp

/-- no loss, no invention: the complete lines (each followed by LF) and the remainder are the stream -/
theorem splitLF_reconstruct (b : Bytes) :
    ((splitLF b).1.flatMap (· ++ [LF])) ++ (splitLF b).2 = b := by
  induction b with
  | nil => simp [splitLF]
  | cons c cs ih =>
    by_cases hc : c = LF
    · subst hc
      simp only [splitLF_cons_lf, List.flatMap_cons, List.nil_append, List.cons_append]
      rw [ih]
    · rw [splitLF_cons_ne hc]
      cases h1 : (splitLF cs).1 with
      | nil =>
        simp only [h1, List.flatMap_nil, List.nil_append] at ih ⊢
        rw [ih]
      | cons l ls =>
        simp only [h1, List.flatMap_cons, List.cons_append, List.append_assoc] at ih ⊢
        rw [ih]

theorem splitLF_lines_no_lf (b : Bytes) : ∀ l ∈ (splitLF b).1, LF ∉ l := by
  induction b with
  | nil => simp [splitLF]
  | cons c cs ih =>
    by_cases hc : c = LF
    · subst hc
      simp only [splitLF_cons_lf, List.mem_cons]
      rintro l (rfl | h)
      · simp
      · exact ih l h
    · rw [splitLF_cons_ne hc]
      cases h1 : (splitLF cs).1 with
      | nil => simp
      | cons l ls =>
        simp only [List.mem_cons]
        rintro l' (rfl | h)
        · have := ih l (by simp [h1])
          simp only [List.mem_cons, not_or]
          exact ⟨fun h => hc h.symm, this⟩
        · exact ih l' (by simp [h1, h])

theorem splitLF_rem_no_lf (b : Bytes) : LF ∉ (splitLF b).2 := by
  induction b with
  | nil => simp [splitLF]
  | cons c cs ih =>
    by_cases hc : c = LF
    · subst hc; simpa [splitLF_cons_lf] using ih
    · rw [splitLF_cons_ne hc]
      cases h1 : (splitLF cs).1 with
      | nil => simp only [List.mem_cons, not_or]; exact ⟨fun h => hc h.symm, ih⟩
      | cons l ls => exact ih

/-- `splitLF` is Python's `lines = buf.split(b'\n'); rem = lines.pop()` -/
theorem splitB_ne_nil (sep : UInt8) (b : Bytes) : splitB sep b ≠ [] := by
  induction b with
  | nil => simp [splitB]
  | cons c cs ih =>
    simp only [splitB]
    split
    · simp
    · split <;> simp

theorem splitLF_eq_split_pop (b : Bytes) :
    (splitLF b).1 ++ [(splitLF b).2] = splitB LF b := by
  induction b with
  | nil => simp [splitLF, splitB]
  | cons c cs ih =>
    by_cases hc : c = LF
    · subst hc
      simp only [splitLF_cons_lf, splitB, ↓reduceIte, List.cons_append, ih]
    · rw [splitLF_cons_ne hc]
      simp only [splitB, hc, ↓reduceIte]
      cases h1 : (splitLF cs).1 with
      | nil =>
        simp only [h1, List.nil_append] at ih ⊢
        rw [← ih]
      | cons l ls =>
        simp only [h1, List.cons_append] at ih ⊢
        rw [← ih]

/-! ### `str.encode()` distributes over concatenation -/

theorem utf8_append (a b : Str) : utf8 (a ++ b) = utf8 a ++ utf8 b := by
  simp [utf8]

theorem utf8_nil : utf8 [] = [] := rfl

theorem utf8_flatten (l : List Str) : utf8 l.flatten = (l.map utf8).flatten := by
  induction l with
  | nil => rfl
  | cons a l ih => simp [utf8_append, ih]

/-! ### what the read loop delivers -/

/-- the message a line is delivered as (if any) -/
def lineMsg (env : Env) (l : Bytes) : Option C05.Msg :=
  match parseMsg env.timeOk (decode l) with
  | .msg m => some m
  | _ => none

/-- the messages a list of complete lines is delivered as -/
def msgsOf (env : Env) (ls : List Bytes) : List C05.Msg := ls.filterMap (lineMsg env)

/-- what the Irc queues in reaction to the messages `ms`, having been fed `fed` before -/
def reactsFrom (env : Env) (z : Bool) : List C05.Msg → List C05.Msg → List Str
  | _, [] => []
  | fed, m :: ms => (if z then [] else env.react fed m) ++ reactsFrom env z (fed ++ [m]) ms

def reactsOf (env : Env) (z : Bool) (fed : List C05.Msg) (ls : List Bytes) : List Str :=
  reactsFrom env z fed (msgsOf env ls)

theorem msgsOf_append (env : Env) (a b : List Bytes) : msgsOf env (a ++ b) = msgsOf env a ++ msgsOf env b := by
  simp [msgsOf]

/-- none of these messages makes the Irc call `driver.reconnect()` -/
def NoReconnectOn (env : Env) (ms : List C05.Msg) : Prop := ∀ m ∈ ms, ∀ h, env.reconnects h m = none

/-- no message at all makes the Irc reconnect -/
def NoReconnect (env : Env) : Prop := ∀ h m, env.reconnects h m = none

theorem NoReconnect.on {env : Env} (h : NoReconnect env) (ms : List C05.Msg) : NoReconnectOn env ms :=
  fun m _ hist => h hist m

theorem feedLines_eq (env : Env) (hne : NoEscape env) (ls : List Bytes) (w : World)
    (hnr : NoReconnectOn env (msgsOf env ls)) :
    feedLines env ls w =
      { w with fed := w.fed ++ msgsOf env ls, allFed := w.allFed ++ msgsOf env ls,
               queue := w.queue ++ reactsOf env w.ircZombie w.allFed ls,
               queued := w.queued ++ reactsOf env w.ircZombie w.allFed ls } := by
  induction ls generalizing w with
  | nil => simp [feedLines, msgsOf, reactsOf, reactsFrom]
  | cons l ls ih =>
    unfold feedLines
    cases h : parseMsg env.timeOk (decode l) with
    | empty =>
      have hnr' : NoReconnectOn env (msgsOf env ls) := by
        simpa [msgsOf, lineMsg, h] using hnr
      simp [ih _ hnr', msgsOf, reactsOf, lineMsg, h]
    | malformed =>
      have hnr' : NoReconnectOn env (msgsOf env ls) := by
        simpa [msgsOf, lineMsg, h] using hnr
      simp [ih _ hnr', msgsOf, reactsOf, lineMsg, h, hne.2.2]
    | crash e => exact absurd h (parseMsg_no_crash _ _ _)
    | msg m =>
      have hm : msgsOf env (l :: ls) = m :: msgsOf env ls := by simp [msgsOf, lineMsg, h]
      have hnr' : NoReconnectOn env (msgsOf env ls) := fun m' hm' => hnr m' (by rw [hm]; simp [hm'])
      have hr : env.reconnects w.allFed m = none := hnr m (by rw [hm]; simp) _
      simp only [hne.1 w.allFed m, hr, ih _ hnr', feedMsg]
      simp [msgsOf, reactsOf, reactsFrom, lineMsg, h]

/-! ### the invariant -/

structure Inv (env : Env) (w : World) : Prop where
  /-- accepted by the socket ++ still buffered = encoding of everything taken -/
  wire : w.wire ++ w.outbuffer = utf8 w.taken.flatten
  /-- taken ++ still queued = everything ever queued -/
  queue : w.taken ++ w.queue = w.queued
  /-- the in-buffer is the unterminated tail of everything received -/
  inbuf : w.inbuffer = (splitLF w.rx).2
  /-- delivered = the messages of the complete lines of everything received -/
  fed : w.fed = msgsOf env (splitLF w.rx).1
  nocrash : w.crashed = none

theorem inv_init (env : Env) : Inv env init :=
  ⟨rfl, rfl, rfl, rfl, rfl⟩

theorem inv_handleSocketError (env : Env) (e : Option Nat) (w : World) (h : Inv env w) :
    Inv env (handleSocketError e w) := by
  unfold handleSocketError
  split <;> exact ⟨h.wire, h.queue, h.inbuf, h.fed, h.nocrash⟩

theorem inv_takeAll (env : Env) (w : World) (h : Inv env w) : Inv env (takeAll w) := by
  unfold takeAll driverDie
  have hw : w.wire ++ (w.outbuffer ++ utf8 w.queue.flatten) = utf8 (w.taken ++ w.queue).flatten := by
    rw [← List.append_assoc, h.wire, List.flatten_append, utf8_append]
  have hq : (w.taken ++ w.queue) ++ [] = w.queued := by simpa using h.queue
  split <;> exact ⟨hw, hq, h.inbuf, h.fed, h.nocrash⟩

theorem inv_sendTake (env : Env) (w : World) (h : Inv env w) : Inv env (sendTake w) := by
  unfold sendTake
  split
  · exact h
  · exact inv_takeAll env w h

theorem inv_doSend (env : Env) (w : World) (h : Inv env w) : Inv env (doSend w) := by
  unfold doSend
  split
  · exact ⟨by simpa using h.wire, h.queue, h.inbuf, h.fed, h.nocrash⟩
  · refine ⟨?_, h.queue, h.inbuf, h.fed, h.nocrash⟩
    simp only [List.append_assoc, List.take_append_drop]
    exact h.wire
  · exact inv_handleSocketError env _ _ ⟨h.wire, h.queue, h.inbuf, h.fed, h.nocrash⟩

theorem inv_reallyDie (env : Env) (w : World) (h : Inv env w) : Inv env (reallyDie w) :=
  ⟨h.wire, h.queue, h.inbuf, h.fed, h.nocrash⟩

theorem inv_sendFlush (env : Env) (w : World) (h : Inv env w) : Inv env (sendFlush w) := by
  unfold sendFlush
  split
  · exact h
  · exact inv_doSend env w h

theorem inv_sendFinish (env : Env) (w : World) (h : Inv env w) : Inv env (sendFinish w) := by
  unfold sendFinish
  split
  · exact inv_reallyDie env w h
  · exact h

section
variable {env : Env} (hne : NoEscape env)
include hne

omit hne in
/-- a new connection starts from a clean slate: the invariant holds whatever was going on -/
theorem inv_reconnect (wait : Bool) (w : World) (hc : w.crashed = none) : Inv env (reconnect env wait w) := by
  unfold reconnect
  cases wait <;> exact ⟨rfl, rfl, rfl, rfl, hc⟩

omit hne in
theorem inv_sendPlain (w : World) (h : Inv env w) : Inv env (sendPlain w) := by
  unfold sendPlain
  split
  · exact h
  · exact inv_sendFinish env _ (inv_sendFlush env _ (inv_sendTake env w h))

/-- when nothing escapes `takeMsg` and no ping time-out is pending, `_sendIfMsgs` is its plain body -/
theorem sendIfMsgs_eq (w : World) (hp : w.pingDue = false) : sendIfMsgs env w = sendPlain w := by
  unfold sendIfMsgs
  rw [hne.2.1 w.queue, hp]
  split <;> rfl

/-- … and in general it is the plain body or the in-loop reconnect -/
theorem sendIfMsgs_cases (w : World) :
    sendIfMsgs env w = sendPlain w ∨ sendIfMsgs env w = reconnect env false w := by
  unfold sendIfMsgs
  rw [hne.2.1 w.queue]
  split
  · cases w.pingDue
    · exact Or.inl rfl
    · exact Or.inr rfl
  · exact Or.inl rfl

theorem inv_sendIfMsgs (w : World) (h : Inv env w) : Inv env (sendIfMsgs env w) := by
  rcases sendIfMsgs_cases hne w with e | e <;> rw [e]
  · exact inv_sendPlain w h
  · exact inv_reconnect false w h.nocrash

/-- the `for line in lines` loop, from a state in which `ls` are the lines still to be fed -/
theorem inv_feedLines (ls : List Bytes) (w : World)
    (hw : w.wire ++ w.outbuffer = utf8 w.taken.flatten) (hq : w.taken ++ w.queue = w.queued)
    (hib : w.inbuffer = (splitLF w.rx).2) (hfed : w.fed ++ msgsOf env ls = msgsOf env (splitLF w.rx).1)
    (hc : w.crashed = none) : Inv env (feedLines env ls w) := by
  induction ls generalizing w with
  | nil =>
    simp only [msgsOf, List.filterMap_nil, List.append_nil] at hfed
    exact ⟨hw, hq, hib, hfed, hc⟩
  | cons l ls ih =>
    unfold feedLines
    cases h : parseMsg env.timeOk (decode l) with
    | empty => exact ih w hw hq hib (by simpa [msgsOf, lineMsg, h] using hfed) hc
    | malformed =>
      simp only [hne.2.2, Bool.false_eq_true, ↓reduceIte]
      exact ih w hw hq hib (by simpa [msgsOf, lineMsg, h] using hfed) hc
    | crash e => exact absurd h (parseMsg_no_crash _ _ _)
    | msg m =>
      simp only [hne.1 w.allFed m]
      have hfed' : (w.fed ++ [m]) ++ msgsOf env ls = msgsOf env (splitLF w.rx).1 := by
        rw [← hfed]; simp [msgsOf, lineMsg, h]
      have hq' : w.taken ++ (w.queue ++ (if w.ircZombie then [] else env.react w.allFed m))
          = w.queued ++ (if w.ircZombie then [] else env.react w.allFed m) := by
        rw [← List.append_assoc, hq]
      cases hr : env.reconnects w.allFed m with
      | some wait => exact inv_reconnect wait _ hc
      | none => exact ih (feedMsg env m w) hw hq' hib hfed' hc

theorem inv_readData (b : Bytes) (w : World) (h : Inv env w) : Inv env (readData env b w) := by
  unfold readData
  apply inv_feedLines hne
  · exact h.wire
  · exact h.queue
  · show (splitLF (w.inbuffer ++ b)).2 = (splitLF (w.rx ++ b)).2
    rw [splitLF_append w.rx b, h.inbuf]
  · show w.fed ++ msgsOf env (splitLF (w.inbuffer ++ b)).1 = msgsOf env (splitLF (w.rx ++ b)).1
    rw [splitLF_append w.rx b, h.inbuf, h.fed, msgsOf_append]
  · exact h.nocrash

theorem inv_sendAfterRead (w : World) (h : Inv env w) : Inv env (sendAfterRead env w) := by
  unfold sendAfterRead
  split
  · exact h
  · split
    · exact h
    · exact inv_sendIfMsgs hne w h

omit hne in
theorem inv_setRecv (w : World) (rs : List RecvRes) (h : Inv env w) :
    Inv env { w with recvScript := rs } :=
  ⟨h.wire, h.queue, h.inbuf, h.fed, h.nocrash⟩

theorem inv_read (w : World) (h : Inv env w) : Inv env (read env w) := by
  unfold read
  split
  · exact inv_sendAfterRead hne w h
  · exact inv_handleSocketError env _ _ (inv_setRecv w _ h)
  · exact inv_sendAfterRead hne _ (inv_readData hne _ _ (inv_setRecv w _ h))
  · exact inv_sendAfterRead hne _ (inv_setRecv w _ h)
  · exact inv_handleSocketError env _ _ (inv_setRecv w _ h)

theorem inv_selectRead (w : World) (h : Inv env w) : Inv env (selectRead env w) := by
  unfold selectRead
  split
  · exact h
  · exact inv_read hne w h

theorem inv_selectSend (w : World) (h : Inv env w) : Inv env (selectSend env w) := by
  unfold selectSend
  split
  · exact h
  · split
    · exact h
    · exact inv_sendIfMsgs hne w h

theorem inv_select (w : World) (h : Inv env w) : Inv env (select env w) := by
  unfold select
  split
  · exact h
  · split
    · exact h
    · exact inv_selectSend hne _ (inv_selectRead hne w h)

omit hne in
theorem inv_runTimer (w : World) (h : Inv env w) : Inv env (runTimer env w) := by
  unfold runTimer
  split
  · exact inv_reconnect false w h.nocrash
  · exact h

theorem inv_run (w : World) (h : Inv env w) : Inv env (run env w) := by
  unfold run
  split
  · exact inv_runTimer w h
  · exact inv_select hne _ (inv_sendIfMsgs hne _ (inv_runTimer w h))

omit hne in
theorem inv_loopCatch (w : World) (h : Inv env w) : Inv env (loopCatch w) := by
  unfold loopCatch
  split
  · exact ⟨h.wire, h.queue, h.inbuf, h.fed, h.nocrash⟩
  · exact h

theorem inv_loop (w : World) (h : Inv env w) : Inv env (loop env w) := by
  unfold loop
  split
  · exact h
  · exact inv_loopCatch _ (inv_run hne w h)

theorem inv_step (w : World) (op : Op) (h : Inv env w) : Inv env (step env w op) := by
  cases op with
  | queue s =>
    simp only [step]
    split
    · exact h
    · refine ⟨h.wire, ?_, h.inbuf, h.fed, h.nocrash⟩
      show w.taken ++ (w.queue ++ [s]) = w.queued ++ [s]
      rw [← List.append_assoc, h.queue]
  | scriptSend r => exact ⟨h.wire, h.queue, h.inbuf, h.fed, h.nocrash⟩
  | scriptRecv r => exact ⟨h.wire, h.queue, h.inbuf, h.fed, h.nocrash⟩
  | ircDie => exact ⟨h.wire, h.queue, h.inbuf, h.fed, h.nocrash⟩
  | tick => exact ⟨h.wire, h.queue, h.inbuf, h.fed, h.nocrash⟩
  | pingTimeout => exact ⟨h.wire, h.queue, h.inbuf, h.fed, h.nocrash⟩
  | loop => exact inv_loop hne w h

theorem inv_runOps (ops : List Op) (w : World) (h : Inv env w) : Inv env (runOps env w ops) := by
  induction ops generalizing w with
  | nil => exact h
  | cons op ops ih => exact ih _ (inv_step hne w op h)

end

/-! ### chunk lists -/

/-- the `_read` bodies for a list of `recv()` results -/
def feedChunks (env : Env) (w : World) (cs : List Bytes) : World :=
  cs.foldl (fun w c => readData env c w) w

section
variable {env : Env} (hne : NoEscape env)
include hne

theorem readData_fed (b : Bytes) (w : World) (hnr : NoReconnect env) :
    (readData env b w).fed = w.fed ++ msgsOf env (splitLF (w.inbuffer ++ b)).1 := by
  unfold readData; rw [feedLines_eq env hne _ _ (hnr.on _)]

theorem readData_inbuffer (b : Bytes) (w : World) (hnr : NoReconnect env) :
    (readData env b w).inbuffer = (splitLF (w.inbuffer ++ b)).2 := by
  unfold readData; rw [feedLines_eq env hne _ _ (hnr.on _)]

omit hne in
theorem splitLF_of_no_lf (b : Bytes) (h : LF ∉ b) : splitLF b = ([], b) := by
  induction b with
  | nil => rfl
  | cons c cs ih =>
    simp only [List.mem_cons, not_or] at h
    rw [splitLF_cons_ne (fun hc => h.1 hc.symm), ih h.2]

theorem feedChunks_spec (hnr : NoReconnect env) (cs : List Bytes) (w : World) (hw : LF ∉ w.inbuffer) :
    (feedChunks env w cs).fed = w.fed ++ msgsOf env (splitLF (w.inbuffer ++ cs.flatten)).1 ∧
    (feedChunks env w cs).inbuffer = (splitLF (w.inbuffer ++ cs.flatten)).2 := by
  induction cs generalizing w with
  | nil =>
    simp [feedChunks, splitLF_of_no_lf _ hw, msgsOf]
  | cons c cs ih =>
    have := ih (readData env c w) (by rw [readData_inbuffer hne _ _ hnr]; exact splitLF_rem_no_lf _)
    simp only [feedChunks, List.foldl_cons] at this ⊢
    rw [this.1, this.2, readData_fed hne _ _ hnr, readData_inbuffer hne _ _ hnr]
    simp only [List.flatten_cons, ← List.append_assoc]
    rw [splitLF_append (w.inbuffer ++ c) cs.flatten]
    simp [msgsOf_append]

end

/-! ### a connection on which nothing goes wrong -/

structure Calm (w : World) : Prop where
  connected : w.connected = true
  zombie : w.zombie = false
  ircZombie : w.ircZombie = false
  removed : w.removed = false
  crashed : w.crashed = none
  sendScript : w.sendScript = []
  reconnectAt : w.reconnectAt = false
  pingDue : w.pingDue = false

section
variable {env : Env} (hne : NoEscape env)
include hne

theorem calm_sendIfMsgs (w : World) (h : Calm w) :
    Calm (sendIfMsgs env w) ∧ (sendIfMsgs env w).recvScript = w.recvScript ∧ (sendIfMsgs env w).rx = w.rx ∧
    (sendIfMsgs env w).inbuffer = w.inbuffer := by
  obtain ⟨h1, h2, h3, h4, h5, h6, h7, h8⟩ := h
  rw [sendIfMsgs_eq hne w h8]
  refine ⟨⟨?_, ?_, ?_, ?_, ?_, ?_, ?_, ?_⟩, ?_, ?_, ?_⟩ <;>
  · simp only [sendPlain, sendTake, takeAll, sendFlush, sendFinish, doSend, reallyDie, driverDie]
    (repeat' split) <;> simp_all

theorem calm_readData (b : Bytes) (w : World) (h : Calm w)
    (hnr : NoReconnectOn env (msgsOf env (splitLF (w.inbuffer ++ b)).1)) :
    Calm (readData env b w) ∧ (readData env b w).recvScript = w.recvScript ∧
      (readData env b w).rx = w.rx ++ b := by
  obtain ⟨h1, h2, h3, h4, h5, h6, h7, h8⟩ := h
  unfold readData
  rw [feedLines_eq env hne _ _ hnr]
  exact ⟨⟨h1, h2, h3, h4, h5, h6, h7, h8⟩, rfl, rfl⟩

end

/-- the history "recv() returns `c`, one loop pass" for every chunk -/
def chunkOps (cs : List Bytes) : List Op := cs.flatMap (fun c => [.scriptRecv (.data c), .loop])

theorem calm_setRecv (w : World) (rs : List RecvRes) (h : Calm w) : Calm { w with recvScript := rs } :=
  ⟨h.connected, h.zombie, h.ircZombie, h.removed, h.crashed, h.sendScript, h.reconnectAt, h.pingDue⟩

theorem runTimer_calm (env : Env) (w : World) (h : Calm w) : runTimer env w = w := by
  unfold runTimer
  simp only [h.reconnectAt, Bool.false_and, Bool.false_eq_true, ↓reduceIte]

theorem read_data_cons (env : Env) (w : World) (b : UInt8) (bs : Bytes) (rs : List RecvRes)
    (h : w.recvScript = .data (b :: bs) :: rs) :
    read env w = sendAfterRead env (readData env (b :: bs) { w with recvScript := rs }) := by
  unfold read; rw [h]

theorem sendAfterRead_calm (env : Env) (w : World) (h : Calm w) : sendAfterRead env w = sendIfMsgs env w := by
  unfold sendAfterRead
  simp only [h.crashed, h.ircZombie, Option.isSome_none, Bool.false_eq_true, ↓reduceIte]

theorem selectSend_calm (env : Env) (w : World) (h : Calm w) : selectSend env w = sendIfMsgs env w := by
  unfold selectSend
  simp only [h.crashed, h.connected, h.zombie, h.ircZombie, Option.isSome_none, Bool.not_true,
    Bool.or_self, Bool.false_eq_true, ↓reduceIte]

theorem loopCatch_calm (w : World) (h : Calm w) : loopCatch w = w := by
  unfold loopCatch
  simp only [h.crashed, Option.isSome_none, Bool.false_eq_true, ↓reduceIte]

section
variable {env : Env} (hne : NoEscape env)
include hne

/-- one chunk: what the loop pass computes, explicitly -/
theorem loop_chunk_eq (b : UInt8) (bs : Bytes) (w : World) (h : Calm w) (hr : w.recvScript = [])
    (hnr : NoReconnectOn env (msgsOf env (splitLF (w.inbuffer ++ b :: bs)).1)) :
    loop env (step env w (.scriptRecv (.data (b :: bs)))) =
      sendIfMsgs env (sendIfMsgs env (readData env (b :: bs)
        { sendIfMsgs env { w with recvScript := [.data (b :: bs)] } with recvScript := [] })) := by
  have e1 : step env w (.scriptRecv (.data (b :: bs))) = { w with recvScript := [.data (b :: bs)] } := by
    simp [step, hr]
  rw [e1]
  have c1 := calm_setRecv w [.data (b :: bs)] h
  have r1 : ({ w with recvScript := [.data (b :: bs)] } : World).recvScript = [.data (b :: bs)] := rfl
  have i1 : ({ w with recvScript := [.data (b :: bs)] } : World).inbuffer = w.inbuffer := rfl
  generalize ({ w with recvScript := [.data (b :: bs)] } : World) = w1 at c1 r1 i1 ⊢
  obtain ⟨c2, r2, -, i2⟩ := calm_sendIfMsgs hne w1 c1
  have erun : run env w1 = select env (sendIfMsgs env w1) := by
    unfold run
    rw [runTimer_calm env w1 c1]
    simp only [c1.connected, Bool.not_true, Bool.false_eq_true, ↓reduceIte]
  generalize sendIfMsgs env w1 = w2 at c2 r2 i2 erun ⊢
  have eread : read env w2 = sendAfterRead env (readData env (b :: bs) { w2 with recvScript := [] }) :=
    read_data_cons env w2 b bs [] (r2.trans r1)
  have c3 := calm_setRecv w2 [] c2
  have i3 : ({ w2 with recvScript := [] } : World).inbuffer = w2.inbuffer := rfl
  generalize ({ w2 with recvScript := [] } : World) = w3 at c3 i3 eread ⊢
  have hnr3 : NoReconnectOn env (msgsOf env (splitLF (w3.inbuffer ++ b :: bs)).1) := by
    rw [i3, i2, i1]; exact hnr
  obtain ⟨c4, -, -⟩ := calm_readData hne (b :: bs) w3 c3 hnr3
  generalize readData env (b :: bs) w3 = w4 at c4 eread ⊢
  rw [sendAfterRead_calm env w4 c4] at eread
  obtain ⟨c5, -, -, -⟩ := calm_sendIfMsgs hne w4 c4
  generalize sendIfMsgs env w4 = w5 at c5 eread ⊢
  obtain ⟨c6, -, -, -⟩ := calm_sendIfMsgs hne w5 c5
  have esel : select env w2 = sendIfMsgs env w5 := by
    unfold select
    simp only [c2.crashed, c2.connected, c2.zombie, Option.isSome_none, Bool.not_true, Bool.or_self,
      Bool.false_eq_true, ↓reduceIte]
    unfold selectRead
    rw [r2, r1]
    simp only [List.cons_ne_nil, ↓reduceIte, eread]
    exact selectSend_calm env w5 c5
  unfold loop
  simp only [c1.removed, Bool.false_eq_true, ↓reduceIte]
  rw [erun, esel, loopCatch_calm _ c6]

theorem calm_chunk (c : Bytes) (hc : c ≠ []) (w : World) (h : Calm w) (hr : w.recvScript = [])
    (hnr : NoReconnectOn env (msgsOf env (splitLF (w.inbuffer ++ c)).1)) :
    Calm (loop env (step env w (.scriptRecv (.data c)))) ∧
    (loop env (step env w (.scriptRecv (.data c)))).recvScript = [] ∧
    (loop env (step env w (.scriptRecv (.data c)))).rx = w.rx ++ c := by
  obtain ⟨b, bs, rfl⟩ : ∃ b bs, c = b :: bs := by
    cases c with
    | nil => exact absurd rfl hc
    | cons b bs => exact ⟨b, bs, rfl⟩
  rw [loop_chunk_eq hne b bs w h hr hnr]
  have c1 := calm_setRecv w [.data (b :: bs)] h
  obtain ⟨c2, r2, x2, i2⟩ := calm_sendIfMsgs hne _ c1
  have c3 := calm_setRecv _ [] c2
  obtain ⟨c4, r4, x4⟩ := calm_readData hne (b :: bs) _ c3 (by
    show NoReconnectOn env (msgsOf env (splitLF ((sendIfMsgs env { w with recvScript := [.data (b :: bs)] }).inbuffer
      ++ b :: bs)).1)
    rw [i2]; exact hnr)
  obtain ⟨c5, r5, x5, -⟩ := calm_sendIfMsgs hne _ c4
  obtain ⟨c6, r6, x6, -⟩ := calm_sendIfMsgs hne _ c5
  refine ⟨c6, ?_, ?_⟩
  · rw [r6, r5, r4]
  · rw [x6, x5, x4]
    show (sendIfMsgs env { w with recvScript := [.data (b :: bs)] }).rx ++ _ = _
    rw [x2]

theorem calm_chunkOps (hnr : NoReconnect env) (cs : List Bytes) (hcs : ∀ c ∈ cs, c ≠ []) (w : World)
    (h : Calm w) (hr : w.recvScript = []) :
    Calm (runOps env w (chunkOps cs)) ∧ (runOps env w (chunkOps cs)).recvScript = [] ∧
    (runOps env w (chunkOps cs)).rx = w.rx ++ cs.flatten := by
  induction cs generalizing w with
  | nil => simp [chunkOps, runOps, h, hr]
  | cons c cs ih =>
    obtain ⟨k1, k2, k3⟩ := calm_chunk hne c (hcs c (by simp)) w h hr (hnr.on _)
    obtain ⟨j1, j2, j3⟩ := ih (fun c' hc' => hcs c' (by simp [hc'])) _ k1 k2
    have e : runOps env w (chunkOps (c :: cs)) =
        runOps env (loop env (step env w (.scriptRecv (.data c)))) (chunkOps cs) := by
      simp [chunkOps, runOps, step]
    rw [e]
    refine ⟨j1, j2, ?_⟩
    rw [j3, k3]; simp

end

theorem calm_init : Calm init := ⟨rfl, rfl, rfl, rfl, rfl, rfl, rfl, rfl⟩

/-! ### EAGAIN accounting and draining -/

/-- `k` consecutive calls of `_sendIfMsgs` -/
def sendN (env : Env) : Nat → World → World
  | 0, w => w
  | k + 1, w => sendN env k (sendIfMsgs env w)

theorem append_ne_nil_left {α} {a : List α} (b : List α) (h : a ≠ []) : a ++ b ≠ [] := by
  cases a with
  | nil => exact absurd rfl h
  | cons x xs => simp

section
variable {env : Env} (hne : NoEscape env)
include hne

/-- one `_sendIfMsgs` whose `send()` raises EAGAIN while the counter is at most 120 -/
theorem sendIfMsgs_eagain (w : World) (rs : List SendRes)
    (hc : w.connected = true) (hz : w.zombie = false) (hi : w.ircZombie = false)
    (hk : w.crashed = none) (hpd : w.pingDue = false)
    (hob : w.outbuffer ≠ []) (he : w.eagains ≤ 120) (hs : w.sendScript = .error 11 :: rs) :
    sendIfMsgs env w = { w with outbuffer := w.outbuffer ++ utf8 w.queue.flatten,
                                taken := w.taken ++ w.queue, queue := [],
                                sendScript := rs, eagains := w.eagains + 1 } := by
  have hne' : w.outbuffer ++ utf8 w.queue.flatten ≠ [] := append_ne_nil_left _ hob
  have hgt : ¬ (w.eagains > 120) := by omega
  rw [sendIfMsgs_eq hne w hpd]
  unfold sendPlain sendTake takeAll sendFlush sendFinish
  simp only [hc, hz, hi, hk, Bool.not_true, Bool.false_eq_true, ↓reduceIte, hne']
  unfold doSend
  simp only [hs, handleSocketError, ne_eq, not_true_eq_false, hgt, or_self, ↓reduceIte,
    Bool.false_and, Bool.false_eq_true]

/-- one `_sendIfMsgs` whose `send()` raises EAGAIN with the counter above 120: disconnect -/
theorem sendIfMsgs_eagain_limit (w : World) (rs : List SendRes)
    (hc : w.connected = true) (hz : w.zombie = false) (hi : w.ircZombie = false)
    (hk : w.crashed = none) (hpd : w.pingDue = false)
    (hob : w.outbuffer ≠ []) (he : w.eagains > 120) (hs : w.sendScript = .error 11 :: rs) :
    (sendIfMsgs env w).connected = false ∧ (sendIfMsgs env w).wire = w.wire := by
  have hne' : w.outbuffer ++ utf8 w.queue.flatten ≠ [] := append_ne_nil_left _ hob
  rw [sendIfMsgs_eq hne w hpd]
  unfold sendPlain sendTake takeAll sendFlush sendFinish
  simp only [hc, hz, hi, hk, Bool.not_true, Bool.false_eq_true, ↓reduceIte, hne']
  unfold doSend
  simp only [hs, handleSocketError, ne_eq, not_true_eq_false, he, or_true, ↓reduceIte,
    Bool.false_and, Bool.false_eq_true, and_self]

theorem sendN_eagain_burst (k : Nat) (w : World) (rs : List SendRes)
    (hc : w.connected = true) (hz : w.zombie = false) (hi : w.ircZombie = false)
    (hk : w.crashed = none) (hpd : w.pingDue = false)
    (hob : w.outbuffer ≠ []) (he : w.eagains + k ≤ 121)
    (hs : w.sendScript = List.replicate k (.error 11) ++ rs) :
    (sendN env k w).connected = true ∧ (sendN env k w).wire = w.wire ∧
    (sendN env k w).outbuffer ++ utf8 (sendN env k w).queue.flatten = w.outbuffer ++ utf8 w.queue.flatten ∧
    (sendN env k w).eagains = w.eagains + k ∧ (sendN env k w).sendScript = rs := by
  induction k generalizing w with
  | zero => simp [sendN, hc, hs]
  | succ k ih =>
    have hs' : w.sendScript = .error 11 :: (List.replicate k (.error 11) ++ rs) := by
      rw [hs, List.replicate_succ, List.cons_append]
    have e := sendIfMsgs_eagain hne w _ hc hz hi hk hpd hob (by omega) hs'
    simp only [sendN]
    rw [e]
    have := ih { w with outbuffer := w.outbuffer ++ utf8 w.queue.flatten,
                        taken := w.taken ++ w.queue, queue := [],
                        sendScript := List.replicate k (.error 11) ++ rs, eagains := w.eagains + 1 }
      hc hz hi hk hpd (append_ne_nil_left _ hob) (by show w.eagains + 1 + k ≤ 121; omega) rfl
    obtain ⟨a1, a2, a3, a4, a5⟩ := this
    refine ⟨a1, a2, ?_, ?_, a5⟩
    · rw [a3]; simp [utf8_nil]
    · rw [a4]; show w.eagains + 1 + k = w.eagains + (k + 1); omega

/-- one `_sendIfMsgs` whose `send()` accepts `n` bytes -/
theorem sendIfMsgs_sent (w : World) (n : Nat) (rs : List SendRes)
    (hc : w.connected = true) (hz : w.zombie = false) (hi : w.ircZombie = false)
    (hk : w.crashed = none) (hpd : w.pingDue = false)
    (hne' : w.outbuffer ++ utf8 w.queue.flatten ≠ []) (hs : w.sendScript = .sent n :: rs) :
    sendIfMsgs env w = { w with outbuffer := (w.outbuffer ++ utf8 w.queue.flatten).drop n,
                                wire := w.wire ++ (w.outbuffer ++ utf8 w.queue.flatten).take n,
                                taken := w.taken ++ w.queue, queue := [],
                                sendScript := rs, eagains := 0 } := by
  rw [sendIfMsgs_eq hne w hpd]
  unfold sendPlain sendTake takeAll sendFlush sendFinish
  simp only [hc, hz, hi, hk, Bool.not_true, Bool.false_eq_true, ↓reduceIte, hne']
  unfold doSend
  simp only [hs, Bool.false_and, Bool.false_eq_true, ↓reduceIte]

/-- one `_sendIfMsgs` with nothing scripted: `send()` accepts everything -/
theorem sendIfMsgs_unscripted (w : World)
    (hc : w.connected = true) (hz : w.zombie = false) (hi : w.ircZombie = false)
    (hk : w.crashed = none) (hpd : w.pingDue = false) (hs : w.sendScript = []) :
    (sendIfMsgs env w).outbuffer = [] ∧ (sendIfMsgs env w).queue = [] ∧
    (sendIfMsgs env w).connected = true ∧ (sendIfMsgs env w).zombie = false ∧
    (sendIfMsgs env w).ircZombie = false ∧ (sendIfMsgs env w).crashed = none ∧
    (sendIfMsgs env w).pingDue = false ∧ (sendIfMsgs env w).sendScript = [] := by
  rw [sendIfMsgs_eq hne w hpd]
  refine ⟨?_, ?_, ?_, ?_, ?_, ?_, ?_, ?_⟩ <;>
  · simp only [sendPlain, sendTake, takeAll, sendFlush, sendFinish, doSend, reallyDie, driverDie]
    (repeat' split) <;> simp_all

end

/-- a script of successful sends of at least one byte each -/
def Positive (script : List SendRes) : Prop := ∀ r ∈ script, ∃ n, r = .sent n ∧ 0 < n

section
variable {env : Env} (hne : NoEscape env)
include hne

theorem sendIfMsgs_idle (w : World)
    (hc : w.connected = true) (hz : w.zombie = false) (hi : w.ircZombie = false)
    (hk : w.crashed = none) (hpd : w.pingDue = false) (hq : w.queue = []) (hob : w.outbuffer = []) :
    sendIfMsgs env w = w := by
  rw [sendIfMsgs_eq hne w hpd]
  cases w
  simp only at hc hz hi hq hob hk
  subst hc hz hi hq hob hk
  simp [sendPlain, sendTake, takeAll, sendFlush, sendFinish, utf8_nil]

theorem sendN_drains_aux (k : Nat) (w : World)
    (hc : w.connected = true) (hz : w.zombie = false) (hi : w.ircZombie = false)
    (hk' : w.crashed = none) (hpd : w.pingDue = false)
    (hq : w.queue = []) (hp : Positive w.sendScript) (hk : w.outbuffer.length ≤ k) :
    (sendN env k w).outbuffer = [] ∧ (sendN env k w).queue = [] ∧ (sendN env k w).connected = true := by
  induction k generalizing w with
  | zero =>
    simp only [sendN]
    exact ⟨List.eq_nil_of_length_eq_zero (by omega), hq, hc⟩
  | succ k ih =>
    simp only [sendN]
    by_cases hob : w.outbuffer = []
    · rw [sendIfMsgs_idle hne w hc hz hi hk' hpd hq hob]
      exact ih w hc hz hi hk' hpd hq hp (by rw [hob]; simp)
    · have hne' : w.outbuffer ++ utf8 w.queue.flatten ≠ [] := append_ne_nil_left _ hob
      cases hs : w.sendScript with
      | nil =>
        obtain ⟨a1, a2, a3, a4, a5, a6, a8, a7⟩ := sendIfMsgs_unscripted hne w hc hz hi hk' hpd hs
        exact ih _ a3 a4 a5 a6 a8 a2 (by rw [a7]; intro r hr; cases hr) (by rw [a1]; simp)
      | cons r rs =>
        obtain ⟨n, rfl, hn⟩ := hp r (by rw [hs]; simp)
        rw [sendIfMsgs_sent hne w n rs hc hz hi hk' hpd hne' hs]
        refine ih _ hc hz hi hk' hpd rfl (fun r hr => hp r (by rw [hs]; simp [hr])) ?_
        show ((w.outbuffer ++ utf8 w.queue.flatten).drop n).length ≤ k
        have : w.outbuffer.length ≠ 0 := by
          intro h0; exact hob (List.eq_nil_of_length_eq_zero h0)
        simp only [hq, List.flatten_nil, utf8_nil, List.append_nil, List.length_drop]
        omega

theorem sendIfMsgs_nothing (w : World)
    (hc : w.connected = true) (hz : w.zombie = false) (hi : w.ircZombie = false)
    (hk : w.crashed = none) (hpd : w.pingDue = false)
    (hnil : w.outbuffer ++ utf8 w.queue.flatten = []) :
    sendIfMsgs env w = { w with outbuffer := w.outbuffer ++ utf8 w.queue.flatten,
                                taken := w.taken ++ w.queue, queue := [] } := by
  rw [sendIfMsgs_eq hne w hpd]
  unfold sendPlain sendTake takeAll sendFlush sendFinish
  simp only [hc, hz, hi, hk, hnil, Bool.not_true, Bool.false_eq_true, ↓reduceIte,
    Bool.false_and]

theorem sendN_drains (k : Nat) (w : World)
    (hc : w.connected = true) (hz : w.zombie = false) (hi : w.ircZombie = false)
    (hk' : w.crashed = none) (hpd : w.pingDue = false)
    (hp : Positive w.sendScript) (hk : (w.outbuffer ++ utf8 w.queue.flatten).length ≤ k) :
    (sendN env (k + 1) w).outbuffer = [] ∧ (sendN env (k + 1) w).queue = [] ∧
    (sendN env (k + 1) w).connected = true := by
  simp only [sendN]
  by_cases hne' : w.outbuffer ++ utf8 w.queue.flatten = []
  · rw [sendIfMsgs_nothing hne w hc hz hi hk' hpd hne']
    exact sendN_drains_aux hne k _ hc hz hi hk' hpd rfl hp
      (by show (w.outbuffer ++ utf8 w.queue.flatten).length ≤ k; exact hk)
  · cases hs : w.sendScript with
    | nil =>
      obtain ⟨a1, a2, a3, a4, a5, a6, a8, a7⟩ := sendIfMsgs_unscripted hne w hc hz hi hk' hpd hs
      exact sendN_drains_aux hne k _ a3 a4 a5 a6 a8 a2 (by rw [a7]; intro r hr; cases hr) (by rw [a1]; simp)
    | cons r rs =>
      obtain ⟨n, rfl, hn⟩ := hp r (by rw [hs]; simp)
      rw [sendIfMsgs_sent hne w n rs hc hz hi hk' hpd hne' hs]
      refine sendN_drains_aux hne k _ hc hz hi hk' hpd rfl (fun r hr => hp r (by rw [hs]; simp [hr])) ?_
      show ((w.outbuffer ++ utf8 w.queue.flatten).drop n).length ≤ k
      rw [List.length_drop]; omega

end

/-! ### when no `send()` outcome is scripted (every `send()` accepts the whole buffer) the
out-buffer is empty between any two operations -/

structure Flushed (w : World) : Prop where
  script : w.sendScript = []
  buffer : w.outbuffer = []

theorem flushed_handleSocketError (e : Option Nat) (w : World) (h : Flushed w) :
    Flushed (handleSocketError e w) := by
  unfold handleSocketError
  split <;> exact ⟨h.script, h.buffer⟩

theorem flushed_setRecv (w : World) (rs : List RecvRes) (h : Flushed w) : Flushed { w with recvScript := rs } :=
  ⟨h.script, h.buffer⟩

section
variable {env : Env} (hne : NoEscape env)
include hne

omit hne in
theorem flushed_reconnect (wait : Bool) (w : World) (h : Flushed w) : Flushed (reconnect env wait w) := by
  unfold reconnect
  cases wait
  · exact ⟨rfl, rfl⟩
  · exact ⟨h.script, rfl⟩

theorem flushed_sendIfMsgs (w : World) (h : Flushed w) : Flushed (sendIfMsgs env w) := by
  rcases sendIfMsgs_cases hne w with e | e <;> rw [e]
  · obtain ⟨h1, h2⟩ := h
    refine ⟨?_, ?_⟩ <;>
    · simp only [sendPlain, sendTake, takeAll, sendFlush, sendFinish, doSend, reallyDie, driverDie]
      (repeat' split) <;> simp_all
  · exact flushed_reconnect false w h

theorem flushed_feedLines (ls : List Bytes) (w : World) (h : Flushed w) : Flushed (feedLines env ls w) := by
  induction ls generalizing w with
  | nil => exact h
  | cons l ls ih =>
    unfold feedLines
    cases parseMsg env.timeOk (decode l) with
    | empty => exact ih w h
    | malformed =>
      simp only [hne.2.2, Bool.false_eq_true, ↓reduceIte]
      exact ih w h
    | crash e => exact ⟨h.script, h.buffer⟩
    | msg m =>
      simp only [hne.1 w.allFed m]
      have hf : Flushed (feedMsg env m w) := ⟨h.script, h.buffer⟩
      cases env.reconnects w.allFed m with
      | some wait => exact flushed_reconnect wait _ hf
      | none => exact ih _ hf

theorem flushed_readData (b : Bytes) (w : World) (h : Flushed w) : Flushed (readData env b w) := by
  unfold readData; exact flushed_feedLines hne _ _ ⟨h.script, h.buffer⟩

theorem flushed_sendAfterRead (w : World) (h : Flushed w) : Flushed (sendAfterRead env w) := by
  unfold sendAfterRead
  split
  · exact h
  · split
    · exact h
    · exact flushed_sendIfMsgs hne w h

theorem flushed_read (w : World) (h : Flushed w) : Flushed (read env w) := by
  unfold read
  split
  · exact flushed_sendAfterRead hne w h
  · exact flushed_handleSocketError _ _ (flushed_setRecv w _ h)
  · exact flushed_sendAfterRead hne _ (flushed_readData hne _ _ (flushed_setRecv w _ h))
  · exact flushed_sendAfterRead hne _ (flushed_setRecv w _ h)
  · exact flushed_handleSocketError _ _ (flushed_setRecv w _ h)

theorem flushed_selectRead (w : World) (h : Flushed w) : Flushed (selectRead env w) := by
  unfold selectRead
  split
  · exact h
  · exact flushed_read hne w h

theorem flushed_selectSend (w : World) (h : Flushed w) : Flushed (selectSend env w) := by
  unfold selectSend
  split
  · exact h
  · split
    · exact h
    · exact flushed_sendIfMsgs hne w h

theorem flushed_loop (w : World) (h : Flushed w) : Flushed (loop env w) := by
  unfold loop
  split
  · exact h
  · have h0 : Flushed (runTimer env w) := by
      unfold runTimer
      split
      · exact flushed_reconnect false w h
      · exact h
    have h1 : Flushed (run env w) := by
      unfold run
      split
      · exact h0
      · unfold select
        split
        · exact flushed_sendIfMsgs hne _ h0
        · split
          · exact flushed_sendIfMsgs hne _ h0
          · exact flushed_selectSend hne _ (flushed_selectRead hne _ (flushed_sendIfMsgs hne _ h0))
    unfold loopCatch
    split
    · exact ⟨h1.script, h1.buffer⟩
    · exact h1

end

def scriptsNoSend (ops : List Op) : Prop := ∀ op ∈ ops, ∀ r, op ≠ .scriptSend r

theorem flushed_runOps {env : Env} (hne : NoEscape env) (ops : List Op) (w : World) (h : Flushed w)
    (hn : scriptsNoSend ops) :
    Flushed (runOps env w ops) := by
  induction ops generalizing w with
  | nil => exact h
  | cons op ops ih =>
    have hn' : scriptsNoSend ops := fun o ho r => hn o (by simp [ho]) r
    refine ih _ ?_ hn'
    cases op with
    | queue s =>
      simp only [step]
      split
      · exact h
      · exact ⟨h.script, h.buffer⟩
    | scriptSend r => exact absurd rfl (hn (.scriptSend r) (by simp) r)
    | scriptRecv r => exact ⟨h.script, h.buffer⟩
    | ircDie => exact ⟨h.script, h.buffer⟩
    | tick => exact ⟨h.script, h.buffer⟩
    | pingTimeout => exact ⟨h.script, h.buffer⟩
    | loop => exact flushed_loop hne w h

end C11
