import LimnoriaModel.C11.Model
import LimnoriaModel.C11.Multi
import LimnoriaModel.C05.Drive
import LimnoriaModel.Driver.Core
namespace C11
open Py Wire

def b01 (b : Bool) : String := if b then "1" else "0"

def encMsg (m : C05.Msg) : String :=
  let t : Option Str := match C05.dictGet m.tags C05.timeKey with
    | some (some v) => some v
    | _ => none
  enc m.pfx ++ "/" ++ enc m.command ++ "/" ++ encList m.args ++ "/" ++ C05.encTags m.tags ++ "/" ++ encOpt t

def encMsgs (ms : List C05.Msg) : String :=
  if ms.isEmpty then "-" else ";".intercalate (ms.map encMsg)

/-- the bytes accepted by any socket between `old` and `w` -/
def wireDelta (old w : World) : Bytes :=
  if w.pastWires.length = old.pastWires.length then w.wire.drop old.wire.length
  else (w.pastWires.drop old.pastWires.length).flatten.drop old.wire.length ++ w.wire

/-- canonical dump of the observable state; `wire` and `fed` as deltas against `old` -/
def dump (old w : World) : String :=
  "c" ++ b01 w.connected ++ " z" ++ b01 w.zombie ++ " x" ++ b01 w.removed ++ " k" ++ b01 w.sockClosed ++
  " r" ++ b01 w.reconnectAt ++ " e" ++ toString w.eagains ++ " ep" ++ toString w.epoch ++
  " ob=" ++ encBytes w.outbuffer ++ " ib=" ++ encBytes w.inbuffer ++
  " w=" ++ encBytes (wireDelta old w) ++
  " q=" ++ toString w.queue.length ++
  " f=" ++ encMsgs (w.allFed.drop old.allFed.length) ++
  (match w.crashed with | some e => " crash=" ++ e | none => "")

def decSend (f : String) : Option SendRes :=
  match f.toList with
  | 's' :: n => (String.ofList n).toNat?.map .sent
  | 'e' :: n => (String.ofList n).toNat?.map .error
  | _ => none

def decRecv (f : String) : Option RecvRes :=
  match f.toList with
  | ['t'] => some .timeout
  | 'd' :: h => (decBytes (String.ofList h)).map .data
  | 'e' :: n => (String.ofList n).toNat?.map .error
  | _ => none

structure DState where
  w : World := {}
  ws : List World := []                   -- several drivers sharing `_select`
  accept : Option (List Str) := none      -- `none`: every time value is accepted

def timeOkOf (s : DState) : Str → Bool :=
  fun v => match s.accept with | none => true | some l => l.contains v

def envOf (s : DState) : Env := { timeOk := timeOkOf s, react := pingPong, reconnects := errorReconnect }

def decOp : List String → Option Op
  | ["q", s] => (dec s).map .queue
  | ["ss", r] => (decSend r).map .scriptSend
  | ["sr", r] => (decRecv r).map .scriptRecv
  | ["die"] => some .ircDie
  | ["tick"] => some .tick
  | ["pt"] => some .pingTimeout
  | ["loop"] => some .loop
  | _ => none

def driveWith (mkEnv : DState → Env) (s : DState) (fs : List String) : DState × String :=
  match fs with
  | ["reset"] => ({ s with w := {} }, "ok")
  | ["timeall"] => ({ s with accept := none }, "ok")
  | ["timeset", l] =>
    (match decList l with
     | some l => ({ s with accept := some l }, "ok")
     | none => (s, "bad-op"))
  | ["decode", b] => (s, match decBytes b with | some b => enc (decode b) | none => "bad-op")
  | ["utf8", t] => (s, match dec t with | some t => encBytes (utf8 t) | none => "bad-op")
  | ["splitlf", b] =>
    (s, match decBytes b with
        | some b =>
          let p := splitLF b
          (if p.1.isEmpty then "-" else ",".intercalate (p.1.map encBytes)) ++ "|" ++ encBytes p.2
        | none => "bad-op")
  | ["mreset", n] =>
    (match n.toNat? with
     | some n => ({ s with ws := List.replicate n {} }, "ok")
     | none => (s, "bad-op"))
  | ["mloop"] =>
    let ws' := multiLoop (mkEnv s) s.ws
    ({ s with ws := ws' }, " || ".intercalate ((s.ws.zip ws').map fun (o, n) => dump o n))
  | "m" :: i :: rest =>
    (match i.toNat?, decOp rest with
     | some i, some op =>
       (match s.ws[i]? with
        | some w =>
          let w' := step (mkEnv s) w op
          let ws' := s.ws.set i w'
          ({ s with ws := ws' }, " || ".intercalate ((s.ws.zip ws').map fun (o, n) => dump o n))
        | none => (s, "bad-op"))
     | _, _ => (s, "bad-op"))
  | _ =>
    match decOp fs with
    | none => (s, "bad-op")
    | some op =>
      let w' := step (mkEnv s) s.w op
      ({ s with w := w' }, dump s.w w')

def drive : DState → List String → DState × String := driveWith envOf

def handler : Driver.Handler := { σ := DState, init := {}, step := drive }
end C11
