/-
C11 — several SocketDriver instances: `_select` is a classmethod over `SocketDriver._instances`, so
every driver's `run()` reads *all* readable connections and then sends for *all* of them
(src/drivers/Socket.py:158-190).  Each connection has its own Irc, socket scripts and buffers: a
`World` per driver.
-/
import LimnoriaModel.C11.Lemmas
namespace C11
open Py

/-- the read phase of `_select` for one instance of `_instances` -/
def selectReadG (env : Env) (w : World) : World :=
  if w.crashed.isSome then w else if !w.connected || w.zombie then w else selectRead env w

/-- the send phase of `_select` for one instance -/
def selectSendG (env : Env) (w : World) : World :=
  if !w.connected || w.zombie then w else selectSend env w

/-- `_select()` over all instances: all reads first, then all sends -/
def selectAll (env : Env) (ws : List World) : List World :=
  (ws.map (selectReadG env)).map (selectSendG env)

/-- the `run()` of the driver at position `i` (its own timer and `_sendIfMsgs`, then the class-wide `_select`) -/
def multiRun (env : Env) (i : Nat) (ws : List World) : List World :=
  match ws[i]? with
  | none => ws
  | some w =>
    if w.removed then ws
    else if !(runTimer env w).connected then ws.set i (runTimer env w)
    else selectAll env (ws.set i (sendIfMsgs env (runTimer env w)))

/-- one pass of `drivers.run()` over all drivers, in registration order -/
def multiLoop (env : Env) (ws : List World) : List World :=
  (List.range ws.length).foldl (fun ws i => multiRun env i ws) ws

/-- the single-instance `_select` of `Model.lean` is the one-element case -/
theorem select_eq (env : Env) (w : World) : select env w = selectSendG env (selectReadG env w) := by
  unfold select selectSendG selectReadG
  by_cases hc : w.crashed.isSome = true
  · simp only [hc, ↓reduceIte]
    split
    · rfl
    · unfold selectSend; simp [hc]
  · simp only [hc, Bool.false_eq_true, ↓reduceIte]
    by_cases hg : (!w.connected || w.zombie) = true
    · simp [hg]
    · simp only [hg, Bool.false_eq_true, ↓reduceIte]
      split
      · rename_i h
        unfold selectSend
        split
        · rfl
        · have : (!(selectRead env w).connected || (selectRead env w).zombie || (selectRead env w).ircZombie) = true := by
            simp only [Bool.or_eq_true] at h ⊢
            exact Or.inl h
          simp [this]
      · rfl

section
variable {env : Env} (hne : NoEscape env)
include hne

theorem inv_selectReadG (w : World) (h : Inv env w) : Inv env (selectReadG env w) := by
  unfold selectReadG
  split
  · exact h
  · split
    · exact h
    · exact inv_selectRead hne w h

theorem inv_selectSendG (w : World) (h : Inv env w) : Inv env (selectSendG env w) := by
  unfold selectSendG
  split
  · exact h
  · exact inv_selectSend hne w h

theorem inv_selectAll (ws : List World) (h : ∀ w ∈ ws, Inv env w) : ∀ w ∈ selectAll env ws, Inv env w := by
  intro w hw
  unfold selectAll at hw
  simp only [List.map_map, List.mem_map, Function.comp] at hw
  obtain ⟨w0, hw0, rfl⟩ := hw
  exact inv_selectSendG hne _ (inv_selectReadG hne w0 (h w0 hw0))

omit hne in
theorem mem_set_inv {P : World → Prop} (ws : List World) (i : Nat) (x : World) (h : ∀ w ∈ ws, P w) (hx : P x) :
    ∀ w ∈ ws.set i x, P w := by
  intro w hw
  rcases List.mem_or_eq_of_mem_set hw with h1 | h1
  · exact h w h1
  · subst h1; exact hx

theorem inv_multiRun (i : Nat) (ws : List World) (h : ∀ w ∈ ws, Inv env w) : ∀ w ∈ multiRun env i ws, Inv env w := by
  unfold multiRun
  cases hi : ws[i]? with
  | none => exact h
  | some x =>
    have hx : Inv env x := h x (List.mem_of_getElem? hi)
    simp only
    split
    · exact h
    · split
      · exact mem_set_inv ws i _ h (inv_runTimer x hx)
      · exact inv_selectAll hne _ (mem_set_inv ws i _ h (inv_sendIfMsgs hne _ (inv_runTimer x hx)))

/-- **The per-connection invariants survive any number of drivers sharing `_select`**: after a pass
of the driver loop over all of them, every connection still satisfies `Inv` (bytes accepted ++
out-buffer = encoding of what was taken; delivered = messages of the complete lines received). -/
theorem inv_multiLoop (ws : List World) (h : ∀ w ∈ ws, Inv env w) : ∀ w ∈ multiLoop env ws, Inv env w := by
  unfold multiLoop
  generalize List.range ws.length = idx
  induction idx generalizing ws with
  | nil => exact h
  | cons i rest ih => exact ih _ (inv_multiRun hne i ws h)

end

end C11
