/-
C11 — the UTF-8 encoder and the replacing decoder of the model are inverse on encoded text:
`decode (utf8 s) = s` for every string (helper lemmas for `Props.lean`).
-/
import LimnoriaModel.C11.Model
namespace C11
open Py

theorem b8_toNat (n : Nat) (h : n < 256) : (b8 n).toNat = n := by
  simp [b8, Nat.mod_eq_of_lt h]

theorem char_range (c : Char) : c.toNat < 0xD800 ∨ (0xDFFF < c.toNat ∧ c.toNat < 0x110000) := by
  have := c.valid
  have e : c.toNat = c.val.toNat := rfl
  simp only [UInt32.isValidChar, Nat.isValidChar] at this
  omega

/-- decoding the encoding of `c` (followed by anything) gives `c` and consumes exactly its bytes -/
theorem decodeStep_enc (c : Char) (tail : Bytes) :
    ∃ a r, encChar c = a :: r ∧ decodeStep a (r ++ tail) = (c, r.length) := by
  have hr := char_range c
  unfold encChar
  simp only
  by_cases h1 : c.toNat < 0x80
  · refine ⟨b8 c.toNat, [], by simp [h1], ?_⟩
    unfold decodeStep
    rw [b8_toNat _ (by omega)]
    simp [h1, Char.ofNat_toNat]
  · by_cases h2 : c.toNat < 0x800
    · refine ⟨_, _, by simp only [h1, h2, ↓reduceIte]; rfl, ?_⟩
      unfold decodeStep
      have ea : (b8 (0xC0 + c.toNat / 64)).toNat = 0xC0 + c.toNat / 64 := b8_toNat _ (by omega)
      have eb : (b8 (0x80 + c.toNat % 64)).toNat = 0x80 + c.toNat % 64 := b8_toNat _ (by omega)
      have n1 : ¬ (0xC0 + c.toNat / 64 < 0x80) := by omega
      have n2 : ¬ (0xC0 + c.toNat / 64 < 0xC2) := by omega
      have n3 : 0xC0 + c.toNat / 64 < 0xE0 := by omega
      simp only [ea, n1, n2, n3, ↓reduceIte, List.cons_append, List.nil_append, isCont, eb, mk2]
      have : (0x80 ≤ 0x80 + c.toNat % 64 && 0x80 + c.toNat % 64 ≤ 0xBF) = true := by
        simp only [Bool.and_eq_true, decide_eq_true_eq]; omega
      rw [if_pos (by simpa using this)]
      have : (0xC0 + c.toNat / 64 - 0xC0) * 64 + (0x80 + c.toNat % 64 - 0x80) = c.toNat := by omega
      rw [this, Char.ofNat_toNat]
      rfl
    · by_cases h3 : c.toNat < 0x10000
      · refine ⟨_, _, by simp only [h1, h2, h3, ↓reduceIte]; rfl, ?_⟩
        unfold decodeStep
        have ea : (b8 (0xE0 + c.toNat / 4096)).toNat = 0xE0 + c.toNat / 4096 := b8_toNat _ (by omega)
        have eb : (b8 (0x80 + c.toNat / 64 % 64)).toNat = 0x80 + c.toNat / 64 % 64 := b8_toNat _ (by omega)
        have ec : (b8 (0x80 + c.toNat % 64)).toNat = 0x80 + c.toNat % 64 := b8_toNat _ (by omega)
        have n1 : ¬ (0xE0 + c.toNat / 4096 < 0x80) := by omega
        have n2 : ¬ (0xE0 + c.toNat / 4096 < 0xC2) := by omega
        have n3 : ¬ (0xE0 + c.toNat / 4096 < 0xE0) := by omega
        have n4 : 0xE0 + c.toNat / 4096 < 0xF0 := by omega
        simp only [ea, n1, n2, n3, n4, ↓reduceIte, List.cons_append, List.nil_append, isCont, eb, ec, mk3]
        have g : (!(decide (0x80 ≤ 0x80 + c.toNat / 64 % 64) && decide (0x80 + c.toNat / 64 % 64 ≤ 0xBF)) ||
            (0xE0 + c.toNat / 4096 == 0xE0 && decide (0x80 + c.toNat / 64 % 64 < 0xA0)) ||
            (0xE0 + c.toNat / 4096 == 0xED && decide (0x80 + c.toNat / 64 % 64 ≥ 0xA0))) = false := by
          simp only [Bool.or_eq_false_iff, Bool.not_eq_eq_eq_not, Bool.not_false, Bool.and_eq_true,
            decide_eq_true_eq, Bool.and_eq_false_imp, beq_iff_eq, decide_eq_false_iff_not]
          omega
        rw [if_neg (by simpa using g)]
        have g2 : (decide (0x80 ≤ 0x80 + c.toNat % 64) && decide (0x80 + c.toNat % 64 ≤ 0xBF)) = true := by
          simp only [Bool.and_eq_true, decide_eq_true_eq]; omega
        rw [if_pos (by simpa using g2)]
        have : (0xE0 + c.toNat / 4096 - 0xE0) * 4096 + (0x80 + c.toNat / 64 % 64 - 0x80) * 64
            + (0x80 + c.toNat % 64 - 0x80) = c.toNat := by omega
        rw [this, Char.ofNat_toNat]
        rfl
      · refine ⟨_, _, by simp only [h1, h2, h3, ↓reduceIte]; rfl, ?_⟩
        unfold decodeStep
        have ea : (b8 (0xF0 + c.toNat / 262144)).toNat = 0xF0 + c.toNat / 262144 := b8_toNat _ (by omega)
        have eb : (b8 (0x80 + c.toNat / 4096 % 64)).toNat = 0x80 + c.toNat / 4096 % 64 := b8_toNat _ (by omega)
        have ec : (b8 (0x80 + c.toNat / 64 % 64)).toNat = 0x80 + c.toNat / 64 % 64 := b8_toNat _ (by omega)
        have ed : (b8 (0x80 + c.toNat % 64)).toNat = 0x80 + c.toNat % 64 := b8_toNat _ (by omega)
        have n1 : ¬ (0xF0 + c.toNat / 262144 < 0x80) := by omega
        have n2 : ¬ (0xF0 + c.toNat / 262144 < 0xC2) := by omega
        have n3 : ¬ (0xF0 + c.toNat / 262144 < 0xE0) := by omega
        have n4 : ¬ (0xF0 + c.toNat / 262144 < 0xF0) := by omega
        have n5 : 0xF0 + c.toNat / 262144 < 0xF5 := by omega
        simp only [ea, n1, n2, n3, n4, n5, ↓reduceIte, List.cons_append, List.nil_append, isCont, eb, ec, ed, mk4]
        have g : (!(decide (0x80 ≤ 0x80 + c.toNat / 4096 % 64) && decide (0x80 + c.toNat / 4096 % 64 ≤ 0xBF)) ||
            (0xF0 + c.toNat / 262144 == 0xF0 && decide (0x80 + c.toNat / 4096 % 64 < 0x90)) ||
            (0xF0 + c.toNat / 262144 == 0xF4 && decide (0x80 + c.toNat / 4096 % 64 ≥ 0x90))) = false := by
          simp only [Bool.or_eq_false_iff, Bool.not_eq_eq_eq_not, Bool.not_false, Bool.and_eq_true,
            decide_eq_true_eq, Bool.and_eq_false_imp, beq_iff_eq, decide_eq_false_iff_not]
          omega
        rw [if_neg (by simpa using g)]
        have g2 : (!(decide (0x80 ≤ 0x80 + c.toNat / 64 % 64) && decide (0x80 + c.toNat / 64 % 64 ≤ 0xBF))) = false := by
          simp only [Bool.not_eq_eq_eq_not, Bool.not_false, Bool.and_eq_true, decide_eq_true_eq]; omega
        rw [if_neg (by simpa using g2)]
        have g3 : (decide (0x80 ≤ 0x80 + c.toNat % 64) && decide (0x80 + c.toNat % 64 ≤ 0xBF)) = true := by
          simp only [Bool.and_eq_true, decide_eq_true_eq]; omega
        rw [if_pos (by simpa using g3)]
        have : (0xF0 + c.toNat / 262144 - 0xF0) * 262144 + (0x80 + c.toNat / 4096 % 64 - 0x80) * 4096
            + (0x80 + c.toNat / 64 % 64 - 0x80) * 64 + (0x80 + c.toNat % 64 - 0x80) = c.toNat := by omega
        rw [this, Char.ofNat_toNat]
        rfl

theorem encChar_length_pos (c : Char) : 0 < (encChar c).length := by
  unfold encChar; simp only; split <;> (try split) <;> (try split) <;> simp

theorem decodeAux_utf8 (s : Str) (tail : Bytes) (fuel : Nat) (hf : s.length ≤ fuel) :
    decodeAux fuel (utf8 s ++ tail) = s ++ decodeAux (fuel - s.length) tail := by
  induction s generalizing fuel with
  | nil => simp [utf8]
  | cons c cs ih =>
    obtain ⟨a, r, he, hd⟩ := decodeStep_enc c (utf8 cs ++ tail)
    have hu : utf8 (c :: cs) = a :: (r ++ utf8 cs) := by simp [utf8, he]
    rw [hu]
    cases fuel with
    | zero => simp at hf
    | succ n =>
      simp only [List.cons_append, decodeAux]
      rw [List.append_assoc, hd]
      simp only [List.drop_left', List.cons.injEq, true_and]
      have hl : cs.length ≤ n := by simp at hf; omega
      rw [ih n hl]
      congr 2
      simp only [List.length_cons]
      omega

theorem length_le_utf8 (s : Str) : s.length ≤ (utf8 s).length := by
  induction s with
  | nil => simp
  | cons c cs ih =>
    have := encChar_length_pos c
    simp only [utf8, List.flatMap_cons, List.length_append, List.length_cons] at ih ⊢
    omega

theorem decode_utf8 (s : Str) : decode (utf8 s) = s := by
  have := decodeAux_utf8 s [] (utf8 s).length (length_le_utf8 s)
  simp only [List.append_nil] at this
  unfold decode
  rw [this]
  cases ((utf8 s).length - s.length) <;> simp [decodeAux]

theorem encChar_length (c : Char) : (encChar c).length = c.utf8Size := by
  unfold encChar Char.utf8Size
  have e : c.toNat = c.val.toNat := rfl
  simp only [UInt32.le_iff_toNat_le, e]
  have k1 : (UInt32.ofNatLT 127 Char.utf8Size._proof_1).toNat = 127 := rfl
  have k2 : (UInt32.ofNatLT 2047 Char.utf8Size._proof_2).toNat = 2047 := rfl
  have k3 : (UInt32.ofNatLT 65535 Char.utf8Size._proof_3).toNat = 65535 := rfl
  rw [k1, k2, k3]
  by_cases h1 : c.toNat < 0x80
  · have : c.toNat ≤ 127 := by omega
    simp [h1, this]
  · have n1 : ¬ c.toNat ≤ 127 := by omega
    by_cases h2 : c.toNat < 0x800
    · have : c.toNat ≤ 2047 := by omega
      simp [h1, h2, n1, this]
    · have n2 : ¬ c.toNat ≤ 2047 := by omega
      by_cases h3 : c.toNat < 0x10000
      · have : c.toNat ≤ 65535 := by omega
        simp [h1, h2, h3, n1, n2, this]
      · have n3 : ¬ c.toNat ≤ 65535 := by omega
        simp [h1, h2, h3, n1, n2, n3]

end C11
