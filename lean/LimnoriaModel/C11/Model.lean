/-
C11 — model of `supybot.drivers.Socket.SocketDriver` (src/drivers/Socket.py:107-228 after the
two `fix:` commits 7addbe0 / 56dc7ac), `drivers.parseMsg` (src/drivers/__init__.py:242-255),
`utils.str.decode_raw_line` (src/utils/str.py:55-82, charade not installed: UTF-8 with
`errors='replace'`) and of the part of `drivers.run` that concerns one driver
(src/drivers/__init__.py:144-172).

The environment of the driver is part of the state (`World`): the Irc object is a FIFO of the
`str()`s of queued messages plus a `react` function (what `feedMsg` queues in answer), the socket
is a pair of *scripts* — the outcomes of the next `send()` / `recv()` calls — plus the bytes it
has accepted so far.  Quantifying over all scripts is quantifying over all short-write / EAGAIN /
fragmentation schedules.
-/
import LimnoriaModel.Py.Basic
import LimnoriaModel.C05.Model
namespace C11
open Py

abbrev Bytes := List UInt8

def b8 (n : Nat) : UInt8 := UInt8.ofNat n

/-- the UTF-8 encoding of one character, written arithmetically (RFC 3629) -/
def encChar (c : Char) : Bytes :=
  let v := c.toNat
  if v < 0x80 then [b8 v]
  else if v < 0x800 then [b8 (0xC0 + v / 64), b8 (0x80 + v % 64)]
  else if v < 0x10000 then [b8 (0xE0 + v / 4096), b8 (0x80 + v / 64 % 64), b8 (0x80 + v % 64)]
  else [b8 (0xF0 + v / 262144), b8 (0x80 + v / 4096 % 64), b8 (0x80 + v / 64 % 64), b8 (0x80 + v % 64)]

/-- `str.encode()` (UTF-8). -/
def utf8 (s : Str) : Bytes := s.flatMap encChar

/-! ### `bytes.decode('utf8', 'replace')` — CPython's decoder (Objects/stringlib/codecs.h
`utf8_decode` + the `replace` error handler): every maximal ill-formed subpart becomes one
U+FFFD; a truncated but so-far-valid sequence at the end of the input becomes one U+FFFD. -/

def isCont (b : UInt8) : Bool := 0x80 ≤ b.toNat && b.toNat ≤ 0xBF
def repl : Char := Char.ofNat 0xFFFD

def mk2 (a b : UInt8) : Char := Char.ofNat ((a.toNat - 0xC0) * 64 + (b.toNat - 0x80))
def mk3 (a b c : UInt8) : Char :=
  Char.ofNat ((a.toNat - 0xE0) * 4096 + (b.toNat - 0x80) * 64 + (c.toNat - 0x80))
def mk4 (a b c d : UInt8) : Char :=
  Char.ofNat ((a.toNat - 0xF0) * 262144 + (b.toNat - 0x80) * 4096 + (c.toNat - 0x80) * 64
    + (d.toNat - 0x80))

/-- The first decoded character of `a :: rest` and how many bytes of `rest` it consumes. -/
def decodeStep (a : UInt8) (rest : Bytes) : Char × Nat :=
  if a.toNat < 0x80 then (Char.ofNat a.toNat, 0)
  else if a.toNat < 0xC2 then (repl, 0)                 -- invalid start byte
  else if a.toNat < 0xE0 then
    match rest with
    | [] => (repl, 0)                                   -- unexpected end of data
    | b :: _ => if isCont b then (mk2 a b, 1) else (repl, 0)
  else if a.toNat < 0xF0 then
    match rest with
    | [] => (repl, 0)
    | b :: r2 =>
      if !isCont b || (a.toNat == 0xE0 && b.toNat < 0xA0) || (a.toNat == 0xED && b.toNat ≥ 0xA0) then (repl, 0)
      else match r2 with
        | [] => (repl, 1)                               -- unexpected end: whole tail, one U+FFFD
        | c :: _ => if isCont c then (mk3 a b c, 2) else (repl, 1)
  else if a.toNat < 0xF5 then
    match rest with
    | [] => (repl, 0)
    | b :: r2 =>
      if !isCont b || (a.toNat == 0xF0 && b.toNat < 0x90) || (a.toNat == 0xF4 && b.toNat ≥ 0x90) then (repl, 0)
      else match r2 with
        | [] => (repl, 1)
        | c :: r3 =>
          if !isCont c then (repl, 1)
          else match r3 with
            | [] => (repl, 2)
            | d :: _ => if isCont d then (mk4 a b c d, 3) else (repl, 2)
  else (repl, 0)                                        -- 0xF5..0xFF: invalid start byte

/-- `fuel` steps of the decoder (every step consumes at least one byte) -/
def decodeAux : Nat → Bytes → Str
  | 0, _ => []
  | _, [] => []
  | n + 1, a :: rest => (decodeStep a rest).1 :: decodeAux n (rest.drop (decodeStep a rest).2)

/-- `decode_raw_line(line)` -/
def decode (bs : Bytes) : Str := decodeAux bs.length bs

/-! ### line framing: `lines = inbuffer.split(b'\n'); inbuffer = lines.pop()` -/

def LF : UInt8 := 10

/-- (complete lines, remainder) -/
def splitLF : Bytes → List Bytes × Bytes
  | [] => ([], [])
  | b :: bs =>
    if b = LF then ([] :: (splitLF bs).1, (splitLF bs).2)
    else match (splitLF bs).1 with
      | [] => ([], b :: (splitLF bs).2)
      | l :: ls => ((b :: l) :: ls, (splitLF bs).2)

/-- `bytes.split(b'\n')` written the way Python computes it (always ≥ 1 piece) -/
def splitB (sep : UInt8) : Bytes → List Bytes
  | [] => [[]]
  | b :: bs =>
    if b = sep then [] :: splitB sep bs
    else match splitB sep bs with
      | [] => [[b]]
      | p :: ps => (b :: p) :: ps

/-! ### `drivers.parseMsg` -/

inductive LineResult where
  | empty                       -- `s.strip()` is empty: `None`
  | malformed                   -- `MalformedIrcMsg`: logged, `None` (fix 56dc7ac)
  | msg (m : C05.Msg)
  | crash (e : String)          -- any other exception: escapes `_read`
deriving DecidableEq, Repr

def parseMsg (timeOk : Str → Bool) (s : Str) : LineResult :=
  let s' := strip s
  if s' = [] then .empty
  else match C05.parse timeOk s' with
    | .ok m _ => .msg m
    | .malformed => .malformed
    | .crash e => .crash e

/-! ### the world: driver fields, Irc stub, scripted socket, ghost history -/

inductive SendRes where
  | sent (n : Nat)              -- `conn.send(buf)` returned `n`: the socket took `buf[:n]`
  | error (errno : Nat)         -- `socket.error` with `e.args[0] = errno` (11 = EAGAIN)
deriving DecidableEq, Repr

inductive RecvRes where
  | data (b : Bytes)            -- `conn.recv(1024)` returned `b` (`b''` = closed by peer)
  | timeout                     -- `socket.timeout` / SSL 'The read operation timed out'
  | error (errno : Nat)         -- `socket.error`
deriving DecidableEq, Repr

structure Env where
  /-- `strptime` accepts the `time` tag value -/
  timeOk : Str → Bool
  /-- the `str()`s of what `irc.feedMsg(m)` queues (e.g. PONG), given everything fed before:
  the state of a deterministic Irc is a function of that history -/
  react : List C05.Msg → C05.Msg → List Str
  /-- the exception escaping `irc.feedMsg(m)`, if any (C07: none when `feedMsg` is firewalled
  and the handlers raise only `Exception`s) -/
  feedEscapes : List C05.Msg → C05.Msg → Option String := fun _ _ => none
  /-- the exception escaping the take/join/encode stage of `_sendIfMsgs` (`irc.takeMsg()`,
  `''.join(map(str, msgs))`, `.encode(...)`), if any, given the `str()`s about to be taken -/
  takeEscapes : List Str → Option String := fun _ => none
  /-- `MalformedIrcMsg` is *not* caught by `drivers.parseMsg` (false since fix 56dc7ac) -/
  malformedEscapes : Bool := false
  /-- `irc.feedMsg(m)` makes the Irc call `driver.reconnect(wait=…)` (`ERROR :Closing link`,
  an STS policy, a failed required SASL …): `some wait` -/
  reconnects : List C05.Msg → C05.Msg → Option Bool := fun _ _ => none
  /-- the `str()`s `Irc.reset()` queues (connection registration: CAP LS, NICK, USER …) -/
  onReset : List Str := []

/-- no exception escapes the Irc object's `feedMsg` / `takeMsg`, the encoding, or `parseMsg` -/
def NoEscape (env : Env) : Prop :=
  (∀ h m, env.feedEscapes h m = none) ∧ (∀ q, env.takeEscapes q = none) ∧ env.malformedEscapes = false

structure World where
  -- SocketDriver
  connected : Bool := true
  zombie : Bool := false               -- `driver.zombie` (`die()` was called)
  eagains : Nat := 0
  outbuffer : Bytes := []
  inbuffer : Bytes := []
  reconnectAt : Bool := false          -- `nextReconnectTime is not None`
  reconnectDue : Bool := false         -- … and the clock has passed it
  sockClosed : Bool := false           -- `conn.close()` was called
  removed : Bool := false              -- name in `drivers._deadDrivers`: `drivers.run` never runs it again
  crashed : Option String := none      -- an exception escaped `run()` (`drivers.run` then removes the driver)
  -- Irc stub
  queue : List Str := []               -- `str(m)` of the messages `takeMsg` will hand out, in order
  ircZombie : Bool := false            -- `irc.zombie` (`Irc.die()` was called)
  pingDue : Bool := false              -- the Irc's ping timed out: the next `takeMsg()` that finds the queues empty reconnects
  fed : List C05.Msg := []             -- every `irc.feedMsg(m)` since the last `Irc.reset()`
  allFed : List C05.Msg := []          -- every `irc.feedMsg(m)` ever
  -- scripted socket
  sendScript : List SendRes := []      -- outcomes of the next `send()` calls ([] = accepts everything)
  recvScript : List RecvRes := []      -- outcomes of the next `recv()` calls ([] = nothing readable)
  wire : Bytes := []                   -- bytes the current socket accepted so far
  epoch : Nat := 0                     -- number of re-connections so far
  pastWires : List Bytes := []         -- what the earlier sockets accepted
  -- ghost history of the current connection (never read by the driver)
  queued : List Str := []              -- everything queued since the last `Irc.reset()`
  taken : List Str := []               -- everything `takeMsg` handed to the driver on this connection
  rx : Bytes := []                     -- every byte `recv()` returned on this connection
deriving Repr

def init : World := {}

/-! ### write side -/

/-- `_handleSocketError(e)`; `none` = "the socket was closed". -/
def handleSocketError (e : Option Nat) (w : World) : World :=
  if e ≠ some 11 ∨ w.eagains > 120 then
    { w with connected := false, sockClosed := true, reconnectAt := true, reconnectDue := false }
  else { w with eagains := w.eagains + 1 }

/-- `SocketDriver.reconnect(wait, reset=True)` since fix 9171ff7 (the connection attempt itself
succeeds): both buffers are emptied, the old socket is closed, `Irc.reset()` clears the Irc's queues
and queues the registration messages; with `wait` the new connection is only scheduled. -/
def reconnect (env : Env) (wait : Bool) (w : World) : World :=
  let q : List Str := if w.ircZombie then [] else env.onReset
  let w1 : World :=
    { w with reconnectAt := false, reconnectDue := false, inbuffer := [], outbuffer := [], pingDue := false,
             connected := false, sockClosed := (w.connected || w.sockClosed),
             pastWires := (if w.connected then w.pastWires ++ [w.wire] else w.pastWires), wire := [],
             queue := q, queued := q, taken := [], fed := [], rx := [] }
  if wait then { w1 with reconnectAt := true }
  else { w1 with connected := true, sockClosed := false, epoch := w.epoch + 1,
                 sendScript := [], recvScript := [] }

/-- `SocketDriver.die()` as far as this model sees it. -/
def driverDie (w : World) : World := { w with zombie := true, removed := true, reconnectAt := false }

/-- the `takeMsg()` loop of `_sendIfMsgs`: all queued messages; a zombie Irc whose queues are
empty kills the driver (`self.driver.die()`) from inside `takeMsg`. -/
def takeAll (w : World) : World :=
  let w1 := { w with outbuffer := w.outbuffer ++ utf8 w.queue.flatten,
                     taken := w.taken ++ w.queue, queue := [] }
  if w.ircZombie then driverDie w1 else w1

/-- `sent = self.conn.send(self.outbuffer)` … with the next scripted outcome -/
def doSend (w : World) : World :=
  match w.sendScript with
  | [] => { w with wire := w.wire ++ w.outbuffer, outbuffer := [], eagains := 0 }
  | .sent n :: rs =>
    { w with sendScript := rs, wire := w.wire ++ w.outbuffer.take n,
             outbuffer := w.outbuffer.drop n, eagains := 0 }
  | .error e :: rs => handleSocketError (some e) { w with sendScript := rs }

/-- `_reallyDie()` -/
def reallyDie (w : World) : World := { w with sockClosed := true, removed := true }

/-- `if not self.zombie:` the `takeMsg()` loop -/
def sendTake (w : World) : World := if w.zombie then w else takeAll w

/-- `if self.outbuffer and self.connected:` one `send()`.  (`connected` holds here: the only way the
`takeMsg` loop can drop the connection is the in-loop reconnect, modelled in `sendIfMsgs`, after which
the buffer is empty and the connection is up again.) -/
def sendFlush (w : World) : World := if w.outbuffer = [] then w else doSend w

/-- `if self.zombie and not self.outbuffer: self._reallyDie()` -/
def sendFinish (w : World) : World := if w.zombie && w.outbuffer = [] then reallyDie w else w

/-- `SocketDriver._sendIfMsgs()` -/
def sendPlain (w : World) : World :=
  if !w.connected then w else sendFinish (sendFlush (sendTake w))

/-- … where an exception escaping `irc.takeMsg()` aborts it (and `run()`), and where `takeMsg` itself
may reconnect: with a ping outstanding past its interval, the call that finds both queues empty
feeds an ERROR and calls `driver.reconnect()`.  Since fix 67d65e0 every message is appended to the
out-buffer as it is taken, so what was taken earlier in this loop is emptied with the buffer — it
belonged to the connection that is dropped — and nothing is sent in this call (the buffer is empty;
the registration messages of the new connection are taken by the next call). -/
def sendIfMsgs (env : Env) (w : World) : World :=
  if w.connected && !w.zombie then
    match env.takeEscapes w.queue with
    | some e => { w with crashed := some e }
    | none => if w.pingDue then reconnect env false w else sendPlain w
  else sendPlain w

/-! ### read side -/

/-- `irc.feedMsg(msg)` on the stub: record it, queue the reaction (refused when zombie) -/
def feedMsg (env : Env) (m : C05.Msg) (w : World) : World :=
  let r := if w.ircZombie then [] else env.react w.allFed m
  { w with fed := w.fed ++ [m], allFed := w.allFed ++ [m], queue := w.queue ++ r, queued := w.queued ++ r }

/-- the `for line in lines:` loop of `_read` -/
def feedLines (env : Env) : List Bytes → World → World
  | [], w => w
  | l :: ls, w =>
    match parseMsg env.timeOk (decode l) with
    | .empty => feedLines env ls w
    | .malformed =>
      if env.malformedEscapes then { w with crashed := some "MalformedIrcMsg" } else feedLines env ls w
    | .msg m =>
      match env.feedEscapes w.allFed m with
      | some e => { feedMsg env m w with crashed := some e }
      | none =>
        match env.reconnects w.allFed m with
        -- `if self.conn is not conn or not self.connected: break`: the rest of the chunk came from
        -- the server of the connection just left
        | some wait => reconnect env wait (feedMsg env m w)
        | none => feedLines env ls (feedMsg env m w)
    | .crash e => { w with crashed := some e }

/-- the body of `_read` for a non-empty `new_data` -/
def readData (env : Env) (b : Bytes) (w : World) : World :=
  let buf := w.inbuffer ++ b
  feedLines env (splitLF buf).1
    { w with inbuffer := (splitLF buf).2, eagains := 0, rx := w.rx ++ b }

def sendAfterRead (env : Env) (w : World) : World :=
  if w.crashed.isSome then w
  else if w.ircZombie then w else sendIfMsgs env w

/-- `SocketDriver._read()` -/
def read (env : Env) (w : World) : World :=
  match w.recvScript with
  | [] => sendAfterRead env w                               -- (not reached from `_select`: nothing readable)
  | .data [] :: rs => handleSocketError none { w with recvScript := rs }
  | .data b :: rs => sendAfterRead env (readData env b { w with recvScript := rs })
  | .timeout :: rs => sendAfterRead env { w with recvScript := rs }
  | .error e :: rs => handleSocketError (some e) { w with recvScript := rs }

/-! ### `SocketDriver.run()` / `_select()` / `drivers.run()` -/

/-- `for instance in cls._instances: if instance.conn in rlist: instance._read()`:
readable iff a `recv()` outcome is scripted -/
def selectRead (env : Env) (w : World) : World := if w.recvScript = [] then w else read env w

/-- the final `for instance in cls._instances` loop of `_select` (`_handleSocketError` and
`die()` remove the instance from `_instances`; an exception in `_read` skips it) -/
def selectSend (env : Env) (w : World) : World :=
  if w.crashed.isSome then w
  else if !w.connected || w.zombie || w.ircZombie then w else sendIfMsgs env w

/-- `_select()` for the only instance (`_instances` holds it iff connected and `die()` was not called) -/
def select (env : Env) (w : World) : World :=
  if w.crashed.isSome then w
  else if !w.connected || w.zombie then w else selectSend env (selectRead env w)

/-- `if self.nextReconnectTime is not None and now > self.nextReconnectTime: self.reconnect()` -/
def runTimer (env : Env) (w : World) : World :=
  if w.reconnectAt && w.reconnectDue then reconnect env false w else w

/-- `SocketDriver.run()` (no write-check timer pending) -/
def run (env : Env) (w : World) : World :=
  if !(runTimer env w).connected then runTimer env w
  else select env (sendIfMsgs env (runTimer env w))

/-- `except: log.exception(...); _deadDrivers.add(name)` -/
def loopCatch (w : World) : World := if w.crashed.isSome then { w with removed := true } else w

/-- what one pass of `drivers.run()` does with this driver -/
def loop (env : Env) (w : World) : World :=
  if w.removed then w else loopCatch (run env w)

/-! ### operations (the alphabet of histories) -/

inductive Op where
  | queue (s : Str)             -- `irc.queueMsg(m)`, `str(m) = s`
  | scriptSend (r : SendRes)    -- environment: outcome of a future `send()`
  | scriptRecv (r : RecvRes)    -- environment: outcome of a future `recv()`
  | ircDie                      -- `Irc.die()` (connected Irc: becomes a zombie)
  | tick                        -- time passes: a scheduled reconnect becomes due
  | pingTimeout                 -- time passes: the Irc's outstanding PING was not answered in time
  | loop                        -- one pass of `drivers.run()`
deriving DecidableEq, Repr

def step (env : Env) (w : World) : Op → World
  | .queue s =>
    if w.ircZombie then w       -- `queueMsg` refuses
    else { w with queue := w.queue ++ [s], queued := w.queued ++ [s] }
  | .scriptSend r => { w with sendScript := w.sendScript ++ [r] }
  | .scriptRecv r => { w with recvScript := w.recvScript ++ [r] }
  | .ircDie => { w with ircZombie := true }
  | .tick => { w with reconnectDue := true }
  | .pingTimeout => { w with pingDue := true }
  | .loop => loop env w

def runOps (env : Env) (w : World) (ops : List Op) : World := ops.foldl (step env) w

/-- the stub Irc used by the correspondence run: answers `PING x` with `PONG :x` when `x` is a
valid argument (`ircmsgs.pong` asserts `isValidArgument`; the stub swallows the assertion) -/
def validArg (s : Str) : Bool := !(s.contains '\r' || s.contains '\n' || s.contains (Char.ofNat 0))

/-- `Irc.doError` as the stub Irc of the correspondence run does it -/
def errorReconnect (_ : List C05.Msg) (m : C05.Msg) : Option Bool :=
  if m.command = "ERROR".toList then
    match m.args with
    | a :: _ =>
      if startsWith "closing link".toList (asciiLower a) then some false
      else if contains "too fast".toList a then some true
      else none
    | [] => none
  else none

def pingPong (_ : List C05.Msg) (m : C05.Msg) : List Str :=
  if m.command = "PING".toList then
    match m.args with
    | a :: _ => if validArg a then [C05.format ⟨[], "PONG".toList, [a], []⟩] else []
    | [] => []
  else []

end C11
