import LimnoriaModel.C20.Model
import LimnoriaModel.Driver.Core
namespace C20
open Py Wire

def decNames (f : String) : Option (List Name) :=
  if f = "-" then some [] else (f.splitOn "+").mapM dec

def decKind : String → Option Kind
  | "owner" => some .owner
  | "misc" => some .misc
  | "plain" => some .plain
  | _ => none

/-- `name/kind/before/after/commands` -/
def decPlugin (f : String) : Option Plugin :=
  match f.splitOn "/" with
  | [n, k, b, a, c] => do
    let n ← dec n
    let k ← decKind k
    let b ← decNames b
    let a ← decNames a
    let c ← decNames c
    pure ⟨n, k, b, a, c⟩
  | _ => none

def decOptPlugin (f : String) : Option (Option Plugin) :=
  if f = "~" then some none else (decPlugin f).map some

def decFaults (f : String) : Option Faults :=
  match f.toList with
  | [a, b, c, d] =>
    let bit (ch : Char) : Option Bool := if ch = '0' then some false else if ch = '1' then some true else none
    do
      let a ← bit a
      let b ← bit b
      let c ← bit c
      let d ← bit d
      pure ⟨a, b, c, d⟩
  | _ => none

/-- the set-iteration order is a parameter of the model: instantiate it with the order the
implementation was seen to produce (`hint`), names not in the hint last -/
def ordOf (hint : List Name) : Ord := fun l =>
  l.mergeSort fun p q => hint.idxOf p.name ≤ hint.idxOf q.name

def showReply : Reply → String
  | .success => "success"
  | .error w => "error:" ++ w
  | .exception => "exception"

def out (r : Reply × World) : World × String :=
  (r.2, showReply r.1 ++ "\t" ++ encList ((r.2.view 0).map (·.name)) ++ "\t" ++
    encList ((r.2.view 1).map (·.name)) ++ "\t" ++ encList (answered (r.2.view 0)))

def stepD (w : World) : List String → World × String
  | ["reset", ps] =>
    if ps = "-" then ({ heap := [[]], ref := [0, 0] }, "ok") else
    match (ps.splitOn ",").mapM decPlugin with
    | some l => ({ heap := [l], ref := [0, 0] }, "ok")
    | none => (w, "bad-op")
  | ["load", i, n, av, f, hint] =>
    match i.toNat?, dec n, decOptPlugin av, decFaults f, decList hint with
    | some i, some n, some av, some f, some h => out (execOn (ordOf h) w i (.load n av f))
    | _, _, _, _, _ => (w, "bad-op")
  | ["unload", i, n, f] =>
    match i.toNat?, dec n, decFaults f with
    | some i, some n, some f => out (execOn (ordOf []) w i (.unload n f))
    | _, _, _ => (w, "bad-op")
  | ["reload", i, n, av, f, hint] =>
    match i.toNat?, dec n, decOptPlugin av, decFaults f, decList hint with
    | some i, some n, some av, some f, some h => out (execOn (ordOf h) w i (.reload n av f))
    | _, _, _, _, _ => (w, "bad-op")
  | _ => (w, "bad-op")

def handler : Driver.Handler := { σ := World, init := { heap := [[]], ref := [0, 0] }, step := stepD }
end C20
