import LimnoriaModel.C20.Model
import LimnoriaModel.Driver.Core
namespace C20
open Py Wire

def decNames (f : String) : Option (List Name) :=
  if f = "-" then some [] else (f.splitOn "+").mapM dec

def decKind : String → Option Kind
  | "owner" => some .owner
  | "misc" => some .misc
  | "plain" => some .plain
  | _ => none

/-- `name/kind/before/after/commands` -/
def decPlugin (f : String) : Option Plugin :=
  match f.splitOn "/" with
  | [n, k, b, a, c] => do
    let n ← dec n
    let k ← decKind k
    let b ← decNames b
    let a ← decNames a
    let c ← decNames c
    pure ⟨n, k, b, a, c⟩
  | _ => none

def decOptPlugin (f : String) : Option (Option Plugin) :=
  if f = "~" then some none else (decPlugin f).map some

def decFaults (f : String) : Option Faults :=
  let bit (ch : Char) : Option Bool := if ch = '0' then some false else if ch = '1' then some true else none
  match f.toList with
  | [a, b, c, d, e, g] => do
    let a ← bit a
    let b ← bit b
    let c ← bit c
    let d ← bit d
    let e ← bit e
    let g ← bit g
    pure ⟨a, b, c, d, e, g⟩
  | _ => none

/-- the set-iteration order is a parameter of the model: instantiate it with the order the
implementation was seen to produce (`hint`), names not in the hint last -/
def ordOf (hint : List Name) : Ord := fun l =>
  l.mergeSort fun p q => hint.idxOf p.name ≤ hint.idxOf q.name

def showReply : Reply → String
  | .success => "success"
  | .error w => "error:" ++ w
  | .exception => "exception"

structure DState where
  w : World
  flags : Flags
  renames : Renames := []

def encFlags (fl : Flags) : String :=
  if fl.isEmpty then "-" else ",".intercalate (fl.map fun x => enc x.1 ++ ":" ++ (if x.2 then "1" else "0"))

def decFlags (f : String) : Option Flags :=
  if f = "-" then some [] else
  (f.splitOn ",").mapM fun item =>
    match item.splitOn ":" with
    | [n, "1"] => (dec n).map fun n => (n, true)
    | [n, "0"] => (dec n).map fun n => (n, false)
    | _ => none

def decFaultMap (f : String) : Option (List (Name × Faults)) :=
  if f = "-" then some [] else
  (f.splitOn ",").mapM fun item =>
    match item.splitOn ":" with
    | [n, b] => do
      let n ← dec n
      let b ← decFaults b
      pure (n, b)
    | _ => none

/-- what is on disk: `directory name=plugin` (the directory need not be called like the class) -/
def decDisk (f : String) : Option (List (Name × Plugin)) :=
  if f = "-" then some [] else
  (f.splitOn ",").mapM fun item =>
    match item.splitOn "=" with
    | [d, p] => do
      let d ← dec d
      let p ← decPlugin p
      pure (d, p)
    | _ => none

def out (st : DState) (r : Reply) : DState × String :=
  (st, showReply r ++ "\t" ++ encList ((st.w.view 0).map (·.name)) ++ "\t" ++
    encList ((st.w.view 1).map (·.name)) ++ "\t" ++ encList (answered (st.w.view 0)) ++ "\t" ++
    encFlags (sortedFlags st.flags) ++ "\t" ++
    (if st.w.ref.length > 2 then encList ((st.w.view 2).map (·.name)) else "~"))

/-- run a command of the flag-aware layer on the list object the `i`-th Irc refers to -/
def onBot (st : DState) (i : Nat) (f : Bot → Reply × Bot) : DState × String :=
  let r := st.w.ref.getD i 0
  let res := f ⟨st.w.heap.getD r [], st.flags⟩
  out { st with w := { st.w with heap := st.w.heap.set r res.2.cbs }, flags := res.2.flags } res.1

def stepD (st : DState) : List String → DState × String
  | ["reset", ps, fl] =>
    match (if ps = "-" then some [] else (ps.splitOn ",").mapM decPlugin), decFlags fl with
    | some l, some fl => ({ w := { heap := [l], ref := [0, 0] }, flags := fl, renames := [] }, "ok")
    | _, _ => (st, "bad-op")
  | ["load", i, n, av, f, hint] =>
    match i.toNat?, dec n, decOptPlugin av, decFaults f, decList hint with
    | some i, some n, some av, some f, some h => onBot st i fun b => loadR (ordOf h) b st.renames n av f
    | _, _, _, _, _ => (st, "bad-op")
  | ["unload", i, n, f] =>
    match i.toNat?, dec n, decFaults f with
    | some i, some n, some f => onBot st i fun b => unloadB b n f
    | _, _, _ => (st, "bad-op")
  | ["reload", i, n, av, f, hint] =>
    match i.toNat?, dec n, decOptPlugin av, decFaults f, decList hint with
    | some i, some n, some av, some f, some h => onBot st i fun b => reloadR (ordOf h) b st.renames n av f
    | _, _, _, _, _ => (st, "bad-op")
  | ["startup", i, disk, faults, important, always, hint] =>
    match i.toNat?, decDisk disk, decFaultMap faults,
        decList important, decList hint with
    | some i, some disk, some fm, some imp, some h =>
      let env : Env :=
        { disk := fun n => (disk.find? fun x => lower x.1 == lower n).map (·.2),   -- directories match without regard to case
          faults := fun n => ((fm.find? fun x => lower x.1 == lower n).map (·.2)).getD {},
          important := imp, alwaysLoadImportant := always = "1" }
      onBot st i fun b => (.success, startup (ordOf h) env b)
    | _, _, _, _, _ => (st, "bad-op")
  | ["connect"] => out { st with w := connect st.w } .success
  | ["disconnect", i] =>
    match i.toNat? with
    | some i => out { st with w := disconnect st.w i } .success
    | none => (st, "bad-op")
  | ["rename", i, pl, c, nn] =>
    match i.toNat?, dec pl, dec c, dec nn with
    | some i, some pl, some c, some nn =>
      let r := st.w.ref.getD i 0
      let res := renameCmd (st.w.heap.getD r []) st.renames pl c nn
      out { st with w := { st.w with heap := st.w.heap.set r res.2.1 }, renames := res.2.2 } res.1
    | _, _, _, _ => (st, "bad-op")
  | ["unrename", i, pl, av, f, hint] =>
    match i.toNat?, dec pl, decOptPlugin av, decFaults f, decList hint with
    | some i, some pl, some av, some f, some h =>
      let r := st.w.ref.getD i 0
      let res := unrenameCmd (ordOf h) ⟨st.w.heap.getD r [], st.flags⟩ st.renames pl av f
      out { w := { st.w with heap := st.w.heap.set r res.2.1.cbs }, flags := res.2.1.flags, renames := res.2.2 } res.1
    | _, _, _, _, _ => (st, "bad-op")
  | _ => (st, "bad-op")

def handler : Driver.Handler :=
  { σ := DState, init := { w := { heap := [[]], ref := [0, 0] }, flags := [], renames := [] }, step := stepD }
end C20
