/-
C20 — helper lemmas: the loop invariant of the extraction rounds of `addCallback`, soundness and
completeness of the computed order, and what removal does to it.
-/
import LimnoriaModel.C20.Model
import Batteries.Data.List.Perm
namespace C20
open Py List

/-- `a` is placed strictly before `b` in the list of callbacks `l` -/
def Before (l : Cbs) (a b : Name) : Prop :=
  ∃ l1 l2, l = l1 ++ l2 ∧ a ∈ l1.map (·.name) ∧ b ∈ l2.map (·.name)

theorem Before.append_right {l : Cbs} {a b : Name} (h : Before l a b) (x : Cbs) : Before (l ++ x) a b := by
  obtain ⟨l1, l2, rfl, ha, hb⟩ := h
  exact ⟨l1, l2 ++ x, by simp, ha, by simp only [map_append, mem_append]; exact Or.inl hb⟩

theorem Before.of_split {l x : Cbs} {a b : Name} (ha : a ∈ l.map (·.name)) (hb : b ∈ x.map (·.name)) :
    Before (l ++ x) a b := ⟨l, x, rfl, ha, hb⟩

theorem nodup_of_map {α β} (f : α → β) {l : List α} (h : (l.map f).Nodup) : l.Nodup := by
  induction l with
  | nil => exact nodup_nil
  | cons a l ih =>
    simp only [map_cons, nodup_cons, mem_map, not_exists, not_and] at h ⊢
    exact ⟨fun hm => h.1 a hm rfl, ih h.2⟩

theorem inj_of_nodup_map {α β} {f : α → β} {l : List α} (h : (l.map f).Nodup) {x y : α}
    (hx : x ∈ l) (hy : y ∈ l) (e : f x = f y) : x = y := by
  induction l with
  | nil => cases hx
  | cons a l ih =>
    simp only [map_cons, nodup_cons, mem_map, not_exists, not_and] at h
    rcases mem_cons.mp hx with rfl | hx' <;> rcases mem_cons.mp hy with rfl | hy'
    · rfl
    · exact absurd e.symm (h.1 y hy')
    · exact absurd e (h.1 x hx')
    · exact ih h.2 hx' hy'

/-- the `ord` parameter really is an enumeration of the set it is given -/
def OrdOk (ord : Ord) : Prop := ∀ l, (ord l).Perm l

/-! ### the loop invariant -/

structure Inv (nodes : Cbs) (E0 : List Edge) (done : Cbs) (edges : List Edge) : Prop where
  nodup : done.Nodup
  sub : ∀ p ∈ done, p ∈ nodes
  edges_eq : edges = E0.filter fun e => !(done.any fun p => p.name == e.1)
  placed : ∀ e ∈ E0, e.2 ∈ done.map (·.name) → Before done e.1 e.2

theorem inv_init (nodes : Cbs) (E0 : List Edge) : Inv nodes E0 [] E0 :=
  ⟨nodup_nil, by simp, (filter_eq_self.mpr (by simp)).symm, by simp⟩

theorem mem_firsts {nodes done : Cbs} {edges : List Edge} {p : Plugin} :
    p ∈ firsts nodes done edges ↔ p ∈ nodes ∧ p ∉ done ∧ ∀ e ∈ edges, e.2 ≠ p.name := by
  unfold firsts
  simp only [mem_filter, Bool.and_eq_true, Bool.not_eq_eq_eq_not, Bool.not_true, contains_eq_mem,
    decide_eq_false_iff_not, any_eq_false, beq_iff_eq]

theorem any_name_iff {l : Cbs} {n : Name} : (l.any fun p => p.name == n) = true ↔ n ∈ l.map (·.name) := by
  simp only [any_eq_true, beq_iff_eq, mem_map]

theorem inv_step {ord : Ord} (ho : OrdOk ord) {nodes : Cbs} (hn : nodes.Nodup) {E0 : List Edge}
    {done : Cbs} {edges : List Edge} (J : Inv nodes E0 done edges) :
    Inv nodes E0 (done ++ ord (firsts nodes done edges))
      (edges.filter fun e => !((firsts nodes done edges).any fun p => p.name == e.1)) := by
  have hp := ho (firsts nodes done edges)
  have hmem : ∀ p, p ∈ ord (firsts nodes done edges) ↔ p ∈ firsts nodes done edges := fun p => hp.mem_iff
  refine ⟨?_, ?_, ?_, ?_⟩
  · refine nodup_append.mpr ⟨J.nodup, ?_, ?_⟩
    · exact (hp.nodup_iff).mpr (hn.filter _)
    · intro a ha b hb hab
      subst hab
      exact (mem_firsts.mp ((hmem _).mp hb)).2.1 ha
  · intro p hpm
    rcases mem_append.mp hpm with h | h
    · exact J.sub p h
    · exact (mem_firsts.mp ((hmem _).mp h)).1
  · generalize firsts nodes done edges = F at hp
    rw [J.edges_eq, filter_filter]
    apply filter_congr
    intro e _
    have : ((ord F).any fun p => p.name == e.1) = (F.any fun p => p.name == e.1) := by
      rw [Bool.eq_iff_iff, any_name_iff, any_name_iff]
      exact (hp.map _).mem_iff
    rw [any_append, this]
    cases F.any fun p => p.name == e.1 <;> cases done.any fun p => p.name == e.1 <;> rfl
  · intro e he ht
    simp only [map_append, mem_append] at ht
    rcases ht with ht | ht
    · exact (J.placed e he ht).append_right _
    · -- the target is placed in this round: no remaining edge points to it, so the source is done
      obtain ⟨p, hpm, hpn⟩ := mem_map.mp ht
      have hf := mem_firsts.mp ((hmem _).mp hpm)
      have hsrc : e.1 ∈ done.map (·.name) := by
        apply Classical.byContradiction
        intro hc
        have : e ∈ edges := by
          rw [J.edges_eq, mem_filter]
          refine ⟨he, ?_⟩
          rw [Bool.not_eq_true', ← Bool.not_eq_true, any_name_iff]
          exact hc
        exact hf.2.2 e this hpn.symm
      exact Before.of_split hsrc ht

theorem rounds_inv {ord : Ord} (ho : OrdOk ord) {nodes : Cbs} (hn : nodes.Nodup) {E0 : List Edge}
    (fuel : Nat) {done : Cbs} {edges : List Edge} (J : Inv nodes E0 done edges) :
    ∃ edges', Inv nodes E0 (rounds ord nodes fuel done edges) edges' := by
  induction fuel generalizing done edges with
  | zero => exact ⟨edges, J⟩
  | succ n ih =>
    unfold rounds
    simp only
    split
    · exact ⟨edges, J⟩
    · exact ih (inv_step ho hn J)

/-! ### soundness of the computed order -/

theorem tsort_inv {ord : Ord} (ho : OrdOk ord) {nodes : Cbs} (hn : nodes.Nodup) (E0 : List Edge) :
    ∃ edges', Inv nodes E0 (tsort ord nodes E0) edges' :=
  rounds_inv ho hn _ (inv_init nodes E0)

theorem tsort_sound {ord : Ord} (ho : OrdOk ord) {nodes : Cbs} (hn : nodes.Nodup) (E0 : List Edge)
    (hlen : (tsort ord nodes E0).length = nodes.length) :
    (tsort ord nodes E0).Perm nodes ∧
    ∀ e ∈ E0, e.2 ∈ nodes.map (·.name) → Before (tsort ord nodes E0) e.1 e.2 := by
  obtain ⟨edges', J⟩ := tsort_inv ho hn E0
  have hperm : (tsort ord nodes E0).Perm nodes :=
    (subperm_of_subset J.nodup (fun p hp => J.sub p hp)).perm_of_length_le (by omega)
  refine ⟨hperm, fun e he ht => J.placed e he ?_⟩
  exact ((hperm.map _).mem_iff).mpr ht

/-! ### completeness: a constraint set that admits an order is never rejected -/

theorem inv_length_le {nodes : Cbs} {E0 : List Edge} {done : Cbs} {edges : List Edge}
    (J : Inv nodes E0 done edges) : done.length ≤ nodes.length :=
  (subperm_of_subset J.nodup (fun p hp => J.sub p hp)).length_le

theorem inv_full {nodes : Cbs} {E0 : List Edge} {done : Cbs} {edges : List Edge}
    (J : Inv nodes E0 done edges) (h : nodes.length ≤ done.length) : ∀ p ∈ nodes, p ∈ done :=
  fun _ hp => ((subperm_of_subset J.nodup (fun p hp => J.sub p hp)).perm_of_length_le h).mem_iff.mpr hp

theorem firsts_nil_of_full {nodes done : Cbs} {edges : List Edge} (h : ∀ p ∈ nodes, p ∈ done) :
    firsts nodes done edges = [] := by
  apply eq_nil_iff_forall_not_mem.mpr
  intro p hp
  have := mem_firsts.mp hp
  exact this.2.1 (h p this.1)

/-- as long as a callback is unplaced and some order `L` satisfies all constraints, the next round
is not empty: the earliest unplaced callback of `L` has all its predecessors placed -/
theorem progress {nodes : Cbs} {E0 : List Edge} {done : Cbs} {edges : List Edge}
    (J : Inv nodes E0 done edges) {L : Cbs} (hL : L.Perm nodes) (hLn : L.Nodup)
    (hLnames : (L.map (·.name)).Nodup) (hresp : ∀ e ∈ E0, Before L e.1 e.2)
    {p : Plugin} (hp : p ∈ nodes) (hpd : p ∉ done) : firsts nodes done edges ≠ [] := by
  have hex : (L.find? fun q => !done.contains q).isSome := by
    rw [find?_isSome]
    exact ⟨p, hL.mem_iff.mpr hp, by simpa using hpd⟩
  obtain ⟨m, hm⟩ := Option.isSome_iff_exists.mp hex
  obtain ⟨hmd, as, bs, hsplit, has⟩ := find?_eq_some_iff_append.mp hm
  have hmd' : m ∉ done := by simpa using hmd
  have hmL : m ∈ L := by rw [hsplit]; simp
  intro hnil
  have : m ∈ firsts nodes done edges := by
    refine mem_firsts.mpr ⟨hL.mem_iff.mp hmL, hmd', ?_⟩
    intro e he heq
    rw [J.edges_eq, mem_filter] at he
    obtain ⟨he0, hsrc⟩ := he
    obtain ⟨l1, l2, hl, h1, h2⟩ := hresp e he0
    obtain ⟨x, hx, hxn⟩ := mem_map.mp h1
    obtain ⟨y, hy, hyn⟩ := mem_map.mp h2
    have hyL : y ∈ L := by rw [hl]; exact mem_append.mpr (Or.inr hy)
    have hym : y = m := inj_of_nodup_map hLnames hyL hmL (hyn.trans heq)
    subst hym
    have hnl1 : y ∉ l1 := by
      intro hc
      rw [hl] at hLn
      exact (nodup_append.mp hLn).2.2 y hc y hy rfl
    have hxas : x ∈ as := by
      rw [hl] at hsplit
      rcases append_eq_append_iff.mp hsplit with ⟨a', ha1, _⟩ | ⟨c', hc1, hc2⟩
      · rw [ha1]; exact mem_append.mpr (Or.inl hx)
      · cases c' with
        | nil => simp only [append_nil] at hc1; rw [← hc1]; exact hx
        | cons z zs =>
          simp only [cons_append, cons.injEq] at hc2
          exfalso
          apply hnl1
          rw [hc1, hc2.1]
          simp
    have hxd : x ∈ done := by simpa using has x hxas
    have : (done.any fun p => p.name == e.1) = true := any_name_iff.mpr (mem_map.mpr ⟨x, hxd, hxn⟩)
    rw [this] at hsrc
    cases hsrc
  rw [hnil] at this
  cases this

theorem rounds_complete {ord : Ord} (ho : OrdOk ord) {nodes : Cbs} (hn : nodes.Nodup) {E0 : List Edge}
    {L : Cbs} (hL : L.Perm nodes) (hLnames : (L.map (·.name)).Nodup) (hresp : ∀ e ∈ E0, Before L e.1 e.2)
    (fuel : Nat) {done : Cbs} {edges : List Edge} (J : Inv nodes E0 done edges)
    (hf : nodes.length ≤ fuel + done.length) :
    (rounds ord nodes fuel done edges).length = nodes.length := by
  induction fuel generalizing done edges with
  | zero =>
    have := inv_length_le J
    simp only [rounds]; omega
  | succ n ih =>
    unfold rounds
    simp only
    split
    · rename_i hemp
      have hnil : firsts nodes done edges = [] := by simpa using hemp
      apply Nat.le_antisymm (inv_length_le J)
      apply Classical.byContradiction
      intro hlt
      -- some callback is unplaced, so the round cannot be empty
      have : ∃ p ∈ nodes, p ∉ done := by
        apply Classical.byContradiction
        intro hall
        have hall' : ∀ p ∈ nodes, p ∈ done := by
          intro p hp
          apply Classical.byContradiction
          intro hc
          exact hall ⟨p, hp, hc⟩
        have := (subperm_of_subset hn hall').length_le
        omega
      obtain ⟨p, hp, hpd⟩ := this
      exact progress J hL (nodup_of_map _ hLnames) hLnames hresp hp hpd hnil
    · rename_i hne
      apply ih (inv_step ho hn J)
      have hpos : 0 < (ord (firsts nodes done edges)).length := by
        rw [(ho _).length_eq]
        cases hfz : firsts nodes done edges with
        | nil => rw [hfz] at hne; simp at hne
        | cons a l => simp
      simp only [length_append]
      omega

theorem rounds_extra_fuel {ord : Ord} (ho : OrdOk ord) {nodes : Cbs} (hn : nodes.Nodup) {E0 : List Edge}
    (fuel k : Nat) {done : Cbs} {edges : List Edge} (J : Inv nodes E0 done edges)
    (hf : nodes.length ≤ fuel + done.length) :
    rounds ord nodes (fuel + k) done edges = rounds ord nodes fuel done edges := by
  induction fuel generalizing done edges with
  | zero =>
    have hfull := inv_full J (by omega)
    have hnil := firsts_nil_of_full (edges := edges) hfull
    cases k with
    | zero => rfl
    | succ k =>
      simp only [Nat.zero_add]
      unfold rounds
      simp [hnil]
  | succ n ih =>
    rw [show n + 1 + k = (n + k) + 1 by omega]
    unfold rounds
    simp only
    split
    · rfl
    · rename_i hne
      apply ih (inv_step ho hn J)
      have hpos : 0 < (ord (firsts nodes done edges)).length := by
        rw [(ho _).length_eq]
        cases hfz : firsts nodes done edges with
        | nil => rw [hfz] at hne; simp at hne
        | cons a l => simp
      simp only [length_append]
      omega

/-! ### names -/

/-- registered names are unique up to case (what `getCallback` / `removeCallback` identify) -/
def WF (cbs : Cbs) : Prop := (cbs.map fun p => lower p.name).Nodup

theorem WF.names_nodup {cbs : Cbs} (h : WF cbs) : (cbs.map (·.name)).Nodup := by
  have : (cbs.map fun p => lower p.name) = (cbs.map (·.name)).map lower := by simp
  unfold WF at h
  rw [this] at h
  exact nodup_of_map _ h

theorem WF.nodup {cbs : Cbs} (h : WF cbs) : cbs.Nodup := nodup_of_map _ h

theorem WF.perm {a b : Cbs} (h : WF a) (p : b.Perm a) : WF b := ((p.map _).nodup_iff).mpr h

theorem WF.eq_of_name {cbs : Cbs} (h : WF cbs) {x y : Plugin} (hx : x ∈ cbs) (hy : y ∈ cbs)
    (e : x.name = y.name) : x = y :=
  inj_of_nodup_map h.names_nodup hx hy e

theorem getCallback_none_iff {cbs : Cbs} {n : Name} :
    getCallback cbs n = none ↔ ∀ p ∈ cbs, lower p.name ≠ lower n := by
  unfold getCallback
  simp [find?_eq_none]

theorem WF.snoc {cbs : Cbs} (h : WF cbs) {p : Plugin} (hp : getCallback cbs p.name = none) :
    WF (cbs ++ [p]) := by
  unfold WF at *
  simp only [map_append, map_cons, map_nil]
  refine nodup_append.mpr ⟨h, by simp, ?_⟩
  intro a ha b hb hab
  obtain ⟨q, hq, rfl⟩ := mem_map.mp ha
  simp only [mem_singleton] at hb
  subst hab
  exact getCallback_none_iff.mp hp q hq hb

/-! ### Owner first, Misc last -/

theorem before_head_absurd {h : Plugin} {t : Cbs} (hn : ((h :: t).map (·.name)).Nodup) {a : Name}
    (hb : Before (h :: t) a h.name) : False := by
  obtain ⟨l1, l2, e, ha, hh⟩ := hb
  cases l1 with
  | nil => simp at ha
  | cons x xs =>
    simp only [cons_append, cons.injEq] at e
    obtain ⟨rfl, e2⟩ := e
    rw [e2] at hn
    simp only [map_cons, map_append, nodup_cons, mem_append] at hn
    exact hn.1 (Or.inr hh)

theorem before_irrefl {l : Cbs} (hn : (l.map (·.name)).Nodup) {a : Name} (h : Before l a a) : False := by
  obtain ⟨l1, l2, rfl, h1, h2⟩ := h
  rw [map_append] at hn
  exact (nodup_append.mp hn).2.2 a h1 a h2 rfl

/-- if the list respects an edge from `o` to every other callback, `o` is element 0 -/
theorem first_of_edges {l : Cbs} (hw : WF l) {o : Plugin} (ho : o ∈ l)
    (he : ∀ q ∈ l, q.name ≠ o.name → Before l o.name q.name) : l.head? = some o := by
  cases hl : l with
  | nil => rw [hl] at ho; cases ho
  | cons h t =>
    simp only [head?_cons, Option.some.injEq]
    apply Classical.byContradiction
    intro hne
    have hh : h ∈ l := by rw [hl]; exact mem_cons_self
    have hname : h.name ≠ o.name := fun e => hne (hw.eq_of_name hh ho e)
    exact before_head_absurd (hl ▸ hw.names_nodup) (hl ▸ he h hh hname)

theorem before_last_absurd {l : Cbs} (hn : (l.map (·.name)).Nodup) {h : Plugin} {t : Cbs}
    (hl : l = t ++ [h]) {b : Name} (hb : Before l h.name b) : False := by
  obtain ⟨l1, l2, e, hh, hb2⟩ := hb
  subst hl
  cases hl2 : l2.reverse with
  | nil => rw [reverse_eq_nil_iff.mp hl2] at hb2; simp at hb2
  | cons x xs =>
    have e2 : l2 = xs.reverse ++ [x] := by
      have := congrArg reverse hl2; simpa using this
    rw [e2, ← append_assoc] at e
    have := append_inj' e rfl
    obtain ⟨e3, e4⟩ := this
    simp only [cons.injEq, and_true] at e4
    subst e4
    rw [e3] at hn
    simp only [map_append, map_cons, map_nil] at hn
    have hd := (nodup_append.mp hn).2.2
    exact hd h.name (mem_append.mpr (Or.inl hh)) h.name (by simp) rfl

theorem last_of_edges {l : Cbs} (hw : WF l) {m : Plugin} (hm : m ∈ l)
    (he : ∀ q ∈ l, q.name ≠ m.name → Before l q.name m.name) : l.getLast? = some m := by
  cases hl : l.reverse with
  | nil => rw [reverse_eq_nil_iff.mp hl] at hm; cases hm
  | cons h t =>
    have e : l = t.reverse ++ [h] := by
      have := congrArg reverse hl; simpa using this
    rw [e, getLast?_append]
    simp only [getLast?_singleton, Option.some_or, Option.some.injEq]
    apply Classical.byContradiction
    intro hne
    have hh : h ∈ l := by rw [e]; simp
    have hname : h.name ≠ m.name := fun e' => hne (hw.eq_of_name hh hm e')
    exact before_last_absurd hw.names_nodup e (he h hh hname)

/-! ### the edge set -/

theorem getCallback_mem {cbs : Cbs} {n : Name} {q : Plugin} (h : getCallback cbs n = some q) :
    q ∈ cbs ∧ lower q.name = lower n := by
  unfold getCallback at h
  exact ⟨mem_of_find?_eq_some h, by simpa using find?_some h⟩

theorem mem_resolved {cbs : Cbs} {ns : List Name} {x : Name}
    (h : x ∈ (ns.filterMap (getCallback cbs)).map (·.name)) :
    ∃ n ∈ ns, ∃ q, getCallback cbs n = some q ∧ q.name = x := by
  obtain ⟨q, hq, rfl⟩ := mem_map.mp h
  obtain ⟨n, hn, hg⟩ := mem_filterMap.mp hq
  exact ⟨n, hn, q, hg, rfl⟩

theorem mem_edgesOf {cbs : Cbs} {e : Edge} :
    e ∈ edgesOf cbs ↔ ∃ p ∈ cbs, (∃ o ∈ (precedence cbs p).1, e = (o, p.name)) ∨
      (∃ o ∈ (precedence cbs p).2, e = (p.name, o)) := by
  unfold edgesOf
  simp only [mem_flatMap, mem_append, mem_map]
  constructor
  · rintro ⟨p, hp, h | h⟩
    · obtain ⟨o, ho, rfl⟩ := h; exact ⟨p, hp, Or.inl ⟨o, ho, rfl⟩⟩
    · obtain ⟨o, ho, rfl⟩ := h; exact ⟨p, hp, Or.inr ⟨o, ho, rfl⟩⟩
  · rintro ⟨p, hp, h | h⟩
    · obtain ⟨o, ho, rfl⟩ := h; exact ⟨p, hp, Or.inl ⟨o, ho, rfl⟩⟩
    · obtain ⟨o, ho, rfl⟩ := h; exact ⟨p, hp, Or.inr ⟨o, ho, rfl⟩⟩

/-- everything `callPrecedence` returns is a registered callback -/
theorem precedence_names {cbs : Cbs} {p : Plugin} {x : Name}
    (h : x ∈ (precedence cbs p).1 ∨ x ∈ (precedence cbs p).2) : x ∈ cbs.map (·.name) := by
  unfold precedence at h
  split at h
  · rcases h with h | h
    · cases h
    · obtain ⟨q, hq, rfl⟩ := mem_map.mp h
      exact mem_map.mpr ⟨q, (mem_filter.mp hq).1, rfl⟩
  · rcases h with h | h
    · obtain ⟨q, hq, rfl⟩ := mem_map.mp h
      exact mem_map.mpr ⟨q, (mem_filter.mp hq).1, rfl⟩
    · cases h
  · rcases h with h | h
    · obtain ⟨n, _, q, hg, rfl⟩ := mem_resolved h
      exact mem_map.mpr ⟨q, (getCallback_mem hg).1, rfl⟩
    · obtain ⟨n, _, q, hg, rfl⟩ := mem_resolved h
      exact mem_map.mpr ⟨q, (getCallback_mem hg).1, rfl⟩

theorem edge_endpoints {cbs : Cbs} {e : Edge} (h : e ∈ edgesOf cbs) :
    e.1 ∈ cbs.map (·.name) ∧ e.2 ∈ cbs.map (·.name) := by
  obtain ⟨p, hp, h | h⟩ := mem_edgesOf.mp h
  · obtain ⟨o, ho, rfl⟩ := h
    exact ⟨precedence_names (Or.inl ho), mem_map.mpr ⟨p, hp, rfl⟩⟩
  · obtain ⟨o, ho, rfl⟩ := h
    exact ⟨mem_map.mpr ⟨p, hp, rfl⟩, precedence_names (Or.inr ho)⟩

theorem owner_edges {cbs : Cbs} {o : Plugin} (ho : o ∈ cbs) (hk : o.kind = .owner) {q : Plugin}
    (hq : q ∈ cbs) (hne : q.name ≠ o.name) : (o.name, q.name) ∈ edgesOf cbs := by
  refine mem_edgesOf.mpr ⟨o, ho, Or.inr ⟨q.name, ?_, rfl⟩⟩
  unfold precedence
  rw [hk]
  exact mem_map.mpr ⟨q, mem_filter.mpr ⟨hq, by simpa using hne⟩, rfl⟩

theorem misc_edges {cbs : Cbs} {m : Plugin} (hm : m ∈ cbs) (hk : m.kind = .misc) {q : Plugin}
    (hq : q ∈ cbs) (hne : q.name ≠ m.name) : (q.name, m.name) ∈ edgesOf cbs := by
  refine mem_edgesOf.mpr ⟨m, hm, Or.inl ⟨q.name, ?_, rfl⟩⟩
  unfold precedence
  rw [hk]
  exact mem_map.mpr ⟨q, mem_filter.mpr ⟨hq, by simpa using hne⟩, rfl⟩

/-- the list respects every edge its own callbacks declare -/
def Respects (l : Cbs) (edges : List Edge) : Prop := ∀ e ∈ edges, Before l e.1 e.2

/-! ### addCallback -/

theorem addCallback_dup {ord : Ord} {cbs : Cbs} {p : Plugin} (h : (getCallback cbs p.name).isSome) :
    addCallback ord cbs p = .error (.assertion, cbs) := by
  unfold addCallback; rw [if_pos h]

theorem addCallback_new {ord : Ord} {cbs : Cbs} {p : Plugin} (h : getCallback cbs p.name = none) :
    addCallback ord cbs p =
      if (tsort ord (cbs ++ [p]) (edgesOf (cbs ++ [p]))).length ≠ (cbs ++ [p]).length
      then .error (.assertion, cbs) else .ok (tsort ord (cbs ++ [p]) (edgesOf (cbs ++ [p]))) := by
  unfold addCallback; rw [if_neg (by simp [h])]

/-- whatever happens, a failing `addCallback` leaves the list as it was -/
theorem addCallback_error {ord : Ord} {cbs : Cbs} {p : Plugin} {e : Err} {c' : Cbs}
    (h : addCallback ord cbs p = .error (e, c')) : c' = cbs := by
  unfold addCallback at h
  split at h
  · injection h with h; exact (Prod.mk.inj h).2.symm
  · simp only at h
    split at h
    · injection h with h; exact (Prod.mk.inj h).2.symm
    · cases h

theorem addCallback_ok {ord : Ord} (ho : OrdOk ord) {cbs : Cbs} (hw : WF cbs) {p : Plugin} {r : Cbs}
    (h : addCallback ord cbs p = .ok r) :
    getCallback cbs p.name = none ∧ r.Perm (cbs ++ [p]) ∧ Respects r (edgesOf (cbs ++ [p])) := by
  have hg : getCallback cbs p.name = none := by
    cases hgc : getCallback cbs p.name with
    | none => rfl
    | some q => rw [addCallback_dup (by simp [hgc])] at h; cases h
  rw [addCallback_new hg] at h
  split at h
  · cases h
  · rename_i hlen
    injection h with h
    subst h
    have hs := tsort_sound ho (hw.snoc hg).nodup (edgesOf (cbs ++ [p])) (by simpa using hlen)
    exact ⟨hg, hs.1, fun e he => hs.2 e he (edge_endpoints he).2⟩

/-! ### lookups under permutation and removal -/

theorem lower_inj_on {cbs : Cbs} (h : WF cbs) {x y : Plugin} (hx : x ∈ cbs) (hy : y ∈ cbs)
    (e : lower x.name = lower y.name) : x = y :=
  inj_of_nodup_map (f := fun (p : Plugin) => lower p.name) (show (cbs.map fun p => lower p.name).Nodup from h) hx hy e

theorem getCallback_unique {cbs : Cbs} (h : WF cbs) {q : Plugin} {n : Name} (hq : q ∈ cbs)
    (hn : lower q.name = lower n) : getCallback cbs n = some q := by
  cases hg : getCallback cbs n with
  | none => exact absurd hn (getCallback_none_iff.mp hg q hq)
  | some q' =>
    obtain ⟨hm, hl⟩ := getCallback_mem hg
    rw [lower_inj_on h hm hq (hl.trans hn.symm)]

theorem getCallback_perm {a b : Cbs} (h : WF a) (p : b.Perm a) (n : Name) :
    getCallback b n = getCallback a n := by
  cases hg : getCallback a n with
  | none =>
    exact getCallback_none_iff.mpr fun q hq => getCallback_none_iff.mp hg q (p.mem_iff.mp hq)
  | some q =>
    obtain ⟨hm, hl⟩ := getCallback_mem hg
    exact getCallback_unique (h.perm p) (p.mem_iff.mpr hm) hl

theorem WF.filter {cbs : Cbs} (h : WF cbs) (k : Plugin → Bool) : WF (cbs.filter k) := by
  unfold WF at *
  exact (h.sublist ((filter_sublist).map _))

theorem getCallback_filter {cbs : Cbs} (h : WF cbs) (k : Plugin → Bool) {n : Name} {q : Plugin}
    (hg : getCallback (cbs.filter k) n = some q) : getCallback cbs n = some q ∧ k q = true := by
  obtain ⟨hm, hl⟩ := getCallback_mem hg
  obtain ⟨hm', hk⟩ := mem_filter.mp hm
  exact ⟨getCallback_unique h hm' hl, hk⟩

theorem getCallback_filter_keep {cbs : Cbs} (h : WF cbs) (k : Plugin → Bool) {n : Name} {q : Plugin}
    (hg : getCallback cbs n = some q) (hk : k q = true) : getCallback (cbs.filter k) n = some q := by
  obtain ⟨hm, hl⟩ := getCallback_mem hg
  exact getCallback_unique (h.filter k) (mem_filter.mpr ⟨hm, hk⟩) hl

theorem filterMap_getCallback_perm {a b : Cbs} (h : WF a) (p : b.Perm a) (ns : List Name) :
    ns.filterMap (getCallback b) = ns.filterMap (getCallback a) := by
  have : getCallback b = getCallback a := funext (getCallback_perm h p)
  rw [this]

theorem precedence_perm {a b : Cbs} (h : WF a) (hp : b.Perm a) (p : Plugin) (x : Name) :
    (x ∈ (precedence b p).1 ↔ x ∈ (precedence a p).1) ∧ (x ∈ (precedence b p).2 ↔ x ∈ (precedence a p).2) := by
  unfold precedence
  cases p.kind with
  | owner =>
    simp only [not_mem_nil, true_and]
    exact ((hp.filter _).map _).mem_iff
  | misc =>
    simp only [not_mem_nil, and_true]
    exact ((hp.filter _).map _).mem_iff
  | plain =>
    have e : getCallback b = getCallback a := funext (getCallback_perm h hp)
    rw [e]
    exact ⟨Iff.rfl, Iff.rfl⟩

theorem edgesOf_perm {a b : Cbs} (h : WF a) (hp : b.Perm a) (e : Edge) : e ∈ edgesOf b ↔ e ∈ edgesOf a := by
  rw [mem_edgesOf, mem_edgesOf]
  constructor
  · rintro ⟨p, hpm, h1 | h1⟩
    · obtain ⟨o, ho, rfl⟩ := h1
      exact ⟨p, hp.mem_iff.mp hpm, Or.inl ⟨o, (precedence_perm h hp p o).1.mp ho, rfl⟩⟩
    · obtain ⟨o, ho, rfl⟩ := h1
      exact ⟨p, hp.mem_iff.mp hpm, Or.inr ⟨o, (precedence_perm h hp p o).2.mp ho, rfl⟩⟩
  · rintro ⟨p, hpm, h1 | h1⟩
    · obtain ⟨o, ho, rfl⟩ := h1
      exact ⟨p, hp.mem_iff.mpr hpm, Or.inl ⟨o, (precedence_perm h hp p o).1.mpr ho, rfl⟩⟩
    · obtain ⟨o, ho, rfl⟩ := h1
      exact ⟨p, hp.mem_iff.mpr hpm, Or.inr ⟨o, (precedence_perm h hp p o).2.mpr ho, rfl⟩⟩

theorem resolved_filter {cbs : Cbs} (h : WF cbs) (k : Plugin → Bool) {ns : List Name} {x : Name}
    (hx : x ∈ (ns.filterMap (getCallback (cbs.filter k))).map (·.name)) :
    x ∈ (ns.filterMap (getCallback cbs)).map (·.name) := by
  obtain ⟨n, hn, q, hg, rfl⟩ := mem_resolved hx
  exact mem_map.mpr ⟨q, mem_filterMap.mpr ⟨n, hn, (getCallback_filter h k hg).1⟩, rfl⟩

theorem resolved_self_keep {cbs : Cbs} (h : WF cbs) (k : Plugin → Bool) {ns : List Name} {p : Plugin}
    (hp : p ∈ cbs) (hk : k p = true) (hx : p.name ∈ (ns.filterMap (getCallback cbs)).map (·.name)) :
    p.name ∈ (ns.filterMap (getCallback (cbs.filter k))).map (·.name) := by
  obtain ⟨n, hn, q, hg, hq⟩ := mem_resolved hx
  have : q = p := h.eq_of_name (getCallback_mem hg).1 hp hq
  subst this
  exact mem_map.mpr ⟨q, mem_filterMap.mpr ⟨n, hn, getCallback_filter_keep h k hg hk⟩, rfl⟩

/-- removing callbacks never creates a constraint: what a remaining callback's `callPrecedence`
returns afterwards, it returned before -/
theorem precedence_filter {cbs : Cbs} (h : WF cbs) (k : Plugin → Bool) {p : Plugin} (hp : p ∈ cbs)
    (hk : k p = true) (x : Name) :
    (x ∈ (precedence (cbs.filter k) p).1 → x ∈ (precedence cbs p).1) ∧
    (x ∈ (precedence (cbs.filter k) p).2 → x ∈ (precedence cbs p).2) := by
  unfold precedence
  cases p.kind with
  | owner =>
    simp only [not_mem_nil, false_imp_iff, true_and]
    intro hx
    obtain ⟨q, hq, rfl⟩ := mem_map.mp hx
    obtain ⟨hq1, hq2⟩ := mem_filter.mp hq
    exact mem_map.mpr ⟨q, mem_filter.mpr ⟨(mem_filter.mp hq1).1, hq2⟩, rfl⟩
  | misc =>
    simp only [not_mem_nil, false_imp_iff, and_true]
    intro hx
    obtain ⟨q, hq, rfl⟩ := mem_map.mp hx
    obtain ⟨hq1, hq2⟩ := mem_filter.mp hq
    exact mem_map.mpr ⟨q, mem_filter.mpr ⟨(mem_filter.mp hq1).1, hq2⟩, rfl⟩
  | plain => exact ⟨resolved_filter h k, resolved_filter h k⟩

theorem edgesOf_filter {cbs : Cbs} (h : WF cbs) (k : Plugin → Bool) {e : Edge}
    (he : e ∈ edgesOf (cbs.filter k)) : e ∈ edgesOf cbs := by
  obtain ⟨p, hpm, h1⟩ := mem_edgesOf.mp he
  obtain ⟨hp, hk⟩ := mem_filter.mp hpm
  refine mem_edgesOf.mpr ⟨p, hp, ?_⟩
  rcases h1 with ⟨o, ho, rfl⟩ | ⟨o, ho, rfl⟩
  · exact Or.inl ⟨o, (precedence_filter h k hp hk o).1 ho, rfl⟩
  · exact Or.inr ⟨o, (precedence_filter h k hp hk o).2 ho, rfl⟩

theorem Before.filter {l : Cbs} (hn : (l.map (·.name)).Nodup) (k : Plugin → Bool) {a b : Name}
    (h : Before l a b) (ha : a ∈ (l.filter k).map (·.name)) (hb : b ∈ (l.filter k).map (·.name)) :
    Before (l.filter k) a b := by
  obtain ⟨l1, l2, rfl, h1, h2⟩ := h
  refine ⟨l1.filter k, l2.filter k, filter_append .., ?_, ?_⟩
  · obtain ⟨x, hx, rfl⟩ := mem_map.mp h1
    obtain ⟨y, hy, hxy⟩ := mem_map.mp ha
    obtain ⟨hy1, hy2⟩ := mem_filter.mp hy
    have : y = x := inj_of_nodup_map hn hy1 (mem_append.mpr (Or.inl hx)) hxy
    subst this
    exact mem_map.mpr ⟨y, mem_filter.mpr ⟨hx, hy2⟩, rfl⟩
  · obtain ⟨x, hx, rfl⟩ := mem_map.mp h2
    obtain ⟨y, hy, hxy⟩ := mem_map.mp hb
    obtain ⟨hy1, hy2⟩ := mem_filter.mp hy
    have : y = x := inj_of_nodup_map hn hy1 (mem_append.mpr (Or.inr hx)) hxy
    subst this
    exact mem_map.mpr ⟨y, mem_filter.mpr ⟨hx, hy2⟩, rfl⟩

/-! ### the invariant of the dispatcher list -/

/-- names unique up to case, and every constraint the registered callbacks resolve is satisfied -/
structure Good (cbs : Cbs) : Prop where
  wf : WF cbs
  resp : Respects cbs (edgesOf cbs)

theorem Good.filter {cbs : Cbs} (g : Good cbs) (k : Plugin → Bool) : Good (cbs.filter k) := by
  refine ⟨g.wf.filter k, fun e he => ?_⟩
  have hends := edge_endpoints he
  exact (g.resp e (edgesOf_filter g.wf k he)).filter g.wf.names_nodup k hends.1 hends.2

theorem Good.add {ord : Ord} (ho : OrdOk ord) {cbs : Cbs} (g : Good cbs) {p : Plugin} {r : Cbs}
    (h : addCallback ord cbs p = .ok r) : Good r := by
  obtain ⟨hg, hp, hr⟩ := addCallback_ok ho g.wf h
  have hw := g.wf.snoc hg
  exact ⟨hw.perm hp, fun e he => hr e ((edgesOf_perm hw hp e).mp he)⟩

theorem Good.owner_first {cbs : Cbs} (g : Good cbs) {o : Plugin} (ho : o ∈ cbs) (hk : o.kind = .owner) :
    cbs.head? = some o :=
  first_of_edges g.wf ho fun _ hq hne => g.resp _ (owner_edges ho hk hq hne)

theorem Good.misc_last {cbs : Cbs} (g : Good cbs) {m : Plugin} (hm : m ∈ cbs) (hk : m.kind = .misc) :
    cbs.getLast? = some m :=
  last_of_edges g.wf hm fun _ hq hne => g.resp _ (misc_edges hm hk hq hne)

/-! ### Owner's commands preserve the invariant -/

/-- the list an `addCallback` / re-add attempt leaves behind, successful or not -/
def resultCbs : Except (Err × Cbs) Cbs → Cbs
  | .ok c => c
  | .error e => e.2

theorem addCallback_result_good {ord : Ord} (ho : OrdOk ord) {cbs : Cbs} (g : Good cbs) (p : Plugin) :
    Good (resultCbs (addCallback ord cbs p)) := by
  cases h : addCallback ord cbs p with
  | ok r => exact g.add ho h
  | error e => obtain ⟨er, c'⟩ := e; rw [show resultCbs (.error (er, c')) = c' from rfl, addCallback_error h]; exact g

theorem addCallback_result_mem {ord : Ord} (ho : OrdOk ord) {cbs : Cbs} (hw : WF cbs) (p : Plugin)
    {q : Plugin} (hq : q ∈ cbs) : q ∈ resultCbs (addCallback ord cbs p) := by
  cases h : addCallback ord cbs p with
  | ok r =>
    obtain ⟨_, hp, _⟩ := addCallback_ok ho hw h
    exact hp.mem_iff.mpr (mem_append.mpr (Or.inl hq))
  | error e => obtain ⟨er, c'⟩ := e; rw [show resultCbs (.error (er, c')) = c' from rfl, addCallback_error h]; exact hq

theorem readd_result {ord : Ord} (ho : OrdOk ord) (ps : List Plugin) {cbs : Cbs} (g : Good cbs) :
    Good (resultCbs (readd ord cbs ps)) ∧ ∀ q ∈ cbs, q ∈ resultCbs (readd ord cbs ps) := by
  induction ps generalizing cbs with
  | nil => exact ⟨g, fun _ h => h⟩
  | cons p ps ih =>
    unfold readd
    cases h : addCallback ord cbs p with
    | error e =>
      obtain ⟨er, c'⟩ := e
      have := addCallback_error h
      subst this
      exact ⟨g, fun _ hq => hq⟩
    | ok r =>
      have gr := g.add ho h
      obtain ⟨i1, i2⟩ := ih gr
      refine ⟨i1, fun q hq => i2 q ?_⟩
      have := addCallback_result_mem ho g.wf p hq
      rw [h] at this
      exact this

theorem load_good {ord : Ord} (ho : OrdOk ord) {cbs : Cbs} (g : Good cbs) (name : Name)
    (avail : Option Plugin) (f : Faults) :
    Good (load ord cbs name avail f).2 ∧ ∀ q ∈ cbs, q ∈ (load ord cbs name avail f).2 := by
  have triv : Good cbs ∧ ∀ q ∈ cbs, q ∈ cbs := ⟨g, fun _ h => h⟩
  unfold load
  simp only
  by_cases h0 : (getCallback cbs (stripPy name)).isSome = true
  · rw [if_pos h0]; exact triv
  · rw [if_neg h0]
    cases avail with
    | none => exact triv
    | some p =>
      simp only
      by_cases h1 : f.importError = true
      · rw [if_pos h1]; exact triv
      · rw [if_neg h1]
        by_cases h2 : f.importOther = true
        · rw [if_pos h2]; exact triv
        · rw [if_neg h2]
          by_cases h3 : (f.deprecated && !f.ignoreDeprecation) = true
          · rw [if_pos h3]; exact triv
          · rw [if_neg h3]
            by_cases h4 : f.ctorRaises = true
            · rw [if_pos h4]; exact triv
            · rw [if_neg h4]
              have h5 := addCallback_result_good ho g p
              have h6 := fun q (hq : q ∈ cbs) => addCallback_result_mem ho g.wf p hq
              cases he : addCallback ord cbs p with
              | ok c' => rw [he] at h5 h6; exact ⟨h5, h6⟩
              | error e => obtain ⟨er, c'⟩ := e; rw [he] at h5 h6; exact ⟨h5, h6⟩

/-- a callback survives the removal of `n` unless `n` is its own name up to case -/
theorem mem_removed {cbs : Cbs} {n : Name} {q : Plugin} (hq : q ∈ cbs) (hne : lower q.name ≠ lower n) :
    q ∈ (removeCallback cbs n).2 := by
  unfold removeCallback
  exact mem_filter.mpr ⟨hq, by simpa using hne⟩

theorem unload_good {cbs : Cbs} (g : Good cbs) (name : Name) (f : Faults) :
    Good (unload cbs name f).2 ∧
    ∀ q ∈ cbs, lower q.name ≠ lower name → q ∈ (unload cbs name f).2 := by
  unfold unload
  split
  · exact ⟨g, fun _ h _ => h⟩
  · split
    · exact ⟨g, fun _ h _ => h⟩
    · rename_i old hold
      have hl := (getCallback_mem hold).2
      have gf : Good (removeCallback cbs old.name).2 := g.filter _
      have hm : ∀ q ∈ cbs, lower q.name ≠ lower name → q ∈ (removeCallback cbs old.name).2 :=
        fun q hq hne => mem_removed hq (by rw [hl]; exact hne)
      simp only
      split <;> exact ⟨gf, hm⟩

theorem reload_good {ord : Ord} (ho : OrdOk ord) {cbs : Cbs} (g : Good cbs) (name : Name)
    (avail : Option Plugin) (f : Faults) :
    Good (reload ord cbs name avail f).2 ∧
    ∀ q ∈ cbs, lower q.name ≠ lower name → q ∈ (reload ord cbs name avail f).2 := by
  have gf : Good (removeCallback cbs name).2 := g.filter _
  have hm : ∀ q ∈ cbs, lower q.name ≠ lower name → q ∈ (removeCallback cbs name).2 :=
    fun q hq hne => mem_removed hq hne
  have hreadd : Good (resultCbs (readd ord (removeCallback cbs name).2 (removeCallback cbs name).1)) ∧
      ∀ q ∈ cbs, lower q.name ≠ lower name →
        q ∈ resultCbs (readd ord (removeCallback cbs name).2 (removeCallback cbs name).1) := by
    have hr := readd_result ho (removeCallback cbs name).1 gf
    exact ⟨hr.1, fun q hq hne => hr.2 q (hm q hq hne)⟩
  unfold reload
  by_cases h0 : isOwnerName name = true
  · rw [if_pos h0]; exact ⟨g, fun _ h _ => h⟩
  · rw [if_neg h0]
    simp only
    by_cases h1 : (removeCallback cbs name).1.isEmpty = true
    · rw [if_pos h1]; exact ⟨gf, hm⟩
    · rw [if_neg h1]
      by_cases h2 : (f.importError || avail.isNone) = true
      · rw [if_pos h2]
        cases he : readd ord (removeCallback cbs name).2 (removeCallback cbs name).1 with
        | ok c' => rw [he] at hreadd; exact hreadd
        | error e => obtain ⟨er, c'⟩ := e; rw [he] at hreadd; exact hreadd
      · rw [if_neg h2]
        by_cases h3 : f.importOther = true
        · rw [if_pos h3]
          cases he : readd ord (removeCallback cbs name).2 (removeCallback cbs name).1 with
          | ok c' => rw [he] at hreadd; exact hreadd
          | error e => obtain ⟨er, c'⟩ := e; rw [he] at hreadd; exact hreadd
        · rw [if_neg h3]
          by_cases h3' : f.deprecated = true
          · rw [if_pos h3']
            cases he : readd ord (removeCallback cbs name).2 (removeCallback cbs name).1 with
            | ok c' => rw [he] at hreadd; exact hreadd
            | error e => obtain ⟨er, c'⟩ := e; rw [he] at hreadd; exact hreadd
          rw [if_neg h3']
          by_cases h4 : f.ctorRaises = true
          · rw [if_pos h4]; exact ⟨gf, hm⟩
          · rw [if_neg h4]
            cases avail with
            | none => exact ⟨gf, hm⟩
            | some p =>
              have h5 := addCallback_result_good ho gf p
              have h6 := fun q (hq : q ∈ (removeCallback cbs name).2) => addCallback_result_mem ho gf.wf p hq
              cases he : addCallback ord (removeCallback cbs name).2 p with
              | ok c' => rw [he] at h5 h6; simp only [he]; exact ⟨h5, fun q hq hne => h6 q (hm q hq hne)⟩
              | error e =>
                obtain ⟨er, c'⟩ := e
                rw [he] at h5 h6
                simp only [he]
                exact ⟨h5, fun q hq hne => h6 q (hm q hq hne)⟩

/-! ### reload with an ImportError puts the old callback back -/

theorem filter_match_le_one {cbs : Cbs} (h : WF cbs) (n : Name) :
    (cbs.filter fun p => lower p.name == lower n).length ≤ 1 := by
  induction cbs with
  | nil => simp
  | cons a l ih =>
    have hw : WF l := by unfold WF at h ⊢; exact (nodup_cons.mp h).2
    have hni : lower a.name ∉ l.map fun p => lower p.name := by unfold WF at h; exact (nodup_cons.mp h).1
    rw [filter_cons]
    split
    · rename_i hm
      have hm' : lower a.name = lower n := by simpa using hm
      have : (l.filter fun p => lower p.name == lower n) = [] := by
        apply filter_eq_nil_iff.mpr
        intro q hq hc
        have hc' : lower q.name = lower n := by simpa using hc
        exact hni (mem_map.mpr ⟨q, hq, hc'.trans hm'.symm⟩)
      simp [this]
    · exact ih hw

theorem removeCallback_perm (cbs : Cbs) (n : Name) :
    ((removeCallback cbs n).2 ++ (removeCallback cbs n).1).Perm cbs := by
  unfold removeCallback
  exact (perm_append_comm).trans (filter_append_perm _ _)

theorem removed_singleton {cbs : Cbs} (h : WF cbs) {n : Name} {q : Plugin} (hq : getCallback cbs n = some q) :
    (removeCallback cbs n).1 = [q] := by
  obtain ⟨hqm, hql⟩ := getCallback_mem hq
  have hle := filter_match_le_one h n
  have hmem : q ∈ cbs.filter fun p => lower p.name == lower n := mem_filter.mpr ⟨hqm, by simpa using hql⟩
  show (cbs.filter fun p => lower p.name == lower n) = [q]
  generalize (cbs.filter fun p => lower p.name == lower n) = F at hle hmem
  match F, hle, hmem with
  | [x], _, hm => simp at hm; rw [hm]
  | _ :: _ :: _, hl, _ => simp at hl

/-! ### persisted flags and the start-up loader -/

theorem load_mem_sub {ord : Ord} (ho : OrdOk ord) {cbs : Cbs} (hw : WF cbs) (name : Name)
    (avail : Option Plugin) (f : Faults) {q : Plugin} (hq : q ∈ (load ord cbs name avail f).2) :
    q ∈ cbs ∨ avail = some q := by
  unfold load at hq
  simp only at hq
  by_cases h0 : (getCallback cbs (stripPy name)).isSome = true
  · rw [if_pos h0] at hq; exact Or.inl hq
  · rw [if_neg h0] at hq
    cases avail with
    | none => exact Or.inl hq
    | some p =>
      simp only at hq
      by_cases h1 : f.importError = true
      · rw [if_pos h1] at hq; exact Or.inl hq
      · rw [if_neg h1] at hq
        by_cases h2 : f.importOther = true
        · rw [if_pos h2] at hq; exact Or.inl hq
        · rw [if_neg h2] at hq
          by_cases h3 : (f.deprecated && !f.ignoreDeprecation) = true
          · rw [if_pos h3] at hq; exact Or.inl hq
          · rw [if_neg h3] at hq
            by_cases h4 : f.ctorRaises = true
            · rw [if_pos h4] at hq; exact Or.inl hq
            · rw [if_neg h4] at hq
              cases he : addCallback ord cbs p with
              | ok c' =>
                rw [he] at hq
                obtain ⟨_, hp, _⟩ := addCallback_ok ho hw he
                rcases mem_append.mp (hp.mem_iff.mp hq) with h | h
                · exact Or.inl h
                · exact Or.inr (by rw [mem_singleton.mp h])
              | error e =>
                obtain ⟨er, c'⟩ := e
                rw [he] at hq
                have := addCallback_error he
                subst this
                exact Or.inl hq

/-- which entries of the flag list make the start-up loader try a plugin -/
def Wanted (env : Env) (x : Name × Bool) : Prop :=
  x.2 = true ∨ (env.important.contains x.1 = true ∧ env.alwaysLoadImportant = true)

theorem startupOne_spec {ord : Ord} (ho : OrdOk ord) (env : Env) {cbs : Cbs} (g : Good cbs) (x : Name × Bool) :
    Good (startupOne ord env cbs x) ∧ (∀ q ∈ cbs, q ∈ startupOne ord env cbs x) ∧
    (∀ q ∈ startupOne ord env cbs x, q ∈ cbs ∨ (Wanted env x ∧ env.disk x.1 = some q)) := by
  unfold startupOne
  split
  · exact ⟨g, fun _ h => h, fun _ h => Or.inl h⟩
  · simp only
    split
    · rename_i hw
      have hl := load_good ho g x.1 (env.disk x.1) { env.faults x.1 with ignoreDeprecation := true }
      refine ⟨hl.1, hl.2, fun q hq => ?_⟩
      rcases load_mem_sub ho g.wf _ _ _ hq with h | h
      · exact Or.inl h
      · refine Or.inr ⟨?_, h⟩
        simp only [Bool.and_eq_true, Bool.or_eq_true] at hw
        unfold Wanted
        rcases hw.1 with h1 | h1
        · exact Or.inl h1
        · exact Or.inr h1
    · exact ⟨g, fun _ h => h, fun _ h => Or.inl h⟩

theorem startup_fold {ord : Ord} (ho : OrdOk ord) (env : Env) (fl : Flags) {cbs : Cbs} (g : Good cbs) :
    Good (fl.foldl (startupOne ord env) cbs) ∧ (∀ q ∈ cbs, q ∈ fl.foldl (startupOne ord env) cbs) ∧
    (∀ q ∈ fl.foldl (startupOne ord env) cbs, q ∈ cbs ∨ ∃ x ∈ fl, Wanted env x ∧ env.disk x.1 = some q) := by
  induction fl generalizing cbs with
  | nil => exact ⟨g, fun _ h => h, fun _ h => Or.inl h⟩
  | cons x xs ih =>
    obtain ⟨g1, k1, s1⟩ := startupOne_spec ho env g x
    obtain ⟨g2, k2, s2⟩ := ih g1
    refine ⟨g2, fun q hq => k2 q (k1 q hq), fun q hq => ?_⟩
    rcases s2 q hq with h | ⟨y, hy, hw⟩
    · rcases s1 q h with h' | h'
      · exact Or.inl h'
      · exact Or.inr ⟨x, mem_cons_self, h'⟩
    · exact Or.inr ⟨y, mem_cons_of_mem _ hy, hw⟩

theorem mem_insertFlag {x y : Name × Bool} {l : Flags} : y ∈ insertFlag x l ↔ y = x ∨ y ∈ l := by
  induction l with
  | nil => simp [insertFlag]
  | cons a l ih =>
    unfold insertFlag
    split
    · simp
    · simp only [mem_cons, ih]
      constructor
      · rintro (h | h | h)
        · exact Or.inr (Or.inl h)
        · exact Or.inl h
        · exact Or.inr (Or.inr h)
      · rintro (h | h | h)
        · exact Or.inr (Or.inl h)
        · exact Or.inl h
        · exact Or.inr (Or.inr h)

theorem mem_sortedFlags {y : Name × Bool} {l : Flags} : y ∈ sortedFlags l ↔ y ∈ l := by
  unfold sortedFlags
  induction l with
  | nil => simp
  | cons a l ih => simp only [foldr_cons, mem_insertFlag, ih, mem_cons]

theorem registerPlugin_set (fl : Flags) (n : Name) (b : Bool) :
    (∃ x ∈ registerPlugin fl n (some b), x.1 = n) ∧ ∀ x ∈ registerPlugin fl n (some b), x.1 = n → x.2 = b := by
  unfold registerPlugin
  simp only
  constructor
  · by_cases h : hasFlag fl n = true
    · rw [if_pos h]
      unfold hasFlag at h
      obtain ⟨x, hx, hn⟩ := any_eq_true.mp h
      have hn' : x.1 = n := by simpa using hn
      exact ⟨(x.1, b), mem_map.mpr ⟨x, hx, by simp [hn']⟩, hn'⟩
    · rw [if_neg h]
      exact ⟨(n, b), mem_map.mpr ⟨(n, false), by simp, by simp⟩, rfl⟩
  · intro x hx hn
    obtain ⟨y, _, hy⟩ := mem_map.mp hx
    split at hy
    · rw [← hy]
    · rename_i hne
      rw [← hy] at hn
      simp [hn] at hne

end C20
