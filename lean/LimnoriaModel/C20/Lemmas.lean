/-
C20 — helper lemmas: the loop invariant of the extraction rounds of `addCallback`, soundness and
completeness of the computed order, and what removal does to it.
-/
import LimnoriaModel.C20.Model
import Batteries.Data.List.Perm
namespace C20
open Py List

/-- `a` is placed strictly before `b` in the list of callbacks `l` -/
def Before (l : Cbs) (a b : Name) : Prop :=
  ∃ l1 l2, l = l1 ++ l2 ∧ a ∈ l1.map (·.name) ∧ b ∈ l2.map (·.name)

theorem Before.append_right {l : Cbs} {a b : Name} (h : Before l a b) (x : Cbs) : Before (l ++ x) a b := by
  obtain ⟨l1, l2, rfl, ha, hb⟩ := h
  exact ⟨l1, l2 ++ x, by simp, ha, by simp only [map_append, mem_append]; exact Or.inl hb⟩

theorem Before.of_split {l x : Cbs} {a b : Name} (ha : a ∈ l.map (·.name)) (hb : b ∈ x.map (·.name)) :
    Before (l ++ x) a b := ⟨l, x, rfl, ha, hb⟩

/-- the `ord` parameter really is an enumeration of the set it is given -/
def OrdOk (ord : Ord) : Prop := ∀ l, (ord l).Perm l

/-! ### the loop invariant -/

structure Inv (nodes : Cbs) (E0 : List Edge) (done : Cbs) (edges : List Edge) : Prop where
  nodup : done.Nodup
  sub : ∀ p ∈ done, p ∈ nodes
  edges_eq : edges = E0.filter fun e => !(done.any fun p => p.name == e.1)
  placed : ∀ e ∈ E0, e.2 ∈ done.map (·.name) → Before done e.1 e.2

theorem inv_init (nodes : Cbs) (E0 : List Edge) : Inv nodes E0 [] E0 :=
  ⟨nodup_nil, by simp, (filter_eq_self.mpr (by simp)).symm, by simp⟩

theorem mem_firsts {nodes done : Cbs} {edges : List Edge} {p : Plugin} :
    p ∈ firsts nodes done edges ↔ p ∈ nodes ∧ p ∉ done ∧ ∀ e ∈ edges, e.2 ≠ p.name := by
  unfold firsts
  simp only [mem_filter, Bool.and_eq_true, Bool.not_eq_eq_eq_not, Bool.not_true, contains_eq_mem,
    decide_eq_false_iff_not, any_eq_false, beq_iff_eq]

theorem any_name_iff {l : Cbs} {n : Name} : (l.any fun p => p.name == n) = true ↔ n ∈ l.map (·.name) := by
  simp only [any_eq_true, beq_iff_eq, mem_map]

theorem inv_step {ord : Ord} (ho : OrdOk ord) {nodes : Cbs} (hn : nodes.Nodup) {E0 : List Edge}
    {done : Cbs} {edges : List Edge} (J : Inv nodes E0 done edges) :
    Inv nodes E0 (done ++ ord (firsts nodes done edges))
      (edges.filter fun e => !((firsts nodes done edges).any fun p => p.name == e.1)) := by
  have hp := ho (firsts nodes done edges)
  have hmem : ∀ p, p ∈ ord (firsts nodes done edges) ↔ p ∈ firsts nodes done edges := fun p => hp.mem_iff
  refine ⟨?_, ?_, ?_, ?_⟩
  · refine nodup_append.mpr ⟨J.nodup, ?_, ?_⟩
    · exact (hp.nodup_iff).mpr (hn.filter _)
    · intro a ha b hb hab
      subst hab
      exact (mem_firsts.mp ((hmem _).mp hb)).2.1 ha
  · intro p hpm
    rcases mem_append.mp hpm with h | h
    · exact J.sub p h
    · exact (mem_firsts.mp ((hmem _).mp h)).1
  · generalize firsts nodes done edges = F at hp
    rw [J.edges_eq, filter_filter]
    apply filter_congr
    intro e _
    have : ((ord F).any fun p => p.name == e.1) = (F.any fun p => p.name == e.1) := by
      rw [Bool.eq_iff_iff, any_name_iff, any_name_iff]
      exact (hp.map _).mem_iff
    rw [any_append, this]
    cases F.any fun p => p.name == e.1 <;> cases done.any fun p => p.name == e.1 <;> rfl
  · intro e he ht
    simp only [map_append, mem_append] at ht
    rcases ht with ht | ht
    · exact (J.placed e he ht).append_right _
    · -- the target is placed in this round: no remaining edge points to it, so the source is done
      obtain ⟨p, hpm, hpn⟩ := mem_map.mp ht
      have hf := mem_firsts.mp ((hmem _).mp hpm)
      have hsrc : e.1 ∈ done.map (·.name) := by
        apply Classical.byContradiction
        intro hc
        have : e ∈ edges := by
          rw [J.edges_eq, mem_filter]
          refine ⟨he, ?_⟩
          rw [Bool.not_eq_true', ← Bool.not_eq_true, any_name_iff]
          exact hc
        exact hf.2.2 e this hpn.symm
      exact Before.of_split hsrc ht

theorem rounds_inv {ord : Ord} (ho : OrdOk ord) {nodes : Cbs} (hn : nodes.Nodup) {E0 : List Edge}
    (fuel : Nat) {done : Cbs} {edges : List Edge} (J : Inv nodes E0 done edges) :
    ∃ edges', Inv nodes E0 (rounds ord nodes fuel done edges) edges' := by
  induction fuel generalizing done edges with
  | zero => exact ⟨edges, J⟩
  | succ n ih =>
    unfold rounds
    simp only
    split
    · exact ⟨edges, J⟩
    · exact ih (inv_step ho hn J)

/-! ### soundness of the computed order -/

theorem tsort_inv {ord : Ord} (ho : OrdOk ord) {nodes : Cbs} (hn : nodes.Nodup) (E0 : List Edge) :
    ∃ edges', Inv nodes E0 (tsort ord nodes E0) edges' :=
  rounds_inv ho hn _ (inv_init nodes E0)

theorem tsort_sound {ord : Ord} (ho : OrdOk ord) {nodes : Cbs} (hn : nodes.Nodup) (E0 : List Edge)
    (hlen : (tsort ord nodes E0).length = nodes.length) :
    (tsort ord nodes E0).Perm nodes ∧
    ∀ e ∈ E0, e.2 ∈ nodes.map (·.name) → Before (tsort ord nodes E0) e.1 e.2 := by
  obtain ⟨edges', J⟩ := tsort_inv ho hn E0
  have hperm : (tsort ord nodes E0).Perm nodes :=
    (subperm_of_subset J.nodup (fun p hp => J.sub p hp)).perm_of_length_le (by omega)
  refine ⟨hperm, fun e he ht => J.placed e he ?_⟩
  exact ((hperm.map _).mem_iff).mpr ht

/-! ### names -/

theorem nodup_of_map {α β} (f : α → β) {l : List α} (h : (l.map f).Nodup) : l.Nodup := by
  induction l with
  | nil => exact nodup_nil
  | cons a l ih =>
    simp only [map_cons, nodup_cons, mem_map, not_exists, not_and] at h ⊢
    exact ⟨fun hm => h.1 a hm rfl, ih h.2⟩

theorem inj_of_nodup_map {α β} {f : α → β} {l : List α} (h : (l.map f).Nodup) {x y : α}
    (hx : x ∈ l) (hy : y ∈ l) (e : f x = f y) : x = y := by
  induction l with
  | nil => cases hx
  | cons a l ih =>
    simp only [map_cons, nodup_cons, mem_map, not_exists, not_and] at h
    rcases mem_cons.mp hx with rfl | hx' <;> rcases mem_cons.mp hy with rfl | hy'
    · rfl
    · exact absurd e.symm (h.1 y hy')
    · exact absurd e (h.1 x hx')
    · exact ih h.2 hx' hy'

/-- registered names are unique up to case (what `getCallback` / `removeCallback` identify) -/
def WF (cbs : Cbs) : Prop := (cbs.map fun p => lower p.name).Nodup

theorem WF.names_nodup {cbs : Cbs} (h : WF cbs) : (cbs.map (·.name)).Nodup := by
  have : (cbs.map fun p => lower p.name) = (cbs.map (·.name)).map lower := by simp
  unfold WF at h
  rw [this] at h
  exact nodup_of_map _ h

theorem WF.nodup {cbs : Cbs} (h : WF cbs) : cbs.Nodup := nodup_of_map _ h

theorem WF.perm {a b : Cbs} (h : WF a) (p : b.Perm a) : WF b := ((p.map _).nodup_iff).mpr h

theorem WF.eq_of_name {cbs : Cbs} (h : WF cbs) {x y : Plugin} (hx : x ∈ cbs) (hy : y ∈ cbs)
    (e : x.name = y.name) : x = y :=
  inj_of_nodup_map h.names_nodup hx hy e

theorem getCallback_none_iff {cbs : Cbs} {n : Name} :
    getCallback cbs n = none ↔ ∀ p ∈ cbs, lower p.name ≠ lower n := by
  unfold getCallback
  simp [find?_eq_none]

theorem WF.snoc {cbs : Cbs} (h : WF cbs) {p : Plugin} (hp : getCallback cbs p.name = none) :
    WF (cbs ++ [p]) := by
  unfold WF at *
  simp only [map_append, map_cons, map_nil]
  refine nodup_append.mpr ⟨h, by simp, ?_⟩
  intro a ha b hb hab
  obtain ⟨q, hq, rfl⟩ := mem_map.mp ha
  simp only [mem_singleton] at hb
  subst hab
  exact getCallback_none_iff.mp hp q hq hb

/-! ### Owner first, Misc last -/

theorem before_head_absurd {h : Plugin} {t : Cbs} (hn : ((h :: t).map (·.name)).Nodup) {a : Name}
    (hb : Before (h :: t) a h.name) : False := by
  obtain ⟨l1, l2, e, ha, hh⟩ := hb
  cases l1 with
  | nil => simp at ha
  | cons x xs =>
    simp only [cons_append, cons.injEq] at e
    obtain ⟨rfl, e2⟩ := e
    rw [e2] at hn
    simp only [map_cons, map_append, nodup_cons, mem_append] at hn
    exact hn.1 (Or.inr hh)

/-- if the list respects an edge from `o` to every other callback, `o` is element 0 -/
theorem first_of_edges {l : Cbs} (hw : WF l) {o : Plugin} (ho : o ∈ l)
    (he : ∀ q ∈ l, q.name ≠ o.name → Before l o.name q.name) : l.head? = some o := by
  cases hl : l with
  | nil => rw [hl] at ho; cases ho
  | cons h t =>
    simp only [head?_cons, Option.some.injEq]
    apply Classical.byContradiction
    intro hne
    have hh : h ∈ l := by rw [hl]; exact mem_cons_self
    have hname : h.name ≠ o.name := fun e => hne (hw.eq_of_name hh ho e)
    exact before_head_absurd (hl ▸ hw.names_nodup) (hl ▸ he h hh hname)

theorem before_last_absurd {l : Cbs} (hn : (l.map (·.name)).Nodup) {h : Plugin} {t : Cbs}
    (hl : l = t ++ [h]) {b : Name} (hb : Before l h.name b) : False := by
  obtain ⟨l1, l2, e, hh, hb2⟩ := hb
  subst hl
  cases hl2 : l2.reverse with
  | nil => rw [reverse_eq_nil_iff.mp hl2] at hb2; simp at hb2
  | cons x xs =>
    have e2 : l2 = xs.reverse ++ [x] := by
      have := congrArg reverse hl2; simpa using this
    rw [e2, ← append_assoc] at e
    have := append_inj' e rfl
    obtain ⟨e3, e4⟩ := this
    simp only [cons.injEq, and_true] at e4
    subst e4
    rw [e3] at hn
    simp only [map_append, map_cons, map_nil] at hn
    have hd := (nodup_append.mp hn).2.2
    exact hd h.name (mem_append.mpr (Or.inl hh)) h.name (by simp) rfl

theorem last_of_edges {l : Cbs} (hw : WF l) {m : Plugin} (hm : m ∈ l)
    (he : ∀ q ∈ l, q.name ≠ m.name → Before l q.name m.name) : l.getLast? = some m := by
  cases hl : l.reverse with
  | nil => rw [reverse_eq_nil_iff.mp hl] at hm; cases hm
  | cons h t =>
    have e : l = t.reverse ++ [h] := by
      have := congrArg reverse hl; simpa using this
    rw [e, getLast?_append]
    simp only [getLast?_singleton, Option.some_or, Option.some.injEq]
    apply Classical.byContradiction
    intro hne
    have hh : h ∈ l := by rw [e]; simp
    have hname : h.name ≠ m.name := fun e' => hne (hw.eq_of_name hh hm e')
    exact before_last_absurd hw.names_nodup e (he h hh hname)

/-! ### the edge set -/

theorem getCallback_mem {cbs : Cbs} {n : Name} {q : Plugin} (h : getCallback cbs n = some q) :
    q ∈ cbs ∧ lower q.name = lower n := by
  unfold getCallback at h
  exact ⟨mem_of_find?_eq_some h, by simpa using find?_some h⟩

theorem mem_resolved {cbs : Cbs} {ns : List Name} {x : Name}
    (h : x ∈ (ns.filterMap (getCallback cbs)).map (·.name)) :
    ∃ n ∈ ns, ∃ q, getCallback cbs n = some q ∧ q.name = x := by
  obtain ⟨q, hq, rfl⟩ := mem_map.mp h
  obtain ⟨n, hn, hg⟩ := mem_filterMap.mp hq
  exact ⟨n, hn, q, hg, rfl⟩

theorem mem_edgesOf {cbs : Cbs} {e : Edge} :
    e ∈ edgesOf cbs ↔ ∃ p ∈ cbs, (∃ o ∈ (precedence cbs p).1, e = (o, p.name)) ∨
      (∃ o ∈ (precedence cbs p).2, e = (p.name, o)) := by
  unfold edgesOf
  simp only [mem_flatMap, mem_append, mem_map]
  constructor
  · rintro ⟨p, hp, h | h⟩
    · obtain ⟨o, ho, rfl⟩ := h; exact ⟨p, hp, Or.inl ⟨o, ho, rfl⟩⟩
    · obtain ⟨o, ho, rfl⟩ := h; exact ⟨p, hp, Or.inr ⟨o, ho, rfl⟩⟩
  · rintro ⟨p, hp, h | h⟩
    · obtain ⟨o, ho, rfl⟩ := h; exact ⟨p, hp, Or.inl ⟨o, ho, rfl⟩⟩
    · obtain ⟨o, ho, rfl⟩ := h; exact ⟨p, hp, Or.inr ⟨o, ho, rfl⟩⟩

/-- everything `callPrecedence` returns is a registered callback -/
theorem precedence_names {cbs : Cbs} {p : Plugin} {x : Name}
    (h : x ∈ (precedence cbs p).1 ∨ x ∈ (precedence cbs p).2) : x ∈ cbs.map (·.name) := by
  unfold precedence at h
  split at h
  · rcases h with h | h
    · cases h
    · obtain ⟨q, hq, rfl⟩ := mem_map.mp h
      exact mem_map.mpr ⟨q, (mem_filter.mp hq).1, rfl⟩
  · rcases h with h | h
    · obtain ⟨q, hq, rfl⟩ := mem_map.mp h
      exact mem_map.mpr ⟨q, (mem_filter.mp hq).1, rfl⟩
    · cases h
  · simp only at h
    split at h
    · rcases h with h | h <;> cases h
    · rcases h with h | h
      · obtain ⟨n, _, q, hg, rfl⟩ := mem_resolved h
        exact mem_map.mpr ⟨q, (getCallback_mem hg).1, rfl⟩
      · obtain ⟨n, _, q, hg, rfl⟩ := mem_resolved h
        exact mem_map.mpr ⟨q, (getCallback_mem hg).1, rfl⟩

theorem edge_endpoints {cbs : Cbs} {e : Edge} (h : e ∈ edgesOf cbs) :
    e.1 ∈ cbs.map (·.name) ∧ e.2 ∈ cbs.map (·.name) := by
  obtain ⟨p, hp, h | h⟩ := mem_edgesOf.mp h
  · obtain ⟨o, ho, rfl⟩ := h
    exact ⟨precedence_names (Or.inl ho), mem_map.mpr ⟨p, hp, rfl⟩⟩
  · obtain ⟨o, ho, rfl⟩ := h
    exact ⟨mem_map.mpr ⟨p, hp, rfl⟩, precedence_names (Or.inr ho)⟩

theorem owner_edges {cbs : Cbs} {o : Plugin} (ho : o ∈ cbs) (hk : o.kind = .owner) {q : Plugin}
    (hq : q ∈ cbs) (hne : q.name ≠ o.name) : (o.name, q.name) ∈ edgesOf cbs := by
  refine mem_edgesOf.mpr ⟨o, ho, Or.inr ⟨q.name, ?_, rfl⟩⟩
  unfold precedence
  rw [hk]
  exact mem_map.mpr ⟨q, mem_filter.mpr ⟨hq, by simpa using hne⟩, rfl⟩

theorem misc_edges {cbs : Cbs} {m : Plugin} (hm : m ∈ cbs) (hk : m.kind = .misc) {q : Plugin}
    (hq : q ∈ cbs) (hne : q.name ≠ m.name) : (q.name, m.name) ∈ edgesOf cbs := by
  refine mem_edgesOf.mpr ⟨m, hm, Or.inl ⟨q.name, ?_, rfl⟩⟩
  unfold precedence
  rw [hk]
  exact mem_map.mpr ⟨q, mem_filter.mpr ⟨hq, by simpa using hne⟩, rfl⟩

/-- the list respects every edge its own callbacks declare -/
def Respects (l : Cbs) (edges : List Edge) : Prop := ∀ e ∈ edges, Before l e.1 e.2

/-! ### addCallback -/

theorem addCallback_dup {ord : Ord} {cbs : Cbs} {p : Plugin} (h : (getCallback cbs p.name).isSome) :
    addCallback ord cbs p = .error (.assertion, cbs) := by
  unfold addCallback; rw [if_pos h]

theorem addCallback_new {ord : Ord} {cbs : Cbs} {p : Plugin} (h : getCallback cbs p.name = none) :
    addCallback ord cbs p =
      if (tsort ord (cbs ++ [p]) (edgesOf (cbs ++ [p]))).length ≠ (cbs ++ [p]).length
      then .error (.assertion, cbs) else .ok (tsort ord (cbs ++ [p]) (edgesOf (cbs ++ [p]))) := by
  unfold addCallback; rw [if_neg (by simp [h])]

/-- whatever happens, a failing `addCallback` leaves the list as it was -/
theorem addCallback_error {ord : Ord} {cbs : Cbs} {p : Plugin} {e : Err} {c' : Cbs}
    (h : addCallback ord cbs p = .error (e, c')) : c' = cbs := by
  unfold addCallback at h
  split at h
  · injection h with h; exact (Prod.mk.inj h).2.symm
  · simp only at h
    split at h
    · injection h with h; exact (Prod.mk.inj h).2.symm
    · cases h

theorem addCallback_ok {ord : Ord} (ho : OrdOk ord) {cbs : Cbs} (hw : WF cbs) {p : Plugin} {r : Cbs}
    (h : addCallback ord cbs p = .ok r) :
    getCallback cbs p.name = none ∧ r.Perm (cbs ++ [p]) ∧ Respects r (edgesOf (cbs ++ [p])) := by
  have hg : getCallback cbs p.name = none := by
    cases hgc : getCallback cbs p.name with
    | none => rfl
    | some q => rw [addCallback_dup (by simp [hgc])] at h; cases h
  rw [addCallback_new hg] at h
  split at h
  · cases h
  · rename_i hlen
    injection h with h
    subst h
    have hs := tsort_sound ho (hw.snoc hg).nodup (edgesOf (cbs ++ [p])) (by simpa using hlen)
    exact ⟨hg, hs.1, fun e he => hs.2 e he (edge_endpoints he).2⟩

end C20
