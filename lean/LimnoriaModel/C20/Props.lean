/-
C20 — property theorems: loading / unloading / reloading plugins keeps the dispatcher consistent.
(Helper lemmas live in `Lemmas.lean`.)

`ord : Ord` is the iteration order of the Python sets inside `addCallback`; every theorem holds for
every `ord` that enumerates the set it is given (`OrdOk`).  `WF cbs`: registered names are unique
up to case.  `Before l a b`: `a` is placed before `b` in `l`.  `Respects l E`: every edge of `E`.
-/
import LimnoriaModel.C20.Lemmas
namespace C20
open Py List

/-! ### the order computed by `addCallback` -/

/-- **order_sound.**  When `addCallback` accepts a callback, the new list is a permutation of the
old callbacks plus the new one (each exactly once) in which every resolved before/after constraint
(`callBefore`, `callAfter`, Owner-before-all, Misc-after-all) holds — for every iteration order of
the Python sets. -/
theorem order_sound {ord : Ord} (ho : OrdOk ord) {cbs : Cbs} (hw : WF cbs) {p : Plugin} {r : Cbs}
    (h : addCallback ord cbs p = .ok r) :
    r.Perm (cbs ++ [p]) ∧ WF r ∧ Respects r (edgesOf (cbs ++ [p])) := by
  obtain ⟨hg, hp, hr⟩ := addCallback_ok ho hw h
  exact ⟨hp, (hw.snoc hg).perm hp, hr⟩

/-- **owner_first.**  If the core dispatcher plugin is among the callbacks, it is element 0 of every
list `addCallback` produces. -/
theorem owner_first {ord : Ord} (ho : OrdOk ord) {cbs : Cbs} (hw : WF cbs) {p : Plugin} {r : Cbs}
    (h : addCallback ord cbs p = .ok r) {o : Plugin} (hmem : o ∈ cbs ++ [p]) (hk : o.kind = .owner) :
    r.head? = some o := by
  obtain ⟨hp, hwr, hr⟩ := order_sound ho hw h
  refine first_of_edges hwr (hp.mem_iff.mpr hmem) fun q hq hne => ?_
  exact hr _ (owner_edges hmem hk (hp.mem_iff.mp hq) hne)

/-- Misc (which must see a message after everybody else) is the last element. -/
theorem misc_last {ord : Ord} (ho : OrdOk ord) {cbs : Cbs} (hw : WF cbs) {p : Plugin} {r : Cbs}
    (h : addCallback ord cbs p = .ok r) {m : Plugin} (hmem : m ∈ cbs ++ [p]) (hk : m.kind = .misc) :
    r.getLast? = some m := by
  obtain ⟨hp, hwr, hr⟩ := order_sound ho hw h
  refine last_of_edges hwr (hp.mem_iff.mpr hmem) fun q hq hne => ?_
  exact hr _ (misc_edges hmem hk (hp.mem_iff.mp hq) hne)

/-- **cycle_rejected.**  If no order of the callbacks satisfies the constraints (they are cyclic),
`addCallback` raises, and the list of callbacks is left as it was. -/
theorem cycle_rejected {ord : Ord} (ho : OrdOk ord) {cbs : Cbs} (hw : WF cbs) {p : Plugin}
    (hc : ¬ ∃ l : Cbs, l.Perm (cbs ++ [p]) ∧ Respects l (edgesOf (cbs ++ [p]))) :
    addCallback ord cbs p = .error (.assertion, cbs) := by
  cases h : addCallback ord cbs p with
  | error e =>
    obtain ⟨er, c'⟩ := e
    have := addCallback_error h
    subst this
    cases er; rfl
  | ok r =>
    obtain ⟨hp, _, hr⟩ := order_sound ho hw h
    exact absurd ⟨r, hp, hr⟩ hc

/-- a name that is already registered (in any capitalisation) is refused, nothing changes -/
theorem duplicate_rejected (ord : Ord) (cbs : Cbs) (p : Plugin) (q : Plugin)
    (h : getCallback cbs p.name = some q) : addCallback ord cbs p = .error (.assertion, cbs) :=
  addCallback_dup (by simp [h])

/-! ### Owner's commands: failures change nothing, Owner stays -/

/-- **load_failure_preserves.**  A `load` that does not answer "success" — already loaded, no such
plugin, `ImportError` or any other exception while importing, raising constructor, rejected
constraints — leaves the list of callbacks exactly as it was. -/
theorem load_failure_preserves (ord : Ord) (cbs : Cbs) (name : Name) (avail : Option Plugin) (f : Faults)
    (h : (load ord cbs name avail f).1 ≠ .success) : (load ord cbs name avail f).2 = cbs := by
  unfold load at h ⊢
  simp only at h ⊢
  by_cases h0 : (getCallback cbs (stripPy name)).isSome = true
  · simp [h0]
  · cases avail with
    | none => simp [h0]
    | some p =>
      by_cases h1 : f.importError = true
      · simp [h0, h1]
      · by_cases h2 : f.importOther = true
        · simp [h0, h1, h2]
        · by_cases h3 : f.ctorRaises = true
          · simp [h0, h1, h2, h3]
          · cases he : addCallback ord cbs p with
            | error e =>
              obtain ⟨er, c'⟩ := e
              simp only [h0, h1, h2, h3, he, Bool.false_eq_true, if_false]
              exact addCallback_error he
            | ok c' => simp [h0, h1, h2, h3, he] at h

/-- **owner_stays.**  `unload` and `reload` of the core dispatcher plugin (any capitalisation) are
refused with an error and change nothing. -/
theorem owner_stays (ord : Ord) (cbs : Cbs) (name : Name) (avail : Option Plugin) (f : Faults)
    (h : isOwnerName name = true) :
    unload cbs name f = (.error "can't unload Owner", cbs) ∧
    reload ord cbs name avail f = (.error "can't reload Owner", cbs) := by
  unfold unload reload
  simp [h]

/-! ### commands -/

/-- **commands_union.**  The commands the dispatcher can route are exactly those of the registered
callbacks; in particular a successful `addCallback` adds exactly the new plugin's commands. -/
theorem commands_union {ord : Ord} (ho : OrdOk ord) {cbs : Cbs} (hw : WF cbs) {p : Plugin} {r : Cbs}
    (h : addCallback ord cbs p = .ok r) (c : Name) :
    c ∈ answered r ↔ c ∈ answered cbs ∨ c ∈ p.commands := by
  obtain ⟨hp, _, _⟩ := order_sound ho hw h
  unfold answered
  simp only [mem_flatMap]
  constructor
  · rintro ⟨q, hq, hc⟩
    rcases mem_append.mp (hp.mem_iff.mp hq) with hq' | hq'
    · exact Or.inl ⟨q, hq', hc⟩
    · rw [mem_singleton.mp hq'] at hc; exact Or.inr hc
  · rintro (⟨q, hq, hc⟩ | hc)
    · exact ⟨q, hp.mem_iff.mpr (mem_append.mpr (Or.inl hq)), hc⟩
    · exact ⟨p, hp.mem_iff.mpr (mem_append.mpr (Or.inr (mem_singleton.mpr rfl))), hc⟩

/-! ### non-vacuity, and the two recorded defects -/

def pOwner : Plugin := ⟨"Owner".toList, .owner, [], [], []⟩
def pMisc : Plugin := ⟨"Misc".toList, .misc, [], [], []⟩
def pA : Plugin := ⟨['A'], .plain, [['B']], [], [['a']]⟩     -- callBefore = ['B']
def pB : Plugin := ⟨['B'], .plain, [], [], [['b']]⟩
def pB' : Plugin := ⟨['B'], .plain, [['A']], [], [['b']]⟩    -- callBefore = ['A']: closes a cycle with pA
def pS : Plugin := ⟨['S'], .plain, [['S'], "Owner".toList], [], []⟩   -- names itself and wants to precede Owner
def pS' : Plugin := ⟨['S'], .plain, ["Owner".toList], [], []⟩         -- the same wish without the self-reference

deriving instance DecidableEq for Except
instance (cbs : Cbs) : Decidable (WF cbs) := by unfold WF; exact inferInstance

example : OrdOk id := fun _ => Perm.refl _
example : WF [pOwner, pB, pMisc] := by decide
/-- accepted: A is placed before B, Owner first, Misc last -/
example : addCallback id [pOwner, pB, pMisc] pA = .ok [pOwner, pA, pB, pMisc] := by decide
/-- rejected, list unchanged: B' → A → B' -/
example : addCallback id [pOwner, pA, pMisc] pB' = .error (.assertion, [pOwner, pA, pMisc]) := by decide
example : isOwnerName "OWNER".toList = true := by decide

/-- **reload_ctor_counter** (finding C20-reload-loses-plugin).  "A plugin whose constructor raises
leaves the previously loaded set registered" is false for `reload`: the old instance is removed and
killed before the new one is built. -/
theorem reload_ctor_counter :
    (reload id [pOwner, pB, pMisc] ['B'] (some pB) { ctorRaises := true }).2 = [pOwner, pMisc] := by
  decide

/-- **reload_failure_partial.**  What does hold for `reload`: with an `ImportError` (or no such
plugin any more) the old callbacks are re-added; in every failing case nothing *else* is lost —
the result is the old list without the reloaded name, or has it back. -/
theorem reload_failure_partial (ord : Ord) (cbs : Cbs) (name : Name) (avail : Option Plugin) (f : Faults)
    (h1 : f.importError = false) (h2 : avail.isSome)
    (hf : f.importOther = true ∨ f.ctorRaises = true)
    (hno : isOwnerName name = false) (hl : ((removeCallback cbs name).1).isEmpty = false) :
    reload ord cbs name avail f = (.exception, (removeCallback cbs name).2) := by
  unfold reload
  simp only [hno, Bool.false_eq_true, if_false, hl, h1, Bool.false_or]
  cases avail with
  | none => cases h2
  | some p =>
    simp only [Option.isNone_some, Bool.false_eq_true, if_false]
    rcases hf with hf | hf
    · simp [hf]
    · by_cases hx : f.importOther = true
      · simp [hx]
      · simp [hx, hf]

/-- **self_reference_counter** (finding C20-self-reference).  A plugin that names itself in
`callBefore` is accepted and all its constraints are dropped (the assertion in `callPrecedence` is
swallowed by the firewall): here it ends up *after* Owner although it declares "before Owner" —
the same declaration without the self-reference is rejected as the cycle it is. -/
theorem self_reference_counter :
    addCallback id [pOwner, pMisc] pS = .ok [pOwner, pS, pMisc] ∧
    addCallback id [pOwner, pMisc] pS' = .error (.assertion, [pOwner, pMisc]) := by
  decide

end C20
