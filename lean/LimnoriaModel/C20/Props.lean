/-
C20 — property theorems: loading / unloading / reloading plugins keeps the dispatcher consistent.
(Helper lemmas live in `Lemmas.lean`.)

`ord : Ord` is the iteration order of the Python sets inside `addCallback`; every theorem holds for
every `ord` that enumerates the set it is given (`OrdOk`).  `WF cbs`: registered names are unique
up to case.  `Before l a b`: `a` is placed before `b` in `l`.  `Respects l E`: every edge of `E`.
-/
import LimnoriaModel.C20.Lemmas
import LimnoriaModel.C20.Dispatch
namespace C20
open Py List

/-! ### the order computed by `addCallback` -/

/-- **order_sound.**  When `addCallback` accepts a callback, the new list is a permutation of the
old callbacks plus the new one (each exactly once) in which every resolved before/after constraint
(`callBefore`, `callAfter`, Owner-before-all, Misc-after-all) holds — for every iteration order of
the Python sets. -/
theorem order_sound {ord : Ord} (ho : OrdOk ord) {cbs : Cbs} (hw : WF cbs) {p : Plugin} {r : Cbs}
    (h : addCallback ord cbs p = .ok r) :
    r.Perm (cbs ++ [p]) ∧ WF r ∧ Respects r (edgesOf (cbs ++ [p])) := by
  obtain ⟨hg, hp, hr⟩ := addCallback_ok ho hw h
  exact ⟨hp, (hw.snoc hg).perm hp, hr⟩

/-- **owner_first.**  If the core dispatcher plugin is among the callbacks, it is element 0 of every
list `addCallback` produces. -/
theorem owner_first {ord : Ord} (ho : OrdOk ord) {cbs : Cbs} (hw : WF cbs) {p : Plugin} {r : Cbs}
    (h : addCallback ord cbs p = .ok r) {o : Plugin} (hmem : o ∈ cbs ++ [p]) (hk : o.kind = .owner) :
    r.head? = some o := by
  obtain ⟨hp, hwr, hr⟩ := order_sound ho hw h
  refine first_of_edges hwr (hp.mem_iff.mpr hmem) fun q hq hne => ?_
  exact hr _ (owner_edges hmem hk (hp.mem_iff.mp hq) hne)

/-- Misc (which must see a message after everybody else) is the last element. -/
theorem misc_last {ord : Ord} (ho : OrdOk ord) {cbs : Cbs} (hw : WF cbs) {p : Plugin} {r : Cbs}
    (h : addCallback ord cbs p = .ok r) {m : Plugin} (hmem : m ∈ cbs ++ [p]) (hk : m.kind = .misc) :
    r.getLast? = some m := by
  obtain ⟨hp, hwr, hr⟩ := order_sound ho hw h
  refine last_of_edges hwr (hp.mem_iff.mpr hmem) fun q hq hne => ?_
  exact hr _ (misc_edges hmem hk (hp.mem_iff.mp hq) hne)

/-- **cycle_rejected.**  If no order of the callbacks satisfies the constraints (they are cyclic),
`addCallback` raises, and the list of callbacks is left as it was. -/
theorem cycle_rejected {ord : Ord} (ho : OrdOk ord) {cbs : Cbs} (hw : WF cbs) {p : Plugin}
    (hc : ¬ ∃ l : Cbs, l.Perm (cbs ++ [p]) ∧ Respects l (edgesOf (cbs ++ [p]))) :
    addCallback ord cbs p = .error (.assertion, cbs) := by
  cases h : addCallback ord cbs p with
  | error e =>
    obtain ⟨er, c'⟩ := e
    have := addCallback_error h
    subst this
    cases er; rfl
  | ok r =>
    obtain ⟨hp, _, hr⟩ := order_sound ho hw h
    exact absurd ⟨r, hp, hr⟩ hc

/-- **acyclic_accepted** (the converse of `cycle_rejected`).  Whenever *some* order of the callbacks
satisfies all resolved constraints, `addCallback` accepts the new callback — whatever the iteration
order of the sets: a plugin is never refused for a constraint set that can be met. -/
theorem acyclic_accepted {ord : Ord} (ho : OrdOk ord) {cbs : Cbs} (hw : WF cbs) {p : Plugin}
    (hnew : getCallback cbs p.name = none)
    (hc : ∃ l : Cbs, l.Perm (cbs ++ [p]) ∧ Respects l (edgesOf (cbs ++ [p]))) :
    ∃ r, addCallback ord cbs p = .ok r := by
  obtain ⟨l, hl, hr⟩ := hc
  have hw' := hw.snoc hnew
  have hlen : (tsort ord (cbs ++ [p]) (edgesOf (cbs ++ [p]))).length = (cbs ++ [p]).length :=
    rounds_complete ho hw'.nodup hl (hw'.perm hl).names_nodup hr _ (inv_init _ _) (by simp)
  rw [addCallback_new hnew, if_neg (by simp [hlen])]
  exact ⟨_, rfl⟩

/-- **fuel_enough.**  The model bounds the `while firsts:` loop by one round per callback; no run
ever needs more: with any amount of extra rounds the result is the same. -/
theorem fuel_enough {ord : Ord} (ho : OrdOk ord) {nodes : Cbs} (hn : nodes.Nodup) (E : List Edge) (k : Nat) :
    rounds ord nodes (nodes.length + k) [] E = tsort ord nodes E :=
  rounds_extra_fuel ho hn nodes.length k (inv_init nodes E) (by simp)

/-- a name that is already registered (in any capitalisation) is refused, nothing changes -/
theorem duplicate_rejected (ord : Ord) (cbs : Cbs) (p : Plugin) (q : Plugin)
    (h : getCallback cbs p.name = some q) : addCallback ord cbs p = .error (.assertion, cbs) :=
  addCallback_dup (by simp [h])

/-! ### Owner's commands: failures change nothing, Owner stays -/

/-- **load_failure_preserves.**  A `load` that does not answer "success" — already loaded, no such
plugin, `ImportError` or any other exception while importing, raising constructor, rejected
constraints — leaves the list of callbacks exactly as it was. -/
theorem load_failure_preserves (ord : Ord) (cbs : Cbs) (name : Name) (avail : Option Plugin) (f : Faults)
    (h : (load ord cbs name avail f).1 ≠ .success) : (load ord cbs name avail f).2 = cbs := by
  unfold load at h ⊢
  simp only at h ⊢
  by_cases h0 : (getCallback cbs (stripPy name)).isSome = true
  · simp [h0]
  · cases avail with
    | none => simp [h0]
    | some p =>
      by_cases h1 : f.importError = true
      · simp [h0, h1]
      · by_cases h2 : f.importOther = true
        · simp [h0, h1, h2]
        · by_cases hd : (f.deprecated && !f.ignoreDeprecation) = true
          · simp only [h0, h1, h2, hd, Bool.false_eq_true, if_false, if_true]
          · by_cases h3 : f.ctorRaises = true
            · simp only [h0, h1, h2, hd, h3, Bool.false_eq_true, if_false, if_true]
            · cases he : addCallback ord cbs p with
              | error e =>
                obtain ⟨er, c'⟩ := e
                simp only [h0, h1, h2, hd, h3, he, Bool.false_eq_true, if_false]
                exact addCallback_error he
              | ok c' => simp only [h0, h1, h2, hd, h3, he, Bool.false_eq_true, if_false] at h; exact absurd rfl h

/-- **owner_stays.**  `unload` and `reload` of the core dispatcher plugin (any capitalisation) are
refused with an error and change nothing. -/
theorem owner_stays (ord : Ord) (cbs : Cbs) (name : Name) (avail : Option Plugin) (f : Faults)
    (h : isOwnerName name = true) :
    unload cbs name f = (.error "can't unload Owner", cbs) ∧
    reload ord cbs name avail f = (.error "can't reload Owner", cbs) := by
  unfold unload reload
  simp [h]

/-! ### histories -/

theorem exec_inv {ord : Ord} (ho : OrdOk ord) {cbs : Cbs} (g : Good cbs) {o : Plugin} (hm : o ∈ cbs)
    (hn : isOwnerName o.name = true) (c : Cmd) :
    Good (exec ord cbs c).2 ∧ o ∈ (exec ord cbs c).2 := by
  have hlow : ∀ name, isOwnerName name = false → lower o.name ≠ lower name := by
    intro name h e
    unfold isOwnerName at hn h
    rw [e] at hn
    rw [hn] at h
    cases h
  cases c with
  | load n a f => exact ⟨(load_good ho g n a f).1, (load_good ho g n a f).2 o hm⟩
  | unload n f =>
    refine ⟨(unload_good g n f).1, ?_⟩
    cases hb : isOwnerName n with
    | true => show o ∈ (unload cbs n f).2; rw [(owner_stays ord cbs n none f hb).1]; exact hm
    | false => exact (unload_good g n f).2 o hm (hlow n hb)
  | reload n a f =>
    refine ⟨(reload_good ho g n a f).1, ?_⟩
    cases hb : isOwnerName n with
    | true => show o ∈ (reload ord cbs n a f).2; rw [(owner_stays ord cbs n a f hb).2]; exact hm
    | false => exact (reload_good ho g n a f).2 o hm (hlow n hb)

/-- **history_inv.**  Start from a dispatcher list with unique names, satisfied constraints and the
core dispatcher plugin in it.  After *any* sequence of `load` / `unload` / `reload` commands — any
names and capitalisations, any available plugins with any `callBefore`/`callAfter` sets, any
injected import / constructor / die failures, any iteration order of the Python sets at every
step — each registered name is still unique (each plugin exactly once), every resolved
before/after constraint holds in the list, and the core dispatcher plugin is still registered and
is element 0. -/
theorem history_inv (cbs : Cbs) (g : Good cbs) (o : Plugin) (hm : o ∈ cbs) (hk : o.kind = .owner)
    (hn : isOwnerName o.name = true) (cs : List (Ord × Cmd)) (hord : ∀ c ∈ cs, OrdOk c.1) :
    WF (runCmds cbs cs) ∧ Respects (runCmds cbs cs) (edgesOf (runCmds cbs cs)) ∧
    o ∈ runCmds cbs cs ∧ (runCmds cbs cs).head? = some o := by
  induction cs generalizing cbs with
  | nil => exact ⟨g.wf, g.resp, hm, g.owner_first hm hk⟩
  | cons c cs ih =>
    obtain ⟨ord, cmd⟩ := c
    have h := exec_inv (hord (ord, cmd) mem_cons_self) g hm hn cmd
    exact ih _ h.1 h.2 (fun c hc => hord c (mem_cons_of_mem _ hc))

/-- **reload_failure_preserves.**  `reload` of a loaded plugin whose module cannot be imported any
more — `ImportError`, deprecated without `--deprecated`, no such plugin, or any other exception
while importing (syntax error …) —
answers with an error and leaves exactly the previously registered plugins registered: the old
instance, untouched so far, is put back (its position may change, all constraints still hold). -/
theorem reload_failure_preserves {ord : Ord} (ho : OrdOk ord) {cbs : Cbs} (g : Good cbs) (name : Name)
    (avail : Option Plugin) (f : Faults) (hno : isOwnerName name = false)
    (hl : (getCallback cbs name).isSome)
    (hf : f.importError = true ∨ f.deprecated = true ∨ avail = none ∨ f.importOther = true) :
    (reload ord cbs name avail f).1 ≠ .success ∧ (reload ord cbs name avail f).2.Perm cbs ∧
    Good (reload ord cbs name avail f).2 := by
  obtain ⟨q, hq⟩ := Option.isSome_iff_exists.mp hl
  have hql := (getCallback_mem hq).2
  have hbad := removed_singleton g.wf hq
  have hperm := removeCallback_perm cbs name
  rw [hbad] at hperm
  have gf : Good (removeCallback cbs name).2 := g.filter _
  have hnew : getCallback (removeCallback cbs name).2 q.name = none := by
    apply getCallback_none_iff.mpr
    intro x hx hc
    unfold removeCallback at hx
    have := (mem_filter.mp hx).2
    rw [hc, hql] at this
    simp at this
  have hw' := gf.wf.snoc hnew
  obtain ⟨r, hr⟩ := acyclic_accepted ho gf.wf hnew
    ⟨cbs, hperm.symm, fun e he => g.resp e ((edgesOf_perm hw' hperm.symm e).mpr he)⟩
  have hrp := (addCallback_ok ho gf.wf hr).2.1
  have heq : reload ord cbs name avail f = (.error "no plugin", r) ∨
      reload ord cbs name avail f = (.exception, r) := by
    unfold reload
    by_cases hcond : (f.importError || avail.isNone) = true
    · left
      simp only [hno, Bool.false_eq_true, if_false, hbad, isEmpty_cons, hcond, if_true, readd, hr]
    · by_cases ho' : f.importOther = true
      · right
        simp only [hno, Bool.false_eq_true, if_false, hbad, isEmpty_cons, hcond, ho', if_true, readd, hr]
      · left
        have hd : f.deprecated = true := by
          rcases hf with h | h | h | h
          · simp [h] at hcond
          · exact h
          · simp [h] at hcond
          · exact absurd h ho'
        simp only [hno, Bool.false_eq_true, if_false, hbad, isEmpty_cons, hcond, ho', hd, if_true, readd, hr]
  refine ⟨?_, ?_, (reload_good ho g name avail f).1⟩
  · rcases heq with h | h <;> rw [h] <;> simp
  · rcases heq with h | h <;> rw [h] <;> exact hrp.trans hperm

/-! ### persisted flags and the start-up loader (`Owner._loadPlugins`, run when a network connects) -/

/-- **startup_inv.**  The start-up loader keeps the invariant (unique names, all constraints,
hence Owner first), never drops a registered plugin, and everything it adds is a plugin found on
disk under a name whose flag `supybot.plugins.<Name>` is set (or that is "important" while
`alwaysLoadImportant` is on) — whatever fails on the way (every failure is swallowed). -/
theorem startup_inv {ord : Ord} (ho : OrdOk ord) (env : Env) (b : Bot) (g : Good b.cbs) :
    Good (startup ord env b).cbs ∧ (∀ q ∈ b.cbs, q ∈ (startup ord env b).cbs) ∧
    (∀ q ∈ (startup ord env b).cbs, q ∈ b.cbs ∨ ∃ x ∈ b.flags, Wanted env x ∧ env.disk x.1 = some q) ∧
    (startup ord env b).flags = b.flags :=
  ⟨(startup_fold ho env _ g).1, (startup_fold ho env _ g).2.1,
   fun q hq => ((startup_fold ho env _ g).2.2 q hq).imp id
     fun ⟨x, hx, hw⟩ => ⟨x, mem_sortedFlags.mp hx, hw⟩, rfl⟩

/-- **unloaded_stays_out.**  A plugin that is not registered, whose flag is off and that is not
forced by `alwaysLoadImportant`, is not brought back by a reconnect. -/
theorem unloaded_stays_out {ord : Ord} (ho : OrdOk ord) (env : Env) (b : Bot) (g : Good b.cbs) (q : Plugin)
    (hq : q ∉ b.cbs) (hoff : ∀ x ∈ b.flags, env.disk x.1 = some q → ¬ Wanted env x) :
    q ∉ (startup ord env b).cbs := by
  intro hm
  rcases (startup_inv ho env b g).2.2.1 q hm with h | ⟨x, hx, hw, hd⟩
  · exact hq h
  · exact hoff x hx hd hw

/-- **flag_tracks.**  A successful `load` leaves the plugin's flag set (so the next start loads it
again); an `unload` that finds the plugin leaves its flag cleared. -/
theorem flag_tracks (ord : Ord) (b : Bot) (name : Name) (p : Plugin) (f : Faults) :
    ((loadB ord b name (some p) f).1 = .success →
      (∃ x ∈ (loadB ord b name (some p) f).2.flags, x.1 = p.name) ∧
      ∀ x ∈ (loadB ord b name (some p) f).2.flags, x.1 = p.name → x.2 = true) ∧
    (isOwnerName name = false → ∀ old, getCallback b.cbs name = some old →
      (∃ x ∈ (unloadB b name f).2.flags, x.1 = old.name) ∧
      ∀ x ∈ (unloadB b name f).2.flags, x.1 = old.name → x.2 = false) := by
  constructor
  · intro hs
    unfold loadB at hs ⊢
    simp only at hs ⊢
    rw [if_pos hs]
    exact registerPlugin_set _ _ _
  · intro hno old hold
    unfold unloadB
    simp only [hno, Bool.false_eq_true, if_false, hold]
    exact registerPlugin_set _ _ _

/-! ### several networks -/

theorem execOn_ref (ord : Ord) (w : World) (i : Nat) (c : Cmd) : (execOn ord w i c).2.ref = w.ref := rfl

theorem runOn_ref (w : World) (h : List (Ord × Nat × Cmd)) : (runOn w h).ref = w.ref := by
  induction h generalizing w with
  | nil => rfl
  | cons x xs ih => obtain ⟨ord, i, c⟩ := x; exact (ih _).trans (execOn_ref ord w i c)

/-- **shared_view.**  All `Irc` objects start out referring to the same list object; after any
history of `load` / `unload` / `reload` commands arriving on any of the networks they still all see
the same registration list (no command rebinds `self.callbacks`). -/
theorem shared_view (w : World) (hs : ∀ i j, w.ref.getD i 0 = w.ref.getD j 0)
    (h : List (Ord × Nat × Cmd)) (i j : Nat) : (runOn w h).view i = (runOn w h).view j := by
  unfold World.view
  rw [runOn_ref, hs i j]

/-- … and what they all see is the single-list history of the model above, whichever network each
command arrived on: `history_inv` applies to every network's view. -/
theorem shared_history (w : World) (hs : ∀ i j, w.ref.getD i 0 = w.ref.getD j 0)
    (hr : w.ref.getD 0 0 < w.heap.length) (h : List (Ord × Nat × Cmd)) (i : Nat) :
    (runOn w h).view i = runCmds (w.view i) (h.map fun x => (x.1, x.2.2)) := by
  induction h generalizing w with
  | nil => rfl
  | cons x xs ih =>
    obtain ⟨ord, k, c⟩ := x
    have hs' : ∀ a b, (execOn ord w k c).2.ref.getD a 0 = (execOn ord w k c).2.ref.getD b 0 := hs
    have hr' : (execOn ord w k c).2.ref.getD 0 0 < (execOn ord w k c).2.heap.length := by
      show w.ref.getD 0 0 < (w.heap.set _ _).length
      rw [length_set]; exact hr
    show (runOn (execOn ord w k c).2 xs).view i = runCmds (exec ord (w.view i) c).2 _
    rw [ih _ hs' hr']
    congr 1
    unfold World.view execOn
    simp only
    rw [hs i k]
    have hk : w.ref.getD k 0 < w.heap.length := by rw [hs k 0]; exact hr
    generalize w.ref.getD k 0 = r at hk
    rw [List.getD_eq_getElem?_getD, List.getElem?_set_self hk]
    rfl

/-- every handle refers to the module-level list (object 0) -/
def AllDefault (w : World) : Prop := ∀ r ∈ w.ref, r = 0

theorem view_default {w : World} (h : AllDefault w) (i : Nat) : w.view i = w.heap.getD 0 [] := by
  unfold World.view
  congr 1
  by_cases hi : i < w.ref.length
  · rw [List.getD_eq_getElem?_getD, List.getElem?_eq_getElem hi]
    exact h _ (List.getElem_mem hi)
  · rw [List.getD_eq_getElem?_getD, List.getElem?_eq_none (by omega)]; rfl

theorem runNet_default (w : World) (h : AllDefault w) (cs : List NetCmd) : AllDefault (runNet w cs) := by
  induction cs generalizing w with
  | nil => exact h
  | cons c cs ih =>
    cases c with
    | cmd ord i c => exact ih _ h
    | connect =>
      apply ih
      intro r hr
      rcases List.mem_append.mp hr with hr | hr
      · exact h r hr
      · simpa using hr
    | disconnect i =>
      apply ih
      intro r hr
      exact h r (List.mem_of_mem_eraseIdx hr)

/-- **late_network_sees_all.**  Networks may be connected and disconnected at any point of a
history of load / unload / reload commands: every `Irc` object that exists afterwards — also one
created *after* all the loads — sees the same registration list (and therefore answers the same
union of commands). -/
theorem late_network_sees_all (w : World) (h : AllDefault w) (cs : List NetCmd) (i j : Nat) :
    (runNet w cs).view i = (runNet w cs).view j := by
  rw [view_default (runNet_default w h cs) i, view_default (runNet_default w h cs) j]

/-- **renames_keep_identity.**  Applying the registered renames to the version of a plugin found on
disk changes nothing but command names: name, kind and constraints — everything the order theorems
depend on — and the number of commands stay the same. -/
theorem renames_keep_identity (rn : Renames) (p q : Plugin) (h : applyRenames rn p = some q) :
    q.name = p.name ∧ q.kind = p.kind ∧ q.callBefore = p.callBefore ∧ q.callAfter = p.callAfter ∧
    q.commands.length = p.commands.length := by
  unfold applyRenames at h
  generalize (rn.filter fun x => x.1 == p.name) = l at h
  have key : ∀ (l : Renames) (a : Plugin) (q : Plugin),
      l.foldl (fun acc x => match acc with
        | none => none
        | some q => if q.commands.contains x.2.1 && !q.commands.contains x.2.2 then
            some { q with commands := q.commands.map fun c => if c == x.2.1 then x.2.2 else c } else none) (some a) = some q →
      q.name = a.name ∧ q.kind = a.kind ∧ q.callBefore = a.callBefore ∧ q.callAfter = a.callAfter ∧
      q.commands.length = a.commands.length := by
    intro l
    induction l with
    | nil => intro a q h; simp only [List.foldl_nil, Option.some.injEq] at h; subst h; exact ⟨rfl, rfl, rfl, rfl, rfl⟩
    | cons x xs ih =>
      intro a q h
      simp only [List.foldl_cons] at h
      split at h
      · have := ih _ _ h
        simpa using this
      · have hn : ∀ (l : Renames), l.foldl (fun acc x => match acc with
            | none => none
            | some q => if q.commands.contains x.2.1 && !q.commands.contains x.2.2 then
                some { q with commands := q.commands.map fun c => if c == x.2.1 then x.2.2 else c } else none) none = (none : Option Plugin) := by
          intro l; induction l with
          | nil => rfl
          | cons y ys ihy => simpa using ihy
        rw [hn] at h; cases h
  exact key l p q h

/-! ### commands -/

/-- **commands_union.**  The commands the dispatcher can route are exactly those of the registered
callbacks; in particular a successful `addCallback` adds exactly the new plugin's commands. -/
theorem commands_union {ord : Ord} (ho : OrdOk ord) {cbs : Cbs} (hw : WF cbs) {p : Plugin} {r : Cbs}
    (h : addCallback ord cbs p = .ok r) (c : Name) :
    c ∈ answered r ↔ c ∈ answered cbs ∨ c ∈ p.commands := by
  obtain ⟨hp, _, _⟩ := order_sound ho hw h
  unfold answered
  simp only [mem_flatMap]
  constructor
  · rintro ⟨q, hq, hc⟩
    rcases mem_append.mp (hp.mem_iff.mp hq) with hq' | hq'
    · exact Or.inl ⟨q, hq', hc⟩
    · rw [mem_singleton.mp hq'] at hc; exact Or.inr hc
  · rintro (⟨q, hq, hc⟩ | hc)
    · exact ⟨q, hp.mem_iff.mpr (mem_append.mpr (Or.inl hq)), hc⟩
    · exact ⟨p, hp.mem_iff.mpr (mem_append.mpr (Or.inr (mem_singleton.mpr rfl))), hc⟩

/-- **commands_dispatch.**  The same statement through C14's model of the real dispatcher
(`findCallbacksForArgs` + `finalEval`, imported from C14): for a canonical one-word command, the
dispatcher over the current list finds no plugin exactly when no registered plugin has the command,
and when exactly one registered plugin has it, that plugin (at its position in the list) is run —
whatever `importantPlugins` says. -/
theorem commands_dispatch (cbs : Cbs) (hw : WF cbs) (imp : List Name) (c : Name)
    (hc : C14.canonicalName c = c) :
    (c ∉ answered cbs → C14.dispatch (dispCfg cbs imp) [c] = .none) ∧
    (∀ p ∈ cbs, c ∈ p.commands → (∀ q ∈ cbs, c ∈ q.commands → q = p) →
      ∃ i, cbs[i]? = some p ∧ C14.dispatch (dispCfg cbs imp) [c] = .run i p.name [c] []) := by
  constructor
  · intro h
    apply dispatch_none cbs imp c hc
    intro p hp hcp
    exact h (by unfold answered; exact mem_flatMap.mpr ⟨p, hp, hcp⟩)
  · intro p hp hcp huniq
    obtain ⟨l1, l2, hs⟩ := append_of_mem hp
    have hnd : (l1 ++ p :: l2).Nodup := hs ▸ hw.nodup
    have hp1 : p ∉ l1 := fun h => by
      have := (nodup_append.mp hnd).2.2 p h p mem_cons_self
      exact this rfl
    have hp2 : p ∉ l2 := (nodup_cons.mp (nodup_append.mp hnd).2.1).1
    refine ⟨l1.length, by rw [hs]; simp, ?_⟩
    apply dispatch_unique cbs imp c hc l1 l2 p hs hcp
    · intro q hq hcq
      have := huniq q (by rw [hs]; exact mem_append.mpr (Or.inl hq)) hcq
      exact hp1 (this ▸ hq)
    · intro q hq hcq
      have := huniq q (by rw [hs]; exact mem_append.mpr (Or.inr (mem_cons_of_mem _ hq))) hcq
      exact hp2 (this ▸ hq)

/-! ### non-vacuity, and the two recorded defects -/

def pOwner : Plugin := ⟨"Owner".toList, .owner, [], [], []⟩
def pMisc : Plugin := ⟨"Misc".toList, .misc, [], [], []⟩
def pA : Plugin := ⟨['A'], .plain, [['B']], [], [['a']]⟩     -- callBefore = ['B']
def pB : Plugin := ⟨['B'], .plain, [], [], [['b']]⟩
def pB' : Plugin := ⟨['B'], .plain, [['A']], [], [['b']]⟩    -- callBefore = ['A']: closes a cycle with pA
def pS : Plugin := ⟨['S'], .plain, [['S'], "Owner".toList], [], []⟩   -- names itself and wants to precede Owner

deriving instance DecidableEq for Except
instance (cbs : Cbs) : Decidable (WF cbs) := by unfold WF; exact inferInstance

example : OrdOk id := fun _ => Perm.refl _
example : WF [pOwner, pB, pMisc] := by decide
/-- accepted: A is placed before B, Owner first, Misc last -/
example : addCallback id [pOwner, pB, pMisc] pA = .ok [pOwner, pA, pB, pMisc] := by decide
/-- rejected, list unchanged: B' → A → B' -/
example : addCallback id [pOwner, pA, pMisc] pB' = .error (.assertion, [pOwner, pA, pMisc]) := by decide
example : isOwnerName "OWNER".toList = true := by decide
example : C14.canonicalName ['a'] = ['a'] := by decide
example : C14.dispatch (dispCfg [pOwner, pA, pB, pMisc] []) [['a']] = .run 1 ['A'] [['a']] [] :=
  dispatch_unique _ _ _ (by decide) [pOwner] [pB, pMisc] pA rfl (by decide) (by decide) (by decide)
/-- start-up: A's flag is on, B's is off, Misc is important: A and Misc are loaded, B is not -/
example : (startup id ⟨fun n => if n = ['A'] then some pA else if n = ['B'] then some pB else
      if n = pMisc.name then some pMisc else none, fun _ => {}, [pMisc.name], true⟩
    ⟨[pOwner], [(['A'], true), (['B'], false), (pMisc.name, false)]⟩).cbs = [pOwner, pA, pMisc] := by decide
example : Good [pOwner, pA, pB, pMisc] := by
  refine ⟨by decide, ?_⟩
  have e : edgesOf [pOwner, pA, pB, pMisc] =
      [(pOwner.name, ['A']), (pOwner.name, ['B']), (pOwner.name, pMisc.name), (['A'], ['B']),
       (pOwner.name, pMisc.name), (['A'], pMisc.name), (['B'], pMisc.name)] := by decide
  intro x hx
  rw [e] at hx
  simp only [mem_cons, not_mem_nil, or_false] at hx
  rcases hx with rfl | rfl | rfl | rfl | rfl | rfl | rfl
  · exact ⟨[pOwner], [pA, pB, pMisc], rfl, by decide, by decide⟩
  · exact ⟨[pOwner], [pA, pB, pMisc], rfl, by decide, by decide⟩
  · exact ⟨[pOwner], [pA, pB, pMisc], rfl, by decide, by decide⟩
  · exact ⟨[pOwner, pA], [pB, pMisc], rfl, by decide, by decide⟩
  · exact ⟨[pOwner], [pA, pB, pMisc], rfl, by decide, by decide⟩
  · exact ⟨[pOwner, pA], [pB, pMisc], rfl, by decide, by decide⟩
  · exact ⟨[pOwner, pA, pB], [pMisc], rfl, by decide, by decide⟩

/-- **reload_ctor_counter** (finding C20-reload-loses-plugin).  "A plugin whose constructor raises
leaves the previously loaded set registered" is false for `reload`: the old instance is removed and
killed before the new one is built. -/
theorem reload_ctor_counter :
    (reload id [pOwner, pB, pMisc] ['B'] (some pB) { ctorRaises := true }).2 = [pOwner, pMisc] := by
  decide

/-- **reload_failure_partial.**  What remains of "a raising constructor leaves the previously loaded
set registered" for `reload`: nothing *else* is lost — the result is the old list without the
reloaded name.  (The old instance has been `die()`d before the new one is built; building the new
one first would run two instances of a plugin side by side, which plugins holding a named
scheduler event or an HTTP hook cannot bear.) -/
theorem reload_failure_partial (ord : Ord) (cbs : Cbs) (name : Name) (p : Plugin) (f : Faults)
    (h1 : f.importError = false) (h2 : f.importOther = false) (h3 : f.deprecated = false)
    (hf : f.ctorRaises = true)
    (hno : isOwnerName name = false) (hl : ((removeCallback cbs name).1).isEmpty = false) :
    reload ord cbs name (some p) f = (.exception, (removeCallback cbs name).2) := by
  unfold reload
  simp [hno, hl, h1, h2, h3, hf]

/-- **self_reference_rejected.**  A plugin that names itself in `callBefore` or `callAfter` (in any
capitalisation) declares a cycle of length one: it is refused and the list stays as it was. -/
theorem self_reference_rejected {ord : Ord} (ho : OrdOk ord) {cbs : Cbs} (hw : WF cbs) {p : Plugin}
    (hk : p.kind = .plain) (hnew : getCallback cbs p.name = none) {n : Name}
    (hn : n ∈ p.callBefore ∨ n ∈ p.callAfter) (hl : lower n = lower p.name) :
    addCallback ord cbs p = .error (.assertion, cbs) := by
  apply cycle_rejected ho hw
  rintro ⟨l, hperm, hresp⟩
  have hw' := (hw.snoc hnew)
  have hg : getCallback (cbs ++ [p]) n = some p :=
    getCallback_unique hw' (mem_append.mpr (Or.inr (mem_singleton.mpr rfl))) hl.symm
  have hedge : (p.name, p.name) ∈ edgesOf (cbs ++ [p]) := by
    refine mem_edgesOf.mpr ⟨p, mem_append.mpr (Or.inr (mem_singleton.mpr rfl)), ?_⟩
    unfold precedence
    rw [hk]
    rcases hn with hn | hn
    · exact Or.inr ⟨p.name, mem_map.mpr ⟨p, mem_filterMap.mpr ⟨n, hn, hg⟩, rfl⟩, rfl⟩
    · exact Or.inl ⟨p.name, mem_map.mpr ⟨p, mem_filterMap.mpr ⟨n, hn, hg⟩, rfl⟩, rfl⟩
  exact before_irrefl (hw'.perm hperm).names_nodup (hresp _ hedge)

example : addCallback id [pOwner, pMisc] pS = .error (.assertion, [pOwner, pMisc]) := by decide

end C20
