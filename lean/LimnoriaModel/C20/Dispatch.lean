/-
C20 — the link to C14's command dispatch: the dispatcher list of this model, seen through
`C14.findCallbacks` / `C14.dispatch` (the model of `findCallbacksForArgs` / `finalEval`), routes a
one-word command exactly when a registered plugin has it.  (C14.Model is imported read-only.)
-/
import LimnoriaModel.C20.Lemmas
import LimnoriaModel.C14.Model
namespace C20
open Py List

/-- a dispatcher entry as C14 sees it: class name, command methods, no nested groups -/
def toC14 (p : Plugin) : C14.Plugin := .mk p.name p.commands [] false

/-- C14's dispatch configuration for the current list: nothing disabled, no default plugins -/
def dispCfg (cbs : Cbs) (important : List Name) : C14.DispCfg :=
  { callbacks := cbs.map toC14, disabled := [], defaults := [], important := important }

theorem getCommand_one (p : Plugin) (c : Name) (hc : C14.canonicalName c = c) :
    C14.getCommand [] (toC14 p) [c] = .ok (if p.commands.contains c then [c] else []) := by
  unfold toC14
  rw [C14.getCommand]
  simp only [C14.getCommandSubs, ne_eq, not_true_eq_false, and_false, if_false]
  unfold C14.isCmd C14.isDisabled
  simp [hc]

theorem scan_nohit (c : Name) (hc : C14.canonicalName c = c) (l : Cbs) (hl : ∀ p ∈ l, c ∉ p.commands)
    (rest : List C14.Plugin) (i : Nat) (maxL : List Str) (acc : List (Nat × List Str)) :
    C14.scan [] [c] (l.map toC14 ++ rest) i maxL acc = C14.scan [] [c] rest (i + l.length) maxL acc := by
  induction l generalizing i with
  | nil => simp
  | cons p l ih =>
    simp only [map_cons, cons_append, C14.scan]
    rw [getCommand_one p c hc]
    have : p.commands.contains c = false := by simpa using hl p mem_cons_self
    simp only [this, Bool.false_eq_true, if_false, ne_eq, not_true_eq_false, false_and]
    rw [ih (fun q hq => hl q (mem_cons_of_mem _ hq))]
    simp only [length_cons]
    congr 1
    omega

/-- no registered plugin has the command: C14's dispatcher finds nothing (`invalidCommand`) -/
theorem dispatch_none (cbs : Cbs) (imp : List Name) (c : Name) (hc : C14.canonicalName c = c)
    (h : ∀ p ∈ cbs, c ∉ p.commands) : C14.dispatch (dispCfg cbs imp) [c] = .none := by
  unfold C14.dispatch C14.findCallbacks dispCfg
  simp only [map_cons, map_nil, hc]
  have := scan_nohit c hc cbs h [] 0 [] []
  simp only [append_nil] at this
  rw [this]
  simp [C14.scan]

/-- exactly one registered plugin has the command: C14's dispatcher runs it in that plugin -/
theorem dispatch_unique (cbs : Cbs) (imp : List Name) (c : Name) (hc : C14.canonicalName c = c)
    (l1 l2 : Cbs) (p : Plugin) (hs : cbs = l1 ++ p :: l2) (hp : c ∈ p.commands)
    (h1 : ∀ q ∈ l1, c ∉ q.commands) (h2 : ∀ q ∈ l2, c ∉ q.commands) :
    C14.dispatch (dispCfg cbs imp) [c] = .run l1.length p.name [c] [] := by
  unfold C14.dispatch C14.findCallbacks dispCfg
  simp only [map_cons, map_nil, hc]
  have e : cbs.map toC14 = l1.map toC14 ++ (toC14 p :: l2.map toC14) := by rw [hs]; simp
  rw [e, scan_nohit c hc l1 h1]
  simp only [C14.scan, Nat.zero_add]
  rw [getCommand_one p c hc]
  have hpc : p.commands.contains c = true := by simpa using hp
  simp only [hpc, if_true, ne_eq, cons_ne_self, not_false_eq_true, length_nil, Nat.zero_le, and_self, nil_append]
  have := scan_nohit c hc l2 h2 [] (l1.length + 1) [c] [(l1.length, [c])]
  simp only [append_nil] at this
  rw [this]
  simp only [C14.scan]
  have hname : C14.nameOf (l1.map toC14 ++ toC14 p :: l2.map toC14) l1.length = p.name := by
    unfold C14.nameOf
    simp [toC14, C14.Plugin.name]
  simp only [filter_cons, decide_true, if_true, filter_nil, map_cons, map_nil, find?_cons, find?_nil, hname,
    List.lookup, Bool.false_eq_true]
  cases hdec : decide (C14.canonicalName p.name = c) <;>
  by_cases hP : ∃ a, a ∈ imp ∧ C14.canonicalName a = C14.canonicalName p.name <;>
  simp [hP, hname]

end C20
