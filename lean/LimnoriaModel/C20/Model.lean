/-
C20 — model of the plugin dispatcher list: `Irc.addCallback` (edges from `callPrecedence`, iterative
extraction of the callbacks nobody has to precede, for *any* iteration order of the Python sets, the
final length check), `Irc.getCallback` / `removeCallback` (case-insensitive), `IrcCallback.
callPrecedence` (with the firewall that turns its self-reference assertion into "no constraint"),
`Owner.callPrecedence` / `Misc.callPrecedence`, and the control flow of `plugin.loadPluginClass`,
`Owner.load` / `unload` / `reload` with their failure points
(src/irclib.py:120-160,1164-1227; src/plugin.py:64-197; plugins/Owner/plugin.py:133-134,426-525;
plugins/Misc/plugin.py:87-88).
-/
import LimnoriaModel.Py.Basic
namespace C20
open Py

abbrev Name := Str

inductive Kind where
  | owner   -- `Owner.callPrecedence`: before everybody
  | misc    -- `Misc.callPrecedence`: after everybody
  | plain   -- `IrcCallback.callPrecedence`: the declared `callBefore` / `callAfter`
deriving DecidableEq, Repr

/-- a plugin as the dispatcher sees it -/
structure Plugin where
  /-- `cb.name()`: the class name -/
  name : Name
  kind : Kind
  /-- names this plugin wants to be called before -/
  callBefore : List Name
  /-- names this plugin wants to be called after -/
  callAfter : List Name
  /-- its commands -/
  commands : List Name
deriving DecidableEq, Repr

/-- `str.lower()` on the ASCII range (class names are ASCII identifiers here) -/
def lower (s : Name) : Name := asciiLower s

/-- `irc.callbacks` -/
abbrev Cbs := List Plugin

/-- `Irc.getCallback(name)`: first callback whose lower-cased name matches -/
def getCallback (cbs : Cbs) (n : Name) : Option Plugin :=
  cbs.find? fun p => lower p.name == lower n

/-- `Irc.removeCallback(name)` = `partition`: (removed, kept) -/
def removeCallback (cbs : Cbs) (n : Name) : Cbs × Cbs :=
  (cbs.filter fun p => lower p.name == lower n, cbs.filter fun p => !(lower p.name == lower n))

abbrev Edge := Name × Name

/-- `cb.callPrecedence(irc)` as names: (called before me, called after me).
A plain callback that names itself appears in its own list (edge `(p, p)`): `addCallback` then
rejects it like any other cycle. -/
def precedence (cbs : Cbs) (p : Plugin) : List Name × List Name :=
  match p.kind with
  | .owner => ([], (cbs.filter fun q => q.name != p.name).map (·.name))
  | .misc => ((cbs.filter fun q => q.name != p.name).map (·.name), [])
  | .plain =>
    ((p.callAfter.filterMap (getCallback cbs)).map (·.name),
     (p.callBefore.filterMap (getCallback cbs)).map (·.name))

/-- the edge set built by `addCallback`: `(a, b)` = `a` is called before `b` -/
def edgesOf (cbs : Cbs) : List Edge :=
  cbs.flatMap fun p =>
    let (before, after) := precedence cbs p
    before.map (fun o => (o, p.name)) ++ after.map (fun o => (p.name, o))

/-- the iteration order of a Python set of callbacks: any enumeration of it -/
abbrev Ord := List Plugin → List Plugin

/-- `getFirsts()`: callbacks not yet placed that no remaining edge points to -/
def firsts (nodes done : Cbs) (edges : List Edge) : Cbs :=
  nodes.filter fun p => !done.contains p && !(edges.any fun e => e.2 == p.name)

/-- the `while firsts:` loop.  `ord` is the iteration order of the Python set `firsts`; each round
appends the whole set and drops the edges leaving it. -/
def rounds (ord : Ord) (nodes : Cbs) : Nat → Cbs → List Edge → Cbs
  | 0, done, _ => done
  | fuel + 1, done, edges =>
    let f := firsts nodes done edges
    if f.isEmpty then done
    else rounds ord nodes fuel (done ++ ord f) (edges.filter fun e => !(f.any fun p => p.name == e.1))

/-- the order `addCallback` computes (at most one round per callback is ever productive) -/
def tsort (ord : Ord) (nodes : Cbs) (edges : List Edge) : Cbs :=
  rounds ord nodes nodes.length [] edges

inductive Err where
  | assertion      -- AssertionError out of addCallback
deriving DecidableEq, Repr

/-- `Irc.addCallback(cb)` (with the repaired cycle handling: the callback is taken out again).
Returns the new list, or the error and the list as the exception leaves it. -/
def addCallback (ord : Ord) (cbs : Cbs) (p : Plugin) : Except (Err × Cbs) Cbs :=
  if (getCallback cbs p.name).isSome then .error (.assertion, cbs)
  else
    let sorted := tsort ord (cbs ++ [p]) (edgesOf (cbs ++ [p]))
    if sorted.length ≠ (cbs ++ [p]).length then .error (.assertion, cbs)
    else .ok sorted

/-! ### Owner's commands -/

/-- what can go wrong while a plugin is (re)loaded, decided by the environment -/
structure Faults where
  /-- `loadPluginModule` raises `ImportError` -/
  importError : Bool := false
  /-- `loadPluginModule` raises something else (a `SyntaxError` in the module …): `load` lets it
      propagate, `reload` first puts the old callbacks back -/
  importOther : Bool := false
  /-- the constructor `module.Class(irc)` raises -/
  ctorRaises : Bool := false
  /-- `die()` of the old instance raises: `die` is in `__firewalled__`, the exception is logged
      and swallowed, so this has no effect on `unload` / `reload` -/
  dieRaises : Bool := false
  /-- the module says `deprecated = True` -/
  deprecated : Bool := false
  /-- `load --deprecated` (and the start-up loader): `ignoreDeprecation=True` -/
  ignoreDeprecation : Bool := false
deriving DecidableEq, Repr

inductive Reply where
  | success
  | error (what : String)       -- `irc.error(...)`
  | exception                   -- uncaught: "An error has occurred and has been logged"
deriving DecidableEq, Repr

/-- `ircutils.strEqual(name, 'Owner')` on ASCII names -/
def isOwnerName (n : Name) : Bool := lower n == lower "Owner".toList

/-- `name[:-3] if name.endswith('.py')` -/
def stripPy (n : Name) : Name :=
  if n.length ≥ 3 ∧ n.drop (n.length - 3) = ".py".toList then n.take (n.length - 3) else n

/-- `Owner.load`: `avail` = the plugin that `loadPluginModule(name)` finds (none: no such plugin) -/
def load (ord : Ord) (cbs : Cbs) (name : Name) (avail : Option Plugin) (f : Faults) :
    Reply × Cbs :=
  let name := stripPy name
  if (getCallback cbs name).isSome then (.error "already loaded", cbs)
  else
    match avail with
    | none => (.error "no plugin", cbs)
    | some p =>
      if f.importError then (.error "no plugin", cbs)
      else if f.importOther then (.exception, cbs)
      else if f.deprecated && !f.ignoreDeprecation then (.error "deprecated", cbs)
      else if f.ctorRaises then (.exception, cbs)
      else
        match addCallback ord cbs p with
        | .error (_, cbs') => (.exception, cbs')
        | .ok cbs' => (.success, cbs')

/-- `Owner.unload` -/
def unload (cbs : Cbs) (name : Name) (_f : Faults) : Reply × Cbs :=
  if isOwnerName name then (.error "can't unload Owner", cbs)
  else
    match getCallback cbs name with
    | none => (.error "no plugin", cbs)
    | some old =>
      let (bad, good) := removeCallback cbs old.name
      if bad.isEmpty then (.error "no plugin", good)
      else (.success, good)

/-- re-adding the old callbacks after a failed import (`for callback in callbacks: irc.addCallback`) -/
def readd (ord : Ord) : Cbs → List Plugin → Except (Err × Cbs) Cbs
  | cbs, [] => .ok cbs
  | cbs, p :: ps =>
    match addCallback ord cbs p with
    | .error e => .error e
    | .ok cbs' => readd ord cbs' ps

/-- `Owner.reload`: `avail` = what `loadPluginModule(name)` finds now -/
def reload (ord : Ord) (cbs : Cbs) (name : Name) (avail : Option Plugin) (f : Faults) :
    Reply × Cbs :=
  if isOwnerName name then (.error "can't reload Owner", cbs)
  else
    let (bad, good) := removeCallback cbs name
    if bad.isEmpty then (.error "no plugin", good)
    else if f.importError || avail.isNone then
      match readd ord good bad with
      | .ok cbs' => (.error "no plugin", cbs')
      | .error (_, cbs') => (.exception, cbs')
    else if f.importOther then                              -- not an ImportError: old callbacks put back, re-raised
      match readd ord good bad with
      | .ok cbs' => (.exception, cbs')
      | .error (_, cbs') => (.exception, cbs')
    else if f.deprecated then                               -- `Deprecated` is an `ImportError` (no `--deprecated` here)
      match readd ord good bad with
      | .ok cbs' => (.error "no plugin", cbs')
      | .error (_, cbs') => (.exception, cbs')
    else if f.ctorRaises then (.exception, good)            -- old instance dead, new one never built
    else
      match avail with
      | none => (.exception, good)
      | some p =>
        match addCallback ord good p with
        | .error (_, cbs') => (.exception, cbs')
        | .ok cbs' => (.success, cbs')

/-- one step of a history -/
inductive Cmd where
  | load (name : Name) (avail : Option Plugin) (f : Faults)
  | unload (name : Name) (f : Faults)
  | reload (name : Name) (avail : Option Plugin) (f : Faults)

def exec (ord : Ord) (cbs : Cbs) : Cmd → Reply × Cbs
  | .load n a f => load ord cbs n a f
  | .unload n f => unload cbs n f
  | .reload n a f => reload ord cbs n a f

/-- a history: every step comes with the set-iteration order in force during it -/
def runCmds (cbs : Cbs) : List (Ord × Cmd) → Cbs
  | [] => cbs
  | (ord, c) :: cs => runCmds (exec ord cbs c).2 cs

/-! ### the persisted flags `supybot.plugins.<Name>` and the start-up loader -/

/-- `supybot.plugins.<Name>` in registration order -/
abbrev Flags := List (Name × Bool)

def hasFlag (fl : Flags) (n : Name) : Bool := fl.any fun x => x.1 == n

/-- `conf.registerPlugin(name, value)`: registers the flag (default `False`) when it is new; sets it
when a value is given -/
def registerPlugin (fl : Flags) (n : Name) (v : Option Bool) : Flags :=
  let fl' := if hasFlag fl n then fl else fl ++ [(n, false)]
  match v with
  | none => fl'
  | some b => fl'.map fun x => if x.1 == n then (x.1, b) else x

structure Bot where
  cbs : Cbs
  flags : Flags

/-- `Owner.load` with its effects on the configuration: `loadPluginClass` registers the flag as soon
as the constructor has run; a successful load sets it -/
def loadB (ord : Ord) (b : Bot) (name : Name) (avail : Option Plugin) (f : Faults) : Reply × Bot :=
  let r := load ord b.cbs name avail f
  let built : Bool :=          -- did `loadPluginClass` get past the constructor?
    !(getCallback b.cbs (stripPy name)).isSome && avail.isSome && !f.importError && !f.importOther &&
    !(f.deprecated && !f.ignoreDeprecation) && !f.ctorRaises
  match avail with
  | some p =>
    let fl := if built then registerPlugin b.flags p.name none else b.flags
    (r.1, { cbs := r.2, flags := if r.1 = .success then registerPlugin fl p.name (some true) else fl })
  | none => (r.1, { cbs := r.2, flags := b.flags })

/-- `Owner.unload`: the flag of the plugin found is cleared before it is removed -/
def unloadB (b : Bot) (name : Name) (f : Faults) : Reply × Bot :=
  let r := unload b.cbs name f
  let fl :=
    if isOwnerName name then b.flags
    else match getCallback b.cbs name with
      | none => b.flags
      | some old => registerPlugin b.flags old.name (some false)
  (r.1, { cbs := r.2, flags := fl })

def reloadB (ord : Ord) (b : Bot) (name : Name) (avail : Option Plugin) (f : Faults) : Reply × Bot :=
  let r := reload ord b.cbs name avail f
  (r.1, { cbs := r.2, flags := b.flags })      -- the flag exists already and is left alone

/-- what the start-up loader needs to know about the world -/
structure Env where
  /-- `loadPluginModule(name)` finds this plugin -/
  disk : Name → Option Plugin
  /-- what goes wrong when that plugin is imported / built -/
  faults : Name → Faults
  /-- `supybot.commands.defaultPlugins.importantPlugins` -/
  important : List Name
  /-- `supybot.plugins.alwaysLoadImportant` -/
  alwaysLoadImportant : Bool

def isUpperFirst (n : Name) : Bool :=
  match n with
  | c :: _ => 'A' ≤ c && c ≤ 'Z'
  | [] => false

/-- one iteration of `Owner._loadPlugins`: every failure is logged and swallowed -/
def startupOne (ord : Ord) (env : Env) (cbs : Cbs) (x : Name × Bool) : Cbs :=
  if (getCallback cbs x.1).isSome then cbs
  else
    let want := x.2 || (env.important.contains x.1 && env.alwaysLoadImportant)
    if want && isUpperFirst x.1 then
      (load ord cbs x.1 (env.disk x.1) { env.faults x.1 with ignoreDeprecation := true }).2
    else cbs

/-- `supybot.plugins` is an alphabetically ordered group: `getValues` sorts the names (code points) -/
def insertFlag (x : Name × Bool) : Flags → Flags
  | [] => [x]
  | y :: ys => if x.1 ≤ y.1 then x :: y :: ys else y :: insertFlag x ys

def sortedFlags (fl : Flags) : Flags := fl.foldr insertFlag []

/-- `Owner._loadPlugins(irc)` (run when a network is connected) -/
def startup (ord : Ord) (env : Env) (b : Bot) : Bot :=
  { b with cbs := (sortedFlags b.flags).foldl (startupOne ord env) b.cbs }

/-! ### several networks: every `Irc` object refers to one and the same list object

`Irc.__init__(self, network, callbacks=_callbacks)` binds `self.callbacks` to the module-level list;
`addCallback` / `removeCallback` only ever mutate that object in place (`append`,
`self.callbacks[:] = …`), they never rebind `self.callbacks`. -/

structure World where
  /-- the list objects that exist -/
  heap : List Cbs
  /-- per `Irc` object: which list object its `self.callbacks` is -/
  ref : List Nat

/-- what the `i`-th `Irc` sees as `irc.callbacks` -/
def World.view (w : World) (i : Nat) : Cbs := w.heap.getD (w.ref.getD i 0) []

/-- an Owner command arriving on the `i`-th network: the list object is updated in place -/
def execOn (ord : Ord) (w : World) (i : Nat) (c : Cmd) : Reply × World :=
  let r := w.ref.getD i 0
  let res := exec ord (w.heap.getD r []) c
  (res.1, { w with heap := w.heap.set r res.2 })

def runOn (w : World) : List (Ord × Nat × Cmd) → World
  | [] => w
  | (ord, i, c) :: cs => runOn (execOn ord w i c).2 cs

/-- `irclib.Irc(network)` (a network is connected later on): its `callbacks` is the default argument,
the module-level list — list object 0 -/
def connect (w : World) : World := { w with ref := w.ref ++ [0] }

/-- `irc.die()` → `_reallyDie`: the handle goes away; the last one to go empties the list it shared -/
def disconnect (w : World) (i : Nat) : World :=
  let ref' := w.ref.eraseIdx i
  { heap := if ref'.isEmpty then w.heap.set (w.ref.getD i 0) [] else w.heap, ref := ref' }

inductive NetCmd where
  | cmd (ord : Ord) (i : Nat) (c : Cmd)
  | connect
  | disconnect (i : Nat)

def runNet (w : World) : List NetCmd → World
  | [] => w
  | .cmd ord i c :: cs => runNet (execOn ord w i c).2 cs
  | .connect :: cs => runNet (connect w) cs
  | .disconnect i :: cs => runNet (disconnect w i) cs

/-! ### command renames (`Owner.rename` / `unrename`, `supybot.commands.renames.<Plugin>`) -/

/-- (plugin, command, new name), in registration order -/
abbrev Renames := List (Name × Name × Name)

/-- `plugin.renameCommand` for every registered rename of this plugin, as `loadPluginClass` does right
after the constructor: `none` when one of them cannot be applied (the command is not there any more:
`getattr` raises; the new name is already an attribute: the assertion fails) -/
def applyRenames (rn : Renames) (p : Plugin) : Option Plugin :=
  (rn.filter fun x => x.1 == p.name).foldl
    (fun acc x =>
      match acc with
      | none => none
      | some q =>
        if q.commands.contains x.2.1 && !q.commands.contains x.2.2 then
          some { q with commands := q.commands.map fun c => if c == x.2.1 then x.2.2 else c }
        else none)
    (some p)

/-- `Owner.rename <plugin> <command> <new name>` on the registered plugin -/
def renameCmd (cbs : Cbs) (rn : Renames) (plugin command newName : Name) : Reply × Cbs × Renames :=
  match getCallback cbs plugin with
  | none => (.error "invalid plugin", cbs, rn)
  | some q =>
    if !q.commands.contains command then (.error "invalid command", cbs, rn)
    else if q.commands.contains newName then (.error "attribute exists", cbs, rn)
    else
      (.success,
       cbs.map (fun p => if p.name == q.name then
          { p with commands := p.commands.map fun c => if c == command then newName else c } else p),
       rn ++ [(q.name, command, newName)])

/-- `load` / `reload` with the registered renames: a rename that no longer applies to the version
found on disk raises right after the constructor -/
def withRenames (rn : Renames) (avail : Option Plugin) (f : Faults) : Option Plugin × Faults :=
  match avail with
  | none => (none, f)
  | some p =>
    match applyRenames rn p with
    | some p' => (some p', f)
    | none => (some p, { f with ctorRaises := true })

def loadR (ord : Ord) (b : Bot) (rn : Renames) (name : Name) (avail : Option Plugin) (f : Faults) : Reply × Bot :=
  loadB ord b name (withRenames rn avail f).1 (withRenames rn avail f).2

def reloadR (ord : Ord) (b : Bot) (rn : Renames) (name : Name) (avail : Option Plugin) (f : Faults) : Reply × Bot :=
  reloadB ord b name (withRenames rn avail f).1 (withRenames rn avail f).2

/-- `Owner.unrename <plugin>`: drop its renames (an error when it has none), then `reload` it -/
def unrenameCmd (ord : Ord) (b : Bot) (rn : Renames) (plugin : Name) (avail : Option Plugin) (f : Faults) :
    Reply × Bot × Renames :=
  match getCallback b.cbs plugin with
  | none => (.error "invalid plugin", b, rn)
  | some q =>
    if !(rn.any fun x => x.1 == q.name) then (.error "invalid plugin", b, rn)
    else
      let rn' := rn.filter fun x => !(x.1 == q.name)
      let r := reloadR ord b rn' q.name avail f
      (r.1, r.2, rn')

/-- the commands the dispatcher can route: those of the registered plugins -/
def answered (cbs : Cbs) : List Name := cbs.flatMap (·.commands)

end C20
