/-
C19 — `Irc.queueMsg` called from other threads (plugins with threaded commands do it).

At the granularity of the Python statements that touch the queues: list `append` / `pop(0)` are atomic
under the GIL, only the driver's thread dequeues, and `Irc.takeMsg` looks at the queues only at the
start of a round (an append landing inside a round is an append at the round's boundary: the filters
of `Reentrant.lean` are arbitrary, so `rtakeMsg_conserves` covers it).  The one compound step is
`IrcMsgQueue.enqueue`: `if msg in self and duplicates(): refuse` … `append`.  `qcheck` / `qappend` are
its two halves, run by a thread `tid` with anything in between.
 * conservation holds for every interleaving, lock or no lock (`trun_conserves`);
 * the refusal of duplicates does not: `unlocked_duplicates` is the schedule (found on the real code by
   the two-thread stream of harness/c19.py) — hence the lock `enqueue` now takes (`enqueue_is_locked`,
   extracted), under which the two halves are one step and the thread model collapses to the sequential
   one (`locked_pair`), about which everything else is proved.
-/
import LimnoriaModel.C19.Lemmas
namespace C19
open Py List

inductive TOp where
  | base (op : Op)
  | qcheck (tid : Nat) (m : Msg)
  | qappend (tid : Nat)

structure TState where
  irc : Irc
  slots : List (Nat × Msg × Bool)      -- what each thread decided in its `qcheck`

def tstep (s : TState) : TOp → TState × List Ev
  | .base op => ({ s with irc := (step s.irc op).1 }, (step s.irc op).2)
  | .qcheck tid m =>
    ({ s with slots := (tid, m, !s.irc.zombie && !(s.irc.queue.contains m && s.irc.cfg.dupRefuse)) :: s.slots }, [])
  | .qappend tid =>
    match s.slots.find? (fun x => x.1 == tid) with
    | none => (s, [])
    | some (_, m, ok) =>
      let sl := s.slots.filter (fun x => !(x.1 == tid))
      if ok then
        (⟨{ s.irc with queue := (s.irc.queue.enqueue false m).1 }, sl⟩, [.accepted false m])
      else (⟨s.irc, sl⟩, [.refused false m])

def trun : TState → List TOp → TState × List Ev
  | s, [] => (s, [])
  | s, op :: ops =>
    let r := tstep s op
    let r2 := trun r.1 ops
    (r2.1, r.2 ++ r2.2)

theorem enqueue_false_true (q : Queue) (m : Msg) : (q.enqueue false m).2 = true := by
  unfold Queue.enqueue
  simp only [Bool.and_false, Bool.false_eq_true, if_false]
  split <;> rfl

theorem tstep_conserves (s : TState) (op : TOp) : Conserves s.irc ((tstep s op).1.irc, (tstep s op).2) := by
  cases op with
  | base op => exact step_conserves s.irc op
  | qcheck tid m => exact Conserves.refl _
  | qappend tid =>
    simp only [tstep]
    cases hfind : s.slots.find? (fun x => x.1 == tid) with
    | none => exact Conserves.refl _
    | some x =>
      obtain ⟨t, m, ok⟩ := x
      cases ok with
      | true =>
        simp only [if_true]
        have h : s.irc.queue.enqueue false m = ((s.irc.queue.enqueue false m).1, true) := by
          rw [← enqueue_false_true s.irc.queue m]
        intro x
        have := enqueue_true_count h x
        cnt
      | false =>
        simp only [Bool.false_eq_true, if_false]
        intro x; cnt

/-- **Conservation under every interleaving** of the two halves of `queueMsg` run by any number of
threads with everything else: waiting + accepted = handed over + dropped + lost + discarded + waiting. -/
theorem trun_conserves : ∀ (ops : List TOp) (s : TState),
    Conserves s.irc ((trun s ops).1.irc, (trun s ops).2)
  | [], s => Conserves.refl _
  | op :: ops, s => by
    unfold trun
    dsimp only
    exact Conserves.trans (tstep_conserves s op) (trun_conserves ops (tstep s op).1)

/-- **Under the lock** the two halves are one step: exactly `queueMsg`. -/
theorem locked_pair (s : TState) (tid : Nat) (m : Msg) :
    (tstep (tstep s (.qcheck tid m)).1 (.qappend tid)).1.irc = (queueMsg s.irc m).1 ∧
    (tstep (tstep s (.qcheck tid m)).1 (.qappend tid)).2 = (queueMsg s.irc m).2 := by
  simp only [tstep, find?_cons, beq_self_eq_true]
  unfold queueMsg Queue.enqueue
  cases hz : s.irc.zombie <;> cases hc : (s.irc.queue.contains m && s.irc.cfg.dupRefuse)
  · simp only [Bool.not_false, Bool.and_self, if_true, Bool.false_eq_true, if_false, Bool.and_false]
    split <;> exact ⟨rfl, rfl⟩
  · simp
  · simp
  · simp

def raceCfg : Cfg :=
  { throttle := 0, joinLimit := 0, dupRefuse := true, pingOn := false, pingInterval := 120,
    connectMsgs := [], filters := [] }

def raceMsg (n : Nat) : Msg := ⟨.ext n, ⟨[], ['N', 'O', 'T', 'I', 'C', 'E'], [['n']], []⟩⟩

/-- **Without the lock**: two threads queue equal messages; both test before either appends; both are
accepted although duplicates are refused — the queue holds the message twice. -/
theorem unlocked_duplicates :
    ((trun ⟨(init raceCfg 1000).1, []⟩
        [.qcheck 1 (raceMsg 1), .qcheck 2 (raceMsg 2), .qappend 1, .qappend 2]).1.irc.queue.low.map (·.c))
      = [(raceMsg 1).c, (raceMsg 1).c] := by decide

/-- … while the same calls one after the other (what the lock enforces) refuse the second -/
theorem locked_refuses :
    ((trun ⟨(init raceCfg 1000).1, []⟩
        [.qcheck 1 (raceMsg 1), .qappend 1, .qcheck 2 (raceMsg 2), .qappend 2]).1.irc.queue.low.map (·.c))
      = [(raceMsg 1).c] := by decide

/-- the lock is there (extracted from src/irclib.py on every run) -/
theorem enqueue_is_locked : Gen.enqueueLocked = true := by decide

end C19
