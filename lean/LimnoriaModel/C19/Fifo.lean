/-
C19 — first-in-first-out inside a class, class invariant (helper lemmas).
-/
import LimnoriaModel.C19.Lemmas
namespace C19
open Py List

/-- every message sits in the list of its class -/
def ClassInv (q : Queue) : Prop :=
  (∀ m ∈ q.high, classOf m.cmd = .high) ∧ (∀ m ∈ q.normal, classOf m.cmd = .normal) ∧
  (∀ m ∈ q.low, classOf m.cmd = .low)

/-- per class: what was accepted and what left, in order, since the last `reset()` -/
structure Hist where
  accF : List Msg
  outF : List Msg
  accH : List Msg
  outH : List Msg
  accN : List Msg
  outN : List Msg
  accL : List Msg
  outL : List Msg

def Hist.empty : Hist := ⟨[], [], [], [], [], [], [], []⟩

def Hist.acc (h : Hist) (fast : Bool) (m : Msg) : Hist :=
  if fast then { h with accF := h.accF ++ [m] }
  else match classOf m.cmd with
    | .high => { h with accH := h.accH ++ [m] }
    | .normal => { h with accN := h.accN ++ [m] }
    | .low => { h with accL := h.accL ++ [m] }

def Hist.out (h : Hist) (fast : Bool) (m : Msg) : Hist :=
  if fast then { h with outF := h.outF ++ [m] }
  else match classOf m.cmd with
    | .high => { h with outH := h.outH ++ [m] }
    | .normal => { h with outN := h.outN ++ [m] }
    | .low => { h with outL := h.outL ++ [m] }

def Hist.push (h : Hist) : Ev → Hist
  | .accepted f m => h.acc f m
  | .took f s _ _ => h.out f s
  | .dropped f s _ => h.out f s
  | .lost f s _ _ => h.out f s
  | .discarded _ => Hist.empty
  | _ => h

def Hist.pushAll (h : Hist) (evs : List Ev) : Hist := evs.foldl Hist.push h

theorem Hist.pushAll_append (h : Hist) (a b : List Ev) :
    h.pushAll (a ++ b) = (h.pushAll a).pushAll b := by
  simp [Hist.pushAll, foldl_append]

/-- not the rate-limited command -/
def notJoin (m : Msg) : Bool := !(m.cmd == Gen.rateLimitedCommand)

structure FifoInv (s : Irc) (h : Hist) : Prop where
  fast : h.accF = h.outF ++ s.fast
  high : h.accH = h.outH ++ s.queue.high
  normal : h.accN = h.outN ++ s.queue.normal
  lowPerm : h.accL.Perm (h.outL ++ s.queue.low)
  lowOrder : h.accL.filter notJoin = h.outL.filter notJoin ++ s.queue.low.filter notJoin
  cls : ClassInv s.queue

/-- a step keeps the FIFO invariant, whatever the history so far -/
def FifoStep (s : Irc) (r : Irc × List Ev) : Prop :=
  ∀ h, FifoInv s h → FifoInv r.1 (h.pushAll r.2)

theorem FifoStep.trans {s s1 s2 : Irc} {e1 e2 : List Ev}
    (h1 : FifoStep s (s1, e1)) (h2 : FifoStep s1 (s2, e2)) : FifoStep s (s2, e1 ++ e2) := by
  intro h hi
  rw [Hist.pushAll_append]
  exact h2 _ (h1 h hi)

theorem FifoStep.refl (s : Irc) : FifoStep s (s, []) := fun _ hi => hi

/-- a step that changes neither queue and emits nothing the history records -/
theorem FifoStep.of_same {s s' : Irc} {e : List Ev} (hf : s'.fast = s.fast) (hq : s'.queue = s.queue)
    (he : ∀ h : Hist, h.pushAll e = h) : FifoStep s (s', e) := by
  intro h hi
  rw [he]
  exact ⟨by rw [hf]; exact hi.fast, by rw [hq]; exact hi.high, by rw [hq]; exact hi.normal,
    by rw [hq]; exact hi.lowPerm, by rw [hq]; exact hi.lowOrder, by rw [hq]; exact hi.cls⟩

theorem pushAll_kill (h : Hist) : h.pushAll killEvents = h := rfl

theorem FifoInv.congr {s s' : Irc} {h : Hist} (hi : FifoInv s h) (hf : s'.fast = s.fast)
    (hq : s'.queue = s.queue) : FifoInv s' h :=
  ⟨by rw [hf]; exact hi.fast, by rw [hq]; exact hi.high, by rw [hq]; exact hi.normal,
    by rw [hq]; exact hi.lowPerm, by rw [hq]; exact hi.lowOrder, by rw [hq]; exact hi.cls⟩

/-! ### enqueue -/

theorem enqueue_fifo {dup : Bool} {q q' : Queue} {m : Msg} (he : q.enqueue dup m = (q', true))
    {s : Irc} {h : Hist} (hi : FifoInv s h) (hs : s.queue = q) :
    FifoInv { s with queue := q' } (h.acc false m) := by
  subst hs
  unfold Queue.enqueue at he
  split at he
  · cases he
  · obtain ⟨c1, c2, c3⟩ := hi.cls
    split at he <;> rename_i hc <;> injection he with h1 _ <;> subst h1 <;>
      simp only [Hist.acc, hc, Bool.false_eq_true, if_false]
    · exact ⟨hi.fast, by simp [hi.high], hi.normal, hi.lowPerm, hi.lowOrder,
        ⟨by intro x hx; rcases mem_append.mp hx with hx | hx
            · exact c1 x hx
            · simp at hx; subst hx; exact hc, c2, c3⟩⟩
    · refine ⟨hi.fast, hi.high, hi.normal, ?_, ?_, ⟨c1, c2, ?_⟩⟩
      · have := hi.lowPerm
        rw [← append_assoc]
        exact this.append_right [m]
      · simp only [filter_append, hi.lowOrder, append_assoc]
      · intro x hx; rcases mem_append.mp hx with hx | hx
        · exact c3 x hx
        · simp at hx; subst hx; exact hc
    · exact ⟨hi.fast, hi.high, by simp [hi.normal], hi.lowPerm, hi.lowOrder,
        ⟨c1, by intro x hx; rcases mem_append.mp hx with hx | hx
                · exact c2 x hx
                · simp at hx; subst hx; exact hc, c3⟩⟩

theorem queueMsg_fifo (s : Irc) (m : Msg) : FifoStep s (queueMsg s m) := by
  unfold queueMsg
  split
  · split
    · rename_i q' he
      intro h hi
      exact enqueue_fifo he hi rfl
    · exact FifoStep.of_same rfl rfl (fun _ => rfl)
  · exact FifoStep.of_same rfl rfl (fun _ => rfl)

theorem sendMsg_fifo (s : Irc) (m : Msg) : FifoStep s (sendMsg s m) := by
  unfold sendMsg
  split
  · intro h hi
    exact ⟨by simp [Hist.pushAll, Hist.push, Hist.acc, hi.fast], hi.high, hi.normal, hi.lowPerm,
      hi.lowOrder, hi.cls⟩
  · exact FifoStep.of_same rfl rfl (fun _ => rfl)

/-! ### dequeue -/

theorem notJoin_of_ne {m : Msg} (h : ¬ m.cmd = Gen.rateLimitedCommand) : notJoin m = true := by
  simp [notJoin, h]

theorem notJoin_of_eq {m : Msg} (h : m.cmd = Gen.rateLimitedCommand) : notJoin m = false := by
  simp [notJoin, h]

theorem dequeue_msg_fifo {limit now : Nat} {q q' : Queue} {m : Msg}
    (hq : q.dequeue limit now = (q', .msg m)) {s s' : Irc} {h : Hist} (hi : FifoInv s h)
    (hs : s.queue = q) (hf' : s'.fast = s.fast) (hq' : s'.queue = q') :
    FifoInv s' (h.out false m) := by
  subst hs
  obtain ⟨c1, c2, c3⟩ := hi.cls
  unfold Queue.dequeue at hq
  split at hq
  · rename_i m' hs hh
    injection hq with h1 h2; injection h2 with h2; subst h1 h2
    have hc : classOf m'.cmd = .high := c1 m' (by rw [hh]; exact mem_cons_self)
    simp only [Hist.out, hc, Bool.false_eq_true, if_false]
    refine ⟨by rw [hf']; exact hi.fast, ?_, by rw [hq']; exact hi.normal, by rw [hq']; exact hi.lowPerm,
      by rw [hq']; exact hi.lowOrder, ?_⟩
    · rw [hq']; simp [hi.high, hh]
    · rw [hq']; exact ⟨fun x hx => c1 x (by rw [hh]; exact mem_cons_of_mem _ hx), c2, c3⟩
  · rename_i hh
    split at hq
    · rename_i m' ns hn
      injection hq with h1 h2; injection h2 with h2; subst h1 h2
      have hc : classOf m'.cmd = .normal := c2 m' (by rw [hn]; exact mem_cons_self)
      simp only [Hist.out, hc, Bool.false_eq_true, if_false]
      refine ⟨by rw [hf']; exact hi.fast, by rw [hq']; exact hi.high, ?_, by rw [hq']; exact hi.lowPerm,
        by rw [hq']; exact hi.lowOrder, ?_⟩
      · rw [hq']; simp [hi.normal, hn]
      · rw [hq']; exact ⟨c1, fun x hx => c2 x (by rw [hn]; exact mem_cons_of_mem _ hx), c3⟩
    · rename_i hn
      split at hq
      · injection hq with _ h2; cases h2
      · rename_i m' ls hl
        have hc : classOf m'.cmd = .low := c3 m' (by rw [hl]; exact mem_cons_self)
        have key : ∀ s'' : Irc, s''.fast = s.fast → s''.queue.high = s.queue.high →
            s''.queue.normal = s.queue.normal → s''.queue.low = ls →
            FifoInv s'' (h.out false m') := by
          intro s'' e1 e2 e3 e4
          simp only [Hist.out, hc, Bool.false_eq_true, if_false]
          refine ⟨by rw [e1]; exact hi.fast, by rw [e2]; exact hi.high, by rw [e3]; exact hi.normal,
            ?_, ?_, ⟨by rw [e2]; exact c1, by rw [e3]; exact c2, ?_⟩⟩
          · rw [e4]
            have := hi.lowPerm
            rw [hl] at this
            simpa using this
          · rw [e4]
            have := hi.lowOrder
            rw [hl] at this
            simp only [filter_append, this, append_assoc]
            simp [filter_cons]
            split <;> simp
          · rw [e4]; exact fun x hx => c3 x (by rw [hl]; exact mem_cons_of_mem _ hx)
        split at hq
        · split at hq
          · injection hq with h1 h2; injection h2 with h2; subst h1 h2
            exact key s' hf' (by rw [hq']) (by rw [hq']) (by rw [hq'])
          · injection hq with _ h2; cases h2
        · injection hq with h1 h2; injection h2 with h2; subst h1 h2
          exact key s' hf' (by rw [hq']) (by rw [hq']) (by rw [hq'])

theorem dequeue_rotated_fifo {limit now : Nat} {q q' : Queue} {m : Msg}
    (hq : q.dequeue limit now = (q', .rotated m)) {s s' : Irc} {h : Hist} (hi : FifoInv s h)
    (hs : s.queue = q) (hf' : s'.fast = s.fast) (hq' : s'.queue = q') :
    FifoInv s' h := by
  subst hs
  obtain ⟨c1, c2, c3⟩ := hi.cls
  unfold Queue.dequeue at hq
  split at hq
  · injection hq with _ h2; cases h2
  · split at hq
    · injection hq with _ h2; cases h2
    · split at hq
      · injection hq with _ h2; cases h2
      · rename_i m' ls hl
        split at hq
        · rename_i hj
          split at hq
          · injection hq with _ h2; cases h2
          · injection hq with h1 h2; injection h2 with h2; subst h1 h2
            refine ⟨by rw [hf']; exact hi.fast, by rw [hq']; exact hi.high,
              by rw [hq']; exact hi.normal, ?_, ?_, ?_⟩
            · rw [hq']
              have := hi.lowPerm
              rw [hl] at this
              refine this.trans ?_
              apply Perm.append_left
              simpa using (perm_append_singleton m' ls).symm
            · rw [hq']
              have := hi.lowOrder
              rw [hl] at this
              simp only [this, filter_append, filter_cons, notJoin_of_eq hj]
              simp
            · rw [hq']
              refine ⟨c1, c2, ?_⟩
              intro x hx
              apply c3 x
              rw [hl]
              rcases mem_append.mp hx with hx | hx
              · exact mem_cons_of_mem _ hx
              · simp at hx; subst hx; exact mem_cons_self
        · injection hq with _ h2; cases h2

/-! ### the rest of `takeMsg`, `reset` -/

theorem deliver_fq {s s1 : Irc} {m : Msg} {d : Delivery} (h : deliver s m = (s1, d)) :
    s1.fast = s.fast ∧ s1.queue = s.queue := by
  have a := deliver_fast s m; have b := deliver_queue s m
  rw [h] at a b; exact ⟨a, b⟩

theorem noMsg_fifo (s : Irc) : FifoStep s (noMsg s) := by
  unfold noMsg; split
  · exact FifoStep.of_same rfl rfl (fun _ => rfl)
  · exact FifoStep.refl s

theorem sendConnect_fifo (cs : List Content) : ∀ s : Irc, FifoStep s (sendConnect s cs) := by
  induction cs with
  | nil => intro s; exact FifoStep.refl s
  | cons c cs ih =>
    intro s
    unfold sendConnect
    dsimp only
    have h1 : FifoStep s (sendMsg { s with nextOid := s.nextOid + 1 } ⟨.int s.nextOid, c⟩) := by
      intro h hi
      exact sendMsg_fifo { s with nextOid := s.nextOid + 1 } ⟨.int s.nextOid, c⟩ h
        (hi.congr rfl rfl)
    exact FifoStep.trans h1 (ih _)

theorem queueConnectMessages_fifo (s : Irc) : FifoStep s (queueConnectMessages s) := by
  unfold queueConnectMessages
  split
  · exact FifoStep.of_same rfl rfl (fun _ => rfl)
  · exact sendConnect_fifo _ s

theorem blank_fifo (s : Irc) (hf : s.fast = []) (hq : s.queue = Queue.empty) :
    FifoInv s Hist.empty := by
  refine ⟨by simp [Hist.empty, hf], by simp [Hist.empty, hq, Queue.empty],
    by simp [Hist.empty, hq, Queue.empty], by simp [Hist.empty, hq, Queue.empty],
    by simp [Hist.empty, hq, Queue.empty], ?_⟩
  rw [hq]; exact ⟨by simp [Queue.empty], by simp [Queue.empty], by simp [Queue.empty]⟩

theorem reset_fifo (s : Irc) : FifoStep s (reset s) := by
  unfold reset
  dsimp only
  intro h _
  have h0 : (h.pushAll [Ev.discarded s.pending]) = Hist.empty := rfl
  have := queueConnectMessages_fifo
    { s with lastTake := 0, afterConnect := false, lastPing := s.now, outstandingPing := false,
             echoAcked := false, labelAcked := false, queue := Queue.empty, fast := [] } Hist.empty (blank_fifo _ rfl rfl)
  show FifoInv _ (h.pushAll ([Ev.discarded s.pending] ++ _))
  rw [Hist.pushAll_append, h0]
  exact this

theorem pingBranch_fifo (s : Irc) : FifoStep s (pingBranch s) := by
  unfold pingBranch
  split
  · split
    · dsimp only
      intro h hi
      exact reset_fifo s h hi
    · split
      · dsimp only
        intro h hi
        exact queueMsg_fifo _ _ h (hi.congr rfl rfl)
      · exact FifoStep.refl s
  · exact FifoStep.refl s

theorem fast_out_fifo {s s1 : Irc} {h : Hist} {m : Msg} {rest : List Msg} (hi : FifoInv s h)
    (hf : s.fast = m :: rest) (h1 : s1.fast = rest) (h2 : s1.queue = s.queue) :
    FifoInv s1 (h.out true m) := by
  refine ⟨?_, by rw [h2]; exact hi.high, by rw [h2]; exact hi.normal, by rw [h2]; exact hi.lowPerm,
    by rw [h2]; exact hi.lowOrder, by rw [h2]; exact hi.cls⟩
  simp [Hist.out, h1, hi.fast, hf]

theorem takeAux_fifo : ∀ (fuel : Nat) (s : Irc), FifoStep s (takeAux fuel s)
  | 0, s => FifoStep.refl s
  | fuel + 1, s => by
    unfold takeAux takeBody
    split
    · rename_i m rest hf
      split
      · rename_i s1 o hd
        obtain ⟨a, b⟩ := deliver_fq hd
        intro h hi; exact fast_out_fifo hi hf a b
      · rename_i s1 o hd
        obtain ⟨a, b⟩ := deliver_fq hd
        intro h hi; exact fast_out_fifo hi hf a b
      · rename_i s1 hd
        obtain ⟨a, b⟩ := deliver_fq hd
        intro h hi
        have := takeAux_fifo fuel s1 (h.out true m) (fast_out_fifo hi hf a b)
        exact this
    · rename_i hf
      split
      · split
        · dsimp only
          intro h hi
          exact noMsg_fifo s h hi
        · split
          · rename_i q' m hq
            split
            · rename_i s1 o hd
              obtain ⟨a, b⟩ := deliver_fq hd
              intro h hi; exact dequeue_msg_fifo hq hi rfl a b
            · rename_i s1 o hd
              obtain ⟨a, b⟩ := deliver_fq hd
              intro h hi; exact dequeue_msg_fifo hq hi rfl a b
            · rename_i s1 hd
              obtain ⟨a, b⟩ := deliver_fq hd
              intro h hi
              exact takeAux_fifo fuel s1 (h.out false m) (dequeue_msg_fifo hq hi rfl a b)
          · rename_i q' m hq
            dsimp only
            intro h hi
            have h1 : FifoInv { s with lastTake := s.now, queue := q' } h :=
              dequeue_rotated_fifo hq hi rfl rfl rfl
            exact noMsg_fifo _ h h1
          · rename_i q' hq
            have hc := dequeue_nothing_eq hq
            intro h hi
            exact noMsg_fifo _ h (hi.congr rfl hc)
      · dsimp only
        exact FifoStep.trans (pingBranch_fifo s) (noMsg_fifo _)

theorem step_fifo (s : Irc) (op : Op) : FifoStep s (step s op) := by
  cases op with
  | queue m => exact queueMsg_fifo s m
  | send m => exact sendMsg_fifo s m
  | take => exact takeAux_fifo _ s
  | die => unfold step die; dsimp only; split <;> exact FifoStep.of_same rfl rfl (fun _ => rfl)
  | reset => exact reset_fifo s
  | tick dt => exact FifoStep.of_same rfl rfl (fun _ => rfl)
  | connected => exact FifoStep.of_same rfl rfl (fun _ => rfl)
  | pong => exact FifoStep.of_same rfl rfl (fun _ => rfl)
  | capEcho b => exact FifoStep.of_same rfl rfl (fun _ => rfl)
  | capLabel b => exact FifoStep.of_same rfl rfl (fun _ => rfl)
  | config c => exact FifoStep.of_same rfl rfl (fun _ => rfl)

theorem run_fifo : ∀ (ops : List Op) (s : Irc), FifoStep s (run s ops)
  | [], s => FifoStep.refl s
  | op :: ops, s => by
    unfold run
    exact FifoStep.trans (step_fifo s op) (run_fifo ops _)

/-! ### the class invariant alone -/

theorem FifoInv.of_classInv (s : Irc) (hc : ClassInv s.queue) :
    FifoInv s ⟨s.fast, [], s.queue.high, [], s.queue.normal, [], s.queue.low, []⟩ :=
  ⟨by simp, by simp, by simp, by simp, by simp, hc⟩

theorem FifoStep.classInv {s : Irc} {r : Irc × List Ev} (h : FifoStep s r) (hc : ClassInv s.queue) :
    ClassInv r.1.queue := (h _ (FifoInv.of_classInv s hc)).cls

theorem dequeue_msg_classInv {limit now : Nat} {q q' : Queue} {m : Msg}
    (hq : q.dequeue limit now = (q', .msg m)) (hc : ClassInv q) : ClassInv q' := by
  let s : Irc := ⟨⟨0, 0, false, false, 0, [], []⟩, 0, q, [], 0, false, false, 0, false, false, false, [], 0⟩
  have := dequeue_msg_fifo (s := s) (s' := { s with queue := q' }) hq (FifoInv.of_classInv s hc) rfl rfl rfl
  exact this.cls

theorem dequeue_rotated_classInv {limit now : Nat} {q q' : Queue} {m : Msg}
    (hq : q.dequeue limit now = (q', .rotated m)) (hc : ClassInv q) : ClassInv q' := by
  let s : Irc := ⟨⟨0, 0, false, false, 0, [], []⟩, 0, q, [], 0, false, false, 0, false, false, false, [], 0⟩
  have := dequeue_rotated_fifo (s := s) (s' := { s with queue := q' }) hq (FifoInv.of_classInv s hc) rfl rfl rfl
  exact this.cls

end C19
