/-
C19 — model of the outgoing side of `irclib.Irc`:
`IrcMsgQueue.enqueue/dequeue/reset/__contains__` (src/irclib.py:216-296),
`Irc.queueMsg/sendMsg/takeMsg/die/reset/_queueConnectMessages/_reallyDie`
(src/irclib.py:1221-1234, 1257-1327, 1422-1468, 1526-1535), `smallqueue` (src/utils/structures.py:291-306).

Time is a `Nat` (the harness drives `time.time` with an integer-valued virtual clock).
A Python message object is `Msg`: an object identity (`oid`, never seen by `==`) and its content.
The `outFilter` chain is a list of arbitrary functions (a filter that raises is, through the
`IrcCallback` firewall, the identity).  The driver is a stub whose `reconnect()` calls `irc.reset()`
exactly as `drivers.Socket.SocketDriver.reconnect(reset=True)` does.
Everything a step does that the property talks about is emitted as an event (`Ev`).
-/
import LimnoriaModel.Py.Basic
import LimnoriaModel.Gen.IrcQueue
namespace C19
open Py

/-! ### messages -/

/-- what `IrcMsg.__eq__` compares: prefix, command, args and the server tags (a dict: the harness
hands it over sorted by key, so list equality is dict equality) -/
structure Content where
  pfx : Str
  cmd : Str
  args : List Str
  tags : List (Str × Option Str) := []
deriving DecidableEq, Repr

/-- object identity: created by the caller (`ext`) or inside the bot (`int`: ping, connect
messages, messages built by a rewriting filter) -/
inductive Oid where
  | ext (n : Nat)
  | int (n : Nat)
deriving DecidableEq, Repr

structure Msg where
  oid : Oid
  c : Content
deriving DecidableEq, Repr

abbrev Msg.cmd (m : Msg) : Str := m.c.cmd

/-- one `outFilter`: gets a fresh object number it may use for a message it builds;
`none` = the filter returned `None` -/
abbrev Filter := Nat → Msg → Option Msg

/-! ### priority classes (`_high`, `_low` are extracted from the source) -/

inductive Cls where
  | high | normal | low
deriving DecidableEq, Repr

def Cls.rank : Cls → Nat
  | .high => 0
  | .normal => 1
  | .low => 2

/-- `if msg.command in _high … elif msg.command in _low … else` -/
def classOf (cmd : Str) : Cls :=
  if cmd ∈ Gen.highPriority then .high
  else if cmd ∈ Gen.lowPriority then .low
  else .normal

/-! ### IrcMsgQueue -/

structure Queue where
  high : List Msg
  normal : List Msg
  low : List Msg
  lastJoin : Nat
deriving DecidableEq, Repr

def Queue.empty : Queue := ⟨[], [], [], 0⟩

/-- `chain(highpriority, normal, lowpriority)` -/
def Queue.all (q : Queue) : List Msg := q.high ++ q.normal ++ q.low

/-- `bool(queue)` is false -/
def Queue.isEmpty (q : Queue) : Bool := q.high.isEmpty && q.normal.isEmpty && q.low.isEmpty

def sameContent (m x : Msg) : Bool := x.c = m.c

/-- `msg in self` (`==` on messages: content only) -/
def Queue.contains (q : Queue) (m : Msg) : Bool :=
  q.normal.any (sameContent m) || q.low.any (sameContent m) || q.high.any (sameContent m)

/-- `enqueue`; the Bool is its return value (`dup` = `queuing.duplicates()`) -/
def Queue.enqueue (dup : Bool) (q : Queue) (m : Msg) : Queue × Bool :=
  if q.contains m && dup then (q, false)
  else
    match classOf m.cmd with
    | .high => ({ q with high := q.high ++ [m] }, true)
    | .low => ({ q with low := q.low ++ [m] }, true)
    | .normal => ({ q with normal := q.normal ++ [m] }, true)

inductive Deq where
  | msg (m : Msg)        -- returned
  | rotated (m : Msg)    -- a rate-limited JOIN was moved to the back, `None` returned
  | nothing              -- the queue was empty
deriving DecidableEq, Repr

/-- `dequeue` (`limit` = `queuing.rateLimit.join()`, `now` = `time.time()`) -/
def Queue.dequeue (limit now : Nat) (q : Queue) : Queue × Deq :=
  match q.high with
  | m :: hs => ({ q with high := hs }, .msg m)
  | [] =>
    match q.normal with
    | m :: ns => ({ q with normal := ns }, .msg m)
    | [] =>
      match q.low with
      | [] => (q, .nothing)
      | m :: ls =>
        if m.cmd = Gen.rateLimitedCommand then
          if q.lastJoin + limit ≤ now then ({ q with low := ls, lastJoin := now }, .msg m)
          else ({ q with low := ls ++ [m] }, .rotated m)
        else ({ q with low := ls }, .msg m)

/-! ### configuration and state of `Irc` -/

structure Cfg where
  throttle : Nat            -- protocols.irc.throttleTime
  joinLimit : Nat           -- protocols.irc.queuing.rateLimit.join
  dupRefuse : Bool          -- protocols.irc.queuing.duplicates
  pingOn : Bool             -- protocols.irc.ping
  pingInterval : Nat        -- protocols.irc.ping.interval
  connectMsgs : List Content  -- what `_queueConnectMessages` sends (CAP LS, [PASS], NICK, USER)
  filters : List Filter     -- the `outFilter`s in the order they are applied (`reversed(callbacks)`)

structure Irc where
  cfg : Cfg
  now : Nat
  queue : Queue
  fast : List Msg
  lastTake : Nat
  zombie : Bool
  afterConnect : Bool
  lastPing : Nat
  outstandingPing : Bool
  echoAcked : Bool          -- 'echo-message' in state.capabilities_ack
  labelAcked : Bool := false  -- 'labeled-response' in state.capabilities_ack
  echoed : List Oid         -- objects carrying the `emulatedEcho` tag: the echo copies fed back
  nextOid : Nat             -- supply of identities for objects created inside the bot

/-- messages waiting in either queue -/
def Irc.pending (s : Irc) : List Msg := s.fast ++ s.queue.all

inductive Ev where
  | accepted (fast : Bool) (m : Msg)            -- enqueued (queueMsg → True / sendMsg / internal)
  | refused (fast : Bool) (m : Msg)             -- queueMsg → False / sendMsg ignored
  | took (fast : Bool) (src out : Msg) (t : Nat)  -- `takeMsg` returned `out` (filtered `src`)
  | dropped (fast : Bool) (src : Msg) (t : Nat)   -- an outFilter returned None
  | lost (fast : Bool) (src out : Msg) (t : Nat)  -- echo-emulation assert failed; the firewall swallowed it
  | rotated (m : Msg) (t : Nat)                 -- rate-limited JOIN moved to the back
  | throttled (t : Nat)
  | discarded (ms : List Msg)                   -- `reset()` cleared the queues
  | config (throttle joinLimit : Nat)           -- the rates in force from here on
  | driverDie
  | driverReconnect
deriving DecidableEq, Repr

/-! ### queueMsg / sendMsg -/

def queueMsg (s : Irc) (m : Msg) : Irc × List Ev :=
  if !s.zombie then
    match s.queue.enqueue s.cfg.dupRefuse m with
    | (q', true) => ({ s with queue := q' }, [.accepted false m])
    | (_, false) => (s, [.refused false m])
  else (s, [.refused false m])

def sendMsg (s : Irc) (m : Msg) : Irc × List Ev :=
  if !s.zombie then ({ s with fast := s.fast ++ [m] }, [.accepted true m])
  else (s, [.refused true m])

/-! ### die / reset -/

/-- `driver.die(); self._reallyDie()` (the latter calls `driver.die()` again) -/
def killEvents : List Ev := [.driverDie, .driverDie]

/-- `Irc.die()` -/
def die (s : Irc) : Irc × List Ev :=
  let s1 := { s with zombie := true }
  if !s.afterConnect then (s1, [.driverDie]) else (s1, [])

/-- the `sendMsg`s of `_queueConnectMessages` -/
def sendConnect : Irc → List Content → Irc × List Ev
  | s, [] => (s, [])
  | s, c :: cs =>
    let m : Msg := ⟨.int s.nextOid, c⟩
    let r := sendMsg { s with nextOid := s.nextOid + 1 } m
    let r2 := sendConnect r.1 cs
    (r2.1, r.2 ++ r2.2)

/-- `_queueConnectMessages` -/
def queueConnectMessages (s : Irc) : Irc × List Ev :=
  if s.zombie then (s, killEvents) else sendConnect s s.cfg.connectMsgs

/-- `Irc.reset()` -/
def reset (s : Irc) : Irc × List Ev :=
  let s1 := { s with lastTake := 0, afterConnect := false, lastPing := s.now,
                     outstandingPing := false, echoAcked := false, labelAcked := false,
                     queue := Queue.empty, fast := [] }
  let r := queueConnectMessages s1
  (r.1, .discarded s.pending :: r.2)

/-! ### takeMsg -/

/-- the `for callback in reversed(self.callbacks): msg = callback.outFilter(self, msg)` loop;
`none` as soon as one filter returns `None` -/
def runFilters : List Filter → Nat → Msg → Option Msg × Nat
  | [], n, m => (some m, n)
  | f :: fs, n, m =>
    match f n m with
    | none => (none, n + 1)
    | some m' => runFilters fs (n + 1) m'

def upper (s : Str) : Str := s.map asciiUpperChar

/-! ### the labeled-response label

`if not world.testing and 'label' not in msg.server_tags and 'labeled-response' in
self.state.capabilities_ack: msg.server_tags['label'] = ircutils.makeLabel()` — done on the message
object itself, before the outFilters see it.  It is the first link of the filter chain: same object,
one more server tag (which `==` compares).  `makeLabel()` draws a random string; the model uses the
fresh number every link of the chain is given, so labels are pairwise distinct here as well. -/

def labelKey : Str := ['l', 'a', 'b', 'e', 'l']

def hasLabel (c : Content) : Bool := c.tags.any (fun kv => kv.1 = labelKey)

/-- `<` of Python strings (code points, lexicographic): the harness hands the tag dict over sorted by key -/
def strLt : Str → Str → Bool
  | [], [] => false
  | [], _ :: _ => true
  | _ :: _, [] => false
  | a :: as, b :: bs => if a.toNat < b.toNat then true else if b.toNat < a.toNat then false else strLt as bs

def insertTag (k : Str) (v : Option Str) : List (Str × Option Str) → List (Str × Option Str)
  | [] => [(k, v)]
  | kv :: r => if strLt k kv.1 then (k, v) :: kv :: r else kv :: insertTag k v r

/-- `str(int(now))` -/
def decAux : Nat → Nat → Str → Str
  | 0, _, acc => acc
  | fuel + 1, n, acc =>
    let acc' := Char.ofNat (48 + n % 10) :: acc
    if n / 10 = 0 then acc' else decAux fuel (n / 10) acc'

def natDec (n : Nat) : Str := decAux (n + 1) n []

/-- the label step as a link of the chain -/
def labelFilter : Filter := fun n m =>
  some (if hasLabel m.c then m
        else ⟨m.oid, { m.c with tags := insertTag labelKey (some (['a', 'u', 't', 'o'] ++ natDec n)) m.c.tags }⟩)

/-- what a dequeued message goes through: the label step (when negotiated), then the outFilters -/
def Irc.chain (s : Irc) : List Filter :=
  if s.labelAcked then labelFilter :: s.cfg.filters else s.cfg.filters

/-- `msg.command.upper() in ('PRIVMSG', 'NOTICE', 'TAGMSG')` -/
def isEchoCmd (cmd : Str) : Bool := upper cmd ∈ Gen.echoCommands

/-- the tail of `takeMsg` when no message is to be returned:
`elif self.zombie and not self.queue and not self.fastqueue: driver.die(); _reallyDie()` -/
def noMsg (s : Irc) : Irc × List Ev :=
  if s.zombie && s.queue.isEmpty && s.fast.isEmpty then (s, killEvents) else (s, [])

/-- the ping branch of `takeMsg` (both queues are empty here) -/
def pingBranch (s : Irc) : Irc × List Ev :=
  if s.afterConnect && s.cfg.pingOn && decide (s.lastPing + s.cfg.pingInterval < s.now) then
    if s.outstandingPing then
      -- feedMsg(error 'Ping sent at … not replied to.'); driver.reconnect()  (→ irc.reset())
      let r := reset s
      (r.1, .driverReconnect :: r.2)
    else if !s.zombie then
      let m : Msg := ⟨.int s.nextOid, ⟨[], ['P', 'I', 'N', 'G'], [natDec s.now], []⟩⟩
      queueMsg { s with lastPing := s.now, outstandingPing := true, nextOid := s.nextOid + 1 } m
    else (s, [])
  else (s, [])

inductive Delivery where
  | out (m : Msg)       -- handed to the driver
  | dropped             -- a filter returned None: `return self.takeMsg()`
  | lost (m : Msg)      -- AssertionError in the echo emulation (firewall → None)
deriving DecidableEq, Repr

/-- the `if msg:` block of `takeMsg` for the dequeued message `m`.  Since the repair the emulated
echo is a tagged *copy* (a new object) of the outgoing message; the assertion still refuses a
message that itself carries the tag (an echo copy some plugin sends back). -/
def deliver (s : Irc) (m : Msg) : Irc × Delivery :=
  match runFilters s.chain s.nextOid m with
  | (none, n) => ({ s with nextOid := n }, .dropped)
  | (some out, n) =>
    let s1 := { s with nextOid := n }
    if isEchoCmd out.cmd && !s.echoAcked then
      if out.oid ∈ s.echoed then (s1, .lost out)       -- assert not msg.tagged('emulatedEcho')
      else ({ s1 with echoed := .int n :: s.echoed, nextOid := n + 1 }, .out out)
    else (s1, .out out)

/-- one round of `takeMsg` (`_takeMsg`); `again` stands for the next round of the loop, made after an
outFilter returned `None` (a recursive call `return self.takeMsg()` before the repair: a long run of
dropped messages hit Python's recursion limit and a message no filter dropped was lost) -/
def takeBody (again : Irc → Irc × List Ev) (s : Irc) : Irc × List Ev :=
  match s.fast with
  | m :: rest =>
    match deliver { s with fast := rest } m with
    | (s1, .out o) => (s1, [.took true m o s.now])
    | (s1, .lost o) => (s1, [.lost true m o s.now])
    | (s1, .dropped) =>
      let r := again s1
      (r.1, .dropped true m s.now :: r.2)
  | [] =>
    if !s.queue.isEmpty then
      if s.now ≤ s.lastTake + s.cfg.throttle then
        let r := noMsg s
        (r.1, .throttled s.now :: r.2)
      else
        match s.queue.dequeue s.cfg.joinLimit s.now with
        | (q', .msg m) =>
          match deliver { s with lastTake := s.now, queue := q' } m with
          | (s1, .out o) => (s1, [.took false m o s.now])
          | (s1, .lost o) => (s1, [.lost false m o s.now])
          | (s1, .dropped) =>
            let r := again s1
            (r.1, .dropped false m s.now :: r.2)
        | (q', .rotated m) =>
          let r := noMsg { s with lastTake := s.now, queue := q' }
          (r.1, .rotated m s.now :: r.2)
        | (q', .nothing) => noMsg { s with lastTake := s.now, queue := q' }
    else
      let r := pingBranch s
      let r2 := noMsg r.1
      (r2.1, r.2 ++ r2.2)

/-- the loop of `takeMsg`, the first argument being the number of rounds left
(`for _ in range(len(self.fastqueue) + len(self.queue) + 1)`; every further round happens after one
message was removed from a queue, so the bound is never reached with filters that queue nothing:
`takeAux_fuel` in the lemmas) -/
def takeAux : Nat → Irc → Irc × List Ev
  | 0, s => (s, [])
  | fuel + 1, s => takeBody (takeAux fuel) s

/-- `Irc.takeMsg()` -/
def takeMsg (s : Irc) : Irc × List Ev := takeAux (s.pending.length + 1) s

/-! ### operations and runs -/

inductive Op where
  | queue (m : Msg)
  | send (m : Msg)
  | take
  | die
  | reset
  | tick (dt : Nat)
  | connected            -- end of MOTD: `afterConnect = True`
  | pong                 -- a PONG arrived: `outstandingPing = False`
  | capEcho (b : Bool)   -- the server (un)acknowledged `echo-message`
  | capLabel (b : Bool)  -- the server (un)acknowledged `labeled-response`
  | config (c : Cfg)

def step (s : Irc) : Op → Irc × List Ev
  | .queue m => queueMsg s m
  | .send m => sendMsg s m
  | .take => takeMsg s
  | .die => die s
  | .reset => reset s
  | .tick dt => ({ s with now := s.now + dt }, [])
  | .connected => ({ s with afterConnect := true }, [])
  | .pong => ({ s with outstandingPing := false }, [])
  | .capEcho b => ({ s with echoAcked := b }, [])
  | .capLabel b => ({ s with labelAcked := b }, [])
  | .config c => ({ s with cfg := c }, [.config c.throttle c.joinLimit])

def run : Irc → List Op → Irc × List Ev
  | s, [] => (s, [])
  | s, op :: ops =>
    let r := step s op
    let r2 := run r.1 ops
    (r2.1, r.2 ++ r2.2)

/-- the state `Irc.__init__` builds before `_queueConnectMessages` -/
def blank (c : Cfg) (now : Nat) : Irc :=
  { cfg := c, now := now, queue := Queue.empty, fast := [], lastTake := 0, zombie := false,
    afterConnect := false, lastPing := now, outstandingPing := false, echoAcked := false,
    labelAcked := false, echoed := [], nextOid := 0 }

/-- `Irc(network)`: the connect messages are already in the fast queue -/
def init (c : Cfg) (now : Nat) : Irc × List Ev :=
  let r := queueConnectMessages (blank c now)
  (r.1, .config c.throttle c.joinLimit :: r.2)

/-- a whole life: construction, then the operations -/
def life (c : Cfg) (now : Nat) (ops : List Op) : Irc × List Ev :=
  let r := init c now
  let r2 := run r.1 ops
  (r2.1, r.2 ++ r2.2)

end C19
