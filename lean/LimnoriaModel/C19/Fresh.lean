/-
C19 — if no message object is handed to the bot twice and the filters only return the object they
got or a newly built one, no message is ever lost to the echo-emulation assertion (helper lemmas).
-/
import LimnoriaModel.C19.Live
namespace C19
open Py List

/-- a filter returns the object it was given or one it has just built -/
def FilterOk (f : Filter) : Prop := ∀ n m m', f n m = some m' → m'.oid = m.oid ∨ m'.oid = .int n

def oids (l : List Msg) : List Oid := l.map (·.oid)

/-- `.int k` with `k ≥ n` does not occur -/
def IntBelow (n : Nat) (l : List Oid) : Prop := ∀ k, Oid.int k ∈ l → k < n

/-- waiting objects are pairwise distinct, none of them carries the echo tag, and the identities
made inside the bot so far are below `nextOid` -/
structure FreshInv (s : Irc) : Prop where
  nodup : (oids s.pending).Nodup
  untagged : ∀ o ∈ oids s.pending, o ∉ s.echoed
  intPending : IntBelow s.nextOid (oids s.pending)
  intEchoed : IntBelow s.nextOid s.echoed
  filters : ∀ f ∈ s.cfg.filters, FilterOk f

theorem runFilters_oid : ∀ (fs : List Filter) (n : Nat) (m out : Msg) (n' : Nat),
    (∀ f ∈ fs, FilterOk f) → runFilters fs n m = (some out, n') →
    n ≤ n' ∧ (out.oid = m.oid ∨ ∃ k, out.oid = .int k ∧ n ≤ k ∧ k < n')
  | [], n, m, out, n', _, h => by
    simp only [runFilters] at h
    injection h with h1 h2; injection h1 with h1; subst h1 h2
    exact ⟨Nat.le_refl _, Or.inl rfl⟩
  | f :: fs, n, m, out, n', hok, h => by
    simp only [runFilters] at h
    split at h
    · injection h with h1 _; cases h1
    · rename_i m1 hf
      have ih := runFilters_oid fs (n + 1) m1 out n' (fun g hg => hok g (mem_cons_of_mem _ hg)) h
      have h1 := hok f mem_cons_self n m m1 hf
      refine ⟨by omega, ?_⟩
      rcases ih.2 with h2 | ⟨k, h2, h3, h4⟩
      · rcases h1 with h1 | h1
        · exact Or.inl (h2.trans h1)
        · exact Or.inr ⟨n, h2.trans h1, Nat.le_refl _, by omega⟩
      · exact Or.inr ⟨k, h2, by omega, h4⟩

theorem runFilters_mono : ∀ (fs : List Filter) (n : Nat) (m : Msg), n ≤ (runFilters fs n m).2
  | [], n, m => Nat.le_refl _
  | f :: fs, n, m => by
    simp only [runFilters]
    split
    · exact Nat.le_succ _
    · exact Nat.le_trans (Nat.le_succ _) (runFilters_mono fs (n + 1) _)

/-- the state just after `m` was taken out of a queue -/
structure PreInv (s : Irc) (m : Msg) (used : List Nat) : Prop where
  nodup : (oids (m :: s.pending)).Nodup
  untagged : ∀ o ∈ oids (m :: s.pending), o ∉ s.echoed
  intPending : IntBelow s.nextOid (oids (m :: s.pending))
  intEchoed : IntBelow s.nextOid s.echoed
  filters : ∀ f ∈ s.cfg.filters, FilterOk f
  extUsed : ∀ k, (Oid.ext k ∈ oids (m :: s.pending) ∨ Oid.ext k ∈ s.echoed) → k ∈ used

structure FreshInv' (s : Irc) (used : List Nat) : Prop extends FreshInv s where
  extUsed : ∀ k, (Oid.ext k ∈ oids s.pending ∨ Oid.ext k ∈ s.echoed) → k ∈ used

theorem deliver_fresh {s s1 : Irc} {m : Msg} {d : Delivery} {used : List Nat} (hp : PreInv s m used)
    (h : deliver s m = (s1, d)) : (∀ o, d ≠ .lost o) ∧ FreshInv' s1 used := by
  have hpend : ∀ x, x ∈ oids s.pending → x ∈ oids (m :: s.pending) := by
    intro x hx; simp only [oids, map_cons, mem_cons]; exact Or.inr hx
  have hnd : (oids s.pending).Nodup := by
    have := hp.nodup; simp only [oids, map_cons, nodup_cons] at this; exact this.2
  unfold deliver at h
  split at h
  · rename_i n hr
    injection h with h1 h2; subst h1 h2
    have hmono := runFilters_mono s.cfg.filters s.nextOid m
    rw [hr] at hmono
    refine ⟨(by intro o h; cases h), ⟨⟨hnd, fun o ho => hp.untagged o (hpend o ho), ?_, ?_, hp.filters⟩, ?_⟩⟩
    · intro k hk; exact Nat.lt_of_lt_of_le (hp.intPending k (hpend _ hk)) hmono
    · intro k hk; exact Nat.lt_of_lt_of_le (hp.intEchoed k hk) hmono
    · intro k hk; exact hp.extUsed k (hk.imp (hpend _) id)
  · rename_i out n hr
    obtain ⟨hmono, hoid⟩ := runFilters_oid s.cfg.filters s.nextOid m out n hp.filters hr
    -- the outgoing object is not tagged
    have hnot : out.oid ∉ s.echoed := by
      rcases hoid with h1 | ⟨k, h1, h2, _⟩
      · rw [h1]; exact hp.untagged _ (by simp [oids])
      · rw [h1]; intro hk; have := hp.intEchoed k hk; omega
    have hother : ∀ o ∈ oids s.pending, o ≠ out.oid := by
      intro o ho he
      rcases hoid with h1 | ⟨k, h1, h2, _⟩
      · have := hp.nodup
        simp only [oids, map_cons, nodup_cons] at this
        exact this.1 (by rw [← h1, ← he]; exact ho)
      · have := hp.intPending k (by rw [← h1, ← he]; exact hpend o ho)
        omega
    have hint : ∀ k, out.oid = Oid.int k → k < n := by
      intro k hk
      rcases hoid with h1 | ⟨k', h1, _, h3⟩
      · have := hp.intPending k (by rw [← hk, h1]; simp [oids]); omega
      · rw [h1] at hk; injection hk with hk; omega
    have hext : ∀ k, out.oid = Oid.ext k → k ∈ used := by
      intro k hk
      rcases hoid with h1 | ⟨k', h1, _, _⟩
      · exact hp.extUsed k (Or.inl (by rw [← hk, h1]; simp [oids]))
      · rw [h1] at hk; cases hk
    have base : FreshInv' { s with nextOid := n } used :=
      ⟨⟨hnd, fun o ho => hp.untagged o (hpend o ho),
        fun k hk => Nat.lt_of_lt_of_le (hp.intPending k (hpend _ hk)) hmono,
        fun k hk => Nat.lt_of_lt_of_le (hp.intEchoed k hk) hmono, hp.filters⟩,
       fun k hk => hp.extUsed k (hk.imp (hpend _) id)⟩
    dsimp only at h
    split at h
    · injection h with h1 h2; subst h1 h2
      refine ⟨(by intro o h; cases h), ⟨⟨hnd, ?_, base.intPending, ?_, hp.filters⟩, ?_⟩⟩
      · intro o ho hm
        rcases mem_cons.mp hm with hm | hm
        · exact hother o ho hm
        · exact hp.untagged o (hpend o ho) hm
      · intro k hk
        rcases mem_cons.mp hk with hk | hk
        · exact hint k hk.symm
        · exact base.intEchoed k hk
      · intro k hk
        rcases hk with hk | hk
        · exact base.extUsed k (Or.inl hk)
        · rcases mem_cons.mp hk with hk | hk
          · exact hext k hk.symm
          · exact base.extUsed k (Or.inr hk)
    · injection h with h1 h2; subst h1 h2
      exact ⟨(by intro o h; cases h), base⟩

/-! ### the queue operations as permutations -/

theorem dequeue_msg_perm {limit now : Nat} {q q' : Queue} {m : Msg}
    (h : q.dequeue limit now = (q', .msg m)) : q.all.Perm (m :: q'.all) := by
  rw [perm_iff_count]; intro x
  have := dequeue_msg_count h x
  simp only [count_cons_one]; omega

theorem dequeue_rotated_perm {limit now : Nat} {q q' : Queue} {m : Msg}
    (h : q.dequeue limit now = (q', .rotated m)) : q'.all.Perm q.all := by
  rw [perm_iff_count]; intro x
  exact dequeue_rotated_count h x

theorem oids_perm {l1 l2 : List Msg} (h : l1.Perm l2) : (oids l1).Perm (oids l2) := h.map _

theorem oids_cons (m : Msg) (l : List Msg) : oids (m :: l) = m.oid :: oids l := rfl

theorem FreshInv'.of_perm {s s' : Irc} {used : List Nat} (h : FreshInv' s used)
    (hp : s'.pending.Perm s.pending) (he : s'.echoed = s.echoed) (hn : s.nextOid ≤ s'.nextOid)
    (hf : s'.cfg = s.cfg) : FreshInv' s' used := by
  have hm : ∀ o, o ∈ oids s'.pending ↔ o ∈ oids s.pending := fun o => (oids_perm hp).mem_iff
  refine ⟨⟨((oids_perm hp).nodup_iff).mpr h.nodup, ?_, ?_, ?_, by rw [hf]; exact h.filters⟩, ?_⟩
  · intro o ho; rw [he]; exact h.untagged o ((hm o).mp ho)
  · intro k hk; exact Nat.lt_of_lt_of_le (h.intPending k ((hm _).mp hk)) hn
  · intro k hk; rw [he] at hk; exact Nat.lt_of_lt_of_le (h.intEchoed k hk) hn
  · intro k hk; rw [he, hm] at hk; exact h.extUsed k hk

theorem PreInv.of_perm {s s0 : Irc} {m : Msg} {used : List Nat} (h : FreshInv' s0 used)
    (hp : (m :: s.pending).Perm s0.pending) (he : s.echoed = s0.echoed) (hn : s.nextOid = s0.nextOid)
    (hf : s.cfg = s0.cfg) : PreInv s m used := by
  have hm : ∀ o, o ∈ oids (m :: s.pending) ↔ o ∈ oids s0.pending := fun o => (oids_perm hp).mem_iff
  refine ⟨((oids_perm hp).nodup_iff).mpr h.nodup, ?_, ?_, ?_, by rw [hf]; exact h.filters, ?_⟩
  · intro o ho; rw [he]; exact h.untagged o ((hm o).mp ho)
  · intro k hk; rw [hn]; exact h.intPending k ((hm _).mp hk)
  · intro k hk; rw [he] at hk; rw [hn]; exact h.intEchoed k hk
  · intro k hk; rw [he, hm] at hk; exact h.extUsed k hk

/-- no `lost` event -/
def Ev.notLost : Ev → Bool
  | .lost _ _ _ _ => false
  | _ => true

/-- adding an object made inside the bot (identity `nextOid`) -/
theorem FreshInv'.add_int {s : Irc} {used : List Nat} (h : FreshInv' s used) (c : Content) (s' : Irc)
    (hp : s'.pending.Perm (⟨.int s.nextOid, c⟩ :: s.pending)) (he : s'.echoed = s.echoed)
    (hn : s'.nextOid = s.nextOid + 1) (hf : s'.cfg = s.cfg) : FreshInv' s' used := by
  have hm : ∀ o, o ∈ oids s'.pending ↔ (o = .int s.nextOid ∨ o ∈ oids s.pending) := by
    intro o
    rw [(oids_perm hp).mem_iff, oids_cons]
    simp
  have hnew : Oid.int s.nextOid ∉ oids s.pending := fun hk => Nat.lt_irrefl _ (h.intPending _ hk)
  refine ⟨⟨?_, ?_, ?_, ?_, by rw [hf]; exact h.filters⟩, ?_⟩
  · rw [(oids_perm hp).nodup_iff, oids_cons]
    exact nodup_cons.mpr ⟨hnew, h.nodup⟩
  · intro o ho; rw [he]
    rcases (hm o).mp ho with ho | ho
    · subst ho; intro hk; exact Nat.lt_irrefl _ (h.intEchoed _ hk)
    · exact h.untagged o ho
  · intro k hk; rw [hn]
    rcases (hm _).mp hk with hk | hk
    · injection hk with hk; omega
    · have := h.intPending k hk; omega
  · intro k hk; rw [he] at hk; rw [hn]; have := h.intEchoed k hk; omega
  · intro k hk
    rw [he] at hk
    rcases hk with hk | hk
    · rcases (hm _).mp hk with hk | hk
      · cases hk
      · exact h.extUsed k (Or.inl hk)
    · exact h.extUsed k (Or.inr hk)

/-! ### every step keeps the invariant and loses nothing -/

def FreshStep (s : Irc) (r : Irc × List Ev) (used : List Nat) : Prop :=
  FreshInv' s used → FreshInv' r.1 used ∧ ∀ e ∈ r.2, e.notLost = true

theorem enqueue_true_perm {dup : Bool} {q q' : Queue} {m : Msg} (h : q.enqueue dup m = (q', true)) :
    q'.all.Perm (m :: q.all) := by
  rw [perm_iff_count]; intro x
  have := enqueue_true_count h x
  simp only [count_cons_one]; omega

theorem queueMsg_int_fresh (s : Irc) (c : Content) (used : List Nat) (s0 : Irc)
    (h0 : s0.pending = s.pending) (he : s0.echoed = s.echoed) (hn : s0.nextOid = s.nextOid + 1)
    (hf : s0.cfg = s.cfg) (hi : FreshInv' s used) :
    FreshInv' (queueMsg s0 ⟨.int s.nextOid, c⟩).1 used ∧
    ∀ e ∈ (queueMsg s0 ⟨.int s.nextOid, c⟩).2, e.notLost = true := by
  unfold queueMsg
  split
  · split
    · rename_i q' hq
      refine ⟨hi.add_int c _ ?_ he hn hf, by intro e h; simp at h; subst h; rfl⟩
      have := enqueue_true_perm hq
      show (s0.fast ++ q'.all).Perm (_ :: s.pending)
      rw [← h0]
      refine (Perm.append_left _ this).trans ?_
      exact perm_middle
    · exact ⟨hi.of_perm (by rw [h0]) he (by show s.nextOid ≤ s0.nextOid; omega) hf,
        by intro e h; simp at h; subst h; rfl⟩
  · exact ⟨hi.of_perm (by rw [h0]) he (by show s.nextOid ≤ s0.nextOid; omega) hf,
      by intro e h; simp at h; subst h; rfl⟩

theorem sendConnect_fresh (cs : List Content) : ∀ (s : Irc) (used : List Nat),
    FreshStep s (sendConnect s cs) used := by
  induction cs with
  | nil => intro s used hi; exact ⟨hi, by intro e h; cases h⟩
  | cons c cs ih =>
    intro s used hi
    unfold sendConnect
    dsimp only
    have h1 : FreshInv' (sendMsg { s with nextOid := s.nextOid + 1 } ⟨.int s.nextOid, c⟩).1 used ∧
        ∀ e ∈ (sendMsg { s with nextOid := s.nextOid + 1 } ⟨.int s.nextOid, c⟩).2, e.notLost = true := by
      unfold sendMsg
      split
      · refine ⟨hi.add_int c _ ?_ rfl rfl rfl, by intro e h; simp at h; subst h; rfl⟩
        show ((s.fast ++ [_]) ++ s.queue.all).Perm (_ :: (s.fast ++ s.queue.all))
        simp only [append_assoc, singleton_append]
        exact perm_middle
      · exact ⟨hi.of_perm (Perm.refl _) rfl (Nat.le_succ _) rfl, by intro e h; simp at h; subst h; rfl⟩
    obtain ⟨h2, h3⟩ := ih _ used h1.1
    refine ⟨h2, ?_⟩
    intro e he
    rcases mem_append.mp he with he | he
    · exact h1.2 e he
    · exact h3 e he

/-- the state `reset()` builds before `_queueConnectMessages` -/
def cleared (s : Irc) : Irc :=
  { s with lastTake := 0, afterConnect := false, lastPing := s.now, outstandingPing := false,
           echoAcked := false, queue := Queue.empty, fast := [] }

theorem reset_fresh (s : Irc) (used : List Nat) : FreshStep s (reset s) used := by
  intro hi
  unfold reset queueConnectMessages
  dsimp only
  have hp0 : (cleared s).pending = [] := rfl
  have hclear : FreshInv' (cleared s) used := by
    refine ⟨⟨?_, ?_, ?_, hi.intEchoed, hi.filters⟩, ?_⟩
    · rw [hp0]; exact nodup_nil
    · intro o ho; rw [hp0] at ho; cases ho
    · intro k hk; rw [hp0] at hk; cases hk
    · intro k hk
      rcases hk with hk | hk
      · rw [hp0] at hk; cases hk
      · exact hi.extUsed k (Or.inr hk)
  show FreshInv' (if (cleared s).zombie = true then (cleared s, killEvents)
      else sendConnect (cleared s) (cleared s).cfg.connectMsgs).1 used ∧
    ∀ e ∈ Ev.discarded s.pending :: (if (cleared s).zombie = true then (cleared s, killEvents)
      else sendConnect (cleared s) (cleared s).cfg.connectMsgs).2, e.notLost = true
  split
  · exact ⟨hclear, by intro e h; simp [killEvents] at h; rcases h with h | h <;> (subst h; rfl)⟩
  · obtain ⟨h1, h2⟩ := sendConnect_fresh (cleared s).cfg.connectMsgs _ used hclear
    refine ⟨h1, ?_⟩
    intro e he
    rcases mem_cons.mp he with he | he
    · subst he; rfl
    · exact h2 e he

theorem noMsg_fresh (s : Irc) (used : List Nat) : FreshStep s (noMsg s) used := by
  intro hi
  rw [noMsg_state]
  refine ⟨hi, ?_⟩
  intro e he
  rcases noMsg_events s with h | h <;> rw [h] at he
  · cases he
  · simp [killEvents] at he; subst he; rfl

theorem pingBranch_fresh (s : Irc) (used : List Nat) : FreshStep s (pingBranch s) used := by
  intro hi
  unfold pingBranch
  split
  · split
    · dsimp only
      obtain ⟨h1, h2⟩ := reset_fresh s used hi
      refine ⟨h1, ?_⟩
      intro e he
      rcases mem_cons.mp he with he | he
      · subst he; rfl
      · exact h2 e he
    · split
      · dsimp only
        exact queueMsg_int_fresh s _ used _ rfl rfl rfl rfl hi
      · exact ⟨hi, by intro e h; cases h⟩
  · exact ⟨hi, by intro e h; cases h⟩

theorem takeAux_fresh : ∀ (fuel : Nat) (s : Irc) (used : List Nat), FreshStep s (takeAux fuel s) used
  | 0, s, used => fun hi => ⟨hi, by intro e h; cases h⟩
  | fuel + 1, s, used => by
    intro hi
    unfold takeAux takeBody
    split
    · rename_i m rest hf
      have hpre : PreInv { s with fast := rest } m used :=
        PreInv.of_perm hi (by simp [Irc.pending, hf]) rfl rfl rfl
      split
      · rename_i s1 o hd
        obtain ⟨_, h2⟩ := deliver_fresh hpre hd
        exact ⟨h2, by intro e h; simp at h; subst h; rfl⟩
      · rename_i s1 o hd
        exact absurd rfl ((deliver_fresh hpre hd).1 o)
      · rename_i s1 hd
        obtain ⟨_, h2⟩ := deliver_fresh hpre hd
        obtain ⟨h3, h4⟩ := takeAux_fresh fuel s1 used h2
        refine ⟨h3, ?_⟩
        intro e he
        rcases mem_cons.mp he with he | he
        · subst he; rfl
        · exact h4 e he
    · rename_i hf
      split
      · split
        · dsimp only
          obtain ⟨h1, h2⟩ := noMsg_fresh s used hi
          refine ⟨h1, ?_⟩
          intro e he
          rcases mem_cons.mp he with he | he
          · subst he; rfl
          · exact h2 e he
        · split
          · rename_i q' m hq
            have hpre : PreInv { s with lastTake := s.now, queue := q' } m used := by
              refine PreInv.of_perm hi ?_ rfl rfl rfl
              show (m :: (s.fast ++ q'.all)).Perm (s.fast ++ s.queue.all)
              rw [hf]
              simpa using (dequeue_msg_perm hq).symm
            split
            · rename_i s1 o hd
              obtain ⟨_, h2⟩ := deliver_fresh hpre hd
              exact ⟨h2, by intro e h; simp at h; subst h; rfl⟩
            · rename_i s1 o hd
              exact absurd rfl ((deliver_fresh hpre hd).1 o)
            · rename_i s1 hd
              obtain ⟨_, h2⟩ := deliver_fresh hpre hd
              obtain ⟨h3, h4⟩ := takeAux_fresh fuel s1 used h2
              refine ⟨h3, ?_⟩
              intro e he
              rcases mem_cons.mp he with he | he
              · subst he; rfl
              · exact h4 e he
          · rename_i q' m hq
            dsimp only
            have h0 : FreshInv' { s with lastTake := s.now, queue := q' } used := by
              refine hi.of_perm ?_ rfl (Nat.le_refl _) rfl
              show (s.fast ++ q'.all).Perm (s.fast ++ s.queue.all)
              exact Perm.append_left _ (dequeue_rotated_perm hq)
            obtain ⟨h1, h2⟩ := noMsg_fresh _ used h0
            refine ⟨h1, ?_⟩
            intro e he
            rcases mem_cons.mp he with he | he
            · subst he; rfl
            · exact h2 e he
          · rename_i q' hq
            have hc := dequeue_nothing_eq hq
            have h0 : FreshInv' { s with lastTake := s.now, queue := q' } used := by
              refine hi.of_perm ?_ rfl (Nat.le_refl _) rfl
              show (s.fast ++ q'.all).Perm (s.fast ++ s.queue.all)
              rw [hc]
            exact noMsg_fresh _ used h0
      · dsimp only
        obtain ⟨h1, h2⟩ := pingBranch_fresh s used hi
        obtain ⟨h3, h4⟩ := noMsg_fresh _ used h1
        refine ⟨h3, ?_⟩
        intro e he
        rcases mem_append.mp he with he | he
        · exact h2 e he
        · exact h4 e he

/-! ### operation sequences that hand every object over once -/

/-- every `queueMsg`/`sendMsg` gets an object not handed over before; every configuration change
installs well-behaved filters -/
def OpsFresh : List Nat → List Op → Prop
  | _, [] => True
  | used, .queue m :: ops => ∃ k, m.oid = .ext k ∧ k ∉ used ∧ OpsFresh (k :: used) ops
  | used, .send m :: ops => ∃ k, m.oid = .ext k ∧ k ∉ used ∧ OpsFresh (k :: used) ops
  | used, .config c :: ops => (∀ f ∈ c.filters, FilterOk f) ∧ OpsFresh used ops
  | used, _ :: ops => OpsFresh used ops

theorem FreshInv'.weaken {s : Irc} {used : List Nat} (h : FreshInv' s used) (k : Nat) :
    FreshInv' s (k :: used) :=
  ⟨h.toFreshInv, fun j hj => mem_cons_of_mem _ (h.extUsed j hj)⟩

/-- accepting a new caller-made object -/
theorem FreshInv'.add_ext {s : Irc} {used : List Nat} (h : FreshInv' s used) (m : Msg) (k : Nat)
    (hm : m.oid = .ext k) (hk : k ∉ used) (s' : Irc) (hp : s'.pending.Perm (m :: s.pending))
    (he : s'.echoed = s.echoed) (hn : s'.nextOid = s.nextOid) (hf : s'.cfg = s.cfg) :
    FreshInv' s' (k :: used) := by
  have hmem : ∀ o, o ∈ oids s'.pending ↔ (o = m.oid ∨ o ∈ oids s.pending) := by
    intro o
    rw [(oids_perm hp).mem_iff, oids_cons]
    simp
  have hnew : m.oid ∉ oids s.pending := by
    rw [hm]; intro h'; exact hk (h.extUsed k (Or.inl h'))
  refine ⟨⟨?_, ?_, ?_, ?_, by rw [hf]; exact h.filters⟩, ?_⟩
  · rw [(oids_perm hp).nodup_iff, oids_cons]
    exact nodup_cons.mpr ⟨hnew, h.nodup⟩
  · intro o ho; rw [he]
    rcases (hmem o).mp ho with ho | ho
    · rw [ho, hm]; intro h'; exact hk (h.extUsed k (Or.inr h'))
    · exact h.untagged o ho
  · intro j hj; rw [hn]
    rcases (hmem _).mp hj with hj | hj
    · rw [hm] at hj; cases hj
    · exact h.intPending j hj
  · intro j hj; rw [he] at hj; rw [hn]; exact h.intEchoed j hj
  · intro j hj
    rw [he] at hj
    rcases hj with hj | hj
    · rcases (hmem _).mp hj with hj | hj
      · rw [hm] at hj; injection hj with hj; subst hj; exact mem_cons_self
      · exact mem_cons_of_mem _ (h.extUsed j (Or.inl hj))
    · exact mem_cons_of_mem _ (h.extUsed j (Or.inr hj))

theorem run_fresh : ∀ (ops : List Op) (s : Irc) (used : List Nat), FreshInv' s used → OpsFresh used ops →
    ∀ e ∈ (run s ops).2, e.notLost = true
  | [], _, _, _, _ => by intro e h; cases h
  | op :: ops, s, used, hi, ho => by
    intro e he
    unfold run at he
    dsimp only at he
    -- the step: new invariant (for the new `used`) and no loss
    have key : ∃ used', FreshInv' (step s op).1 used' ∧ OpsFresh used' ops ∧
        ∀ e ∈ (step s op).2, e.notLost = true := by
      cases op with
      | queue m =>
        obtain ⟨k, hm, hk, ho'⟩ := ho
        refine ⟨k :: used, ?_, ho', ?_⟩
        · show FreshInv' (queueMsg s m).1 (k :: used)
          unfold queueMsg
          split
          · split
            · rename_i q' hq
              refine hi.add_ext m k hm hk _ ?_ rfl rfl rfl
              show (s.fast ++ q'.all).Perm (m :: (s.fast ++ s.queue.all))
              exact (Perm.append_left _ (enqueue_true_perm hq)).trans perm_middle
            · exact hi.weaken k
          · exact hi.weaken k
        · intro e he
          have : e ∈ (queueMsg s m).2 := he
          unfold queueMsg at this
          split at this
          · split at this <;> (simp at this; subst this; rfl)
          · simp at this; subst this; rfl
      | send m =>
        obtain ⟨k, hm, hk, ho'⟩ := ho
        refine ⟨k :: used, ?_, ho', ?_⟩
        · show FreshInv' (sendMsg s m).1 (k :: used)
          unfold sendMsg
          split
          · refine hi.add_ext m k hm hk _ ?_ rfl rfl rfl
            show ((s.fast ++ [m]) ++ s.queue.all).Perm (m :: (s.fast ++ s.queue.all))
            simp only [append_assoc, singleton_append]
            exact perm_middle
          · exact hi.weaken k
        · intro e he
          have : e ∈ (sendMsg s m).2 := he
          unfold sendMsg at this
          split at this <;> (simp at this; subst this; rfl)
      | take => exact ⟨used, (takeAux_fresh _ s used hi).1, ho, (takeAux_fresh _ s used hi).2⟩
      | die =>
        refine ⟨used, ?_, ho, ?_⟩
        · show FreshInv' (die s).1 used
          unfold die; dsimp only
          split <;> exact hi.of_perm (Perm.refl _) rfl (Nat.le_refl _) rfl
        · intro e he
          have : e ∈ (die s).2 := he
          unfold die at this; dsimp only at this
          split at this
          · simp at this; subst this; rfl
          · cases this
      | reset => exact ⟨used, (reset_fresh s used hi).1, ho, (reset_fresh s used hi).2⟩
      | tick dt =>
        exact ⟨used, hi.of_perm (Perm.refl _) rfl (Nat.le_refl _) rfl, ho, by intro e h; cases h⟩
      | connected =>
        exact ⟨used, hi.of_perm (Perm.refl _) rfl (Nat.le_refl _) rfl, ho, by intro e h; cases h⟩
      | pong =>
        exact ⟨used, hi.of_perm (Perm.refl _) rfl (Nat.le_refl _) rfl, ho, by intro e h; cases h⟩
      | capEcho b =>
        exact ⟨used, hi.of_perm (Perm.refl _) rfl (Nat.le_refl _) rfl, ho, by intro e h; cases h⟩
      | config c =>
        obtain ⟨hc, ho'⟩ := ho
        refine ⟨used, ⟨⟨hi.nodup, hi.untagged, hi.intPending, hi.intEchoed, hc⟩, hi.extUsed⟩, ho', ?_⟩
        intro e he
        have : e ∈ [Ev.config c.throttle c.joinLimit] := he
        simp at this; subst this; rfl
    obtain ⟨used', h1, h2, h3⟩ := key
    rcases mem_append.mp he with he | he
    · exact h3 e he
    · exact run_fresh ops _ used' h1 h2 e he

theorem lostOf_nil_of_notLost : ∀ (evs : List Ev), (∀ e ∈ evs, e.notLost = true) → lostOf evs = []
  | [], _ => rfl
  | e :: r, h => by
    have h1 := h e mem_cons_self
    have ih := lostOf_nil_of_notLost r (fun x hx => h x (mem_cons_of_mem _ hx))
    cases e <;> first | (simpa [lostOf] using ih) | cases h1

theorem life_fresh (c : Cfg) (hc : ∀ f ∈ c.filters, FilterOk f) (now : Nat) (ops : List Op)
    (ho : OpsFresh [] ops) : lostOf (life c now ops).2 = [] := by
  apply lostOf_nil_of_notLost
  have hb : FreshInv' (blank c now) [] := by
    have hp0 : (blank c now).pending = [] := rfl
    refine ⟨⟨?_, ?_, ?_, ?_, hc⟩, ?_⟩
    · rw [hp0]; exact nodup_nil
    · intro o ho; rw [hp0] at ho; cases ho
    · intro k hk; rw [hp0] at hk; cases hk
    · intro k hk; cases hk
    · intro k hk
      rcases hk with hk | hk
      · rw [hp0] at hk; cases hk
      · cases hk
  have h1 := sendConnect_fresh c.connectMsgs (blank c now) [] hb
  intro e he
  unfold life init queueConnectMessages at he
  dsimp only at he
  have hz : (blank c now).zombie = false := rfl
  simp only [hz, Bool.false_eq_true, if_false] at he
  rcases mem_append.mp he with he | he
  · rcases mem_cons.mp he with he | he
    · subst he; rfl
    · exact h1.2 e he
  · have hz2 : (if (blank c now).zombie = true then (blank c now, killEvents)
        else sendConnect (blank c now) (blank c now).cfg.connectMsgs) = sendConnect (blank c now) c.connectMsgs := by
      simp only [hz, Bool.false_eq_true, if_false]; rfl
    exact run_fresh ops _ [] h1.1 ho e he

end C19
