/-
C19 — since the emulated echo is a tagged *copy*, the only objects carrying the tag are made inside
the bot; messages handed over by callers (any number of times) and messages built or passed on by
well-behaved filters never carry it, so nothing is lost to the assertion (helper lemmas).
-/
import LimnoriaModel.C19.Live
namespace C19
open Py List

/-- a filter returns the object it was given or one it has just built -/
def FilterOk (f : Filter) : Prop := ∀ n m m', f n m = some m' → m'.oid = m.oid ∨ m'.oid = .int n

def oids (l : List Msg) : List Oid := l.map (·.oid)

/-- the label step works on the object it is given -/
theorem labelFilter_ok : FilterOk labelFilter := by
  intro n m m' h
  simp only [labelFilter, Option.some.injEq] at h
  subst h
  left
  split <;> rfl

theorem chain_ok (s : Irc) (h : ∀ f ∈ s.cfg.filters, FilterOk f) : ∀ f ∈ s.chain, FilterOk f := by
  intro f hf
  unfold Irc.chain at hf
  split at hf
  · cases hf with
    | head => exact labelFilter_ok
    | tail _ hf => exact h f hf
  · exact h f hf

/-- `.int k` with `k ≥ n` does not occur -/
def IntBelow (n : Nat) (l : List Oid) : Prop := ∀ k, Oid.int k ∈ l → k < n

/-- no waiting object carries the echo tag; the tagged objects are internal ones; the identities
made inside the bot so far are below `nextOid` -/
structure TagInv (s : Irc) : Prop where
  untagged : ∀ o ∈ oids s.pending, o ∉ s.echoed
  intPending : IntBelow s.nextOid (oids s.pending)
  intEchoed : IntBelow s.nextOid s.echoed
  echoedInt : ∀ o ∈ s.echoed, ∃ k, o = Oid.int k
  filters : ∀ f ∈ s.cfg.filters, FilterOk f

theorem runFilters_oid : ∀ (fs : List Filter) (n : Nat) (m out : Msg) (n' : Nat),
    (∀ f ∈ fs, FilterOk f) → runFilters fs n m = (some out, n') →
    n ≤ n' ∧ (out.oid = m.oid ∨ ∃ k, out.oid = .int k ∧ n ≤ k ∧ k < n')
  | [], n, m, out, n', _, h => by
    simp only [runFilters] at h
    injection h with h1 h2; injection h1 with h1; subst h1 h2
    exact ⟨Nat.le_refl _, Or.inl rfl⟩
  | f :: fs, n, m, out, n', hok, h => by
    simp only [runFilters] at h
    split at h
    · injection h with h1 _; cases h1
    · rename_i m1 hf
      have ih := runFilters_oid fs (n + 1) m1 out n' (fun g hg => hok g (mem_cons_of_mem _ hg)) h
      have h1 := hok f mem_cons_self n m m1 hf
      refine ⟨by omega, ?_⟩
      rcases ih.2 with h2 | ⟨k, h2, h3, h4⟩
      · rcases h1 with h1 | h1
        · exact Or.inl (h2.trans h1)
        · exact Or.inr ⟨n, h2.trans h1, Nat.le_refl _, by omega⟩
      · exact Or.inr ⟨k, h2, by omega, h4⟩

theorem runFilters_mono : ∀ (fs : List Filter) (n : Nat) (m : Msg), n ≤ (runFilters fs n m).2
  | [], n, m => Nat.le_refl _
  | f :: fs, n, m => by
    simp only [runFilters]
    split
    · exact Nat.le_succ _
    · exact Nat.le_trans (Nat.le_succ _) (runFilters_mono fs (n + 1) _)

theorem oids_cons (m : Msg) (l : List Msg) : oids (m :: l) = m.oid :: oids l := rfl

/-- the invariant only looks at which objects wait, the tags, the counter and the filters -/
theorem TagInv.of_sub {s s' : Irc} (h : TagInv s) (hp : ∀ o ∈ oids s'.pending, o ∈ oids s.pending)
    (he : s'.echoed = s.echoed) (hn : s.nextOid ≤ s'.nextOid) (hf : s'.cfg = s.cfg) : TagInv s' := by
  refine ⟨?_, ?_, ?_, by rw [he]; exact h.echoedInt, by rw [hf]; exact h.filters⟩
  · intro o ho; rw [he]; exact h.untagged o (hp o ho)
  · intro k hk; exact Nat.lt_of_lt_of_le (h.intPending k (hp _ hk)) hn
  · intro k hk; rw [he] at hk; exact Nat.lt_of_lt_of_le (h.intEchoed k hk) hn

/-- the state just after `m` was taken out of a queue -/
structure PreInv (s : Irc) (m : Msg) : Prop where
  untagged : ∀ o ∈ oids (m :: s.pending), o ∉ s.echoed
  intPending : IntBelow s.nextOid (oids (m :: s.pending))
  intEchoed : IntBelow s.nextOid s.echoed
  echoedInt : ∀ o ∈ s.echoed, ∃ k, o = Oid.int k
  filters : ∀ f ∈ s.cfg.filters, FilterOk f

theorem PreInv.of_sub {s s0 : Irc} {m : Msg} (h : TagInv s0)
    (hp : ∀ o ∈ oids (m :: s.pending), o ∈ oids s0.pending) (he : s.echoed = s0.echoed)
    (hn : s.nextOid = s0.nextOid) (hf : s.cfg = s0.cfg) : PreInv s m := by
  refine ⟨?_, ?_, ?_, by rw [he]; exact h.echoedInt, by rw [hf]; exact h.filters⟩
  · intro o ho; rw [he]; exact h.untagged o (hp o ho)
  · intro k hk; rw [hn]; exact h.intPending k (hp _ hk)
  · intro k hk; rw [he] at hk; rw [hn]; exact h.intEchoed k hk

theorem deliver_tag {s s1 : Irc} {m : Msg} {d : Delivery} (hp : PreInv s m)
    (h : deliver s m = (s1, d)) : (∀ o, d ≠ .lost o) ∧ TagInv s1 := by
  have hpend : ∀ x, x ∈ oids s.pending → x ∈ oids (m :: s.pending) := by
    intro x hx; rw [oids_cons]; exact mem_cons_of_mem _ hx
  unfold deliver at h
  split at h
  · rename_i n hr
    injection h with h1 h2; subst h1 h2
    have hmono := runFilters_mono s.chain s.nextOid m
    rw [hr] at hmono
    refine ⟨(by intro o h; cases h), ⟨fun o ho => hp.untagged o (hpend o ho), ?_, ?_, hp.echoedInt, hp.filters⟩⟩
    · intro k hk; exact Nat.lt_of_lt_of_le (hp.intPending k (hpend _ hk)) hmono
    · intro k hk; exact Nat.lt_of_lt_of_le (hp.intEchoed k hk) hmono
  · rename_i out n hr
    obtain ⟨hmono, hoid⟩ := runFilters_oid s.chain s.nextOid m out n (chain_ok s hp.filters) hr
    have hnot : out.oid ∉ s.echoed := by
      rcases hoid with h1 | ⟨k, h1, h2, _⟩
      · rw [h1]; exact hp.untagged _ (by rw [oids_cons]; exact mem_cons_self)
      · rw [h1]; intro hk; have := hp.intEchoed k hk; omega
    have base : TagInv { s with nextOid := n } :=
      ⟨fun o ho => hp.untagged o (hpend o ho),
       fun k hk => Nat.lt_of_lt_of_le (hp.intPending k (hpend _ hk)) hmono,
       fun k hk => Nat.lt_of_lt_of_le (hp.intEchoed k hk) hmono, hp.echoedInt, hp.filters⟩
    dsimp only at h
    split at h
    · injection h with h1 h2; subst h1 h2
      refine ⟨(by intro o h; cases h), ⟨?_, ?_, ?_, ?_, hp.filters⟩⟩
      · intro o ho hm
        rcases mem_cons.mp hm with hm | hm
        · have := base.intPending n (by rw [← hm]; exact ho)
          exact Nat.lt_irrefl _ this
        · exact base.untagged o ho hm
      · intro k hk; exact Nat.lt_succ_of_lt (base.intPending k hk)
      · intro k hk
        rcases mem_cons.mp hk with hk | hk
        · injection hk with hk; subst hk; exact Nat.lt_succ_self _
        · exact Nat.lt_succ_of_lt (base.intEchoed k hk)
      · intro o ho
        rcases mem_cons.mp ho with ho | ho
        · exact ⟨n, ho⟩
        · exact hp.echoedInt o ho
    · injection h with h1 h2; subst h1 h2
      exact ⟨(by intro o h; cases h), base⟩

/-! ### the queue operations as permutations -/

theorem dequeue_msg_perm {limit now : Nat} {q q' : Queue} {m : Msg}
    (h : q.dequeue limit now = (q', .msg m)) : q.all.Perm (m :: q'.all) := by
  rw [perm_iff_count]; intro x
  have := dequeue_msg_count h x
  simp only [count_cons_one]; omega

theorem dequeue_rotated_perm {limit now : Nat} {q q' : Queue} {m : Msg}
    (h : q.dequeue limit now = (q', .rotated m)) : q'.all.Perm q.all := by
  rw [perm_iff_count]; intro x
  exact dequeue_rotated_count h x

theorem enqueue_true_perm {dup : Bool} {q q' : Queue} {m : Msg} (h : q.enqueue dup m = (q', true)) :
    q'.all.Perm (m :: q.all) := by
  rw [perm_iff_count]; intro x
  have := enqueue_true_count h x
  simp only [count_cons_one]; omega

theorem oids_perm {l1 l2 : List Msg} (h : l1.Perm l2) : (oids l1).Perm (oids l2) := h.map _

/-- no `lost` event -/
def Ev.notLost : Ev → Bool
  | .lost _ _ _ _ => false
  | _ => true

/-- adding a waiting object that does not carry the tag -/
theorem TagInv.add {s : Irc} (h : TagInv s) (m : Msg) (s' : Irc)
    (hp : ∀ o ∈ oids s'.pending, o = m.oid ∨ o ∈ oids s.pending) (he : s'.echoed = s.echoed)
    (hn : s.nextOid ≤ s'.nextOid) (hf : s'.cfg = s.cfg)
    (hm : (∃ k, m.oid = .ext k) ∨ (∃ k, m.oid = .int k ∧ s.nextOid ≤ k ∧ k < s'.nextOid)) : TagInv s' := by
  have hmne : m.oid ∉ s.echoed := by
    rcases hm with ⟨k, hk⟩ | ⟨k, hk, h1, _⟩
    · rw [hk]; intro hin; obtain ⟨j, hj⟩ := h.echoedInt _ hin; cases hj
    · rw [hk]; intro hin; have := h.intEchoed k hin; omega
  refine ⟨?_, ?_, ?_, by rw [he]; exact h.echoedInt, by rw [hf]; exact h.filters⟩
  · intro o ho; rw [he]
    rcases hp o ho with ho | ho
    · rw [ho]; exact hmne
    · exact h.untagged o ho
  · intro k hk
    rcases hp _ hk with hk | hk
    · rcases hm with ⟨j, hj⟩ | ⟨j, hj, _, h2⟩
      · rw [hj] at hk; cases hk
      · rw [hj] at hk; injection hk with hk; omega
    · exact Nat.lt_of_lt_of_le (h.intPending k hk) hn
  · intro k hk; rw [he] at hk; exact Nat.lt_of_lt_of_le (h.intEchoed k hk) hn

/-! ### every step keeps the invariant and loses nothing -/

def TagStep (s : Irc) (r : Irc × List Ev) : Prop :=
  TagInv s → TagInv r.1 ∧ ∀ e ∈ r.2, e.notLost = true

theorem mem_oids_perm {l1 l2 : List Msg} (h : l1.Perm l2) {o : Oid} : o ∈ oids l1 ↔ o ∈ oids l2 :=
  (oids_perm h).mem_iff

theorem queueMsg_tag (s : Irc) (m : Msg)
    (hm : (∃ k, m.oid = .ext k) ∨ (∃ k, m.oid = .int k ∧ k < s.nextOid ∧ Oid.int k ∉ s.echoed)) :
    TagStep s (queueMsg s m) := by
  intro hi
  have hok : TagInv s → ∀ s' : Irc, (∀ o ∈ oids s'.pending, o = m.oid ∨ o ∈ oids s.pending) →
      s'.echoed = s.echoed → s'.nextOid = s.nextOid → s'.cfg = s.cfg → TagInv s' := by
    intro hi s' hp he hn hf
    refine ⟨?_, ?_, ?_, by rw [he]; exact hi.echoedInt, by rw [hf]; exact hi.filters⟩
    · intro o ho; rw [he]
      rcases hp o ho with ho | ho
      · rw [ho]
        rcases hm with ⟨k, hk⟩ | ⟨k, hk, _, h3⟩
        · rw [hk]; intro hin; obtain ⟨j, hj⟩ := hi.echoedInt _ hin; cases hj
        · rw [hk]; exact h3
      · exact hi.untagged o ho
    · intro k hk; rw [hn]
      rcases hp _ hk with hk | hk
      · rcases hm with ⟨j, hj⟩ | ⟨j, hj, h2, _⟩
        · rw [hj] at hk; cases hk
        · rw [hj] at hk; injection hk with hk; omega
      · exact hi.intPending k hk
    · intro k hk; rw [he] at hk; rw [hn]; exact hi.intEchoed k hk
  unfold queueMsg
  split
  · split
    · rename_i q' hq
      refine ⟨hok hi _ ?_ rfl rfl rfl, by intro e h; simp at h; subst h; rfl⟩
      intro o ho
      have hperm : (s.fast ++ q'.all).Perm (m :: (s.fast ++ s.queue.all)) :=
        (Perm.append_left _ (enqueue_true_perm hq)).trans perm_middle
      have := (mem_oids_perm hperm).mp ho
      rw [oids_cons] at this
      exact (mem_cons.mp this)
    · exact ⟨hi, by intro e h; simp at h; subst h; rfl⟩
  · exact ⟨hi, by intro e h; simp at h; subst h; rfl⟩

theorem sendMsg_tag (s : Irc) (m : Msg)
    (hm : (∃ k, m.oid = .ext k) ∨ (∃ k, m.oid = .int k ∧ k < s.nextOid ∧ Oid.int k ∉ s.echoed)) :
    TagStep s (sendMsg s m) := by
  intro hi
  unfold sendMsg
  split
  · refine ⟨?_, by intro e h; simp at h; subst h; rfl⟩
    refine ⟨?_, ?_, hi.intEchoed, hi.echoedInt, hi.filters⟩
    · intro o ho
      have hperm : ((s.fast ++ [m]) ++ s.queue.all).Perm (m :: (s.fast ++ s.queue.all)) := by
        simp only [append_assoc, singleton_append]; exact perm_middle
      have := (mem_oids_perm hperm).mp ho
      rw [oids_cons] at this
      rcases mem_cons.mp this with h | h
      · rw [h]
        rcases hm with ⟨k, hk⟩ | ⟨k, hk, _, h3⟩
        · rw [hk]; intro hin; obtain ⟨j, hj⟩ := hi.echoedInt _ hin; cases hj
        · rw [hk]; exact h3
      · exact hi.untagged o h
    · intro k hk
      have hperm : ((s.fast ++ [m]) ++ s.queue.all).Perm (m :: (s.fast ++ s.queue.all)) := by
        simp only [append_assoc, singleton_append]; exact perm_middle
      have := (mem_oids_perm hperm).mp hk
      rw [oids_cons] at this
      rcases mem_cons.mp this with h | h
      · rcases hm with ⟨j, hj⟩ | ⟨j, hj, h2, _⟩
        · rw [hj] at h; cases h
        · rw [hj] at h; injection h with h; subst h; exact h2
      · exact hi.intPending k h
  · exact ⟨hi, by intro e h; simp at h; subst h; rfl⟩

/-- bumping the identity supply -/
theorem TagInv.bump {s : Irc} (h : TagInv s) : TagInv { s with nextOid := s.nextOid + 1 } :=
  h.of_sub (fun _ ho => ho) rfl (Nat.le_succ _) rfl

theorem sendConnect_tag (cs : List Content) : ∀ (s : Irc), TagStep s (sendConnect s cs) := by
  induction cs with
  | nil => intro s hi; exact ⟨hi, by intro e h; cases h⟩
  | cons c cs ih =>
    intro s hi
    unfold sendConnect
    dsimp only
    have hfresh : Oid.int s.nextOid ∉ s.echoed := fun hin => Nat.lt_irrefl _ (hi.intEchoed _ hin)
    have h1 := sendMsg_tag { s with nextOid := s.nextOid + 1 } ⟨.int s.nextOid, c⟩
      (Or.inr ⟨s.nextOid, rfl, Nat.lt_succ_self _, hfresh⟩) hi.bump
    obtain ⟨h2, h3⟩ := ih _ h1.1
    refine ⟨h2, ?_⟩
    intro e he
    rcases mem_append.mp he with he | he
    · exact h1.2 e he
    · exact h3 e he

/-- the state `reset()` builds before `_queueConnectMessages` -/
def cleared (s : Irc) : Irc :=
  { s with lastTake := 0, afterConnect := false, lastPing := s.now, outstandingPing := false,
           echoAcked := false, labelAcked := false, queue := Queue.empty, fast := [] }

theorem reset_tag (s : Irc) : TagStep s (reset s) := by
  intro hi
  have hp0 : (cleared s).pending = [] := rfl
  have hclear : TagInv (cleared s) := by
    refine ⟨?_, ?_, hi.intEchoed, hi.echoedInt, hi.filters⟩
    · intro o ho; rw [hp0] at ho; cases ho
    · intro k hk; rw [hp0] at hk; cases hk
  show TagInv (if (cleared s).zombie = true then (cleared s, killEvents)
      else sendConnect (cleared s) (cleared s).cfg.connectMsgs).1 ∧
    ∀ e ∈ Ev.discarded s.pending :: (if (cleared s).zombie = true then (cleared s, killEvents)
      else sendConnect (cleared s) (cleared s).cfg.connectMsgs).2, e.notLost = true
  split
  · exact ⟨hclear, by intro e h; simp [killEvents] at h; rcases h with h | h <;> (subst h; rfl)⟩
  · obtain ⟨h1, h2⟩ := sendConnect_tag (cleared s).cfg.connectMsgs _ hclear
    refine ⟨h1, ?_⟩
    intro e he
    rcases mem_cons.mp he with he | he
    · subst he; rfl
    · exact h2 e he

theorem noMsg_tag (s : Irc) : TagStep s (noMsg s) := by
  intro hi
  rw [noMsg_state]
  refine ⟨hi, ?_⟩
  intro e he
  rcases noMsg_events s with h | h <;> rw [h] at he
  · cases he
  · simp [killEvents] at he; subst he; rfl

theorem pingBranch_tag (s : Irc) : TagStep s (pingBranch s) := by
  intro hi
  unfold pingBranch
  split
  · split
    · dsimp only
      obtain ⟨h1, h2⟩ := reset_tag s hi
      refine ⟨h1, ?_⟩
      intro e he
      rcases mem_cons.mp he with he | he
      · subst he; rfl
      · exact h2 e he
    · split
      · dsimp only
        have hfresh : Oid.int s.nextOid ∉ s.echoed := fun hin => Nat.lt_irrefl _ (hi.intEchoed _ hin)
        have hb : TagInv { s with lastPing := s.now, outstandingPing := true, nextOid := s.nextOid + 1 } :=
          hi.of_sub (fun _ ho => ho) rfl (Nat.le_succ _) rfl
        exact queueMsg_tag _ _ (Or.inr ⟨s.nextOid, rfl, Nat.lt_succ_self _, hfresh⟩) hb
      · exact ⟨hi, by intro e h; cases h⟩
  · exact ⟨hi, by intro e h; cases h⟩

theorem takeAux_tag : ∀ (fuel : Nat) (s : Irc), TagStep s (takeAux fuel s)
  | 0, s => fun hi => ⟨hi, by intro e h; cases h⟩
  | fuel + 1, s => by
    intro hi
    unfold takeAux takeBody
    split
    · rename_i m rest hf
      have hpre : PreInv { s with fast := rest } m :=
        PreInv.of_sub hi (by intro o ho; simpa [oids, Irc.pending, hf] using ho) rfl rfl rfl
      split
      · rename_i s1 o hd
        exact ⟨(deliver_tag hpre hd).2, by intro e h; simp at h; subst h; rfl⟩
      · rename_i s1 o hd
        exact absurd rfl ((deliver_tag hpre hd).1 o)
      · rename_i s1 hd
        obtain ⟨h3, h4⟩ := takeAux_tag fuel s1 (deliver_tag hpre hd).2
        refine ⟨h3, ?_⟩
        intro e he
        rcases mem_cons.mp he with he | he
        · subst he; rfl
        · exact h4 e he
    · rename_i hf
      split
      · split
        · dsimp only
          obtain ⟨h1, h2⟩ := noMsg_tag s hi
          refine ⟨h1, ?_⟩
          intro e he
          rcases mem_cons.mp he with he | he
          · subst he; rfl
          · exact h2 e he
        · split
          · rename_i q' m hq
            have hpre : PreInv { s with lastTake := s.now, queue := q' } m := by
              refine PreInv.of_sub hi ?_ rfl rfl rfl
              intro o ho
              have hperm : (m :: (s.fast ++ q'.all)).Perm (s.fast ++ s.queue.all) := by
                rw [hf]; simpa using (dequeue_msg_perm hq).symm
              exact (mem_oids_perm hperm).mp ho
            split
            · rename_i s1 o hd
              exact ⟨(deliver_tag hpre hd).2, by intro e h; simp at h; subst h; rfl⟩
            · rename_i s1 o hd
              exact absurd rfl ((deliver_tag hpre hd).1 o)
            · rename_i s1 hd
              obtain ⟨h3, h4⟩ := takeAux_tag fuel s1 (deliver_tag hpre hd).2
              refine ⟨h3, ?_⟩
              intro e he
              rcases mem_cons.mp he with he | he
              · subst he; rfl
              · exact h4 e he
          · rename_i q' m hq
            dsimp only
            have h0 : TagInv { s with lastTake := s.now, queue := q' } := by
              refine hi.of_sub ?_ rfl (Nat.le_refl _) rfl
              intro o ho
              exact (mem_oids_perm (Perm.append_left s.fast (dequeue_rotated_perm hq))).mp ho
            obtain ⟨h1, h2⟩ := noMsg_tag _ h0
            refine ⟨h1, ?_⟩
            intro e he
            rcases mem_cons.mp he with he | he
            · subst he; rfl
            · exact h2 e he
          · rename_i q' hq
            have hc := dequeue_nothing_eq hq
            have h0 : TagInv { s with lastTake := s.now, queue := q' } := by
              refine hi.of_sub ?_ rfl (Nat.le_refl _) rfl
              intro o ho; rw [hc] at ho; exact ho
            exact noMsg_tag _ h0
      · dsimp only
        obtain ⟨h1, h2⟩ := pingBranch_tag s hi
        obtain ⟨h3, h4⟩ := noMsg_tag _ h1
        refine ⟨h3, ?_⟩
        intro e he
        rcases mem_append.mp he with he | he
        · exact h2 e he
        · exact h4 e he

/-! ### operation sequences -/

/-- every `queueMsg`/`sendMsg` is given a caller-made object (possibly one handed over before);
every configuration change installs well-behaved filters -/
def OpsExt : List Op → Prop
  | [] => True
  | .queue m :: ops => (∃ k, m.oid = .ext k) ∧ OpsExt ops
  | .send m :: ops => (∃ k, m.oid = .ext k) ∧ OpsExt ops
  | .config c :: ops => (∀ f ∈ c.filters, FilterOk f) ∧ OpsExt ops
  | _ :: ops => OpsExt ops

theorem run_tag : ∀ (ops : List Op) (s : Irc), TagInv s → OpsExt ops → ∀ e ∈ (run s ops).2, e.notLost = true
  | [], _, _, _ => by intro e h; cases h
  | op :: ops, s, hi, ho => by
    intro e he
    unfold run at he
    dsimp only at he
    have key : TagInv (step s op).1 ∧ OpsExt ops ∧ ∀ e ∈ (step s op).2, e.notLost = true := by
      cases op with
      | queue m => exact ⟨(queueMsg_tag s m (Or.inl ho.1) hi).1, ho.2, (queueMsg_tag s m (Or.inl ho.1) hi).2⟩
      | send m => exact ⟨(sendMsg_tag s m (Or.inl ho.1) hi).1, ho.2, (sendMsg_tag s m (Or.inl ho.1) hi).2⟩
      | take => exact ⟨(takeAux_tag _ s hi).1, ho, (takeAux_tag _ s hi).2⟩
      | die =>
        refine ⟨?_, ho, ?_⟩
        · show TagInv (die s).1
          unfold die; dsimp only
          split <;> exact hi.of_sub (fun _ h => h) rfl (Nat.le_refl _) rfl
        · intro e he
          have : e ∈ (die s).2 := he
          unfold die at this; dsimp only at this
          split at this
          · simp at this; subst this; rfl
          · cases this
      | reset => exact ⟨(reset_tag s hi).1, ho, (reset_tag s hi).2⟩
      | tick dt => exact ⟨hi.of_sub (fun _ h => h) rfl (Nat.le_refl _) rfl, ho, by intro e h; cases h⟩
      | connected => exact ⟨hi.of_sub (fun _ h => h) rfl (Nat.le_refl _) rfl, ho, by intro e h; cases h⟩
      | pong => exact ⟨hi.of_sub (fun _ h => h) rfl (Nat.le_refl _) rfl, ho, by intro e h; cases h⟩
      | capEcho b => exact ⟨hi.of_sub (fun _ h => h) rfl (Nat.le_refl _) rfl, ho, by intro e h; cases h⟩
      | capLabel b => exact ⟨hi.of_sub (fun _ h => h) rfl (Nat.le_refl _) rfl, ho, by intro e h; cases h⟩
      | config c =>
        refine ⟨⟨hi.untagged, hi.intPending, hi.intEchoed, hi.echoedInt, ho.1⟩, ho.2, ?_⟩
        intro e he
        have : e ∈ [Ev.config c.throttle c.joinLimit] := he
        simp at this; subst this; rfl
    obtain ⟨h1, h2, h3⟩ := key
    rcases mem_append.mp he with he | he
    · exact h3 e he
    · exact run_tag ops _ h1 h2 e he

theorem lostOf_nil_of_notLost : ∀ (evs : List Ev), (∀ e ∈ evs, e.notLost = true) → lostOf evs = []
  | [], _ => rfl
  | e :: r, h => by
    have h1 := h e mem_cons_self
    have ih := lostOf_nil_of_notLost r (fun x hx => h x (mem_cons_of_mem _ hx))
    cases e <;> first | (simpa [lostOf] using ih) | cases h1

theorem life_tag (c : Cfg) (hc : ∀ f ∈ c.filters, FilterOk f) (now : Nat) (ops : List Op)
    (ho : OpsExt ops) : lostOf (life c now ops).2 = [] := by
  apply lostOf_nil_of_notLost
  have hb : TagInv (blank c now) := by
    have hp0 : (blank c now).pending = [] := rfl
    refine ⟨?_, ?_, ?_, ?_, hc⟩
    · intro o ho; rw [hp0] at ho; cases ho
    · intro k hk; rw [hp0] at hk; cases hk
    · intro k hk; cases hk
    · intro o ho; cases ho
  have h1 := sendConnect_tag c.connectMsgs (blank c now) hb
  intro e he
  unfold life init queueConnectMessages at he
  dsimp only at he
  have hz : (blank c now).zombie = false := rfl
  simp only [hz, Bool.false_eq_true, if_false] at he
  rcases mem_append.mp he with he | he
  · rcases mem_cons.mp he with he | he
    · subst he; rfl
    · exact h1.2 e he
  · exact run_tag ops _ h1.1 ho e he

end C19
