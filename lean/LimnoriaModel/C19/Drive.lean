import LimnoriaModel.C19.Model
import LimnoriaModel.C19.Reentrant
import LimnoriaModel.Driver.Core
namespace C19
open Py Wire

/-! wire format (see harness/c19.py):
message  = `<oid>/<enc pfx>/<enc cmd>/<encList args>`  (oid: decimal for caller-made objects, `~` otherwise)
messages = `;`-joined, `-` when empty -/

def encOid : Oid → String
  | .ext n => toString n
  | .int _ => "~"

/-- labels drawn by `makeLabel()` ("auto…" on both sides) are random: only their presence is compared -/
def canonLabel (k : Py.Str) (v : Option Py.Str) : Option Py.Str :=
  match v with
  | some x => if k = labelKey ∧ x.take 4 = ['a', 'u', 't', 'o'] ∧ 4 < x.length then some ['a', 'u', 't', 'o'] else v
  | none => v

def encTags (t : List (Py.Str × Option Py.Str)) : String :=
  if t.isEmpty then "-" else "+".intercalate (t.map fun (k, v) => enc k ++ "=" ++ encOpt (canonLabel k v))

def decTags (f : String) : Option (List (Py.Str × Option Py.Str)) :=
  if f = "-" then some [] else
  (f.splitOn "+").mapM fun item =>
    match item.splitOn "=" with
    | [k, v] => do pure ((← dec k), (← decOpt v))
    | _ => none

def encMsg (m : Msg) : String :=
  encOid m.oid ++ "/" ++ enc m.c.pfx ++ "/" ++ enc m.c.cmd ++ "/" ++ encList m.c.args ++ "/" ++ encTags m.c.tags

def encMsgs (ms : List Msg) : String :=
  if ms.isEmpty then "-" else ";".intercalate (ms.map encMsg)

def decContent3 (p c a t : String) : Option Content := do
  let p' ← dec p
  let c' ← dec c
  let a' ← decList a
  let t' ← decTags t
  pure ⟨p', c', a', t'⟩

def decMsg (f : String) : Option Msg :=
  match f.splitOn "/" with
  | [o, p, c, a, t] => do
    let n ← o.toNat?
    let ct ← decContent3 p c a t
    pure ⟨.ext n, ct⟩
  | _ => none

def decContents (f : String) : Option (List Content) :=
  if f = "-" then some [] else
  (f.splitOn ";").mapM fun item =>
    match item.splitOn "/" with
    | [_, p, c, a, t] => decContent3 p c a t
    | _ => none

/-- filter rule `kind:cmd:newcmd`: acts on messages whose command is `cmd` -/
def decRule (f : String) : Option Filter :=
  match f.splitOn ":" with
  | [kind, c, nc] => do
    let c' ← dec c
    let nc' ← dec nc
    match kind with
    | "drop" => pure fun _ m => if m.cmd = c' then none else some m
    | "raise" => pure fun _ m => some m            -- firewall: the message goes on unchanged
    | "same" => pure fun _ m => some m
    | "resend" => pure fun _ m => if m.cmd = c' then none else some m     -- (plain view; `take` uses decRRule)
    | "requeue" => pure fun _ m => if m.cmd = c' then none else some m
    | "sendalso" => pure fun _ m => some m
    | "rewrite" => pure fun n m =>
        if m.cmd = c' then some ⟨.int n, { m.c with cmd := nc' }⟩ else some m
    | _ => none
  | _ => none

/-- the same rules as (possibly re-entrant) filters: `resend` / `requeue` drop the message and send /
queue a copy with another command, `sendalso` lets it through and sends such a copy -/
def decRRule (f : String) : Option RFilter :=
  match f.splitOn ":" with
  | [kind, c, nc] => do
    let c' ← dec c
    let nc' ← dec nc
    match kind with
    | "resend" => pure fun _ m =>
        if m.cmd = c' then (none, [⟨true, { m.c with cmd := nc' }⟩]) else (some m, [])
    | "requeue" => pure fun _ m =>
        if m.cmd = c' then (none, [⟨false, { m.c with cmd := nc' }⟩]) else (some m, [])
    | "sendalso" => pure fun _ m =>
        if m.cmd = c' then (some m, [⟨true, { m.c with cmd := nc' }⟩]) else (some m, [])
    | _ => do pure (lift (← decRule f))
  | _ => none

def decRRules (f : String) : Option (List RFilter) :=
  if f = "-" then some [] else (f.splitOn ";").mapM decRRule

def decRules (f : String) : Option (List Filter) :=
  if f = "-" then some [] else (f.splitOn ";").mapM decRule

def bit (b : Bool) : String := if b then "1" else "0"

def decBit (f : String) : Option Bool :=
  if f = "1" then some true else if f = "0" then some false else none

def encState (s : Irc) : String :=
  toString s.now ++ "|" ++ toString s.lastTake ++ "|" ++ toString s.queue.lastJoin ++ "|" ++
    toString s.lastPing ++ "|" ++ bit s.zombie ++ bit s.afterConnect ++ bit s.outstandingPing ++
    bit s.echoAcked ++ bit s.labelAcked ++ "\t" ++ encMsgs s.fast ++ "\t" ++ encMsgs s.queue.high ++ "\t" ++
    encMsgs s.queue.normal ++ "\t" ++ encMsgs s.queue.low

/-- what the harness can observe of one operation:
return value, driver calls, filter-chain log, discarded messages -/
def retOf (isQueue : Bool) : List Ev → String
  | [] => "N"
  | .accepted false _ :: r => if isQueue then "T" else retOf isQueue r
  | .refused false _ :: r => if isQueue then "F" else retOf isQueue r
  | .took _ _ o _ :: _ => "M" ++ encMsg o
  | _ :: r => retOf isQueue r

def drvOf (evs : List Ev) : String :=
  let s := String.join (evs.map fun
    | .driverDie => "d"
    | .driverReconnect => "r"
    | _ => "")
  if s.isEmpty then "-" else s

def fq (b : Bool) : String := if b then "F" else "Q"

def chainOf (evs : List Ev) : String :=
  let l := evs.filterMap fun
    | .took f s o _ => some (fq f ++ encMsg s ++ ">" ++ encMsg o)
    | .lost f s o _ => some (fq f ++ encMsg s ++ ">" ++ encMsg o)
    | .dropped f s _ => some (fq f ++ encMsg s ++ ">X")
    | _ => none
  if l.isEmpty then "-" else ";".intercalate l

def discStr (evs : List Ev) : String :=
  let l := evs.filterMap fun
    | .discarded ms => some ms
    | _ => none
  if l.isEmpty then "~" else encMsgs l.flatten

/-- internal events the harness cannot see directly but that explain the state change -/
def noteOf (evs : List Ev) : String :=
  let s := String.join (evs.map fun
    | .throttled _ => "t"
    | .rotated _ _ => "j"
    | .lost _ _ _ _ => "l"
    | _ => "")
  if s.isEmpty then "-" else s

def render (isQueue : Bool) (r : Irc × List Ev) : String :=
  retOf isQueue r.2 ++ "\t" ++ drvOf r.2 ++ "\t" ++ chainOf r.2 ++ "\t" ++ discStr r.2 ++ "\t" ++ encState r.1 ++
    "\t" ++ noteOf r.2

def defaultCfg : Cfg :=
  { throttle := 0, joinLimit := 0, dupRefuse := false, pingOn := true, pingInterval := 120,
    connectMsgs := [], filters := [] }

def stepLine (s : Irc) : List String → Option (Irc × List Ev)
  | ["new", t] => do
    let t' ← t.toNat?
    pure (init s.cfg t')
  | ["cfg", th, jl, dup, ping, iv] => do
    let th' ← th.toNat?
    let jl' ← jl.toNat?
    let dup' ← decBit dup
    let ping' ← decBit ping
    let iv' ← iv.toNat?
    pure (step s (.config { s.cfg with throttle := th', joinLimit := jl', dupRefuse := dup',
                                        pingOn := ping', pingInterval := iv' }))
  | ["connectmsgs", ms] => do
    let cs ← decContents ms
    pure ({ s with cfg := { s.cfg with connectMsgs := cs } }, [])
  | ["filters", rs] => do
    let fs ← decRules rs
    pure ({ s with cfg := { s.cfg with filters := fs } }, [])
  | ["queue", m] => do
    let m' ← decMsg m
    pure (step s (.queue m'))
  | ["send", m] => do
    let m' ← decMsg m
    pure (step s (.send m'))
  | ["noop"] => some (s, [])       -- `queueMsg(x)` with `x` no IrcMsg: the caller gets an exception, nothing changes
  | ["take"] => some (step s .take)
  | ["die"] => some (step s .die)
  | ["reset"] => some (step s .reset)
  | ["tick", dt] => do
    let d ← dt.toNat?
    pure (step s (.tick d))
  | ["connected"] => some (step s .connected)
  | ["pong"] => some (step s .pong)
  | ["capecho", b] => do
    let b' ← decBit b
    pure (step s (.capEcho b'))
  | ["caplabel", b] => do
    let b' ← decBit b
    pure (step s (.capLabel b'))
  | _ => none

/-- the state of the driver: the Irc and the (re-entrant) filter chain in force -/
def handler : Driver.Handler :=
  { σ := Irc × List RFilter
    init := (blank defaultCfg 0, [])
    step := fun st fs =>
      match fs with
      | ["take"] =>
        -- `Irc.takeMsg()`: the re-entrant model (equal to `takeMsg` when no filter queues: rtakeMsg_plain)
        let r := rtakeMsg st.2 st.1
        ((r.1, st.2), render false r)
      | ["filters", rs] =>
        match decRRules rs, stepLine st.1 fs with
        | some rf, some r => ((r.1, rf), render false r)
        | _, _ => (st, "bad-op")
      | _ =>
        match stepLine st.1 fs with
        | some r => ((r.1, st.2), render (fs.head? == some "queue") r)
        | none => (st, "bad-op") }

end C19
