/-
C19 — property theorems.  (Helper lemmas live in `Lemmas.lean`, `Fifo.lean`, `Take.lean`, `Rate.lean`, `Stall.lean`, `Live.lean`, `Fresh.lean`.)

Vocabulary: `run s ops` = final state and event trace of the operations `ops` (any interleaving
of queueMsg / sendMsg / takeMsg / die / reset / clock ticks / MOTD end / PONG / echo-message
(un)acknowledged / configuration changes — the filters are part of the configuration) from an
arbitrary state `s`; `life c now ops` = the same from a freshly constructed `Irc`.
-/
import LimnoriaModel.C19.Fresh
import LimnoriaModel.C19.Reconnect
import LimnoriaModel.C19.Reentrant
import LimnoriaModel.C19.Ping
import LimnoriaModel.C19.Threads
namespace C19
open Py List

/-- Facts about the *extracted* tables (`_high`, `_low`, the rate-limited command) on which the
priority and JOIN-rate theorems rest; re-checked against what `/repo/src/irclib.py` says now. -/
theorem tables_ok : TablesOk Gen.highPriority Gen.lowPriority Gen.rateLimitedCommand := by decide

/-- "Urgent protocol messages before normal ones before bulk ones": PONG/MODE/KICK/NICK/PASS are
in the high class, PRIVMSG/NOTICE/JOIN/WHO/PING in the low class, QUIT/PART/TOPIC/CAP in neither;
the rate-limited command is JOIN — according to the tables extracted from the source now. -/
theorem classes_ok : ClassesOk := by decide

/-! ## no loss, no duplication -/

/-- **Conservation.**  Whatever the operations and the filters: the messages that were waiting
plus those accepted since are exactly (as multisets) those handed to the driver, those a filter
dropped, those lost to the echo-emulation assertion, those thrown away by `reset()` and those
still waiting.  Nothing is duplicated, nothing vanishes otherwise. -/
theorem conservation (s : Irc) (ops : List Op) :
    (s.pending ++ accOf (run s ops).2).Perm
      (tookOf (run s ops).2 ++ dropOf (run s ops).2 ++ lostOf (run s ops).2 ++
        discOf (run s ops).2 ++ (run s ops).1.pending) := by
  rw [perm_iff_count]
  intro x
  have h := run_conserves ops s x
  have g := goneOf_count x (run s ops).2
  simp only [count_append] at *
  omega

/-- the same for a whole life of an `Irc` object (nothing waits before it is constructed) -/
theorem conservation_life (c : Cfg) (now : Nat) (ops : List Op) :
    (accOf (life c now ops).2).Perm
      (tookOf (life c now ops).2 ++ dropOf (life c now ops).2 ++ lostOf (life c now ops).2 ++
        discOf (life c now ops).2 ++ (life c now ops).1.pending) := by
  rw [perm_iff_count]
  intro x
  have h1 : Conserves (blank c now) (life c now ops) := by
    unfold life init
    dsimp only
    have a : Conserves (blank c now) ((queueConnectMessages (blank c now)).1,
        Ev.config c.throttle c.joinLimit :: (queueConnectMessages (blank c now)).2) := by
      intro y
      have := queueConnectMessages_conserves (blank c now) y
      simpa [accOf, goneOf] using this
    exact Conserves.trans a (run_conserves ops _)
  have h := h1 x
  have g := goneOf_count x (life c now ops).2
  have hb : count x (blank c now).pending = 0 := by simp [blank, Irc.pending, Queue.all, Queue.empty]
  simp only [count_append] at *
  omega

/-- **Refusal is explicit and has no effect**: `queueMsg` answers `False` exactly when the bot
is quitting or an equal message is queued while duplicate refusal is on; the state is unchanged. -/
theorem queueMsg_refused_iff (s : Irc) (m : Msg) :
    (queueMsg s m).2 = [.refused false m] ↔
      (s.zombie = true ∨ (s.queue.contains m = true ∧ s.cfg.dupRefuse = true)) := by
  have key : (s.queue.enqueue s.cfg.dupRefuse m).2 = !(s.queue.contains m && s.cfg.dupRefuse) := by
    unfold Queue.enqueue
    split
    · rename_i h; simp [h]
    · rename_i h; simp only [Bool.not_eq_true] at h; rw [h]; split <;> rfl
  unfold queueMsg
  cases hz : s.zombie
  · simp only [Bool.not_false, if_true]
    split
    · rename_i q' he
      rw [he] at key
      constructor
      · intro h; simp at h
      · intro h
        rcases h with h | ⟨h1, h2⟩
        · cases h
        · rw [h1, h2] at key; cases key
    · rename_i q' he
      rw [he] at key
      constructor
      · intro _
        right
        simpa using key.symm
      · intro _; rfl
  · simp

theorem queueMsg_refused_state (s : Irc) (m : Msg) (h : (queueMsg s m).2 = [.refused false m]) :
    (queueMsg s m).1 = s := by
  unfold queueMsg at h ⊢
  split
  · split
    · rename_i h1 _ q' h2
      simp only [h1, h2, if_true] at h
      cases h
    · rfl
  · rfl

/-- otherwise it answers `True` and the message is appended to the list of its class -/
theorem queueMsg_accepted (s : Irc) (m : Msg)
    (h : ¬ (s.zombie = true ∨ (s.queue.contains m = true ∧ s.cfg.dupRefuse = true))) :
    (queueMsg s m).2 = [.accepted false m] ∧
    (queueMsg s m).1.pending.Perm (s.pending ++ [m]) := by
  have hne : (queueMsg s m).2 ≠ [.refused false m] := fun h' => h ((queueMsg_refused_iff s m).mp h')
  unfold queueMsg at hne ⊢
  cases hz : s.zombie
  · simp only [hz, Bool.not_false, if_true] at hne ⊢
    split
    · rename_i q' he
      refine ⟨rfl, ?_⟩
      rw [perm_iff_count]; intro x
      have := enqueue_true_count he x
      simp only [Irc.pending, count_append, count_cons_one, count_nil] at *
      omega
    · rename_i q' he; simp [he] at hne
  · exact absurd (Or.inl hz) h

/-! ## priority and first-in-first-out -/

/-- **Fast queue first, then the most urgent class, oldest first.**  In any reachable state
(`FifoInv`), a message that `takeMsg` takes from the regular queue (to hand it to the driver, or
to lose it to a filter) is the head of the most urgent non-empty class list; no queued message
has a more urgent class; the throttle interval has passed; and every message of the fast queue
was dealt with first (each was dropped by a filter in this very call). -/
theorem priority (s : Irc) (h : Hist) (hi : FifoInv s h) (e : Ev) (m : Msg)
    (he : e ∈ (takeMsg s).2) (hs : e.srcQ = some m) :
    ((∃ r, s.queue.high = m :: r) ∨ (s.queue.high = [] ∧ ∃ r, s.queue.normal = m :: r) ∨
      (s.queue.high = [] ∧ s.queue.normal = [] ∧ ∃ r, s.queue.low = m :: r)) ∧
    (∀ x ∈ s.queue.all, (classOf m.cmd).rank ≤ (classOf x.cmd).rank) ∧
    s.lastTake + s.cfg.throttle < s.now ∧
    (∀ x ∈ s.fast, Ev.dropped true x s.now ∈ (takeMsg s).2) := by
  obtain ⟨⟨q', hq⟩, ht, hf⟩ := takeAux_srcQ _ s e m he hs
  exact ⟨dequeue_msg_head hq, dequeue_msg_best hq hi.cls, ht, hf⟩

/-- a message taken from the fast queue is its head -/
theorem fast_first (s : Irc) (m : Msg) (rest : List Msg) (hf : s.fast = m :: rest) :
    ∃ e r, (takeMsg s).2 = e :: r ∧
      ((∃ o, e = .took true m o s.now) ∨ (∃ o, e = .lost true m o s.now) ∨ e = .dropped true m s.now) := by
  unfold takeMsg takeAux takeBody
  simp only [hf]
  split
  · exact ⟨_, _, rfl, Or.inl ⟨_, rfl⟩⟩
  · exact ⟨_, _, rfl, Or.inr (Or.inl ⟨_, rfl⟩)⟩
  · exact ⟨_, _, rfl, Or.inr (Or.inr rfl)⟩

/-- **First-in-first-out inside a class**, for a whole life: per class, the sequence of accepted
messages (since the last `reset()`) is the sequence of those that left followed by those still
waiting — exactly, in order, for the fast queue and the high and normal classes; for the low
class as multisets, and in order once the rate-limited command (JOIN) is disregarded: a held-back
JOIN only moves to the back, it is never dropped and nothing else is reordered. -/
theorem fifo (c : Cfg) (now : Nat) (ops : List Op) :
    FifoInv (life c now ops).1 (Hist.empty.pushAll (life c now ops).2) := by
  unfold life init
  dsimp only
  have h0 : FifoInv (blank c now) Hist.empty := blank_fifo _ rfl rfl
  have a : FifoStep (blank c now) ((queueConnectMessages (blank c now)).1,
      Ev.config c.throttle c.joinLimit :: (queueConnectMessages (blank c now)).2) := by
    intro h hi
    exact queueConnectMessages_fifo (blank c now) h hi
  exact FifoStep.trans a (run_fifo ops _) Hist.empty h0

/-- the same from any state satisfying the invariant -/
theorem fifo_run (s : Irc) (h : Hist) (hi : FifoInv s h) (ops : List Op) :
    FifoInv (run s ops).1 (h.pushAll (run s ops).2) := run_fifo ops s h hi

/-! ## a quitting bot drains its queues -/

/-- **The driver is killed only with empty queues.**  Whatever the state and the operation: if
the step calls `driver.die()`, then either it is `die()` itself on a bot that has not finished
connecting (no end of MOTD yet — by design it closes at once), or both queues are empty at that
point (after the repair of `takeMsg`: the zombie branch used to fire whenever no message was
returned — throttle, held-back JOIN, filter returning None). -/
theorem quit_drains (s : Irc) (op : Op) (h : Ev.driverDie ∈ (step s op).2) :
    (op = .die ∧ s.afterConnect = false) ∨ (step s op).1.drained := by
  cases op with
  | queue m => exact absurd h (queueMsg_die s m)
  | send m =>
    have : Ev.driverDie ∉ (sendMsg s m).2 := by unfold sendMsg; split <;> simp
    exact absurd h this
  | take => exact Or.inr (takeAux_die _ s h)
  | die =>
    left
    unfold step die at h
    dsimp only at h
    split at h
    · rename_i hc; exact ⟨rfl, by simpa using hc⟩
    · cases h
  | reset => exact Or.inr (reset_die s h)
  | tick dt => cases h
  | connected => cases h
  | pong => cases h
  | capEcho b => cases h
  | capLabel b => cases h
  | config c => simp [step] at h

/-! ## throttle and JOIN rate -/

/-- the state a freshly constructed `Irc` is in satisfies the invariants -/
theorem init_inv (c : Cfg) (now : Nat) :
    RateInv (init c now).1 ⟨c.throttle, c.joinLimit, none, none⟩ ∧ ClassInv (init c now).1.queue ∧
    Rate.run ⟨0, 0, none, none⟩ (init c now).2 = some ⟨c.throttle, c.joinLimit, none, none⟩ := by
  obtain ⟨a1, a2, a3, a4, a5⟩ := queueConnectMessages_frame (blank c now)
  unfold init
  dsimp only
  refine ⟨⟨by rw [a1]; rfl, by rw [a1]; rfl, (by intro l h; cases h), by rw [a2, a3]; exact Nat.zero_le _,
    (by intro l h; cases h), by rw [a4, a3]; exact Nat.zero_le _⟩, ?_, ?_⟩
  · rw [a4]; exact ⟨by simp [blank, Queue.empty], by simp [blank, Queue.empty], by simp [blank, Queue.empty]⟩
  · simp only [Rate.run, Rate.push]
    exact Rate.run_neutral _ _ a5

/-- **Every trace passes the rate checker** `Rate.run` (which fails as soon as a queued message is
released ≤ throttleTime after the previous one, or a queued JOIN less than rateLimit.join after the
previous queued JOIN, counted since the last `reset()` and with the rates in force at the release). -/
theorem rates (c : Cfg) (now : Nat) (ops : List Op) :
    ∃ st', Rate.run ⟨0, 0, none, none⟩ (life c now ops).2 = some st' := by
  obtain ⟨hi, hc, h0⟩ := init_inv c now
  obtain ⟨st', h1, _⟩ := run_rate tables_ok ops (init c now).1 _ hi hc
  refine ⟨st', ?_⟩
  unfold life
  dsimp only
  rw [Rate.run_append, h0]
  exact h1

/-- **Throttle / JOIN rate, spelled out.**  Take any two releases of queued messages in the trace
of a life, with no `reset()` and no change of the rates between them.  They are more than the
throttle time (in force when the first was released) apart, and if both are JOINs at least the
JOIN rate limit apart. -/
theorem throttle_join_rate (c : Cfg) (now : Nat) (ops : List Op) (a b d : List Ev)
    (m1 o1 : Msg) (t1 : Nat) (m2 o2 : Msg) (t2 : Nat)
    (htr : (life c now ops).2 = a ++ Ev.took false m1 o1 t1 :: (b ++ Ev.took false m2 o2 t2 :: d))
    (hb : ∀ e ∈ b, e.keepsRates = true) :
    ∃ st1, Rate.run ⟨0, 0, none, none⟩ a = some st1 ∧ t1 + st1.thr < t2 ∧
      (isJoin m1 = true → isJoin m2 = true → t1 + st1.jl ≤ t2) := by
  obtain ⟨st', h⟩ := rates c now ops
  rw [htr] at h
  exact Rate.run_spec _ st' a b d m1 o1 t1 m2 o2 t2 h hb

/-- with a configuration that is never changed the rates are the configured ones:
consecutive (and hence any two) releases of queued messages on one connection are more than
`throttleTime` apart, queued JOINs at least `rateLimit.join` apart -/
theorem throttle_join_rate_fixed (c : Cfg) (now : Nat) (ops : List Op)
    (hops : ∀ op ∈ ops, op.isConfig = false) (a b d : List Ev)
    (m1 o1 : Msg) (t1 : Nat) (m2 o2 : Msg) (t2 : Nat)
    (htr : (life c now ops).2 = a ++ Ev.took false m1 o1 t1 :: (b ++ Ev.took false m2 o2 t2 :: d))
    (hb : ∀ e ∈ b, ∀ ms, e ≠ Ev.discarded ms) :
    t1 + c.throttle < t2 ∧ (isJoin m1 = true → isJoin m2 = true → t1 + c.joinLimit ≤ t2) := by
  -- no config event after the first one
  have hall : ∀ e ∈ (run (init c now).1 ops).2, e.isConfig = false := run_noConfig ops _ hops
  obtain ⟨_, _, h0⟩ := init_inv c now
  obtain ⟨_, _, _, _, a5⟩ := queueConnectMessages_frame (blank c now)
  have hlife : (life c now ops).2 = Ev.config c.throttle c.joinLimit ::
      ((queueConnectMessages (blank c now)).2 ++ (run (init c now).1 ops).2) := by
    unfold life init; rfl
  have hrest : ∀ e ∈ (queueConnectMessages (blank c now)).2 ++ (run (init c now).1 ops).2,
      e.isConfig = false := by
    intro e he
    rcases mem_append.mp he with h | h
    · have := a5 e h
      cases e <;> first | rfl | cases this
    · exact hall e h
  -- `a` starts with the config event
  cases a with
  | nil => rw [hlife] at htr; injection htr with h1 _; cases h1
  | cons e0 a' =>
    rw [hlife] at htr
    injection htr with h1 h2
    subst h1
    have hb' : ∀ e ∈ b, e.keepsRates = true := by
      intro e he
      have hm : e ∈ (queueConnectMessages (blank c now)).2 ++ (run (init c now).1 ops).2 := by
        rw [h2]; simp [he]
      have := hrest e hm
      cases e with
      | discarded ms => exact absurd rfl (hb _ he ms)
      | config t j => cases this
      | _ => rfl
    have htr' : (life c now ops).2 = (Ev.config c.throttle c.joinLimit :: a') ++
        Ev.took false m1 o1 t1 :: (b ++ Ev.took false m2 o2 t2 :: d) := by
      rw [hlife, h2]; rfl
    obtain ⟨st1, r1, r2, r3⟩ := throttle_join_rate c now ops _ b d m1 o1 t1 m2 o2 t2 htr' hb'
    simp only [Rate.run, Rate.push] at r1
    have ha' : ∀ e ∈ a', e.isConfig = false := by
      intro e he
      apply hrest e
      rw [h2]; simp [he]
    obtain ⟨f1, f2⟩ := Rate.run_rates_fixed a' _ st1 r1 ha'
    rw [f1] at r2; rw [f2] at r3
    exact ⟨r2, r3⟩

/-! ## a filter returning None -/

/-- **The recursion of the Python code**: `takeMsg` is the body with `takeMsg` itself as the
recursive call (the bound used in the model is never reached). -/
theorem takeMsg_recursive (s : Irc) : takeMsg s = takeBody takeMsg s := takeMsg_unfold s

/-- **A filter returning None consumes only that message** (fast queue): the call carries on with
the next message exactly as if the dropped one had never been queued. -/
theorem filter_no_stall_fast (s : Irc) (m : Msg) (rest : List Msg) (hf : s.fast = m :: rest)
    (n : Nat) (hd : runFilters s.chain s.nextOid m = (none, n)) :
    takeMsg s =
      ((takeMsg { s with fast := rest, nextOid := n }).1,
       .dropped true m s.now :: (takeMsg { s with fast := rest, nextOid := n }).2) :=
  takeMsg_drop_fast s m rest hf n hd

/-- … and for a message of the regular queue: only that message is removed; the rest of the call
is the call one would make right after a normal release (the messages behind wait one throttle
interval, no longer; with `conservation` nothing else is consumed). -/
theorem filter_no_stall_queue (s : Irc) (hf : s.fast = []) (hq : s.queue.isEmpty = false)
    (ht : s.lastTake + s.cfg.throttle < s.now) (q' : Queue) (m : Msg)
    (hdq : s.queue.dequeue s.cfg.joinLimit s.now = (q', .msg m))
    (n : Nat) (hd : runFilters s.chain s.nextOid m = (none, n)) :
    takeMsg s =
      ((takeMsg { s with lastTake := s.now, queue := q', nextOid := n }).1,
       .dropped false m s.now :: (takeMsg { s with lastTake := s.now, queue := q', nextOid := n }).2) :=
  takeMsg_drop_queue s hf hq ht q' m hdq n hd

/-- **Nothing can stall the queues**: whatever the filters do, as soon as something is waiting
and the clock is past the throttle time and the JOIN limit, a `takeMsg` call removes a message
from a queue (it is handed to the driver, dropped by a filter, or — the known finding — lost). -/
theorem no_stall (s : Irc) (hp : s.pending ≠ []) (ht : s.lastTake + s.cfg.throttle < s.now)
    (hj : s.queue.lastJoin + s.cfg.joinLimit ≤ s.now) :
    ∃ e ∈ (takeMsg s).2, e.consumes = true :=
  takeMsg_progress s hp ht hj

/-- **A quitting bot drains its queues, then closes** (liveness, with `quit_drains` for safety):
a zombie in a reachable state (`ZInv`), with the clock advancing by more than the throttle time
and at least the JOIN limit between `takeMsg` calls, has empty queues after at most as many
calls as messages were waiting, and the call after that kills the driver. -/
theorem quit_completes (s : Irc) (hz : ZInv s) (d : Nat) (hd : s.cfg.throttle < d)
    (hj : s.cfg.joinLimit ≤ d) :
    ∃ k, k ≤ s.pending.length ∧ (run s (drainOps d k)).1.pending = [] ∧
      Ev.driverDie ∈ (run s (drainOps d (k + 1))).2 :=
  quit_completes_aux tables_ok d s.pending.length s (Nat.le_refl _) hz hd hj

/-! ## the one way a message is lost -/

/-- A message is lost (`takeMsg` returns None after removing it) only when the object coming out
of the filter chain already carries the `emulatedEcho` tag … -/
theorem lost_only_tagged (s : Irc) (op : Op) (f : Bool) (src out : Msg) (t : Nat)
    (h : Ev.lost f src out t ∈ (step s op).2) : out.oid ∈ s.echoed :=
  (step_echo s op).1 f src out t h

/-- … and since the repair of `takeMsg` (the emulated echo is a tagged *copy*) the tagged objects
are only such copies, made inside the bot: no message a caller hands over ever carries the tag. -/
theorem tagged_are_echo_copies (c : Cfg) (now : Nat) (ops : List Op) : EchoInv (life c now ops).1 := by
  unfold life
  dsimp only
  apply run_echoInv
  intro o ho
  have : (init c now).1.echoed = [] := by
    unfold init queueConnectMessages
    dsimp only
    split
    · rfl
    · exact (sendConnect_echo _ _).1
  rw [this] at ho; cases ho

/-- conservation without a loss term for a trace that has no `lost` event -/
theorem conservation_partial (c : Cfg) (now : Nat) (ops : List Op)
    (hno : lostOf (life c now ops).2 = []) :
    (accOf (life c now ops).2).Perm
      (tookOf (life c now ops).2 ++ dropOf (life c now ops).2 ++
        discOf (life c now ops).2 ++ (life c now ops).1.pending) := by
  have := conservation_life c now ops
  rw [hno, append_nil] at this
  exact this

/-- **Nothing is lost** (after the repair; this was the known finding C19-reused-object-lost):
whatever callers queue or send — the same object any number of times — and whatever the filters
do, as long as each returns its argument or a message it has just built (`FilterOk`; the only
way to lose a message is to send back an echo copy the bot itself made), no message is swallowed
by the echo-emulation assertion … -/
theorem no_loss (c : Cfg) (hc : ∀ f ∈ c.filters, FilterOk f) (now : Nat) (ops : List Op)
    (ho : OpsExt ops) : lostOf (life c now ops).2 = [] :=
  life_tag c hc now ops ho

/-- … hence **the conservation law in full**: every accepted message is handed to the driver,
dropped by a filter, discarded by `reset()` or still waiting — exactly once. -/
theorem conservation_full (c : Cfg) (hc : ∀ f ∈ c.filters, FilterOk f) (now : Nat)
    (ops : List Op) (ho : OpsExt ops) :
    (accOf (life c now ops).2).Perm
      (tookOf (life c now ops).2 ++ dropOf (life c now ops).2 ++
        discOf (life c now ops).2 ++ (life c now ops).1.pending) :=
  conservation_partial c now ops (no_loss c hc now ops ho)

/-! ## counter-example and non-vacuity -/

def exCfg : Cfg :=
  { throttle := 1, joinLimit := 3, dupRefuse := true, pingOn := false, pingInterval := 120,
    connectMsgs := [⟨[], ['N', 'I', 'C', 'K'], [['b', 'o', 't']], []⟩], filters := [] }

def privmsg (n : Nat) : Msg :=
  ⟨.ext n, ⟨[], ['P', 'R', 'I', 'V', 'M', 'S', 'G'], [['#', 'a'], ['h', 'i']], []⟩⟩
def joinMsg (n : Nat) : Msg := ⟨.ext n, ⟨[], ['J', 'O', 'I', 'N'], [['#', 'a']], []⟩⟩
def joinB (n : Nat) : Msg := ⟨.ext n, ⟨[], ['J', 'O', 'I', 'N'], [['#', 'b']], []⟩⟩
def quitMsg (n : Nat) : Msg := ⟨.ext n, ⟨[], ['Q', 'U', 'I', 'T'], [], []⟩⟩
def modeMsg (n : Nat) : Msg := ⟨.ext n, ⟨[], ['M', 'O', 'D', 'E'], [['#', 'a']], []⟩⟩

/-- the witness of the former finding C19-reused-object-lost: the same object queued again after
it was sent -/
def reuseOps : List Op :=
  [.connected, .take, .queue (privmsg 0), .tick 2, .take, .queue (privmsg 0), .tick 2, .take]

-- both copies are now handed to the driver (`no_loss` / `conservation_full` apply: `OpsExt`)
example : OpsExt reuseOps ∧ lostOf (life exCfg 1000 reuseOps).2 = [] ∧
    tookOf (life exCfg 1000 reuseOps).2 = [⟨.int 0, ⟨[], ['N', 'I', 'C', 'K'], [['b', 'o', 't']], []⟩⟩,
      privmsg 0, privmsg 0] := by
  refine ⟨⟨⟨0, rfl⟩, ⟨0, rfl⟩, trivial⟩, by decide, by decide⟩

/-- a quitting bot with mixed traffic, a dropping filter and the clock moving -/
def dropQuit : Filter := fun _ m => if m.cmd = ['W', 'H', 'O'] then none else some m
def busyCfg : Cfg := { exCfg with filters := [dropQuit] }
def whoMsg (n : Nat) : Msg := ⟨.ext n, ⟨[], ['W', 'H', 'O'], [['#', 'a']], []⟩⟩
def busyOps : List Op :=
  [.connected, .take, .queue (privmsg 0), .queue (joinMsg 1), .queue (modeMsg 2), .queue (quitMsg 3),
   .queue (joinB 4), .send (whoMsg 5), .send (modeMsg 6), .queue (privmsg 0), .die, .queue (privmsg 7),
   .tick 2, .take, .tick 2, .take, .take, .tick 2, .take, .tick 2, .take, .tick 1, .take, .tick 1, .take,
   .tick 2, .take, .tick 2, .take, .tick 2, .take]

-- `conservation_partial` is not vacuous (and the run does release, drop, refuse and kill):
example : lostOf (life busyCfg 1000 busyOps).2 = [] := by decide
example : (tookOf (life busyCfg 1000 busyOps).2).length = 7 ∧ dropOf (life busyCfg 1000 busyOps).2 = [whoMsg 5] ∧
    (life busyCfg 1000 busyOps).1.pending = [] ∧ Ev.driverDie ∈ (life busyCfg 1000 busyOps).2 := by decide
-- `queueMsg_refused_iff`: both reasons occur (duplicate, quitting)
example : Ev.refused false (privmsg 0) ∈ (life busyCfg 1000 busyOps).2 ∧
    Ev.refused false (privmsg 7) ∈ (life busyCfg 1000 busyOps).2 := by decide
-- `quit_drains`: a step that kills the driver, with both queues empty
example : Ev.driverDie ∈ (step (run (init busyCfg 1000).1 (busyOps.take 30)).1 .take).2 ∧
    (run (init busyCfg 1000).1 (busyOps.take 30)).1.pending = [] := by decide
-- `priority`: a release from the regular queue with a lower class still waiting
example : ∃ e ∈ (takeMsg (run (init busyCfg 1000).1 (busyOps.take 15)).1).2, e.srcQ = some (modeMsg 2) := by
  decide
-- `throttle_join_rate_fixed`: two queued JOINs are released (the second one held back once)
example : ∃ a b d, (life busyCfg 1000 busyOps).2 =
    a ++ Ev.took false (joinMsg 1) (joinMsg 1) 1010 :: (b ++ Ev.took false (joinB 4) (joinB 4) 1014 :: d) ∧
    (∀ e ∈ b, ∀ ms, e ≠ Ev.discarded ms) := by
  refine ⟨(life busyCfg 1000 busyOps).2.take 19, [Ev.rotated (joinB 4) 1012],
    (life busyCfg 1000 busyOps).2.drop 22, by decide, ?_⟩
  intro e he ms; simp at he; subst he; simp
-- `no_loss`: the filter of the busy run is well behaved
example : ∀ f ∈ busyCfg.filters, FilterOk f := by
  intro f hf
  simp [busyCfg] at hf
  subst hf
  intro n m m' h
  simp only [dropQuit] at h
  split at h
  · cases h
  · injection h with h; subst h; exact Or.inl rfl
-- `quit_completes` / `no_stall`: the state right after `die()` in the run above is a quitting bot
-- with seven messages waiting, and the clock then past every limit
example : let s := (run (init busyCfg 1000).1 (busyOps.take 11)).1
    s.zombie = true ∧ s.lastTake ≤ s.now ∧ s.queue.lastJoin ≤ s.now ∧ s.pending.length = 7 ∧
    s.cfg.throttle < 4 ∧ s.cfg.joinLimit ≤ 4 := by decide
-- `filter_no_stall_fast`: the dropping filter hits the head of the fast queue
example : (run (init busyCfg 1000).1 (busyOps.take 12)).1.fast = [whoMsg 5, modeMsg 6] ∧
    runFilters busyCfg.filters 1 (whoMsg 5) = (none, 2) := by decide
-- `filter_no_stall_queue`
example : let s := (run (init { busyCfg with filters := [fun _ _ => none] } 1000).1 (busyOps.take 5)).1
    s.fast = [] ∧ s.queue.isEmpty = false ∧ s.lastTake + s.cfg.throttle < s.now + 2 := by decide

/-! ## ping timeout → reconnect → reset -/

/-- **Ping timeout**: with both queues empty, after the MOTD, pings on, the interval elapsed and the
last PING unanswered, `takeMsg` makes the driver reconnect, which resets the Irc object: the result is
exactly — nothing is returned to the driver — the state with both queues cleared, the throttle, ping
and echo-message state of a new connection, and the registration messages (new objects), in order,
alone in the fast queue. -/
theorem ping_timeout_reconnects (s : Irc) (hz : s.zombie = false) (hf : s.fast = [])
    (hq : s.queue.isEmpty = true) (hc : s.afterConnect = true) (hp : s.cfg.pingOn = true)
    (ho : s.outstandingPing = true) (ht : s.lastPing + s.cfg.pingInterval < s.now) :
    takeMsg s = (afterReset s, .driverReconnect :: .discarded [] ::
      (connectObjs s.nextOid s.cfg.connectMsgs).map (Ev.accepted true)) := by
  rw [takeMsg_idle_eq s hf hq]
  have hpb : pingBranch s = (afterReset s, .driverReconnect :: .discarded [] ::
      (connectObjs s.nextOid s.cfg.connectMsgs).map (Ev.accepted true)) := by
    simp only [pingBranch, hc, hp, ht, ho, decide_true, Bool.and_self, if_true, reset_eq s hz,
      pending_nil s hf hq]
  rw [hpb]
  simp [noMsg, afterReset, hz]

/-- **`reset()` and the queues**: whatever was waiting is discarded (and reported as such — it is in
the books of `conservation`), the queue of the new connection holds exactly the registration
messages, in order, as new objects; the ping machinery is idle until the next end of MOTD, so a
reconnect cannot trigger another one; a PING left unanswered on the old connection is forgotten. -/
theorem reset_starts_clean (s : Irc) (hz : s.zombie = false) :
    (reset s).1.queue = Queue.empty ∧
    (reset s).1.fast.map (·.c) = s.cfg.connectMsgs ∧
    (∀ m ∈ (reset s).1.fast, ∃ n, m.oid = .int n ∧ s.nextOid ≤ n) ∧
    (reset s).2.head? = some (.discarded s.pending) ∧
    (reset s).1.outstandingPing = false ∧
    pingBranch (reset s).1 = ((reset s).1, []) := by
  rw [reset_eq s hz]
  refine ⟨rfl, connectObjs_contents _ _, ?_, rfl, rfl, pingBranch_idle _ rfl⟩
  intro m hm
  exact connectObjs_oids _ _ m hm

/-- `reset()` of a dying bot queues nothing: the registration is not sent again -/
theorem reset_zombie (s : Irc) (hz : s.zombie = true) :
    (reset s).1.pending = [] ∧ (reset s).2 = .discarded s.pending :: killEvents := by
  rw [reset_zombie_eq s hz]
  exact ⟨by simp [afterResetZombie, Irc.pending, Queue.all, Queue.empty], rfl⟩

/-! ## the labeled-response label -/

theorem insertTag_has (k : Str) (v : Option Str) : ∀ (l : List (Str × Option Str)),
    (insertTag k v l).any (fun kv => kv.1 = k) = true
  | [] => by simp [insertTag]
  | kv :: r => by
    unfold insertTag
    split
    · simp
    · simp only [List.any_cons, insertTag_has k v r, Bool.or_true]

/-- **The label step**: with `labeled-response` negotiated the dequeued object itself (same identity)
gets a `label` server tag unless it carries one; prefix, command and arguments are untouched; it never
drops a message.  Without the capability the chain is just the outFilters. -/
theorem label_step (n : Nat) (m : Msg) :
    ∃ m', labelFilter n m = some m' ∧ m'.oid = m.oid ∧ hasLabel m'.c = true ∧
      m'.c.pfx = m.c.pfx ∧ m'.c.cmd = m.c.cmd ∧ m'.c.args = m.c.args ∧
      (hasLabel m.c = true → m' = m) := by
  unfold labelFilter
  by_cases h : hasLabel m.c = true
  · exact ⟨m, by simp [h], rfl, h, rfl, rfl, rfl, fun _ => rfl⟩
  · refine ⟨⟨m.oid, { m.c with tags := insertTag labelKey (some (['a', 'u', 't', 'o'] ++ natDec n)) m.c.tags }⟩,
      by rw [if_neg h], rfl, ?_, rfl, rfl, rfl, fun h' => absurd h' h⟩
    unfold hasLabel
    exact insertTag_has _ _ _

theorem chain_cases (s : Irc) :
    (s.labelAcked = true → s.chain = labelFilter :: s.cfg.filters) ∧
    (s.labelAcked = false → s.chain = s.cfg.filters) := by
  constructor <;> intro h <;> simp [Irc.chain, h]

/-- **Every message handed to the driver is labelled** once `labeled-response` is negotiated (here
with no outFilter in the way: a filter may build a new message without the tag): the `if msg:` block
of `takeMsg` never drops it and what comes out carries a label. -/
theorem delivered_is_labeled (s : Irc) (m : Msg) (hl : s.labelAcked = true) (hf : s.cfg.filters = []) :
    match (deliver s m).2 with
    | .out o => hasLabel o.c = true ∧ o.oid = m.oid
    | .lost o => hasLabel o.c = true ∧ o.oid = m.oid
    | .dropped => False := by
  obtain ⟨m', h1, h2, h3, _⟩ := label_step s.nextOid m
  have hr : runFilters s.chain s.nextOid m = (some m', s.nextOid + 1) := by
    rw [(chain_cases s).1 hl, hf]
    simp only [runFilters, h1]
  unfold deliver
  rw [hr]
  simp only
  by_cases he : (isEchoCmd m'.cmd && !s.echoAcked) = true
  · by_cases hm : m'.oid ∈ s.echoed
    · simp only [he, hm, if_true]; exact ⟨h3, h2⟩
    · simp only [he, hm, if_true, if_false]; exact ⟨h3, h2⟩
  · simp only [he, if_false]; exact ⟨h3, h2⟩

/-! ## the ping machinery over histories -/

/-- **One `takeMsg`, however many rounds**: it leaves the ping state alone; or it emits exactly one
PING, at a moment (`PingDue`) when both queues are empty, the MOTD is over, pings are on, the
interval has elapsed since the last one and none is outstanding — and marks it outstanding; or,
with a PING outstanding for a whole interval, it makes the driver reconnect exactly once and the
PING is forgotten. -/
theorem take_ping_cases (s : Irc) : PingOut s (takeMsg s) := takeMsg_ping s

/-- **A ping time-out discards nothing**: the only thing `takeMsg` ever discards is the (empty) backlog
at a reconnect for an unanswered PING; a message accepted by `queueMsg`/`sendMsg` is never thrown away
by a time-out while it waits. -/
theorem timeout_discards_nothing (s : Irc) : ∀ ms ∈ discs (takeMsg s).2, ms = [] :=
  takeAux_discards_nothing _ s

/-- a PONG clears the outstanding PING -/
theorem pong_clears (s : Irc) : (step s .pong).1.outstandingPing = false := rfl

/-- **Over a whole life of the bot** (callers queue objects of their own): every reconnect by ping
time-out and the PING outstanding at the end, if any, each have a PING of their own
(`reconnects + outstanding ≤ pings`: never two time-outs for one PING, never a time-out without a
PING); and a new PING is only emitted once the previous one was answered, timed out or reset away
(`pings ≤ reconnects + PONGs and resets + outstanding`): at most one PING is outstanding at any time. -/
theorem ping_history (c : Cfg) (now : Nat) (ops : List Op) (h : QExt ops) :
    reconnOf (life c now ops).2 + b2n (life c now ops).1.outstandingPing ≤ pingsOf (life c now ops).2 ∧
    pingsOf (life c now ops).2 ≤
      reconnOf (life c now ops).2 + clearsOf ops + b2n (life c now ops).1.outstandingPing := by
  have hq := queueConnectMessages_quiet (blank c now)
  have hb := run_bal ops (init c now).1 h
  have hi : pingsOf (init c now).2 = 0 ∧ reconnOf (init c now).2 = 0 ∧
      (init c now).1.outstandingPing = false := by
    unfold init
    dsimp only
    rw [pingsOf_cons, reconnOf_cons, hq.1, hq.2.1, hq.2.2]
    exact ⟨rfl, rfl, rfl⟩
  unfold life
  dsimp only
  simp only [PingBal, hi.2.2] at hb
  have hz : b2n false = 0 := rfl
  rw [hz] at hb
  rw [pingsOf_append, reconnOf_append, hi.1, hi.2.1]
  omega

end C19
