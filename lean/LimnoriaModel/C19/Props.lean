/-
C19 — property theorems.  (Helper lemmas live in `Lemmas.lean`.)
-/
import LimnoriaModel.C19.Lemmas
namespace C19
open Py

/-- Facts about the *extracted* tables (`_high`, `_low`, the rate-limited command) on which the
priority and JOIN-rate theorems rest; re-checked against what `/repo/src/irclib.py` says now. -/
theorem tables_ok : TablesOk Gen.highPriority Gen.lowPriority Gen.rateLimitedCommand := by decide

end C19
