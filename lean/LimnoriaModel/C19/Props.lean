/-
C19 — property theorems.  (Helper lemmas live in `Lemmas.lean`, `Fifo.lean`, `Take.lean`.)

Vocabulary: `run s ops` = final state and event trace of the operations `ops` (any interleaving
of queueMsg / sendMsg / takeMsg / die / reset / clock ticks / MOTD end / PONG / echo-message
(un)acknowledged / configuration changes — the filters are part of the configuration) from an
arbitrary state `s`; `life c now ops` = the same from a freshly constructed `Irc`.
-/
import LimnoriaModel.C19.Take
namespace C19
open Py List

/-- Facts about the *extracted* tables (`_high`, `_low`, the rate-limited command) on which the
priority and JOIN-rate theorems rest; re-checked against what `/repo/src/irclib.py` says now. -/
theorem tables_ok : TablesOk Gen.highPriority Gen.lowPriority Gen.rateLimitedCommand := by decide

/-! ## no loss, no duplication -/

/-- **Conservation.**  Whatever the operations and the filters: the messages that were waiting
plus those accepted since are exactly (as multisets) those handed to the driver, those a filter
dropped, those lost to the echo-emulation assertion, those thrown away by `reset()` and those
still waiting.  Nothing is duplicated, nothing vanishes otherwise. -/
theorem conservation (s : Irc) (ops : List Op) :
    (s.pending ++ accOf (run s ops).2).Perm
      (tookOf (run s ops).2 ++ dropOf (run s ops).2 ++ lostOf (run s ops).2 ++
        discOf (run s ops).2 ++ (run s ops).1.pending) := by
  rw [perm_iff_count]
  intro x
  have h := run_conserves ops s x
  have g := goneOf_count x (run s ops).2
  simp only [count_append] at *
  omega

/-- the same for a whole life of an `Irc` object (nothing waits before it is constructed) -/
theorem conservation_life (c : Cfg) (now : Nat) (ops : List Op) :
    (accOf (life c now ops).2).Perm
      (tookOf (life c now ops).2 ++ dropOf (life c now ops).2 ++ lostOf (life c now ops).2 ++
        discOf (life c now ops).2 ++ (life c now ops).1.pending) := by
  rw [perm_iff_count]
  intro x
  have h1 : Conserves (blank c now) (life c now ops) := by
    unfold life init
    dsimp only
    have a : Conserves (blank c now) ((queueConnectMessages (blank c now)).1,
        Ev.config c.throttle c.joinLimit :: (queueConnectMessages (blank c now)).2) := by
      intro y
      have := queueConnectMessages_conserves (blank c now) y
      simpa [accOf, goneOf] using this
    exact Conserves.trans a (run_conserves ops _)
  have h := h1 x
  have g := goneOf_count x (life c now ops).2
  have hb : count x (blank c now).pending = 0 := by simp [blank, Irc.pending, Queue.all, Queue.empty]
  simp only [count_append] at *
  omega

/-- **Refusal is explicit and has no effect**: `queueMsg` answers `False` exactly when the bot
is quitting or an equal message is queued while duplicate refusal is on; the state is unchanged. -/
theorem queueMsg_refused_iff (s : Irc) (m : Msg) :
    (queueMsg s m).2 = [.refused false m] ↔
      (s.zombie = true ∨ (s.queue.contains m = true ∧ s.cfg.dupRefuse = true)) := by
  have key : (s.queue.enqueue s.cfg.dupRefuse m).2 = !(s.queue.contains m && s.cfg.dupRefuse) := by
    unfold Queue.enqueue
    split
    · rename_i h; simp [h]
    · rename_i h; simp only [Bool.not_eq_true] at h; rw [h]; split <;> rfl
  unfold queueMsg
  cases hz : s.zombie
  · simp only [Bool.not_false, if_true]
    split
    · rename_i q' he
      rw [he] at key
      constructor
      · intro h; simp at h
      · intro h
        rcases h with h | ⟨h1, h2⟩
        · cases h
        · rw [h1, h2] at key; cases key
    · rename_i q' he
      rw [he] at key
      constructor
      · intro _
        right
        simpa using key.symm
      · intro _; rfl
  · simp

theorem queueMsg_refused_state (s : Irc) (m : Msg) (h : (queueMsg s m).2 = [.refused false m]) :
    (queueMsg s m).1 = s := by
  unfold queueMsg at h ⊢
  split
  · split
    · rename_i h1 _ q' h2
      simp only [h1, h2, if_true] at h
      cases h
    · rfl
  · rfl

/-- otherwise it answers `True` and the message is appended to the list of its class -/
theorem queueMsg_accepted (s : Irc) (m : Msg)
    (h : ¬ (s.zombie = true ∨ (s.queue.contains m = true ∧ s.cfg.dupRefuse = true))) :
    (queueMsg s m).2 = [.accepted false m] ∧
    (queueMsg s m).1.pending.Perm (s.pending ++ [m]) := by
  have hne : (queueMsg s m).2 ≠ [.refused false m] := fun h' => h ((queueMsg_refused_iff s m).mp h')
  unfold queueMsg at hne ⊢
  cases hz : s.zombie
  · simp only [hz, Bool.not_false, if_true] at hne ⊢
    split
    · rename_i q' he
      refine ⟨rfl, ?_⟩
      rw [perm_iff_count]; intro x
      have := enqueue_true_count he x
      simp only [Irc.pending, count_append, count_cons_one, count_nil] at *
      omega
    · rename_i q' he; simp [he] at hne
  · exact absurd (Or.inl hz) h

/-! ## priority and first-in-first-out -/

/-- **Fast queue first, then the most urgent class, oldest first.**  In any reachable state
(`FifoInv`), a message that `takeMsg` takes from the regular queue (to hand it to the driver, or
to lose it to a filter) is the head of the most urgent non-empty class list; no queued message
has a more urgent class; the throttle interval has passed; and every message of the fast queue
was dealt with first (each was dropped by a filter in this very call). -/
theorem priority (s : Irc) (h : Hist) (hi : FifoInv s h) (e : Ev) (m : Msg)
    (he : e ∈ (takeMsg s).2) (hs : e.srcQ = some m) :
    ((∃ r, s.queue.high = m :: r) ∨ (s.queue.high = [] ∧ ∃ r, s.queue.normal = m :: r) ∨
      (s.queue.high = [] ∧ s.queue.normal = [] ∧ ∃ r, s.queue.low = m :: r)) ∧
    (∀ x ∈ s.queue.all, (classOf m.cmd).rank ≤ (classOf x.cmd).rank) ∧
    s.lastTake + s.cfg.throttle < s.now ∧
    (∀ x ∈ s.fast, Ev.dropped true x s.now ∈ (takeMsg s).2) := by
  obtain ⟨⟨q', hq⟩, ht, hf⟩ := takeAux_srcQ _ s e m he hs
  exact ⟨dequeue_msg_head hq, dequeue_msg_best hq hi.cls, ht, hf⟩

/-- a message taken from the fast queue is its head -/
theorem fast_first (s : Irc) (m : Msg) (rest : List Msg) (hf : s.fast = m :: rest) :
    ∃ e r, (takeMsg s).2 = e :: r ∧
      ((∃ o, e = .took true m o s.now) ∨ (∃ o, e = .lost true m o s.now) ∨ e = .dropped true m s.now) := by
  unfold takeMsg takeAux
  simp only [hf]
  split
  · exact ⟨_, _, rfl, Or.inl ⟨_, rfl⟩⟩
  · exact ⟨_, _, rfl, Or.inr (Or.inl ⟨_, rfl⟩)⟩
  · exact ⟨_, _, rfl, Or.inr (Or.inr rfl)⟩

/-- **First-in-first-out inside a class**, for a whole life: per class, the sequence of accepted
messages (since the last `reset()`) is the sequence of those that left followed by those still
waiting — exactly, in order, for the fast queue and the high and normal classes; for the low
class as multisets, and in order once the rate-limited command (JOIN) is disregarded: a held-back
JOIN only moves to the back, it is never dropped and nothing else is reordered. -/
theorem fifo (c : Cfg) (now : Nat) (ops : List Op) :
    FifoInv (life c now ops).1 (Hist.empty.pushAll (life c now ops).2) := by
  unfold life init
  dsimp only
  have h0 : FifoInv (blank c now) Hist.empty := blank_fifo _ rfl rfl
  have a : FifoStep (blank c now) ((queueConnectMessages (blank c now)).1,
      Ev.config c.throttle c.joinLimit :: (queueConnectMessages (blank c now)).2) := by
    intro h hi
    exact queueConnectMessages_fifo (blank c now) h hi
  exact FifoStep.trans a (run_fifo ops _) Hist.empty h0

/-- the same from any state satisfying the invariant -/
theorem fifo_run (s : Irc) (h : Hist) (hi : FifoInv s h) (ops : List Op) :
    FifoInv (run s ops).1 (h.pushAll (run s ops).2) := run_fifo ops s h hi

/-! ## a quitting bot drains its queues -/

/-- **The driver is killed only with empty queues.**  Whatever the state and the operation: if
the step calls `driver.die()`, then either it is `die()` itself on a bot that has not finished
connecting (no end of MOTD yet — by design it closes at once), or both queues are empty at that
point (after the repair of `takeMsg`: the zombie branch used to fire whenever no message was
returned — throttle, held-back JOIN, filter returning None). -/
theorem quit_drains (s : Irc) (op : Op) (h : Ev.driverDie ∈ (step s op).2) :
    (op = .die ∧ s.afterConnect = false) ∨ (step s op).1.drained := by
  cases op with
  | queue m => exact absurd h (queueMsg_die s m)
  | send m =>
    have : Ev.driverDie ∉ (sendMsg s m).2 := by unfold sendMsg; split <;> simp
    exact absurd h this
  | take => exact Or.inr (takeAux_die _ s h)
  | die =>
    left
    unfold step die at h
    dsimp only at h
    split at h
    · rename_i hc; exact ⟨rfl, by simpa using hc⟩
    · cases h
  | reset => exact Or.inr (reset_die s h)
  | tick dt => cases h
  | connected => cases h
  | pong => cases h
  | capEcho b => cases h
  | config c => simp [step] at h

end C19
