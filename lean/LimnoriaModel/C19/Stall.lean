/-
C19 — the recursion bound of `takeMsg` is never reached; what a filter returning `None` costs;
the echo-emulation loss (helper lemmas).
-/
import LimnoriaModel.C19.Rate
namespace C19
open Py List

theorem dequeue_msg_length {limit now : Nat} {q q' : Queue} {m : Msg}
    (h : q.dequeue limit now = (q', .msg m)) : q.all.length = q'.all.length + 1 := by
  unfold Queue.dequeue at h
  split at h
  · rename_i m' hs hh
    injection h with h1 h2; subst h1
    simp [Queue.all, hh]
  · rename_i hh
    split at h
    · rename_i m' ns hn
      injection h with h1 h2; subst h1
      simp [Queue.all, hh, hn]
    · rename_i hn
      split at h
      · injection h with _ h2; cases h2
      · rename_i m' ls hl
        split at h
        · split at h
          · injection h with h1 h2; subst h1
            simp [Queue.all, hh, hn, hl]
          · injection h with _ h2; cases h2
        · injection h with h1 h2; subst h1
          simp [Queue.all, hh, hn, hl]

/-- the body only ever calls `again` on a state with fewer pending messages -/
theorem takeBody_congr (r1 r2 : Irc → Irc × List Ev) (s : Irc)
    (h : ∀ s1 : Irc, s1.pending.length < s.pending.length → r1 s1 = r2 s1) :
    takeBody r1 s = takeBody r2 s := by
  unfold takeBody
  split
  · rename_i m rest hf
    split
    · rfl
    · rfl
    · rename_i s1 hd
      have hp := deliver_pending' hd
      have : s1.pending.length < s.pending.length := by
        rw [hp]; simp [Irc.pending, hf]
      rw [h s1 this]
  · rename_i hf
    split
    · split
      · rfl
      · split
        · rename_i q' m hq
          split
          · rfl
          · rfl
          · rename_i s1 hd
            have hp := deliver_pending' hd
            have hl := dequeue_msg_length hq
            have : s1.pending.length < s.pending.length := by
              rw [hp]; simp [Irc.pending, hf]; omega
            rw [h s1 this]
        · rfl
        · rfl
    · rfl

/-- more fuel than pending messages: one more changes nothing -/
theorem takeAux_succ : ∀ (fuel : Nat) (s : Irc), s.pending.length < fuel →
    takeAux (fuel + 1) s = takeAux fuel s
  | 0, _, h => absurd h (Nat.not_lt_zero _)
  | k + 1, s, h => by
    show takeBody (takeAux (k + 1)) s = takeBody (takeAux k) s
    apply takeBody_congr
    intro s1 h1
    exact takeAux_succ k s1 (by omega)

theorem takeAux_fuel (s : Irc) : ∀ (extra : Nat),
    takeAux (s.pending.length + 1 + extra) s = takeMsg s
  | 0 => rfl
  | e + 1 => by
    rw [← Nat.add_assoc, takeAux_succ _ s (by omega)]
    exact takeAux_fuel s e

/-- `takeMsg` satisfies the recursive equation of the Python code: the bound is an artefact -/
theorem takeMsg_unfold (s : Irc) : takeMsg s = takeBody takeMsg s := by
  show takeBody (takeAux s.pending.length) s = takeBody takeMsg s
  apply takeBody_congr
  intro s1 h1
  have := takeAux_fuel s1 (s.pending.length - (s1.pending.length + 1))
  rw [← this]
  congr 1
  omega

/-! ### a filter returning `None` -/

/-- dropping filter on the head of the fast queue: that message is consumed, and `takeMsg`
carries on with the rest exactly as if the message had never been there -/
theorem takeMsg_drop_fast (s : Irc) (m : Msg) (rest : List Msg) (hf : s.fast = m :: rest)
    (n : Nat) (hd : runFilters s.chain s.nextOid m = (none, n)) :
    takeMsg s =
      ((takeMsg { s with fast := rest, nextOid := n }).1,
       .dropped true m s.now :: (takeMsg { s with fast := rest, nextOid := n }).2) := by
  rw [takeMsg_unfold s]
  unfold takeBody
  simp only [hf]
  have : deliver { s with fast := rest } m = ({ s with fast := rest, nextOid := n }, .dropped) := by
    have hc : Irc.chain { s with fast := rest } = s.chain := rfl
    simp only [deliver, hc, hd]
  simp only [this]

/-- dropping filter on a message taken from the regular queue: exactly that message is consumed;
the call ends like a call made right after a release (the messages behind wait one throttle
interval, as they would have had the message been sent) -/
theorem takeMsg_drop_queue (s : Irc) (hf : s.fast = []) (hq : s.queue.isEmpty = false)
    (ht : s.lastTake + s.cfg.throttle < s.now) (q' : Queue) (m : Msg)
    (hdq : s.queue.dequeue s.cfg.joinLimit s.now = (q', .msg m))
    (n : Nat) (hd : runFilters s.chain s.nextOid m = (none, n)) :
    takeMsg s =
      ((takeMsg { s with lastTake := s.now, queue := q', nextOid := n }).1,
       .dropped false m s.now :: (takeMsg { s with lastTake := s.now, queue := q', nextOid := n }).2) := by
  rw [takeMsg_unfold s]
  unfold takeBody
  have hnle : ¬ s.now ≤ s.lastTake + s.cfg.throttle := Nat.not_le.mpr ht
  have : deliver { s with lastTake := s.now, queue := q' } m
      = ({ s with lastTake := s.now, queue := q', nextOid := n }, .dropped) := by
    have hc : Irc.chain { s with lastTake := s.now, queue := q' } = s.chain := rfl
    simp only [deliver, hc, hd]
  simp only [hf] at this
  simp only [hf, hq, Bool.not_false, if_true, hnle, if_false, hdq, this]

/-! ### the echo-emulation loss -/

/-- the objects that carry the `emulatedEcho` tag are objects made inside the bot (echo copies) -/
def EchoInv (s : Irc) : Prop := ∀ o ∈ s.echoed, ∃ k, o = Oid.int k

/-- a `lost` event of this result concerns an object tagged before; new tags go to new internal objects -/
def EchoOk (s : Irc) (r : Irc × List Ev) : Prop :=
  (∀ f src out t, Ev.lost f src out t ∈ r.2 → out.oid ∈ s.echoed) ∧
  (∀ o ∈ r.1.echoed, o ∈ s.echoed ∨ ∃ k, o = Oid.int k)

theorem EchoOk.of_same {s s' : Irc} {evs : List Ev} (he : s'.echoed = s.echoed)
    (hl : ∀ f src out t, Ev.lost f src out t ∉ evs) : EchoOk s (s', evs) :=
  ⟨fun f src out t h => absurd h (hl f src out t), fun _ ho => Or.inl (he ▸ ho)⟩

theorem deliver_echo {s s1 : Irc} {m : Msg} {d : Delivery} (h : deliver s m = (s1, d)) :
    match d with
    | .dropped => s1.echoed = s.echoed
    | .lost o => o.oid ∈ s.echoed ∧ s1.echoed = s.echoed
    | .out _ => s1.echoed = s.echoed ∨ ∃ k, s1.echoed = Oid.int k :: s.echoed := by
  unfold deliver at h
  split at h
  · injection h with h1 h2; subst h1 h2; rfl
  · dsimp only at h
    split at h
    · split at h
      · rename_i hin
        injection h with h1 h2; subst h1 h2; exact ⟨hin, rfl⟩
      · injection h with h1 h2; subst h1 h2; exact Or.inr ⟨_, rfl⟩
    · injection h with h1 h2; subst h1 h2; exact Or.inl rfl

/-- events that are neither `lost` nor `took` -/
def Ev.plain : Ev → Bool
  | .lost _ _ _ _ => false
  | .took _ _ _ _ => false
  | _ => true

theorem EchoOk.of_plain {s s' : Irc} {evs : List Ev} (he : s'.echoed = s.echoed)
    (hp : ∀ e ∈ evs, e.plain = true) : EchoOk s (s', evs) :=
  EchoOk.of_same he (fun f src out t h => by have := hp _ h; cases this)

theorem EchoOk.cons_plain {s s0 s1 : Irc} {e : Ev} {evs : List Ev} (he : e.plain = true)
    (hs : s0.echoed = s.echoed) (h : EchoOk s0 (s1, evs)) : EchoOk s (s1, e :: evs) := by
  constructor
  · intro f src out t hm
    rcases mem_cons.mp hm with hm | hm
    · subst hm; cases he
    · rw [← hs]; exact h.1 f src out t hm
  · intro o ho
    rcases h.2 o ho with h' | h'
    · exact Or.inl (hs ▸ h')
    · exact Or.inr h'

theorem noMsg_plain (s : Irc) : ∀ e ∈ (noMsg s).2, e.plain = true := by
  intro e he
  rcases noMsg_events s with h | h <;> rw [h] at he
  · cases he
  · simp [killEvents] at he; subst he; rfl

theorem noMsg_echo (s : Irc) : EchoOk s (noMsg s) := by
  have : (noMsg s).1.echoed = s.echoed := by rw [noMsg_state]
  exact EchoOk.of_plain this (noMsg_plain s)

theorem sendConnect_echo (cs : List Content) : ∀ s : Irc,
    (sendConnect s cs).1.echoed = s.echoed ∧ ∀ e ∈ (sendConnect s cs).2, e.plain = true := by
  induction cs with
  | nil => intro s; exact ⟨rfl, by intro e h; cases h⟩
  | cons c cs ih =>
    intro s
    unfold sendConnect
    dsimp only
    have a : (sendMsg { s with nextOid := s.nextOid + 1 } ⟨.int s.nextOid, c⟩).1.echoed = s.echoed ∧
        ∀ e ∈ (sendMsg { s with nextOid := s.nextOid + 1 } ⟨.int s.nextOid, c⟩).2, e.plain = true := by
      unfold sendMsg; split <;> exact ⟨rfl, by intro e h; simp at h; subst h; rfl⟩
    obtain ⟨b1, b2⟩ := ih (sendMsg { s with nextOid := s.nextOid + 1 } ⟨.int s.nextOid, c⟩).1
    refine ⟨by rw [b1, a.1], ?_⟩
    intro e he
    rcases mem_append.mp he with h | h
    · exact a.2 e h
    · exact b2 e h

theorem reset_echo (s : Irc) : (reset s).1.echoed = s.echoed ∧ ∀ e ∈ (reset s).2, e.plain = true := by
  unfold reset queueConnectMessages
  dsimp only
  split
  · exact ⟨rfl, by intro e h; simp [killEvents] at h; rcases h with h | h <;> (subst h; rfl)⟩
  · obtain ⟨a, b⟩ := sendConnect_echo s.cfg.connectMsgs
      { s with lastTake := 0, afterConnect := false, lastPing := s.now, outstandingPing := false,
               echoAcked := false, labelAcked := false, queue := Queue.empty, fast := [] }
    refine ⟨a, ?_⟩
    intro e he
    rcases mem_cons.mp he with h | h
    · subst h; rfl
    · exact b e h

theorem queueMsg_echo (s : Irc) (m : Msg) :
    (queueMsg s m).1.echoed = s.echoed ∧ ∀ e ∈ (queueMsg s m).2, e.plain = true := by
  unfold queueMsg
  split
  · split <;> exact ⟨rfl, by intro e h; simp at h; subst h; rfl⟩
  · exact ⟨rfl, by intro e h; simp at h; subst h; rfl⟩

theorem pingBranch_echo (s : Irc) :
    (pingBranch s).1.echoed = s.echoed ∧ ∀ e ∈ (pingBranch s).2, e.plain = true := by
  unfold pingBranch
  split
  · split
    · dsimp only
      obtain ⟨a, b⟩ := reset_echo s
      refine ⟨a, ?_⟩
      intro e he
      rcases mem_cons.mp he with h | h
      · subst h; rfl
      · exact b e h
    · split
      · dsimp only
        obtain ⟨a, b⟩ := queueMsg_echo
          { s with lastPing := s.now, outstandingPing := true, nextOid := s.nextOid + 1 }
          ⟨.int s.nextOid, ⟨[], ['P', 'I', 'N', 'G'], [natDec s.now], []⟩⟩
        exact ⟨a, b⟩
      · exact ⟨rfl, by intro e h; cases h⟩
  · exact ⟨rfl, by intro e h; cases h⟩

theorem takeAux_echo : ∀ (fuel : Nat) (s : Irc), EchoOk s (takeAux fuel s)
  | 0, s => EchoOk.of_plain rfl (by intro e h; cases h)
  | fuel + 1, s => by
    unfold takeAux takeBody
    split
    · rename_i m rest hf
      split
      · rename_i s1 o hd
        have := deliver_echo hd
        dsimp only at this
        constructor
        · intro f src out t h; simp at h
        · intro x hx
          rcases this with h | ⟨k, h⟩
          · exact Or.inl (h ▸ hx)
          · rw [h] at hx
            rcases mem_cons.mp hx with hx | hx
            · exact Or.inr ⟨k, hx⟩
            · exact Or.inl hx
      · rename_i s1 o hd
        have := deliver_echo hd
        dsimp only at this
        constructor
        · intro f src out t h
          simp at h
          obtain ⟨_, _, h3, _⟩ := h; subst h3; exact this.1
        · intro x hx; exact Or.inl (this.2 ▸ hx)
      · rename_i s1 hd
        have := deliver_echo hd
        dsimp only at this
        exact EchoOk.cons_plain rfl this (takeAux_echo fuel s1)
    · rename_i hf
      split
      · split
        · dsimp only
          exact EchoOk.cons_plain rfl rfl (noMsg_echo s)
        · split
          · rename_i q' m hq
            split
            · rename_i s1 o hd
              have := deliver_echo hd
              dsimp only at this
              constructor
              · intro f src out t h; simp at h
              · intro x hx
                rcases this with h | ⟨k, h⟩
                · exact Or.inl (h ▸ hx)
                · rw [h] at hx
                  rcases mem_cons.mp hx with hx | hx
                  · exact Or.inr ⟨k, hx⟩
                  · exact Or.inl hx
            · rename_i s1 o hd
              have := deliver_echo hd
              dsimp only at this
              constructor
              · intro f src out t h
                simp at h
                obtain ⟨_, _, h3, _⟩ := h; subst h3; exact this.1
              · intro x hx; exact Or.inl (this.2 ▸ hx)
            · rename_i s1 hd
              have := deliver_echo hd
              dsimp only at this
              exact EchoOk.cons_plain rfl this (takeAux_echo fuel s1)
          · dsimp only
            exact EchoOk.cons_plain rfl rfl (noMsg_echo _)
          · exact noMsg_echo _
      · dsimp only
        obtain ⟨a, b⟩ := pingBranch_echo s
        have hn := noMsg_plain (pingBranch s).1
        refine EchoOk.of_plain ?_ ?_
        · rw [noMsg_state]; exact a
        · intro e he
          rcases mem_append.mp he with h | h
          · exact b e h
          · exact hn e h

theorem step_echo (s : Irc) (op : Op) : EchoOk s (step s op) := by
  cases op with
  | queue m => obtain ⟨a, b⟩ := queueMsg_echo s m; exact EchoOk.of_plain a b
  | send m =>
    have : (sendMsg s m).1.echoed = s.echoed ∧ ∀ e ∈ (sendMsg s m).2, e.plain = true := by
      unfold sendMsg; split <;> exact ⟨rfl, by intro e h; simp at h; subst h; rfl⟩
    exact EchoOk.of_plain this.1 this.2
  | take => exact takeAux_echo _ s
  | die =>
    unfold step die; dsimp only
    split
    · exact EchoOk.of_plain rfl (by intro e h; simp at h; subst h; rfl)
    · exact EchoOk.of_plain rfl (by intro e h; cases h)
  | reset => obtain ⟨a, b⟩ := reset_echo s; exact EchoOk.of_plain a b
  | tick dt => exact EchoOk.of_plain rfl (by intro e h; cases h)
  | connected => exact EchoOk.of_plain rfl (by intro e h; cases h)
  | pong => exact EchoOk.of_plain rfl (by intro e h; cases h)
  | capEcho b => exact EchoOk.of_plain rfl (by intro e h; cases h)
  | capLabel b => exact EchoOk.of_plain rfl (by intro e h; cases h)
  | config c => exact EchoOk.of_plain rfl (by intro e h; simp at h; subst h; rfl)

/-- along a run the tagged objects stay internal ones -/
theorem run_echoInv : ∀ (ops : List Op) (s : Irc), EchoInv s → EchoInv (run s ops).1
  | [], s, h => by simpa [run] using h
  | op :: ops, s, h => by
    unfold run
    dsimp only
    apply run_echoInv ops
    intro o ho
    rcases (step_echo s op).2 o ho with h' | h'
    · exact h o h'
    · exact h'

/-! ### only a configuration change emits a `config` event -/

def Ev.isConfig : Ev → Bool
  | .config _ _ => true
  | _ => false

theorem noMsg_noConfig (s : Irc) : ∀ e ∈ (noMsg s).2, e.isConfig = false := by
  intro e he
  rcases noMsg_events s with h | h <;> rw [h] at he
  · cases he
  · simp [killEvents] at he; subst he; rfl

theorem sendConnect_noConfig (cs : List Content) : ∀ s : Irc,
    ∀ e ∈ (sendConnect s cs).2, e.isConfig = false := by
  induction cs with
  | nil => intro s e h; cases h
  | cons c cs ih =>
    intro s e he
    unfold sendConnect at he
    dsimp only at he
    rcases mem_append.mp he with h | h
    · unfold sendMsg at h; split at h <;> (simp at h; subst h; rfl)
    · exact ih _ e h

theorem reset_noConfig (s : Irc) : ∀ e ∈ (reset s).2, e.isConfig = false := by
  intro e he
  unfold reset queueConnectMessages at he
  dsimp only at he
  rcases mem_cons.mp he with h | h
  · subst h; rfl
  · split at h
    · simp [killEvents] at h; subst h; rfl
    · exact sendConnect_noConfig _ _ e h

theorem queueMsg_noConfig (s : Irc) (m : Msg) : ∀ e ∈ (queueMsg s m).2, e.isConfig = false := by
  intro e he
  unfold queueMsg at he
  split at he
  · split at he <;> (simp at he; subst he; rfl)
  · simp at he; subst he; rfl

theorem pingBranch_noConfig (s : Irc) : ∀ e ∈ (pingBranch s).2, e.isConfig = false := by
  intro e he
  unfold pingBranch at he
  split at he
  · split at he
    · dsimp only at he
      rcases mem_cons.mp he with h | h
      · subst h; rfl
      · exact reset_noConfig s e h
    · split at he
      · exact queueMsg_noConfig _ _ e he
      · cases he
  · cases he

theorem takeAux_noConfig : ∀ (fuel : Nat) (s : Irc), ∀ e ∈ (takeAux fuel s).2, e.isConfig = false
  | 0, _ => by intro e h; cases h
  | fuel + 1, s => by
    intro e he
    unfold takeAux takeBody at he
    split at he
    · split at he
      · simp at he; subst he; rfl
      · simp at he; subst he; rfl
      · rcases mem_cons.mp he with h | h
        · subst h; rfl
        · exact takeAux_noConfig fuel _ e h
    · split at he
      · split at he
        · dsimp only at he
          rcases mem_cons.mp he with h | h
          · subst h; rfl
          · exact noMsg_noConfig _ e h
        · split at he
          · split at he
            · simp at he; subst he; rfl
            · simp at he; subst he; rfl
            · rcases mem_cons.mp he with h | h
              · subst h; rfl
              · exact takeAux_noConfig fuel _ e h
          · dsimp only at he
            rcases mem_cons.mp he with h | h
            · subst h; rfl
            · exact noMsg_noConfig _ e h
          · exact noMsg_noConfig _ e he
      · dsimp only at he
        rcases mem_append.mp he with h | h
        · exact pingBranch_noConfig s e h
        · exact noMsg_noConfig _ e h

def Op.isConfig : Op → Bool
  | .config _ => true
  | _ => false

theorem step_noConfig (s : Irc) (op : Op) (ho : op.isConfig = false) :
    ∀ e ∈ (step s op).2, e.isConfig = false := by
  intro e he
  cases op with
  | queue m => exact queueMsg_noConfig s m e he
  | send m =>
    have he' : e ∈ (sendMsg s m).2 := he
    unfold sendMsg at he'; split at he' <;> (simp at he'; subst he'; rfl)
  | take => exact takeAux_noConfig _ s e he
  | die =>
    have he' : e ∈ (die s).2 := he
    unfold die at he'; dsimp only at he'
    split at he'
    · simp at he'; subst he'; rfl
    · cases he'
  | reset => exact reset_noConfig s e he
  | tick dt => cases he
  | connected => cases he
  | pong => cases he
  | capEcho b => cases he
  | capLabel b => cases he
  | config c => cases ho

theorem run_noConfig : ∀ (ops : List Op) (s : Irc), (∀ op ∈ ops, op.isConfig = false) →
    ∀ e ∈ (run s ops).2, e.isConfig = false
  | [], _, _ => by intro e h; cases h
  | op :: ops, s, ho => by
    intro e he
    unfold run at he
    dsimp only at he
    rcases mem_append.mp he with h | h
    · exact step_noConfig s op (ho op mem_cons_self) e h
    · exact run_noConfig ops _ (fun o h' => ho o (mem_cons_of_mem _ h')) e h

/-- the checker's rates only change at `config` events -/
theorem Rate.run_rates_fixed : ∀ (a : List Ev) (st st1 : Rate), Rate.run st a = some st1 →
    (∀ e ∈ a, e.isConfig = false) → st1.thr = st.thr ∧ st1.jl = st.jl
  | [], st, st1, h, _ => by injection h with h; subst h; exact ⟨rfl, rfl⟩
  | e :: a, st, st1, h, hn => by
    simp only [Rate.run] at h
    split at h
    · cases h
    · rename_i st2 hp
      obtain ⟨h1, h2⟩ := Rate.run_rates_fixed a st2 st1 h (fun e' he' => hn e' (mem_cons_of_mem _ he'))
      have hne := hn e mem_cons_self
      have : st2.thr = st.thr ∧ st2.jl = st.jl := by
        cases e <;> try (simp only [Rate.push] at hp; injection hp with hp; subst hp; exact ⟨rfl, rfl⟩)
        · rename_i f src o t
          cases f
          · simp only [Rate.push] at hp
            split at hp
            · injection hp with hp; subst hp; exact ⟨rfl, rfl⟩
            · cases hp
          · simp only [Rate.push] at hp; injection hp with hp; subst hp; exact ⟨rfl, rfl⟩
        · cases hne
      exact ⟨h1.trans this.1, h2.trans this.2⟩

end C19
