/-
C19 — throttle and JOIN rate: a checker over event traces and the invariant that makes every
trace of the model pass it (helper lemmas).
-/
import LimnoriaModel.C19.Take
namespace C19
open Py List

/-- state of the rate checker: the rates in force, and the time of the last release of a queued
message / of a queued JOIN since the last `reset()` -/
structure Rate where
  thr : Nat
  jl : Nat
  lastQ : Option Nat
  lastJ : Option Nat
deriving DecidableEq, Repr

def isJoin (m : Msg) : Bool := m.cmd == Gen.rateLimitedCommand

/-- `none` = the trace breaks a rate -/
def Rate.push (st : Rate) : Ev → Option Rate
  | .took false src _ t =>
    if (st.lastQ.all fun l => decide (l + st.thr < t)) &&
       (!isJoin src || st.lastJ.all fun l => decide (l + st.jl ≤ t)) then
      some { st with lastQ := some t, lastJ := if isJoin src then some t else st.lastJ }
    else none
  | .discarded _ => some { st with lastQ := none, lastJ := none }
  | .config t j => some { st with thr := t, jl := j }
  | _ => some st

def Rate.run : Rate → List Ev → Option Rate
  | st, [] => some st
  | st, e :: r => match st.push e with
    | none => none
    | some st' => Rate.run st' r

theorem Rate.run_append (st : Rate) (a b : List Ev) :
    Rate.run st (a ++ b) = (Rate.run st a).bind fun st' => Rate.run st' b := by
  induction a generalizing st with
  | nil => rfl
  | cons e r ih =>
    simp only [cons_append, Rate.run]
    cases st.push e with
    | none => rfl
    | some st' => exact ih st'

structure RateInv (s : Irc) (st : Rate) : Prop where
  thr : st.thr = s.cfg.throttle
  jl : st.jl = s.cfg.joinLimit
  lastQ : ∀ l, st.lastQ = some l → l ≤ s.lastTake
  takeNow : s.lastTake ≤ s.now
  lastJ : ∀ l, st.lastJ = some l → l ≤ s.queue.lastJoin
  joinNow : s.queue.lastJoin ≤ s.now

/-- the step's events pass the checker and re-establish the invariant -/
def RateStep (s : Irc) (r : Irc × List Ev) : Prop :=
  ∀ st, RateInv s st → ClassInv s.queue → ∃ st', Rate.run st r.2 = some st' ∧ RateInv r.1 st'

theorem RateStep.refl (s : Irc) : RateStep s (s, []) := fun st hi _ => ⟨st, rfl, hi⟩

/-- events the checker ignores -/
def Ev.rateNeutral : Ev → Bool
  | .took false _ _ _ => false
  | .discarded _ => false
  | .config _ _ => false
  | _ => true

theorem Rate.run_neutral (st : Rate) (evs : List Ev) (h : ∀ e ∈ evs, e.rateNeutral = true) :
    Rate.run st evs = some st := by
  induction evs with
  | nil => rfl
  | cons e r ih =>
    have he := h e mem_cons_self
    have : st.push e = some st := by
      cases e <;> try rfl
      · rename_i f _ _ _; cases f
        · cases he
        · rfl
      · cases he
      · cases he
    simp only [Rate.run, this]
    exact ih (fun e' he' => h e' (mem_cons_of_mem _ he'))

theorem RateInv.congr {s s' : Irc} {st : Rate} (hi : RateInv s st) (h1 : s'.cfg = s.cfg)
    (h2 : s'.lastTake = s.lastTake) (h3 : s'.now = s.now) (h4 : s'.queue.lastJoin = s.queue.lastJoin) :
    RateInv s' st :=
  ⟨by rw [h1]; exact hi.thr, by rw [h1]; exact hi.jl, by rw [h2]; exact hi.lastQ,
   by rw [h2, h3]; exact hi.takeNow, by rw [h4]; exact hi.lastJ, by rw [h4, h3]; exact hi.joinNow⟩

/-- a step with only neutral events that keeps the rate-relevant fields -/
theorem RateStep.of_neutral {s s' : Irc} {evs : List Ev} (hn : ∀ e ∈ evs, e.rateNeutral = true)
    (h1 : s'.cfg = s.cfg) (h2 : s'.lastTake = s.lastTake) (h3 : s'.now = s.now)
    (h4 : s'.queue.lastJoin = s.queue.lastJoin) : RateStep s (s', evs) :=
  fun st hi _ => ⟨st, Rate.run_neutral st evs hn, hi.congr h1 h2 h3 h4⟩

theorem noMsg_neutral (s : Irc) : ∀ e ∈ (noMsg s).2, e.rateNeutral = true := by
  intro e he
  rcases noMsg_events s with h | h <;> rw [h] at he
  · cases he
  · simp [killEvents] at he; subst he; rfl

theorem noMsg_rate (s : Irc) : RateStep s (noMsg s) := by
  intro st hi _
  refine ⟨st, Rate.run_neutral st _ (noMsg_neutral s), ?_⟩
  rw [noMsg_state]; exact hi

theorem queueMsg_rate (s : Irc) (m : Msg) : RateStep s (queueMsg s m) := by
  unfold queueMsg
  split
  · split
    · rename_i q' he
      exact RateStep.of_neutral (by intro e h; simp at h; subst h; rfl) rfl rfl rfl
        (enqueue_lastJoin he)
    · exact RateStep.of_neutral (by intro e h; simp at h; subst h; rfl) rfl rfl rfl rfl
  · exact RateStep.of_neutral (by intro e h; simp at h; subst h; rfl) rfl rfl rfl rfl

theorem sendMsg_rate (s : Irc) (m : Msg) : RateStep s (sendMsg s m) := by
  unfold sendMsg
  split
  · exact RateStep.of_neutral (by intro e h; simp at h; subst h; rfl) rfl rfl rfl rfl
  · exact RateStep.of_neutral (by intro e h; simp at h; subst h; rfl) rfl rfl rfl rfl

theorem sendMsg_frame (s : Irc) (m : Msg) :
    (sendMsg s m).1.cfg = s.cfg ∧ (sendMsg s m).1.lastTake = s.lastTake ∧
    (sendMsg s m).1.now = s.now ∧ (sendMsg s m).1.queue = s.queue ∧
    (∀ e ∈ (sendMsg s m).2, e.rateNeutral = true) := by
  unfold sendMsg
  split <;> exact ⟨rfl, rfl, rfl, rfl, by intro e h; simp at h; subst h; rfl⟩

theorem sendConnect_frame (cs : List Content) : ∀ s : Irc,
    (sendConnect s cs).1.cfg = s.cfg ∧ (sendConnect s cs).1.lastTake = s.lastTake ∧
    (sendConnect s cs).1.now = s.now ∧ (sendConnect s cs).1.queue = s.queue ∧
    (∀ e ∈ (sendConnect s cs).2, e.rateNeutral = true) := by
  induction cs with
  | nil => intro s; exact ⟨rfl, rfl, rfl, rfl, by intro e h; cases h⟩
  | cons c cs ih =>
    intro s
    unfold sendConnect
    dsimp only
    obtain ⟨a1, a2, a3, a4, a5⟩ := sendMsg_frame { s with nextOid := s.nextOid + 1 } ⟨.int s.nextOid, c⟩
    obtain ⟨b1, b2, b3, b4, b5⟩ := ih (sendMsg { s with nextOid := s.nextOid + 1 } ⟨.int s.nextOid, c⟩).1
    refine ⟨by rw [b1, a1], by rw [b2, a2], by rw [b3, a3], by rw [b4, a4], ?_⟩
    intro e he
    rcases mem_append.mp he with h | h
    · exact a5 e h
    · exact b5 e h

theorem queueConnectMessages_frame (s : Irc) :
    (queueConnectMessages s).1.cfg = s.cfg ∧ (queueConnectMessages s).1.lastTake = s.lastTake ∧
    (queueConnectMessages s).1.now = s.now ∧ (queueConnectMessages s).1.queue = s.queue ∧
    (∀ e ∈ (queueConnectMessages s).2, e.rateNeutral = true) := by
  unfold queueConnectMessages
  split
  · exact ⟨rfl, rfl, rfl, rfl, by intro e h; simp [killEvents] at h; subst h; rfl⟩
  · exact sendConnect_frame _ s

theorem reset_rate (s : Irc) : RateStep s (reset s) := by
  unfold reset
  dsimp only
  intro st hi _
  obtain ⟨a1, a2, a3, a4, a5⟩ := queueConnectMessages_frame
    { s with lastTake := 0, afterConnect := false, lastPing := s.now, outstandingPing := false,
             echoAcked := false, labelAcked := false, queue := Queue.empty, fast := [] }
  refine ⟨{ st with lastQ := none, lastJ := none }, ?_, ?_⟩
  · simp only [Rate.run, Rate.push]
    exact Rate.run_neutral _ _ a5
  · exact ⟨by rw [a1]; exact hi.thr, by rw [a1]; exact hi.jl, (by intro l h; cases h),
      by rw [a2, a3]; exact Nat.zero_le _, (by intro l h; cases h),
      by rw [a4, a3]; exact Nat.zero_le _⟩

theorem pingBranch_rate (s : Irc) : RateStep s (pingBranch s) := by
  unfold pingBranch
  split
  · split
    · dsimp only
      intro st hi hc
      obtain ⟨st', h1, h2⟩ := reset_rate s st hi hc
      exact ⟨st', by simpa [Rate.run, Rate.push] using h1, h2⟩
    · split
      · dsimp only
        intro st hi hc
        exact queueMsg_rate _ _ st (hi.congr rfl rfl rfl rfl) hc
      · exact RateStep.refl s
  · exact RateStep.refl s

/-! ### dequeue and the JOIN limiter -/

theorem classOf_join (ht : TablesOk Gen.highPriority Gen.lowPriority Gen.rateLimitedCommand) :
    classOf Gen.rateLimitedCommand = .low := by
  unfold classOf
  rw [if_neg ht.2.2, if_pos ht.2.1]

theorem isJoin_iff (m : Msg) : isJoin m = true ↔ m.cmd = Gen.rateLimitedCommand := by
  simp [isJoin]

theorem dequeue_msg_join (ht : TablesOk Gen.highPriority Gen.lowPriority Gen.rateLimitedCommand)
    {limit now : Nat} {q q' : Queue} {m : Msg}
    (hq : q.dequeue limit now = (q', .msg m)) (hc : ClassInv q) :
    (isJoin m = true → q.lastJoin + limit ≤ now ∧ q'.lastJoin = now) ∧
    (isJoin m = false → q'.lastJoin = q.lastJoin) := by
  obtain ⟨c1, c2, c3⟩ := hc
  have hj := classOf_join ht
  unfold Queue.dequeue at hq
  split at hq
  · rename_i m' hs hh
    injection hq with h1 h2; injection h2 with h2; subst h1 h2
    have : classOf m'.cmd = .high := c1 m' (by rw [hh]; exact mem_cons_self)
    refine ⟨fun h => ?_, fun _ => rfl⟩
    rw [(isJoin_iff m').mp h, hj] at this; cases this
  · split at hq
    · rename_i m' ns hn
      injection hq with h1 h2; injection h2 with h2; subst h1 h2
      have : classOf m'.cmd = .normal := c2 m' (by rw [hn]; exact mem_cons_self)
      refine ⟨fun h => ?_, fun _ => rfl⟩
      rw [(isJoin_iff m').mp h, hj] at this; cases this
    · split at hq
      · injection hq with _ h2; cases h2
      · rename_i m' ls hl
        split at hq
        · rename_i hcmd
          split at hq
          · rename_i hlim
            injection hq with h1 h2; injection h2 with h2; subst h1 h2
            exact ⟨fun _ => ⟨hlim, rfl⟩, fun h => by rw [(isJoin_iff m').mpr hcmd] at h; cases h⟩
          · injection hq with _ h2; cases h2
        · rename_i hcmd
          injection hq with h1 h2; injection h2 with h2; subst h1 h2
          exact ⟨fun h => absurd ((isJoin_iff m').mp h) hcmd, fun _ => rfl⟩

theorem dequeue_rotated_lastJoin {limit now : Nat} {q q' : Queue} {m : Msg}
    (hq : q.dequeue limit now = (q', .rotated m)) : q'.lastJoin = q.lastJoin := by
  unfold Queue.dequeue at hq
  split at hq
  · injection hq with _ h2; cases h2
  · split at hq
    · injection hq with _ h2; cases h2
    · split at hq
      · injection hq with _ h2; cases h2
      · split at hq
        · split at hq
          · injection hq with _ h2; cases h2
          · injection hq with h1 _; subst h1; rfl
        · injection hq with _ h2; cases h2

/-! ### takeMsg -/

theorem RateStep.cons_neutral {s s1 : Irc} {e : Ev} {evs : List Ev} (he : e.rateNeutral = true)
    (h : RateStep s (s1, evs)) : RateStep s (s1, e :: evs) := by
  intro st hi hc
  obtain ⟨st', h1, h2⟩ := h st hi hc
  refine ⟨st', ?_, h2⟩
  have : st.push e = some st := by
    cases e <;> try rfl
    · rename_i f _ _ _; cases f
      · cases he
      · rfl
    · cases he
    · cases he
  simp only [Rate.run, this]
  exact h1

theorem takeAux_rate (ht : TablesOk Gen.highPriority Gen.lowPriority Gen.rateLimitedCommand) :
    ∀ (fuel : Nat) (s : Irc), RateStep s (takeAux fuel s)
  | 0, s => RateStep.refl s
  | fuel + 1, s => by
    unfold takeAux takeBody
    split
    · rename_i m rest hf
      split
      · rename_i s1 o hd
        obtain ⟨n, ec, hs1⟩ := deliver_frame' hd
        subst hs1
        exact RateStep.of_neutral (by intro e h; simp at h; subst h; rfl) rfl rfl rfl rfl
      · rename_i s1 o hd
        obtain ⟨n, ec, hs1⟩ := deliver_frame' hd
        subst hs1
        exact RateStep.of_neutral (by intro e h; simp at h; subst h; rfl) rfl rfl rfl rfl
      · rename_i s1 hd
        obtain ⟨n, ec, hs1⟩ := deliver_frame' hd
        subst hs1
        refine RateStep.cons_neutral rfl ?_
        intro st hi hc
        exact takeAux_rate ht fuel _ st (hi.congr rfl rfl rfl rfl) hc
    · rename_i hf
      split
      · split
        · dsimp only
          refine RateStep.cons_neutral rfl ?_
          exact noMsg_rate s
        · rename_i hthr
          have hlt : s.lastTake + s.cfg.throttle < s.now := Nat.lt_of_not_le hthr
          split
          · rename_i q' m hq
            -- invariant for the state after the dequeue, with the checker state unchanged
            have mid : ∀ st, RateInv s st → ClassInv s.queue → ∀ s1 : Irc, s1.cfg = s.cfg →
                s1.lastTake = s.now → s1.now = s.now → s1.queue = q' → RateInv s1 st := by
              intro st hi hc s1 e1 e2 e3 e4
              obtain ⟨j1, j2⟩ := dequeue_msg_join ht hq hc
              have hq'ge : s.queue.lastJoin ≤ q'.lastJoin ∧ q'.lastJoin ≤ s.now := by
                cases hj : isJoin m
                · rw [j2 hj]; exact ⟨Nat.le_refl _, hi.joinNow⟩
                · rw [(j1 hj).2]; exact ⟨hi.joinNow, Nat.le_refl _⟩
              exact ⟨by rw [e1]; exact hi.thr, by rw [e1]; exact hi.jl,
                by intro l hl; rw [e2]; exact Nat.le_trans (hi.lastQ l hl) hi.takeNow,
                by rw [e2, e3]; exact Nat.le_refl _,
                by intro l hl; rw [e4]; exact Nat.le_trans (hi.lastJ l hl) hq'ge.1,
                by rw [e4, e3]; exact hq'ge.2⟩
            split
            · rename_i s1 o hd
              obtain ⟨n, ec, hs1⟩ := deliver_frame' hd
              subst hs1
              intro st hi hc
              obtain ⟨j1, j2⟩ := dequeue_msg_join ht hq hc
              have okQ : (st.lastQ.all fun l => decide (l + st.thr < s.now)) = true := by
                cases hl : st.lastQ with
                | none => rfl
                | some l =>
                  have := hi.lastQ l hl
                  simp only [Option.all_some, decide_eq_true_eq, hi.thr]; omega
              have okJ : (!isJoin m || st.lastJ.all fun l => decide (l + st.jl ≤ s.now)) = true := by
                cases hj : isJoin m
                · rfl
                · cases hl : st.lastJ with
                  | none => rfl
                  | some l =>
                    have := hi.lastJ l hl
                    have := (j1 hj).1
                    simp only [Bool.not_true, Bool.false_or, Option.all_some, decide_eq_true_eq, hi.jl]
                    omega
              refine ⟨{ st with lastQ := some s.now, lastJ := if isJoin m then some s.now else st.lastJ }, ?_, ?_⟩
              · simp only [Rate.run, Rate.push, okQ, okJ, Bool.and_self, if_true]
              · refine ⟨hi.thr, hi.jl, ?_, Nat.le_refl _, ?_, ?_⟩
                · intro l hl; injection hl with hl; subst hl; exact Nat.le_refl _
                · intro l hl
                  show l ≤ q'.lastJoin
                  cases hj : isJoin m
                  · simp only [hj, Bool.false_eq_true, if_false] at hl
                    rw [j2 hj]; exact hi.lastJ l hl
                  · simp only [hj, if_true] at hl
                    injection hl with hl; subst hl
                    rw [(j1 hj).2]; exact Nat.le_refl _
                · show q'.lastJoin ≤ s.now
                  cases hj : isJoin m
                  · rw [j2 hj]; exact hi.joinNow
                  · rw [(j1 hj).2]; exact Nat.le_refl _
            · rename_i s1 o hd
              obtain ⟨n, ec, hs1⟩ := deliver_frame' hd
              subst hs1
              intro st hi hc
              exact ⟨st, Rate.run_neutral st _ (by intro e h; simp at h; subst h; rfl),
                mid st hi hc _ rfl rfl rfl rfl⟩
            · rename_i s1 hd
              obtain ⟨n, ec, hs1⟩ := deliver_frame' hd
              subst hs1
              refine RateStep.cons_neutral rfl ?_
              intro st hi hc
              exact takeAux_rate ht fuel _ st (mid st hi hc _ rfl rfl rfl rfl)
                (dequeue_msg_classInv hq hc)
          · rename_i q' m hq
            dsimp only
            refine RateStep.cons_neutral rfl ?_
            intro st hi hc
            refine ⟨st, Rate.run_neutral st _ (noMsg_neutral _), ?_⟩
            rw [noMsg_state]
            have hl := dequeue_rotated_lastJoin hq
            exact ⟨hi.thr, hi.jl, fun l h => Nat.le_trans (hi.lastQ l h) hi.takeNow, Nat.le_refl _,
              by intro l h; show l ≤ q'.lastJoin; rw [hl]; exact hi.lastJ l h,
              by show q'.lastJoin ≤ s.now; rw [hl]; exact hi.joinNow⟩
          · rename_i q' hq
            have hc' := dequeue_nothing_eq hq
            intro st hi hc
            refine ⟨st, Rate.run_neutral st _ (noMsg_neutral _), ?_⟩
            rw [noMsg_state]
            exact ⟨hi.thr, hi.jl, fun l h => Nat.le_trans (hi.lastQ l h) hi.takeNow, Nat.le_refl _,
              by intro l h; show l ≤ q'.lastJoin; rw [hc']; exact hi.lastJ l h,
              by show q'.lastJoin ≤ s.now; rw [hc']; exact hi.joinNow⟩
      · dsimp only
        intro st hi hc
        obtain ⟨st1, a1, a2⟩ := pingBranch_rate s st hi hc
        have hc1 : ClassInv (pingBranch s).1.queue := (pingBranch_fifo s).classInv hc
        obtain ⟨st2, b1, b2⟩ := noMsg_rate (pingBranch s).1 st1 a2 hc1
        exact ⟨st2, by rw [Rate.run_append, a1]; exact b1, b2⟩

theorem step_rate (ht : TablesOk Gen.highPriority Gen.lowPriority Gen.rateLimitedCommand)
    (s : Irc) (op : Op) : RateStep s (step s op) := by
  cases op with
  | queue m => exact queueMsg_rate s m
  | send m => exact sendMsg_rate s m
  | take => exact takeAux_rate ht _ s
  | die =>
    unfold step die; dsimp only
    split <;> exact RateStep.of_neutral (by intro e h; simp at h <;> (subst h; rfl)) rfl rfl rfl rfl
  | reset => exact reset_rate s
  | tick dt =>
    intro st hi _
    exact ⟨st, rfl, hi.thr, hi.jl, hi.lastQ, Nat.le_trans hi.takeNow (Nat.le_add_right _ _), hi.lastJ,
      Nat.le_trans hi.joinNow (Nat.le_add_right _ _)⟩
  | connected => exact RateStep.of_neutral (by intro e h; cases h) rfl rfl rfl rfl
  | pong => exact RateStep.of_neutral (by intro e h; cases h) rfl rfl rfl rfl
  | capEcho b => exact RateStep.of_neutral (by intro e h; cases h) rfl rfl rfl rfl
  | capLabel b => exact RateStep.of_neutral (by intro e h; cases h) rfl rfl rfl rfl
  | config c =>
    intro st hi _
    exact ⟨{ st with thr := c.throttle, jl := c.joinLimit }, rfl, rfl, rfl, hi.lastQ, hi.takeNow,
      hi.lastJ, hi.joinNow⟩

theorem run_rate (ht : TablesOk Gen.highPriority Gen.lowPriority Gen.rateLimitedCommand) :
    ∀ (ops : List Op) (s : Irc), RateStep s (run s ops)
  | [], s => RateStep.refl s
  | op :: ops, s => by
    unfold run
    intro st hi hc
    obtain ⟨st1, a1, a2⟩ := step_rate ht s op st hi hc
    have hc1 := (step_fifo s op).classInv hc
    obtain ⟨st2, b1, b2⟩ := run_rate ht ops _ st1 a2 hc1
    exact ⟨st2, by rw [Rate.run_append, a1]; exact b1, b2⟩

/-! ### what passing the checker means -/

/-- neither a `reset()` nor a change of the configured rates -/
def Ev.keepsRates : Ev → Bool
  | .discarded _ => false
  | .config _ _ => false
  | _ => true

theorem Rate.push_keeps {st st1 : Rate} {e : Ev} (hk : e.keepsRates = true) (h : st.push e = some st1) :
    st1.thr = st.thr ∧ st1.jl = st.jl ∧
    (∀ l, st.lastQ = some l → ∃ l', st1.lastQ = some l' ∧ l ≤ l' ∧ (l' = l ∨ l + st.thr < l')) ∧
    (∀ l, st.lastJ = some l → ∃ l', st1.lastJ = some l' ∧ l ≤ l' ∧ (l' = l ∨ l + st.jl ≤ l')) := by
  cases e <;> try (simp only [Rate.push] at h; injection h with h; subst h;
                   exact ⟨rfl, rfl, fun l hl => ⟨l, hl, Nat.le_refl _, Or.inl rfl⟩,
                          fun l hl => ⟨l, hl, Nat.le_refl _, Or.inl rfl⟩⟩)
  · rename_i f src o t
    cases f
    · simp only [Rate.push] at h
      split at h
      · rename_i hok
        injection h with h; subst h
        simp only [Bool.and_eq_true, Bool.or_eq_true, Bool.not_eq_true'] at hok
        refine ⟨rfl, rfl, ?_, ?_⟩
        · intro l hl
          have := hok.1; rw [hl] at this
          simp only [Option.all_some, decide_eq_true_eq] at this
          exact ⟨t, rfl, by omega, Or.inr this⟩
        · intro l hl
          cases hj : isJoin src
          · exact ⟨l, by simp [hl], Nat.le_refl _, Or.inl rfl⟩
          · have := hok.2; rw [hj, hl] at this
            simp only [Bool.true_eq_false, Option.all_some, decide_eq_true_eq, false_or] at this
            exact ⟨t, by simp, by omega, Or.inr this⟩
      · cases h
    · simp only [Rate.push] at h; injection h with h; subst h
      exact ⟨rfl, rfl, fun l hl => ⟨l, hl, Nat.le_refl _, Or.inl rfl⟩,
             fun l hl => ⟨l, hl, Nat.le_refl _, Or.inl rfl⟩⟩
  · cases hk
  · cases hk

/-- after a queued release at `l`, the next queued release (no reset / rate change in between)
comes more than the throttle time later -/
theorem Rate.run_gapQ : ∀ (b : List Ev) (st : Rate) (l : Nat) (c : List Ev) (m o t) (st' : Rate),
    st.lastQ = some l → (∀ e ∈ b, e.keepsRates = true) →
    Rate.run st (b ++ Ev.took false m o t :: c) = some st' → l + st.thr < t
  | [], st, l, c, m, o, t, st', hl, _, h => by
    simp only [nil_append, Rate.run] at h
    cases hp : st.push (Ev.took false m o t) with
    | none => rw [hp] at h; cases h
    | some st1 =>
      simp only [Rate.push] at hp
      split at hp
      · rename_i hok
        simp only [Bool.and_eq_true] at hok
        have := hok.1; rw [hl] at this
        simpa using this
      · cases hp
  | e :: b, st, l, c, m, o, t, st', hl, hb, h => by
    simp only [cons_append, Rate.run] at h
    split at h
    · cases h
    · rename_i st1 hp
      obtain ⟨k1, _, k3, _⟩ := Rate.push_keeps (hb e mem_cons_self) hp
      obtain ⟨l', hl', hle, _⟩ := k3 l hl
      have := Rate.run_gapQ b st1 l' c m o t st' hl' (fun e' he' => hb e' (mem_cons_of_mem _ he')) h
      rw [k1] at this
      omega

theorem Rate.run_gapJ : ∀ (b : List Ev) (st : Rate) (l : Nat) (c : List Ev) (m o t) (st' : Rate),
    st.lastJ = some l → (∀ e ∈ b, e.keepsRates = true) → isJoin m = true →
    Rate.run st (b ++ Ev.took false m o t :: c) = some st' → l + st.jl ≤ t
  | [], st, l, c, m, o, t, st', hl, _, hj, h => by
    simp only [nil_append, Rate.run] at h
    cases hp : st.push (Ev.took false m o t) with
    | none => rw [hp] at h; cases h
    | some st1 =>
      simp only [Rate.push] at hp
      split at hp
      · rename_i hok
        simp only [Bool.and_eq_true, Bool.or_eq_true, Bool.not_eq_true'] at hok
        have := hok.2; rw [hl, hj] at this
        simpa using this
      · cases hp
  | e :: b, st, l, c, m, o, t, st', hl, hb, hj, h => by
    simp only [cons_append, Rate.run] at h
    split at h
    · cases h
    · rename_i st1 hp
      obtain ⟨_, k2, _, k4⟩ := Rate.push_keeps (hb e mem_cons_self) hp
      obtain ⟨l', hl', hle, _⟩ := k4 l hl
      have := Rate.run_gapJ b st1 l' c m o t st' hl' (fun e' he' => hb e' (mem_cons_of_mem _ he')) hj h
      rw [k2] at this
      omega

/-- **meaning of the checker**: two releases of queued messages with no `reset()` and no change of
the rates between them are more than the throttle time apart; if both are JOINs they are at least
the JOIN rate limit apart (`st1` = checker state when the first one was released). -/
theorem Rate.run_spec (st0 st' : Rate) (a b c : List Ev) (m1 o1 : Msg) (t1 : Nat) (m2 o2 : Msg) (t2 : Nat)
    (h : Rate.run st0 (a ++ Ev.took false m1 o1 t1 :: (b ++ Ev.took false m2 o2 t2 :: c)) = some st')
    (hb : ∀ e ∈ b, e.keepsRates = true) :
    ∃ st1, Rate.run st0 a = some st1 ∧ t1 + st1.thr < t2 ∧
      (isJoin m1 = true → isJoin m2 = true → t1 + st1.jl ≤ t2) := by
  rw [Rate.run_append] at h
  cases ha : Rate.run st0 a with
  | none => rw [ha] at h; cases h
  | some st1 =>
    rw [ha] at h
    simp only [Option.bind_some, Rate.run] at h
    refine ⟨st1, rfl, ?_⟩
    split at h
    · cases h
    · rename_i st2 hp
      have hp' := hp
      simp only [Rate.push] at hp
      split at hp
      · injection hp with hp
        have e1 : st2.lastQ = some t1 := by rw [← hp]
        have e2 : st2.thr = st1.thr := by rw [← hp]
        have e3 : st2.jl = st1.jl := by rw [← hp]
        refine ⟨?_, ?_⟩
        · have := Rate.run_gapQ b st2 t1 c m2 o2 t2 st' e1 hb h
          rw [e2] at this; exact this
        · intro j1 j2
          have e4 : st2.lastJ = some t1 := by rw [← hp]; simp [j1]
          have := Rate.run_gapJ b st2 t1 c m2 o2 t2 st' e4 hb j2 h
          rw [e3] at this; exact this
      · cases hp

end C19
