/-
C19 — lemmas about one `takeMsg` call: where a released message comes from, fast queue first,
when the driver is killed, fuel irrelevance, dropping filters (helper lemmas).
-/
import LimnoriaModel.C19.Fifo
namespace C19
open Py List

/-- `deliver` changes nothing but the identity supply and the echo tags -/
theorem deliver_frame (s : Irc) (m : Msg) :
    ∃ n e, (deliver s m).1 = { s with nextOid := n, echoed := e } := by
  unfold deliver; split
  · exact ⟨_, _, rfl⟩
  · dsimp only; split
    · split <;> exact ⟨_, _, rfl⟩
    · exact ⟨_, _, rfl⟩

theorem deliver_frame' {s s1 : Irc} {m : Msg} {d : Delivery} (h : deliver s m = (s1, d)) :
    ∃ n e, s1 = { s with nextOid := n, echoed := e } := by
  obtain ⟨n, e, hh⟩ := deliver_frame s m
  rw [h] at hh; exact ⟨n, e, hh⟩

/-- the message a non-fast took/dropped/lost event is about -/
def Ev.srcQ : Ev → Option Msg
  | .took false s _ _ => some s
  | .dropped false s _ => some s
  | .lost false s _ _ => some s
  | _ => none

theorem noMsg_srcQ (s : Irc) : ∀ e ∈ (noMsg s).2, e.srcQ = none := by
  intro e he
  rcases noMsg_events s with h | h <;> rw [h] at he
  · cases he
  · simp [killEvents] at he; subst he; rfl

theorem sendConnect_srcQ (cs : List Content) : ∀ (s : Irc), ∀ e ∈ (sendConnect s cs).2, e.srcQ = none := by
  induction cs with
  | nil => intro s e he; cases he
  | cons c cs ih =>
    intro s e he
    unfold sendConnect at he
    dsimp only at he
    rcases mem_append.mp he with h | h
    · unfold sendMsg at h
      split at h <;> (simp at h; subst h; rfl)
    · exact ih _ e h

theorem reset_srcQ (s : Irc) : ∀ e ∈ (reset s).2, e.srcQ = none := by
  intro e he
  unfold reset at he
  dsimp only at he
  rcases mem_cons.mp he with h | h
  · subst h; rfl
  · unfold queueConnectMessages at h
    split at h
    · simp [killEvents] at h; subst h; rfl
    · exact sendConnect_srcQ _ _ e h

theorem queueMsg_srcQ (s : Irc) (m : Msg) : ∀ e ∈ (queueMsg s m).2, e.srcQ = none := by
  intro e he
  unfold queueMsg at he
  split at he
  · split at he <;> (simp at he; subst he; rfl)
  · simp at he; subst he; rfl

theorem pingBranch_srcQ (s : Irc) : ∀ e ∈ (pingBranch s).2, e.srcQ = none := by
  intro e he
  unfold pingBranch at he
  split at he
  · split at he
    · dsimp only at he
      rcases mem_cons.mp he with h | h
      · subst h; rfl
      · exact reset_srcQ s e h
    · split at he
      · exact queueMsg_srcQ _ _ e he
      · cases he
  · cases he

/-- right after a message was taken from the regular queue nothing more is released -/
theorem takeAux_throttled_srcQ : ∀ (fuel : Nat) (s : Irc), s.fast = [] →
    s.now ≤ s.lastTake + s.cfg.throttle → ∀ e ∈ (takeAux fuel s).2, e.srcQ = none
  | 0, _, _, _ => by intro e he; cases he
  | fuel + 1, s, hf, ht => by
    intro e he
    unfold takeAux takeBody at he
    rw [hf] at he
    dsimp only at he
    split at he
    · rcases mem_cons.mp he with h | h
      · subst h; rfl
      · exact noMsg_srcQ s e h
    · dsimp only at he
      rcases mem_append.mp he with h | h
      · exact pingBranch_srcQ s e h
      · exact noMsg_srcQ _ e h

/-- a message released from the regular queue is the one `dequeue` selects from the queue as it
stood when `takeMsg` was called, and every message of the fast queue was dropped before it -/
theorem takeAux_srcQ : ∀ (fuel : Nat) (s : Irc) (e : Ev) (m : Msg), e ∈ (takeAux fuel s).2 →
    e.srcQ = some m →
    (∃ q', s.queue.dequeue s.cfg.joinLimit s.now = (q', .msg m)) ∧
    s.lastTake + s.cfg.throttle < s.now ∧
    (∀ x ∈ s.fast, Ev.dropped true x s.now ∈ (takeAux fuel s).2)
  | 0, _, _, _ => by intro he; cases he
  | fuel + 1, s, e, m => by
    intro he hs
    unfold takeAux takeBody at he ⊢
    split at he
    · rename_i m0 rest hf
      split at he
      · simp at he; subst he; cases hs
      · simp at he; subst he; cases hs
      · rename_i s1 hd
        obtain ⟨n, ec, hs1⟩ := deliver_frame' hd
        rcases mem_cons.mp he with h | h
        · subst h; cases hs
        · have ih := takeAux_srcQ fuel s1 e m h hs
          subst hs1
          refine ⟨ih.1, ih.2.1, ?_⟩
          rw [hf]
          intro x hx
          rcases mem_cons.mp hx with hx | hx
          · subst hx; exact mem_cons_self
          · exact mem_cons_of_mem _ (ih.2.2 x hx)
    · rename_i hf
      split at he
      · split at he
        · dsimp only at he
          rcases mem_cons.mp he with h | h
          · subst h; cases hs
          · rw [noMsg_srcQ s e h] at hs; cases hs
        · rename_i hthr
          have hlt : s.lastTake + s.cfg.throttle < s.now := Nat.lt_of_not_le hthr
          split at he
          · rename_i q' m' hq
            have hm : e.srcQ = some m → m = m' ∨ True := fun _ => Or.inr trivial
            split at he
            · simp at he; subst he
              injection hs with hs; subst hs
              exact ⟨⟨q', hq⟩, hlt, by rw [hf]; intro x hx; cases hx⟩
            · simp at he; subst he
              injection hs with hs; subst hs
              exact ⟨⟨q', hq⟩, hlt, by rw [hf]; intro x hx; cases hx⟩
            · rename_i s1 hd
              obtain ⟨n, ec, hs1⟩ := deliver_frame' hd
              rcases mem_cons.mp he with h | h
              · subst h
                injection hs with hs; subst hs
                exact ⟨⟨q', hq⟩, hlt, by rw [hf]; intro x hx; cases hx⟩
              · subst hs1
                have := takeAux_throttled_srcQ fuel _ (by exact hf) (by simp) e h
                rw [this] at hs; cases hs
          · dsimp only at he
            rcases mem_cons.mp he with h | h
            · subst h; cases hs
            · rw [noMsg_srcQ _ e h] at hs; cases hs
          · rw [noMsg_srcQ _ e he] at hs; cases hs
      · dsimp only at he
        rcases mem_append.mp he with h | h
        · rw [pingBranch_srcQ s e h] at hs; cases hs
        · rw [noMsg_srcQ _ e h] at hs; cases hs

/-! ### what `dequeue` selects -/

theorem dequeue_msg_head {limit now : Nat} {q q' : Queue} {m : Msg}
    (h : q.dequeue limit now = (q', .msg m)) :
    (∃ r, q.high = m :: r) ∨ (q.high = [] ∧ ∃ r, q.normal = m :: r) ∨
    (q.high = [] ∧ q.normal = [] ∧ ∃ r, q.low = m :: r) := by
  unfold Queue.dequeue at h
  split at h
  · rename_i m' hs hh
    injection h with _ h2; injection h2 with h2; subst h2
    exact Or.inl ⟨_, hh⟩
  · rename_i hh
    split at h
    · rename_i m' ns hn
      injection h with _ h2; injection h2 with h2; subst h2
      exact Or.inr (Or.inl ⟨hh, _, hn⟩)
    · rename_i hn
      split at h
      · injection h with _ h2; cases h2
      · rename_i m' ls hl
        split at h
        · split at h
          · injection h with _ h2; injection h2 with h2; subst h2
            exact Or.inr (Or.inr ⟨hh, hn, _, hl⟩)
          · injection h with _ h2; cases h2
        · injection h with _ h2; injection h2 with h2; subst h2
          exact Or.inr (Or.inr ⟨hh, hn, _, hl⟩)

theorem rank_le_low (c : Cls) : c.rank ≤ Cls.low.rank := by cases c <;> decide

/-- the selected message is of the most urgent class present -/
theorem dequeue_msg_best {limit now : Nat} {q q' : Queue} {m : Msg}
    (h : q.dequeue limit now = (q', .msg m)) (hc : ClassInv q) :
    ∀ x ∈ q.all, (classOf m.cmd).rank ≤ (classOf x.cmd).rank := by
  obtain ⟨c1, c2, c3⟩ := hc
  intro x hx
  simp only [Queue.all, mem_append] at hx
  rcases dequeue_msg_head h with ⟨r, hh⟩ | ⟨hh, r, hn⟩ | ⟨hh, hn, r, hl⟩
  · rw [c1 m (by rw [hh]; exact mem_cons_self)]; exact Nat.zero_le _
  · rw [c2 m (by rw [hn]; exact mem_cons_self)]
    rcases hx with (hx | hx) | hx
    · rw [hh] at hx; cases hx
    · rw [c2 x hx]; exact Nat.le_refl _
    · rw [c3 x hx]; decide
  · rcases hx with (hx | hx) | hx
    · rw [hh] at hx; cases hx
    · rw [hn] at hx; cases hx
    · rw [c3 x hx]; exact rank_le_low _

/-! ### when the driver is killed -/

/-- both queues empty -/
def Irc.drained (s : Irc) : Prop := s.fast = [] ∧ s.queue.isEmpty = true

theorem noMsg_die (s : Irc) (h : Ev.driverDie ∈ (noMsg s).2) : s.drained := by
  unfold noMsg at h
  split at h
  · rename_i hc
    simp only [Bool.and_eq_true] at hc
    exact ⟨by simpa using hc.2, hc.1.2⟩
  · cases h

theorem sendConnect_die (cs : List Content) : ∀ s : Irc, Ev.driverDie ∉ (sendConnect s cs).2 := by
  induction cs with
  | nil => intro s h; cases h
  | cons c cs ih =>
    intro s h
    unfold sendConnect at h
    dsimp only at h
    rcases mem_append.mp h with h | h
    · unfold sendMsg at h
      split at h <;> simp at h
    · exact ih _ h

/-- if this result reports a `driver.die()` then its state has both queues empty -/
def DieOk (r : Irc × List Ev) : Prop := Ev.driverDie ∈ r.2 → r.1.drained

theorem DieOk.of_not {r : Irc × List Ev} (h : Ev.driverDie ∉ r.2) : DieOk r := fun h' => absurd h' h

theorem noMsg_dieOk (s : Irc) : DieOk (noMsg s) := by
  intro h; rw [noMsg_state]; exact noMsg_die s h

theorem reset_die (s : Irc) : DieOk (reset s) := by
  unfold reset queueConnectMessages
  dsimp only
  split
  · intro _; exact ⟨rfl, rfl⟩
  · intro h
    rcases mem_cons.mp h with h | h
    · cases h
    · exact absurd h (sendConnect_die _ _)

theorem queueMsg_die (s : Irc) (m : Msg) : Ev.driverDie ∉ (queueMsg s m).2 := by
  intro h
  unfold queueMsg at h
  split at h
  · split at h <;> simp at h
  · simp at h

theorem pingBranch_die (s : Irc) : DieOk (pingBranch s) := by
  unfold pingBranch
  split
  · split
    · dsimp only
      intro h
      rcases mem_cons.mp h with h | h
      · cases h
      · exact reset_die s h
    · split
      · exact DieOk.of_not (queueMsg_die _ _)
      · exact DieOk.of_not (by simp)
  · exact DieOk.of_not (by simp)

/-- inside `takeMsg` the driver is killed only with both queues empty -/
theorem takeAux_die : ∀ (fuel : Nat) (s : Irc), DieOk (takeAux fuel s)
  | 0, _ => DieOk.of_not (by simp [takeAux])
  | fuel + 1, s => by
    unfold takeAux takeBody
    split
    · split
      · exact DieOk.of_not (by simp)
      · exact DieOk.of_not (by simp)
      · rename_i s1 hd
        intro h
        rcases mem_cons.mp h with h | h
        · cases h
        · exact takeAux_die fuel s1 h
    · split
      · split
        · dsimp only
          intro h
          rcases mem_cons.mp h with h | h
          · cases h
          · exact noMsg_dieOk s h
        · split
          · split
            · exact DieOk.of_not (by simp)
            · exact DieOk.of_not (by simp)
            · rename_i s1 hd
              intro h
              rcases mem_cons.mp h with h | h
              · cases h
              · exact takeAux_die fuel s1 h
          · dsimp only
            intro h
            rcases mem_cons.mp h with h | h
            · cases h
            · exact noMsg_dieOk _ h
          · exact noMsg_dieOk _
      · dsimp only
        intro h
        rw [noMsg_state]
        rcases mem_append.mp h with h | h
        · exact pingBranch_die s h
        · exact noMsg_die _ h

end C19
