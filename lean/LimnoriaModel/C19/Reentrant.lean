/-
C19 — outFilters that call `irc.sendMsg` / `irc.queueMsg` themselves (re-entrancy).

`takeMsg` is a loop since the repair (`for _ in range(len(self.fastqueue) + len(self.queue) + 1)`,
one round per iteration, `_takeMsg`): the bound is computed when `takeMsg` is entered — the fuel
`pending.length + 1` of the model is that bound, literally.  A filter may, besides returning a message
or `None`, hand messages to `sendMsg` / `queueMsg` (`Req`); they are enqueued at that moment, behind
everything already waiting in their queue.  `rtakeMsg` is `takeMsg` for such filters; for filters that
queue nothing it is `takeMsg` (`rtakeMsg_plain`).
-/
import LimnoriaModel.C19.Lemmas
import LimnoriaModel.C19.Take
namespace C19
open Py List

structure Req where
  fast : Bool          -- `irc.sendMsg` (true) or `irc.queueMsg`
  c : Content
deriving DecidableEq, Repr

/-- an outFilter with side effects on the queues: its result and what it sent, in order -/
abbrev RFilter := Nat → Msg → Option Msg × List Req

def lift (f : Filter) : RFilter := fun n m => (f n m, [])

/-- the `sendMsg` / `queueMsg` calls of one filter call (new objects) -/
def applyReqs : Irc → List Req → Irc × List Ev
  | s, [] => (s, [])
  | s, r :: rs =>
    let m : Msg := ⟨.int s.nextOid, r.c⟩
    let s0 := { s with nextOid := s.nextOid + 1 }
    let a := if r.fast then sendMsg s0 m else queueMsg s0 m
    let b := applyReqs a.1 rs
    (b.1, a.2 ++ b.2)

/-- the filter loop of one round -/
def rrunFilters : List RFilter → Irc → Msg → Option Msg × Irc × List Ev
  | [], s, m => (some m, s, [])
  | f :: fs, s, m =>
    let a := applyReqs { s with nextOid := s.nextOid + 1 } (f s.nextOid m).2
    match (f s.nextOid m).1 with
    | none => (none, a.1, a.2)
    | some m' =>
      let b := rrunFilters fs a.1 m'
      (b.1, b.2.1, a.2 ++ b.2.2)

def rchain (s : Irc) (rf : List RFilter) : List RFilter :=
  if s.labelAcked then lift labelFilter :: rf else rf

/-- the `if msg:` block of one round -/
def rdeliver (rf : List RFilter) (s : Irc) (m : Msg) : Irc × Delivery × List Ev :=
  match rrunFilters (rchain s rf) s m with
  | (none, s1, evs) => (s1, .dropped, evs)
  | (some out, s1, evs) =>
    if isEchoCmd out.cmd && !s1.echoAcked then
      if out.oid ∈ s1.echoed then (s1, .lost out, evs)
      else ({ s1 with echoed := .int s1.nextOid :: s1.echoed, nextOid := s1.nextOid + 1 }, .out out, evs)
    else (s1, .out out, evs)

/-- one round (`_takeMsg`), over any way `D` of treating the dequeued message -/
def takeBodyG (D : Irc → Msg → Irc × Delivery × List Ev) (again : Irc → Irc × List Ev) (s : Irc) :
    Irc × List Ev :=
  match s.fast with
  | m :: rest =>
    match D { s with fast := rest } m with
    | (s1, .out o, evs) => (s1, evs ++ [.took true m o s.now])
    | (s1, .lost o, evs) => (s1, evs ++ [.lost true m o s.now])
    | (s1, .dropped, evs) =>
      let r := again s1
      (r.1, evs ++ .dropped true m s.now :: r.2)
  | [] =>
    if !s.queue.isEmpty then
      if s.now ≤ s.lastTake + s.cfg.throttle then
        let r := noMsg s
        (r.1, .throttled s.now :: r.2)
      else
        match s.queue.dequeue s.cfg.joinLimit s.now with
        | (q', .msg m) =>
          match D { s with lastTake := s.now, queue := q' } m with
          | (s1, .out o, evs) => (s1, evs ++ [.took false m o s.now])
          | (s1, .lost o, evs) => (s1, evs ++ [.lost false m o s.now])
          | (s1, .dropped, evs) =>
            let r := again s1
            (r.1, evs ++ .dropped false m s.now :: r.2)
        | (q', .rotated m) =>
          let r := noMsg { s with lastTake := s.now, queue := q' }
          (r.1, .rotated m s.now :: r.2)
        | (q', .nothing) => noMsg { s with lastTake := s.now, queue := q' }
    else
      let r := pingBranch s
      let r2 := noMsg r.1
      (r2.1, r.2 ++ r2.2)

/-- the loop of `takeMsg`, `fuel` rounds left -/
def rtakeAux (rf : List RFilter) : Nat → Irc → Irc × List Ev
  | 0, s => (s, [])
  | fuel + 1, s => takeBodyG (rdeliver rf) (rtakeAux rf fuel) s

/-- `Irc.takeMsg()` with re-entrant filters -/
def rtakeMsg (rf : List RFilter) (s : Irc) : Irc × List Ev := rtakeAux rf (s.pending.length + 1) s

/-! ### filters that queue nothing: the verified model -/

theorem rrunFilters_plain : ∀ (fs : List Filter) (s : Irc) (m : Msg),
    rrunFilters (fs.map lift) s m =
      ((runFilters fs s.nextOid m).1, { s with nextOid := (runFilters fs s.nextOid m).2 }, [])
  | [], s, m => by simp [rrunFilters, runFilters]
  | f :: fs, s, m => by
    simp only [map_cons, rrunFilters, lift, applyReqs, runFilters]
    cases hf : f s.nextOid m with
    | none => simp
    | some m' =>
      simp only
      rw [rrunFilters_plain fs _ m']
      simp

theorem rchain_plain (s : Irc) : rchain s (s.cfg.filters.map lift) = s.chain.map lift := by
  unfold rchain Irc.chain
  split <;> simp

theorem rdeliver_plain (s : Irc) (m : Msg) :
    rdeliver (s.cfg.filters.map lift) s m = ((deliver s m).1, (deliver s m).2, []) := by
  unfold rdeliver deliver
  rw [rchain_plain, rrunFilters_plain]
  cases h : runFilters s.chain s.nextOid m with
  | mk o n =>
    cases o with
    | none => simp
    | some out =>
      simp only
      split
      · split <;> simp
      · simp

theorem takeBodyG_plain (D : Irc → Msg → Irc × Delivery × List Ev) (again : Irc → Irc × List Ev)
    (s : Irc)
    (hD : ∀ t m, t.cfg = s.cfg → D t m = ((deliver t m).1, (deliver t m).2, [])) :
    takeBodyG D again s = takeBody again s := by
  unfold takeBodyG takeBody
  cases hf : s.fast with
  | cons m rest =>
    simp only
    rw [hD { s with fast := rest } m rfl]
    cases h : deliver { s with fast := rest } m with
    | mk s1 d => cases d <;> simp
  | nil =>
    simp only
    by_cases hq : (!s.queue.isEmpty) = true
    · simp only [hq, if_true]
      by_cases ht : s.now ≤ s.lastTake + s.cfg.throttle
      · simp only [ht, if_true]
      · simp only [ht, if_false]
        cases hdq : s.queue.dequeue s.cfg.joinLimit s.now with
        | mk q' d =>
          cases d with
          | msg m =>
            simp only
            rw [hD (⟨s.cfg, s.now, q', [], s.now, s.zombie, s.afterConnect, s.lastPing, s.outstandingPing, s.echoAcked, s.labelAcked, s.echoed, s.nextOid⟩ : Irc) m rfl]
            cases h : deliver (⟨s.cfg, s.now, q', [], s.now, s.zombie, s.afterConnect, s.lastPing, s.outstandingPing, s.echoAcked, s.labelAcked, s.echoed, s.nextOid⟩ : Irc) m with
            | mk s1 d => cases d <;> simp
          | rotated m => rfl
          | nothing => rfl
    · simp only [hq]
      rfl

theorem takeBodyG_congr (D : Irc → Msg → Irc × Delivery × List Ev) (f g : Irc → Irc × List Ev) (s : Irc)
    (P : Irc → Prop) (hD : ∀ t m, t.cfg = s.cfg → P (D t m).1) (hfg : ∀ t, P t → f t = g t) :
    takeBodyG D f s = takeBodyG D g s := by
  unfold takeBodyG
  cases hf : s.fast with
  | cons m rest =>
    simp only
    have hp := hD { s with fast := rest } m rfl
    cases h : D { s with fast := rest } m with
    | mk s1 r =>
      cases r with
      | mk d evs =>
        rw [h] at hp
        cases d <;> simp only
        rw [hfg s1 hp]
  | nil =>
    simp only
    by_cases hq : (!s.queue.isEmpty) = true
    · simp only [hq, if_true]
      by_cases ht : s.now ≤ s.lastTake + s.cfg.throttle
      · simp only [ht, if_true]
      · simp only [ht, if_false]
        cases hdq : s.queue.dequeue s.cfg.joinLimit s.now with
        | mk q' d =>
          cases d with
          | msg m =>
            simp only
            have hp := hD (⟨s.cfg, s.now, q', [], s.now, s.zombie, s.afterConnect, s.lastPing, s.outstandingPing, s.echoAcked, s.labelAcked, s.echoed, s.nextOid⟩ : Irc) m rfl
            cases h : D (⟨s.cfg, s.now, q', [], s.now, s.zombie, s.afterConnect, s.lastPing, s.outstandingPing, s.echoAcked, s.labelAcked, s.echoed, s.nextOid⟩ : Irc) m with
            | mk s1 r =>
              cases r with
              | mk d evs =>
                rw [h] at hp
                cases d <;> simp only
                rw [hfg s1 hp]
          | rotated m => rfl
          | nothing => rfl
    · simp only [hq, Bool.false_eq_true, if_false]

theorem deliver_cfg (s : Irc) (m : Msg) : (deliver s m).1.cfg = s.cfg := by
  obtain ⟨n, e, h⟩ := deliver_frame s m
  rw [h]

theorem rtakeAux_plain (fs : List Filter) : ∀ (fuel : Nat) (s : Irc), s.cfg.filters = fs →
    rtakeAux (fs.map lift) fuel s = takeAux fuel s
  | 0, _, _ => rfl
  | fuel + 1, s, hs => by
    show takeBodyG (rdeliver (fs.map lift)) (rtakeAux (fs.map lift) fuel) s = takeBody (takeAux fuel) s
    have hD : ∀ t m, t.cfg = s.cfg →
        rdeliver (fs.map lift) t m = ((deliver t m).1, (deliver t m).2, []) := by
      intro t m ht
      have : t.cfg.filters = fs := by rw [ht]; exact hs
      rw [← this]; exact rdeliver_plain t m
    rw [takeBodyG_congr (rdeliver (fs.map lift)) (rtakeAux (fs.map lift) fuel) (takeAux fuel) s
      (fun t => t.cfg.filters = fs)
      (by intro t m ht; rw [hD t m ht]; show (deliver t m).1.cfg.filters = fs; rw [deliver_cfg, ht]; exact hs)
      (fun t ht => rtakeAux_plain fs fuel t ht)]
    exact takeBodyG_plain _ _ s hD

/-- **Filters that queue nothing**: the re-entrant model is the verified one. -/
theorem rtakeMsg_plain (s : Irc) : rtakeMsg (s.cfg.filters.map lift) s = takeMsg s :=
  rtakeAux_plain s.cfg.filters _ s rfl

/-! ### conservation with re-entrant filters -/

theorem applyReqs_conserves : ∀ (rs : List Req) (s : Irc), Conserves s (applyReqs s rs)
  | [], s => Conserves.refl s
  | r :: rs, s => by
    unfold applyReqs
    dsimp only
    refine Conserves.of_pending (s0 := { s with nextOid := s.nextOid + 1 }) rfl ?_
    refine Conserves.trans (s1 := _) ?_ (applyReqs_conserves rs _)
    split
    · exact sendMsg_conserves _ _
    · exact queueMsg_conserves _ _

theorem rrunFilters_conserves : ∀ (fs : List RFilter) (s : Irc) (m : Msg),
    Conserves s ((rrunFilters fs s m).2.1, (rrunFilters fs s m).2.2)
  | [], s, m => Conserves.refl s
  | f :: fs, s, m => by
    unfold rrunFilters
    dsimp only
    have ha : Conserves s (applyReqs { s with nextOid := s.nextOid + 1 } (f s.nextOid m).2) :=
      Conserves.of_pending (s0 := { s with nextOid := s.nextOid + 1 }) rfl (applyReqs_conserves _ _)
    split
    · exact ha
    · rename_i m' _
      exact Conserves.trans ha (rrunFilters_conserves fs _ m')

theorem rdeliver_conserves (rf : List RFilter) (s : Irc) (m : Msg) :
    Conserves s ((rdeliver rf s m).1, (rdeliver rf s m).2.2) := by
  have h := rrunFilters_conserves (rchain s rf) s m
  unfold rdeliver
  split
  · rename_i s1 evs hr
    rw [hr] at h; exact h
  · rename_i out s1 evs hr
    rw [hr] at h
    split
    · split
      · exact h
      · intro x; have := h x; simp only [Irc.pending] at *; exact this
    · exact h

theorem takeBodyG_conserves (D : Irc → Msg → Irc × Delivery × List Ev) (again : Irc → Irc × List Ev)
    (hD : ∀ t m, Conserves t ((D t m).1, (D t m).2.2)) (hag : ∀ t, Conserves t (again t)) (s : Irc) :
    Conserves s (takeBodyG D again s) := by
  unfold takeBodyG
  cases hf : s.fast with
  | cons m rest =>
    simp only
    have hd := hD { s with fast := rest } m
    cases h : D { s with fast := rest } m with
    | mk s1 r =>
      cases r with
      | mk d evs =>
        rw [h] at hd
        cases d with
        | out o =>
          intro x; have := hd x
          simp only [accOf_append, goneOf_append, Irc.pending, hf] at *; cnt
        | lost o =>
          intro x; have := hd x
          simp only [accOf_append, goneOf_append, Irc.pending, hf] at *; cnt
        | dropped =>
          intro x; have := hd x; have := hag s1 x
          simp only [accOf_append, goneOf_append, Irc.pending, hf] at *; cnt
  | nil =>
    simp only
    by_cases hq : (!s.queue.isEmpty) = true
    · simp only [hq, if_true]
      by_cases ht : s.now ≤ s.lastTake + s.cfg.throttle
      · simp only [ht, if_true]
        intro x
        have := noMsg_conserves s x
        simp only [Irc.pending, hf] at *; cnt
      · simp only [ht, if_false]
        cases hdq : s.queue.dequeue s.cfg.joinLimit s.now with
        | mk q' d =>
          cases d with
          | msg m =>
            simp only
            have hc := dequeue_msg_count hdq
            have hd := hD (⟨s.cfg, s.now, q', [], s.now, s.zombie, s.afterConnect, s.lastPing, s.outstandingPing, s.echoAcked, s.labelAcked, s.echoed, s.nextOid⟩ : Irc) m
            cases h : D (⟨s.cfg, s.now, q', [], s.now, s.zombie, s.afterConnect, s.lastPing, s.outstandingPing, s.echoAcked, s.labelAcked, s.echoed, s.nextOid⟩ : Irc) m with
            | mk s1 r =>
              cases r with
              | mk d evs =>
                rw [h] at hd
                cases d with
                | out o =>
                  intro x; have := hd x; have := hc x
                  simp only [accOf_append, goneOf_append, Irc.pending, hf] at *; cnt
                | lost o =>
                  intro x; have := hd x; have := hc x
                  simp only [accOf_append, goneOf_append, Irc.pending, hf] at *; cnt
                | dropped =>
                  intro x; have := hd x; have := hc x; have := hag s1 x
                  simp only [accOf_append, goneOf_append, Irc.pending, hf] at *; cnt
          | rotated m =>
            simp only
            have hc := dequeue_rotated_count hdq
            intro x
            have := noMsg_conserves (⟨s.cfg, s.now, q', [], s.now, s.zombie, s.afterConnect, s.lastPing, s.outstandingPing, s.echoAcked, s.labelAcked, s.echoed, s.nextOid⟩ : Irc) x
            have := hc x
            simp only [Irc.pending, hf] at *; cnt
          | nothing =>
            simp only
            have hc := dequeue_nothing_eq hdq
            subst hc
            intro x
            have := noMsg_conserves (⟨s.cfg, s.now, s.queue, [], s.now, s.zombie, s.afterConnect, s.lastPing, s.outstandingPing, s.echoAcked, s.labelAcked, s.echoed, s.nextOid⟩ : Irc) x
            simp only [Irc.pending, hf] at *; cnt
    · simp only [hq, Bool.false_eq_true, if_false]
      exact Conserves.trans (pingBranch_conserves s) (noMsg_conserves _)

theorem rtakeAux_conserves (rf : List RFilter) : ∀ (fuel : Nat) (s : Irc), Conserves s (rtakeAux rf fuel s)
  | 0, s => Conserves.refl s
  | fuel + 1, s =>
    takeBodyG_conserves (rdeliver rf) (rtakeAux rf fuel) (rdeliver_conserves rf)
      (rtakeAux_conserves rf fuel) s

/-- **Conservation with re-entrant filters**: whatever the outFilters send or queue while `takeMsg`
runs, waiting + accepted (by anyone, the filters included) = handed over + dropped + lost + still
waiting, message by message. -/
theorem rtakeMsg_conserves (rf : List RFilter) (s : Irc) : Conserves s (rtakeMsg rf s) :=
  rtakeAux_conserves rf _ s

/-! ### what a filter sends goes behind what is waiting; a run of dropped messages does not stall -/

theorem applyReqs_fast : ∀ (rs : List Req) (s : Irc), ∃ add, (applyReqs s rs).1.fast = s.fast ++ add
  | [], s => ⟨[], by simp [applyReqs]⟩
  | r :: rs, s => by
    unfold applyReqs
    dsimp only
    cases hr : r.fast with
    | true =>
      simp only [if_true]
      obtain ⟨add, h⟩ := applyReqs_fast rs (sendMsg { s with nextOid := s.nextOid + 1 } ⟨.int s.nextOid, r.c⟩).1
      rw [h]
      unfold sendMsg
      split
      · exact ⟨(⟨.int s.nextOid, r.c⟩ : Msg) :: add, by simp⟩
      · exact ⟨add, rfl⟩
    | false =>
      simp only [Bool.false_eq_true, if_false]
      obtain ⟨add, h⟩ := applyReqs_fast rs (queueMsg { s with nextOid := s.nextOid + 1 } ⟨.int s.nextOid, r.c⟩).1
      rw [h]
      refine ⟨add, ?_⟩
      congr 1
      unfold queueMsg
      split
      · split <;> rfl
      · rfl

theorem rrunFilters_fast : ∀ (fs : List RFilter) (s : Irc) (m : Msg),
    ∃ add, (rrunFilters fs s m).2.1.fast = s.fast ++ add
  | [], s, m => ⟨[], by simp [rrunFilters]⟩
  | f :: fs, s, m => by
    unfold rrunFilters
    dsimp only
    obtain ⟨a1, h1⟩ := applyReqs_fast (f s.nextOid m).2 { s with nextOid := s.nextOid + 1 }
    split
    · exact ⟨a1, h1⟩
    · rename_i m' _
      obtain ⟨a2, h2⟩ := rrunFilters_fast fs (applyReqs { s with nextOid := s.nextOid + 1 } (f s.nextOid m).2).1 m'
      exact ⟨a1 ++ a2, by rw [h2, h1]; simp⟩

theorem rdeliver_fast (rf : List RFilter) (s : Irc) (m : Msg) :
    ∃ add, (rdeliver rf s m).1.fast = s.fast ++ add := by
  obtain ⟨add, h⟩ := rrunFilters_fast (rchain s rf) s m
  refine ⟨add, ?_⟩
  unfold rdeliver
  split
  · rename_i s1 evs hr; rw [hr] at h; exact h
  · rename_i out s1 evs hr
    rw [hr] at h
    split
    · split <;> exact h
    · exact h

theorem rdeliver_dropped (rf : List RFilter) (s : Irc) (m : Msg) :
    (rdeliver rf s m).2.1 = .dropped ↔ (rrunFilters (rchain s rf) s m).1 = none := by
  unfold rdeliver
  split
  · rename_i s1 evs hr; simp [hr]
  · rename_i out s1 evs hr
    rw [hr]
    split
    · split <;> simp
    · simp

/-- the chain drops `m` / lets `m` through (as `m` or rewritten), whatever the state of the bot -/
def Drops (rf : List RFilter) (m : Msg) : Prop := ∀ s, (rrunFilters (rchain s rf) s m).1 = none
def Passes (rf : List RFilter) (m : Msg) : Prop := ∀ s, (rrunFilters (rchain s rf) s m).1 ≠ none

theorem takeBodyG_fast (D : Irc → Msg → Irc × Delivery × List Ev) (again : Irc → Irc × List Ev) (s : Irc)
    (m : Msg) (rest : List Msg) (hf : s.fast = m :: rest) :
    takeBodyG D again s =
      match D { s with fast := rest } m with
      | (s1, .out o, evs) => (s1, evs ++ [.took true m o s.now])
      | (s1, .lost o, evs) => (s1, evs ++ [.lost true m o s.now])
      | (s1, .dropped, evs) => ((again s1).1, evs ++ .dropped true m s.now :: (again s1).2) := by
  unfold takeBodyG
  simp only [hf]

/-- handed to the driver, or (a re-sent echo copy) lost to the echo assertion: `g` left the queue
through the filters, not by being forgotten -/
def Reached (g : Msg) (evs : List Ev) : Prop :=
  ∃ o t, Ev.took true g o t ∈ evs ∨ Ev.lost true g o t ∈ evs

theorem rtakeAux_reaches (rf : List RFilter) (g : Msg) (hg : Passes rf g) :
    ∀ (ds : List Msg) (fuel : Nat) (s : Irc) (rest : List Msg), (∀ d ∈ ds, Drops rf d) →
      s.fast = ds ++ g :: rest → ds.length < fuel → Reached g (rtakeAux rf fuel s).2
  | [], fuel, s, rest, _, hf, hlt => by
    obtain ⟨k, rfl⟩ : ∃ k, fuel = k + 1 := ⟨fuel - 1, by omega⟩
    show Reached g (takeBodyG (rdeliver rf) (rtakeAux rf k) s).2
    rw [takeBodyG_fast _ _ s g rest (by simpa using hf)]
    have hnd : (rdeliver rf { s with fast := rest } g).2.1 ≠ .dropped :=
      fun h => hg { s with fast := rest } ((rdeliver_dropped rf _ g).mp h)
    cases h : rdeliver rf { s with fast := rest } g with
    | mk s1 r =>
      cases r with
      | mk d evs =>
        rw [h] at hnd
        cases d with
        | out o => exact ⟨o, s.now, Or.inl (by simp)⟩
        | lost o => exact ⟨o, s.now, Or.inr (by simp)⟩
        | dropped => exact absurd rfl hnd
  | d :: ds, fuel, s, rest, hd, hf, hlt => by
    obtain ⟨k, rfl⟩ : ∃ k, fuel = k + 1 := ⟨fuel - 1, by simp at hlt; omega⟩
    show Reached g (takeBodyG (rdeliver rf) (rtakeAux rf k) s).2
    rw [takeBodyG_fast _ _ s d (ds ++ g :: rest) (by simpa using hf)]
    have hdd := (rdeliver_dropped rf { s with fast := ds ++ g :: rest } d).mpr (hd d mem_cons_self _)
    obtain ⟨add, hfast⟩ := rdeliver_fast rf { s with fast := ds ++ g :: rest } d
    cases h : rdeliver rf { s with fast := ds ++ g :: rest } d with
    | mk s1 r =>
      cases r with
      | mk dl evs =>
        rw [h] at hdd hfast
        simp only at hdd hfast
        subst hdd
        simp only
        have ih := rtakeAux_reaches rf g hg ds k s1 (rest ++ add) (fun x hx => hd x (mem_cons_of_mem _ hx))
          (by rw [hfast]; simp) (by simp at hlt; omega)
        obtain ⟨o, t, ho⟩ := ih
        refine ⟨o, t, ?_⟩
        rcases ho with ho | ho
        · exact Or.inl (by simp [ho])
        · exact Or.inr (by simp [ho])

/-- **A run of dropped messages — even with filters that send or queue more while they run — cannot
stall the message behind it**: if the fast queue starts with messages the chain drops, followed by one
it lets through, that one leaves in the very same `takeMsg` call: the rounds `takeMsg` allows itself
(one per message waiting at entry, plus one) are enough, because whatever the filters add goes behind. -/
theorem rtakeMsg_no_stall (rf : List RFilter) (s : Irc) (ds : List Msg) (g : Msg) (rest : List Msg)
    (hd : ∀ d ∈ ds, Drops rf d) (hg : Passes rf g) (hf : s.fast = ds ++ g :: rest) :
    Reached g (rtakeMsg rf s).2 := by
  apply rtakeAux_reaches rf g hg ds _ s rest hd hf
  simp only [Irc.pending, hf, length_append, length_cons]
  omega

end C19
