/-
C19 — the ping machinery over whole histories.

A PING of the bot's own is the only message `queueMsg` is ever given from inside (`Oid.int`, regular
queue): `isPing`.  `takeMsg` (any number of rounds) either leaves the ping state alone, or emits one
PING — at a moment when both queues are empty, the MOTD is over, the interval has elapsed and no PING
is outstanding — or, with a PING outstanding that long, makes the driver reconnect, once.
-/
import LimnoriaModel.C19.Fresh
import LimnoriaModel.C19.Reconnect
namespace C19
open Py List

def isPing : Ev → Bool
  | .accepted false m => match m.oid with
    | .int _ => true
    | .ext _ => false
  | _ => false

def isReconn : Ev → Bool
  | .driverReconnect => true
  | _ => false

def pingsOf (evs : List Ev) : Nat := evs.countP isPing
def reconnOf (evs : List Ev) : Nat := evs.countP isReconn

theorem pingsOf_append (a b : List Ev) : pingsOf (a ++ b) = pingsOf a + pingsOf b := countP_append
theorem reconnOf_append (a b : List Ev) : reconnOf (a ++ b) = reconnOf a + reconnOf b := countP_append
theorem pingsOf_cons (e : Ev) (l : List Ev) : pingsOf (e :: l) = pingsOf [e] + pingsOf l :=
  pingsOf_append [e] l
theorem reconnOf_cons (e : Ev) (l : List Ev) : reconnOf (e :: l) = reconnOf [e] + reconnOf l :=
  reconnOf_append [e] l

/-- the moment a PING may be emitted -/
structure PingDue (t : Irc) : Prop where
  fastEmpty : t.fast = []
  queueEmpty : t.queue.isEmpty = true
  connected : t.afterConnect = true
  pingOn : t.cfg.pingOn = true
  elapsed : t.lastPing + t.cfg.pingInterval < t.now
  alive : t.zombie = false

/-- what a piece of `takeMsg` does to the ping state -/
inductive PingOut (s : Irc) (r : Irc × List Ev) : Prop where
  | quiet (hp : pingsOf r.2 = 0) (hr : reconnOf r.2 = 0)
      (ho : r.1.outstandingPing = s.outstandingPing) : PingOut s r
  | sent (hp : pingsOf r.2 = 1) (hr : reconnOf r.2 = 0) (h0 : s.outstandingPing = false)
      (h1 : r.1.outstandingPing = true) (t : Irc) (hd : PingDue t) (hl : r.1.lastPing = t.now) : PingOut s r
  | timedOut (hp : pingsOf r.2 = 0) (hr : reconnOf r.2 = 1) (h0 : s.outstandingPing = true)
      (h1 : r.1.outstandingPing = false) : PingOut s r

theorem PingOut.of_frame {s s' : Irc} {r : Irc × List Ev} (h : PingOut s r)
    (ho : s.outstandingPing = s'.outstandingPing) : PingOut s' r := by
  cases h with
  | quiet hp hr h1 => exact .quiet hp hr (h1.trans ho)
  | sent hp hr h0 h1 t hd hl => exact .sent hp hr (ho ▸ h0) h1 t hd hl
  | timedOut hp hr h0 h1 => exact .timedOut hp hr (ho ▸ h0) h1

/-- events without a PING or a reconnect in front change nothing -/
theorem PingOut.prepend {s : Irc} {r : Irc × List Ev} (h : PingOut s r) (a : List Ev)
    (hp : pingsOf a = 0) (hr : reconnOf a = 0) : PingOut s (r.1, a ++ r.2) := by
  cases h with
  | quiet p q o => exact .quiet (by rw [pingsOf_append]; omega) (by rw [reconnOf_append]; omega) o
  | sent p q h0 h1 t hd hl =>
    exact .sent (by rw [pingsOf_append]; omega) (by rw [reconnOf_append]; omega) h0 h1 t hd hl
  | timedOut p q h0 h1 =>
    exact .timedOut (by rw [pingsOf_append]; omega) (by rw [reconnOf_append]; omega) h0 h1

theorem PingOut.append {s : Irc} {r : Irc × List Ev} (h : PingOut s r) (a : List Ev)
    (hp : pingsOf a = 0) (hr : reconnOf a = 0) : PingOut s (r.1, r.2 ++ a) := by
  cases h with
  | quiet p q o => exact .quiet (by rw [pingsOf_append]; omega) (by rw [reconnOf_append]; omega) o
  | sent p q h0 h1 t hd hl =>
    exact .sent (by rw [pingsOf_append]; omega) (by rw [reconnOf_append]; omega) h0 h1 t hd hl
  | timedOut p q h0 h1 =>
    exact .timedOut (by rw [pingsOf_append]; omega) (by rw [reconnOf_append]; omega) h0 h1

theorem sendConnect_quiet : ∀ (cs : List Content) (s : Irc),
    pingsOf (sendConnect s cs).2 = 0 ∧ reconnOf (sendConnect s cs).2 = 0 ∧
    (sendConnect s cs).1.outstandingPing = s.outstandingPing
  | [], s => ⟨rfl, rfl, rfl⟩
  | c :: cs, s => by
    unfold sendConnect
    dsimp only
    have ih := sendConnect_quiet cs (sendMsg { s with nextOid := s.nextOid + 1 } ⟨.int s.nextOid, c⟩).1
    rw [pingsOf_append, reconnOf_append, ih.1, ih.2.1, ih.2.2]
    unfold sendMsg
    split <;> exact ⟨rfl, rfl, rfl⟩

theorem queueConnectMessages_quiet (s : Irc) :
    pingsOf (queueConnectMessages s).2 = 0 ∧ reconnOf (queueConnectMessages s).2 = 0 ∧
    (queueConnectMessages s).1.outstandingPing = s.outstandingPing := by
  unfold queueConnectMessages
  split
  · exact ⟨rfl, rfl, rfl⟩
  · exact sendConnect_quiet _ _

theorem reset_quiet (s : Irc) :
    pingsOf (reset s).2 = 0 ∧ reconnOf (reset s).2 = 0 ∧ (reset s).1.outstandingPing = false := by
  unfold reset
  dsimp only
  have h := queueConnectMessages_quiet (afterResetZombie s)
  show pingsOf (_ :: (queueConnectMessages (afterResetZombie s)).2) = 0 ∧ reconnOf (_ :: (queueConnectMessages (afterResetZombie s)).2) = 0 ∧
    (queueConnectMessages (afterResetZombie s)).1.outstandingPing = false
  rw [pingsOf_cons, reconnOf_cons, h.1, h.2.1, h.2.2]
  exact ⟨rfl, rfl, rfl⟩

theorem noMsg_quiet (s : Irc) : pingsOf (noMsg s).2 = 0 ∧ reconnOf (noMsg s).2 = 0 := by
  unfold noMsg
  split <;> exact ⟨rfl, rfl⟩

theorem queueMsg_idle_accept (t : Irc) (m : Msg) (htz : t.zombie = false) (hq : t.queue.isEmpty = true) :
    ∃ q', queueMsg t m = ({ t with queue := q' }, [.accepted false m]) := by
  have hnc : t.queue.contains m = false := by
    simp only [Queue.isEmpty, Bool.and_eq_true, List.isEmpty_iff] at hq
    simp [Queue.contains, hq.1.1, hq.1.2, hq.2]
  have he : ∃ q', t.queue.enqueue t.cfg.dupRefuse m = (q', true) := by
    unfold Queue.enqueue
    simp only [hnc, Bool.false_and, Bool.false_eq_true, if_false]
    split <;> exact ⟨_, rfl⟩
  obtain ⟨q', he⟩ := he
  unfold queueMsg
  simp only [htz, Bool.not_false, if_true]
  rw [he]
  exact ⟨q', rfl⟩

/-- the ping branch, reached with both queues empty -/
theorem pingBranch_out (s : Irc) (hf : s.fast = []) (hq : s.queue.isEmpty = true) :
    PingOut s (pingBranch s) := by
  unfold pingBranch
  split
  · rename_i hc
    simp only [Bool.and_eq_true, decide_eq_true_eq] at hc
    split
    · rename_i ho
      have h := reset_quiet s
      refine .timedOut ?_ ?_ ho h.2.2
      · rw [pingsOf_cons, h.1]; rfl
      · rw [reconnOf_cons, h.2.1]; rfl
    · rename_i ho
      split
      · rename_i hz
        simp only [Bool.not_eq_true'] at hz
        simp only [Bool.not_eq_true] at ho
        obtain ⟨q', hacc⟩ := queueMsg_idle_accept
          { s with lastPing := s.now, outstandingPing := true, nextOid := s.nextOid + 1 }
          ⟨.int s.nextOid, ⟨[], ['P', 'I', 'N', 'G'], [natDec s.now], []⟩⟩ hz hq
        rw [hacc]
        exact .sent rfl rfl ho rfl s ⟨hf, hq, hc.1.1, hc.1.2, hc.2, hz⟩ rfl
      · exact .quiet rfl rfl rfl
  · exact .quiet rfl rfl rfl

theorem deliver_out {s s1 : Irc} {m : Msg} {d : Delivery} (h : deliver s m = (s1, d)) :
    s1.outstandingPing = s.outstandingPing := by
  obtain ⟨n, e, hh⟩ := deliver_frame' h
  rw [hh]

/-- **`takeMsg`, however many rounds it makes**: it leaves the ping state alone, or emits exactly one
PING (when nothing waits, after the MOTD, the interval elapsed, none outstanding), or — a PING
outstanding for the whole interval — makes the driver reconnect exactly once and forgets the PING. -/
theorem takeAux_ping : ∀ (fuel : Nat) (s : Irc), PingOut s (takeAux fuel s)
  | 0, s => .quiet rfl rfl rfl
  | fuel + 1, s => by
    unfold takeAux takeBody
    split
    · rename_i m rest hf
      split
      · rename_i s1 o hd
        exact .quiet rfl rfl (by have := deliver_out hd; exact this)
      · rename_i s1 o hd
        exact .quiet rfl rfl (by have := deliver_out hd; exact this)
      · rename_i s1 hd
        have ih := (takeAux_ping fuel s1).of_frame (s' := s) (by have := deliver_out hd; exact this)
        exact ih.prepend [.dropped true m s.now] rfl rfl
    · rename_i hf
      split
      · rename_i hq
        split
        · have h := noMsg_quiet s
          refine .quiet ?_ ?_ ?_
          · show pingsOf (_ :: _) = 0; rw [pingsOf_cons, h.1]; rfl
          · show reconnOf (_ :: _) = 0; rw [reconnOf_cons, h.2]; rfl
          · rw [noMsg_state]
        · split
          · rename_i q' m hdq
            split
            · rename_i s1 o hd
              exact .quiet rfl rfl (by have := deliver_out hd; exact this)
            · rename_i s1 o hd
              exact .quiet rfl rfl (by have := deliver_out hd; exact this)
            · rename_i s1 hd
              have ih := (takeAux_ping fuel s1).of_frame (s' := s) (by have := deliver_out hd; exact this)
              exact ih.prepend [.dropped false m s.now] rfl rfl
          · rename_i q' m hdq
            have h := noMsg_quiet { s with lastTake := s.now, queue := q' }
            refine .quiet ?_ ?_ ?_
            · show pingsOf (_ :: _) = 0; rw [pingsOf_cons, h.1]; rfl
            · show reconnOf (_ :: _) = 0; rw [reconnOf_cons, h.2]; rfl
            · rw [noMsg_state]
          · rename_i q' hdq
            have h := noMsg_quiet { s with lastTake := s.now, queue := q' }
            exact .quiet h.1 h.2 (by rw [noMsg_state])
      · rename_i hq
        simp only [Bool.not_eq_true, Bool.not_eq_false'] at hq
        have hp := pingBranch_out s hf hq
        have h := noMsg_quiet (pingBranch s).1
        have := hp.append (noMsg (pingBranch s).1).2 h.1 h.2
        dsimp only
        rw [noMsg_state]
        exact this

theorem takeMsg_ping (s : Irc) : PingOut s (takeMsg s) := takeAux_ping _ s

/-! ### a ping time-out throws nothing away -/

def discs (evs : List Ev) : List (List Msg) :=
  evs.filterMap fun
    | .discarded ms => some ms
    | _ => none

theorem discs_append (a b : List Ev) : discs (a ++ b) = discs a ++ discs b := filterMap_append

theorem discs_cons (e : Ev) (l : List Ev) : discs (e :: l) = discs [e] ++ discs l := discs_append [e] l

theorem sendConnect_discs : ∀ (cs : List Content) (s : Irc), discs (sendConnect s cs).2 = []
  | [], _ => rfl
  | c :: cs, s => by
    unfold sendConnect
    dsimp only
    rw [discs_append, sendConnect_discs cs]
    unfold sendMsg
    split <;> rfl

theorem queueConnectMessages_discs (s : Irc) : discs (queueConnectMessages s).2 = [] := by
  unfold queueConnectMessages
  split
  · rfl
  · exact sendConnect_discs _ _

theorem noMsg_discs (s : Irc) : discs (noMsg s).2 = [] := by
  unfold noMsg; split <;> rfl

theorem queueMsg_discs (s : Irc) (m : Msg) : discs (queueMsg s m).2 = [] := by
  unfold queueMsg
  split
  · split <;> rfl
  · rfl

theorem pingBranch_discs (s : Irc) (hf : s.fast = []) (hq : s.queue.isEmpty = true) :
    ∀ ms ∈ discs (pingBranch s).2, ms = [] := by
  unfold pingBranch
  split
  · split
    · dsimp only
      intro ms hm
      have hr : discs (reset s).2 = [s.pending] := by
        unfold reset; dsimp only
        rw [discs_cons, queueConnectMessages_discs]; rfl
      rw [discs_cons, hr] at hm
      simp only [discs, filterMap_cons, filterMap_nil, nil_append, mem_singleton] at hm
      rw [hm]; exact pending_nil s hf hq
    · split
      · intro ms hm; rw [queueMsg_discs] at hm; cases hm
      · intro ms hm; cases hm
  · intro ms hm; cases hm

/-- **A ping time-out throws nothing away**: whatever `takeMsg` discards (it does so only by
reconnecting for an unanswered PING) is the empty backlog — the ping branch is reached only with
both queues empty, so no message accepted by `queueMsg`/`sendMsg` is lost to a time-out while it
waits, throttled or rate-limited. -/
theorem takeAux_discards_nothing : ∀ (fuel : Nat) (s : Irc), ∀ ms ∈ discs (takeAux fuel s).2, ms = []
  | 0, _ => by intro ms hm; cases hm
  | fuel + 1, s => by
    unfold takeAux takeBody
    split
    · rename_i m rest hf
      split
      · intro ms hm; cases hm
      · intro ms hm; cases hm
      · rename_i s1 hd
        intro ms hm
        rw [discs_cons] at hm
        exact takeAux_discards_nothing fuel s1 ms (by simpa [discs] using hm)
    · rename_i hf
      split
      · split
        · intro ms hm
          rw [discs_cons, noMsg_discs] at hm
          simp [discs] at hm
        · split
          · rename_i q' m hdq
            split
            · intro ms hm; cases hm
            · intro ms hm; cases hm
            · rename_i s1 hd
              intro ms hm
              rw [discs_cons] at hm
              exact takeAux_discards_nothing fuel s1 ms (by simpa [discs] using hm)
          · intro ms hm
            rw [discs_cons, noMsg_discs] at hm
            simp [discs] at hm
          · intro ms hm
            rw [noMsg_discs] at hm; cases hm
      · rename_i hq
        simp only [Bool.not_eq_true, Bool.not_eq_false'] at hq
        intro ms hm
        dsimp only at hm
        rw [discs_append, noMsg_discs, append_nil] at hm
        exact pingBranch_discs s hf hq ms hm

/-! ### whole histories -/

def b2n (b : Bool) : Nat := if b then 1 else 0

/-- operations that clear an outstanding PING from outside: a PONG arrived, `reset()` was called -/
def clearsOf : List Op → Nat
  | [] => 0
  | .pong :: ops => clearsOf ops + 1
  | .reset :: ops => clearsOf ops + 1
  | _ :: ops => clearsOf ops

/-- callers hand `queueMsg` objects of their own -/
def QExt : List Op → Prop
  | [] => True
  | .queue m :: ops => (∃ k, m.oid = .ext k) ∧ QExt ops
  | _ :: ops => QExt ops

/-- the two inequalities, relative to the state a piece of history starts from -/
def PingBal (s : Irc) (r : Irc × List Ev) (clears : Nat) : Prop :=
  reconnOf r.2 + b2n r.1.outstandingPing ≤ pingsOf r.2 + b2n s.outstandingPing ∧
  pingsOf r.2 + b2n s.outstandingPing ≤ reconnOf r.2 + clears + b2n r.1.outstandingPing

theorem PingOut.bal {s : Irc} {r : Irc × List Ev} (h : PingOut s r) : PingBal s r 0 := by
  cases h with
  | quiet hp hr ho => simp only [PingBal, hp, hr, ho]; omega
  | sent hp hr h0 h1 => simp only [PingBal, hp, hr, h0, h1, b2n]; simp
  | timedOut hp hr h0 h1 => simp only [PingBal, hp, hr, h0, h1, b2n]; simp

theorem PingBal.trans {s s1 s2 : Irc} {e1 e2 : List Ev} {k1 k2 : Nat}
    (h1 : PingBal s (s1, e1) k1) (h2 : PingBal s1 (s2, e2) k2) : PingBal s (s2, e1 ++ e2) (k1 + k2) := by
  simp only [PingBal, pingsOf_append, reconnOf_append] at *
  omega

theorem queueMsg_bal (s : Irc) (m : Msg) (hm : ∃ k, m.oid = .ext k) : PingBal s (queueMsg s m) 0 := by
  obtain ⟨k, hk⟩ := hm
  have hnp : isPing (.accepted false m) = false := by simp [isPing, hk]
  unfold queueMsg
  split
  · split
    · simp only [PingBal, pingsOf, reconnOf, countP_cons, countP_nil, hnp, isReconn]; simp
    · simp only [PingBal, pingsOf, reconnOf, countP_cons, countP_nil, isPing, isReconn]; simp
  · simp only [PingBal, pingsOf, reconnOf, countP_cons, countP_nil, isPing, isReconn]; simp

theorem step_bal (s : Irc) (op : Op) (h : QExt [op]) :
    PingBal s (step s op) (clearsOf [op]) := by
  cases op with
  | queue m => exact queueMsg_bal s m h.1
  | send m =>
    simp only [step, sendMsg]
    split <;> (simp only [PingBal, pingsOf, reconnOf, countP_cons, countP_nil, isPing, isReconn]; simp)
  | take => exact (takeMsg_ping s).bal
  | die =>
    simp only [step, die]
    split <;> (simp only [PingBal, pingsOf, reconnOf, countP_cons, countP_nil, isPing, isReconn]; simp)
  | reset =>
    have hq := reset_quiet s
    simp only [step, PingBal, clearsOf, hq.1, hq.2.1, hq.2.2, b2n]
    cases s.outstandingPing <;> simp
  | tick dt => simp [step, PingBal, pingsOf, reconnOf]
  | connected => simp [step, PingBal, pingsOf, reconnOf]
  | pong =>
    simp only [step, PingBal, clearsOf, pingsOf, reconnOf, countP_nil, b2n]
    cases s.outstandingPing <;> simp
  | capEcho b => simp [step, PingBal, pingsOf, reconnOf]
  | capLabel b => simp [step, PingBal, pingsOf, reconnOf]
  | config c => simp [step, PingBal, pingsOf, reconnOf, isPing, isReconn]

theorem QExt.cons {op : Op} {ops : List Op} (h : QExt (op :: ops)) : QExt [op] ∧ QExt ops := by
  cases op <;> first | exact ⟨trivial, h⟩ | exact ⟨⟨h.1, trivial⟩, h.2⟩

theorem clearsOf_cons (op : Op) (ops : List Op) : clearsOf (op :: ops) = clearsOf [op] + clearsOf ops := by
  cases op <;> simp [clearsOf] <;> omega

theorem run_bal : ∀ (ops : List Op) (s : Irc), QExt ops → PingBal s (run s ops) (clearsOf ops)
  | [], s, _ => by simp [run, PingBal, pingsOf, reconnOf, clearsOf]
  | op :: ops, s, h => by
    obtain ⟨h1, h2⟩ := h.cons
    unfold run
    dsimp only
    rw [clearsOf_cons]
    exact PingBal.trans (step_bal s op h1) (run_bal ops (step s op).1 h2)

end C19
