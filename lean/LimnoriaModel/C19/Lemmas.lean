/-
C19 — helper lemmas.
-/
import LimnoriaModel.C19.Model
namespace C19
open Py List

/-- what the property theorems need from the extracted tables -/
def TablesOk (high low : List Str) (join : Str) : Prop :=
  (∀ c, c ∈ high → c ∉ low) ∧ join ∈ low ∧ join ∉ high

instance (high low : List Str) (join : Str) : Decidable (TablesOk high low join) := by
  unfold TablesOk; infer_instance

/-- the commands the property statement calls urgent protocol messages / bulk -/
def urgentCore : List Str :=
  [['P', 'O', 'N', 'G'], ['M', 'O', 'D', 'E'], ['K', 'I', 'C', 'K'], ['N', 'I', 'C', 'K'], ['P', 'A', 'S', 'S']]
def bulkCore : List Str :=
  [['P', 'R', 'I', 'V', 'M', 'S', 'G'], ['N', 'O', 'T', 'I', 'C', 'E'], ['J', 'O', 'I', 'N'], ['W', 'H', 'O'],
   ['P', 'I', 'N', 'G']]
def normalCore : List Str := [['Q', 'U', 'I', 'T'], ['P', 'A', 'R', 'T'], ['T', 'O', 'P', 'I', 'C'], ['C', 'A', 'P']]

/-- the extracted tables put them where the statement expects them -/
def ClassesOk : Prop :=
  (∀ c ∈ urgentCore, classOf c = .high) ∧ (∀ c ∈ bulkCore, classOf c = .low) ∧
  (∀ c ∈ normalCore, classOf c = .normal) ∧ Gen.rateLimitedCommand = ['J', 'O', 'I', 'N'] ∧
  (∀ c ∈ [['P', 'R', 'I', 'V', 'M', 'S', 'G'], ['N', 'O', 'T', 'I', 'C', 'E'], ['T', 'A', 'G', 'M', 'S', 'G']],
      c ∈ Gen.echoCommands)

instance : Decidable ClassesOk := by unfold ClassesOk; infer_instance

/-- `count x [m]`, kept opaque so that `omega` sees an atom -/
def one (x m : Msg) : Nat := count x [m]

theorem count_cons_one (x m : Msg) (l : List Msg) : count x (m :: l) = one x m + count x l := by
  simp [one, count_cons]; omega

/-! ### projections of a trace -/

/-- every message that entered a queue -/
def accOf : List Ev → List Msg
  | [] => []
  | .accepted _ m :: r => m :: accOf r
  | _ :: r => accOf r

/-- messages handed to the driver (as they were when dequeued) -/
def tookOf : List Ev → List Msg
  | [] => []
  | .took _ s _ _ :: r => s :: tookOf r
  | _ :: r => tookOf r

/-- messages an outFilter dropped -/
def dropOf : List Ev → List Msg
  | [] => []
  | .dropped _ s _ :: r => s :: dropOf r
  | _ :: r => dropOf r

/-- messages swallowed by the echo-emulation assertion -/
def lostOf : List Ev → List Msg
  | [] => []
  | .lost _ s _ _ :: r => s :: lostOf r
  | _ :: r => lostOf r

/-- messages thrown away by `reset()` -/
def discOf : List Ev → List Msg
  | [] => []
  | .discarded ms :: r => ms ++ discOf r
  | _ :: r => discOf r

/-- everything that left the queues, whichever way -/
def goneOf : List Ev → List Msg
  | [] => []
  | .took _ s _ _ :: r => s :: goneOf r
  | .dropped _ s _ :: r => s :: goneOf r
  | .lost _ s _ _ :: r => s :: goneOf r
  | .discarded ms :: r => ms ++ goneOf r
  | _ :: r => goneOf r

theorem accOf_append (a b : List Ev) : accOf (a ++ b) = accOf a ++ accOf b := by
  induction a with
  | nil => rfl
  | cons e r ih => cases e <;> simp [accOf, ih]

theorem goneOf_append (a b : List Ev) : goneOf (a ++ b) = goneOf a ++ goneOf b := by
  induction a with
  | nil => rfl
  | cons e r ih => cases e <;> simp [goneOf, ih]

theorem tookOf_append (a b : List Ev) : tookOf (a ++ b) = tookOf a ++ tookOf b := by
  induction a with
  | nil => rfl
  | cons e r ih => cases e <;> simp [tookOf, ih]

theorem dropOf_append (a b : List Ev) : dropOf (a ++ b) = dropOf a ++ dropOf b := by
  induction a with
  | nil => rfl
  | cons e r ih => cases e <;> simp [dropOf, ih]

theorem lostOf_append (a b : List Ev) : lostOf (a ++ b) = lostOf a ++ lostOf b := by
  induction a with
  | nil => rfl
  | cons e r ih => cases e <;> simp [lostOf, ih]

theorem discOf_append (a b : List Ev) : discOf (a ++ b) = discOf a ++ discOf b := by
  induction a with
  | nil => rfl
  | cons e r ih => cases e <;> simp [discOf, ih]

/-- `goneOf` is the four categories together -/
theorem goneOf_count (x : Msg) (tr : List Ev) :
    count x (goneOf tr) = count x (tookOf tr) + count x (dropOf tr) + count x (lostOf tr)
      + count x (discOf tr) := by
  induction tr with
  | nil => rfl
  | cons e r ih =>
    cases e <;> simp only [goneOf, tookOf, dropOf, lostOf, discOf, count_cons_one, count_append, ih] <;> omega

/-! ### conservation, one step -/

/-- normalise counts to atoms (`count x l` for variables `l`, `one x m`) and finish with `omega` -/
macro "cnt" : tactic =>
  `(tactic| (simp only [Irc.pending, Queue.all, Queue.empty, accOf, goneOf, killEvents, count_append,
      count_cons_one, count_nil] at * <;> omega))

/-- pending-before + accepted = gone + pending-after, as multisets (counted per message) -/
def Conserves (s : Irc) (r : Irc × List Ev) : Prop :=
  ∀ x : Msg, count x s.pending + count x (accOf r.2) = count x (goneOf r.2) + count x r.1.pending

theorem Conserves.trans {s : Irc} {s1 s2 : Irc} {e1 e2 : List Ev}
    (h1 : Conserves s (s1, e1)) (h2 : Conserves s1 (s2, e2)) : Conserves s (s2, e1 ++ e2) := by
  intro x
  have a := h1 x
  have b := h2 x
  simp only [accOf_append, goneOf_append, count_append] at *
  omega

theorem Conserves.refl (s : Irc) : Conserves s (s, []) := by
  intro x; cnt

theorem Conserves.of_pending {s s0 : Irc} {r : Irc × List Ev} (h : s0.pending = s.pending)
    (hc : Conserves s0 r) : Conserves s r := by
  intro x; have := hc x; rw [h] at this; exact this

theorem enqueue_true_count {dup : Bool} {q q' : Queue} {m : Msg}
    (h : q.enqueue dup m = (q', true)) (x : Msg) :
    count x q'.all = count x q.all + one x m := by
  unfold Queue.enqueue at h
  split at h
  · cases h
  · split at h <;> (injection h with h1 _; subst h1; cnt)

theorem enqueue_false_eq {dup : Bool} {q q' : Queue} {m : Msg}
    (h : q.enqueue dup m = (q', false)) : q' = q := by
  unfold Queue.enqueue at h
  split at h
  · injection h with h1 _; exact h1.symm
  · split at h <;> (injection h with _ h2; cases h2)

theorem enqueue_lastJoin {dup : Bool} {q q' : Queue} {m : Msg} {b : Bool}
    (h : q.enqueue dup m = (q', b)) : q'.lastJoin = q.lastJoin := by
  unfold Queue.enqueue at h
  split at h
  · injection h with h1 _; subst h1; rfl
  · split at h <;> (injection h with h1 _; subst h1; rfl)

theorem queueMsg_conserves (s : Irc) (m : Msg) : Conserves s (queueMsg s m) := by
  unfold queueMsg
  split
  · split
    · rename_i q' h
      intro x
      have := enqueue_true_count h x
      cnt
    · intro x; cnt
  · intro x; cnt

theorem sendMsg_conserves (s : Irc) (m : Msg) : Conserves s (sendMsg s m) := by
  unfold sendMsg
  split
  · intro x; cnt
  · intro x; cnt

theorem dequeue_msg_count {limit now : Nat} {q q' : Queue} {m : Msg}
    (h : q.dequeue limit now = (q', .msg m)) (x : Msg) :
    count x q.all = one x m + count x q'.all := by
  unfold Queue.dequeue at h
  split at h
  · rename_i m' hs hh
    injection h with h1 h2; injection h2 with h2; subst h1 h2
    simp only [Queue.all, hh]; cnt
  · rename_i hh
    split at h
    · rename_i m' ns hn
      injection h with h1 h2; injection h2 with h2; subst h1 h2
      simp only [Queue.all, hh, hn]; cnt
    · rename_i hn
      split at h
      · injection h with _ h2; cases h2
      · rename_i m' ls hl
        split at h
        · split at h
          · injection h with h1 h2; injection h2 with h2; subst h1 h2
            simp only [Queue.all, hh, hn, hl]; cnt
          · injection h with _ h2; cases h2
        · injection h with h1 h2; injection h2 with h2; subst h1 h2
          simp only [Queue.all, hh, hn, hl]; cnt

theorem dequeue_rotated_count {limit now : Nat} {q q' : Queue} {m : Msg}
    (h : q.dequeue limit now = (q', .rotated m)) (x : Msg) :
    count x q'.all = count x q.all := by
  unfold Queue.dequeue at h
  split at h
  · injection h with _ h2; cases h2
  · rename_i hh
    split at h
    · injection h with _ h2; cases h2
    · rename_i hn
      split at h
      · injection h with _ h2; cases h2
      · rename_i m' ls hl
        split at h
        · split at h
          · injection h with _ h2; cases h2
          · injection h with h1 h2; subst h1
            simp only [Queue.all, hh, hn, hl]; cnt
        · injection h with _ h2; cases h2

theorem dequeue_nothing_eq {limit now : Nat} {q q' : Queue}
    (h : q.dequeue limit now = (q', .nothing)) : q' = q := by
  unfold Queue.dequeue at h
  split at h
  · injection h with _ h2; cases h2
  · split at h
    · injection h with _ h2; cases h2
    · split at h
      · injection h with h1 _; exact h1.symm
      · split at h
        · split at h <;> (injection h with _ h2; cases h2)
        · injection h with _ h2; cases h2

/-! `deliver` touches neither queue -/

theorem deliver_fast (s : Irc) (m : Msg) : (deliver s m).1.fast = s.fast := by
  unfold deliver; split
  · rfl
  · dsimp only; split
    · split <;> rfl
    · rfl

theorem deliver_queue (s : Irc) (m : Msg) : (deliver s m).1.queue = s.queue := by
  unfold deliver; split
  · rfl
  · dsimp only; split
    · split <;> rfl
    · rfl

theorem deliver_pending (s : Irc) (m : Msg) : (deliver s m).1.pending = s.pending := by
  simp only [Irc.pending, deliver_fast, deliver_queue]

theorem noMsg_state (s : Irc) : (noMsg s).1 = s := by
  unfold noMsg; split <;> rfl

theorem noMsg_events (s : Irc) : (noMsg s).2 = [] ∨ (noMsg s).2 = killEvents := by
  unfold noMsg; split
  · right; rfl
  · left; rfl

theorem noMsg_conserves (s : Irc) : Conserves s (noMsg s) := by
  unfold noMsg; split <;> (intro x; cnt)

theorem sendConnect_conserves (cs : List Content) : ∀ s : Irc, Conserves s (sendConnect s cs) := by
  induction cs with
  | nil => intro s; exact Conserves.refl s
  | cons c cs ih =>
    intro s
    unfold sendConnect
    dsimp only
    have h1 : Conserves s (sendMsg { s with nextOid := s.nextOid + 1 } ⟨.int s.nextOid, c⟩) :=
      sendMsg_conserves { s with nextOid := s.nextOid + 1 } ⟨.int s.nextOid, c⟩
    exact Conserves.trans h1 (ih _)

theorem queueConnectMessages_conserves (s : Irc) : Conserves s (queueConnectMessages s) := by
  unfold queueConnectMessages
  split
  · intro x; cnt
  · exact sendConnect_conserves _ s

theorem reset_conserves (s : Irc) : Conserves s (reset s) := by
  unfold reset
  dsimp only
  intro x
  have h := queueConnectMessages_conserves
    { s with lastTake := 0, afterConnect := false, lastPing := s.now, outstandingPing := false,
             echoAcked := false, labelAcked := false, queue := Queue.empty, fast := [] } x
  cnt

theorem pingBranch_conserves (s : Irc) : Conserves s (pingBranch s) := by
  unfold pingBranch
  split
  · split
    · dsimp only
      intro x
      have := reset_conserves s x
      cnt
    · split
      · dsimp only
        refine Conserves.of_pending ?_ (queueMsg_conserves _ _)
        rfl
      · exact Conserves.refl s
  · exact Conserves.refl s

theorem deliver_pending' {s s1 : Irc} {m : Msg} {d : Delivery} (h : deliver s m = (s1, d)) :
    s1.pending = s.pending := by
  have := deliver_pending s m; rw [h] at this; exact this

theorem takeAux_conserves : ∀ (fuel : Nat) (s : Irc), Conserves s (takeAux fuel s)
  | 0, s => Conserves.refl s
  | fuel + 1, s => by
    unfold takeAux takeBody
    split
    · rename_i m rest hf
      split
      · rename_i s1 o hd
        have hp := deliver_pending' hd
        intro x; simp only [Irc.pending] at hp; simp only [Irc.pending, hp, hf]; cnt
      · rename_i s1 o hd
        have hp := deliver_pending' hd
        intro x; simp only [Irc.pending] at hp; simp only [Irc.pending, hp, hf]; cnt
      · rename_i s1 hd
        have hp := deliver_pending' hd
        have ih := takeAux_conserves fuel s1
        intro x
        have := ih x
        simp only [Irc.pending] at hp; simp only [Irc.pending, hp, hf] at *; cnt
    · rename_i hf
      split
      · split
        · dsimp only
          intro x
          have := noMsg_conserves s x
          cnt
        · split
          · rename_i q' m hq
            have hc := dequeue_msg_count hq
            split
            · rename_i s1 o hd
              have hp := deliver_pending' hd
              intro x; have := hc x
              simp only [Irc.pending] at hp; simp only [Irc.pending, hp, hf]; cnt
            · rename_i s1 o hd
              have hp := deliver_pending' hd
              intro x; have := hc x
              simp only [Irc.pending] at hp; simp only [Irc.pending, hp, hf]; cnt
            · rename_i s1 hd
              have hp := deliver_pending' hd
              have ih := takeAux_conserves fuel s1
              intro x
              have := ih x; have := hc x
              simp only [Irc.pending] at hp; simp only [Irc.pending, hp, hf] at *; cnt
          · rename_i q' m hq
            have hc := dequeue_rotated_count hq
            dsimp only
            intro x
            have := noMsg_conserves { s with lastTake := s.now, queue := q' } x
            have := hc x
            simp only [Irc.pending, hf] at *; cnt
          · rename_i q' hq
            have hc := dequeue_nothing_eq hq
            subst hc
            intro x
            have := noMsg_conserves { s with lastTake := s.now, queue := s.queue } x
            simp only [Irc.pending, hf] at *; cnt
      · dsimp only
        exact Conserves.trans (pingBranch_conserves s) (noMsg_conserves _)

theorem takeMsg_conserves (s : Irc) : Conserves s (takeMsg s) := takeAux_conserves _ s

theorem step_conserves (s : Irc) (op : Op) : Conserves s (step s op) := by
  cases op with
  | queue m => exact queueMsg_conserves s m
  | send m => exact sendMsg_conserves s m
  | take => exact takeMsg_conserves s
  | die => unfold step die; dsimp only; split <;> (intro x; cnt)
  | reset => exact reset_conserves s
  | tick dt => intro x; simp only [step]; cnt
  | connected => intro x; simp only [step]; cnt
  | pong => intro x; simp only [step]; cnt
  | capEcho b => intro x; simp only [step]; cnt
  | capLabel b => intro x; simp only [step]; cnt
  | config c => intro x; simp only [step]; cnt

theorem run_conserves : ∀ (ops : List Op) (s : Irc), Conserves s (run s ops)
  | [], s => Conserves.refl s
  | op :: ops, s => by
    unfold run
    exact Conserves.trans (step_conserves s op) (run_conserves ops _)

end C19
