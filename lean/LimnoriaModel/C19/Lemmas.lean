/-
C19 — helper lemmas.
-/
import LimnoriaModel.C19.Model
namespace C19
open Py

/-- what the property theorems need from the extracted tables -/
def TablesOk (high low : List Str) (join : Str) : Prop :=
  (∀ c, c ∈ high → c ∉ low) ∧ join ∈ low ∧ join ∉ high

instance (high low : List Str) (join : Str) : Decidable (TablesOk high low join) := by
  unfold TablesOk; infer_instance

end C19
