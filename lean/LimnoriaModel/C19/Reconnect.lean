/-
C19 — the ping timeout → `driver.reconnect()` → `Irc.reset()` path and what it does to the queues.
-/
import LimnoriaModel.C19.Model
namespace C19
open Py List

/-- the objects `_queueConnectMessages` builds, numbered from `n` -/
def connectObjs : Nat → List Content → List Msg
  | _, [] => []
  | n, c :: cs => ⟨.int n, c⟩ :: connectObjs (n + 1) cs

theorem connectObjs_contents : ∀ (n : Nat) (cs : List Content), (connectObjs n cs).map (·.c) = cs
  | _, [] => rfl
  | n, c :: cs => by simp [connectObjs, connectObjs_contents (n + 1) cs]

theorem connectObjs_oids : ∀ (n : Nat) (cs : List Content) (m : Msg), m ∈ connectObjs n cs →
    ∃ k, m.oid = .int k ∧ n ≤ k
  | _, [], m, h => by simp [connectObjs] at h
  | n, c :: cs, m, h => by
    simp only [connectObjs, mem_cons] at h
    cases h with
    | inl h => exact ⟨n, by rw [h], Nat.le_refl n⟩
    | inr h =>
      obtain ⟨k, hk, hle⟩ := connectObjs_oids (n + 1) cs m h
      exact ⟨k, hk, by omega⟩

/-- the state after the `sendMsg`s of `_queueConnectMessages` -/
def connected (s : Irc) (cs : List Content) : Irc :=
  { s with fast := s.fast ++ connectObjs s.nextOid cs, nextOid := s.nextOid + cs.length }

theorem sendConnect_eq : ∀ (cs : List Content) (s : Irc), s.zombie = false →
    (sendConnect s cs).1 = connected s cs ∧
    (sendConnect s cs).2 = (connectObjs s.nextOid cs).map (Ev.accepted true)
  | [], s, _ => by simp [sendConnect, connected, connectObjs]
  | c :: cs, s, hz => by
    have ih := sendConnect_eq cs { s with fast := s.fast ++ [⟨.int s.nextOid, c⟩], nextOid := s.nextOid + 1 } hz
    simp only [sendConnect, sendMsg, hz, Bool.not_false, if_true]
    simp only [hz] at ih
    refine ⟨?_, ?_⟩
    · rw [ih.1]
      simp only [connected, connectObjs, append_assoc, singleton_append, length_cons, Irc.mk.injEq,
        true_and]
      exact ⟨hz.symm, by omega⟩
    · rw [ih.2]
      simp [connectObjs]

/-- the state `reset()` leaves when the bot is not dying -/
def afterReset (s : Irc) : Irc :=
  { s with lastTake := 0, afterConnect := false, lastPing := s.now, outstandingPing := false,
           echoAcked := false, labelAcked := false, queue := Queue.empty,
           fast := connectObjs s.nextOid s.cfg.connectMsgs,
           nextOid := s.nextOid + s.cfg.connectMsgs.length }

theorem reset_eq (s : Irc) (hz : s.zombie = false) :
    reset s = (afterReset s, .discarded s.pending ::
      (connectObjs s.nextOid s.cfg.connectMsgs).map (Ev.accepted true)) := by
  have h := sendConnect_eq s.cfg.connectMsgs
    { s with lastTake := 0, afterConnect := false, lastPing := s.now, outstandingPing := false,
             echoAcked := false, labelAcked := false, queue := Queue.empty, fast := [] } hz
  simp only [hz] at h
  simp only [reset, queueConnectMessages, hz, Bool.false_eq_true, if_false]
  rw [Prod.ext_iff]
  refine ⟨?_, ?_⟩
  · rw [h.1]; simp [connected, afterReset, hz]
  · simp only; rw [h.2]

/-- the ping branch does nothing between `reset()` and the end of the next MOTD -/
theorem pingBranch_idle (s : Irc) (h : s.afterConnect = false) : pingBranch s = (s, []) := by
  simp [pingBranch, h]

theorem takeMsg_idle_eq (s : Irc) (hf : s.fast = []) (hq : s.queue.isEmpty = true) :
    takeMsg s = ((noMsg (pingBranch s).1).1, (pingBranch s).2 ++ (noMsg (pingBranch s).1).2) := by
  simp only [takeMsg, Irc.pending, hf, nil_append]
  unfold takeAux takeBody
  simp [hf, hq]

theorem pending_nil (s : Irc) (hf : s.fast = []) (hq : s.queue.isEmpty = true) : s.pending = [] := by
  simp only [Queue.isEmpty, Bool.and_eq_true, List.isEmpty_iff] at hq
  simp [Irc.pending, Queue.all, hf, hq.1.1, hq.1.2, hq.2]

/-- the state `reset()` leaves when the bot is dying (`zombie`): nothing is queued any more -/
def afterResetZombie (s : Irc) : Irc :=
  { s with lastTake := 0, afterConnect := false, lastPing := s.now, outstandingPing := false,
           echoAcked := false, labelAcked := false, queue := Queue.empty, fast := [] }

theorem reset_zombie_eq (s : Irc) (hz : s.zombie = true) :
    reset s = (afterResetZombie s, .discarded s.pending :: killEvents) := by
  simp [reset, queueConnectMessages, hz, afterResetZombie]

end C19
