/-
C19 — progress: with the clock past every limit each `takeMsg` consumes a waiting message; a
quitting bot empties its queues in boundedly many takes and then closes (helper lemmas).
-/
import LimnoriaModel.C19.Stall
namespace C19
open Py List

/-- a message left a queue in this event (handed over, dropped by a filter, or lost) -/
def Ev.consumes : Ev → Bool
  | .took _ _ _ _ => true
  | .dropped _ _ _ => true
  | .lost _ _ _ _ => true
  | _ => false

theorem dequeue_ready {limit now : Nat} {q : Queue} (hne : q.isEmpty = false)
    (hj : q.lastJoin + limit ≤ now) : ∃ q' m, q.dequeue limit now = (q', .msg m) := by
  unfold Queue.dequeue
  split
  · exact ⟨_, _, rfl⟩
  · rename_i hh
    split
    · exact ⟨_, _, rfl⟩
    · rename_i hn
      split
      · rename_i hl
        simp [Queue.isEmpty, hh, hn, hl] at hne
      · split
        · exact ⟨_, _, rfl⟩
        · exact ⟨_, _, rfl⟩

/-- **no stall**: something is waiting and the clock is past the throttle and the JOIN limit ⇒
this `takeMsg` takes a message out of a queue -/
theorem takeMsg_progress (s : Irc) (hp : s.pending ≠ []) (ht : s.lastTake + s.cfg.throttle < s.now)
    (hj : s.queue.lastJoin + s.cfg.joinLimit ≤ s.now) :
    ∃ e ∈ (takeMsg s).2, e.consumes = true := by
  rw [takeMsg_unfold]
  unfold takeBody
  split
  · split
    · exact ⟨_, mem_cons_self, rfl⟩
    · exact ⟨_, mem_cons_self, rfl⟩
    · exact ⟨_, mem_cons_self, rfl⟩
  · rename_i hf
    have hq : s.queue.isEmpty = false := by
      cases h : s.queue.isEmpty
      · rfl
      · exfalso
        apply hp
        simp only [Queue.isEmpty, Bool.and_eq_true, isEmpty_iff] at h
        simp [Irc.pending, Queue.all, hf, h.1.1, h.1.2, h.2]
    obtain ⟨q', m, hd⟩ := dequeue_ready (limit := s.cfg.joinLimit) (now := s.now) hq hj
    simp only [hq, Bool.not_false, if_true, Nat.not_le.mpr ht, if_false, hd]
    split
    · exact ⟨_, mem_cons_self, rfl⟩
    · exact ⟨_, mem_cons_self, rfl⟩
    · exact ⟨_, mem_cons_self, rfl⟩

/-! ### a quitting bot -/

/-- what a zombie's `takeMsg` leaves alone -/
structure ZFrame (s s' : Irc) (evs : List Ev) : Prop where
  zombie : s'.zombie = true
  cfg : s'.cfg = s.cfg
  now : s'.now = s.now
  noAcc : accOf evs = []

theorem ZFrame.trans {s s1 s2 : Irc} {e1 e2 : List Ev} (h1 : ZFrame s s1 e1) (h2 : ZFrame s1 s2 e2) :
    ZFrame s s2 (e1 ++ e2) :=
  ⟨h2.zombie, h2.cfg.trans h1.cfg, h2.now.trans h1.now, by rw [accOf_append, h1.noAcc, h2.noAcc]; rfl⟩

theorem noMsg_zframe (s : Irc) (hz : s.zombie = true) : ZFrame s (noMsg s).1 (noMsg s).2 := by
  rw [noMsg_state]
  refine ⟨hz, rfl, rfl, ?_⟩
  rcases noMsg_events s with h | h <;> rw [h] <;> rfl

theorem reset_zframe (s : Irc) (hz : s.zombie = true) : ZFrame s (reset s).1 (reset s).2 := by
  unfold reset queueConnectMessages
  dsimp only
  rw [if_pos hz]
  exact ⟨hz, rfl, rfl, rfl⟩

theorem pingBranch_zframe (s : Irc) (hz : s.zombie = true) : ZFrame s (pingBranch s).1 (pingBranch s).2 := by
  unfold pingBranch
  split
  · split
    · dsimp only
      have := reset_zframe s hz
      exact ⟨this.zombie, this.cfg, this.now, by simpa [accOf] using this.noAcc⟩
    · simp only [hz, Bool.not_true, Bool.false_eq_true, if_false]
      exact ⟨hz, rfl, rfl, rfl⟩
  · exact ⟨hz, rfl, rfl, rfl⟩

theorem deliver_keeps {s s1 : Irc} {m : Msg} {d : Delivery} (h : deliver s m = (s1, d)) :
    s1.zombie = s.zombie ∧ s1.cfg = s.cfg ∧ s1.now = s.now := by
  obtain ⟨n, ec, hs1⟩ := deliver_frame' h
  subst hs1; exact ⟨rfl, rfl, rfl⟩

theorem ZFrame.after_deliver {s0 s s1 s' : Irc} {m : Msg} {d : Delivery} {e : Ev} {evs : List Ev}
    (hd : deliver s m = (s1, d)) (h0 : s.zombie = s0.zombie ∧ s.cfg = s0.cfg ∧ s.now = s0.now)
    (he : accOf [e] = []) (h : ZFrame s1 s' evs) : ZFrame s0 s' (e :: evs) := by
  obtain ⟨k1, k2, k3⟩ := deliver_keeps hd
  refine ⟨h.zombie, by rw [h.cfg, k2, h0.2.1], by rw [h.now, k3, h0.2.2], ?_⟩
  have : accOf (e :: evs) = accOf [e] ++ accOf evs := accOf_append [e] evs
  rw [this, he, h.noAcc]; rfl

theorem takeAux_zframe : ∀ (fuel : Nat) (s : Irc), s.zombie = true → ZFrame s (takeAux fuel s).1 (takeAux fuel s).2
  | 0, s, hz => ⟨hz, rfl, rfl, rfl⟩
  | fuel + 1, s, hz => by
    unfold takeAux takeBody
    split
    · split
      · rename_i s1 o hd
        obtain ⟨k1, k2, k3⟩ := deliver_keeps hd
        exact ⟨by rw [k1]; exact hz, k2, k3, rfl⟩
      · rename_i s1 o hd
        obtain ⟨k1, k2, k3⟩ := deliver_keeps hd
        exact ⟨by rw [k1]; exact hz, k2, k3, rfl⟩
      · rename_i s1 hd
        obtain ⟨k1, k2, k3⟩ := deliver_keeps hd
        exact ZFrame.after_deliver hd ⟨rfl, rfl, rfl⟩ rfl (takeAux_zframe fuel s1 (by rw [k1]; exact hz))
    · split
      · split
        · dsimp only
          have := noMsg_zframe s hz
          exact ⟨this.zombie, this.cfg, this.now, by simpa [accOf] using this.noAcc⟩
        · split
          · split
            · rename_i s1 o hd
              obtain ⟨k1, k2, k3⟩ := deliver_keeps hd
              exact ⟨by rw [k1]; exact hz, k2, k3, rfl⟩
            · rename_i s1 o hd
              obtain ⟨k1, k2, k3⟩ := deliver_keeps hd
              exact ⟨by rw [k1]; exact hz, k2, k3, rfl⟩
            · rename_i s1 hd
              obtain ⟨k1, k2, k3⟩ := deliver_keeps hd
              exact ZFrame.after_deliver hd ⟨rfl, rfl, rfl⟩ rfl (takeAux_zframe fuel s1 (by rw [k1]; exact hz))
          · rename_i q' m hq
            dsimp only
            have := noMsg_zframe { s with lastTake := s.now, queue := q' } hz
            exact ⟨this.zombie, this.cfg, this.now, by simpa [accOf] using this.noAcc⟩
          · rename_i q' hq
            have := noMsg_zframe { s with lastTake := s.now, queue := q' } hz
            exact ⟨this.zombie, this.cfg, this.now, this.noAcc⟩
      · dsimp only
        have h1 := pingBranch_zframe s hz
        have h2 := noMsg_zframe (pingBranch s).1 h1.zombie
        exact h1.trans h2

/-- a zombie with nothing waiting: `takeMsg` kills the driver -/
theorem takeMsg_zombie_empty (s : Irc) (hz : s.zombie = true) (hp : s.pending = []) :
    Ev.driverDie ∈ (takeMsg s).2 ∧ (takeMsg s).1.pending = [] := by
  have hf : s.fast = [] := by
    simp only [Irc.pending, append_eq_nil_iff] at hp; exact hp.1
  have hq : s.queue.isEmpty = true := by
    simp only [Irc.pending, Queue.all, append_eq_nil_iff] at hp
    simp [Queue.isEmpty, hp.2.1.1, hp.2.1.2, hp.2.2]
  rw [takeMsg_unfold]
  unfold takeBody
  simp only [hf, hq, Bool.not_true, Bool.false_eq_true, if_false]
  -- the ping branch either does nothing or resets a zombie (which kills, too)
  have hpb : (pingBranch s).1.zombie = true ∧ (pingBranch s).1.pending = [] := by
    unfold pingBranch
    split
    · split
      · dsimp only
        unfold reset queueConnectMessages
        dsimp only
        rw [if_pos hz]
        exact ⟨hz, rfl⟩
      · simp only [hz, Bool.not_true, Bool.false_eq_true, if_false]
        exact ⟨trivial, hp⟩
    · exact ⟨hz, hp⟩
  have hf' : (pingBranch s).1.fast = [] := by
    have := hpb.2; simp only [Irc.pending, append_eq_nil_iff] at this; exact this.1
  have hq' : (pingBranch s).1.queue.isEmpty = true := by
    have := hpb.2
    simp only [Irc.pending, Queue.all, append_eq_nil_iff] at this
    simp [Queue.isEmpty, this.2.1.1, this.2.1.2, this.2.2]
  refine ⟨?_, ?_⟩
  · apply mem_append_right
    unfold noMsg
    simp [hpb.1, hf', hq', killEvents]
  · rw [noMsg_state]; exact hpb.2

/-! ### draining -/

/-- `k` rounds of: let `d` seconds pass, call `takeMsg` -/
def drainOps (d : Nat) : Nat → List Op
  | 0 => []
  | k + 1 => .tick d :: .take :: drainOps d k

/-- a quitting bot in a consistent state -/
structure ZInv (s : Irc) : Prop where
  zombie : s.zombie = true
  cls : ClassInv s.queue
  takeNow : s.lastTake ≤ s.now
  joinNow : s.queue.lastJoin ≤ s.now

theorem goneOf_ne_nil_of_consumes {evs : List Ev} {e : Ev} (he : e ∈ evs) (hc : e.consumes = true) :
    0 < (goneOf evs).length := by
  induction evs with
  | nil => cases he
  | cons x xs ih =>
    rcases mem_cons.mp he with h | h
    · subst h
      cases e with
      | took f a b t => simp [goneOf]
      | dropped f a t => simp [goneOf]
      | lost f a b t => simp [goneOf]
      | _ => cases hc
    · have := ih h
      cases x <;> simp [goneOf] <;> omega

/-- one round on a quitting bot: the invariant is kept, nothing is accepted, and if something was
waiting (and `d` exceeds the throttle time and covers the JOIN limit) fewer messages wait afterwards -/
theorem drain_round (ht : TablesOk Gen.highPriority Gen.lowPriority Gen.rateLimitedCommand)
    (s : Irc) (hz : ZInv s) (d : Nat) (hd : s.cfg.throttle < d) (hj : s.cfg.joinLimit ≤ d) :
    let s' := (takeMsg { s with now := s.now + d }).1
    ZInv s' ∧ s'.cfg = s.cfg ∧ (s.pending ≠ [] → s'.pending.length < s.pending.length) ∧
    (s.pending = [] → s'.pending = []) := by
  intro s'
  let st : Irc := { s with now := s.now + d }
  have hzt : st.zombie = true := hz.zombie
  have zf := takeAux_zframe (st.pending.length + 1) st hzt
  have hcls : ClassInv s'.queue := (takeAux_fifo (st.pending.length + 1) st).classInv hz.cls
  have hri : RateInv st ⟨st.cfg.throttle, st.cfg.joinLimit, none, none⟩ :=
    ⟨rfl, rfl, (by intro l h; cases h), Nat.le_trans hz.takeNow (Nat.le_add_right _ _),
      (by intro l h; cases h), Nat.le_trans hz.joinNow (Nat.le_add_right _ _)⟩
  obtain ⟨st', _, hri'⟩ := takeAux_rate ht (st.pending.length + 1) st _ hri hz.cls
  refine ⟨⟨zf.zombie, hcls, hri'.takeNow, hri'.joinNow⟩, zf.cfg, ?_, ?_⟩
  · intro hp
    have hp' : st.pending ≠ [] := hp
    have h1 : st.lastTake + st.cfg.throttle < st.now := by
      show s.lastTake + s.cfg.throttle < s.now + d
      have := hz.takeNow; omega
    have h2 : st.queue.lastJoin + st.cfg.joinLimit ≤ st.now := by
      show s.queue.lastJoin + s.cfg.joinLimit ≤ s.now + d
      have := hz.joinNow; omega
    obtain ⟨e, he, hc⟩ := takeMsg_progress st hp' h1 h2
    have hlen := goneOf_ne_nil_of_consumes he hc
    have hcons := takeMsg_conserves st
    have hperm : st.pending.Perm (goneOf (takeMsg st).2 ++ (takeMsg st).1.pending) := by
      rw [perm_iff_count]; intro x
      have := hcons x
      have hacc : accOf (takeMsg st).2 = [] := zf.noAcc
      rw [hacc] at this
      simp only [count_append, count_nil] at *
      omega
    have := hperm.length_eq
    simp only [length_append] at this
    show (takeMsg st).1.pending.length < st.pending.length
    omega
  · intro hp
    exact (takeMsg_zombie_empty st hzt hp).2

theorem run_drain_succ (s : Irc) (d k : Nat) :
    run s (drainOps d (k + 1)) =
      ((run (takeMsg { s with now := s.now + d }).1 (drainOps d k)).1,
       (takeMsg { s with now := s.now + d }).2 ++ (run (takeMsg { s with now := s.now + d }).1 (drainOps d k)).2) := by
  simp [drainOps, run, step]

/-- **A quitting bot drains and then closes**: within as many rounds as messages are waiting the
queues are empty, and the next `takeMsg` kills the driver. -/
theorem quit_completes_aux (ht : TablesOk Gen.highPriority Gen.lowPriority Gen.rateLimitedCommand) (d : Nat) :
    ∀ (n : Nat) (s : Irc), s.pending.length ≤ n → ZInv s → s.cfg.throttle < d → s.cfg.joinLimit ≤ d →
    ∃ k, k ≤ n ∧ (run s (drainOps d k)).1.pending = [] ∧ Ev.driverDie ∈ (run s (drainOps d (k + 1))).2
  | 0, s, hn, hz, hd, hj => by
    have hp : s.pending = [] := by
      cases h : s.pending with
      | nil => rfl
      | cons a l => rw [h] at hn; simp at hn
    refine ⟨0, Nat.le_refl _, by simpa [drainOps, run] using hp, ?_⟩
    rw [run_drain_succ]
    apply mem_append_left
    exact (takeMsg_zombie_empty { s with now := s.now + d } hz.zombie hp).1
  | n + 1, s, hn, hz, hd, hj => by
    by_cases hp : s.pending = []
    · refine ⟨0, Nat.zero_le _, by simpa [drainOps, run] using hp, ?_⟩
      rw [run_drain_succ]
      apply mem_append_left
      exact (takeMsg_zombie_empty { s with now := s.now + d } hz.zombie hp).1
    · obtain ⟨z', c', p', _⟩ := drain_round ht s hz d hd hj
      have hlt := p' hp
      obtain ⟨k, hk, h1, h2⟩ := quit_completes_aux ht d n _ (by omega) z' (by rw [c']; exact hd) (by rw [c']; exact hj)
      refine ⟨k + 1, by omega, ?_, ?_⟩
      · rw [run_drain_succ]; exact h1
      · rw [run_drain_succ]; exact mem_append_right _ h2

end C19
