/-
Generic line-protocol loop.  Each property supplies a `Handler`: a state, and a step
function from the TAB-separated fields of one input line to one output line.
-/
import LimnoriaModel.Py.Wire
namespace Driver

structure Handler where
  σ : Type
  init : σ
  step : σ → List String → σ × String

partial def loop (h : Handler) (inp : IO.FS.Stream) (out : IO.FS.Stream) (s : h.σ) : IO Unit := do
  let line ← inp.getLine
  if line.isEmpty then
    out.flush
    return ()
  let (s', o) := h.step s (Wire.fields line)
  out.putStrLn o
  loop h inp out s'

def run (h : Handler) : IO Unit := do
  let inp ← IO.getStdin
  let out ← IO.getStdout
  loop h inp out h.init

/-- stateless handler from a pure function -/
def pureHandler (f : List String → String) : Handler :=
  { σ := Unit, init := (), step := fun _ fs => ((), f fs) }

end Driver
