/-
C08 — lemmas about the abstract move system (`Abs.lean`) and their transfer to the model through the
refinement lemmas (`Refine.lean`).
-/
import LimnoriaModel.C08.Refine
namespace C08
open Py
open Gen.Conn (Fsm)

/-! ### what a sequence of moves does to the queue kinds, the epoch and the CAP END counter -/

/-- the shape of the queue kinds / END counter after some moves: either the same epoch and the old
queue extended, or a later epoch (real driver only) and the connect messages extended -/
def Grown (cfg : Cfg) (K : Kind → Bool) (a b : Abs) : Prop :=
  ∃ extra : List Kind, (∀ k ∈ extra, k = .capEnd ∨ K k = true) ∧
    ((b.epoch = a.epoch ∧ b.kinds = a.kinds ++ extra ∧ b.endCount = a.endCount + extra.count .capEnd) ∨
     (a.epoch < b.epoch ∧ cfg.realDriver = true ∧ b.kinds = connectKinds cfg ++ extra ∧ b.endCount = extra.count .capEnd))

theorem Grown.refl (cfg : Cfg) (K : Kind → Bool) (a : Abs) : Grown cfg K a a :=
  ⟨[], by simp, .inl ⟨rfl, by simp, by simp⟩⟩

theorem grown_move {cfg : Cfg} {K : Kind → Bool} {a b c : Abs} (h : Grown cfg K a b) (m : Move cfg K b c) :
    Grown cfg K a c := by
  obtain ⟨extra, hk, hcase⟩ := h
  cases m
  case emit k hK hE hS =>
    refine ⟨extra ++ [k], ?_, ?_⟩
    · intro x hx; simp only [List.mem_append, List.mem_singleton] at hx
      rcases hx with hx | rfl
      · exact hk x hx
      · exact .inr hK
    · have hc : List.count Kind.capEnd [k] = 0 := by simp [List.count_cons, hE]
      rcases hcase with ⟨h1, h2, h3⟩ | ⟨h1, h2, h3, h4⟩
      · exact .inl ⟨h1, by simp [h2], by simp [h3, List.count_append, hc]⟩
      · exact .inr ⟨h1, h2, by simp [h3], by simp [h4, List.count_append, hc]⟩
  case capEnd hf hm =>
    refine ⟨extra ++ [.capEnd], ?_, ?_⟩
    · intro x hx; simp only [List.mem_append, List.mem_singleton] at hx
      rcases hx with hx | rfl
      · exact hk x hx
      · exact .inl rfl
    · rcases hcase with ⟨h1, h2, h3⟩ | ⟨h1, h2, h3, h4⟩
      · exact .inl ⟨h1, by simp [h2], by simp [h3, List.count_append]; omega⟩
      · exact .inr ⟨h1, h2, by simp [h3], by simp [h4, List.count_append]⟩
  case reset hr =>
    refine ⟨[], by simp, .inr ⟨?_, hr, by simp, by simp⟩⟩
    rcases hcase with ⟨h1, _, _⟩ | ⟨h1, _, _, _⟩ <;> simp only <;> omega
  all_goals exact ⟨extra, hk, hcase⟩

theorem grown_of_moves {cfg : Cfg} {K : Kind → Bool} {a b : Abs} (h : Moves cfg K a b) : Grown cfg K a b := by
  induction h with
  | refl => exact Grown.refl cfg K _
  | step _ m ih => exact grown_move ih m

/-! ### CAP END at most once per epoch -/

def lateState (f : Fsm) : Bool :=
  f = .INIT_WAITING_MOTD || f = .INIT_MOTD || f = .CONNECTED || f = .CONNECTED_SASL || f = .SHUTTING_DOWN

/-- the END counter is 0, or it is 1 and the FSM has left the negotiation phase for good -/
def EndInv (a : Abs) : Prop := a.endCount = 0 ∨ (a.endCount = 1 ∧ lateState a.fsm = true)

theorem endInv_move {cfg : Cfg} {K : Kind → Bool} {a b : Abs} (h : EndInv a) (m : Move cfg K a b) : EndInv b := by
  cases m
  case capEnd hf hm =>
    rcases h with h | ⟨_, h2⟩
    · exact .inr ⟨by simp [h], rfl⟩
    · rw [hf] at h2; simp [lateState] at h2
  case saslStart to hto _ _ _ =>
    rcases h with h | ⟨h1, h2⟩
    · exact .inl h
    · rcases hto with ⟨hf, rfl⟩ | ⟨_, rfl⟩
      · rw [hf] at h2; simp [lateState] at h2
      · exact .inr ⟨h1, rfl⟩
  case saslFinish to hto =>
    rcases h with h | ⟨h1, h2⟩
    · exact .inl h
    · rcases hto with ⟨hf, rfl⟩ | ⟨_, rfl⟩
      · rw [hf] at h2; simp [lateState] at h2
      · exact .inr ⟨h1, rfl⟩
  case startMotd _ _ => rcases h with h | ⟨h1, _⟩; exact .inl h; exact .inr ⟨h1, rfl⟩
  case endMotd _ _ => rcases h with h | ⟨h1, _⟩; exact .inl h; exact .inr ⟨h1, rfl⟩
  case shutdown => rcases h with h | ⟨h1, _⟩; exact .inl h; exact .inr ⟨h1, rfl⟩
  case reset _ => exact .inl rfl
  all_goals exact h

theorem endInv_moves {cfg : Cfg} {K : Kind → Bool} {a b : Abs} (h : EndInv a) (m : Moves cfg K a b) : EndInv b := by
  induction m with
  | refl => exact h
  | step _ m ih => exact endInv_move ih m

/-! ### required SASL: no CAP END / MOTD / afterConnect without authentication -/

def pastNegotiation (f : Fsm) : Bool :=
  f = .INIT_WAITING_MOTD || f = .INIT_MOTD || f = .CONNECTED || f = .CONNECTED_SASL

def ReqInv (cfg : Cfg) (a : Abs) : Prop :=
  cfg.required = true → (pastNegotiation a.fsm = true ∨ a.afterConnect = true ∨ 0 < a.endCount) → a.saslAuth = true

theorem missing_false {cfg : Cfg} {a : Abs} (h : missing cfg a = false) (hr : cfg.required = true) : a.saslAuth = true := by
  simpa [missing, hr] using h

theorem reqInv_move {cfg : Cfg} {K : Kind → Bool} {a b : Abs} (h : ReqInv cfg a) (m : Move cfg K a b) : ReqInv cfg b := by
  cases m
  case capEnd hf hm => intro hr _; exact missing_false hm hr
  case saslStart to hto _ hauth _ =>
    intro hr hc
    rcases hto with ⟨_, rfl⟩ | ⟨hf, rfl⟩
    · rcases hc with hc | hc | hc
      · simp [pastNegotiation] at hc
      · exact h hr (.inr (.inl hc))
      · exact h hr (.inr (.inr hc))
    · exact h hr (.inl (by simp [pastNegotiation, hf]))
  case saslFinish to hto =>
    intro hr hc
    rcases hto with ⟨_, rfl⟩ | ⟨hf, rfl⟩
    · rcases hc with hc | hc | hc
      · simp [pastNegotiation] at hc
      · exact h hr (.inr (.inl hc))
      · exact h hr (.inr (.inr hc))
    · exact h hr (.inl (by simp [pastNegotiation, hf]))
  case startMotd _ hm => intro hr _; exact missing_false hm hr
  case endMotd _ hm => intro hr _; exact missing_false hm hr
  case setAfterConnect _ hm => intro hr _; exact missing_false hm hr
  case shutdown =>
    intro hr hc
    rcases hc with hc | hc | hc
    · simp [pastNegotiation] at hc
    · exact h hr (.inr (.inl hc))
    · exact h hr (.inr (.inr hc))
  case authOk _ _ _ => intro _ _; rfl
  case reset _ =>
    intro _ hc
    rcases hc with hc | hc | hc
    · simp [pastNegotiation] at hc
    · simp [pastNegotiation] at hc
    · simp [pastNegotiation] at hc
  all_goals exact h

theorem reqInv_moves {cfg : Cfg} {K : Kind → Bool} {a b : Abs} (h : ReqInv cfg a) (m : Moves cfg K a b) : ReqInv cfg b := by
  induction m with
  | refl => exact h
  | step _ m ih => exact reqInv_move ih m

/-! ### SASL traffic only after `sasl` was acknowledged -/

/-- `sasl` currently acknowledged, or a SASL state, or SASL traffic waiting on the queue: each implies
that a CAP ACK left `sasl` acknowledged earlier in this epoch -/
def SaslQ (a : Abs) : Prop :=
  (a.ackSasl = true → a.acked = true) ∧ (isSaslState a.fsm = true → a.acked = true) ∧
  (∀ k ∈ a.kinds, k.sasl = true → a.acked = true) ∧ (a.saslAuth = true → a.acked = true)

theorem saslQ_move {cfg : Cfg} {K : Kind → Bool} {a b : Abs} (h : SaslQ a) (m : Move cfg K a b) : SaslQ b := by
  obtain ⟨h1, h2, h3, h4⟩ := h
  cases m
  case emit k hK hE hS =>
    refine ⟨h1, h2, ?_, h4⟩
    intro x hx hs
    simp only [List.mem_append, List.mem_singleton] at hx
    rcases hx with hx | rfl
    · exact h3 x hx hs
    · exact h2 (hS hs)
  case capEnd hf hm =>
    refine ⟨h1, fun hc => by simp [isSaslState] at hc, ?_, h4⟩
    intro x hx hs
    simp only [List.mem_append, List.mem_singleton] at hx
    rcases hx with hx | rfl
    · exact h3 x hx hs
    · simp [Kind.sasl] at hs
  case saslStart to hto hack _ _ => exact ⟨h1, fun _ => h1 hack, h3, h4⟩
  case saslFinish to hto =>
    refine ⟨h1, ?_, h3, h4⟩
    rcases hto with ⟨hf, rfl⟩ | ⟨hf, rfl⟩ <;> intro hc <;> simp [isSaslState] at hc
  case startMotd _ _ => exact ⟨h1, fun hc => by simp [isSaslState] at hc, h3, h4⟩
  case endMotd _ _ => exact ⟨h1, fun hc => by simp [isSaslState] at hc, h3, h4⟩
  case shutdown => exact ⟨h1, fun hc => by simp [isSaslState] at hc, h3, h4⟩
  case authOk hs _ _ => exact ⟨h1, h2, h3, fun _ => h2 hs⟩
  case ackGain _ => exact ⟨fun _ => rfl, fun _ => rfl, fun _ _ _ => rfl, fun _ => rfl⟩
  case ackLose => exact ⟨fun hc => by simp at hc, h2, h3, h4⟩
  case reset _ =>
    refine ⟨fun hc => by simp at hc, fun hc => by simp [isSaslState] at hc, ?_, fun hc => by simp at hc⟩
    intro x hx hs
    unfold connectKinds at hx
    simp only [List.mem_append, List.mem_cons, List.mem_singleton, List.not_mem_nil, or_false] at hx
    rcases hx with (rfl | hx) | rfl | rfl
    · simp [Kind.sasl] at hs
    · split at hx
      · simp at hx
      · simp only [List.mem_singleton] at hx; subst hx; simp [Kind.sasl] at hs
    · simp [Kind.sasl] at hs
    · simp [Kind.sasl] at hs
  all_goals exact ⟨h1, h2, h3, h4⟩

theorem saslQ_moves {cfg : Cfg} {K : Kind → Bool} {a b : Abs} (h : SaslQ a) (m : Moves cfg K a b) : SaslQ b := by
  induction m with
  | refl => exact h
  | step _ m ih => exact saslQ_move ih m

/-! ### only a handler with the `startSasl` permission enters a SASL state -/

theorem noSaslEntry_move {cfg : Cfg} {K : Kind → Bool} (hK : K .startSasl = false) {a b : Abs}
    (m : Move cfg K a b) (hb : isSaslState b.fsm = true) : isSaslState a.fsm = true ∧ b.epoch = a.epoch := by
  cases m
  case saslStart to hto _ _ hp => rw [hK] at hp; cases hp
  case saslFinish to hto => rcases hto with ⟨_, rfl⟩ | ⟨_, rfl⟩ <;> simp [isSaslState] at hb
  case capEnd _ _ => simp [isSaslState] at hb
  case startMotd _ _ => simp [isSaslState] at hb
  case endMotd _ _ => simp [isSaslState] at hb
  case shutdown => simp [isSaslState] at hb
  case reset _ => simp [isSaslState] at hb
  all_goals exact ⟨hb, rfl⟩

theorem noSaslEntry_moves {cfg : Cfg} {K : Kind → Bool} (hK : K .startSasl = false) {a b : Abs}
    (m : Moves cfg K a b) (hb : isSaslState b.fsm = true) : isSaslState a.fsm = true ∧ b.epoch = a.epoch := by
  induction m with
  | refl => exact ⟨hb, rfl⟩
  | step _ m ih =>
    obtain ⟨h1, h2⟩ := noSaslEntry_move hK m hb
    obtain ⟨h3, h4⟩ := ih h1
    exact ⟨h3, h2.trans h4⟩

/-! ### the FSM never goes back: rank is monotone inside an epoch -/

def rank : Fsm → Nat
  | .UNINITIALIZED => 0
  | .INIT_CAP_NEGOTIATION => 1
  | .INIT_SASL => 1
  | .INIT_WAITING_MOTD => 2
  | .INIT_MOTD => 2
  | .CONNECTED => 2
  | .CONNECTED_SASL => 2
  | .SHUTTING_DOWN => 3

/-- within an epoch: the rank does not decrease; UNINITIALIZED is only left for SHUTTING_DOWN -/
def Later (a b : Abs) : Prop :=
  b.epoch = a.epoch → rank a.fsm ≤ rank b.fsm ∧ (a.fsm = .UNINITIALIZED → b.fsm = .UNINITIALIZED ∨ b.fsm = .SHUTTING_DOWN)

theorem later_move {cfg : Cfg} {K : Kind → Bool} {a b : Abs} (m : Move cfg K a b) :
    a.epoch ≤ b.epoch ∧ Later a b := by
  cases m
  case capEnd hf _ => exact ⟨Nat.le_refl _, fun _ => ⟨by simp [hf, rank], fun h => by simp [hf] at h⟩⟩
  case saslStart to hto _ _ _ =>
    refine ⟨Nat.le_refl _, fun _ => ?_⟩
    rcases hto with ⟨hf, rfl⟩ | ⟨hf, rfl⟩ <;> exact ⟨by simp [hf, rank], fun h => by simp [hf] at h⟩
  case saslFinish to hto =>
    refine ⟨Nat.le_refl _, fun _ => ?_⟩
    rcases hto with ⟨hf, rfl⟩ | ⟨hf, rfl⟩ <;> exact ⟨by simp [hf, rank], fun h => by simp [hf] at h⟩
  case startMotd hf _ =>
    refine ⟨Nat.le_refl _, fun _ => ?_⟩
    rcases hf with hf | hf | hf | hf <;> exact ⟨by simp [hf, rank], fun h => by simp [hf] at h⟩
  case endMotd hf _ =>
    refine ⟨Nat.le_refl _, fun _ => ?_⟩
    rcases hf with hf | hf | hf | hf | hf <;> exact ⟨by simp [hf, rank], fun h => by simp [hf] at h⟩
  case shutdown =>
    refine ⟨Nat.le_refl _, fun _ => ⟨?_, fun _ => .inr rfl⟩⟩
    cases a.fsm <;> simp [rank]
  case reset _ => exact ⟨Nat.le_succ _, fun h => by simp at h⟩
  all_goals exact ⟨Nat.le_refl _, fun _ => ⟨Nat.le_refl _, fun h => .inl h⟩⟩

theorem later_moves {cfg : Cfg} {K : Kind → Bool} {a b : Abs} (m : Moves cfg K a b) :
    a.epoch ≤ b.epoch ∧ Later a b := by
  induction m with
  | refl => exact ⟨Nat.le_refl _, fun _ => ⟨Nat.le_refl _, fun h => .inl h⟩⟩
  | step m0 m ih =>
    rename_i b c
    obtain ⟨e1, l1⟩ := ih
    obtain ⟨e2, l2⟩ := later_move m
    refine ⟨Nat.le_trans e1 e2, fun he => ?_⟩
    have hb : b.epoch = a.epoch := by omega
    have hc : c.epoch = b.epoch := by omega
    obtain ⟨r1, u1⟩ := l1 hb
    obtain ⟨r2, u2⟩ := l2 hc
    refine ⟨Nat.le_trans r1 r2, fun hu => ?_⟩
    rcases u1 hu with hbu | hbs
    · exact u2 hbu
    · -- b is SHUTTING_DOWN: rank 3 is maximal, and only `shutdown`/`reset` leave it
      have r2' : 3 ≤ rank c.fsm := by have := r2; rw [hbs] at this; exact this
      right; revert r2'; cases c.fsm <;> simp [rank]

/-! ### the normal queue only holds JOINs, the event list only driver events -/

theorem side_move {cfg : Cfg} {K : Kind → Bool} {a b : Abs} (m : Move cfg K a b)
    (h : a.slowOk = true ∧ a.evOk = true) : b.slowOk = true ∧ b.evOk = true := by
  cases m <;> first | exact h | exact ⟨rfl, h.2⟩

theorem side_moves {cfg : Cfg} {K : Kind → Bool} {a b : Abs} (m : Moves cfg K a b)
    (h : a.slowOk = true ∧ a.evOk = true) : b.slowOk = true ∧ b.evOk = true := by
  induction m with
  | refl => exact h
  | step _ m ih => exact side_move m ih

/-! ### data lemmas: sorting, arranging and line filling keep the words -/

theorem mem_insertSorted {x y : Str} {l : List Str} : y ∈ insertSorted x l ↔ y = x ∨ y ∈ l := by
  induction l with
  | nil => simp [insertSorted]
  | cons z zs ih =>
    unfold insertSorted
    split
    · simp only [List.mem_cons, ih]; constructor
      · rintro (h | h | h)
        · exact .inr (.inl h)
        · exact .inl h
        · exact .inr (.inr h)
      · rintro (h | h | h)
        · exact .inr (.inl h)
        · exact .inl h
        · exact .inr (.inr h)
    · simp

theorem mem_isort {y : Str} {l : List Str} : y ∈ isort l ↔ y ∈ l := by
  induction l with
  | nil => simp [isort]
  | cons z zs ih => simp [isort, mem_insertSorted, ih]

theorem mem_arrangeCaps {ack caps : List Str} {w : Str} (h : w ∈ arrangeCaps ack caps) : w ∈ caps := by
  unfold arrangeCaps at h
  simp only at h
  split at h
  · split at h
    · simp only [List.mem_cons, List.mem_filter] at h
      rename_i h1 h2
      rcases h with rfl | rfl | h
      · simp only [Bool.and_eq_true, List.contains_iff_mem, mem_isort] at h1; exact h1.1
      · simp only [List.contains_iff_mem, List.mem_filter, mem_isort] at h2; exact h2.1
      · exact mem_isort.mp h.1.1
    · exact mem_isort.mp (List.mem_filter.mp h).1
  · exact mem_isort.mp h

theorem mem_fillGo {width : Nat} {l : List Str} : ∀ {cur : List Str} {n : Nat} {line : List Str},
    line ∈ fillGo width l cur n → (∃ pre, line = cur ++ pre ∧ ∀ x ∈ pre, x ∈ l) ∨ (∀ x ∈ line, x ∈ l) := by
  induction l with
  | nil =>
    intro cur n line h
    simp only [fillGo, List.mem_singleton] at h
    exact .inl ⟨[], by simp [h], by simp⟩
  | cons w ws ih =>
    intro cur n line h
    unfold fillGo at h
    split at h
    · rcases ih h with ⟨pre, rfl, hp⟩ | hp
      · exact .inl ⟨w :: pre, by simp, by
          intro x hx; simp only [List.mem_cons] at hx ⊢
          rcases hx with rfl | hx
          · exact .inl rfl
          · exact .inr (hp x hx)⟩
      · exact .inr fun x hx => List.mem_cons_of_mem _ (hp x hx)
    · simp only [List.mem_cons] at h
      rcases h with rfl | h
      · exact .inl ⟨[], by simp, by simp⟩
      · rcases ih h with ⟨pre, rfl, hp⟩ | hp
        · refine .inr fun x hx => ?_
          simp only [List.mem_append, List.mem_singleton] at hx
          rcases hx with rfl | hx
          · exact List.mem_cons_self
          · exact List.mem_cons_of_mem _ (hp x hx)
        · exact .inr fun x hx => List.mem_cons_of_mem _ (hp x hx)

theorem mem_fill {width : Nat} {l line : List Str} (h : line ∈ fill width l) : ∀ x ∈ line, x ∈ l := by
  cases l with
  | nil => simp [fill] at h
  | cons w ws =>
    simp only [fill] at h
    rcases mem_fillGo h with ⟨pre, rfl, hp⟩ | hp
    · intro x hx
      simp only [List.singleton_append, List.mem_cons] at hx ⊢
      rcases hx with rfl | hx
      · exact .inl rfl
      · exact .inr (hp x hx)
    · exact fun x hx => List.mem_cons_of_mem _ (hp x hx)

theorem mem_newCaps {s : St} {w : Str} (h : w ∈ newCaps s) : w ∈ keys s.ls ∧ w ∈ s.wanted ∧ w ∉ s.ack := by
  unfold newCaps at h
  simp only [List.mem_filter, Bool.and_eq_true, List.contains_iff_mem, Bool.not_eq_true', ] at h
  refine ⟨h.1, h.2.1, ?_⟩
  have := h.2.2
  simpa using this

/-- table lemma: `echo-message labeled-response` fits on one CAP REQ line -/
theorem tab_echoFits : sEcho.length + 1 + sLabeled.length ≤ capReqWidth := by decide

/-- a CAP REQ line holding `echo-message` also holds `labeled-response`, unless that is acknowledged already -/
theorem echo_line {ack caps line : List Str} (h : line ∈ fill capReqWidth (arrangeCaps ack caps))
    (he : sEcho ∈ line) : sLabeled ∈ line ∨ sLabeled ∈ ack := by
  by_cases hl : sLabeled ∈ ack
  · exact .inr hl
  · left
    unfold arrangeCaps at h
    simp only at h
    have hl' : ack.contains sLabeled = false := by simpa using hl
    by_cases hc : (isort caps).contains sEcho = true
    · simp only [hc, hl', Bool.not_false, Bool.and_self, if_true] at h
      split at h
      · -- echo and labeled lead the list
        simp only [fill] at h
        unfold fillGo at h
        rw [if_pos tab_echoFits] at h
        rcases mem_fillGo h with ⟨pre, rfl, _⟩ | hp
        · simp
        · have := hp _ he
          simp only [List.mem_filter, bne_self_eq_false, Bool.false_eq_true, and_false] at this
          exact this.1.elim
      · have := mem_fill h _ he
        simp at this
    · have hc' : (isort caps).contains sEcho = false := by simpa using hc
      simp only [hc', Bool.false_and, Bool.false_eq_true, if_false] at h
      have := mem_fill h _ he
      simp only [List.contains_iff_mem, Bool.not_eq_true, decide_eq_false_iff_not] at hc
      exact absurd this (by simpa using hc)

/-! ### the ghost `saslAcked` is only raised by a handler with the `ackPerm` permission (CAP ACK) -/

theorem acked_move {cfg : Cfg} {K : Kind → Bool} (hK : K .ackPerm = false) {a b : Abs} (m : Move cfg K a b)
    (hb : b.acked = true) : a.acked = true := by
  cases m
  case ackGain hp => rw [hK] at hp; cases hp
  case reset _ => simp at hb
  all_goals exact hb

theorem acked_moves {cfg : Cfg} {K : Kind → Bool} (hK : K .ackPerm = false) {a b : Abs} (m : Moves cfg K a b)
    (hb : b.acked = true) : a.acked = true := by
  induction m with
  | refl => exact hb
  | step _ m ih => exact ih (acked_move hK m hb)

/-! ### REQUEST_CAPABILITIES only ever gains `sasl` -/

theorem wantedOk_move {cfg : Cfg} {K : Kind → Bool} {a b : Abs} (m : Move cfg K a b) (h : a.wantedOk = true) :
    b.wantedOk = true := by
  cases m <;> first | exact h | rfl

theorem wantedOk_moves {cfg : Cfg} {K : Kind → Bool} {a b : Abs} (m : Moves cfg K a b) (h : a.wantedOk = true) :
    b.wantedOk = true := by
  induction m with
  | refl => exact h
  | step _ m ih => exact wantedOk_move m ih

/-! ### only a handler with the `connPerm` permission (ERROR: closing link) opens a socket at once -/

theorem sock_move {cfg : Cfg} {K : Kind → Bool} (hK : K .connPerm = false) {a b : Abs} (m : Move cfg K a b) :
    b.sock = a.sock := by
  cases m
  case conn f h hr hp hj hpol => rw [hK] at hp; cases hp
  case connFail f h hr hp => rw [hK] at hp; cases hp
  all_goals rfl

theorem sock_moves {cfg : Cfg} {K : Kind → Bool} (hK : K .connPerm = false) {a b : Abs} (m : Moves cfg K a b) :
    b.sock = a.sock := by
  induction m with
  | refl => rfl
  | step _ m ih => exact (sock_move hK m).trans ih

/-! ### `sasl_authenticated` is only raised inside a SASL state, by the handler of 903 -/

theorem auth_move {cfg : Cfg} {K : Kind → Bool} {a b : Abs} (m : Move cfg K a b) (hb : b.saslAuth = true) :
    a.saslAuth = true ∨ (isSaslState a.fsm = true ∧ K .authPerm = true) := by
  cases m
  case authOk h _ hp => exact .inr ⟨h, hp⟩
  case reset _ => simp at hb
  all_goals exact .inl hb

/-- a handler that cannot enter a SASL state by itself raises `sasl_authenticated` only when it has the
`authPerm` permission and the FSM already was in a SASL state when it started -/
theorem auth_moves {cfg : Cfg} {K : Kind → Bool} (hK : K .startSasl = false) {a b : Abs} (m : Moves cfg K a b)
    (hb : b.saslAuth = true) : a.saslAuth = true ∨ (isSaslState a.fsm = true ∧ K .authPerm = true) := by
  induction m with
  | refl => exact .inl hb
  | step m0 m ih =>
    rcases auth_move m hb with h | ⟨h1, h2⟩
    · exact ih h
    · exact .inr ⟨(noSaslEntry_moves hK m0 h1).1, h2⟩

/-- a handler without the `authPerm` permission never raises `sasl_authenticated` -/
theorem noAuth_moves {cfg : Cfg} {K : Kind → Bool} (hK : K .authPerm = false) {a b : Abs} (m : Moves cfg K a b)
    (hb : b.saslAuth = true) : a.saslAuth = true := by
  induction m with
  | refl => exact hb
  | step _ m ih =>
    rcases auth_move m hb with h | ⟨_, h2⟩
    · exact ih h
    · rw [hK] at h2; cases h2

/-! ### with the stub driver `afterConnect` is never taken back -/

theorem afterConnect_move {cfg : Cfg} {K : Kind → Bool} (hd : cfg.realDriver = false) {a b : Abs}
    (m : Move cfg K a b) (h : a.afterConnect = true) : b.afterConnect = true := by
  cases m
  case reset hr => rw [hd] at hr; cases hr
  case setAfterConnect _ _ => rfl
  all_goals exact h

theorem afterConnect_moves {cfg : Cfg} {K : Kind → Bool} (hd : cfg.realDriver = false) {a b : Abs}
    (m : Moves cfg K a b) (h : a.afterConnect = true) : b.afterConnect = true := by
  induction m with
  | refl => exact h
  | step _ m ih => exact afterConnect_move hd m ih

/-! ### a 903 is honoured only after a complete response -/

/-- `sasl_response_sent` is raised only by a handler that may send credentials -/
theorem sent_move {cfg : Cfg} {K : Kind → Bool} (hK : K .payload = false) {a b : Abs} (m : Move cfg K a b)
    (hb : b.sent = true) : a.sent = true := by
  cases m
  case respond _ hp => rw [hK] at hp; cases hp
  case unsent => simp at hb
  case reset _ => simp at hb
  all_goals exact hb

theorem sent_moves {cfg : Cfg} {K : Kind → Bool} (hK : K .payload = false) {a b : Abs} (m : Moves cfg K a b)
    (hb : b.sent = true) : a.sent = true := by
  induction m with
  | refl => exact hb
  | step _ m ih => exact ih (sent_move hK m hb)

theorem authSent_move {cfg : Cfg} {K : Kind → Bool} {a b : Abs} (m : Move cfg K a b) (hb : b.saslAuth = true) :
    a.saslAuth = true ∨ a.sent = true := by
  cases m
  case authOk _ hs _ => exact .inr hs
  case reset _ => simp at hb
  all_goals exact .inl hb

/-- a handler that cannot send credentials raises `sasl_authenticated` only if a complete response had been
sent before it started -/
theorem authSent_moves {cfg : Cfg} {K : Kind → Bool} (hK : K .payload = false) {a b : Abs} (m : Moves cfg K a b)
    (hb : b.saslAuth = true) : a.saslAuth = true ∨ a.sent = true := by
  induction m with
  | refl => exact .inl hb
  | step m0 m ih =>
    rcases authSent_move m hb with h | h
    · exact ih h
    · exact .inr (sent_moves hK m0 h)

/-! ### JOINs: queued by Owner only after Irc.do376 completed or dropped the connection -/

/-- a waiting JOIN on an open connection implies `afterConnect`; nothing but JOINs and driver events is
ever counted as a side message, and none of them is on the fast queue -/
def JoinInv (cfg : Cfg) (a : Abs) : Prop :=
  (cfg.realDriver = true → a.joinQ = true → a.conn = true → a.afterConnect = true) ∧ Kind.side ∉ a.kinds

theorem connectKinds_noSide (cfg : Cfg) : Kind.side ∉ connectKinds cfg := by
  unfold connectKinds
  by_cases h : cfg.password.isEmpty = true <;> simp [h]

theorem joinInv_move {cfg : Cfg} {K : Kind → Bool} (hK : K .side = false) {a b : Abs} (h : JoinInv cfg a)
    (m : Move cfg K a b) : JoinInv cfg b := by
  obtain ⟨h1, h2⟩ := h
  cases m
  case emit k hk _ _ =>
    refine ⟨h1, ?_⟩
    simp only [List.mem_append, List.mem_singleton, not_or]
    exact ⟨h2, fun he => by rw [← he, hK] at hk; cases hk⟩
  case capEnd _ _ =>
    refine ⟨h1, ?_⟩
    simp only [List.mem_append, List.mem_singleton, not_or]
    exact ⟨h2, by decide⟩
  case setAfterConnect _ _ => exact ⟨fun _ _ _ => rfl, h2⟩
  case joinQueue hq _ =>
    refine ⟨fun hr _ hc => ?_, h2⟩
    rcases hq with hq | hq | hq
    · exact hq
    · rw [hq] at hc; cases hc
    · rw [hq] at hr; cases hr
  case disc => exact ⟨fun _ _ hc => (by simp at hc), h2⟩
  case connFail _ _ _ _ => exact ⟨fun _ _ hc => (by simp at hc), h2⟩
  case reset _ => exact ⟨fun _ hq => (by simp at hq), connectKinds_noSide cfg⟩
  case conn f hh hr hp hj hpol => exact ⟨fun _ hq => (by simp only at hq; rw [hj] at hq; cases hq), h2⟩
  all_goals exact ⟨h1, h2⟩

theorem joinInv_moves {cfg : Cfg} {K : Kind → Bool} (hK : K .side = false) {a b : Abs} (h : JoinInv cfg a)
    (m : Moves cfg K a b) : JoinInv cfg b := by
  induction m with
  | refl => exact h
  | step _ m ih => exact joinInv_move hK ih m

/-- only a handler with the `joinPerm` permission (376 / 377 / 422) leaves a JOIN on the normal queue -/
theorem noJoin_move {cfg : Cfg} {K : Kind → Bool} (hK : K .joinPerm = false) {a b : Abs} (m : Move cfg K a b)
    (hb : b.joinQ = true) : a.joinQ = true := by
  cases m
  case joinQueue _ hp => rw [hK] at hp; cases hp
  case reset _ => simp at hb
  all_goals exact hb

theorem noJoin_moves {cfg : Cfg} {K : Kind → Bool} (hK : K .joinPerm = false) {a b : Abs} (m : Moves cfg K a b)
    (hb : b.joinQ = true) : a.joinQ = true := by
  induction m with
  | refl => exact hb
  | step _ m ih => exact ih (noJoin_move hK m hb)

/-! ### STS: no downgrade -/

/-- while connected to a host for which a policy is stored, the connection is one the bot considers
verified TLS (forced by the policy, or `ssl` with a certificate validation of the operator's own) -/
def StsInv (cfg : Cfg) (a : Abs) : Prop :=
  a.conn = true → (dictGet a.policies a.host).isSome = true → aSecure cfg a = true

theorem dictGet_dictDel_some {β : Type} (d : List (Str × β)) (k h : Str) :
    (dictGet (dictDel d k) h).isSome = true → (dictGet d h).isSome = true := by
  induction d with
  | nil => intro hc; exact hc
  | cons p ps ih =>
    obtain ⟨k', v'⟩ := p
    unfold dictDel
    by_cases hk : k' = k
    · simp only [hk, List.filter_cons, bne_self_eq_false, Bool.false_eq_true, if_false]
      intro hc
      have := ih hc
      unfold dictGet
      by_cases hh : k = h
      · simp [hh]
      · simp only [hh, if_false]; exact this
    · have hne : (k' != k) = true := by simpa using hk
      simp only [List.filter_cons, hne, if_true]
      unfold dictGet
      by_cases hh : k' = h
      · simp [hh]
      · simp only [hh, if_false]; exact ih

theorem stsInv_move {cfg : Cfg} {K : Kind → Bool} {a b : Abs} (h : StsInv cfg a) (m : Move cfg K a b) : StsInv cfg b := by
  cases m
  case store hs ps _ => exact fun _ _ => hs
  case expire host => exact fun hc hp => h hc (dictGet_dictDel_some _ _ _ hp)
  case disc => exact fun hc => by simp at hc
  case connFail _ _ _ _ => exact fun hc => by simp at hc
  case conn f hh hr hp hj hpol =>
    intro _ hp'
    rcases hpol hp' with hf | hs
    · simp [aSecure, hf]
    · simp only [aSecure]; rw [hs]; simp
  all_goals exact h

theorem stsInv_moves {cfg : Cfg} {K : Kind → Bool} {a b : Abs} (h : StsInv cfg a) (m : Moves cfg K a b) : StsInv cfg b := by
  induction m with
  | refl => exact h
  | step _ m ih => exact stsInv_move ih m

end C08
