import LimnoriaModel.C08.Model
namespace C08
end C08
