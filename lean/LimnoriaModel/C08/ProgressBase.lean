/-
C08 — progress: against a protocol-conformant server the bot never is the one that stalls.

`View` is what a conformant server owes the client, computed from the lines both sides sent (a monitor,
not part of the model).  `SrvMove` lists the messages a conformant server may send in a given view
(DESIGN §6 C08 `progress`, clauses i–v).  The oldest unanswered CAP REQ is answered by CAP ACK / CAP NAK
lines that each take some of its words (one line for all of them, or several: split answers); a word is only
acknowledged while the server advertises it.  Once the final CAP LS is out the server may send CAP NEW and
CAP DEL at any time.  A mechanism gets at most three AUTHENTICATE messages from the server; `AUTHENTICATE *`
is answered by a failure numeric.  A CAP REQ from a client that is not registered yet suspends the
registration (again) until the next CAP END.
`PReach` = the joint histories.  Theorem `progress` (Props.lean): in every jointly reachable state the
bot is connected (end of MOTD), or it aborted deliberately, or the server owes it an answer.
Stub-driver semantics: an abort (driver.reconnect) ends the connection epoch.
-/
import LimnoriaModel.C08.Trace
namespace C08
open Py
open Gen.Conn (Fsm)

def sLS : Str := ['L','S']
def sACK : Str := ['A','C','K']
def sNAK : Str := ['N','A','K']
def sNEW : Str := ['N','E','W']
def sDEL : Str := ['D','E','L']

inductive AuthSt where
  | none      -- nothing owed
  | mech      -- a mechanism was requested: `AUTHENTICATE +`, a challenge or a failure numeric is owed
  | more      -- a credentials line of exactly AUTHENTICATE_CHUNK_SIZE characters arrived: more must follow, the
              -- server owes nothing yet
  | payload   -- a complete answer arrived: 903 / 904… / the next challenge is owed
  | abort     -- `AUTHENTICATE *` arrived: a failure numeric (906) is owed
deriving DecidableEq, Repr

/-- the server owes an answer in the SASL exchange -/
def AuthSt.owed (a : AuthSt) : Bool := a = .mech || a = .payload || a = .abort

/-- … and that answer may be another AUTHENTICATE -/
def AuthSt.cont (a : AuthSt) : Bool := a = .mech || a = .payload

/-- the name under which `_addCapabilities` records an item of a CAP LS / CAP NEW list -/
def capKey (item : Str) : Str :=
  match split1 '=' (lstripEqTilde item) with
  | some (cap, _) => cap
  | none => lstripEqTilde item

/-- the capability names a CAP LS / CAP NEW line advertises, resp. a CAP DEL line withdraws -/
def lsKeys (caps : Str) : List Str := (splitWs caps).map capKey
def delKeys (caps : Str) : List Str := (splitWs caps).map capName

/-- the unanswered CAP REQ lines after an ACK / NAK line took the words `a` from the oldest one -/
def reqsAfter (a ws : List Str) (rest : List (List Str)) : List (List Str) :=
  if (ws.filter (fun c => !a.contains c)).isEmpty then rest else ws.filter (fun c => !a.contains c) :: rest

structure View where
  v3 : Bool                     -- the server implements capability negotiation (else it ignores CAP)
  lsOwed : Bool := true         -- CAP LS sent, final CAP LS not received yet
  reqs : List (List Str) := []  -- CAP REQ lines (what is left of them) not answered yet, oldest first
  avail : List Str := []        -- the capability names advertised at the moment (LS, NEW minus DEL)
  auth : AuthSt := .none        -- SASL: answer owed to a mechanism request / to a complete payload
  rounds : Nat := 0             -- AUTHENTICATE messages sent for the mechanism requested last
  ended : Bool := false         -- CAP END sent
  lateNew : Bool := false       -- a CAP NEW arrived after a mechanism was requested or CAP END was sent
  reopened : Bool := false      -- the client sent CAP REQ after its CAP END while still unregistered: the server waits for
                                -- another CAP END (the code never sends one: known finding C08-req-after-end)
  stage : Nat := 0              -- welcome: k = 00k received (1..5), 6 = 375 received, 7 = 376/422 received
  aborted : Bool := false       -- the bot called driver.reconnect()

/-- the client lines of one step, as the server sees them -/
def seeOut (v : View) : Out → View
  | .capReq ws => { v with reqs := v.reqs ++ [ws], ended := v.ended && v.stage != 0,
                             reopened := v.reopened || (v.ended && v.stage == 0) }
  | .capEnd => { v with ended := true }
  | .authMech _ => { v with auth := .mech, rounds := 0 }
  | .authPayload c => { v with auth := if c.length = Gen.Conn.authenticateChunkSize then .more else .payload }
  | .authOpaque => { v with auth := .payload }
  | .authAbort => { v with auth := .abort }
  | _ => v

def seeStep (v : View) (r : StepResult) : View :=
  let v' := r.fast.foldl seeOut v
  { v' with aborted := v'.aborted || !r.events.isEmpty }

/-- the registration may complete: the server never negotiates, or the client ended the negotiation -/
def canWelcome (v : View) : Bool := !v.v3 || v.ended

def isFailNumeric (c : Str) : Bool :=
  c = num '9' '0' '4' || c = num '9' '0' '5' || c = num '9' '0' '6' || c = num '9' '0' '7'

def isNickRefusal (c : Str) : Bool := c = num '4' '3' '2' || c = num '4' '3' '3' || c = num '4' '3' '7'

def welcomeNumeric (k : Nat) : Str :=
  if k = 1 then num '0' '0' '1' else if k = 2 then num '0' '0' '2' else if k = 3 then num '0' '0' '3'
  else if k = 4 then num '0' '0' '4' else num '0' '0' '5'

/-- the messages a conformant server may send in view `v`, and the view afterwards (before the client's
reaction is seen) -/
inductive SrvMove : View → Msg → View → Prop
  | ping (v : View) (x n : Str) : SrvMove v ⟨sPING, [x], n⟩ v
  /-- anything the bot has no handler for and that is not a nick-setting numeric (NOTICE, 900, 372, …) -/
  | noop (v : View) (m : Msg) (hd : dispatch m = .none) (hn : Gen.Conn.nickSetters.contains m.command = false) : SrvMove v m v
  | lsMore (v : View) (t caps n : Str) (h3 : v.v3 = true) (ho : v.lsOwed = true) :
      SrvMove v ⟨sCAP, [t, sLS, sStar, caps], n⟩ { v with avail := v.avail ++ lsKeys caps }
  | lsFinal (v : View) (t caps n : Str) (h3 : v.v3 = true) (ho : v.lsOwed = true) :
      SrvMove v ⟨sCAP, [t, sLS, caps], n⟩ { v with lsOwed := false, avail := v.avail ++ lsKeys caps }
  /-- an ACK line for some (or all) words of the oldest unanswered CAP REQ, all of them advertised -/
  | ack (v : View) (t caps n : Str) (ws : List Str) (rest : List (List Str)) (h3 : v.v3 = true)
      (hq : v.reqs = ws :: rest) (hne : splitWs caps ≠ []) (hsub : ∀ c ∈ splitWs caps, c ∈ ws)
      (hav : ∀ c ∈ splitWs caps, c ∈ v.avail) :
      SrvMove v ⟨sCAP, [t, sACK, caps], n⟩ { v with reqs := reqsAfter (splitWs caps) ws rest }
  /-- a NAK line for some (or all) words of the oldest unanswered CAP REQ -/
  | nak (v : View) (t caps n : Str) (ws : List Str) (rest : List (List Str)) (h3 : v.v3 = true)
      (hq : v.reqs = ws :: rest) (hne : splitWs caps ≠ []) (hsub : ∀ c ∈ splitWs caps, c ∈ ws) :
      SrvMove v ⟨sCAP, [t, sNAK, caps], n⟩ { v with reqs := reqsAfter (splitWs caps) ws rest }
  /-- CAP NEW, any time after the final CAP LS -/
  | capNew (v : View) (t caps n : Str) (h3 : v.v3 = true) (ho : v.lsOwed = false) (hne : splitWs caps ≠ []) :
      SrvMove v ⟨sCAP, [t, sNEW, caps], n⟩
        { v with avail := v.avail ++ lsKeys caps, lateNew := v.lateNew || v.auth.owed || v.ended }
  /-- CAP DEL, any time after the final CAP LS -/
  | capDel (v : View) (t caps n : Str) (h3 : v.v3 = true) (ho : v.lsOwed = false) (hne : splitWs caps ≠ []) :
      SrvMove v ⟨sCAP, [t, sDEL, caps], n⟩ { v with avail := v.avail.filter (fun c => !(delKeys caps).contains c) }
  /-- `AUTHENTICATE +` or a complete, well-formed challenge: at most three per mechanism, none after `AUTHENTICATE *` -/
  | authContinue (v : View) (c n : Str) (h3 : v.v3 = true) (ha : v.auth.cont = true) (hr : v.rounds < 3)
      (hc : c = sPlus ∨ (c.length ≠ Gen.Conn.authenticateChunkSize ∧ (b64decodedLen [c]).isSome = true)) :
      SrvMove v ⟨sAUTHENTICATE, [c], n⟩ { v with auth := .none, rounds := v.rounds + 1 }
  | authOk (v : View) (args : List Str) (n : Str) (h3 : v.v3 = true) (ha : v.auth = .payload) :
      SrvMove v ⟨num '9' '0' '3', args, n⟩ { v with auth := .none }
  | authFail (v : View) (c : Str) (args : List Str) (n : Str) (h3 : v.v3 = true) (ha : v.auth.owed = true)
      (hc : isFailNumeric c = true) : SrvMove v ⟨c, args, n⟩ { v with auth := .none }
  /-- RPL_SASLMECHS: the failure numeric is still owed -/
  | mechs (v : View) (args : List Str) (n : Str) (ha : v.auth = .mech) : SrvMove v ⟨num '9' '0' '8', args, n⟩ v
  | nickRefused (v : View) (c : Str) (args : List Str) (n : Str) (hs : v.stage = 0) (hc : isNickRefusal c = true) :
      SrvMove v ⟨c, args, n⟩ v
  | welcome (v : View) (k : Nat) (a : Str) (args : List Str) (n : Str) (hw : canWelcome v = true)
      (hk : 1 ≤ k ∧ k ≤ 5) (hs : v.stage + 1 = k) : SrvMove v ⟨welcomeNumeric k, a :: args, n⟩ { v with stage := k }
  | motdStart (v : View) (a : Str) (args : List Str) (n : Str) (hw : canWelcome v = true) (hs : v.stage = 5) :
      SrvMove v ⟨num '3' '7' '5', a :: args, n⟩ { v with stage := 6 }
  /-- RPL_MOTD (372), a nick-setting numeric without a handler of its own -/
  | motdLine (v : View) (a : Str) (args : List Str) (n : Str) (hw : canWelcome v = true) (hs : v.stage = 6) :
      SrvMove v ⟨num '3' '7' '2', a :: args, n⟩ v
  | motdEnd (v : View) (a : Str) (args : List Str) (n : Str) (hw : canWelcome v = true) (hs : v.stage = 6) :
      SrvMove v ⟨num '3' '7' '6', a :: args, n⟩ { v with stage := 7 }
  | noMotd (v : View) (args : List Str) (n : Str) (hw : canWelcome v = true) (hs : v.stage = 5) :
      SrvMove v ⟨num '4' '2' '2', args, n⟩ { v with stage := 7 }

/-! ### the handlers under the recording stub driver -/

variable {cfg : Cfg}

theorem stub_reconnect (hd : cfg.realDriver = false) (w : Bool) (srv : Option Server) (s : St) :
    drvReconnect cfg w srv s = event (.reconnect w srv) s := by
  unfold drvReconnect; simp [hd]

theorem tabP_capEnd : Gen.Conn.guardCapEnd.contains .INIT_CAP_NEGOTIATION = true ∧ Gen.Conn.toCapEnd = .INIT_WAITING_MOTD := by decide
theorem tabP_upkeep : Gen.Conn.expectCapUpkeep.contains .INIT_CAP_NEGOTIATION = true ∧
    Gen.Conn.expectCapUpkeep.contains .INIT_SASL = false ∧ Gen.Conn.expectCapUpkeep.contains .INIT_WAITING_MOTD = false ∧
    Gen.Conn.expectCapUpkeep.contains .INIT_MOTD = false := by decide
theorem tabP_ls : Gen.Conn.expectDoCapLs.contains .INIT_CAP_NEGOTIATION = true := by decide
theorem tabP_sasl : Gen.Conn.onSaslCap.lookup .INIT_CAP_NEGOTIATION = some .INIT_SASL ∧
    Gen.Conn.onSaslAuthFinished.lookup .INIT_SASL = some .INIT_CAP_NEGOTIATION ∧
    Gen.Conn.expectTryNextSasl.contains .INIT_SASL = true ∧ Gen.Conn.expectDoAuthenticate.contains .INIT_SASL = true ∧
    Gen.Conn.expectDo903.contains .INIT_SASL = true := by decide
theorem tabP_motd : Gen.Conn.toStartMotd = .INIT_MOTD ∧ Gen.Conn.toEndMotd = .CONNECTED ∧
    Gen.Conn.guardStartMotd.contains .INIT_CAP_NEGOTIATION = true ∧ Gen.Conn.guardStartMotd.contains .INIT_WAITING_MOTD = true ∧
    Gen.Conn.guardEndMotd.contains .INIT_CAP_NEGOTIATION = true ∧ Gen.Conn.guardEndMotd.contains .INIT_WAITING_MOTD = true ∧
    Gen.Conn.guardEndMotd.contains .INIT_MOTD = true := by decide

/-- Irc.endCapabilityNegociation in INIT_CAP_NEGOTIATION: abort when SASL is required and missing, else CAP END -/
theorem endCap_neg (hd : cfg.realDriver = false) (s : St) (hf : s.fsm = .INIT_CAP_NEGOTIATION) :
    endCap cfg s = (if saslMissing cfg s = true then ok (event (.reconnect true none) s)
      else ok (sendMsg .capEnd { s with fsm := .INIT_WAITING_MOTD, endCount := s.endCount + 1 })) := by
  unfold endCap
  split
  · rw [stub_reconnect hd]
  · unfold onCapEnd transition
    simp only [hf, tabP_capEnd.1, if_true, bind_ok, tabP_capEnd.2]

/-- Irc.tryNextSaslMechanism in INIT_SASL -/
theorem tryNext_sasl (hd : cfg.realDriver = false) (s : St) (hf : s.fsm = .INIT_SASL) :
    tryNextSasl cfg s =
      (match s.saslNext with
       | m :: rest => ok (sendMsg (.authMech (asciiUpper m)) { s with saslCur := some m, saslNext := rest, saslSent := false, scramStep := 0 })
       | [] => if cfg.required = true then ok (event (.reconnect true none) s)
               else ok (sendMsg .capEnd { s with saslCur := none, fsm := .INIT_WAITING_MOTD, endCount := s.endCount + 1 })) := by
  unfold tryNextSasl expectState
  simp only [hf, tabP_sasl.2.2.1, if_true, bind_ok]
  cases hn : s.saslNext with
  | cons m rest => rfl
  | nil =>
    simp only
    split
    · rw [stub_reconnect hd]
    · rename_i hr
      unfold onSaslAuthFinished tableTransition
      simp only [hf, tabP_sasl.2.1, bind_ok, if_true]
      rw [endCap_neg hd _ rfl]
      have hr' : cfg.required = false := by simpa using hr
      simp [saslMissing, hr']

/-- Irc.capUpkeep in INIT_CAP_NEGOTIATION -/
theorem capUpkeep_neg (hd : cfg.realDriver = false) (s : St) (hf : s.fsm = .INIT_CAP_NEGOTIATION) :
    capUpkeep cfg s =
      (if !subset (s.ack ++ s.nak) s.req then ok (event (.reconnect true none) s)
       else if subset s.req (s.ack ++ s.nak) then
         (if s.ack.contains sSasl then maybeStartSasl cfg s else endCap cfg s)
       else ok s) := by
  unfold capUpkeep expectState
  simp only [hf, tabP_upkeep.1, if_true, bind_ok, true_or]
  split
  · rw [stub_reconnect hd]
  · split
    · split
      · rfl
      · simp
    · rfl

/-- Irc.capUpkeep outside INIT_CAP_NEGOTIATION / CONNECTED: the state check raises -/
theorem capUpkeep_raises (s : St) (hf : Gen.Conn.expectCapUpkeep.contains s.fsm = false) :
    capUpkeep cfg s = raise "ValueError" s := by
  unfold capUpkeep expectState
  rw [if_neg (by rw [hf]; exact Bool.false_ne_true)]
  rfl

/-- the mechanisms left after the filter of Irc._maybeStartSasl -/
def filteredNext (next : List Str) (v : Option Str) : List Str :=
  match v with
  | none => next
  | some x => filterMechs next x

/-- Irc._maybeStartSasl when it starts: INIT_CAP_NEGOTIATION, not authenticated, sasl acknowledged and listed -/
theorem maybeStartSasl_neg (s : St) (hf : s.fsm = .INIT_CAP_NEGOTIATION) (ha : s.saslAuth = false)
    (hack : s.ack.contains sSasl = true) (v : Option Str) (hls : dictGet s.ls sSasl = some v) :
    maybeStartSasl cfg s = tryNextSasl cfg { s with fsm := .INIT_SASL, saslNext := filteredNext s.saslNext v } := by
  unfold maybeStartSasl onSaslCap tableTransition
  simp only [ha, hack, Bool.not_false, Bool.and_self, if_true, hf, tabP_sasl.1, bind_ok, hls]
  cases v <;> rfl

theorem sendSaslString_eq (bytes : List Nat) (s : St) :
    sendSaslString bytes s =
      { s with fastq := s.fastq ++ (authChunks Gen.Conn.authenticateChunkSize (b64encode bytes)).map Out.authPayload,
               saslSent := true } := by
  unfold sendSaslString
  generalize authChunks Gen.Conn.authenticateChunkSize (b64encode bytes) = l
  have : ∀ (l : List Str) (s : St), l.foldl (fun s c => sendMsg (.authPayload c) s) s =
      { s with fastq := s.fastq ++ l.map Out.authPayload } := by
    intro l
    induction l with
    | nil => intro s; simp
    | cons c cs ih => intro s; rw [List.foldl_cons, ih]; simp [sendMsg]
  rw [this]

theorem authChunks_ne (sz : Nat) (a : Str) : authChunks sz a ≠ [] := by
  unfold authChunks authChunksAux
  split <;> simp

/-- shape of the output of `authenticate_generator`: full-size pieces followed by one final piece that is
shorter (or `+` when nothing is left), together spelling the base64 text -/
def ChunksOk (sz : Nat) (a : Str) (l : List Str) : Prop :=
  ∃ pieces final, l = pieces ++ [final] ∧ (∀ p ∈ pieces, p.length = sz) ∧
    ((final.length < sz ∧ final ≠ [] ∧ pieces.flatten ++ final = a) ∨ (final = sPlus ∧ pieces.flatten = a))

theorem authChunksAux_ok (sz : Nat) (hsz : 0 < sz) : ∀ (fuel : Nat) (a : Str), a.length < fuel →
    ChunksOk sz a (authChunksAux sz fuel a) := by
  intro fuel
  induction fuel with
  | zero => intro a h; omega
  | succ k ih =>
    intro a h
    unfold authChunksAux
    by_cases hlt : a.length < sz
    · rw [if_pos hlt]
      by_cases he : a.isEmpty = true
      · rw [if_pos he]
        have : a = [] := by simpa using he
        exact ⟨[], sPlus, rfl, by simp, .inr ⟨rfl, by simp [this]⟩⟩
      · rw [if_neg he]
        have : a ≠ [] := by simpa using he
        exact ⟨[], a, rfl, by simp, .inl ⟨hlt, this, by simp⟩⟩
    · rw [if_neg hlt]
      have hlen : (a.drop sz).length < k := by simp [List.length_drop]; omega
      obtain ⟨pieces, final, h1, h2, h3⟩ := ih (a.drop sz) hlen
      refine ⟨a.take sz :: pieces, final, by rw [h1]; rfl, ?_, ?_⟩
      · intro p hp
        simp only [List.mem_cons] at hp
        rcases hp with rfl | hp
        · simp [List.length_take]; omega
        · exact h2 p hp
      · rcases h3 with ⟨a1, a2, a3⟩ | ⟨a1, a3⟩
        · exact .inl ⟨a1, a2, by simp only [List.flatten_cons, List.append_assoc]; rw [a3]; exact List.take_append_drop sz a⟩
        · exact .inr ⟨a1, by simp only [List.flatten_cons]; rw [a3]; exact List.take_append_drop sz a⟩

/-- `authenticate_generator`: for every text, the lines are full-size pieces followed by one final line
that is shorter than the chunk size or `+`; concatenated (the terminating `+` dropped) they are the text -/
theorem chunks_ok (sz : Nat) (hsz : 0 < sz) (a : Str) : ChunksOk sz a (authChunks sz a) :=
  authChunksAux_ok sz hsz (a.length + 1) a (Nat.lt_succ_self _)

theorem tabP_chunk : 1 < Gen.Conn.authenticateChunkSize := by decide

def isPayloadOut : Out → Bool
  | .authPayload _ => true
  | .authOpaque => true
  | .authAbort => true
  | _ => false

/-- a line that completes an answer: shorter than the chunk size (or the signature) -/
def isFinalOut : Out → Bool
  | .authPayload c => c.length != Gen.Conn.authenticateChunkSize
  | .authOpaque => true
  | _ => false

/-- the lines of one answer: credentials lines only, the last one completing it -/
def Answer (outs : List Out) : Prop :=
  (∀ o ∈ outs, isPayloadOut o = true) ∧ ∃ init o, outs = init ++ [o] ∧ isFinalOut o = true

theorem answer_chunks (bytes : List Nat) :
    Answer ((authChunks Gen.Conn.authenticateChunkSize (b64encode bytes)).map Out.authPayload) := by
  refine ⟨?_, ?_⟩
  · intro o ho; simp only [List.mem_map] at ho; obtain ⟨c, _, rfl⟩ := ho; rfl
  · obtain ⟨pieces, final, h1, _, h3⟩ := chunks_ok Gen.Conn.authenticateChunkSize (by have := tabP_chunk; omega) (b64encode bytes)
    refine ⟨pieces.map Out.authPayload, .authPayload final, by rw [h1]; simp, ?_⟩
    have hlen : final.length ≠ Gen.Conn.authenticateChunkSize := by
      rcases h3 with ⟨a1, _, _⟩ | ⟨a1, _⟩
      · omega
      · rw [a1]; have := tabP_chunk; simp [sPlus]; omega
    simp [isFinalOut, hlen]

theorem sendSasl_sends (bytes : List Nat) (s : St) :
    ∃ outs, Answer outs ∧ sendSaslString bytes s = { s with fastq := s.fastq ++ outs, saslSent := true } :=
  ⟨_, answer_chunks bytes, sendSaslString_eq bytes s⟩

/-- everything the progress invariant looks at, except the queues and the two SASL bookkeeping fields -/
def pcore (s : St) :=
  (s.fsm, s.ls, s.req, s.ack, s.nak, s.saslNext, s.saslCur, s.saslAuth, s.dec, s.nick, s.altNicks, s.tried, s.afterConnect, s.ev)

/-- what an answer of the bot to a complete server AUTHENTICATE looks like: a complete credentials answer
(then `sasl_response_sent` is set), or the abort marker alone; nothing else changes, the SCRAM step advances
by at most one -/
def Responds (s s' : St) : Prop :=
  ∃ outs, s'.fastq = s.fastq ++ outs ∧ pcore s' = pcore s ∧ s'.scramStep ≤ s.scramStep + 1 ∧
    ((Answer outs ∧ s'.saslSent = true) ∨ (outs = [.authAbort] ∧ s'.saslSent = s.saslSent))

theorem responds_sasl (bytes : List Nat) (s : St) (n : Nat) (hn : n ≤ s.scramStep + 1) :
    Responds s { sendSaslString bytes s with scramStep := n } := by
  rw [sendSaslString_eq]
  exact ⟨_, rfl, rfl, hn, .inl ⟨answer_chunks bytes, rfl⟩⟩

theorem responds_sasl' (bytes : List Nat) (s : St) : Responds s (sendSaslString bytes s) := by
  have := responds_sasl bytes s s.scramStep (Nat.le_succ _)
  rw [sendSaslString_eq] at this ⊢
  exact this

theorem responds_abort (s : St) : Responds s (sendMsg .authAbort s) :=
  ⟨[.authAbort], rfl, rfl, Nat.le_succ _, .inr ⟨rfl, rfl⟩⟩

theorem scramRespond_responds (m : Str) (s : St) (hs : s.scramStep < 3) : Responds s (scramRespond cfg m s).st := by
  unfold scramRespond
  by_cases h0 : s.scramStep = 0
  · rw [if_pos h0]
    split
    · exact responds_sasl _ s 1 (by omega)
    · exact responds_abort s
  · rw [if_neg h0]
    by_cases h1 : s.scramStep = 1
    · rw [if_pos h1]
      split
      · exact responds_sasl _ s 2 (by omega)
      · exact responds_abort s
    · rw [if_neg h1]
      have h2 : s.scramStep = 2 := by omega
      rw [if_pos h2]
      split
      · exact responds_sasl _ s 3 (by omega)
      · exact responds_abort s

/-- the answer of the bot to a complete server AUTHENTICATE when its current mechanism is one it
made available itself (and, for SCRAM, the exchange has not had its three server messages yet) -/
theorem authRespond_sends (n : Nat) (s : St) (m : Str) (hc : s.saslCur = some m) (hm : mechAvailable cfg m = true)
    (hs : s.scramStep < 3) : Responds s (authRespond cfg n s).st := by
  unfold authRespond
  split
  · rename_i h; rw [hc] at h; cases h
  · rename_i m' h
    rw [hc] at h; injection h with h; subst h
    by_cases h1 : m = sEcdsa
    · simp only [h1, if_true]
      split
      · exact responds_sasl' _ s
      · split
        · exact ⟨[.authOpaque], rfl, rfl, Nat.le_succ _, .inl ⟨⟨by simp [isPayloadOut], [], .authOpaque, rfl, rfl⟩, rfl⟩⟩
        · exact responds_abort s
    · simp only [h1, if_false]
      by_cases h2 : m = sExternal
      · simp only [h2, if_true]; exact responds_sasl' _ s
      · simp only [h2, if_false]
        by_cases h3 : sScramPfx.isPrefixOf m = true
        · simp only [h3, if_true]; exact scramRespond_responds m s hs
        · simp only [h3, if_false]
          unfold mechAvailable at hm
          simp only [h1, h2, h3, if_false] at hm
          by_cases h4 : m = sPlain
          · simp only [h4, if_true]; exact responds_sasl' _ s
          · simp [h4] at hm

/-- Irc.doAuthenticate in INIT_SASL on a complete, well-formed server AUTHENTICATE with no pending chunks -/
theorem doAuthenticate_sasl (s : St) (c : Str) (hf : s.fsm = .INIT_SASL) (hdec : s.dec = none)
    (hc : c = sPlus ∨ (c.length ≠ Gen.Conn.authenticateChunkSize ∧ (b64decodedLen [c]).isSome = true))
    (m : Str) (hcur : s.saslCur = some m) (hm : mechAvailable cfg m = true) (hs : s.scramStep < 3) :
    Responds s (doAuthenticate cfg sAUTHENTICATE [c] s).st := by
  have hcd : curDecoder s = ⟨[], false⟩ := by simp [curDecoder, hdec]
  have hready : (decoderFeed (curDecoder s) c).ready = true := by
    rw [hcd]; unfold decoderFeed
    rcases hc with rfl | ⟨h, _⟩
    · simp
    · simp [h]
  have hchunks : (b64decodedLen (decoderFeed (curDecoder s) c).chunks).isSome = true := by
    rw [hcd]; unfold decoderFeed
    rcases hc with rfl | ⟨h, h2⟩
    · simp only [if_true]; decide
    · by_cases hp : c = sPlus
      · subst hp; simp only [if_true]; decide
      · simp only [hp, if_false, List.nil_append]; exact h2
  have hexp : expectState Gen.Conn.expectDoAuthenticate s = ok s := by
    unfold expectState; rw [hf, if_pos tabP_sasl.2.2.2.1]
  unfold doAuthenticate
  rw [hexp, bind_ok]
  simp only [ne_eq, not_true_eq_false, if_false, hready, Bool.not_true, Bool.false_eq_true]
  cases hb : b64decodedLen (decoderFeed (curDecoder s) c).chunks with
  | none => rw [hb] at hchunks; cases hchunks
  | some n =>
    simp only
    obtain ⟨outs, o1, o2, o3, o4⟩ := authRespond_sends (cfg := cfg) n ({ s with dec := none } : St) m hcur hm hs
    exact ⟨outs, o1, by rw [o2]; simp [pcore, hdec], o3, o4⟩

/-! ### what one step does, in terms of the handler -/

/-- the fields of the Irc object the progress invariant talks about -/
structure Bot where
  fsm : Fsm
  ls : List (Str × Option Str)
  req : List Str
  ack : List Str
  nak : List Str
  saslNext : List Str
  saslCur : Option Str
  saslAuth : Bool
  dec : Option Decoder
  nick : Str
  altNicks : List Str
  tried : List Str
  afterConnect : Bool
  saslSent : Bool
  scramStep : Nat

def bot (s : St) : Bot :=
  ⟨s.fsm, s.ls, s.req, s.ack, s.nak, s.saslNext, s.saslCur, s.saslAuth, s.dec, s.nick, s.altNicks, s.tried, s.afterConnect,
   s.saslSent, s.scramStep⟩

theorem bot_drain (s : St) : bot (drain s) = bot s := rfl
theorem bot_callbacks (m : Msg) (s : St) : bot (callbacks cfg m s) = bot s := by
  unfold callbacks; split <;> rfl
theorem ev_callbacks (m : Msg) (s : St) : (callbacks cfg m s).ev = s.ev := by
  unfold callbacks; split <;> rfl

/-- one step, when the nick-setting prelude of feedMsg leaves `s1` -/
theorem step_facts (s s1 : St) (m : Msg) (hn : nickSetter m s = ok s1) :
    (step cfg s m).fast = (runHandler cfg m s1).st.fastq ∧
    (step cfg s m).events = (runHandler cfg m s1).st.ev ∧
    bot (step cfg s m).st = bot (runHandler cfg m s1).st := by
  unfold step observeStep feedMsg
  rw [hn, bind_ok]
  unfold R.bind
  cases (runHandler cfg m s1).exc with
  | some e => exact ⟨rfl, rfl, rfl⟩
  | none =>
    simp only [ok]
    exact ⟨callbacks_fastq m _, ev_callbacks m _, by rw [bot_drain, bot_callbacks]⟩

theorem nickSetter_plain (m : Msg) (s : St) (h : Gen.Conn.nickSetters.contains m.command = false) :
    nickSetter m s = ok s := by
  unfold nickSetter; rw [if_neg (by rw [h]; exact Bool.false_ne_true)]

theorem nickSetter_numeric (c a : Str) (args : List Str) (n : Str) (s : St)
    (h : Gen.Conn.nickSetters.contains c = true) :
    nickSetter ⟨c, a :: args, n⟩ s = ok { s with nick := a } := by
  unfold nickSetter; rw [if_pos h]

/-! ### `_addCapabilities` under the stub driver: the advertised set grows; an `sts` item may abort -/

/-- relation between the state before and after `_addCapabilities`: the queue is untouched, driver
events are only appended, and if none was appended nothing but `capabilities_ls` (which only gains keys)
and the STS store changed -/
def AddRel (s s' : St) : Prop :=
  s'.fastq = s.fastq ∧ ∃ extra, s'.ev = s.ev ++ extra ∧
    (extra = [] → { bot s' with ls := [] } = { bot s with ls := [] } ∧ ∀ k ∈ keys s.ls, k ∈ keys s'.ls)

theorem AddRel.refl (s : St) : AddRel s s := ⟨rfl, [], by simp, fun _ => ⟨rfl, fun _ h => h⟩⟩

theorem AddRel.trans {a b c : St} (h1 : AddRel a b) (h2 : AddRel b c) : AddRel a c := by
  obtain ⟨q1, e1, he1, f1⟩ := h1
  obtain ⟨q2, e2, he2, f2⟩ := h2
  refine ⟨q2.trans q1, e1 ++ e2, by rw [he2, he1, List.append_assoc], fun h => ?_⟩
  have h1' : e1 = [] := (List.append_eq_nil_iff.mp h).1
  have h2' : e2 = [] := (List.append_eq_nil_iff.mp h).2
  obtain ⟨b1, k1⟩ := f1 h1'
  obtain ⟨b2, k2⟩ := f2 h2'
  exact ⟨b2.trans b1, fun k hk => k2 k (k1 k hk)⟩

theorem keys_dictSet {β : Type} (d : List (Str × β)) (k : Str) (v : β) : ∀ x ∈ keys d, x ∈ keys (dictSet d k v) := by
  induction d with
  | nil => intro x hx; simp [keys] at hx
  | cons p ps ih =>
    obtain ⟨k', v'⟩ := p
    intro x hx
    unfold dictSet
    split
    · rename_i he; simp only [keys, List.map_cons, List.mem_cons] at hx ⊢
      rcases hx with rfl | hx
      · exact .inl he
      · exact .inr hx
    · simp only [keys, List.map_cons, List.mem_cons] at hx ⊢
      rcases hx with rfl | hx
      · exact .inl rfl
      · exact .inr (ih x hx)

theorem mem_keys_dictSet {β : Type} (d : List (Str × β)) (k : Str) (v : β) : k ∈ keys (dictSet d k v) := by
  induction d with
  | nil => simp [dictSet, keys]
  | cons p ps ih =>
    obtain ⟨k', v'⟩ := p
    unfold dictSet
    split
    · simp [keys]
    · simp only [keys, List.map_cons, List.mem_cons]; exact .inr ih

theorem addRel_setLs (k : Str) (v : Option Str) (s : St) : AddRel s (setLs k v s) :=
  ⟨rfl, [], by simp [setLs], fun _ => ⟨rfl, keys_dictSet s.ls k v⟩⟩

theorem addRel_event (o : Out) (s : St) : AddRel s (event o s) :=
  ⟨rfl, [o], rfl, fun h => by cases h⟩

theorem addRel_onCapSts (hd : cfg.realDriver = false) (policy : Str) (s : St) : AddRel s (onCapSts cfg policy s) := by
  unfold onCapSts
  split
  · exact .refl s
  · split
    · exact ⟨rfl, [], by simp, fun _ => ⟨rfl, fun _ h => h⟩⟩
    · rw [stub_reconnect hd]
      exact ⟨rfl, [.reconnect true (some ⟨s.drv.current.host, _, s.drv.current.attempt, true⟩)], rfl, fun h => by cases h⟩

theorem addRel_addCapability (hd : cfg.realDriver = false) (s : St) (item : Str) : AddRel s (addCapability cfg s item) := by
  unfold addCapability
  split
  · split
    · exact (addRel_onCapSts hd _ s).trans (addRel_setLs _ _ _)
    · exact addRel_setLs _ _ _
  · split
    · rw [stub_reconnect hd]; exact (addRel_event _ s).trans (addRel_setLs _ _ _)
    · exact addRel_setLs _ _ _

theorem addRel_addCapabilities (hd : cfg.realDriver = false) (caps : Str) (s : St) :
    AddRel s (addCapabilities cfg caps s) := by
  unfold addCapabilities
  generalize splitWs caps = l
  induction l generalizing s with
  | nil => exact .refl s
  | cons c cs ih => simp only [List.foldl_cons]; exact (addRel_addCapability hd s c).trans (ih _)

/-! ### the joint invariant -/

structure Common (cfg : Cfg) (b : Bot) (v : View) : Prop where
  mechsNext : ∀ m ∈ b.saslNext, mechAvailable cfg m = true
  mechsCur : ∀ m, b.saslCur = some m → mechAvailable cfg m = true
  nick0 : v.stage = 0 → b.nick = cfg.nick ∧ cfg.nick ∈ b.tried ∧ b.afterConnect = false

/-- the capability bookkeeping of both sides fits together: every capability the bot requested is
acknowledged, refused, or part of a CAP REQ (remainder) the server has yet to answer; what is acknowledged
or advertised is known to the bot as advertised -/
structure Caps (b : Bot) (v : View) : Prop where
  acc : ∀ c ∈ b.req, c ∈ b.ack ∨ c ∈ b.nak ∨ c ∈ v.reqs.flatten
  ackKeys : ∀ c ∈ b.ack, c ∈ keys b.ls
  avail : ∀ c ∈ v.avail, c ∈ keys b.ls
  ne : ∀ l ∈ v.reqs, l ≠ []

/-- every requested capability has been answered -/
def Answered (b : Bot) : Prop := ∀ c ∈ b.req, c ∈ b.ack ∨ c ∈ b.nak

inductive Phase (cfg : Cfg) (b : Bot) (v : View) : Prop
  /-- capability negotiation: the final LS, or the answer to a CAP REQ, is owed -/
  | neg (h3 : v.v3 = true) (he : v.ended = false) (hs : v.stage = 0) (hf : b.fsm = .INIT_CAP_NEGOTIATION)
      (ha : v.auth = .none) (hauth : b.saslAuth = false) (hd : b.dec = none)
      (hls : v.lsOwed = true → b.req = [] ∧ b.ack = [] ∧ b.nak = [] ∧ v.reqs = [])
      (howe : v.lsOwed = false → v.reqs ≠ [])
      (hln : v.lateNew = false)
  /-- SASL exchange: an answer to the mechanism request or to the credentials is owed -/
  | sasl (h3 : v.v3 = true) (he : v.ended = false) (hs : v.stage = 0) (hf : b.fsm = .INIT_SASL)
      (ha : v.auth.owed = true) (hauth : b.saslAuth = false) (hd : b.dec = none) (hcur : b.saslCur ≠ none)
      (hl : v.lsOwed = false) (hres : v.lateNew = false → Answered b)
      (hsent : v.auth = .payload → b.saslSent = true) (hround : b.scramStep ≤ v.rounds)
  /-- CAP END sent: the welcome numerics are owed -/
  | waiting (h3 : v.v3 = true) (he : v.ended = true) (hs : v.stage ≤ 5) (hf : b.fsm = .INIT_WAITING_MOTD)
      (ha : v.auth = .none) (hl : v.lsOwed = false) (hres : v.lateNew = false → Answered b)
  /-- a server without capability negotiation: the welcome numerics are owed from the start -/
  | nocap (h3 : v.v3 = false) (hs : v.stage ≤ 5) (hf : b.fsm = .INIT_CAP_NEGOTIATION) (ha : v.auth = .none)
      (hreq : b.req = [])
  | motd (hw : canWelcome v = true) (hs : v.stage = 6) (hf : b.fsm = .INIT_MOTD) (ha : v.auth = .none)
      (hl : v.v3 = true → v.lsOwed = false) (hres : v.lateNew = false → Answered b)

/-- the conformant server still owes the client something (it has a move that is not a PING / notice) -/
def Owes (v : View) : Prop :=
  (v.v3 = true ∧ (v.lsOwed = true ∨ v.reqs ≠ [] ∨ v.auth.owed = true)) ∨ (canWelcome v = true ∧ v.stage < 7)

theorem owes_of_phase {cfg : Cfg} {b : Bot} {v : View} (p : Phase cfg b v) : Owes v := by
  cases p with
  | neg h3 he hs hf ha hauth hd hls howe hln =>
    left; refine ⟨h3, ?_⟩
    cases h : v.lsOwed with
    | true => exact .inl rfl
    | false => exact .inr (.inl (howe h))
  | sasl h3 he hs hf ha hauth hd hcur hl _ _ _ => exact .inl ⟨h3, .inr (.inr ha)⟩
  | waiting h3 he hs hf ha hl _ => exact .inr ⟨by simp [canWelcome, he], by omega⟩
  | nocap h3 hs hf ha _ => exact .inr ⟨by simp [canWelcome, h3], by omega⟩
  | motd hw hs hf ha hl _ => exact .inr ⟨hw, by omega⟩

/-- aborted deliberately, or connected (end of MOTD seen), or the registration is in one of its phases -/
def Inv (cfg : Cfg) (s : St) (v : View) : Prop :=
  v.aborted = true ∨ s.afterConnect = true ∨ v.reopened = true ∨
    (Common cfg (bot s) v ∧ Caps (bot s) v ∧ Phase cfg (bot s) v)

theorem inv_core {cfg : Cfg} {s : St} {v : View} (h : Common cfg (bot s) v ∧ Caps (bot s) v ∧ Phase cfg (bot s) v) :
    Inv cfg s v := .inr (.inr (.inr h))

/-! ### what the server sees of a step -/

theorem seeOut_aborted (v : View) (o : Out) : (seeOut v o).aborted = v.aborted := by
  cases o <;> rfl

theorem fold_aborted (l : List Out) (v : View) : (l.foldl seeOut v).aborted = v.aborted := by
  induction l generalizing v with
  | nil => rfl
  | cons o os ih => simp only [List.foldl_cons, ih, seeOut_aborted]

theorem seeStep_aborted (v : View) (r : StepResult) (h : r.events ≠ []) : (seeStep v r).aborted = true := by
  unfold seeStep
  cases he : r.events with
  | nil => exact absurd he h
  | cons _ _ => simp

theorem seeStep_quiet (v : View) (r : StepResult) (h : r.events = []) (ha : v.aborted = false) :
    seeStep v r = r.fast.foldl seeOut v := by
  unfold seeStep
  have := fold_aborted r.fast v
  simp only [h, List.isEmpty_nil, Bool.not_true, Bool.or_false]

/-! ### the moves that leave the phase alone -/

theorem run_capLs {cfg : Cfg} {m : Msg} (hd : dispatch m = .capLs) (s : St) : runHandler cfg m s = doCapLs cfg m.args s := by
  unfold runHandler; rw [hd]

theorem run_capAck {cfg : Cfg} {m : Msg} (hd : dispatch m = .capAck) (s : St) : runHandler cfg m s = doCapAckNak cfg true m.args s := by
  unfold runHandler; rw [hd]

theorem run_capNak {cfg : Cfg} {m : Msg} (hd : dispatch m = .capNak) (s : St) : runHandler cfg m s = doCapAckNak cfg false m.args s := by
  unfold runHandler; rw [hd]

theorem run_authenticate {cfg : Cfg} {m : Msg} (hd : dispatch m = .authenticate) (s : St) : runHandler cfg m s = doAuthenticate cfg m.command m.args s := by
  unfold runHandler; rw [hd]

theorem run_n903 {cfg : Cfg} {m : Msg} (hd : dispatch m = .n903) (s : St) : runHandler cfg m s = do903 cfg s := by
  unfold runHandler; rw [hd]

theorem run_n904to907 {cfg : Cfg} {m : Msg} (hd : dispatch m = .n904to907) (s : St) : runHandler cfg m s = tryNextSasl cfg s := by
  unfold runHandler; rw [hd]

theorem run_n908 {cfg : Cfg} {m : Msg} (hd : dispatch m = .n908) (s : St) : runHandler cfg m s = do908 m.args s := by
  unfold runHandler; rw [hd]

theorem run_n002 {cfg : Cfg} {m : Msg} (hd : dispatch m = .n002) (s : St) : runHandler cfg m s = do002 m.args s := by
  unfold runHandler; rw [hd]

theorem run_n375 {cfg : Cfg} {m : Msg} (hd : dispatch m = .n375) (s : St) : runHandler cfg m s = do375 cfg s := by
  unfold runHandler; rw [hd]

theorem run_n376 {cfg : Cfg} {m : Msg} (hd : dispatch m = .n376) (s : St) : runHandler cfg m s = do376 cfg s := by
  unfold runHandler; rw [hd]

theorem run_n43x {cfg : Cfg} {m : Msg} (hd : dispatch m = .n43x) (s : St) : runHandler cfg m s = do43x cfg s := by
  unfold runHandler; rw [hd]

theorem run_ping {cfg : Cfg} {m : Msg} (hd : dispatch m = .ping) (s : St) : runHandler cfg m s = doPing m.args s := by
  unfold runHandler; rw [hd]

theorem run_none {cfg : Cfg} {m : Msg} (hd : dispatch m = .none) (s : St) : runHandler cfg m s = ok s := by
  unfold runHandler; rw [hd]

/-- a step that changes neither the bot fields nor the view keeps the invariant -/
theorem inv_unchanged {cfg : Cfg} {s s' : St} {v v' : View} (hb : bot s' = bot s) (hv : v' = v)
    (h : Common cfg (bot s) v ∧ Caps (bot s) v ∧ Phase cfg (bot s) v) : Inv cfg s' v' := by
  subst hv; rw [← hb] at h; exact inv_core h

theorem pres_ping {cfg : Cfg} {s : St} {v : View} (x n : Str) (hq : s.fastq = [] ∧ s.ev = []) (ha : v.aborted = false)
    (h : Common cfg (bot s) v ∧ Caps (bot s) v ∧ Phase cfg (bot s) v) :
    Inv cfg (step cfg s ⟨sPING, [x], n⟩).st (seeStep v (step cfg s ⟨sPING, [x], n⟩)) := by
  obtain ⟨f1, f2, f3⟩ := step_facts (cfg := cfg) s s ⟨sPING, [x], n⟩ (nickSetter_plain _ _ (show Gen.Conn.nickSetters.contains sPING = false by decide))
  rw [run_ping (show dispatch ⟨sPING, [x], n⟩ = .ping from rfl)] at f1 f2 f3
  simp only [doPing, ok, sendMsg, hq.1, hq.2, List.nil_append] at f1 f2 f3
  refine inv_unchanged f3 ?_ h
  rw [seeStep_quiet _ _ f2 ha, f1]; rfl

theorem pres_noop {cfg : Cfg} {s : St} {v : View} (m : Msg) (hd : dispatch m = .none)
    (hn : Gen.Conn.nickSetters.contains m.command = false) (hq : s.fastq = [] ∧ s.ev = []) (ha : v.aborted = false)
    (h : Common cfg (bot s) v ∧ Caps (bot s) v ∧ Phase cfg (bot s) v) : Inv cfg (step cfg s m).st (seeStep v (step cfg s m)) := by
  obtain ⟨f1, f2, f3⟩ := step_facts (cfg := cfg) s s m (nickSetter_plain _ _ hn)
  rw [run_none hd] at f1 f2 f3
  simp only [ok, hq.1, hq.2] at f1 f2 f3
  refine inv_unchanged f3 ?_ h
  rw [seeStep_quiet _ _ f2 ha, f1]; rfl

/-- once `afterConnect` is set the invariant holds for good (stub driver: nothing takes it back) -/
theorem pres_connected {cfg : Cfg} (hd : cfg.realDriver = false) {s : St} (m : Msg) (v : View)
    (h : s.afterConnect = true) : Inv cfg (step cfg s m).st v :=
  .inr (.inl (afterConnect_moves hd (ref_feedMsg (cfg := cfg) m s) h))

/-! ### congruence of the phase predicate -/

/-- the bot fields the phases talk about -/
def pfields (b : Bot) := (b.fsm, b.req, b.ack, b.nak, b.saslCur, b.saslAuth, b.dec, b.saslSent, b.scramStep)

theorem phase_congr {cfg : Cfg} {b b' : Bot} {v : View} (h : pfields b' = pfields b) (p : Phase cfg b v) : Phase cfg b' v := by
  simp only [pfields, Prod.mk.injEq] at h
  obtain ⟨e1, e3, e4, e5, e6, e7, e8, e9, e10⟩ := h
  have hres : (v.lateNew = false → Answered b) → (v.lateNew = false → Answered b') := fun hr hl => by
    unfold Answered; rw [e3, e4, e5]; exact hr hl
  cases p with
  | neg h3 he hs hf ha hauth hd hls howe hln =>
    exact .neg h3 he hs (e1 ▸ hf) ha (e7 ▸ hauth) (e8 ▸ hd) (by rw [e3, e4, e5]; exact hls) howe hln
  | sasl h3 he hs hf ha hauth hd hcur hl hr hsent hround =>
    exact .sasl h3 he hs (e1 ▸ hf) ha (e7 ▸ hauth) (e8 ▸ hd) (e6 ▸ hcur) hl (hres hr) (e9 ▸ hsent) (e10 ▸ hround)
  | waiting h3 he hs hf ha hl hr => exact .waiting h3 he hs (e1 ▸ hf) ha hl (hres hr)
  | nocap h3 hs hf ha hreq => exact .nocap h3 hs (e1 ▸ hf) ha (e3 ▸ hreq)
  | motd hw hs hf ha hl hr => exact .motd hw hs (e1 ▸ hf) ha hl (hres hr)

/-- the bot fields and the view fields the capability bookkeeping talks about -/
def capf (b : Bot) := (b.ls, b.req, b.ack, b.nak)

theorem caps_congr {b b' : Bot} {v v' : View} (h : capf b' = capf b) (hr : v'.reqs = v.reqs) (ha : v'.avail = v.avail)
    (c : Caps b v) : Caps b' v' := by
  simp only [capf, Prod.mk.injEq] at h
  obtain ⟨e1, e2, e3, e4⟩ := h
  exact ⟨by rw [e2, e3, e4, hr]; exact c.acc, by rw [e3, e1]; exact c.ackKeys, by rw [ha, e1]; exact c.avail,
    by rw [hr]; exact c.ne⟩

/-- in the phases in which the welcome may arrive, the stage may advance up to 5 -/
theorem phase_stage {cfg : Cfg} {b : Bot} {v : View} (k : Nat) (hk : k ≤ 5) (hw : canWelcome v = true) (hs : v.stage ≤ 5)
    (p : Phase cfg b v) : Phase cfg b { v with stage := k } := by
  cases p with
  | neg h3 he _ _ _ _ _ _ _ _ => simp [canWelcome, h3, he] at hw
  | sasl h3 he _ _ _ _ _ _ _ _ _ _ => simp [canWelcome, h3, he] at hw
  | waiting h3 he _ hf ha hl hres => exact .waiting h3 he hk hf ha hl hres
  | nocap h3 _ hf ha hreq => exact .nocap h3 hk hf ha hreq
  | motd _ hs6 _ _ _ _ => omega

/-! ### welcome numerics 001–005 -/

theorem welcome_setter (k : Nat) (hk : 1 ≤ k ∧ k ≤ 5) : Gen.Conn.nickSetters.contains (welcomeNumeric k) = true := by
  obtain ⟨h1, h2⟩ := hk
  have : k = 1 ∨ k = 2 ∨ k = 3 ∨ k = 4 ∨ k = 5 := by omega
  rcases this with rfl | rfl | rfl | rfl | rfl <;> decide

theorem welcome_dispatch (k : Nat) (hk : 1 ≤ k ∧ k ≤ 5) (a : List Str) (n : Str) :
    dispatch ⟨welcomeNumeric k, a, n⟩ = .none ∨ dispatch ⟨welcomeNumeric k, a, n⟩ = .n002 := by
  obtain ⟨h1, h2⟩ := hk
  have : k = 1 ∨ k = 2 ∨ k = 3 ∨ k = 4 ∨ k = 5 := by omega
  rcases this with rfl | rfl | rfl | rfl | rfl
  · exact .inl rfl
  · exact .inr rfl
  · exact .inl rfl
  · exact .inl rfl
  · exact .inl rfl

theorem do002_st (args : List Str) (s : St) : (do002 args s).st = s := by
  unfold do002; split
  · rfl
  · split <;> rfl

theorem pres_welcome {cfg : Cfg} {s : St} {v : View} (k : Nat) (a : Str) (args : List Str) (n : Str)
    (hw : canWelcome v = true) (hk : 1 ≤ k ∧ k ≤ 5) (hs : v.stage + 1 = k)
    (hq : s.fastq = [] ∧ s.ev = []) (ha : v.aborted = false) (h : Common cfg (bot s) v ∧ Caps (bot s) v ∧ Phase cfg (bot s) v) :
    Inv cfg (step cfg s ⟨welcomeNumeric k, a :: args, n⟩).st
      (seeStep { v with stage := k } (step cfg s ⟨welcomeNumeric k, a :: args, n⟩)) := by
  obtain ⟨f1, f2, f3⟩ := step_facts (cfg := cfg) s { s with nick := a } ⟨welcomeNumeric k, a :: args, n⟩
    (nickSetter_numeric _ _ _ _ _ (welcome_setter k hk))
  have hst : (runHandler cfg ⟨welcomeNumeric k, a :: args, n⟩ { s with nick := a }).st = { s with nick := a } := by
    rcases welcome_dispatch k hk (a :: args) n with hd | hd
    · rw [run_none hd]; rfl
    · rw [run_n002 hd]; exact do002_st _ _
  rw [hst] at f1 f2 f3
  simp only [hq.1, hq.2] at f1 f2
  rw [seeStep_quiet { v with stage := k } _ f2 ha, f1]
  obtain ⟨hc, hcp, hp⟩ := h
  refine inv_core ⟨⟨?_, ?_, ?_⟩, ?_, ?_⟩
  · rw [f3]; exact hc.mechsNext
  · rw [f3]; exact hc.mechsCur
  · intro h0; simp only [List.foldl_nil] at h0; omega
  · rw [f3]; exact caps_congr (b := bot s) (v := v) rfl rfl rfl hcp
  · rw [f3]
    exact phase_congr (b := bot s) rfl (phase_stage k hk.2 hw (by omega) hp)

theorem pres_motdLine {cfg : Cfg} {s : St} {v : View} (a : Str) (args : List Str) (n : Str) (hs : v.stage = 6)
    (hq : s.fastq = [] ∧ s.ev = []) (ha : v.aborted = false) (h : Common cfg (bot s) v ∧ Caps (bot s) v ∧ Phase cfg (bot s) v) :
    Inv cfg (step cfg s ⟨num '3' '7' '2', a :: args, n⟩).st (seeStep v (step cfg s ⟨num '3' '7' '2', a :: args, n⟩)) := by
  obtain ⟨f1, f2, f3⟩ := step_facts (cfg := cfg) s { s with nick := a } ⟨num '3' '7' '2', a :: args, n⟩
    (nickSetter_numeric _ _ _ _ _ (show Gen.Conn.nickSetters.contains (num '3' '7' '2') = true by decide))
  rw [run_none (show dispatch ⟨num '3' '7' '2', a :: args, n⟩ = .none from rfl)] at f1 f2 f3
  simp only [ok, hq.1, hq.2] at f1 f2
  rw [seeStep_quiet v _ f2 ha, f1]
  obtain ⟨hc, hcp, hp⟩ := h
  refine inv_core ⟨⟨?_, ?_, ?_⟩, ?_, ?_⟩
  · rw [f3]; exact hc.mechsNext
  · rw [f3]; exact hc.mechsCur
  · intro h0; simp only [List.foldl_nil] at h0; omega
  · rw [f3]; exact caps_congr (b := bot s) (v := v) rfl rfl rfl hcp
  · rw [f3]; exact phase_congr (b := bot s) rfl hp

/-! ### MOTD -/

theorem do375_stub {cfg : Cfg} (hd : cfg.realDriver = false) (s : St)
    (hf : s.fsm = .INIT_CAP_NEGOTIATION ∨ s.fsm = .INIT_WAITING_MOTD) :
    do375 cfg s = (if saslMissing cfg s = true then ok (event (.reconnect true none) s) else ok { s with fsm := .INIT_MOTD }) := by
  unfold do375
  split
  · rw [stub_reconnect hd]
  · unfold transition
    have hg : Gen.Conn.guardStartMotd.contains s.fsm = true := by
      rcases hf with hf | hf <;> rw [hf]
      · exact tabP_motd.2.2.1
      · exact tabP_motd.2.2.2.1
    simp only [hg, if_true, tabP_motd.1]

theorem do376_stub {cfg : Cfg} (hd : cfg.realDriver = false) (s : St)
    (hf : s.fsm = .INIT_CAP_NEGOTIATION ∨ s.fsm = .INIT_WAITING_MOTD ∨ s.fsm = .INIT_MOTD) :
    do376 cfg s = (if saslMissing cfg s = true then ok (event (.reconnect true none) s)
      else ok { s with fsm := .CONNECTED, afterConnect := true, altNicks := cfg.alternates }) := by
  unfold do376
  split
  · rw [stub_reconnect hd]
  · unfold transition
    have hg : Gen.Conn.guardEndMotd.contains s.fsm = true := by
      rcases hf with hf | hf | hf <;> rw [hf]
      · exact tabP_motd.2.2.2.2.1
      · exact tabP_motd.2.2.2.2.2.1
      · exact tabP_motd.2.2.2.2.2.2
    simp only [hg, if_true, tabP_motd.2.1, bind_ok]

theorem inv_aborted {cfg : Cfg} {s : St} {v : View} {r : StepResult} (h : r.events ≠ []) : Inv cfg s (seeStep v r) :=
  .inl (seeStep_aborted v r h)

theorem phase_fsm_welcome {cfg : Cfg} {b : Bot} {v : View} (hw : canWelcome v = true) (hs : v.stage ≤ 5) (p : Phase cfg b v) :
    (b.fsm = .INIT_CAP_NEGOTIATION ∨ b.fsm = .INIT_WAITING_MOTD) ∧ v.auth = .none ∧ (v.v3 = true → v.lsOwed = false) ∧
    (v.lateNew = false → Answered b) := by
  cases p with
  | neg h3 he _ _ _ _ _ _ _ _ => simp [canWelcome, h3, he] at hw
  | sasl h3 he _ _ _ _ _ _ _ _ _ _ => simp [canWelcome, h3, he] at hw
  | waiting h3 he _ hf ha hl hres => exact ⟨.inr hf, ha, fun _ => hl, hres⟩
  | nocap h3 _ hf ha hreq => exact ⟨.inl hf, ha, fun h => (by rw [h3] at h; cases h), fun _ c hc => (by rw [hreq] at hc; cases hc)⟩
  | motd _ hs6 _ _ _ _ => omega

theorem pres_motdStart {cfg : Cfg} (hd : cfg.realDriver = false) {s : St} {v : View} (a : Str) (args : List Str) (n : Str)
    (hw : canWelcome v = true) (hs : v.stage = 5)
    (hq : s.fastq = [] ∧ s.ev = []) (ha : v.aborted = false) (h : Common cfg (bot s) v ∧ Caps (bot s) v ∧ Phase cfg (bot s) v) :
    Inv cfg (step cfg s ⟨num '3' '7' '5', a :: args, n⟩).st
      (seeStep { v with stage := 6 } (step cfg s ⟨num '3' '7' '5', a :: args, n⟩)) := by
  obtain ⟨f1, f2, f3⟩ := step_facts (cfg := cfg) s { s with nick := a } ⟨num '3' '7' '5', a :: args, n⟩
    (nickSetter_numeric _ _ _ _ _ (show Gen.Conn.nickSetters.contains (num '3' '7' '5') = true by decide))
  obtain ⟨hc, hcp, hp⟩ := h
  obtain ⟨hfsm, hauth, hl, hres⟩ := phase_fsm_welcome hw (by omega) hp
  have hrun := run_n375 (cfg := cfg) (show dispatch ⟨num '3' '7' '5', a :: args, n⟩ = .n375 from rfl) ({ s with nick := a } : St)
  have h375 := do375_stub hd ({ s with nick := a } : St) hfsm
  by_cases hm : saslMissing cfg ({ s with nick := a } : St) = true
  · rw [if_pos hm] at h375
    rw [hrun, h375] at f2
    exact inv_aborted (by rw [f2]; simp [ok, event])
  · rw [if_neg hm] at h375
    rw [hrun, h375] at f1 f2 f3
    simp only [ok, hq.1, hq.2] at f1 f2
    rw [seeStep_quiet { v with stage := 6 } _ f2 ha, f1]
    refine inv_core ⟨⟨?_, ?_, ?_⟩, ?_, ?_⟩
    · rw [f3]; exact hc.mechsNext
    · rw [f3]; exact hc.mechsCur
    · intro h0; simp at h0
    · rw [f3]; exact caps_congr (b := bot s) (v := v) rfl rfl rfl hcp
    · rw [f3]; exact .motd hw rfl rfl hauth hl hres

theorem pres_endMotd {cfg : Cfg} (hd : cfg.realDriver = false) {s s1 : St} {v' : View} (m : Msg)
    (hn : nickSetter m s = ok s1) (hdisp : dispatch m = .n376) (hb : bot s1 = { bot s with nick := s1.nick })
    (he : s1.ev = s.ev) (hfq : s1.fastq = s.fastq)
    (hf : s.fsm = .INIT_CAP_NEGOTIATION ∨ s.fsm = .INIT_WAITING_MOTD ∨ s.fsm = .INIT_MOTD)
    (hq : s.fastq = [] ∧ s.ev = []) : Inv cfg (step cfg s m).st (seeStep v' (step cfg s m)) := by
  obtain ⟨f1, f2, f3⟩ := step_facts (cfg := cfg) s s1 m hn
  have hf1 : s1.fsm = .INIT_CAP_NEGOTIATION ∨ s1.fsm = .INIT_WAITING_MOTD ∨ s1.fsm = .INIT_MOTD := by
    have : s1.fsm = s.fsm := congrArg Bot.fsm hb
    rw [this]; exact hf
  have h376 := do376_stub hd s1 hf1
  by_cases hm : saslMissing cfg s1 = true
  · rw [if_pos hm] at h376
    rw [run_n376 hdisp, h376] at f2
    exact inv_aborted (by rw [f2]; simp [ok, event])
  · rw [if_neg hm] at h376
    rw [run_n376 hdisp, h376] at f3
    exact .inr (.inl (congrArg Bot.afterConnect f3))

/-! ### nick collisions before the welcome -/

def isNickOut : Out → Bool
  | .nick _ => true
  | .nickRandom => true
  | _ => false

theorem seeOut_nick (v : View) (o : Out) (h : isNickOut o = true) : seeOut v o = v := by
  cases o <;> first | rfl | cases h

/-- Irc.do43x before the welcome, the start nick being a tried one: a new NICK is always sent -/
theorem do43x_sends {cfg : Cfg} (s : St) (ha : s.afterConnect = false) (hn : s.nick = cfg.nick) (ht : cfg.nick ∈ s.tried) :
    ∃ o alt tr, isNickOut o = true ∧ do43x cfg s = ok (sendMsg o { s with altNicks := alt, tried := tr }) ∧
      ∀ x ∈ s.tried, x ∈ tr := by
  have htc : s.tried.contains cfg.nick = true := by simpa using ht
  unfold do43x
  rw [if_neg (by rw [ha]; exact Bool.false_ne_true)]
  unfold getNextNick
  cases hal : s.altNicks with
  | nil =>
    simp only [nickFallback]
    rw [if_pos htc]
    exact ⟨.nickRandom, [], s.tried, rfl, by rw [← hal], fun _ h => h⟩
  | cons a rest =>
    simp only
    by_cases hc : s.tried.contains (altNick cfg a) = true
    · rw [if_pos hc]
      simp only [nickFallback]
      rw [if_pos htc]
      exact ⟨.nickRandom, rest, s.tried, rfl, rfl, fun _ h => h⟩
    · rw [if_neg hc]
      have hne : altNick cfg a ≠ s.nick := by
        intro he; rw [he, hn] at hc; exact hc htc
      simp only
      rw [if_neg hne]
      exact ⟨.nick (altNick cfg a), rest, s.tried ++ [altNick cfg a], rfl, rfl, fun x h => List.mem_append_left _ h⟩

theorem refusal_dispatch (c : Str) (hc : isNickRefusal c = true) (args : List Str) (n : Str) :
    dispatch ⟨c, args, n⟩ = .n43x ∧ Gen.Conn.nickSetters.contains c = false := by
  unfold isNickRefusal at hc
  simp only [Bool.or_eq_true, decide_eq_true_eq] at hc
  rcases hc with (rfl | rfl) | rfl <;> exact ⟨rfl, by decide⟩

theorem pres_nickRefused {cfg : Cfg} {s : St} {v : View} (c : Str) (args : List Str) (n : Str)
    (hs : v.stage = 0) (hc : isNickRefusal c = true)
    (hq : s.fastq = [] ∧ s.ev = []) (ha : v.aborted = false) (h : Common cfg (bot s) v ∧ Caps (bot s) v ∧ Phase cfg (bot s) v) :
    Inv cfg (step cfg s ⟨c, args, n⟩).st (seeStep v (step cfg s ⟨c, args, n⟩)) := by
  obtain ⟨hd, hns⟩ := refusal_dispatch c hc args n
  obtain ⟨f1, f2, f3⟩ := step_facts (cfg := cfg) s s ⟨c, args, n⟩ (nickSetter_plain _ _ hns)
  obtain ⟨hcm, hcp, hp⟩ := h
  obtain ⟨h1, h2, h3⟩ := hcm.nick0 hs
  obtain ⟨o, alt, tr, ho, hdo, htr⟩ := do43x_sends (cfg := cfg) s h3 h1 h2
  rw [run_n43x hd, hdo] at f1 f2 f3
  simp only [ok, sendMsg, hq.1, hq.2, List.nil_append] at f1 f2
  rw [seeStep_quiet v _ f2 ha, f1]
  simp only [List.foldl_cons, List.foldl_nil, seeOut_nick v o ho]
  refine inv_core ⟨⟨?_, ?_, ?_⟩, ?_, ?_⟩
  · rw [f3]; exact hcm.mechsNext
  · rw [f3]; exact hcm.mechsCur
  · intro _; rw [f3]; exact ⟨h1, htr _ h2, h3⟩
  · rw [f3]; exact caps_congr (b := bot s) (v := v) rfl rfl rfl hcp
  · rw [f3]; exact phase_congr (b := bot s) rfl hp

/-! ### RPL_SASLMECHS (908): the handler fails, nothing changes -/

theorem pres_mechs {cfg : Cfg} {s : St} {v : View} (args : List Str) (n : Str)
    (hq : s.fastq = [] ∧ s.ev = []) (ha : v.aborted = false) (h : Common cfg (bot s) v ∧ Caps (bot s) v ∧ Phase cfg (bot s) v) :
    Inv cfg (step cfg s ⟨num '9' '0' '8', args, n⟩).st (seeStep v (step cfg s ⟨num '9' '0' '8', args, n⟩)) := by
  obtain ⟨f1, f2, f3⟩ := step_facts (cfg := cfg) s s ⟨num '9' '0' '8', args, n⟩
    (nickSetter_plain _ _ (show Gen.Conn.nickSetters.contains (num '9' '0' '8') = false by decide))
  have hst : (do908 args s).st = s := by unfold do908; split <;> rfl
  rw [run_n908 (show dispatch ⟨num '9' '0' '8', args, n⟩ = .n908 from rfl), hst] at f1 f2 f3
  simp only [hq.1, hq.2] at f1 f2
  refine inv_unchanged f3 ?_ h
  rw [seeStep_quiet _ _ f2 ha, f1]; rfl

/-! ### the SASL exchange -/

theorem seeOut_payload (o : Out) (h : isPayloadOut o = true) : ∃ x, ∀ v : View, seeOut v o = { v with auth := x } := by
  cases o <;> first | exact ⟨_, fun _ => rfl⟩ | cases h

theorem fold_payload_aux (outs : List Out) (hall : ∀ o ∈ outs, isPayloadOut o = true) (v : View) :
    ∃ x, outs.foldl seeOut v = { v with auth := x } := by
  induction outs generalizing v with
  | nil => exact ⟨v.auth, rfl⟩
  | cons o os ih =>
    obtain ⟨x, hx⟩ := seeOut_payload o (hall o List.mem_cons_self)
    obtain ⟨y, hy⟩ := ih (fun q hq => hall q (List.mem_cons_of_mem _ hq)) { v with auth := x }
    exact ⟨y, by rw [List.foldl_cons, hx, hy]⟩

/-- the server has a complete answer in front of it once the lines of an `Answer` arrived -/
theorem fold_payload (outs : List Out) (v : View) (h : Answer outs) : outs.foldl seeOut v = { v with auth := .payload } := by
  obtain ⟨hall, init, o, rfl, hfin⟩ := h
  obtain ⟨x, hx⟩ := fold_payload_aux init (fun q hq => hall q (List.mem_append_left _ hq)) v
  rw [List.foldl_append, hx]
  simp only [List.foldl_cons, List.foldl_nil]
  cases o with
  | authPayload c =>
    simp only [isFinalOut, bne_iff_ne, ne_eq] at hfin
    simp [seeOut, hfin]
  | authOpaque => rfl
  | _ => cases hfin

theorem owed_ne_none {a : AuthSt} (h : a.owed = true) : a ≠ .none := by
  intro he; rw [he] at h; cases h

theorem cont_owed {a : AuthSt} (h : a.cont = true) : a.owed = true := by
  cases a <;> first | rfl | cases h

theorem phase_sasl_of_auth {cfg : Cfg} {b : Bot} {v : View} (ha : v.auth ≠ .none) (p : Phase cfg b v) :
    v.v3 = true ∧ v.ended = false ∧ v.stage = 0 ∧ b.fsm = .INIT_SASL ∧ b.saslAuth = false ∧ b.dec = none ∧
    b.saslCur ≠ none ∧ v.lsOwed = false ∧ (v.lateNew = false → Answered b) ∧ (v.auth = .payload → b.saslSent = true) ∧
    b.scramStep ≤ v.rounds := by
  cases p with
  | neg _ _ _ _ h _ _ _ _ _ => exact absurd h ha
  | sasl h3 he hs hf _ hauth hd hcur hl hres hsent hround => exact ⟨h3, he, hs, hf, hauth, hd, hcur, hl, hres, hsent, hround⟩
  | waiting _ _ _ _ h _ _ => exact absurd h ha
  | nocap _ _ _ h _ => exact absurd h ha
  | motd _ _ _ h _ _ => exact absurd h ha

/-- the bot fields after an answer: only `sasl_response_sent` and the SCRAM step may differ -/
theorem bot_of_responds {s s' : St} (h : pcore s' = pcore s) :
    bot s' = { bot s with saslSent := s'.saslSent, scramStep := s'.scramStep } ∧ s'.ev = s.ev := by
  simp only [pcore, Prod.mk.injEq] at h
  obtain ⟨h1, h2, h3, h4, h5, h6, h7, h8, h9, h10, h11, h12, h13, h14⟩ := h
  exact ⟨by simp [bot, *], h14⟩

theorem pres_authContinue {cfg : Cfg} {s : St} {v : View} (c n : Str) (hav : v.auth.cont = true) (hrd : v.rounds < 3)
    (hc : c = sPlus ∨ (c.length ≠ Gen.Conn.authenticateChunkSize ∧ (b64decodedLen [c]).isSome = true))
    (hq : s.fastq = [] ∧ s.ev = []) (ha : v.aborted = false) (h : Common cfg (bot s) v ∧ Caps (bot s) v ∧ Phase cfg (bot s) v) :
    Inv cfg (step cfg s ⟨sAUTHENTICATE, [c], n⟩).st
      (seeStep { v with auth := .none, rounds := v.rounds + 1 } (step cfg s ⟨sAUTHENTICATE, [c], n⟩)) := by
  obtain ⟨hcm, hcp, hp⟩ := h
  obtain ⟨h3, he, hs, hf, hauth, hd, hcur, hl, hres, hsent, hround⟩ := phase_sasl_of_auth (owed_ne_none (cont_owed hav)) hp
  obtain ⟨f1, f2, f3⟩ := step_facts (cfg := cfg) s s ⟨sAUTHENTICATE, [c], n⟩
    (nickSetter_plain _ _ (show Gen.Conn.nickSetters.contains sAUTHENTICATE = false by decide))
  rw [run_authenticate (show dispatch ⟨sAUTHENTICATE, [c], n⟩ = .authenticate from rfl)] at f1 f2 f3
  cases hm : s.saslCur with
  | none => exact absurd hm hcur
  | some m =>
    have hstep : s.scramStep < 3 := Nat.lt_of_le_of_lt hround hrd
    obtain ⟨outs, o1, o2, o3, o4⟩ := doAuthenticate_sasl (cfg := cfg) s c hf hd hc m hm (hcm.mechsCur m hm) hstep
    obtain ⟨hb, hev⟩ := bot_of_responds o2
    simp only at f1 f2 f3
    rw [o1, hq.1, List.nil_append] at f1
    rw [hev, hq.2] at f2
    rw [hb] at f3
    rw [seeStep_quiet { v with auth := .none, rounds := v.rounds + 1 } _ f2 ha, f1]
    have hfold : ∃ x, outs.foldl seeOut { v with auth := .none, rounds := v.rounds + 1 } = { v with auth := x, rounds := v.rounds + 1 } ∧
        x.owed = true ∧ (x = .payload → (doAuthenticate cfg sAUTHENTICATE [c] s).st.saslSent = true) := by
      rcases o4 with ⟨hans, hst⟩ | ⟨rfl, _⟩
      · exact ⟨.payload, by rw [fold_payload outs _ hans], rfl, fun _ => hst⟩
      · exact ⟨.abort, rfl, rfl, fun hx => by cases hx⟩
    obtain ⟨x, hx1, hx2, hx3⟩ := hfold
    rw [hx1]
    refine inv_core ⟨⟨?_, ?_, ?_⟩, ?_, ?_⟩
    · rw [f3]; exact hcm.mechsNext
    · rw [f3]; exact hcm.mechsCur
    · intro _; rw [f3]; exact hcm.nick0 hs
    · rw [f3]; exact caps_congr (b := bot s) (v := v) rfl rfl rfl hcp
    · rw [f3]
      exact .sasl h3 he hs hf hx2 hauth hd hcur hl hres hx3 (by show _ ≤ v.rounds + 1; exact Nat.le_trans o3 (Nat.succ_le_succ hround))

/-- Irc.do903 in INIT_SASL after a complete response: authenticated, back to the negotiation state, CAP END at once -/
theorem do903_sasl {cfg : Cfg} (hd : cfg.realDriver = false) (s : St) (hf : s.fsm = .INIT_SASL) (hsent : s.saslSent = true) :
    do903 cfg s = ok (sendMsg .capEnd { s with saslAuth := true, fsm := .INIT_WAITING_MOTD, endCount := s.endCount + 1 }) := by
  unfold do903 expectState
  rw [hf, if_pos tabP_sasl.2.2.2.2, bind_ok]
  rw [if_neg (by rw [hsent]; decide)]
  unfold onSaslAuthFinished tableTransition
  simp only [hf, tabP_sasl.2.1, bind_ok, if_true]
  rw [endCap_neg hd _ rfl]
  simp [saslMissing]

theorem pres_authOk {cfg : Cfg} (hd : cfg.realDriver = false) {s : St} {v : View} (args : List Str) (n : Str)
    (hav : v.auth = .payload) (hq : s.fastq = [] ∧ s.ev = []) (ha : v.aborted = false)
    (h : Common cfg (bot s) v ∧ Caps (bot s) v ∧ Phase cfg (bot s) v) :
    Inv cfg (step cfg s ⟨num '9' '0' '3', args, n⟩).st
      (seeStep { v with auth := .none } (step cfg s ⟨num '9' '0' '3', args, n⟩)) := by
  obtain ⟨hcm, hcp, hp⟩ := h
  obtain ⟨h3, he, hs, hf, hauth, hdec, hcur, hl, hres, hsent, hround⟩ := phase_sasl_of_auth (by rw [hav]; simp) hp
  obtain ⟨f1, f2, f3⟩ := step_facts (cfg := cfg) s s ⟨num '9' '0' '3', args, n⟩
    (nickSetter_plain _ _ (show Gen.Conn.nickSetters.contains (num '9' '0' '3') = false by decide))
  rw [run_n903 (show dispatch ⟨num '9' '0' '3', args, n⟩ = .n903 from rfl), do903_sasl hd s hf (hsent hav)] at f1 f2 f3
  simp only [ok, sendMsg, hq.1, hq.2, List.nil_append] at f1 f2
  rw [seeStep_quiet { v with auth := .none } _ f2 ha, f1]
  simp only [List.foldl_cons, List.foldl_nil, seeOut]
  refine inv_core ⟨⟨?_, ?_, ?_⟩, ?_, ?_⟩
  · rw [f3]; exact hcm.mechsNext
  · rw [f3]; exact hcm.mechsCur
  · intro _; rw [f3]; exact hcm.nick0 hs
  · rw [f3]; exact caps_congr (b := bot s) (v := v) rfl rfl rfl hcp
  · rw [f3]; exact .waiting h3 rfl (by simp only; omega) rfl rfl hl hres

theorem fail_dispatch (c : Str) (hc : isFailNumeric c = true) (args : List Str) (n : Str) :
    dispatch ⟨c, args, n⟩ = .n904to907 ∧ Gen.Conn.nickSetters.contains c = false := by
  unfold isFailNumeric at hc
  simp only [Bool.or_eq_true, decide_eq_true_eq] at hc
  rcases hc with ((rfl | rfl) | rfl) | rfl <;> exact ⟨rfl, by decide⟩

theorem pres_authFail {cfg : Cfg} (hd : cfg.realDriver = false) {s : St} {v : View} (c : Str) (args : List Str) (n : Str)
    (hav : v.auth.owed = true) (hc : isFailNumeric c = true) (hq : s.fastq = [] ∧ s.ev = []) (ha : v.aborted = false)
    (h : Common cfg (bot s) v ∧ Caps (bot s) v ∧ Phase cfg (bot s) v) :
    Inv cfg (step cfg s ⟨c, args, n⟩).st (seeStep { v with auth := .none } (step cfg s ⟨c, args, n⟩)) := by
  obtain ⟨hcm, hcp, hp⟩ := h
  obtain ⟨h3, he, hs, hf, hauth, hdec, hcur, hl, hres, hsent, hround⟩ := phase_sasl_of_auth (owed_ne_none hav) hp
  obtain ⟨hdisp, hns⟩ := fail_dispatch c hc args n
  obtain ⟨f1, f2, f3⟩ := step_facts (cfg := cfg) s s ⟨c, args, n⟩ (nickSetter_plain _ _ hns)
  have ht := tryNext_sasl (cfg := cfg) hd s hf
  rw [run_n904to907 hdisp] at f1 f2 f3
  cases hnx : s.saslNext with
  | cons m rest =>
    rw [hnx] at ht; simp only at ht
    rw [ht] at f1 f2 f3
    simp only [ok, sendMsg, hq.1, hq.2, List.nil_append] at f1 f2
    rw [seeStep_quiet { v with auth := .none } _ f2 ha, f1]
    simp only [List.foldl_cons, List.foldl_nil, seeOut]
    have hmem : m ∈ (bot s).saslNext := by show m ∈ s.saslNext; rw [hnx]; exact List.mem_cons_self
    refine inv_core ⟨⟨?_, ?_, ?_⟩, ?_, ?_⟩
    · rw [f3]; intro x hx; exact hcm.mechsNext x (by show x ∈ s.saslNext; rw [hnx]; exact List.mem_cons_of_mem _ hx)
    · rw [f3]; intro x hx
      have : m = x := by simpa [bot, sendMsg, ok] using hx
      rw [← this]; exact hcm.mechsNext m hmem
    · intro _; rw [f3]; exact hcm.nick0 hs
    · rw [f3]; exact caps_congr (b := bot s) (v := v) rfl rfl rfl hcp
    · rw [f3]; exact .sasl h3 he hs hf rfl hauth hdec (by simp [bot, sendMsg, ok]) hl hres (fun hx => by cases hx) (Nat.zero_le _)
  | nil =>
    rw [hnx] at ht; simp only at ht
    by_cases hr : cfg.required = true
    · rw [if_pos hr] at ht
      rw [ht] at f2
      exact inv_aborted (by rw [f2]; simp [ok, event])
    · rw [if_neg hr] at ht
      rw [ht] at f1 f2 f3
      simp only [ok, sendMsg, hq.1, hq.2, List.nil_append] at f1 f2
      rw [seeStep_quiet { v with auth := .none } _ f2 ha, f1]
      simp only [List.foldl_cons, List.foldl_nil, seeOut]
      refine inv_core ⟨⟨?_, ?_, ?_⟩, ?_, ?_⟩
      · rw [f3]; intro x hx; simp [bot, sendMsg, ok] at hx
      · rw [f3]; intro x hx; simp [bot, sendMsg, ok] at hx
      · intro _; rw [f3]; exact hcm.nick0 hs
      · rw [f3]; exact caps_congr (b := bot s) (v := v) rfl rfl rfl hcp
      · rw [f3]; exact .waiting h3 rfl (by simp only; omega) rfl rfl hl hres

end C08
