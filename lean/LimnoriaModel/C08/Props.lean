/-
C08 — property theorems (under construction).
-/
import LimnoriaModel.C08.Lemmas
namespace C08
end C08
