/-
C08 — property theorems about the model of the CAP / SASL registration machine.

Vocabulary.  `step cfg s m` is one `irc.feedMsg(m)` followed by draining the queues (stub driver);
`.fast` is what was put on the fast queue (CAP, AUTHENTICATE, NICK, PONG … are all sent with `sendMsg`),
`.st` the state afterwards.  `Reach cfg base s`: `s` is reachable from `Irc(network)` by any sequence of
server messages and `irc.reset()` calls — the quantification over *all* histories.  The per-step theorems
hold from every state whose fast queue is empty, in particular from every reachable one.
-/
import LimnoriaModel.C08.Trace
import LimnoriaModel.C08.Progress
namespace C08
open Py
open Gen.Conn (Fsm)

/-! ### examples used for non-vacuity -/

def exCfg : Cfg where
  nick := ['b','o','t']
  ident := ['i']
  user := ['u']
  password := []
  alternates := [['%','s','_']]
  mechanisms := [sPlain]
  saslUser := ['u']
  saslPass := ['p']
  ecdsaKey := []
  ecdsaKeyOk := false
  certfile := false
  required := false
  joins := false
  hasCrypto := true
  realDriver := false
  ssl := false
  certValidation := false
  verifyCerts := false
  servers := []

def exStar : Str := ['*']
/-- `CAP * LS :echo-message labeled-response sasl` -/
def exLs : Msg := ⟨sCAP, [exStar, ['L','S'], sEcho ++ [' '] ++ sLabeled ++ [' '] ++ sSasl], []⟩
/-- `CAP * ACK :echo-message labeled-response sasl` -/
def exAck : Msg := ⟨sCAP, [exStar, ['A','C','K'], sEcho ++ [' '] ++ sLabeled ++ [' '] ++ sSasl], []⟩
/-- `AUTHENTICATE +` -/
def exAuth : Msg := ⟨sAUTHENTICATE, [sPlus], []⟩
/-- `903 bot :ok` -/
def ex903 : Msg := ⟨num '9' '0' '3', [['b','o','t'], ['o','k']], []⟩

def exS0 : St := (start exCfg {}).st
def exS1 : St := (step exCfg exS0 exLs).st
def exS2 : St := (step exCfg exS1 exAck).st
def exS3 : St := (step exCfg exS2 exAuth).st

theorem exS0_reach : Reach exCfg {} exS0 := .start
theorem exS1_reach : Reach exCfg {} exS1 := .op (.msg exLs) exS0_reach
theorem exS2_reach : Reach exCfg {} exS2 := .op (.msg exAck) exS1_reach
theorem exS3_reach : Reach exCfg {} exS3 := .op (.msg exAuth) exS2_reach

/-! ### req_subset -/

/-- Every capability on a `CAP REQ` line was advertised by the server (is a key of `capabilities_ls` at
that moment) and is one the bot wants (in `REQUEST_CAPABILITIES` at that moment) — for every state with an
empty fast queue, every configuration and every server message. -/
theorem req_subset (cfg : Cfg) (s : St) (m : Msg) (hq : s.fastq = []) (ws : List Str)
    (h : Out.capReq ws ∈ (step cfg s m).fast) :
    ∀ w ∈ ws, w ∈ keys (step cfg s m).st.ls ∧ w ∈ (step cfg s m).st.wanted :=
  (reqOk_feedMsg hq ws h).1

example : Out.capReq [sEcho, sLabeled, sSasl] ∈ (step exCfg exS0 exLs).fast ∧ exS0.fastq = [] := by decide

/-- The object's own `REQUEST_CAPABILITIES` never holds anything but the extracted class-level set and
`sasl`, in any reachable state — whatever the state the history started from. -/
theorem wanted_bounded (cfg : Cfg) (base s : St)
    (r : Reach cfg base s) : ∀ c ∈ s.wanted, c ∈ Gen.Conn.requestCapabilities ∨ c = sSasl := by
  have key : ∀ t : St, (α t).wantedOk = true ↔ ∀ c ∈ t.wanted, c ∈ Gen.Conn.requestCapabilities ∨ c = sSasl := by
    intro t; simp [α, isWanted, List.all_eq_true]
  rw [← key]
  induction r with
  | start =>
    show (α (drain (initSt cfg base))).wantedOk = true
    rw [α_drain, α_initSt]; rfl
  | op o _ ih =>
    cases o with
    | msg m =>
      show (α (drain (feedMsg cfg m _).st)).wantedOk = true
      rw [α_drain]
      have := wantedOk_moves (ref_feedMsg (cfg := cfg) m _) ih
      exact this
    | reset =>
      show (α (drain (ircReset cfg _))).wantedOk = true
      rw [α_drain, α_ircReset]

/-- `resetSasl` rebuilds the set from the class-level one: `sasl` is wanted exactly when this network's
configuration leaves a usable mechanism — whatever an earlier connection (or another network) had. -/
theorem wanted_rebuilt (cfg : Cfg) (s : St) :
    (ircReset cfg s).wanted = Gen.Conn.requestCapabilities ++
      (if (cfg.mechanisms.filter (mechAvailable cfg)).isEmpty then [] else [sSasl]) := by
  have hw : ∀ t : St, (queueConnectMessages cfg t).wanted = t.wanted := by
    intro t; unfold queueConnectMessages transition; simp only; split <;> rfl
  unfold ircReset
  rw [hw]
  unfold clearForReset resetSasl
  simp only
  split <;> simp

/-! ### echo_needs_label -/

/-- A `CAP REQ` line contains `echo-message` only if `labeled-response` is on the same line or already
acknowledged. -/
theorem echo_needs_label (cfg : Cfg) (s : St) (m : Msg) (hq : s.fastq = []) (ws : List Str)
    (h : Out.capReq ws ∈ (step cfg s m).fast) (he : sEcho ∈ ws) :
    sLabeled ∈ ws ∨ sLabeled ∈ (step cfg s m).st.ack :=
  (reqOk_feedMsg hq ws h).2 he

example : Out.capReq [sEcho, sLabeled, sSasl] ∈ (step exCfg exS0 exLs).fast ∧ sEcho ∈ [sEcho, sLabeled, sSasl] := by decide

/-! ### sasl_after_ack -/

/-- SASL credentials (a payload chunk, the ecdsa signature, or the abort marker) are put on the queue
only while handling a server `AUTHENTICATE` and only when the FSM was in INIT_SASL / CONNECTED_SASL. -/
theorem sasl_payload_invited (cfg : Cfg) (s : St) (m : Msg) (hq : s.fastq = []) (o : Out)
    (h : o ∈ (step cfg s m).fast) (hk : o.kind = .payload) :
    dispatch m = .authenticate ∧ isSaslState s.fsm = true :=
  payload_feedMsg hq (by simp only [α, List.mem_map]; exact ⟨o, h, hk⟩)

example : Out.authPayload ['d','Q','B','1','A','H','A','='] ∈ (step exCfg exS2 exAuth).fast ∧ exS2.fastq = [] := by decide

/-- A SASL state is entered only while handling `CAP ACK` / `CAP NAK` (the only callers of `capUpkeep`). -/
theorem sasl_entered_by_ack (cfg : Cfg) (s : St) (m : Msg) (h0 : isSaslState s.fsm = false)
    (h1 : isSaslState (step cfg s m).st.fsm = true) : dispatch m = .capAck ∨ dispatch m = .capNak := by
  by_cases hk : handlerKinds (dispatch m) .startSasl = true
  · revert hk; cases dispatch m <;> simp [handlerKinds]
  · have := (noSaslEntry_moves (by simpa using hk) (ref_feedMsg (cfg := cfg) m s) h1).1
    simp only [α] at this
    rw [h0] at this; cases this

example : isSaslState exS1.fsm = false ∧ isSaslState (step exCfg exS1 exAck).st.fsm = true := by decide

/-- In every reachable state and for every server message: any AUTHENTICATE line the bot queues
(mechanism name or credentials) is queued in an epoch in which a `CAP ACK` left `sasl` acknowledged
(ghost `saslAcked`); being in a SASL state, or having `sasl` in the acknowledged set, implies the same. -/
theorem sasl_after_ack (cfg : Cfg) (base s : St) (r : Reach cfg base s) (m : Msg) :
    (∀ o ∈ (step cfg s m).fast, o.kind.sasl = true → (step cfg s m).st.saslAcked = true) ∧
    (isSaslState s.fsm = true → s.saslAcked = true) ∧ (sSasl ∈ s.ack → s.saslAcked = true) := by
  have hs := (absInv_sasl cfg).reach r
  have hs' := saslQ_moves hs (ref_feedMsg (cfg := cfg) m s)
  refine ⟨fun o ho hk => hs'.2.2.1 o.kind (by simp only [α, List.mem_map]; exact ⟨o, ho, rfl⟩) hk, hs.2.1, ?_⟩
  intro h; exact hs.1 (by simpa [α] using h)

example : Out.authMech ['P','L','A','I','N'] ∈ (step exCfg exS1 exAck).fast := by decide

/-- The ghost `saslAcked` is raised only while handling `CAP ACK`. -/
theorem saslAcked_only_by_ack (cfg : Cfg) (s : St) (m : Msg) (h0 : s.saslAcked = false)
    (h1 : (step cfg s m).st.saslAcked = true) : dispatch m = .capAck := by
  by_cases hk : handlerKinds (dispatch m) .ackPerm = true
  · revert hk; cases dispatch m <;> simp [handlerKinds]
  · have := acked_moves (by simpa using hk) (ref_feedMsg (cfg := cfg) m s) h1
    simp only [α] at this
    rw [h0] at this; cases this

example : exS1.saslAcked = false ∧ (step exCfg exS1 exAck).st.saslAcked = true := by decide

/-! ### cap_end_once -/

/-- number of `CAP END` among queued messages -/
def ends (l : List Out) : Nat := (l.map Out.kind).count .capEnd

/-- In every reachable state the number of `CAP END` sent in the current connection epoch (ghost
`endCount`) is 0, or it is 1 and the FSM has left the negotiation phase. -/
theorem cap_end_once (cfg : Cfg) (base s : St) (r : Reach cfg base s) :
    s.endCount = 0 ∨ (s.endCount = 1 ∧ lateState s.fsm = true) :=
  (absInv_end cfg).reach r

/-- The ghost counter counts exactly the `CAP END` lines put on the queue: within an epoch it grows by
their number, and after a reset inside the step (real driver only) it equals the number queued since. -/
theorem cap_end_counted (cfg : Cfg) (s : St) (m : Msg) (hq : s.fastq = []) :
    ((step cfg s m).st.epoch = s.epoch ∧ (step cfg s m).st.endCount = s.endCount + ends (step cfg s m).fast) ∨
    (s.epoch < (step cfg s m).st.epoch ∧ cfg.realDriver = true ∧ (step cfg s m).st.endCount = ends (step cfg s m).fast) := by
  obtain ⟨extra, _, hcase⟩ := grown_of_moves (ref_feedMsg (cfg := cfg) m s)
  have hk : (α s).kinds = [] := by simp [α, hq]
  have hc : (connectKinds cfg).count .capEnd = 0 := by
    rw [List.count_eq_zero]; intro hc; rcases connectKinds_mem hc with h | h <;> cases h
  rcases hcase with ⟨h1, h2, h3⟩ | ⟨h1, h2, h3, h4⟩
  · left
    rw [hk, List.nil_append] at h2
    exact ⟨h1, by show (α (feedMsg cfg m s).st).endCount = _; rw [h3]; unfold ends; show _ = _ + List.count _ (α (feedMsg cfg m s).st).kinds; rw [h2]; rfl⟩
  · right
    refine ⟨h1, h2, ?_⟩
    show (α (feedMsg cfg m s).st).endCount = List.count _ (α (feedMsg cfg m s).st).kinds
    rw [h4, h3, List.count_append, hc, Nat.zero_add]

/-- A `CAP END` queued without an intervening reset comes from a step that started in
INIT_CAP_NEGOTIATION (ACK/NAK/LS handling) or INIT_SASL (903–907 ending the exchange), and leaves the FSM
past the negotiation: no authentication is in progress when it is sent. -/
theorem cap_end_from_negotiation (cfg : Cfg) (s : St) (m : Msg) (hq : s.fastq = [])
    (he : (step cfg s m).st.epoch = s.epoch) (h : Out.capEnd ∈ (step cfg s m).fast) :
    (s.fsm = .INIT_CAP_NEGOTIATION ∨ s.fsm = .INIT_SASL) ∧ 2 ≤ rank (step cfg s m).st.fsm := by
  have hcnt : 0 < ends (step cfg s m).fast := by
    unfold ends; rw [List.count_pos_iff]; simp only [List.mem_map]; exact ⟨_, h, rfl⟩
  have hlt : s.endCount < (step cfg s m).st.endCount := by
    rcases cap_end_counted cfg s m hq with ⟨_, h2⟩ | ⟨h1, _, _⟩ <;> omega
  exact capEnd_origin (ref_feedMsg (cfg := cfg) m s) he hlt

example : Out.capEnd ∈ (step exCfg exS3 ex903).fast ∧ (step exCfg exS3 ex903).st.epoch = exS3.epoch ∧ exS3.fastq = [] := by decide

/-- The same along every history of the real SocketDriver (`SocketDriver(irc)`, then any number of `run()`s
with arbitrary clocks, due / not-due reconnects and recv() chunks): at most one CAP END per epoch. -/
theorem cap_end_once_real (cfg : Cfg) (hr : cfg.realDriver = true) (base s : St) (r : DReach cfg base s) :
    s.endCount = 0 ∨ (s.endCount = 1 ∧ lateState s.fsm = true) :=
  (absInv_end cfg).dreach hr r

/-- … and SASL traffic only in an epoch in which `sasl` was acknowledged. -/
theorem sasl_after_ack_real (cfg : Cfg) (hr : cfg.realDriver = true) (base s : St) (r : DReach cfg base s) :
    (isSaslState s.fsm = true → s.saslAcked = true) ∧ (∀ o ∈ s.fastq, o.kind.sasl = true → s.saslAcked = true) := by
  have h := (absInv_sasl cfg).dreach hr r
  exact ⟨h.2.1, fun o ho hk => h.2.2.1 o.kind (by simp only [α, List.mem_map]; exact ⟨o, ho, rfl⟩) hk⟩

/-! ### "no request outstanding" at CAP END: false for servers that send CAP NEW / CAP DEL mid-negotiation

Full statement (FALSE on the pinned tree, known finding C08-capend-outstanding):
  `∀ s m, Reach cfg base s → Out.capEnd ∈ (step cfg s m).fast →
      subset (step cfg s m).st.req ((step cfg s m).st.ack ++ (step cfg s m).st.nak) = true`
Proved below: the negation on a concrete reachable history (`CAP NEW` during INIT_SASL, then 903).  What
does hold for every history is `cap_end_from_negotiation` (no authentication in progress) and
`cap_end_once`. -/

/-- `CAP * LS :sasl`, `CAP * ACK :sasl`, `CAP * NEW :batch` -/
def exLsSasl : Msg := ⟨sCAP, [exStar, ['L','S'], sSasl], []⟩
def exAckSasl : Msg := ⟨sCAP, [exStar, ['A','C','K'], sSasl], []⟩
def exNewBatch : Msg := ⟨sCAP, [exStar, ['N','E','W'], ['b','a','t','c','h']], []⟩
def exW1 : St := (step exCfg exS0 exLsSasl).st
def exW2 : St := (step exCfg exW1 exAckSasl).st
def exW3 : St := (step exCfg exW2 exNewBatch).st
def exW4 : St := (step exCfg exW3 exAuth).st

theorem exW4_reach : Reach exCfg {} exW4 :=
  .op (.msg exAuth) (.op (.msg exNewBatch) (.op (.msg exAckSasl) (.op (.msg exLsSasl) .start)))

/-- counter-example to the full statement: CAP END is queued while `batch` is requested and unanswered -/
theorem cap_end_outstanding_witness :
    Out.capEnd ∈ (step exCfg exW4 ex903).fast ∧
    subset (step exCfg exW4 ex903).st.req ((step exCfg exW4 ex903).st.ack ++ (step exCfg exW4 ex903).st.nak) = false := by
  decide

/-! ### reset_fresh -/

/-- the CAP / SASL / FSM / nick fields and the queues -/
def visible (s : St) :=
  (s.fsm, s.ls, s.req, s.ack, s.nak, s.saslNext, s.saslCur, s.saslAuth, s.dec, s.nick, s.altNicks, s.tried,
   s.afterConnect, s.fastq, s.slowq, s.endCount, s.saslAcked, s.saslSent, s.scramStep, s.wanted)

/-- After `Irc.reset()` — from any state whatsoever — every CAP/SASL/FSM/nick field and both queues are
exactly what a newly constructed `Irc` has. -/
theorem reset_fresh (cfg : Cfg) (s base : St) : visible (ircReset cfg s) = visible (initSt cfg base) := rfl

/-! ### epoch_clean: nothing computed from connection n's input is sent on connection n+1

With the real SocketDriver a new socket is opened (a) by the driver's own scheduled reconnect, or (b) at
once, from inside a handler, by `driver.reconnect()` without `wait` — which only `Irc.doError` does
("closing link").  In both cases `Irc.reset()` runs immediately before the connect and nothing touches
the Irc object in between, so the object that talks on the new socket is a fresh one, with exactly the
connect messages queued; `_read` then drops the rest of the old chunk (`feedLines_stops`) and
`_sendIfMsgs` writes the queue to the new socket (`flush_wire`). -/

theorem visible_connectTo (cfg : Cfg) (srv : Server) (s : St) : visible (connectTo cfg srv s) = visible s := by
  unfold connectTo; simp only; split <;> rfl

theorem visible_drvConnect (cfg : Cfg) (srv : Option Server) (s : St) : visible (drvConnect cfg srv s) = visible s := by
  unfold drvConnect
  cases srv with
  | some x => exact visible_connectTo cfg x s
  | none =>
    simp only
    cases h : getNextServer cfg s with
    | none => rfl
    | some p =>
      obtain ⟨x, s'⟩ := p
      simp only
      rw [visible_connectTo]
      show visible s' = visible s
      unfold getNextServer at h
      split at h
      · cases h
      · unfold applyStsPolicy at h
        split at h
        · injection h with h; injection h with _ h; subst h; rfl
        · split at h
          · split at h <;> (injection h with h; injection h with _ h; subst h; rfl)
          · cases h

/-- (a) the scheduled reconnect: the Irc object is fresh when the new socket is opened -/
theorem epoch_clean_scheduled (cfg : Cfg) (srv : Option Server) (s base : St) :
    visible (realReconnect cfg false srv s) = visible (initSt cfg base) := by
  unfold realReconnect
  simp only [Bool.false_eq_true, if_false]
  rw [visible_drvConnect]; rfl

/-- only the handling of `ERROR` opens a socket in the middle of a message -/
theorem new_socket_only_by_error (cfg : Cfg) (s : St) (m : Msg)
    (h : (feedMsg cfg m s).st.drv.sock ≠ s.drv.sock) : dispatch m = .error := by
  by_cases hk : handlerKinds (dispatch m) .connPerm = true
  · revert hk; cases dispatch m <;> simp [handlerKinds]
  · exact absurd (sock_moves (by simpa using hk) (ref_feedMsg (cfg := cfg) m s)) h

theorem nickSetter_sock (m : Msg) (s : St) : (nickSetter m s).st.drv.sock = s.drv.sock := by
  unfold nickSetter; split
  · split <;> rfl
  · rfl

theorem drvReconnect_wait_sock (cfg : Cfg) (srv : Option Server) (s : St) :
    (drvReconnect cfg true srv s).drv.sock = s.drv.sock := by
  unfold drvReconnect
  split
  · have hr : ∀ t : St, (ircReset cfg t).drv = t.drv := by
      intro t; unfold ircReset queueConnectMessages transition clearForReset resetSasl
      simp only; split <;> rfl
    simp only [realReconnect, if_true, drvSchedule, hr, drvDisconnect]
    split <;> rfl
  · rfl

theorem doError_cases (cfg : Cfg) (args : List Str) (s : St) :
    (doError cfg args s).st = s ∨ (doError cfg args s).st = drvReconnect cfg true none s ∨
    (doError cfg args s).st = drvReconnect cfg false none s := by
  unfold doError
  split
  · exact .inl rfl
  · split
    · exact .inr (.inr rfl)
    · split
      · exact .inr (.inl rfl)
      · exact .inl rfl

theorem feedMsg_error_st (cfg : Cfg) (s : St) (m : Msg) (hd : dispatch m = .error) :
    (feedMsg cfg m s).st = (nickSetter m s).st ∨
    (feedMsg cfg m s).st = (doError cfg m.args (nickSetter m s).st).st := by
  have hcb : ∀ t : St, callbacks cfg m t = t := by
    intro t; unfold callbacks; rw [hd]; simp
  have hrun : ∀ t : St, runHandler cfg m t = doError cfg m.args t := by
    intro t; unfold runHandler; rw [hd]
  unfold feedMsg R.bind
  cases (nickSetter m s).exc with
  | some e => exact .inl rfl
  | none =>
    simp only [hrun]
    cases (doError cfg m.args (nickSetter m s).st).exc with
    | some e => exact .inr rfl
    | none => right; simp only [ok, hcb]

/-- (b) epoch_clean: whenever the handling of a server message opens a new socket, every CAP/SASL/FSM/nick
field and both queues of the Irc object are those of a newly constructed `Irc` — only the connect
messages are waiting for the new connection.  For every state, configuration and message. -/
theorem epoch_clean (cfg : Cfg) (s base : St) (m : Msg) (h : (feedMsg cfg m s).st.drv.sock ≠ s.drv.sock) :
    visible (feedMsg cfg m s).st = visible (initSt cfg base) := by
  have hd := new_socket_only_by_error cfg s m h
  rcases feedMsg_error_st cfg s m hd with he | he
  · rw [he] at h; exact absurd (nickSetter_sock m s) h
  · rw [he] at h ⊢
    rcases doError_cases cfg m.args (nickSetter m s).st with hc | hc | hc
    · rw [hc] at h; exact absurd (nickSetter_sock m s) h
    · rw [hc, drvReconnect_wait_sock] at h; exact absurd (nickSetter_sock m s) h
    · rw [hc] at h ⊢
      unfold drvReconnect at h ⊢
      split
      · exact epoch_clean_scheduled cfg none _ base
      · rename_i hr
        rw [if_neg hr] at h
        exact absurd (nickSetter_sock m s) h

/-- `ERROR :Closing link` on the real driver -/
def exErr : Msg := ⟨sERROR, ["Closing link: bye".toList], []⟩
def exReal : Cfg := { exCfg with realDriver := true, servers := [⟨"h".toList, 6667, none, false⟩] }
def exD0 : St := drvStart exReal (initSt exReal {})
def exD1 : St := (step exReal (drain exD0) exLs).st
example : (feedMsg exReal exErr exD1).st.drv.sock ≠ exD1.drv.sock ∧ exD1.req ≠ [] := by decide

/-- `_read` stops feeding the chunk as soon as a handler made the driver leave the connection -/
theorem feedLines_stops (cfg : Cfg) (m : Msg) (ms : List Msg) (s : St)
    (h : (feedMsg cfg m s).st.drv.sock ≠ s.drv.sock ∨ (feedMsg cfg m s).st.drv.connected = false) :
    feedLines cfg (m :: ms) s = (feedMsg cfg m s).st := by
  simp only [feedLines]
  rw [if_pos h]

/-- `_sendIfMsgs`: everything queued goes to the current socket, in order; nothing when not connected -/
theorem flush_wire (s : St) (h : s.drv.connected = true) :
    (flush s).wire = s.wire ++ (s.fastq ++ s.slowq).map (fun o => (s.drv.sock, o)) ∧ (flush s).fastq = [] ∧ (flush s).slowq = [] := by
  simp [flush, h]

/-! ### progress: against a conformant server the bot never is the one that stalls

`PReach cfg base v3 s v` (Progress.lean): the joint histories of the bot and a protocol-conformant server
(`SrvMove`: final/continued CAP LS while it is owed; one ACK or NAK with the same list for the oldest
unanswered CAP REQ; `AUTHENTICATE +`/challenge, 903, 904–907, 908 while a SASL answer is owed; 432/433/437
before the welcome; 001…005, 375, 376 / 422 in order once the client ended the negotiation — or from the
start when the server has no capability negotiation; PING and unhandled notices at any time).
`Owes v`: the server still has such a move to make.  Stub-driver semantics: `driver.reconnect()` ends the
connection epoch (`v.aborted`). -/

/-- In every jointly reachable situation the bot is connected (end of MOTD seen, `afterConnect`), or it
aborted deliberately (`driver.reconnect`), or the conformant server still owes it an answer: the bot
never waits for something a conformant server will not send — except in the one situation of the recorded
finding C08-req-after-end (`v.reopened`: a CAP NEW arrived after the bot's CAP END while the registration
was still incomplete, the bot answered with a CAP REQ, which suspends the registration again, and never sends
the second CAP END the server now waits for; `req_after_end_witness`). -/
theorem progress (cfg : Cfg) (hd : cfg.realDriver = false) (base : St) (v3 : Bool) (s : St) (v : View)
    (r : PReach cfg base v3 s v) : s.afterConnect = true ∨ v.aborted = true ∨ Owes v ∨ v.reopened = true := by
  rcases inv_preach hd r with h | h | h | ⟨_, _, hp⟩
  · exact .inr (.inl h)
  · exact .inl h
  · exact .inr (.inr (.inr h))
  · exact .inr (.inr (.inl (owes_of_phase hp)))

/-- Spelled out: when nothing is owed any more, the registration is complete or was abandoned. -/
theorem no_stuck_state (cfg : Cfg) (hd : cfg.realDriver = false) (base : St) (v3 : Bool) (s : St) (v : View)
    (r : PReach cfg base v3 s v) (hls : v.v3 = true → v.lsOwed = false ∧ v.reqs = [] ∧ v.auth.owed = false)
    (hw : canWelcome v = true → 7 ≤ v.stage) (hro : v.reopened = false) : s.afterConnect = true ∨ v.aborted = true := by
  rcases progress cfg hd base v3 s v r with h | h | h | h
  · exact .inl h
  · exact .inr h
  · exfalso
    rcases h with ⟨h3, h⟩ | ⟨hc, hs⟩
    · obtain ⟨a, b, c⟩ := hls h3
      rcases h with h | h | h
      · rw [a] at h; cases h
      · exact h b
      · rw [c] at h; cases h
    · have := hw hc; omega
  · rw [hro] at h; cases h

/-- The part of "CAP END only when no request is outstanding" that does hold (the full statement is
refuted by `cap_end_outstanding_witness`): against a conformant server — split ACK / NAK answers, CAP NEW and
CAP DEL during the negotiation included — once CAP END has been sent every capability the bot requested has
been ACKed or NAKed, in every joint history, unless a CAP NEW arrived after the bot asked for a SASL mechanism
(`lateNew`: the one situation in which the code ends the negotiation without looking at its requests). -/
theorem cap_end_nothing_outstanding_partial (cfg : Cfg) (hd : cfg.realDriver = false) (base : St) (v3 : Bool) (s : St)
    (v : View) (r : PReach cfg base v3 s v) (hna : v.aborted = false) (hac : s.afterConnect = false)
    (he : v.ended = true) (hnew : v.lateNew = false) (hro : v.reopened = false) : ∀ c ∈ s.req, c ∈ s.ack ∨ c ∈ s.nak := by
  rcases inv_preach hd r with h | h | h | ⟨_, _, hp⟩
  · rw [hna] at h; cases h
  · rw [hac] at h; cases h
  · rw [hro] at h; cases h
  · cases hp with
    | neg _ he' _ _ _ _ _ _ _ _ => rw [he] at he'; cases he'
    | sasl _ he' _ _ _ _ _ _ _ _ _ _ => rw [he] at he'; cases he'
    | waiting _ _ _ _ _ _ hres => exact hres hnew
    | nocap _ _ _ _ hreq => intro c hc; rw [show s.req = (bot s).req from rfl, hreq] at hc; cases hc
    | motd _ _ _ _ _ hres => exact hres hnew

/-- What holds in every case, a late CAP NEW included: nothing the bot requested is ever lost track of — it is
acknowledged, refused, or part of a CAP REQ line the conformant server has yet to answer; and every such line
is non-empty, so the server does owe that answer. -/
theorem cap_requests_accounted (cfg : Cfg) (hd : cfg.realDriver = false) (base : St) (v3 : Bool) (s : St)
    (v : View) (r : PReach cfg base v3 s v) (hna : v.aborted = false) (hac : s.afterConnect = false) (hro : v.reopened = false) :
    (∀ c ∈ s.req, c ∈ s.ack ∨ c ∈ s.nak ∨ c ∈ v.reqs.flatten) ∧ (∀ l ∈ v.reqs, l ≠ []) := by
  rcases inv_preach hd r with h | h | h | ⟨_, hc, _⟩
  · rw [hna] at h; cases h
  · rw [hac] at h; cases h
  · rw [hro] at h; cases h
  · exact ⟨hc.acc, hc.ne⟩

/-- `authenticate_generator` for every text: full-size lines followed by one final line that is shorter
than AUTHENTICATE_CHUNK_SIZE, or `+` when nothing is left; concatenated (terminator dropped) they spell the
text.  `progress` uses it: the server (which takes a full-size line as "more follows") always ends up with a
complete answer in front of it. -/
theorem chunks_terminate (a : Str) :
    ChunksOk Gen.Conn.authenticateChunkSize a (authChunks Gen.Conn.authenticateChunkSize a) :=
  chunks_ok _ (by have := tabP_chunk; omega) a

/-- every answer `sendSaslString` queues is complete: credentials lines only, the last one not full-size -/
theorem sasl_answer_complete (bytes : List Nat) (s : St) :
    ∃ outs, Answer outs ∧ sendSaslString bytes s = { s with fastq := s.fastq ++ outs, saslSent := true } :=
  sendSasl_sends bytes s

example : authChunks 4 "abcdefgh".toList = ["abcd".toList, "efgh".toList, sPlus] := by decide
example : authChunks 4 "abcdef".toList = ["abcd".toList, "ef".toList] := by decide
example : authChunks 4 [] = [sPlus] := by decide

/-! non-vacuity of `progress`: a complete conformant registration with SASL PLAIN, step by step -/

def jn : Str := []
def jBot : Str := ['b','o','t']
def jS0 := start exCfg {}
def jV0 : View := seeStep { v3 := true } jS0
def jS1 := step exCfg jS0.st ⟨sCAP, [exStar, sLS, sSasl], jn⟩
def jV1 : View := seeStep { jV0 with lsOwed := false, avail := jV0.avail ++ lsKeys sSasl } jS1
def jS2 := step exCfg jS1.st ⟨sCAP, [exStar, sACK, sSasl], jn⟩
def jV2 : View := seeStep { jV1 with reqs := reqsAfter (splitWs sSasl) [sSasl] [] } jS2
def jS3 := step exCfg jS2.st ⟨sAUTHENTICATE, [sPlus], jn⟩
def jV3 : View := seeStep { jV2 with auth := .none, rounds := jV2.rounds + 1 } jS3
def jS4 := step exCfg jS3.st ⟨num '9' '0' '3', [], jn⟩
def jV4 : View := seeStep { jV3 with auth := .none } jS4
def jS5 := step exCfg jS4.st ⟨welcomeNumeric 1, jBot :: [], jn⟩
def jV5 : View := seeStep { jV4 with stage := 1 } jS5
def jS6 := step exCfg jS5.st ⟨welcomeNumeric 2, jBot :: [], jn⟩
def jV6 : View := seeStep { jV5 with stage := 2 } jS6
def jS7 := step exCfg jS6.st ⟨welcomeNumeric 3, jBot :: [], jn⟩
def jV7 : View := seeStep { jV6 with stage := 3 } jS7
def jS8 := step exCfg jS7.st ⟨welcomeNumeric 4, jBot :: [], jn⟩
def jV8 : View := seeStep { jV7 with stage := 4 } jS8
def jS9 := step exCfg jS8.st ⟨welcomeNumeric 5, jBot :: [], jn⟩
def jV9 : View := seeStep { jV8 with stage := 5 } jS9
def jS10 := step exCfg jS9.st ⟨num '3' '7' '5', jBot :: [], jn⟩
def jV10 : View := seeStep { jV9 with stage := 6 } jS10
def jS11 := step exCfg jS10.st ⟨num '3' '7' '6', jBot :: [], jn⟩
def jV11 : View := seeStep { jV10 with stage := 7 } jS11

theorem jR4 : PReach exCfg {} true jS4.st jV4 :=
  .step (.step (.step (.step .start (by decide) (.lsFinal jV0 exStar sSasl jn (by decide) (by decide)))
    (by decide) (.ack jV1 exStar sSasl jn [sSasl] [] (by decide) (by decide) (by decide) (by decide) (by decide)))
    (by decide) (.authContinue jV2 sPlus jn (by decide) (by decide) (by decide) (.inl rfl)))
    (by decide) (.authOk jV3 [] jn (by decide) (by decide))

theorem jR11 : PReach exCfg {} true jS11.st jV11 :=
  .step (.step (.step (.step (.step (.step (.step jR4
    (by decide) (.welcome jV4 1 jBot [] jn (by decide) (by decide) (by decide)))
    (by decide) (.welcome jV5 2 jBot [] jn (by decide) (by decide) (by decide)))
    (by decide) (.welcome jV6 3 jBot [] jn (by decide) (by decide) (by decide)))
    (by decide) (.welcome jV7 4 jBot [] jn (by decide) (by decide) (by decide)))
    (by decide) (.welcome jV8 5 jBot [] jn (by decide) (by decide) (by decide)))
    (by decide) (.motdStart jV9 jBot [] jn (by decide) (by decide)))
    (by decide) (.motdEnd jV10 jBot [] jn (by decide) (by decide))

/-- the history is a joint history of the bot and a conformant server, it ends connected, and on the
way the server owed something at every step -/
example : jS11.st.afterConnect = true ∧ jV11.aborted = false ∧ jS4.st.fsm = .INIT_WAITING_MOTD ∧ jV2.auth = .mech := by decide

/-- and `cap_end_nothing_outstanding_partial` is not vacuous: after CAP END (`jV4.ended`), not aborted, not yet connected -/
example : jV4.ended = true ∧ jV4.aborted = false ∧ jS4.st.afterConnect = false ∧ jS4.st.req = [sSasl] := by decide

/-! ### JOIN (Owner.do376 / do377 / do422) only after the end of the MOTD was handled

`callbacks` models Owner's handler of 376 / 377 / 422: it runs after `Irc.do376` returned normally and
queues the configured JOINs on the normal queue. -/

theorem ev_ircReset (cfg : Cfg) (t : St) : (ircReset cfg t).ev = t.ev := by
  unfold ircReset queueConnectMessages transition clearForReset resetSasl
  simp only; split <;> rfl

theorem drvReconnect_wait_ev (cfg : Cfg) (srv : Option Server) (s : St) : (drvReconnect cfg true srv s).ev ≠ [] := by
  unfold drvReconnect
  split
  · unfold realReconnect
    simp only [if_true, drvSchedule, ev_ircReset]
    unfold drvDisconnect
    split <;> simp [event]
  · simp [event]

/-- Irc.do376: it completes (`afterConnect`), or it drops the connection, or it raises and changes nothing -/
theorem do376_result (cfg : Cfg) (s : St) :
    ((do376 cfg s).exc = none ∧ ((do376 cfg s).st.afterConnect = true ∨ (do376 cfg s).st.ev ≠ [])) ∨
    ((do376 cfg s).exc ≠ none ∧ (do376 cfg s).st = s) := by
  unfold do376
  by_cases hm : saslMissing cfg s = true
  · rw [if_pos hm]; exact .inl ⟨rfl, .inr (drvReconnect_wait_ev cfg none s)⟩
  · rw [if_neg hm]
    unfold transition
    simp only
    by_cases hg : Gen.Conn.guardEndMotd.contains s.fsm = true
    · simp only [hg, if_true, bind_ok]; exact .inl ⟨rfl, .inl rfl⟩
    · simp only [hg]; exact .inr ⟨by simp [raise, R.bind], rfl⟩

theorem nickSetter_slowq (m : Msg) (s : St) : (nickSetter m s).st.slowq = s.slowq := by
  unfold nickSetter; split
  · split <;> rfl
  · rfl

/-- The JOINs are put on the queue only by the step that handles 376 / 377 / 422, and only when `Irc.do376`
completed in that step (`afterConnect` is set) or dropped the connection in it (a driver call is recorded: with
the real driver that reconnect has reset the Irc object and closed the socket, see `join_only_after_motd_real`)
— for every state without a waiting JOIN, every configuration and every server message. -/
theorem join_needs_motd_end (cfg : Cfg) (s : St) (m : Msg) (hq : Out.join ∉ s.slowq)
    (h : Out.join ∈ (step cfg s m).slow) :
    dispatch m = .n376 ∧ ((step cfg s m).st.afterConnect = true ∨ (step cfg s m).events ≠ []) := by
  have hslow : (step cfg s m).slow = (feedMsg cfg m s).st.slowq := rfl
  have hj : (α (feedMsg cfg m s).st).joinQ = true := by
    rw [hslow] at h; simpa [α] using h
  by_cases hd : dispatch m = .n376
  · refine ⟨hd, ?_⟩
    show (feedMsg cfg m s).st.afterConnect = true ∨ (feedMsg cfg m s).st.ev ≠ []
    rw [hslow] at h
    unfold feedMsg R.bind at h ⊢
    cases hn : (nickSetter m s).exc with
    | some e =>
      simp only [hn] at h
      rw [nickSetter_slowq] at h; exact absurd h hq
    | none =>
      simp only [hn] at h ⊢
      have hrun : runHandler cfg m (nickSetter m s).st = do376 cfg (nickSetter m s).st := by
        unfold runHandler; rw [hd]
      rw [hrun] at h ⊢
      rcases do376_result cfg (nickSetter m s).st with ⟨he, hres⟩ | ⟨he, hst⟩
      · simp only [he] at h ⊢
        have h1 : (callbacks cfg m (do376 cfg (nickSetter m s).st).st).afterConnect = (do376 cfg (nickSetter m s).st).st.afterConnect := by
          unfold callbacks; split <;> rfl
        have h2 : (callbacks cfg m (do376 cfg (nickSetter m s).st).st).ev = (do376 cfg (nickSetter m s).st).st.ev := by
          unfold callbacks; split <;> rfl
        simp only [ok, h1, h2]; exact hres
      · cases hx : (do376 cfg (nickSetter m s).st).exc with
        | none => exact absurd hx he
        | some e =>
          simp only [hx] at h
          rw [hst, nickSetter_slowq] at h; exact absurd h hq
  · exfalso
    have hk : handlerKinds (dispatch m) .joinPerm = false := by revert hd; cases dispatch m <;> simp [handlerKinds]
    have := noJoin_moves hk (ref_feedMsg (cfg := cfg) m s) hj
    exact hq (by simpa [α] using this)

/-- Along every history of the real SocketDriver: the ghost flag `joinBad` — set by `_sendIfMsgs` when it
writes a JOIN to a socket while `afterConnect` is not set — is never raised.  (A JOIN queued by Owner after
`Irc.do376` dropped the connection waits on a closed connection and is discarded by the reset that precedes
the next connect.) -/
theorem join_only_after_motd_real (cfg : Cfg) (hr : cfg.realDriver = true) (base s : St) (r : DReach cfg base s) :
    s.joinBad = base.joinBad := by
  have h0 : JoinOk cfg base.joinBad (α (initSt cfg base)) := by
    rw [α_initSt]
    exact ⟨⟨fun _ hq => by simp [freshAbs] at hq, connectKinds_noSide cfg⟩, rfl⟩
  exact ((dInv_join cfg hr base.joinBad).dreach hr h0 r).2

/-- what the flag means: one `_sendIfMsgs` raises it exactly when the driver is connected, a JOIN is among the
messages it writes, and `afterConnect` is not set -/
theorem joinBad_flush (s : St) :
    (flush s).joinBad = (s.joinBad || (s.drv.connected && ((s.fastq ++ s.slowq).contains .join && !s.afterConnect))) := by
  unfold flush
  split
  · rename_i hc; simp [hc]
  · rename_i hc
    have : s.drv.connected = false := by simpa using hc
    simp [this]

/-! ### STS along real-driver histories: no downgrade -/

/-- Along every history of the real SocketDriver (started with a driver that is not connected yet): whenever the
driver is connected to a host for which an STS policy is stored, the connection is one the bot considers
verified TLS — forced by the policy (TLS with certificate verification, `C09.forced_tls_verified`), or `ssl`
with a certificate validation of the operator's own.  In particular a policy stored on a verified connection is
never followed by an unverified connection to that host while it is stored. -/
theorem sts_no_downgrade_real (cfg : Cfg) (hr : cfg.realDriver = true) (base s : St) (hb : base.drv.connected = false)
    (r : DReach cfg base s) (hc : s.drv.connected = true)
    (hp : (dictGet s.db.policies s.drv.current.host).isSome = true) : secureConn cfg s = true := by
  have h0 : StsInv cfg (α (initSt cfg base)) := by
    rw [α_initSt]; intro hc'; simp [freshAbs, α, hb] at hc'
  have := (dInv_sts cfg).dreach hr h0 r hc hp
  simpa [aSecure, secureConn, α] using this

/-! ### non-vacuity of the widened `progress`: split answers, CAP NEW and CAP DEL during the negotiation -/

def sBatch : Str := ['b','a','t','c','h']
def sChghost : Str := ['c','h','g','h','o','s','t']
def sSetname : Str := ['s','e','t','n','a','m','e']
/-- a configuration without SASL credentials -/
def kCfg : Cfg := { exCfg with mechanisms := [] }
def kS0 := start kCfg {}
def kV0 : View := seeStep { v3 := true } kS0
/-- `CAP * LS :batch chghost` → `CAP REQ :batch chghost` -/
def kLs : Str := sBatch ++ [' '] ++ sChghost
def kS1 := step kCfg kS0.st ⟨sCAP, [exStar, sLS, kLs], jn⟩
def kV1 : View := seeStep { kV0 with lsOwed := false, avail := kV0.avail ++ lsKeys kLs } kS1
/-- `CAP * ACK :batch` — the first line of a split answer -/
def kS2 := step kCfg kS1.st ⟨sCAP, [exStar, sACK, sBatch], jn⟩
def kV2 : View := seeStep { kV1 with reqs := reqsAfter (splitWs sBatch) [sBatch, sChghost] [] } kS2
/-- `CAP * NEW :setname` → `CAP REQ :chghost setname` -/
def kS3 := step kCfg kS2.st ⟨sCAP, [exStar, sNEW, sSetname], jn⟩
def kV3 : View := seeStep { kV2 with avail := kV2.avail ++ lsKeys sSetname, lateNew := kV2.lateNew || kV2.auth.owed || kV2.ended } kS3
/-- `CAP * ACK :chghost` — the rest of the split answer -/
def kS4 := step kCfg kS3.st ⟨sCAP, [exStar, sACK, sChghost], jn⟩
def kV4 : View := seeStep { kV3 with reqs := reqsAfter (splitWs sChghost) [sChghost] [[sChghost, sSetname]] } kS4
/-- `CAP * DEL :batch` -/
def kS5 := step kCfg kS4.st ⟨sCAP, [exStar, sDEL, sBatch], jn⟩
def kV5 : View := seeStep { kV4 with avail := kV4.avail.filter (fun c => !(delKeys sBatch).contains c) } kS5
/-- `CAP * ACK :chghost setname` → `CAP END` -/
def kAck2 : Str := sChghost ++ [' '] ++ sSetname
def kS6 := step kCfg kS5.st ⟨sCAP, [exStar, sACK, kAck2], jn⟩
def kV6 : View := seeStep { kV5 with reqs := reqsAfter (splitWs kAck2) [sChghost, sSetname] [] } kS6

theorem kR6 : PReach kCfg {} true kS6.st kV6 :=
  .step (.step (.step (.step (.step (.step .start
    (by decide) (.lsFinal kV0 exStar kLs jn (by decide) (by decide)))
    (by decide) (.ack kV1 exStar sBatch jn [sBatch, sChghost] [] (by decide) (by decide) (by decide) (by decide) (by decide)))
    (by decide) (.capNew kV2 exStar sSetname jn (by decide) (by decide) (by decide)))
    (by decide) (.ack kV3 exStar sChghost jn [sChghost] [[sChghost, sSetname]] (by decide) (by decide) (by decide) (by decide) (by decide)))
    (by decide) (.capDel kV4 exStar sBatch jn (by decide) (by decide) (by decide)))
    (by decide) (.ack kV5 exStar kAck2 jn [sChghost, sSetname] [] (by decide) (by decide) (by decide) (by decide) (by decide))

/-- the split answer leaves the rest of the request owed; the CAP NEW makes the bot ask again; after the CAP DEL
`batch` counts as refused; the last ACK ends the negotiation with everything answered -/
example : kV2.reqs = [[sChghost]] ∧ kV3.reqs = [[sChghost], [sChghost, sSetname]] ∧ sBatch ∈ kS5.st.nak ∧
    Out.capEnd ∈ kS6.fast ∧ kV6.ended = true ∧ kV6.lateNew = false ∧ kV6.aborted = false ∧ kS6.st.afterConnect = false := by
  decide

/-! the recorded finding C08-req-after-end: the joint history above continued by a CAP NEW while the bot waits
for the welcome -/

def sMsgid : Str := ['m','s','g','i','d']
/-- `CAP * NEW :msgid` after the bot's CAP END → `CAP REQ :msgid`, which suspends the registration again -/
def kS7 := step kCfg kS6.st ⟨sCAP, [exStar, sNEW, sMsgid], jn⟩
def kV7 : View := seeStep { kV6 with avail := kV6.avail ++ lsKeys sMsgid, lateNew := kV6.lateNew || kV6.auth.owed || kV6.ended } kS7
/-- `CAP * ACK :msgid`: everything is answered -/
def kS8 := step kCfg kS7.st ⟨sCAP, [exStar, sACK, sMsgid], jn⟩
def kV8 : View := seeStep { kV7 with reqs := reqsAfter (splitWs sMsgid) [sMsgid] [] } kS8

theorem kR8 : PReach kCfg {} true kS8.st kV8 :=
  .step (.step kR6
    (by decide) (.capNew kV6 exStar sMsgid jn (by decide) (by decide) (by decide)))
    (by decide) (.ack kV7 exStar sMsgid jn [sMsgid] [] (by decide) (by decide) (by decide) (by decide) (by decide))

/-- Counter-example to `progress` without its last alternative: a joint history with a conformant server after
which the bot is not connected, has not aborted, and the server owes nothing — it waits for a CAP END the bot
(which sent `CAP REQ :msgid` after its `CAP END`, before being registered) will never send. -/
theorem req_after_end_witness :
    PReach kCfg {} true kS8.st kV8 ∧ kS8.st.afterConnect = false ∧ kV8.aborted = false ∧ ¬ Owes kV8 ∧
    kV8.reopened = true ∧ kS8.st.fsm = .INIT_WAITING_MOTD ∧ kS8.fast = [] := by
  refine ⟨kR8, by decide, by decide, ?_, by decide, by decide, by decide⟩
  unfold Owes
  have h1 : kV8.lsOwed = false := by decide
  have h2 : kV8.reqs = [] := by decide
  have h3 : kV8.auth.owed = false := by decide
  have h4 : canWelcome kV8 = false := by decide
  rw [h1, h2, h3, h4]
  simp

/-! ### SCRAM: the step machine with the library calls as parameters -/

def sScram256 : Str := "scram-sha-256".toList
def scCfg : Cfg := { exCfg with mechanisms := [sScram256, sPlain], hasScram := true, scramHashes := ["SHA-256".toList],
                                scramFirst := utf8 "n,,n=u,r=c".toList, scramFinal := some (utf8 "c=biws,r=cs,p=x".toList) }
def scAck : Msg := ⟨sCAP, [exStar, sACK, sSasl], jn⟩
def scChallenge : Msg := ⟨sAUTHENTICATE, ["cj1jcyxzPXMsaT00MDk2".toList], jn⟩
def scS2 : St := (step scCfg (step scCfg (start scCfg {}).st exLsSasl).st scAck).st
def scS3 := step scCfg scS2 exAuth
def scS4 := step scCfg scS3.st scChallenge
def scS5 := step scCfg scS4.st scChallenge
/-- client-first, client-final, `+`: one step per server message; then 903 is honoured -/
example : scS2.saslCur = some sScram256 ∧ scS3.st.scramStep = 1 ∧ scS4.st.scramStep = 2 ∧ scS5.st.scramStep = 3 ∧
    scS5.fast = [.authPayload sPlus] ∧ (step scCfg scS5.st ex903).st.saslAuth = true := by decide
/-- an unsupported hash, a rejected challenge and a bad server signature each send `AUTHENTICATE *` and nothing
else; the failure numeric that follows starts the next mechanism with a fresh SCRAM state -/
example :
    (step { scCfg with scramHashes := [] } scS2 exAuth).fast = [.authAbort] ∧
    (step { scCfg with scramFinal := none } scS3.st scChallenge).fast = [.authAbort] ∧
    (step { scCfg with scramFinish := 1 } scS4.st scChallenge).fast = [.authAbort] ∧
    (step scCfg (step { scCfg with scramFinish := 1 } scS4.st scChallenge).st ⟨num '9' '0' '6', [], jn⟩).fast = [.authMech "PLAIN".toList] ∧
    (step scCfg (step { scCfg with scramFinish := 1 } scS4.st scChallenge).st ⟨num '9' '0' '6', [], jn⟩).st.scramStep = 0 := by
  decide

/-! ### the fallback nicks of `_getNextNick`: the candidate space is not exhausted

Once the alternates are used up, `Irc._getNextNick` takes the configured nick, padded with backquotes to at
least four characters, and keeps replacing a randomly chosen position by a random digit until the result is
not in `triedNicks` (the model sends `Out.nickRandom` for it).  Whatever the padded nick looks like at that
moment, the 10 000 strings that differ from it in the last four positions, these being digits, are all
reachable by such replacements and pairwise distinct: as long as fewer than 10 000 nicks have been tried on
this connection — `triedNicks` grows by exactly one per call, i.e. per nick refusal — one of them is fresh, so
the loop ends (with probability one).  Restricting the replacements to a single position (10 candidates) is
what the seeded change C07-r3m3 did: `lastDigit_exhausted` shows that space running out. -/

def digitChar (d : Nat) : Char := Char.ofNat (48 + d)

/-- the padded nick with its last four characters replaced by the decimal digits of `k` -/
def withDigits (l : Str) (k : Nat) : Str :=
  l.take (l.length - 4) ++ [digitChar (k / 1000 % 10), digitChar (k / 100 % 10), digitChar (k / 10 % 10), digitChar (k % 10)]

theorem digitChar_inj : ∀ a, a < 10 → ∀ b, b < 10 → digitChar a = digitChar b → a = b := by decide

theorem withDigits_inj (l : Str) {a b : Nat} (ha : a < 10000) (hb : b < 10000) (h : withDigits l a = withDigits l b) : a = b := by
  unfold withDigits at h
  have h' := List.append_cancel_left h
  simp only [List.cons.injEq, and_true] at h'
  obtain ⟨h3, h2, h1, h0⟩ := h'
  have e3 := digitChar_inj _ (Nat.mod_lt _ (by decide)) _ (Nat.mod_lt _ (by decide)) h3
  have e2 := digitChar_inj _ (Nat.mod_lt _ (by decide)) _ (Nat.mod_lt _ (by decide)) h2
  have e1 := digitChar_inj _ (Nat.mod_lt _ (by decide)) _ (Nat.mod_lt _ (by decide)) h1
  have e0 := digitChar_inj _ (Nat.mod_lt _ (by decide)) _ (Nat.mod_lt _ (by decide)) h0
  omega

/-- pigeonhole: an injective enumeration of `n` candidates is not covered by a shorter list -/
theorem fresh_candidate (f : Nat → Str) : ∀ (n : Nat) (tried : List Str),
    (∀ a, a < n → ∀ b, b < n → f a = f b → a = b) → tried.length < n → ∃ k, k < n ∧ f k ∉ tried := by
  intro n
  induction n with
  | zero => intro tried _ h; omega
  | succ n ih =>
    intro tried hinj hlen
    by_cases hm : f n ∈ tried
    · have hpos : 0 < tried.length := List.length_pos_of_mem hm
      have hl : (tried.erase (f n)).length < n := by rw [List.length_erase_of_mem hm]; omega
      obtain ⟨k, hk, hf⟩ := ih (tried.erase (f n)) (fun a ha b hb => hinj a (by omega) b (by omega)) hl
      refine ⟨k, by omega, fun hc => hf ?_⟩
      have hne : f k ≠ f n := fun he => by have := hinj k (by omega) n (by omega) he; omega
      exact (List.mem_erase_of_ne hne).mpr hc
    · exact ⟨n, by omega, hm⟩

/-- For every padded nick and every set of fewer than 10 000 tried nicks there is a digit variation of the nick
(last four positions) that has not been tried. -/
theorem nick_space_not_exhausted (l : Str) (tried : List Str) (h : tried.length < 10000) :
    ∃ k, k < 10000 ∧ withDigits l k ∉ tried :=
  fresh_candidate (withDigits l) 10000 tried (fun _ ha _ hb he => withDigits_inj l ha hb he) h

/-- the variations of the last character only: ten candidates -/
def lastDigit (l : Str) (d : Nat) : Str := l.take (l.length - 1) ++ [digitChar (d % 10)]

/-- … and eleven refusals later every one of them has been tried: the loop of the seeded change never ends -/
theorem lastDigit_exhausted (l : Str) :
    ∃ tried : List Str, tried.length = 10 ∧ ∀ d, lastDigit l d ∈ tried := by
  refine ⟨(List.range 10).map (lastDigit l), by simp, fun d => ?_⟩
  simp only [List.mem_map, List.mem_range]
  exact ⟨d % 10, Nat.mod_lt _ (by decide), by simp [lastDigit]⟩

example : withDigits "bot`".toList 42 = "0042".toList ∧ withDigits "limnoria".toList 7 = "limn0007".toList := by decide

end C08
