/-
C08 — progress, part 2: the CAP LS / ACK / NAK / NEW / DEL moves of the conformant server keep the joint invariant.
-/
import LimnoriaModel.C08.ProgressBase
namespace C08
open Py
open Gen.Conn (Fsm)

/-! ### list / set / dictionary facts used by the CAP moves -/

theorem mem_union {a b : List Str} {c : Str} : c ∈ union a b ↔ c ∈ a ∨ c ∈ b := by
  unfold union
  induction b generalizing a with
  | nil => simp
  | cons x xs ih =>
    simp only [List.foldl_cons]
    split
    · rename_i hc
      rw [ih]; simp only [List.mem_cons]
      have hx : x ∈ a := by simpa using hc
      constructor
      · rintro (h | h)
        · exact .inl h
        · exact .inr (.inr h)
      · rintro (h | h | h)
        · exact .inl h
        · exact .inl (h ▸ hx)
        · exact .inr h
    · rw [ih]; simp only [List.mem_append, List.mem_cons, List.not_mem_nil, or_false]
      constructor
      · rintro ((h | h) | h)
        · exact .inl h
        · exact .inr (.inl h)
        · exact .inr (.inr h)
      · rintro (h | h | h)
        · exact .inl (.inl h)
        · exact .inl (.inr h)
        · exact .inr h

theorem subset_iff {a b : List Str} : subset a b = true ↔ ∀ x ∈ a, x ∈ b := by
  simp [subset, List.all_eq_true]

theorem dictGet_of_mem_keys {β : Type} {d : List (Str × β)} {k : Str} (h : k ∈ keys d) : ∃ v, dictGet d k = some v := by
  induction d with
  | nil => simp [keys] at h
  | cons p ps ih =>
    obtain ⟨k', v'⟩ := p
    unfold dictGet
    by_cases he : k' = k
    · exact ⟨v', by simp [he]⟩
    · simp only [he, if_false]
      simp only [keys, List.map_cons, List.mem_cons] at h
      rcases h with h | h
      · exact absurd h.symm he
      · exact ih h

theorem fillGo_ne {width : Nat} {l : List Str} : ∀ {cur : List Str} {n : Nat} {line : List Str},
    cur ≠ [] → line ∈ fillGo width l cur n → line ≠ [] := by
  induction l with
  | nil => intro cur n line hc h; simp only [fillGo, List.mem_singleton] at h; rw [h]; exact hc
  | cons w ws ih =>
    intro cur n line hc h
    unfold fillGo at h
    split at h
    · exact ih (by simp) h
    · simp only [List.mem_cons] at h
      rcases h with rfl | h
      · exact hc
      · exact ih (by simp) h

theorem fill_ne {width : Nat} {l line : List Str} (h : line ∈ fill width l) : line ≠ [] := by
  cases l with
  | nil => simp [fill] at h
  | cons w ws => exact fillGo_ne (by simp) h

theorem fillGo_covers {width : Nat} {l : List Str} : ∀ {cur : List Str} {n : Nat} {w : Str},
    (w ∈ cur ∨ w ∈ l) → ∃ line ∈ fillGo width l cur n, w ∈ line := by
  induction l with
  | nil =>
    intro cur n w h
    rcases h with h | h
    · exact ⟨cur, by simp [fillGo], h⟩
    · simp at h
  | cons x xs ih =>
    intro cur n w h
    unfold fillGo
    split
    · apply ih
      rcases h with h | h
      · exact .inl (List.mem_append_left _ h)
      · simp only [List.mem_cons] at h
        rcases h with rfl | h
        · exact .inl (by simp)
        · exact .inr h
    · rcases h with h | h
      · exact ⟨cur, List.mem_cons_self, h⟩
      · simp only [List.mem_cons] at h
        have : w ∈ [x] ∨ w ∈ xs := by
          rcases h with rfl | h
          · exact .inl (by simp)
          · exact .inr h
        obtain ⟨line, hl, hw⟩ := ih (cur := [x]) (n := x.length) this
        exact ⟨line, List.mem_cons_of_mem _ hl, hw⟩

theorem fill_covers {width : Nat} {l : List Str} {w : Str} (h : w ∈ l) : ∃ line ∈ fill width l, w ∈ line := by
  cases l with
  | nil => simp at h
  | cons x xs =>
    simp only [fill]
    apply fillGo_covers
    simp only [List.mem_cons] at h
    rcases h with rfl | h
    · exact .inl (by simp)
    · exact .inr h

theorem fill_eq_nil {width : Nat} {l : List Str} (h : fill width l = []) : l = [] := by
  cases l with
  | nil => rfl
  | cons w ws =>
    exfalso
    obtain ⟨line, hl, _⟩ := fill_covers (width := width) (l := w :: ws) (w := w) List.mem_cons_self
    rw [h] at hl; cases hl

/-- what CAP REQ lines do to the server's idea of the negotiation: from a client that is not registered yet
they suspend the registration again -/
def reopen (v : View) (lines : List (List Str)) : View :=
  if lines.isEmpty then v
  else { v with ended := v.ended && v.stage != 0, reopened := v.reopened || (v.ended && v.stage == 0) }

theorem fold_capReq (lines : List (List Str)) (v : View) :
    (lines.map Out.capReq).foldl seeOut v = { reopen v lines with reqs := v.reqs ++ lines } := by
  induction lines generalizing v with
  | nil => simp [reopen]
  | cons l ls ih =>
    simp only [List.map_cons, List.foldl_cons, seeOut, ih]
    cases ls with
    | nil => simp [reopen]
    | cons l2 ls2 =>
      simp only [reopen, List.isEmpty_cons, Bool.false_eq_true, if_false, List.append_assoc, List.singleton_append]
      cases v.ended <;> cases h : (v.stage != 0) <;> simp_all

theorem reopen_not_ended {v : View} (lines : List (List Str)) (h : v.ended = false) : reopen v lines = v := by
  unfold reopen; split
  · rfl
  · cases v; simp_all

theorem reopen_registered {v : View} (lines : List (List Str)) (h : v.stage ≠ 0) : reopen v lines = v := by
  unfold reopen; split
  · rfl
  · have : (v.stage != 0) = true := by simpa using h
    have h2 : (v.stage == 0) = false := by simpa using h
    cases v; simp_all

theorem reopen_nil (v : View) : reopen v [] = v := rfl

theorem mem_flatten_of {ls : List (List Str)} {l : List Str} {c : Str} (hl : l ∈ ls) (hc : c ∈ l) : c ∈ ls.flatten :=
  List.mem_flatten.mpr ⟨l, hl, hc⟩

/-! ### CAP LS -/

def cfields (b : Bot) := (b.saslNext, b.saslCur, b.nick, b.tried, b.afterConnect)

theorem common_congr {cfg : Cfg} {b b' : Bot} {v : View} (h : cfields b' = cfields b) (c : Common cfg b v) : Common cfg b' v := by
  simp only [cfields, Prod.mk.injEq] at h
  obtain ⟨e1, e2, e3, e4, e5⟩ := h
  exact ⟨e1 ▸ c.mechsNext, e2 ▸ c.mechsCur, fun h0 => by rw [e3, e4, e5]; exact c.nick0 h0⟩

theorem common_view {cfg : Cfg} {b : Bot} {v v' : View} (h : v'.stage = v.stage) (c : Common cfg b v) : Common cfg b v' :=
  ⟨c.mechsNext, c.mechsCur, fun h0 => c.nick0 (h ▸ h0)⟩

theorem bot_eq_mod_ls {b b' : Bot} (h : ({ b' with ls := [] } : Bot) = { b with ls := [] }) :
    cfields b' = cfields b ∧ pfields b' = pfields b ∧ b'.fsm = b.fsm ∧ b'.req = b.req ∧ b'.ack = b.ack ∧ b'.nak = b.nak := by
  cases b; cases b'
  simp only [Bot.mk.injEq] at h
  obtain ⟨h1, _, h3, h4, h5, h6, h7, h8, h9, h10, h11, h12, h13, h14, h15⟩ := h
  subst_vars
  simp [cfields, pfields]

theorem phase_neg_of_lsOwed {cfg : Cfg} {b : Bot} {v : View} (h3 : v.v3 = true) (ho : v.lsOwed = true) (p : Phase cfg b v) :
    v.ended = false ∧ v.stage = 0 ∧ b.fsm = .INIT_CAP_NEGOTIATION ∧ v.auth = .none ∧ b.saslAuth = false ∧ b.dec = none ∧
    b.req = [] ∧ b.ack = [] ∧ b.nak = [] ∧ v.reqs = [] ∧ v.lateNew = false := by
  cases p with
  | neg _ he hs hf ha hauth hd hls _ hln => obtain ⟨a, b, c, d⟩ := hls ho; exact ⟨he, hs, hf, ha, hauth, hd, a, b, c, d, hln⟩
  | sasl _ _ _ _ _ _ _ _ hl _ _ _ => rw [ho] at hl; cases hl
  | waiting _ _ _ _ _ hl _ => rw [ho] at hl; cases hl
  | nocap h3' _ _ _ _ => rw [h3] at h3'; cases h3'
  | motd _ _ _ _ hl _ => have := hl h3; rw [ho] at this; cases this

theorem doCapLs_more {cfg : Cfg} (t caps : Str) (s : St) :
    doCapLs cfg [t, sLS, sStar, caps] s = ok (addCapabilities cfg caps s) := by
  unfold doCapLs; simp

theorem doCapLs_final {cfg : Cfg} (t caps : Str) (s : St) :
    doCapLs cfg [t, sLS, caps] s = capLsFinal cfg (addCapabilities cfg caps s) := by
  unfold doCapLs; rfl

/-! what `_addCapabilities` records: every item of the line under its name (stub driver: nothing resets) -/

theorem ls_onCapSts {cfg : Cfg} (hd : cfg.realDriver = false) (policy : Str) (s : St) : (onCapSts cfg policy s).ls = s.ls := by
  unfold onCapSts
  split
  · rfl
  · split
    · rfl
    · rw [stub_reconnect hd]; rfl

theorem ls_addCapability {cfg : Cfg} (hd : cfg.realDriver = false) (s : St) (item : Str) :
    ∃ v, (addCapability cfg s item).ls = dictSet s.ls (capKey item) v := by
  unfold addCapability capKey
  cases he : split1 '=' (lstripEqTilde item) with
  | some p =>
    obtain ⟨cap, value⟩ := p
    simp only
    split
    · exact ⟨some value, by simp only [setLs, ls_onCapSts hd]⟩
    · exact ⟨some value, rfl⟩
  | none =>
    simp only
    split
    · exact ⟨none, by simp only [setLs]; rw [stub_reconnect hd]; rfl⟩
    · exact ⟨none, rfl⟩

theorem keys_addCapabilities {cfg : Cfg} (hd : cfg.realDriver = false) (l : List Str) (s : St) :
    (∀ c ∈ keys s.ls, c ∈ keys (l.foldl (addCapability cfg) s).ls) ∧
    (∀ c ∈ l.map capKey, c ∈ keys (l.foldl (addCapability cfg) s).ls) := by
  induction l generalizing s with
  | nil => exact ⟨fun _ h => h, fun _ h => by cases h⟩
  | cons x xs ih =>
    simp only [List.foldl_cons]
    obtain ⟨v, hv⟩ := ls_addCapability hd s x
    obtain ⟨i1, i2⟩ := ih (addCapability cfg s x)
    refine ⟨fun c hc => i1 c (by rw [hv]; exact keys_dictSet _ _ _ c hc), fun c hc => ?_⟩
    simp only [List.map_cons, List.mem_cons] at hc
    rcases hc with rfl | hc
    · exact i1 _ (by rw [hv]; exact mem_keys_dictSet _ _ _)
    · exact i2 c hc

/-- every name a CAP LS / CAP NEW line advertises is a key of `capabilities_ls` afterwards -/
theorem lsKeys_recorded {cfg : Cfg} (hd : cfg.realDriver = false) (caps : Str) (s : St) :
    ∀ c ∈ lsKeys caps, c ∈ keys (addCapabilities cfg caps s).ls :=
  (keys_addCapabilities hd (splitWs caps) s).2

theorem caps_avail_grow {b b' : Bot} {v : View} {extra : List Str} (hb : ({ b' with ls := [] } : Bot) = { b with ls := [] })
    (hk : ∀ k ∈ keys b.ls, k ∈ keys b'.ls) (hx : ∀ c ∈ extra, c ∈ keys b'.ls) (c : Caps b v) :
    Caps b' { v with avail := v.avail ++ extra } := by
  obtain ⟨_, _, _, e_req, e_ack, e_nak⟩ := bot_eq_mod_ls hb
  refine ⟨by rw [e_req, e_ack, e_nak]; exact c.acc, by rw [e_ack]; exact fun x hx' => hk x (c.ackKeys x hx'), ?_, c.ne⟩
  intro x hx'
  simp only [List.mem_append] at hx'
  rcases hx' with h | h
  · exact hk x (c.avail x h)
  · exact hx x h

theorem pres_lsMore {cfg : Cfg} (hd : cfg.realDriver = false) {s : St} {v : View} (t caps n : Str)
    (h3 : v.v3 = true) (ho : v.lsOwed = true) (hq : s.fastq = [] ∧ s.ev = []) (ha : v.aborted = false)
    (h : Common cfg (bot s) v ∧ Caps (bot s) v ∧ Phase cfg (bot s) v) :
    Inv cfg (step cfg s ⟨sCAP, [t, sLS, sStar, caps], n⟩).st
      (seeStep { v with avail := v.avail ++ lsKeys caps } (step cfg s ⟨sCAP, [t, sLS, sStar, caps], n⟩)) := by
  obtain ⟨hcm, hcp, hp⟩ := h
  obtain ⟨f1, f2, f3⟩ := step_facts (cfg := cfg) s s ⟨sCAP, [t, sLS, sStar, caps], n⟩
    (nickSetter_plain _ _ (show Gen.Conn.nickSetters.contains sCAP = false by decide))
  rw [run_capLs (show dispatch ⟨sCAP, [t, sLS, sStar, caps], n⟩ = .capLs from rfl)] at f1 f2 f3
  simp only [doCapLs_more, ok] at f1 f2 f3
  obtain ⟨a1, extra, a2, a3⟩ := addRel_addCapabilities hd caps s
  cases extra with
  | cons e es => exact inv_aborted (by rw [f2, a2]; simp)
  | nil =>
    obtain ⟨hb, hk⟩ := a3 rfl
    rw [a1, hq.1] at f1
    rw [a2, hq.2] at f2
    rw [seeStep_quiet { v with avail := v.avail ++ lsKeys caps } _ (by simpa using f2) ha, f1]
    simp only [List.foldl_nil]
    obtain ⟨e_c, e_p, _, _, _, _⟩ := bot_eq_mod_ls hb
    refine inv_core ⟨?_, ?_, ?_⟩
    · rw [f3]; exact common_congr e_c (common_view (v := v) rfl hcm)
    · rw [f3]; exact caps_avail_grow hb hk (lsKeys_recorded hd caps s) hcp
    · rw [f3]
      refine phase_congr e_p ?_
      obtain ⟨he, hs, hf, hau, hauth, hdec, hr, hak, hnk, hrq, hln⟩ := phase_neg_of_lsOwed h3 ho hp
      exact .neg h3 he hs hf hau hauth hdec (fun _ => ⟨hr, hak, hnk, hrq⟩) (fun h => by rw [ho] at h; cases h) hln

theorem foldl_capReq_eq (lines : List (List Str)) (s : St) :
    lines.foldl (fun s l => sendMsg (.capReq l) s) s = { s with fastq := s.fastq ++ lines.map Out.capReq } := by
  induction lines generalizing s with
  | nil => simp
  | cons l ls ih => rw [List.foldl_cons, ih]; simp [sendMsg]

theorem requestCaps_eq (caps : List Str) (s : St) :
    requestCaps caps s = { s with req := union s.req (arrangeCaps s.ack caps),
                                  fastq := s.fastq ++ (fill capReqWidth (arrangeCaps s.ack caps)).map Out.capReq } := by
  unfold requestCaps
  simp only [foldl_capReq_eq]

/-- the end-of-LS branch in INIT_CAP_NEGOTIATION -/
theorem capLsFinal_neg {cfg : Cfg} (s : St) (hf : s.fsm = .INIT_CAP_NEGOTIATION) :
    capLsFinal cfg s =
      (if (fill capReqWidth (arrangeCaps s.ack (newCaps s))).isEmpty = true then endCap cfg (requestCaps (newCaps s) s)
       else ok (requestCaps (newCaps s) s)) := by
  unfold capLsFinal expectState
  rw [if_neg (by rw [hf]; decide), hf, if_pos tabP_ls, bind_ok]

theorem endCap_ev_ne {cfg : Cfg} (hd : cfg.realDriver = false) (s : St) (h : s.ev ≠ []) : (endCap cfg s).st.ev ≠ [] := by
  unfold endCap
  split
  · rw [stub_reconnect hd]; simp [ok, event]
  · unfold onCapEnd transition
    simp only
    by_cases hg : Gen.Conn.guardCapEnd.contains s.fsm = true
    · rw [if_pos hg, bind_ok]; simpa [ok, sendMsg] using h
    · rw [if_neg hg]; simpa [raise, R.bind] using h

theorem requestCaps_ev (caps : List Str) (s : St) : (requestCaps caps s).ev = s.ev := by rw [requestCaps_eq]

theorem capLsFinal_ev_ne {cfg : Cfg} (hd : cfg.realDriver = false) (s : St) (h : s.ev ≠ []) : (capLsFinal cfg s).st.ev ≠ [] := by
  unfold capLsFinal
  split
  · exact h
  · unfold expectState
    by_cases hg : Gen.Conn.expectDoCapLs.contains s.fsm = true
    · rw [if_pos hg, bind_ok]
      split
      · exact endCap_ev_ne hd _ (by rw [requestCaps_ev]; exact h)
      · simp only [ok]; rw [requestCaps_ev]; exact h
    · rw [if_neg hg]; simpa [raise, R.bind] using h

/-- the capability bookkeeping after `_requestCaps`: the new words are on the new lines -/
theorem caps_request {b : Bot} {v : View} (arr : List Str) (c : Caps b v)
    (hkeys : ∀ x ∈ arr, x ∈ keys b.ls) :
    Caps { b with req := union b.req arr } { v with reqs := v.reqs ++ fill capReqWidth arr } := by
  refine ⟨?_, c.ackKeys, c.avail, ?_⟩
  · intro x hx
    have hx' : x ∈ union b.req arr := hx
    rw [mem_union] at hx'
    show x ∈ b.ack ∨ x ∈ b.nak ∨ x ∈ (v.reqs ++ fill capReqWidth arr).flatten
    rw [List.flatten_append, List.mem_append]
    rcases hx' with h | h
    · rcases c.acc x h with h | h | h
      · exact .inl h
      · exact .inr (.inl h)
      · exact .inr (.inr (.inl h))
    · obtain ⟨line, hl, hw⟩ := fill_covers (width := capReqWidth) h
      exact .inr (.inr (.inr (mem_flatten_of hl hw)))
  · intro l hl
    have hl' : l ∈ v.reqs ++ fill capReqWidth arr := hl
    rw [List.mem_append] at hl'
    rcases hl' with h | h
    · exact c.ne l h
    · exact fill_ne h

theorem pres_lsFinal {cfg : Cfg} (hd : cfg.realDriver = false) {s : St} {v : View} (t caps n : Str)
    (h3 : v.v3 = true) (ho : v.lsOwed = true) (hq : s.fastq = [] ∧ s.ev = []) (ha : v.aborted = false)
    (h : Common cfg (bot s) v ∧ Caps (bot s) v ∧ Phase cfg (bot s) v) :
    Inv cfg (step cfg s ⟨sCAP, [t, sLS, caps], n⟩).st
      (seeStep { v with lsOwed := false, avail := v.avail ++ lsKeys caps } (step cfg s ⟨sCAP, [t, sLS, caps], n⟩)) := by
  obtain ⟨hcm, hcp, hp⟩ := h
  obtain ⟨f1, f2, f3⟩ := step_facts (cfg := cfg) s s ⟨sCAP, [t, sLS, caps], n⟩
    (nickSetter_plain _ _ (show Gen.Conn.nickSetters.contains sCAP = false by decide))
  rw [run_capLs (show dispatch ⟨sCAP, [t, sLS, caps], n⟩ = .capLs from rfl)] at f1 f2 f3
  simp only [doCapLs_final] at f1 f2 f3
  obtain ⟨a1, extra, a2, a3⟩ := addRel_addCapabilities hd caps s
  have hrec := lsKeys_recorded hd caps s
  cases extra with
  | cons e es =>
    exact inv_aborted (by rw [f2]; exact capLsFinal_ev_ne hd _ (by rw [a2]; simp))
  | nil =>
    obtain ⟨hb, hk⟩ := a3 rfl
    obtain ⟨e_c, e_p, e_fsm, e_req, e_ack, e_nak⟩ := bot_eq_mod_ls hb
    obtain ⟨he, hs, hf, hau, hauth, hdec, hr, hak, hnk, hrq, hln⟩ := phase_neg_of_lsOwed h3 ho hp
    have hcp1 := caps_avail_grow hb hk hrec hcp
    generalize hs1 : addCapabilities cfg caps s = s1 at *
    have hf1 : s1.fsm = .INIT_CAP_NEGOTIATION := e_fsm.trans hf
    have hq1 : s1.fastq = [] := a1.trans hq.1
    have he1 : s1.ev = [] := by rw [a2, hq.2]; rfl
    rw [capLsFinal_neg s1 hf1] at f1 f2 f3
    have hreq1 : s1.req = [] := e_req.trans hr
    have hp1 : pfields (bot s1) = pfields (bot s) := e_p
    have hauth1 : s1.saslAuth = false := by
      have := congrArg (fun p => p.2.2.2.2.2.1) hp1; exact this.trans hauth
    have hdec1 : s1.dec = none := by
      have := congrArg (fun p => p.2.2.2.2.2.2.1) hp1; exact this.trans hdec
    have hkeysArr : ∀ x ∈ arrangeCaps s1.ack (newCaps s1), x ∈ keys (bot s1).ls := fun x hx => (mem_newCaps (mem_arrangeCaps hx)).1
    have hcp2 := caps_request (arrangeCaps s1.ack (newCaps s1)) hcp1 hkeysArr
    by_cases hemp : (fill capReqWidth (arrangeCaps s1.ack (newCaps s1))).isEmpty = true
    · -- nothing to request: CAP END (or abort when SASL is required)
      rw [if_pos hemp] at f1 f2 f3
      have hfill : fill capReqWidth (arrangeCaps s1.ack (newCaps s1)) = [] := by simpa using hemp
      have hrc : requestCaps (newCaps s1) s1 = { s1 with req := union s1.req (arrangeCaps s1.ack (newCaps s1)) } := by
        rw [requestCaps_eq, hfill]; simp
      have he2 := endCap_neg (cfg := cfg) hd ({ s1 with req := union s1.req (arrangeCaps s1.ack (newCaps s1)) } : St) hf1
      rw [hrc, he2] at f1 f2 f3
      by_cases hm : saslMissing cfg ({ s1 with req := union s1.req (arrangeCaps s1.ack (newCaps s1)) } : St) = true
      · rw [if_pos hm] at f2
        exact inv_aborted (by rw [f2]; simp [ok, event])
      · rw [if_neg hm] at f1 f2 f3
        simp only [ok, sendMsg, hq1, he1, List.nil_append] at f1 f2
        rw [seeStep_quiet { v with lsOwed := false, avail := v.avail ++ lsKeys caps } _ f2 ha, f1]
        simp only [List.foldl_cons, List.foldl_nil, seeOut]
        rw [hfill] at hcp2
        refine inv_core ⟨?_, ?_, ?_⟩
        · rw [f3]; exact common_congr (b := bot s) e_c (common_view (v := v) rfl hcm)
        · rw [f3]; exact caps_congr (b := { bot s1 with req := union (bot s1).req (arrangeCaps s1.ack (newCaps s1)) })
            (v := { v with avail := v.avail ++ lsKeys caps, reqs := v.reqs ++ [] }) rfl (by simp) rfl hcp2
        · rw [f3]
          refine .waiting h3 rfl (by simp only; omega) rfl hau rfl ?_
          intro _ c hc
          have hc' : c ∈ union s1.req (arrangeCaps s1.ack (newCaps s1)) := hc
          rw [mem_union, hreq1, fill_eq_nil hfill] at hc'
          rcases hc' with h | h <;> cases h
    · -- CAP REQ lines go out
      rw [if_neg hemp] at f1 f2 f3
      rw [requestCaps_eq] at f1 f2 f3
      simp only [ok, hq1, he1, List.nil_append] at f1 f2
      rw [seeStep_quiet { v with lsOwed := false, avail := v.avail ++ lsKeys caps } _ f2 ha, f1, fold_capReq,
        reopen_not_ended (v := { v with lsOwed := false, avail := v.avail ++ lsKeys caps }) _ he]
      have hne : fill capReqWidth (arrangeCaps s1.ack (newCaps s1)) ≠ [] := by simpa using hemp
      refine inv_core ⟨?_, ?_, ?_⟩
      · rw [f3]; exact common_congr (b := bot s) e_c (common_view (v := v) rfl hcm)
      · rw [f3]; exact caps_congr (b := { bot s1 with req := union (bot s1).req (arrangeCaps s1.ack (newCaps s1)) })
          (v := { v with avail := v.avail ++ lsKeys caps, reqs := v.reqs ++ fill capReqWidth (arrangeCaps s1.ack (newCaps s1)) })
          rfl rfl rfl hcp2
      · rw [f3]
        exact .neg h3 he hs hf1 hau hauth1 hdec1 (fun h => by cases h) (fun _ => by simp only [hrq, List.nil_append]; exact hne) hln

/-! ### CAP ACK / CAP NAK -/

/-- the state Irc.doCapAck / doCapNak hand to capUpkeep -/
def ackNakSt (isAck : Bool) (l : List Str) (s : St) : St :=
  if isAck then { s with ack := union s.ack l, saslAcked := s.saslAcked || (union s.ack l).contains sSasl }
  else { s with nak := union s.nak l }

theorem doCapAckNak_eq {cfg : Cfg} (isAck : Bool) (t sub caps : Str) (s : St) :
    doCapAckNak cfg isAck [t, sub, caps] s =
      (if (splitWs caps).isEmpty = true then raise "AssertionError" s else capUpkeep cfg (ackNakSt isAck (splitWs caps) s)) := by
  unfold doCapAckNak ackNakSt
  simp only
  split
  · rfl
  · cases isAck <;> simp

def newAck (isAck : Bool) (l : List Str) (s : St) : List Str := if isAck then union s.ack l else s.ack
def newNak (isAck : Bool) (l : List Str) (s : St) : List Str := if isAck then s.nak else union s.nak l

theorem ackNakSt_facts (isAck : Bool) (l : List Str) (s : St) :
    bot (ackNakSt isAck l s) = { bot s with ack := newAck isAck l s, nak := newNak isAck l s } ∧
    (ackNakSt isAck l s).fastq = s.fastq ∧ (ackNakSt isAck l s).ev = s.ev ∧
    (ackNakSt isAck l s).ack = newAck isAck l s ∧ (ackNakSt isAck l s).nak = newNak isAck l s ∧
    (ackNakSt isAck l s).req = s.req ∧ (ackNakSt isAck l s).fsm = s.fsm ∧ (ackNakSt isAck l s).ls = s.ls ∧
    (ackNakSt isAck l s).saslAuth = s.saslAuth ∧ (ackNakSt isAck l s).saslNext = s.saslNext := by
  cases isAck <;> simp [ackNakSt, newAck, newNak, bot]

theorem newAckNak_mem (isAck : Bool) (l : List Str) (s : St) :
    (∀ c ∈ s.ack, c ∈ newAck isAck l s) ∧ (∀ c ∈ s.nak, c ∈ newNak isAck l s) ∧
    (∀ c ∈ l, c ∈ newAck isAck l s ∨ c ∈ newNak isAck l s) ∧
    (∀ c ∈ newAck isAck l s, c ∈ s.ack ∨ (isAck = true ∧ c ∈ l)) := by
  cases isAck
  · simp only [newAck, newNak, Bool.false_eq_true, if_false]
    exact ⟨fun _ h => h, fun c h => mem_union.mpr (.inl h), fun c h => .inr (mem_union.mpr (.inr h)), fun c h => .inl h⟩
  · simp only [newAck, newNak, if_true]
    refine ⟨fun c h => mem_union.mpr (.inl h), fun _ h => h, fun c h => .inl (mem_union.mpr (.inr h)), fun c h => ?_⟩
    rcases mem_union.mp h with h | h
    · exact .inl h
    · exact .inr ⟨trivial, h⟩

theorem filteredNext_sub {next : List Str} {v : Option Str} {x : Str} (h : x ∈ filteredNext next v) : x ∈ next := by
  unfold filteredNext at h
  cases v with
  | none => exact h
  | some y => simp only [filterMechs, List.mem_filter] at h; exact h.1

/-! the unanswered requests after a (partial) answer -/

theorem mem_reqsAfter_rest {a ws : List Str} {rest : List (List Str)} {c : Str} (h : c ∈ rest.flatten) :
    c ∈ (reqsAfter a ws rest).flatten := by
  unfold reqsAfter
  split
  · exact h
  · rw [List.flatten_cons]; exact List.mem_append_right _ h

theorem mem_reqsAfter_left {a ws : List Str} {rest : List (List Str)} {c : Str} (hw : c ∈ ws) (ha : c ∉ a) :
    c ∈ (reqsAfter a ws rest).flatten := by
  have hf : c ∈ ws.filter (fun c => !a.contains c) := by
    rw [List.mem_filter]
    exact ⟨hw, by simpa using ha⟩
  unfold reqsAfter
  split
  · rename_i he
    have : ws.filter (fun c => !a.contains c) = [] := by simpa using he
    rw [this] at hf; cases hf
  · rw [List.flatten_cons]; exact List.mem_append_left _ hf

theorem reqsAfter_ne {a ws : List Str} {rest : List (List Str)} (h : ∀ l ∈ rest, l ≠ []) :
    ∀ l ∈ reqsAfter a ws rest, l ≠ [] := by
  unfold reqsAfter
  split
  · exact h
  · rename_i he
    intro l hl
    simp only [List.mem_cons] at hl
    rcases hl with rfl | hl
    · intro hc; apply he; rw [hc]; rfl
    · exact h l hl

/-- the capability bookkeeping after an ACK / NAK line for words of the oldest unanswered request -/
theorem caps_ackNak {s : St} {v : View} (isAck : Bool) (a ws : List Str) (rest : List (List Str))
    (hrq : v.reqs = ws :: rest) (hav : isAck = true → ∀ c ∈ a, c ∈ v.avail) (c : Caps (bot s) v) :
    Caps { bot s with ack := newAck isAck a s, nak := newNak isAck a s } { v with reqs := reqsAfter a ws rest } := by
  obtain ⟨m1, m2, m3, m4⟩ := newAckNak_mem isAck a s
  refine ⟨?_, ?_, c.avail, ?_⟩
  · intro x hx
    rcases c.acc x hx with h | h | h
    · exact .inl (m1 x h)
    · exact .inr (.inl (m2 x h))
    · rw [hrq, List.flatten_cons, List.mem_append] at h
      rcases h with h | h
      · by_cases hxa : x ∈ a
        · rcases m3 x hxa with h' | h'
          · exact .inl h'
          · exact .inr (.inl h')
        · exact .inr (.inr (mem_reqsAfter_left h hxa))
      · exact .inr (.inr (mem_reqsAfter_rest h))
  · intro x hx
    rcases m4 x hx with h | ⟨hi, h⟩
    · exact c.ackKeys x h
    · exact c.avail x (hav hi x h)
  · exact reqsAfter_ne fun l hl => c.ne l (by rw [hrq]; exact List.mem_cons_of_mem _ hl)

/-- the phases other than the negotiation itself only see the acknowledged / refused sets change -/
theorem phase_ackNak {cfg : Cfg} {b : Bot} {v : View} (A N : List Str) (rs : List (List Str))
    (hA : ∀ c ∈ b.ack, c ∈ A) (hN : ∀ c ∈ b.nak, c ∈ N)
    (hne : b.fsm ≠ .INIT_CAP_NEGOTIATION) (p : Phase cfg b v) : Phase cfg { b with ack := A, nak := N } { v with reqs := rs } := by
  have grow : (v.lateNew = false → Answered b) → (v.lateNew = false → Answered { b with ack := A, nak := N }) := fun h hl c hc => by
    rcases h hl c hc with h | h
    · exact .inl (hA c h)
    · exact .inr (hN c h)
  cases p with
  | neg _ _ _ hf _ _ _ _ _ _ => exact absurd hf hne
  | sasl h3 he hs hf ha hauth hd hcur hl hres hsent hround => exact .sasl h3 he hs hf ha hauth hd hcur hl (grow hres) hsent hround
  | waiting h3 he hs hf ha hl hres => exact .waiting h3 he hs hf ha hl (grow hres)
  | nocap h3 hs hf ha _ => exact absurd hf hne
  | motd hw hs hf ha hl hres => exact .motd hw hs hf ha hl (grow hres)

theorem phase_fsm_of_reqs {cfg : Cfg} {b : Bot} {v : View} (h3 : v.v3 = true) (p : Phase cfg b v) :
    b.fsm = .INIT_CAP_NEGOTIATION ∨ b.fsm = .INIT_SASL ∨ b.fsm = .INIT_WAITING_MOTD ∨ b.fsm = .INIT_MOTD := by
  cases p with
  | neg _ _ _ hf _ _ _ _ _ _ => exact .inl hf
  | sasl _ _ _ hf _ _ _ _ _ _ _ _ => exact .inr (.inl hf)
  | waiting _ _ _ hf _ _ _ => exact .inr (.inr (.inl hf))
  | nocap h3' _ _ _ _ => rw [h3] at h3'; cases h3'
  | motd _ _ hf _ _ _ => exact .inr (.inr (.inr hf))

theorem run_ackNak {cfg : Cfg} (isAck : Bool) (t sub caps n : Str)
    (hdisp : dispatch ⟨sCAP, [t, sub, caps], n⟩ = (if isAck then .capAck else .capNak)) (s : St) :
    runHandler cfg ⟨sCAP, [t, sub, caps], n⟩ s = doCapAckNak cfg isAck [t, sub, caps] s := by
  cases isAck
  · rw [run_capNak (by simpa using hdisp)]
  · rw [run_capAck (by simpa using hdisp)]

theorem pres_ackNak {cfg : Cfg} (hd : cfg.realDriver = false) {s : St} {v : View} (isAck : Bool) (t sub caps n : Str)
    (hdisp : dispatch ⟨sCAP, [t, sub, caps], n⟩ = (if isAck then .capAck else .capNak))
    (ws : List Str) (rest : List (List Str)) (h3 : v.v3 = true) (hrq : v.reqs = ws :: rest)
    (hane : splitWs caps ≠ []) (hav : isAck = true → ∀ c ∈ splitWs caps, c ∈ v.avail)
    (hq : s.fastq = [] ∧ s.ev = []) (ha : v.aborted = false) (h : Common cfg (bot s) v ∧ Caps (bot s) v ∧ Phase cfg (bot s) v) :
    Inv cfg (step cfg s ⟨sCAP, [t, sub, caps], n⟩).st
      (seeStep { v with reqs := reqsAfter (splitWs caps) ws rest } (step cfg s ⟨sCAP, [t, sub, caps], n⟩)) := by
  obtain ⟨hcm, hcp, hp⟩ := h
  obtain ⟨f1, f2, f3⟩ := step_facts (cfg := cfg) s s ⟨sCAP, [t, sub, caps], n⟩
    (nickSetter_plain _ _ (show Gen.Conn.nickSetters.contains sCAP = false by decide))
  rw [run_ackNak isAck t sub caps n hdisp, doCapAckNak_eq] at f1 f2 f3
  generalize hA : splitWs caps = a at *
  obtain ⟨b1, b2, b3, b4, b5, b6, b7, b8, b9, b10⟩ := ackNakSt_facts isAck a s
  obtain ⟨m1, m2, m3, m4⟩ := newAckNak_mem isAck a s
  have hcp' := caps_ackNak isAck a ws rest hrq hav hcp
  have hwe : a.isEmpty = false := by cases a <;> simp_all
  rw [hwe] at f1 f2 f3
  simp only [Bool.false_eq_true, if_false] at f1 f2 f3
  by_cases hneg : s.fsm = .INIT_CAP_NEGOTIATION
  · -- the negotiation phase proper
    cases hp with
    | sasl _ _ _ hf _ _ _ _ _ _ _ _ => rw [show (bot s).fsm = s.fsm from rfl, hneg] at hf; cases hf
    | waiting _ _ _ hf _ _ _ => rw [show (bot s).fsm = s.fsm from rfl, hneg] at hf; cases hf
    | nocap h3' _ _ _ _ => rw [h3] at h3'; cases h3'
    | motd _ _ hf _ _ _ => rw [show (bot s).fsm = s.fsm from rfl, hneg] at hf; cases hf
    | neg _ he hs hf hau hauth hdec hls howe hln =>
      have hlo : v.lsOwed = false := by
        cases hlo : v.lsOwed with
        | false => rfl
        | true => have := (hls hlo).2.2.2; rw [hrq] at this; cases this
      have hfs' : (ackNakSt isAck a s).fsm = .INIT_CAP_NEGOTIATION := b7.trans hneg
      rw [capUpkeep_neg hd _ hfs', b4, b5, b6] at f1 f2 f3
      have hacc' := hcp'.acc
      have hkeysA := hcp'.ackKeys
      by_cases hun : subset (newAck isAck a s ++ newNak isAck a s) s.req = true
      · simp only [hun, Bool.not_true, Bool.false_eq_true, if_false] at f1 f2 f3
        by_cases hall : subset s.req (newAck isAck a s ++ newNak isAck a s) = true
        · have hresN : ∀ c ∈ s.req, c ∈ newAck isAck a s ∨ c ∈ newNak isAck a s := fun c hc =>
            List.mem_append.mp (subset_iff.mp hall c hc)
          simp only [hall, if_true] at f1 f2 f3
          by_cases hsasl : (newAck isAck a s).contains sSasl = true
          · -- SASL starts
            simp only [hsasl, if_true] at f1 f2 f3
            obtain ⟨v0, hv0⟩ := dictGet_of_mem_keys (hkeysA sSasl (by simpa using hsasl))
            have hms := maybeStartSasl_neg (cfg := cfg) (ackNakSt isAck a s) hfs' (b9.trans hauth)
              (by rw [b4]; exact hsasl) v0 (by rw [b8]; exact hv0)
            have htn := tryNext_sasl (cfg := cfg) hd
              ({ ackNakSt isAck a s with fsm := .INIT_SASL, saslNext := filteredNext (ackNakSt isAck a s).saslNext v0 } : St) rfl
            rw [hms, htn] at f1 f2 f3
            simp only at f1 f2 f3
            cases hfn : filteredNext (ackNakSt isAck a s).saslNext v0 with
            | cons m r =>
              simp only [hfn, ok, sendMsg, b2, b3, hq.1, hq.2, List.nil_append] at f1 f2 f3
              rw [seeStep_quiet { v with reqs := reqsAfter a ws rest } _ f2 ha, f1]
              simp only [List.foldl_cons, List.foldl_nil, seeOut]
              have hmem : ∀ x ∈ m :: r, x ∈ s.saslNext := fun x hx => by
                have : x ∈ filteredNext (ackNakSt isAck a s).saslNext v0 := by rw [hfn]; exact hx
                exact b10 ▸ filteredNext_sub this
              refine inv_core ⟨⟨?_, ?_, ?_⟩, ?_, ?_⟩
              · rw [f3]; intro x hx; exact hcm.mechsNext x (hmem x (List.mem_cons_of_mem _ hx))
              · rw [f3]; intro x hx
                have : m = x := by simpa [bot] using hx
                rw [← this]; exact hcm.mechsNext m (hmem m List.mem_cons_self)
              · intro _; rw [f3]
                have := hcm.nick0 hs
                cases isAck <;> simpa [bot, ackNakSt] using this
              · rw [f3]
                refine caps_congr (b := { bot s with ack := newAck isAck a s, nak := newNak isAck a s })
                  (v := { v with reqs := reqsAfter a ws rest }) ?_ rfl rfl hcp'
                simp only [capf, bot, b4, b5, b6, b8]
              · rw [f3]; exact .sasl h3 he hs rfl rfl (by cases isAck <;> simpa [bot, ackNakSt] using hauth)
                  (by cases isAck <;> simpa [bot, ackNakSt] using hdec) (by simp [bot]) hlo
                  (fun _ => by show ∀ c ∈ (ackNakSt isAck a s).req, c ∈ (ackNakSt isAck a s).ack ∨ c ∈ (ackNakSt isAck a s).nak
                               rw [b4, b5, b6]; exact hresN)
                  (fun hx => by cases hx) (Nat.le_refl 0)
            | nil =>
              rw [hfn] at f1 f2 f3
              by_cases hr : cfg.required = true
              · simp only [hr, if_true, ok, event] at f2
                exact inv_aborted (by rw [f2]; simp)
              · simp only [hr, Bool.false_eq_true, if_false, ok, sendMsg, b2, b3, hq.1, hq.2, List.nil_append] at f1 f2 f3
                rw [seeStep_quiet { v with reqs := reqsAfter a ws rest } _ f2 ha, f1]
                simp only [List.foldl_cons, List.foldl_nil, seeOut]
                refine inv_core ⟨⟨?_, ?_, ?_⟩, ?_, ?_⟩
                · rw [f3]; intro x hx; simp [bot] at hx
                · rw [f3]; intro x hx; simp [bot] at hx
                · intro _; rw [f3]
                  have := hcm.nick0 hs
                  cases isAck <;> simpa [bot, ackNakSt] using this
                · rw [f3]
                  refine caps_congr (b := { bot s with ack := newAck isAck a s, nak := newNak isAck a s })
                    (v := { v with reqs := reqsAfter a ws rest }) ?_ rfl rfl hcp'
                  simp only [capf, bot, b4, b5, b6, b8]
                · rw [f3]; exact .waiting h3 rfl (by simp only; omega) rfl hau hlo
                    (fun _ => by show ∀ c ∈ (ackNakSt isAck a s).req, c ∈ (ackNakSt isAck a s).ack ∨ c ∈ (ackNakSt isAck a s).nak
                                 rw [b4, b5, b6]; exact hresN)
          · -- no sasl: CAP END
            simp only [hsasl, Bool.false_eq_true, if_false] at f1 f2 f3
            have hec := endCap_neg (cfg := cfg) hd (ackNakSt isAck a s) hfs'
            rw [hec] at f1 f2 f3
            by_cases hm : saslMissing cfg (ackNakSt isAck a s) = true
            · rw [if_pos hm] at f2
              exact inv_aborted (by rw [f2]; simp [ok, event])
            · rw [if_neg hm] at f1 f2 f3
              simp only [ok, sendMsg, b2, b3, hq.1, hq.2, List.nil_append] at f1 f2
              rw [seeStep_quiet { v with reqs := reqsAfter a ws rest } _ f2 ha, f1]
              simp only [List.foldl_cons, List.foldl_nil, seeOut]
              refine inv_core ⟨?_, ?_, ?_⟩
              · rw [f3]
                refine common_congr (b := bot s) ?_ (common_view (v := v) rfl hcm)
                cases isAck <;> simp [cfields, bot, ackNakSt, sendMsg, ok]
              · rw [f3]
                refine caps_congr (b := { bot s with ack := newAck isAck a s, nak := newNak isAck a s })
                  (v := { v with reqs := reqsAfter a ws rest }) ?_ rfl rfl hcp'
                simp only [capf, bot, sendMsg, ok, b4, b5, b6, b8]
              · rw [f3]; exact .waiting h3 rfl (by simp only; omega) rfl hau hlo
                  (fun _ => by show ∀ c ∈ (ackNakSt isAck a s).req, c ∈ (ackNakSt isAck a s).ack ∨ c ∈ (ackNakSt isAck a s).nak
                               rw [b4, b5, b6]; exact hresN)
        · -- still waiting for the answer to another CAP REQ (or to the rest of this one)
          simp only [hall, Bool.false_eq_true, if_false, ok, b2, b3, hq.1, hq.2] at f1 f2 f3
          rw [seeStep_quiet { v with reqs := reqsAfter a ws rest } _ f2 ha, f1]
          simp only [List.foldl_nil]
          have hrest : reqsAfter a ws rest ≠ [] := by
            intro hre
            apply hall
            rw [subset_iff]
            intro c hc
            rcases hacc' c hc with h | h | h
            · exact List.mem_append_left _ h
            · exact List.mem_append_right _ h
            · have h' : c ∈ (reqsAfter a ws rest).flatten := h
              rw [hre] at h'; simp at h'
          refine inv_core ⟨?_, ?_, ?_⟩
          · rw [f3, b1]; exact common_congr (b := bot s) rfl (common_view (v := v) rfl hcm)
          · rw [f3, b1]; exact hcp'
          · rw [f3, b1]
            exact .neg h3 he hs hneg hau hauth hdec (fun h => by rw [hlo] at h; cases h) (fun _ => hrest) hln
      · -- an answer for something that was not requested: the bot drops the connection
        simp only [hun, Bool.not_false, if_true, ok, event] at f2
        exact inv_aborted (by rw [f2]; simp)
  · -- any other phase: capUpkeep's state check fails, only the sets change
    have hfsm := phase_fsm_of_reqs h3 hp
    have hcont : Gen.Conn.expectCapUpkeep.contains s.fsm = false := by
      rcases hfsm with h | h | h | h
      · exact absurd h hneg
      · rw [show s.fsm = .INIT_SASL from h]; exact tabP_upkeep.2.1
      · rw [show s.fsm = .INIT_WAITING_MOTD from h]; exact tabP_upkeep.2.2.1
      · rw [show s.fsm = .INIT_MOTD from h]; exact tabP_upkeep.2.2.2
    rw [capUpkeep_raises _ (by rw [b7]; exact hcont)] at f1 f2 f3
    simp only [raise, b2, b3, hq.1, hq.2] at f1 f2 f3
    rw [seeStep_quiet { v with reqs := reqsAfter a ws rest } _ f2 ha, f1]
    simp only [List.foldl_nil]
    refine inv_core ⟨?_, ?_, ?_⟩
    · rw [f3, b1]; exact common_congr (b := bot s) rfl (common_view (v := v) rfl hcm)
    · rw [f3, b1]; exact hcp'
    · rw [f3, b1]; exact phase_ackNak _ _ _ m1 m2 hneg hp

/-! ### CAP NEW after the final CAP LS -/

theorem doCapNew_eq {cfg : Cfg} (t caps : Str) (s : St) (hne : splitWs caps ≠ []) :
    doCapNew cfg [t, sNEW, caps] s = ok (capNewFinal (addCapabilities cfg caps s)) := by
  unfold doCapNew
  have : (splitWs caps).isEmpty = false := by cases h : splitWs caps <;> simp_all
  simp [this]

theorem arrangeCaps_nil (ack : List Str) : arrangeCaps ack [] = [] := by
  unfold arrangeCaps; simp [isort]

/-- Irc.doCapNew after `_addCapabilities` outside SHUTTING_DOWN: the not yet acknowledged wanted capabilities are requested -/
theorem capNewFinal_eq (s : St) (hf : s.fsm ≠ .SHUTTING_DOWN) :
    capNewFinal s = { s with req := union s.req (arrangeCaps s.ack (newCaps s)),
                             fastq := s.fastq ++ (fill capReqWidth (arrangeCaps s.ack (newCaps s))).map Out.capReq } := by
  unfold capNewFinal
  rw [if_neg hf]
  by_cases he : (newCaps s).isEmpty = true
  · rw [if_pos he]
    have : newCaps s = [] := by simpa using he
    rw [this, arrangeCaps_nil]
    simp [union, fill]
  · rw [if_neg he, requestCaps_eq]

theorem lateNew_true_of_owed {v : View} (h : v.auth.owed = true) : (v.lateNew || v.auth.owed || v.ended) ≠ false := by
  rw [h]; simp

theorem lateNew_true_of_ended {v : View} (h : v.ended = true) : (v.lateNew || v.auth.owed || v.ended) ≠ false := by
  rw [h]; simp

/-- the phases after a CAP NEW (the bot may have sent more CAP REQ lines) -/
theorem phase_capNew {cfg : Cfg} {b : Bot} {v : View} (R A : List Str) (lines : List (List Str)) (h3 : v.v3 = true)
    (ho : v.lsOwed = false) (p : Phase cfg b v) :
    Phase cfg { b with req := R }
      { v with avail := A, lateNew := v.lateNew || v.auth.owed || v.ended, reqs := v.reqs ++ lines } := by
  cases p with
  | neg _ he hs hf ha hauth hd hls howe hln =>
    refine .neg h3 he hs hf ha hauth hd (fun h => by rw [ho] at h; cases h) (fun _ hc => ?_) ?_
    · have hc' : v.reqs ++ lines = [] := hc
      exact howe ho (List.append_eq_nil_iff.mp hc').1
    · show (v.lateNew || v.auth.owed || v.ended) = false
      rw [hln, ha, he]; rfl
  | sasl _ he hs hf ha hauth hd hcur hl hres hsent hround =>
    exact .sasl h3 he hs hf ha hauth hd hcur hl (fun hc => absurd hc (lateNew_true_of_owed ha)) hsent hround
  | waiting _ he hs hf ha hl hres =>
    exact .waiting h3 he hs hf ha hl (fun hc => absurd hc (lateNew_true_of_ended he))
  | nocap h3' _ _ _ _ => rw [h3] at h3'; cases h3'
  | motd hw hs hf ha hl hres =>
    have hend : v.ended = true := by simpa [canWelcome, h3] using hw
    exact .motd hw hs hf ha hl (fun hc => absurd hc (lateNew_true_of_ended hend))

theorem phase_not_shutdown {cfg : Cfg} {b : Bot} {v : View} (p : Phase cfg b v) : b.fsm ≠ .SHUTTING_DOWN := by
  cases p with
  | neg _ _ _ hf _ _ _ _ _ _ => rw [hf]; decide
  | sasl _ _ _ hf _ _ _ _ _ _ _ _ => rw [hf]; decide
  | waiting _ _ _ hf _ _ _ => rw [hf]; decide
  | nocap _ _ hf _ _ => rw [hf]; decide
  | motd _ _ hf _ _ _ => rw [hf]; decide

theorem pres_capNew {cfg : Cfg} (hd : cfg.realDriver = false) {s : St} {v : View} (t caps n : Str)
    (h3 : v.v3 = true) (ho : v.lsOwed = false) (hne : splitWs caps ≠ [])
    (hq : s.fastq = [] ∧ s.ev = []) (ha : v.aborted = false) (h : Common cfg (bot s) v ∧ Caps (bot s) v ∧ Phase cfg (bot s) v) :
    Inv cfg (step cfg s ⟨sCAP, [t, sNEW, caps], n⟩).st
      (seeStep { v with avail := v.avail ++ lsKeys caps, lateNew := v.lateNew || v.auth.owed || v.ended }
        (step cfg s ⟨sCAP, [t, sNEW, caps], n⟩)) := by
  obtain ⟨hcm, hcp, hp⟩ := h
  obtain ⟨f1, f2, f3⟩ := step_facts (cfg := cfg) s s ⟨sCAP, [t, sNEW, caps], n⟩
    (nickSetter_plain _ _ (show Gen.Conn.nickSetters.contains sCAP = false by decide))
  have hrun : runHandler cfg ⟨sCAP, [t, sNEW, caps], n⟩ s = doCapNew cfg [t, sNEW, caps] s := by
    unfold runHandler; rw [show dispatch ⟨sCAP, [t, sNEW, caps], n⟩ = .capNew from rfl]
  rw [hrun, doCapNew_eq t caps s hne] at f1 f2 f3
  simp only [ok] at f1 f2 f3
  obtain ⟨a1, extra, a2, a3⟩ := addRel_addCapabilities hd caps s
  have hrec := lsKeys_recorded hd caps s
  cases extra with
  | cons e es =>
    refine inv_aborted ?_
    rw [f2]
    have hev : ∀ x : St, (capNewFinal x).ev = x.ev := by
      intro x; unfold capNewFinal; split
      · rfl
      · split
        · rfl
        · rw [requestCaps_ev]
    rw [hev, a2]; simp
  | nil =>
    obtain ⟨hb, hk⟩ := a3 rfl
    obtain ⟨e_c, e_p, e_fsm, e_req, e_ack, e_nak⟩ := bot_eq_mod_ls hb
    have hcp1 := caps_avail_grow hb hk hrec hcp
    generalize hs1 : addCapabilities cfg caps s = s1 at *
    have hf1 : s1.fsm ≠ .SHUTTING_DOWN := by
      have := phase_not_shutdown hp
      rw [show s1.fsm = (bot s1).fsm from rfl, e_fsm]; exact this
    have hq1 : s1.fastq = [] := a1.trans hq.1
    have he1 : s1.ev = [] := by rw [a2, hq.2]; rfl
    rw [capNewFinal_eq s1 hf1] at f1 f2 f3
    simp only [hq1, he1, List.nil_append] at f1 f2
    rw [seeStep_quiet { v with avail := v.avail ++ lsKeys caps, lateNew := v.lateNew || v.auth.owed || v.ended } _ f2 ha, f1, fold_capReq]
    by_cases hro : v.ended = true ∧ v.stage = 0 ∧ fill capReqWidth (arrangeCaps s1.ack (newCaps s1)) ≠ []
    · -- the request goes out after CAP END, before the registration is complete: the server waits for another CAP END
      refine .inr (.inr (.inl ?_))
      obtain ⟨h1, h2, h3'⟩ := hro
      have : (fill capReqWidth (arrangeCaps s1.ack (newCaps s1))).isEmpty = false := by
        cases hfl : fill capReqWidth (arrangeCaps s1.ack (newCaps s1)) with
        | nil => exact absurd hfl h3'
        | cons _ _ => rfl
      simp [reopen, this, h1, h2]
    have hre : reopen { v with avail := v.avail ++ lsKeys caps, lateNew := v.lateNew || v.auth.owed || v.ended }
        (fill capReqWidth (arrangeCaps s1.ack (newCaps s1))) =
        { v with avail := v.avail ++ lsKeys caps, lateNew := v.lateNew || v.auth.owed || v.ended } := by
      by_cases h1 : v.ended = true
      · by_cases h2 : v.stage = 0
        · have h3' : fill capReqWidth (arrangeCaps s1.ack (newCaps s1)) = [] := by
            by_cases hx : fill capReqWidth (arrangeCaps s1.ack (newCaps s1)) = []
            · exact hx
            · exact absurd ⟨h1, h2, hx⟩ hro
          rw [h3']; rfl
        · exact reopen_registered _ h2
      · exact reopen_not_ended _ (by simpa using h1)
    rw [hre]
    have hkeysArr : ∀ x ∈ arrangeCaps s1.ack (newCaps s1), x ∈ keys (bot s1).ls := fun x hx => (mem_newCaps (mem_arrangeCaps hx)).1
    have hcp2 := caps_request (arrangeCaps s1.ack (newCaps s1)) hcp1 hkeysArr
    refine inv_core ⟨?_, ?_, ?_⟩
    · rw [f3]; exact common_congr (b := bot s) e_c (common_view (v := v) rfl hcm)
    · rw [f3]
      exact caps_congr (b := { bot s1 with req := union (bot s1).req (arrangeCaps s1.ack (newCaps s1)) })
        (v := { v with avail := v.avail ++ lsKeys caps, reqs := v.reqs ++ fill capReqWidth (arrangeCaps s1.ack (newCaps s1)) })
        rfl rfl rfl hcp2
    · rw [f3]
      exact phase_capNew (b := bot s1) _ _ _ h3 ho (phase_congr e_p hp)

/-! ### CAP DEL after the final CAP LS -/

theorem doCapDel_eq (t caps : Str) (s : St) (hne : splitWs caps ≠ []) :
    doCapDel [t, sDEL, caps] s = ok ((splitWs caps).foldl delCap s) := by
  unfold doCapDel
  have : (splitWs caps).isEmpty = false := by cases h : splitWs caps <;> simp_all
  simp [this]

theorem keys_dictDel {β : Type} (d : List (Str × β)) (k c : Str) (hc : c ∈ keys d) (hne : c ≠ k) : c ∈ keys (dictDel d k) := by
  unfold keys dictDel at *
  simp only [List.mem_map, List.mem_filter] at hc ⊢
  obtain ⟨p, hp, rfl⟩ := hc
  exact ⟨p, ⟨hp, by simpa using hne⟩, rfl⟩

/-- what the loop of Irc.doCapDel does to the capability sets -/
theorem delCaps_facts (l : List Str) (s : St) :
    (bot (l.foldl delCap s) = { bot s with ls := (l.foldl delCap s).ls, ack := (l.foldl delCap s).ack, nak := (l.foldl delCap s).nak }) ∧
    (l.foldl delCap s).fastq = s.fastq ∧ (l.foldl delCap s).ev = s.ev ∧
    (∀ c ∈ s.nak, c ∈ (l.foldl delCap s).nak) ∧
    (∀ c ∈ s.ack, c ∈ (l.foldl delCap s).ack ∨ c ∈ (l.foldl delCap s).nak) ∧
    (∀ c ∈ (l.foldl delCap s).ack, c ∈ s.ack ∧ c ∉ l.map capName) ∧
    (∀ c ∈ keys s.ls, c ∉ l.map capName → c ∈ keys (l.foldl delCap s).ls) := by
  induction l generalizing s with
  | nil => exact ⟨rfl, rfl, rfl, fun _ h => h, fun _ h => .inl h, fun _ h => ⟨h, by simp⟩, fun _ h _ => h⟩
  | cons x xs ih =>
    simp only [List.foldl_cons]
    obtain ⟨i1, i2, i3, i4, i5, i6, i7⟩ := ih (delCap s x)
    have hnak : ∀ c ∈ s.nak, c ∈ (delCap s x).nak := by
      intro c hc; unfold delCap; simp only
      split
      · exact mem_union.mpr (.inl hc)
      · exact hc
    have hack : ∀ c ∈ s.ack, c ∈ (delCap s x).ack ∨ c ∈ (delCap s x).nak := by
      intro c hc
      by_cases he : c = capName x
      · right; unfold delCap; simp only
        have : s.ack.contains (capName x) = true := by rw [← he]; simpa using hc
        rw [if_pos this]; exact mem_union.mpr (.inr (by simp [he]))
      · left; unfold delCap; simp only
        rw [List.mem_filter]; exact ⟨hc, by simpa using he⟩
    refine ⟨?_, i2.trans rfl, i3.trans rfl, fun c hc => i4 c (hnak c hc), ?_, ?_, ?_⟩
    · rw [i1]; simp [bot, delCap]
    · intro c hc
      rcases hack c hc with h | h
      · exact i5 c h
      · exact .inr (i4 c h)
    · intro c hc
      obtain ⟨h1, h2⟩ := i6 c hc
      have h1' : c ∈ s.ack ∧ c ≠ capName x := by
        unfold delCap at h1; simp only [List.mem_filter] at h1
        exact ⟨h1.1, by simpa using h1.2⟩
      refine ⟨h1'.1, ?_⟩
      simp only [List.map_cons, List.mem_cons, not_or]
      exact ⟨h1'.2, h2⟩
    · intro c hc hn
      simp only [List.map_cons, List.mem_cons, not_or] at hn
      exact i7 c (keys_dictDel _ _ _ hc hn.1) hn.2

/-- the phases after a CAP DEL: acknowledged capabilities may have moved to the refused ones -/
theorem phase_capDel {cfg : Cfg} {b : Bot} {v : View} (L : List (Str × Option Str)) (A N X : List Str)
    (hA : ∀ c ∈ b.ack, c ∈ A ∨ c ∈ N) (hN : ∀ c ∈ b.nak, c ∈ N) (ho : v.lsOwed = false) (p : Phase cfg b v) :
    Phase cfg { b with ls := L, ack := A, nak := N } { v with avail := X } := by
  have grow : (v.lateNew = false → Answered b) → (v.lateNew = false → Answered { b with ls := L, ack := A, nak := N }) :=
    fun h hl c hc => by
      rcases h hl c hc with h | h
      · exact hA c h
      · exact .inr (hN c h)
  cases p with
  | neg h3 he hs hf ha hauth hd hls howe hln =>
    exact .neg h3 he hs hf ha hauth hd (fun h => by rw [ho] at h; cases h) howe hln
  | sasl h3 he hs hf ha hauth hd hcur hl hres hsent hround => exact .sasl h3 he hs hf ha hauth hd hcur hl (grow hres) hsent hround
  | waiting h3 he hs hf ha hl hres => exact .waiting h3 he hs hf ha hl (grow hres)
  | nocap h3 hs hf ha hreq => exact .nocap h3 hs hf ha hreq
  | motd hw hs hf ha hl hres => exact .motd hw hs hf ha hl (grow hres)

theorem pres_capDel {cfg : Cfg} {s : St} {v : View} (t caps n : Str)
    (ho : v.lsOwed = false) (hne : splitWs caps ≠ [])
    (hq : s.fastq = [] ∧ s.ev = []) (ha : v.aborted = false) (h : Common cfg (bot s) v ∧ Caps (bot s) v ∧ Phase cfg (bot s) v) :
    Inv cfg (step cfg s ⟨sCAP, [t, sDEL, caps], n⟩).st
      (seeStep { v with avail := v.avail.filter (fun c => !(delKeys caps).contains c) } (step cfg s ⟨sCAP, [t, sDEL, caps], n⟩)) := by
  obtain ⟨hcm, hcp, hp⟩ := h
  obtain ⟨f1, f2, f3⟩ := step_facts (cfg := cfg) s s ⟨sCAP, [t, sDEL, caps], n⟩
    (nickSetter_plain _ _ (show Gen.Conn.nickSetters.contains sCAP = false by decide))
  have hrun : runHandler cfg ⟨sCAP, [t, sDEL, caps], n⟩ s = doCapDel [t, sDEL, caps] s := by
    unfold runHandler; rw [show dispatch ⟨sCAP, [t, sDEL, caps], n⟩ = .capDel from rfl]
  rw [hrun, doCapDel_eq t caps s hne] at f1 f2 f3
  simp only [ok] at f1 f2 f3
  obtain ⟨d1, d2, d3, d4, d5, d6, d7⟩ := delCaps_facts (splitWs caps) s
  rw [d2, hq.1] at f1
  rw [d3, hq.2] at f2
  rw [seeStep_quiet { v with avail := v.avail.filter (fun c => !(delKeys caps).contains c) } _ f2 ha, f1]
  simp only [List.foldl_nil]
  refine inv_core ⟨?_, ?_, ?_⟩
  · rw [f3, d1]; exact common_congr (b := bot s) rfl (common_view (v := v) rfl hcm)
  · rw [f3, d1]
    refine ⟨?_, ?_, ?_, hcp.ne⟩
    · intro c hc
      rcases hcp.acc c hc with h | h | h
      · rcases d5 c h with h' | h'
        · exact .inl h'
        · exact .inr (.inl h')
      · exact .inr (.inl (d4 c h))
      · exact .inr (.inr h)
    · intro c hc
      obtain ⟨h1, h2⟩ := d6 c hc
      exact d7 c (hcp.ackKeys c h1) h2
    · intro c hc
      have hc' : c ∈ v.avail.filter (fun c => !(delKeys caps).contains c) := hc
      rw [List.mem_filter] at hc'
      exact d7 c (hcp.avail c hc'.1) (by simpa [delKeys] using hc'.2)
  · rw [f3, d1]
    exact phase_capDel _ _ _ _ d5 d4 ho hp

end C08
