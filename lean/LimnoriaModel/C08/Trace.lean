/-
C08 — reachable states of a stub-driver history, transfer of the abstract invariants to them, and
the concrete analysis of the handlers that put CAP REQ / AUTHENTICATE on the queue.
-/
import LimnoriaModel.C08.Lemmas
namespace C08
open Py
open Gen.Conn (Fsm)

/-- the states a stub-driver harness sees between two operations -/
inductive Reach (cfg : Cfg) (base : St) : St → Prop
  | start : Reach cfg base (start cfg base).st
  | op {s : St} (o : Op) : Reach cfg base s → Reach cfg base (applyOp cfg s o).st

/-! ### kinds on the queue after some moves -/

theorem kinds_grown {cfg : Cfg} {K : Kind → Bool} {a b : Abs} (P : Kind → Prop) (g : Grown cfg K a b)
    (ha : ∀ k ∈ a.kinds, P k) (hEnd : P .capEnd) (hK : ∀ k, K k = true → P k) (hC : ∀ k ∈ connectKinds cfg, P k) :
    ∀ k ∈ b.kinds, P k := by
  obtain ⟨extra, hx, hcase⟩ := g
  intro k hk
  have hext : ∀ k ∈ extra, P k := fun k hk => by
    rcases hx k hk with rfl | h
    · exact hEnd
    · exact hK k h
  rcases hcase with ⟨_, h2, _⟩ | ⟨_, _, h2, _⟩ <;> rw [h2] at hk <;> simp only [List.mem_append] at hk
  · rcases hk with hk | hk
    · exact ha k hk
    · exact hext k hk
  · rcases hk with hk | hk
    · exact hC k hk
    · exact hext k hk

theorem connectKinds_mem {cfg : Cfg} {k : Kind} (h : k ∈ connectKinds cfg) : k = .connect ∨ k = .nick := by
  unfold connectKinds at h
  simp only [List.mem_append, List.mem_cons, List.mem_singleton, List.not_mem_nil, or_false] at h
  rcases h with (rfl | h) | rfl | rfl
  · exact .inl rfl
  · split at h
    · simp at h
    · simp only [List.mem_singleton] at h; exact .inl h
  · exact .inr rfl
  · exact .inl rfl

/-- no CAP REQ on the fast queue -/
def NoReqQ (s : St) : Prop := Kind.capReq ∉ (α s).kinds

theorem noReqQ_of_moves {cfg : Cfg} {K : Kind → Bool} {s s' : St} (hK : K .capReq = false)
    (m : Moves cfg K (α s) (α s')) (h : NoReqQ s) : NoReqQ s' := by
  intro hc
  have := kinds_grown (fun k => k ≠ .capReq) (grown_of_moves m) (fun k hk e => h (e ▸ hk)) (by decide)
    (fun k hk e => by rw [e, hK] at hk; cases hk)
    (fun k hk e => by rcases connectKinds_mem hk with rfl | rfl <;> cases e)
  exact this _ hc rfl

theorem noReqQ_nil {s : St} (h : s.fastq = []) : NoReqQ s := by simp [NoReqQ, α, h]

theorem capReq_kind {s : St} {ws : List Str} (h : Out.capReq ws ∈ s.fastq) : Kind.capReq ∈ (α s).kinds := by
  simp only [α, List.mem_map]; exact ⟨_, h, rfl⟩

/-! ### CAP REQ lines: only advertised + wanted capabilities, echo-message next to labeled-response -/

def ReqOk (s : St) : Prop :=
  ∀ ws, Out.capReq ws ∈ s.fastq →
    (∀ w ∈ ws, w ∈ keys s.ls ∧ w ∈ s.wanted) ∧ (sEcho ∈ ws → sLabeled ∈ ws ∨ sLabeled ∈ s.ack)

theorem reqOk_of_noReqQ {s : St} (h : NoReqQ s) : ReqOk s := fun _ hw => absurd (capReq_kind hw) h

theorem fastq_foldl_capReq (lines : List (List Str)) (s : St) :
    (lines.foldl (fun s l => sendMsg (.capReq l) s) s).fastq = s.fastq ++ lines.map Out.capReq ∧
    (lines.foldl (fun s l => sendMsg (.capReq l) s) s).ls = s.ls ∧
    (lines.foldl (fun s l => sendMsg (.capReq l) s) s).wanted = s.wanted ∧
    (lines.foldl (fun s l => sendMsg (.capReq l) s) s).ack = s.ack := by
  induction lines generalizing s with
  | nil => simp
  | cons l ls ih =>
    simp only [List.foldl_cons, List.map_cons]
    obtain ⟨h1, h2, h3, h4⟩ := ih (sendMsg (.capReq l) s)
    exact ⟨by rw [h1]; simp [sendMsg], by rw [h2]; rfl, by rw [h3]; rfl, by rw [h4]; rfl⟩

theorem reqOk_requestCaps {s : St} (h : NoReqQ s) : ReqOk (requestCaps (newCaps s) s) := by
  unfold requestCaps
  simp only
  obtain ⟨h1, h2, h3, h4⟩ := fastq_foldl_capReq (fill capReqWidth (arrangeCaps s.ack (newCaps s)))
    { s with req := union s.req (arrangeCaps s.ack (newCaps s)) }
  intro ws hw
  rw [h1] at hw
  rw [h2, h3, h4]
  simp only [List.mem_append, List.mem_map] at hw
  rcases hw with hw | ⟨line, hl, he⟩
  · exact absurd (capReq_kind hw) h
  · injection he with he; subst he
    refine ⟨fun w hwl => ?_, fun hecho => echo_line hl hecho⟩
    have := mem_newCaps (mem_arrangeCaps (mem_fill hl w hwl))
    exact ⟨this.1, this.2.1⟩

theorem noReqQ_requestCaps_empty {caps : List Str} {s : St} (h : NoReqQ s)
    (he : (fill capReqWidth (arrangeCaps s.ack caps)).isEmpty = true) : NoReqQ (requestCaps caps s) := by
  unfold requestCaps
  simp only
  have : fill capReqWidth (arrangeCaps s.ack caps) = [] := by simpa using he
  rw [this]; exact h

theorem reqOk_callbacks {cfg : Cfg} {m : Msg} {s : St} (h : ReqOk s) : ReqOk (callbacks cfg m s) := by
  unfold callbacks; split
  · exact h
  · exact h

def kNone : Kind → Bool := fun _ => false
def kStore : Kind → Bool := fun k => k = .storePerm

theorem reqOk_capLsFinal {cfg : Cfg} {s : St} (h : NoReqQ s) : ReqOk (capLsFinal cfg s).st := by
  unfold capLsFinal
  split
  · exact reqOk_of_noReqQ h
  · unfold R.bind
    cases he : (expectState Gen.Conn.expectDoCapLs s).exc with
    | some e =>
      simp only
      have : (expectState Gen.Conn.expectDoCapLs s).st = s := by unfold expectState; split <;> rfl
      rw [this]; exact reqOk_of_noReqQ h
    | none =>
      simp only
      rw [(expectState_ok he).1]
      split
      · rename_i hemp
        exact reqOk_of_noReqQ (noReqQ_of_moves (K := kNone) rfl (ref_endCap _) (noReqQ_requestCaps_empty h hemp))
      · exact reqOk_requestCaps h

theorem reqOk_doCapLs {cfg : Cfg} {args : List Str} {s : St} (h : NoReqQ s) : ReqOk (doCapLs cfg args s).st := by
  unfold doCapLs
  split
  · split
    · exact reqOk_of_noReqQ h
    · exact reqOk_of_noReqQ (noReqQ_of_moves (K := kStore) (by decide) (ref_addCapabilities _ s (by decide)) h)
  · exact reqOk_capLsFinal (noReqQ_of_moves (K := kStore) (by decide) (ref_addCapabilities _ s (by decide)) h)
  · exact reqOk_of_noReqQ h

theorem reqOk_doCapNew {cfg : Cfg} {args : List Str} {s : St} (h : NoReqQ s) : ReqOk (doCapNew cfg args s).st := by
  unfold doCapNew
  split
  · split
    · exact reqOk_of_noReqQ h
    · have h2 := fun caps => noReqQ_of_moves (K := kStore) (by decide) (ref_addCapabilities (cfg := cfg) caps s (by decide)) h
      simp only [ok]
      unfold capNewFinal
      split
      · exact reqOk_of_noReqQ (h2 _)
      · split
        · exact reqOk_of_noReqQ (h2 _)
        · exact reqOk_requestCaps (h2 _)
  · exact reqOk_of_noReqQ h

theorem reqOk_runHandler {cfg : Cfg} {m : Msg} {s : St} (h : NoReqQ s) : ReqOk (runHandler cfg m s).st := by
  by_cases h1 : dispatch m = .capLs
  · unfold runHandler; rw [h1]; exact reqOk_doCapLs h
  · by_cases h2 : dispatch m = .capNew
    · unfold runHandler; rw [h2]; exact reqOk_doCapNew h
    · refine reqOk_of_noReqQ (noReqQ_of_moves ?_ (ref_runHandler m s) h)
      revert h1 h2; cases dispatch m <;> simp [handlerKinds]

theorem nickSetter_fastq (m : Msg) (s : St) : (nickSetter m s).st.fastq = s.fastq := by
  unfold nickSetter; split
  · split <;> rfl
  · rfl

theorem reqOk_feedMsg {cfg : Cfg} {m : Msg} {s : St} (h : s.fastq = []) : ReqOk (feedMsg cfg m s).st := by
  have h0 : NoReqQ (nickSetter m s).st := noReqQ_nil (by rw [nickSetter_fastq]; exact h)
  unfold feedMsg R.bind
  cases (nickSetter m s).exc with
  | some e => exact reqOk_of_noReqQ h0
  | none =>
    simp only
    cases (runHandler cfg m (nickSetter m s).st).exc with
    | some e => exact reqOk_runHandler h0
    | none => exact reqOk_callbacks (reqOk_runHandler h0)

/-! ### credentials only as the answer to a server AUTHENTICATE inside a SASL state -/

theorem doAuthenticate_not_sasl {cfg : Cfg} {cmd : Str} {args : List Str} {s : St} (h : isSaslState s.fsm = false) :
    (doAuthenticate cfg cmd args s).st = s := by
  unfold doAuthenticate expectState
  by_cases hc : Gen.Conn.expectDoAuthenticate.contains s.fsm = true
  · have := tab_doAuth _ hc; rw [h] at this; cases this
  · rw [if_neg hc]; rfl

theorem nickSetter_fsm (m : Msg) (s : St) : (nickSetter m s).st.fsm = s.fsm := by
  unfold nickSetter; split
  · split <;> rfl
  · rfl

theorem callbacks_fastq {cfg : Cfg} (m : Msg) (s : St) : (callbacks cfg m s).fastq = s.fastq := by
  unfold callbacks; split <;> rfl

/-- the kinds on the fast queue after `feedMsg` from an empty queue -/
theorem kinds_feedMsg {cfg : Cfg} {m : Msg} {s : St} (h : s.fastq = []) :
    ∀ k ∈ (α (feedMsg cfg m s).st).kinds, k = .capEnd ∨ k = .connect ∨ k = .nick ∨ handlerKinds (dispatch m) k = true := by
  refine kinds_grown _ (grown_of_moves (ref_feedMsg m s)) ?_ (.inl rfl) (fun k hk => .inr (.inr (.inr hk))) ?_
  · simp [α, h]
  · intro k hk; rcases connectKinds_mem hk with rfl | rfl
    · exact .inr (.inl rfl)
    · exact .inr (.inr (.inl rfl))

theorem payload_feedMsg {cfg : Cfg} {m : Msg} {s : St} (h : s.fastq = [])
    (hp : Kind.payload ∈ (α (feedMsg cfg m s).st).kinds) : dispatch m = .authenticate ∧ isSaslState s.fsm = true := by
  have hd : dispatch m = .authenticate := by
    rcases kinds_feedMsg h _ hp with h1 | h1 | h1 | h1
    · cases h1
    · cases h1
    · cases h1
    · revert h1; cases dispatch m <;> simp [handlerKinds]
  refine ⟨hd, ?_⟩
  cases hs : isSaslState s.fsm with
  | true => rfl
  | false =>
    exfalso
    have hs' : isSaslState (nickSetter m s).st.fsm = false := by rw [nickSetter_fsm]; exact hs
    have : (feedMsg cfg m s).st.fastq = [] := by
      unfold feedMsg R.bind
      cases (nickSetter m s).exc with
      | some e => simp only; rw [nickSetter_fastq]; exact h
      | none =>
        simp only
        have hr : (runHandler cfg m (nickSetter m s).st).st = (nickSetter m s).st := by
          unfold runHandler; rw [hd]; exact doAuthenticate_not_sasl hs'
        cases (runHandler cfg m (nickSetter m s).st).exc with
        | some e => simp only; rw [hr, nickSetter_fastq]; exact h
        | none => simp only [ok]; rw [callbacks_fastq, hr, nickSetter_fastq]; exact h
    simp [α, this] at hp

/-! ### transfer of the invariants to the reachable states -/

theorem α_drain (s : St) : α (drain s) = { α s with kinds := [], aborts := 0, slowOk := true, evOk := true, joinQ := false } := by
  simp [α, drain]

/-- the abstract state right after `Irc.reset()` / `Irc()` -/
def freshAbs (cfg : Cfg) (epoch aborts : Nat) (evOk wantedOk : Bool) (pol : List (Str × Str)) (forced : Bool) (sock : Nat)
    (conn : Bool) (host : Str) (bad : Bool) : Abs :=
  { fsm := .INIT_CAP_NEGOTIATION, saslAuth := false, afterConnect := false, endCount := 0, epoch := epoch,
    ackSasl := false, kinds := connectKinds cfg, aborts := aborts, acked := false, slowOk := true, evOk := evOk,
    wantedOk := wantedOk, policies := pol, forced := forced, sock := sock,
    sent := false, joinQ := false, conn := conn, host := host, bad := bad }

theorem α_initSt (cfg : Cfg) (base : St) :
    α (initSt cfg base) = freshAbs cfg 0 0 true true (α base).policies (α base).forced (α base).sock
      (α base).conn (α base).host (α base).bad := by
  have hw := wanted_resetSasl cfg base
  unfold initSt queueConnectMessages transition clearForReset
  have h := tab_init
  simp only [h.2, if_true, ok, α, h.1, List.nil_append, kinds_connectMsgs, freshAbs, hw]
  simp [sSasl, resetSasl]

/-- an invariant of the abstract state that ignores the queue kinds, the abort count and the side flags -/
structure AbsInv (cfg : Cfg) (I : Abs → Prop) : Prop where
  move : ∀ {K : Kind → Bool} {a b : Abs}, I a → Move cfg K a b → I b
  fresh : ∀ e n o w p f k c h b, I (freshAbs cfg e n o w p f k c h b)
  drain : ∀ a, I a → I { a with kinds := [], aborts := 0, slowOk := true, evOk := true, joinQ := false }
  /-- the invariant does not look at the event bookkeeping … -/
  side : ∀ a n b1 b2, I a → I { a with aborts := n, slowOk := b1, evOk := b2 }
  /-- … and survives the queue being emptied (the driver wrote it to the socket) -/
  dropKinds : ∀ a b1 b2, I a → I { a with kinds := [], slowOk := b1, joinQ := false, bad := b2 }

theorem AbsInv.moves {cfg : Cfg} {I : Abs → Prop} (inv : AbsInv cfg I) {K : Kind → Bool} {a b : Abs}
    (h : I a) (m : Moves cfg K a b) : I b := by
  induction m with
  | refl => exact h
  | step _ m ih => exact inv.move ih m

theorem AbsInv.reach {cfg : Cfg} {I : Abs → Prop} (inv : AbsInv cfg I) {base s : St} (r : Reach cfg base s) : I (α s) := by
  induction r with
  | start =>
    show I (α (C08.drain (initSt cfg base)))
    rw [α_drain, α_initSt]; exact inv.drain _ (inv.fresh _ _ _ _ _ _ _ _ _ _)
  | op o _ ih =>
    cases o with
    | msg m =>
      show I (α (C08.drain (feedMsg cfg m _).st))
      rw [α_drain]; exact inv.drain _ (inv.moves ih (ref_feedMsg m _))
    | reset =>
      show I (α (C08.drain (ircReset cfg _)))
      rw [α_drain, α_ircReset]; exact inv.drain _ (inv.fresh _ _ _ _ _ _ _ _ _ _)

theorem absInv_end (cfg : Cfg) : AbsInv cfg EndInv :=
  ⟨fun h m => endInv_move h m, fun _ _ _ _ _ _ _ _ _ _ => .inl rfl, fun _ h => h, fun _ _ _ _ h => h, fun _ _ _ h => h⟩

theorem absInv_req (cfg : Cfg) : AbsInv cfg (ReqInv cfg) :=
  ⟨fun h m => reqInv_move h m, fun _ _ _ _ _ _ _ _ _ _ _ hc => by
      rcases hc with hc | hc | hc
      · simp [freshAbs, pastNegotiation] at hc
      · simp [freshAbs] at hc
      · simp [freshAbs] at hc,
   fun _ h => h, fun _ _ _ _ h => h, fun _ _ _ h => h⟩

theorem absInv_sasl (cfg : Cfg) : AbsInv cfg SaslQ := by
  refine ⟨fun h m => saslQ_move h m, fun e n o w p f k c hh b => ?_, fun a h => ⟨h.1, h.2.1, by simp, h.2.2.2⟩,
    fun a _ _ _ h => h, fun a _ _ h => ⟨h.1, h.2.1, by simp, h.2.2.2⟩⟩
  refine ⟨by simp [freshAbs], by simp [freshAbs, isSaslState], ?_, by simp [freshAbs]⟩
  intro k hk hs
  rcases connectKinds_mem hk with rfl | rfl <;> simp [Kind.sasl] at hs

theorem reach_drained {cfg : Cfg} {base s : St} (r : Reach cfg base s) : s.fastq = [] ∧ s.slowq = [] ∧ s.ev = [] := by
  cases r with
  | start => exact ⟨rfl, rfl, rfl⟩
  | op o _ => cases o <;> exact ⟨rfl, rfl, rfl⟩

/-! ### CAP END: where it can come from -/

theorem endCount_move {cfg : Cfg} {K : Kind → Bool} {b c : Abs} (m : Move cfg K b c) (he : c.epoch = b.epoch) :
    c.endCount = b.endCount ∨ (b.fsm = .INIT_CAP_NEGOTIATION ∧ c.fsm = .INIT_WAITING_MOTD ∧ c.endCount = b.endCount + 1) := by
  cases m
  case capEnd hf _ => exact .inr ⟨hf, rfl, rfl⟩
  case reset _ => simp at he
  all_goals exact .inl rfl

theorem capEnd_origin {cfg : Cfg} {K : Kind → Bool} {a b : Abs} (m : Moves cfg K a b) (he : b.epoch = a.epoch)
    (hc : a.endCount < b.endCount) :
    (a.fsm = .INIT_CAP_NEGOTIATION ∨ a.fsm = .INIT_SASL) ∧ 2 ≤ rank b.fsm := by
  induction m with
  | refl => omega
  | step m0 m ih =>
    rename_i b c
    have e1 := (later_moves m0).1
    have e2 := (later_move m).1
    have hb : b.epoch = a.epoch := by omega
    have hcb : c.epoch = b.epoch := by omega
    rcases endCount_move m hcb with heq | ⟨hf, hcf, _⟩
    · rw [heq] at hc
      obtain ⟨h1, h2⟩ := ih hb hc
      exact ⟨h1, Nat.le_trans h2 ((later_move m).2 hcb).1⟩
    · obtain ⟨r1, u1⟩ := (later_moves m0).2 hb
      rw [hf] at r1
      refine ⟨?_, by rw [hcf]; decide⟩
      have hne : a.fsm ≠ .UNINITIALIZED := by
        intro hu
        rcases u1 hu with h | h <;> rw [hf] at h <;> cases h
      revert r1 hne
      cases a.fsm <;> simp [rank]

/-! ### real-driver histories: SocketDriver(irc), then any number of SocketDriver.run() -/

/-- the states of a real-driver history: `Irc()`, `SocketDriver(irc)`, then `run()`s with arbitrary clock
values, due / not-due reconnects and recv() chunks -/
inductive DReach (cfg : Cfg) (base : St) : St → Prop
  | start : DReach cfg base (drvStart cfg (initSt cfg base))
  | run {s : St} (now : Nat) (due : Bool) (lines : List Msg) : DReach cfg base s → DReach cfg base (drvRun cfg now due lines s)
  /-- the environment starts refusing connections (the next `n` attempts) -/
  | fail {s : St} (n : Nat) : DReach cfg base s → DReach cfg base (setFails n s)

theorem α_flush (s : St) : α (flush s) = α s ∨
    α (flush s) = { α s with kinds := [], slowOk := true, joinQ := false, bad := (flush s).joinBad } := by
  unfold flush
  split
  · right; simp [α]
  · left; rfl

theorem AbsInv.flush {cfg : Cfg} {I : Abs → Prop} (inv : AbsInv cfg I) {s : St} (h : I (α s)) : I (α (C08.flush s)) := by
  rcases α_flush s with e | e
  · rw [e]; exact h
  · rw [e]; exact inv.dropKinds _ _ _ h

/-- what an invariant of the abstract state needs in order to hold along every real-driver history -/
structure DInv (cfg : Cfg) (I : Abs → Prop) : Prop where
  move : ∀ {K : Kind → Bool} {a b : Abs}, K .side = false → I a → Move cfg K a b → I b
  side : ∀ a n b1 b2, I a → I { a with aborts := n, slowOk := b1, evOk := b2 }
  flush : ∀ s : St, I (α s) → I (α (C08.flush s))

/-- the permissions of the driver itself: everything but queueing side messages as if they were lines -/
def kDriver : Kind → Bool := fun k => k != .side

theorem handlerKinds_side (h : Handler) : handlerKinds h .side = false := by cases h <;> rfl

theorem DInv.moves {cfg : Cfg} {I : Abs → Prop} (inv : DInv cfg I) {K : Kind → Bool} (hK : K .side = false) {a b : Abs}
    (h : I a) (m : Moves cfg K a b) : I b := by
  induction m with
  | refl => exact h
  | step _ m ih => exact inv.move hK ih m

theorem DInv.feedLines {cfg : Cfg} {I : Abs → Prop} (inv : DInv cfg I) (lines : List Msg) {s : St} (h : I (α s)) :
    I (α (C08.feedLines cfg lines s)) := by
  induction lines generalizing s with
  | nil => exact h
  | cons m ms ih =>
    unfold C08.feedLines
    simp only
    split
    · exact inv.moves (handlerKinds_side _) h (ref_feedMsg m s)
    · exact ih (inv.moves (handlerKinds_side _) h (ref_feedMsg m s))

/-- an invariant that holds for the new Irc object holds along the whole real-driver history -/
theorem DInv.dreach {cfg : Cfg} {I : Abs → Prop} (inv : DInv cfg I) (hr : cfg.realDriver = true) {base s : St}
    (h0 : I (α (initSt cfg base))) (r : DReach cfg base s) : I (α s) := by
  induction r with
  | start =>
    unfold drvStart
    apply inv.flush
    have h1 : I (α ({ initSt cfg base with drv := { (initSt cfg base).drv with attempt := (initSt cfg base).drv.attempt + 1, scheduled := false }, ev := [], wire := [] } : St)) := by
      have := inv.side _ 0 (α (initSt cfg base)).slowOk true h0
      simpa [α] using this
    refine inv.moves (K := kDriver) rfl h1 (ref_drvConnect _ hr rfl ?_)
    show (initSt cfg base).slowq.contains .join = false
    unfold initSt queueConnectMessages transition clearForReset resetSasl
    simp only; split <;> rfl
  | run now due lines r0 ih =>
    rename_i s0
    have h0 : I (α ({ s0 with now := now, ev := [], wire := [] } : St)) := by
      have := inv.side _ 0 (α s0).slowOk true ih
      simpa [α] using this
    have h1 : I (α (drvDue cfg due { s0 with now := now, ev := [], wire := [] })) := by
      unfold drvDue
      split
      · exact inv.moves (K := kDriver) rfl (inv.moves (K := kDriver) rfl h0 (ref_event _ _ rfl))
          (ref_realReconnect false none _ hr (fun _ => ⟨rfl, rfl⟩))
      · exact h0
    unfold drvRun
    simp only
    split
    · exact inv.flush _ (inv.feedLines lines (inv.flush _ h1))
    · exact h1
  | fail n r0 ih => exact ih

theorem AbsInv.toDInv {cfg : Cfg} {I : Abs → Prop} (inv : AbsInv cfg I) : DInv cfg I :=
  ⟨fun _ h m => inv.move h m, inv.side, fun _ h => inv.flush h⟩

theorem AbsInv.dreach {cfg : Cfg} {I : Abs → Prop} (inv : AbsInv cfg I) (hr : cfg.realDriver = true) {base s : St}
    (r : DReach cfg base s) : I (α s) :=
  inv.toDInv.dreach hr (by rw [α_initSt]; exact inv.fresh _ _ _ _ _ _ _ _ _ _) r

/-! ### JOINs reach a socket only after Irc.do376 completed on that connection -/

theorem mem_fastq_kind {s : St} {o : Out} (h : o ∈ s.fastq) : o.kind ∈ (α s).kinds := by
  simp only [α, List.mem_map]; exact ⟨o, h, rfl⟩

/-- `_sendIfMsgs` under the JOIN invariant: nothing is flagged -/
theorem flush_joinBad {cfg : Cfg} (hr : cfg.realDriver = true) (s : St) (h : JoinInv cfg (α s)) :
    (flush s).joinBad = s.joinBad := by
  unfold flush
  split
  · rename_i hc
    simp only
    by_cases hj : (s.fastq ++ s.slowq).contains Out.join = true
    · have hmem : Out.join ∈ s.fastq ++ s.slowq := by simpa using hj
      rcases List.mem_append.mp hmem with hf | hs
      · exact absurd (mem_fastq_kind hf) h.2
      · have : s.afterConnect = true := h.1 hr (by simpa [α] using hs) hc
        simp [this]
    · have : (s.fastq ++ s.slowq).contains Out.join = false := by simpa using hj
      rw [this]; simp
  · rfl

/-- the JOIN invariant together with "nothing flagged so far" -/
def JoinOk (cfg : Cfg) (b0 : Bool) (a : Abs) : Prop := JoinInv cfg a ∧ a.bad = b0

theorem bad_move {cfg : Cfg} {K : Kind → Bool} {a b : Abs} (m : Move cfg K a b) : b.bad = a.bad := by
  cases m <;> rfl

theorem dInv_join (cfg : Cfg) (hr : cfg.realDriver = true) (b0 : Bool) : DInv cfg (JoinOk cfg b0) := by
  refine ⟨fun hK h m => ⟨joinInv_move hK h.1 m, (bad_move m).trans h.2⟩, fun a _ _ _ h => h, fun s h => ?_⟩
  have hb := flush_joinBad hr s h.1
  rcases α_flush s with e | e
  · rw [e]; exact h
  · rw [e]
    refine ⟨⟨fun _ hq => by simp at hq, by simp⟩, ?_⟩
    show (C08.flush s).joinBad = b0
    rw [hb]; exact h.2

/-! ### STS: no downgrade along real-driver histories -/

theorem dInv_sts (cfg : Cfg) : DInv cfg (StsInv cfg) := by
  refine ⟨fun _ h m => stsInv_move h m, fun a _ _ _ h => h, fun s h => ?_⟩
  rcases α_flush s with e | e
  · rw [e]; exact h
  · rw [e]; exact h

end C08
