/-
C08 — progress, part 3: joint histories of the bot and a conformant server, the invariant along them, and an
executable acceptor for the conformant-server relation.
-/
import LimnoriaModel.C08.ProgressCap
namespace C08
open Py
open Gen.Conn (Fsm)

/-! ### joint histories and the invariant along them -/

/-- the bot and a conformant server, from `Irc()` on: the server makes a move, the bot reacts, the server
sees the reaction; nothing more happens on this connection once the bot has aborted -/
inductive PReach (cfg : Cfg) (base : St) (v3 : Bool) : St → View → Prop
  | start : PReach cfg base v3 (start cfg base).st (seeStep { v3 := v3 } (start cfg base))
  | step {s : St} {v v1 : View} {m : Msg} : PReach cfg base v3 s v → v.aborted = false → SrvMove v m v1 →
      PReach cfg base v3 (step cfg s m).st (seeStep v1 (step cfg s m))

theorem bot_initSt (cfg : Cfg) (base : St) :
    bot (initSt cfg base) = ⟨.INIT_CAP_NEGOTIATION, [], [], [], [], cfg.mechanisms.filter (mechAvailable cfg), none, false, none,
      cfg.nick, cfg.alternates, [cfg.nick], false, false, 0⟩ := by
  unfold initSt queueConnectMessages transition clearForReset resetSasl
  have h := tab_init
  simp only [h.2, if_true, ok, bot, h.1, List.nil_append]

theorem seeOut_connect (v : View) (o : Out) (h : o.kind = .connect ∨ o.kind = .nick) : seeOut v o = v := by
  cases o <;> first | rfl | (rcases h with h | h <;> cases h)

theorem fold_connect (cfg : Cfg) (n : Str) (v : View) : (connectMsgs cfg n).foldl seeOut v = v := by
  unfold connectMsgs
  by_cases h : cfg.password.isEmpty = true <;> simp [h, seeOut]

theorem start_facts (cfg : Cfg) (base : St) :
    (start cfg base).fast = connectMsgs cfg cfg.nick ∧ (start cfg base).events = [] ∧
    bot (start cfg base).st = bot (initSt cfg base) := by
  refine ⟨?_, ?_, rfl⟩
  · show (initSt cfg base).fastq = _
    unfold initSt queueConnectMessages transition clearForReset resetSasl
    simp only [tab_init.2, if_true, ok, List.nil_append]
  · show (initSt cfg base).ev = _
    unfold initSt queueConnectMessages transition clearForReset resetSasl
    simp only [tab_init.2, if_true, ok]

theorem inv_start (cfg : Cfg) (base : St) (v3 : Bool) :
    Inv cfg (start cfg base).st (seeStep { v3 := v3 } (start cfg base)) := by
  obtain ⟨f1, f2, f3⟩ := start_facts cfg base
  rw [seeStep_quiet _ _ f2 rfl, f1, fold_connect]
  refine inv_core ⟨⟨?_, ?_, ?_⟩, ?_, ?_⟩
  · rw [f3, bot_initSt]; intro m hm; exact (List.mem_filter.mp hm).2
  · rw [f3, bot_initSt]; intro m hm; cases hm
  · intro _; rw [f3, bot_initSt]; exact ⟨rfl, by simp, rfl⟩
  · rw [f3, bot_initSt]
    exact ⟨fun c hc => (by cases hc), fun c hc => (by cases hc), fun c hc => (by cases hc), fun l hl => (by cases hl)⟩
  · rw [f3, bot_initSt]
    cases v3 with
    | true =>
      exact .neg rfl rfl rfl rfl rfl rfl rfl (fun _ => ⟨rfl, rfl, rfl, rfl⟩) (fun h => by cases h) rfl
    | false => exact .nocap rfl (by simp) rfl rfl rfl

/-! once the server waits for a second CAP END it keeps waiting -/

theorem seeOut_reopened (v : View) (o : Out) (h : v.reopened = true) : (seeOut v o).reopened = true := by
  cases o <;> simp [seeOut, h]

theorem fold_reopened (l : List Out) (v : View) (h : v.reopened = true) : (l.foldl seeOut v).reopened = true := by
  induction l generalizing v with
  | nil => exact h
  | cons o os ih => simp only [List.foldl_cons]; exact ih _ (seeOut_reopened v o h)

theorem seeStep_reopened (v : View) (r : StepResult) (h : v.reopened = true) : (seeStep v r).reopened = true := by
  unfold seeStep; exact fold_reopened r.fast v h

theorem srvMove_reopened {v v1 : View} {m : Msg} (mv : SrvMove v m v1) : v1.reopened = v.reopened := by
  cases mv <;> rfl

theorem preach_drained {cfg : Cfg} {base : St} {v3 : Bool} {s : St} {v : View} (r : PReach cfg base v3 s v) :
    s.fastq = [] ∧ s.ev = [] := by
  cases r <;> exact ⟨rfl, rfl⟩

/-- the invariant holds along every joint history (stub driver: an abort ends the epoch) -/
theorem inv_preach {cfg : Cfg} (hd : cfg.realDriver = false) {base : St} {v3 : Bool} {s : St} {v : View}
    (r : PReach cfg base v3 s v) : Inv cfg s v := by
  induction r with
  | start => exact inv_start cfg base v3
  | step r0 hna mv ih =>
    rename_i s v v1 m
    have hq := preach_drained r0
    rcases ih with h | h | h | h
    · rw [hna] at h; cases h
    · exact pres_connected hd m _ h
    · exact .inr (.inr (.inl (seeStep_reopened _ _ ((srvMove_reopened mv).trans h))))
    · cases mv
      case ping x n => exact pres_ping x n hq hna h
      case noop hdm hn => exact pres_noop _ hdm hn hq hna h
      case lsMore t caps n h3 ho => exact pres_lsMore hd t caps n h3 ho hq hna h
      case lsFinal t caps n h3 ho => exact pres_lsFinal hd t caps n h3 ho hq hna h
      case ack t caps n ws rest h3 hrq hne hsub hav => exact pres_ackNak hd true t sACK caps n rfl ws rest h3 hrq hne (fun _ => hav) hq hna h
      case nak t caps n ws rest h3 hrq hne hsub => exact pres_ackNak hd false t sNAK caps n rfl ws rest h3 hrq hne (fun hc => by cases hc) hq hna h
      case capNew t caps n h3 ho hne => exact pres_capNew hd t caps n h3 ho hne hq hna h
      case capDel t caps n h3 ho hne => exact pres_capDel t caps n ho hne hq hna h
      case authContinue c n h3 hav hrd hc => exact pres_authContinue c n hav hrd hc hq hna h
      case authOk args n h3 hav => exact pres_authOk hd args n hav hq hna h
      case authFail c args n h3 hav hc => exact pres_authFail hd c args n hav hc hq hna h
      case mechs args n hav => exact pres_mechs args n hq hna h
      case nickRefused c args n hs hc => exact pres_nickRefused c args n hs hc hq hna h
      case welcome k a args n hw hk hs => exact pres_welcome k a args n hw hk hs hq hna h
      case motdStart a args n hw hs => exact pres_motdStart hd a args n hw hs hq hna h
      case motdLine a args n hw hs => exact pres_motdLine a args n hs hq hna h
      case motdEnd a args n hw hs =>
        obtain ⟨hcm, _, hp⟩ := h
        have hf : s.fsm = .INIT_MOTD := by
          cases hp with
          | neg _ _ hs0 _ _ _ _ _ _ _ => omega
          | sasl _ _ hs0 _ _ _ _ _ _ _ _ _ => omega
          | waiting _ _ hs5 _ _ _ _ => omega
          | nocap _ hs5 _ _ _ => omega
          | motd _ _ hf _ _ _ => exact hf
        exact pres_endMotd hd (v' := { v with stage := 7 }) ⟨num '3' '7' '6', a :: args, n⟩
          (nickSetter_numeric _ _ _ _ _ (show Gen.Conn.nickSetters.contains (num '3' '7' '6') = true by decide)) rfl rfl rfl rfl
          (.inr (.inr hf)) hq
      case noMotd args n hw hs =>
        obtain ⟨hcm, _, hp⟩ := h
        obtain ⟨hfsm, _, _, _⟩ := phase_fsm_welcome hw (by omega) hp
        have hf : s.fsm = .INIT_CAP_NEGOTIATION ∨ s.fsm = .INIT_WAITING_MOTD ∨ s.fsm = .INIT_MOTD := by
          rcases hfsm with h | h
          · exact .inl h
          · exact .inr (.inl h)
        exact pres_endMotd hd (v' := { v with stage := 7 }) ⟨num '4' '2' '2', args, n⟩
          (nickSetter_plain _ _ (show Gen.Conn.nickSetters.contains (num '4' '2' '2') = false by decide)) rfl rfl rfl rfl hf hq

/-! ### an executable acceptor for the conformant-server relation (used by the harness to check that
its conformant scripts lie inside the domain of `progress`) -/

def welcomeIndex (c : Str) : Option Nat :=
  if c = num '0' '0' '1' then some 1 else if c = num '0' '0' '2' then some 2 else if c = num '0' '0' '3' then some 3
  else if c = num '0' '0' '4' then some 4 else if c = num '0' '0' '5' then some 5 else none

def srvPing (v : View) (args : List Str) : Option View :=
  match args with
  | [_] => some v
  | _ => none

def srvAckNak (v : View) (isAck : Bool) (caps : Str) : Option View :=
  match v.reqs with
  | ws :: rest =>
    if v.v3 = true ∧ splitWs caps ≠ [] ∧ (∀ c ∈ splitWs caps, c ∈ ws) ∧ (isAck = true → ∀ c ∈ splitWs caps, c ∈ v.avail)
    then some { v with reqs := reqsAfter (splitWs caps) ws rest } else none
  | [] => none

def srvCap (v : View) (args : List Str) : Option View :=
  match args with
  | [_, sub, star, caps] =>
    if sub = sLS ∧ star = sStar ∧ v.v3 = true ∧ v.lsOwed = true then some { v with avail := v.avail ++ lsKeys caps } else none
  | [_, sub, caps] =>
    if sub = sLS then (if v.v3 = true ∧ v.lsOwed = true then some { v with lsOwed := false, avail := v.avail ++ lsKeys caps } else none)
    else if sub = sACK then srvAckNak v true caps
    else if sub = sNAK then srvAckNak v false caps
    else if sub = sNEW then
      (if v.v3 = true ∧ v.lsOwed = false ∧ splitWs caps ≠ []
       then some { v with avail := v.avail ++ lsKeys caps, lateNew := v.lateNew || v.auth.owed || v.ended } else none)
    else if sub = sDEL then
      (if v.v3 = true ∧ v.lsOwed = false ∧ splitWs caps ≠ []
       then some { v with avail := v.avail.filter (fun c => !(delKeys caps).contains c) } else none)
    else none
  | _ => none

def srvAuth (v : View) (args : List Str) : Option View :=
  match args with
  | [c] => if v.v3 = true ∧ v.auth.cont = true ∧ v.rounds < 3 ∧
              (c = sPlus ∨ (c.length ≠ Gen.Conn.authenticateChunkSize ∧ (b64decodedLen [c]).isSome = true))
           then some { v with auth := .none, rounds := v.rounds + 1 } else none
  | _ => none

def srvSaslNumeric (v : View) (cmd : Str) : Option View :=
  if cmd = num '9' '0' '3' then (if v.v3 = true ∧ v.auth = .payload then some { v with auth := .none } else none)
  else if isFailNumeric cmd = true then (if v.v3 = true ∧ v.auth.owed = true then some { v with auth := .none } else none)
  else if cmd = num '9' '0' '8' then (if v.auth = .mech then some v else none)
  else none

def srvMotd (v : View) (cmd : Str) (args : List Str) : Option View :=
  if cmd = num '3' '7' '5' then
    (match args with | _ :: _ => if canWelcome v = true ∧ v.stage = 5 then some { v with stage := 6 } else none | [] => none)
  else if cmd = num '3' '7' '6' then
    (match args with | _ :: _ => if canWelcome v = true ∧ v.stage = 6 then some { v with stage := 7 } else none | [] => none)
  else if cmd = num '4' '2' '2' then (if canWelcome v = true ∧ v.stage = 5 then some { v with stage := 7 } else none)
  else if cmd = num '3' '7' '2' then
    (match args with | _ :: _ => if canWelcome v = true ∧ v.stage = 6 then some v else none | [] => none)
  else none

def srvWelcome (v : View) (cmd : Str) (args : List Str) : Option View :=
  match welcomeIndex cmd, args with
  | some k, _ :: _ => if canWelcome v = true ∧ v.stage + 1 = k then some { v with stage := k } else none
  | _, _ => none

def isSaslNumeric (cmd : Str) : Bool := cmd = num '9' '0' '3' || isFailNumeric cmd || cmd = num '9' '0' '8'
def isMotdNumeric (cmd : Str) : Bool :=
  cmd = num '3' '7' '5' || cmd = num '3' '7' '6' || cmd = num '4' '2' '2' || cmd = num '3' '7' '2'

def srvMoveC (v : View) (cmd : Str) (args : List Str) (n : Str) : Option View :=
  if cmd = sPING then srvPing v args
  else if cmd = sCAP then srvCap v args
  else if cmd = sAUTHENTICATE then srvAuth v args
  else if isSaslNumeric cmd = true then srvSaslNumeric v cmd
  else if isNickRefusal cmd = true then (if v.stage = 0 then some v else none)
  else if isMotdNumeric cmd = true then srvMotd v cmd args
  else if (welcomeIndex cmd).isSome = true then srvWelcome v cmd args
  else if dispatch ⟨cmd, args, n⟩ = .none ∧ Gen.Conn.nickSetters.contains cmd = false then some v else none

def srvMoveB (v : View) (m : Msg) : Option View := srvMoveC v m.command m.args m.nick

theorem welcomeIndex_spec {c : Str} {k : Nat} (h : welcomeIndex c = some k) : c = welcomeNumeric k ∧ 1 ≤ k ∧ k ≤ 5 := by
  unfold welcomeIndex at h
  split at h
  · injection h with h; subst h; rename_i hc; exact ⟨hc, by decide, by decide⟩
  · split at h
    · injection h with h; subst h; rename_i hc; exact ⟨hc, by decide, by decide⟩
    · split at h
      · injection h with h; subst h; rename_i hc; exact ⟨hc, by decide, by decide⟩
      · split at h
        · injection h with h; subst h; rename_i hc; exact ⟨hc, by decide, by decide⟩
        · split at h
          · injection h with h; subst h; rename_i hc; exact ⟨hc, by decide, by decide⟩
          · cases h

theorem srvPing_sound {v v1 : View} {args : List Str} {n : Str} (h : srvPing v args = some v1) : SrvMove v ⟨sPING, args, n⟩ v1 := by
  unfold srvPing at h
  split at h
  · injection h with h; subst h; exact .ping _ _ _
  · cases h

theorem srvAckNak_sound {v v1 : View} {isAck : Bool} {t caps n : Str} (h : srvAckNak v isAck caps = some v1) :
    SrvMove v ⟨sCAP, [t, if isAck then sACK else sNAK, caps], n⟩ v1 := by
  unfold srvAckNak at h
  split at h
  · rename_i ws rest hreqs
    split at h
    · rename_i hcond; injection h with h; subst h
      obtain ⟨c1, c2, c3, c4⟩ := hcond
      cases isAck
      · exact .nak _ _ _ _ ws rest c1 hreqs c2 c3
      · exact .ack _ _ _ _ ws rest c1 hreqs c2 c3 (c4 rfl)
    · cases h
  · cases h

theorem srvCap_sound {v v1 : View} {args : List Str} {n : Str} (h : srvCap v args = some v1) : SrvMove v ⟨sCAP, args, n⟩ v1 := by
  unfold srvCap at h
  split at h
  · split at h
    · rename_i hcond; obtain ⟨rfl, rfl, h3, ho⟩ := hcond
      injection h with h; subst h; exact .lsMore _ _ _ _ h3 ho
    · cases h
  · split at h
    · rename_i hsub; subst hsub
      split at h
      · rename_i hcond; injection h with h; subst h; exact .lsFinal _ _ _ _ hcond.1 hcond.2
      · cases h
    · split at h
      · rename_i hsub; subst hsub; exact srvAckNak_sound (isAck := true) h
      · split at h
        · rename_i hsub; subst hsub; exact srvAckNak_sound (isAck := false) h
        · split at h
          · rename_i hsub; subst hsub
            split at h
            · rename_i hcond; injection h with h; subst h; exact .capNew _ _ _ _ hcond.1 hcond.2.1 hcond.2.2
            · cases h
          · split at h
            · rename_i hsub; subst hsub
              split at h
              · rename_i hcond; injection h with h; subst h; exact .capDel _ _ _ _ hcond.1 hcond.2.1 hcond.2.2
              · cases h
            · cases h
  · cases h

theorem srvAuth_sound {v v1 : View} {args : List Str} {n : Str} (h : srvAuth v args = some v1) :
    SrvMove v ⟨sAUTHENTICATE, args, n⟩ v1 := by
  unfold srvAuth at h
  split at h
  · split at h
    · rename_i hcond; injection h with h; subst h
      exact .authContinue _ _ _ hcond.1 hcond.2.1 hcond.2.2.1 hcond.2.2.2
    · cases h
  · cases h

theorem srvSaslNumeric_sound {v v1 : View} {cmd : Str} {args : List Str} {n : Str} (h : srvSaslNumeric v cmd = some v1) :
    SrvMove v ⟨cmd, args, n⟩ v1 := by
  unfold srvSaslNumeric at h
  split at h
  · rename_i hc; subst hc
    split at h
    · rename_i hcond; injection h with h; subst h; exact .authOk _ _ _ hcond.1 hcond.2
    · cases h
  · split at h
    · rename_i hf
      split at h
      · rename_i hcond; injection h with h; subst h; exact .authFail _ _ _ _ hcond.1 hcond.2 hf
      · cases h
    · split at h
      · rename_i hc; subst hc
        split at h
        · rename_i hcond; injection h with h; subst h; exact .mechs _ _ _ hcond
        · cases h
      · cases h

theorem srvMotd_sound {v v1 : View} {cmd : Str} {args : List Str} {n : Str} (h : srvMotd v cmd args = some v1) :
    SrvMove v ⟨cmd, args, n⟩ v1 := by
  unfold srvMotd at h
  split at h
  · rename_i hc; subst hc
    split at h
    · split at h
      · rename_i hcond; injection h with h; subst h; exact .motdStart _ _ _ _ hcond.1 hcond.2
      · cases h
    · cases h
  · split at h
    · rename_i hc; subst hc
      split at h
      · split at h
        · rename_i hcond; injection h with h; subst h; exact .motdEnd _ _ _ _ hcond.1 hcond.2
        · cases h
      · cases h
    · split at h
      · rename_i hc; subst hc
        split at h
        · rename_i hcond; injection h with h; subst h; exact .noMotd _ _ _ hcond.1 hcond.2
        · cases h
      · split at h
        · rename_i hc; subst hc
          split at h
          · split at h
            · rename_i hcond; injection h with h; subst h; exact .motdLine _ _ _ _ hcond.1 hcond.2
            · cases h
          · cases h
        · cases h

theorem srvWelcome_sound {v v1 : View} {cmd : Str} {args : List Str} {n : Str} (h : srvWelcome v cmd args = some v1) :
    SrvMove v ⟨cmd, args, n⟩ v1 := by
  unfold srvWelcome at h
  split at h
  · rename_i k a rest hk
    obtain ⟨rfl, hk1, hk5⟩ := welcomeIndex_spec hk
    split at h
    · rename_i hcond; injection h with h; subst h
      exact .welcome _ k _ _ _ hcond.1 ⟨hk1, hk5⟩ hcond.2
    · cases h
  · cases h

/-- whatever the acceptor accepts is a move of the conformant-server relation -/
theorem srvMoveC_sound {v v1 : View} {cmd : Str} {args : List Str} {n : Str}
    (h : srvMoveC v cmd args n = some v1) : SrvMove v ⟨cmd, args, n⟩ v1 := by
  unfold srvMoveC at h
  by_cases h1 : cmd = sPING
  · rw [if_pos h1] at h; subst h1; exact srvPing_sound h
  · rw [if_neg h1] at h
    by_cases h2 : cmd = sCAP
    · rw [if_pos h2] at h; subst h2; exact srvCap_sound h
    · rw [if_neg h2] at h
      by_cases h3 : cmd = sAUTHENTICATE
      · rw [if_pos h3] at h; subst h3; exact srvAuth_sound h
      · rw [if_neg h3] at h
        by_cases h4 : isSaslNumeric cmd = true
        · rw [if_pos h4] at h; exact srvSaslNumeric_sound h
        · rw [if_neg h4] at h
          by_cases h5 : isNickRefusal cmd = true
          · rw [if_pos h5] at h
            split at h
            · rename_i hs; injection h with h; subst h; exact .nickRefused _ _ _ _ hs h5
            · cases h
          · rw [if_neg h5] at h
            by_cases h6 : isMotdNumeric cmd = true
            · rw [if_pos h6] at h; exact srvMotd_sound h
            · rw [if_neg h6] at h
              by_cases h7 : (welcomeIndex cmd).isSome = true
              · rw [if_pos h7] at h; exact srvWelcome_sound h
              · rw [if_neg h7] at h
                split at h
                · rename_i hcond; injection h with h; subst h; exact .noop _ _ hcond.1 hcond.2
                · cases h

theorem srvMoveB_sound {v v1 : View} {m : Msg} (h : srvMoveB v m = some v1) : SrvMove v m v1 := by
  obtain ⟨cmd, args, n⟩ := m
  exact srvMoveC_sound h

end C08
