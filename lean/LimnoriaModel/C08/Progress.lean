/-
C08 — progress: against a protocol-conformant server the bot never is the one that stalls.

`View` is what a conformant server owes the client, computed from the lines both sides sent (a monitor,
not part of the model).  `SrvMove` lists the messages a conformant server may send in a given view
(DESIGN §6 C08 `progress`, clauses i–v; each CAP REQ is answered by one ACK or NAK of the same list).
`PReach` = the joint histories.  Theorem `progress` (Props.lean): in every jointly reachable state the
bot is connected (end of MOTD), or it aborted deliberately, or the server owes it an answer.
Stub-driver semantics: an abort (driver.reconnect) ends the connection epoch.
-/
import LimnoriaModel.C08.Trace
namespace C08
open Py
open Gen.Conn (Fsm)

def sLS : Str := ['L','S']
def sACK : Str := ['A','C','K']
def sNAK : Str := ['N','A','K']

inductive AuthSt where
  | none      -- nothing owed
  | mech      -- a mechanism was requested: `AUTHENTICATE +`, a challenge or a failure numeric is owed
  | more      -- a credentials line of exactly AUTHENTICATE_CHUNK_SIZE characters arrived: more must follow, the
              -- server owes nothing yet
  | payload   -- a complete answer arrived: 903 / 904… / the next challenge is owed
deriving DecidableEq, Repr

/-- the server owes an answer in the SASL exchange -/
def AuthSt.owed (a : AuthSt) : Bool := a = .mech || a = .payload

structure View where
  v3 : Bool                     -- the server implements capability negotiation (else it ignores CAP)
  lsOwed : Bool := true         -- CAP LS sent, final CAP LS not received yet
  reqs : List (List Str) := []  -- CAP REQ lines not answered yet, oldest first
  auth : AuthSt := .none        -- SASL: answer owed to a mechanism request / to a complete payload
  ended : Bool := false         -- CAP END sent
  stage : Nat := 0              -- welcome: k = 00k received (1..5), 6 = 375 received, 7 = 376/422 received
  aborted : Bool := false       -- the bot called driver.reconnect()

/-- the client lines of one step, as the server sees them -/
def seeOut (v : View) : Out → View
  | .capReq ws => { v with reqs := v.reqs ++ [ws] }
  | .capEnd => { v with ended := true }
  | .authMech _ => { v with auth := .mech }
  | .authPayload c => { v with auth := if c.length = Gen.Conn.authenticateChunkSize then .more else .payload }
  | .authOpaque => { v with auth := .payload }
  | .authAbort => { v with auth := .payload }
  | _ => v

def seeStep (v : View) (r : StepResult) : View :=
  let v' := r.fast.foldl seeOut v
  { v' with aborted := v'.aborted || !r.events.isEmpty }

/-- the registration may complete: the server never negotiates, or the client ended the negotiation -/
def canWelcome (v : View) : Bool := !v.v3 || v.ended

def isFailNumeric (c : Str) : Bool :=
  c = num '9' '0' '4' || c = num '9' '0' '5' || c = num '9' '0' '6' || c = num '9' '0' '7'

def isNickRefusal (c : Str) : Bool := c = num '4' '3' '2' || c = num '4' '3' '3' || c = num '4' '3' '7'

def welcomeNumeric (k : Nat) : Str :=
  if k = 1 then num '0' '0' '1' else if k = 2 then num '0' '0' '2' else if k = 3 then num '0' '0' '3'
  else if k = 4 then num '0' '0' '4' else num '0' '0' '5'

/-- the messages a conformant server may send in view `v`, and the view afterwards (before the client's
reaction is seen) -/
inductive SrvMove : View → Msg → View → Prop
  | ping (v : View) (x n : Str) : SrvMove v ⟨sPING, [x], n⟩ v
  /-- anything the bot has no handler for and that is not a nick-setting numeric (NOTICE, 900, 372, …) -/
  | noop (v : View) (m : Msg) (hd : dispatch m = .none) (hn : Gen.Conn.nickSetters.contains m.command = false) : SrvMove v m v
  | lsMore (v : View) (t caps n : Str) (h3 : v.v3 = true) (ho : v.lsOwed = true) :
      SrvMove v ⟨sCAP, [t, sLS, sStar, caps], n⟩ v
  | lsFinal (v : View) (t caps n : Str) (h3 : v.v3 = true) (ho : v.lsOwed = true) :
      SrvMove v ⟨sCAP, [t, sLS, caps], n⟩ { v with lsOwed := false }
  | ack (v : View) (t caps n : Str) (ws : List Str) (rest : List (List Str)) (h3 : v.v3 = true)
      (hq : v.reqs = ws :: rest) (hw : splitWs caps = ws) : SrvMove v ⟨sCAP, [t, sACK, caps], n⟩ { v with reqs := rest }
  | nak (v : View) (t caps n : Str) (ws : List Str) (rest : List (List Str)) (h3 : v.v3 = true)
      (hq : v.reqs = ws :: rest) (hw : splitWs caps = ws) : SrvMove v ⟨sCAP, [t, sNAK, caps], n⟩ { v with reqs := rest }
  /-- `AUTHENTICATE +` or a complete, well-formed challenge -/
  | authContinue (v : View) (c n : Str) (h3 : v.v3 = true) (ha : v.auth.owed = true)
      (hc : c = sPlus ∨ (c.length ≠ Gen.Conn.authenticateChunkSize ∧ (b64decodedLen [c]).isSome = true)) :
      SrvMove v ⟨sAUTHENTICATE, [c], n⟩ { v with auth := .none }
  | authOk (v : View) (args : List Str) (n : Str) (h3 : v.v3 = true) (ha : v.auth = .payload) :
      SrvMove v ⟨num '9' '0' '3', args, n⟩ { v with auth := .none }
  | authFail (v : View) (c : Str) (args : List Str) (n : Str) (h3 : v.v3 = true) (ha : v.auth.owed = true)
      (hc : isFailNumeric c = true) : SrvMove v ⟨c, args, n⟩ { v with auth := .none }
  /-- RPL_SASLMECHS: the failure numeric is still owed -/
  | mechs (v : View) (args : List Str) (n : Str) (ha : v.auth = .mech) : SrvMove v ⟨num '9' '0' '8', args, n⟩ v
  | nickRefused (v : View) (c : Str) (args : List Str) (n : Str) (hs : v.stage = 0) (hc : isNickRefusal c = true) :
      SrvMove v ⟨c, args, n⟩ v
  | welcome (v : View) (k : Nat) (a : Str) (args : List Str) (n : Str) (hw : canWelcome v = true)
      (hk : 1 ≤ k ∧ k ≤ 5) (hs : v.stage + 1 = k) : SrvMove v ⟨welcomeNumeric k, a :: args, n⟩ { v with stage := k }
  | motdStart (v : View) (a : Str) (args : List Str) (n : Str) (hw : canWelcome v = true) (hs : v.stage = 5) :
      SrvMove v ⟨num '3' '7' '5', a :: args, n⟩ { v with stage := 6 }
  /-- RPL_MOTD (372), a nick-setting numeric without a handler of its own -/
  | motdLine (v : View) (a : Str) (args : List Str) (n : Str) (hw : canWelcome v = true) (hs : v.stage = 6) :
      SrvMove v ⟨num '3' '7' '2', a :: args, n⟩ v
  | motdEnd (v : View) (a : Str) (args : List Str) (n : Str) (hw : canWelcome v = true) (hs : v.stage = 6) :
      SrvMove v ⟨num '3' '7' '6', a :: args, n⟩ { v with stage := 7 }
  | noMotd (v : View) (args : List Str) (n : Str) (hw : canWelcome v = true) (hs : v.stage = 5) :
      SrvMove v ⟨num '4' '2' '2', args, n⟩ { v with stage := 7 }

/-! ### the handlers under the recording stub driver -/

variable {cfg : Cfg}

theorem stub_reconnect (hd : cfg.realDriver = false) (w : Bool) (srv : Option Server) (s : St) :
    drvReconnect cfg w srv s = event (.reconnect w srv) s := by
  unfold drvReconnect; simp [hd]

theorem tabP_capEnd : Gen.Conn.guardCapEnd.contains .INIT_CAP_NEGOTIATION = true ∧ Gen.Conn.toCapEnd = .INIT_WAITING_MOTD := by decide
theorem tabP_upkeep : Gen.Conn.expectCapUpkeep.contains .INIT_CAP_NEGOTIATION = true ∧
    Gen.Conn.expectCapUpkeep.contains .INIT_SASL = false ∧ Gen.Conn.expectCapUpkeep.contains .INIT_WAITING_MOTD = false ∧
    Gen.Conn.expectCapUpkeep.contains .INIT_MOTD = false := by decide
theorem tabP_ls : Gen.Conn.expectDoCapLs.contains .INIT_CAP_NEGOTIATION = true := by decide
theorem tabP_sasl : Gen.Conn.onSaslCap.lookup .INIT_CAP_NEGOTIATION = some .INIT_SASL ∧
    Gen.Conn.onSaslAuthFinished.lookup .INIT_SASL = some .INIT_CAP_NEGOTIATION ∧
    Gen.Conn.expectTryNextSasl.contains .INIT_SASL = true ∧ Gen.Conn.expectDoAuthenticate.contains .INIT_SASL = true ∧
    Gen.Conn.expectDo903.contains .INIT_SASL = true := by decide
theorem tabP_motd : Gen.Conn.toStartMotd = .INIT_MOTD ∧ Gen.Conn.toEndMotd = .CONNECTED ∧
    Gen.Conn.guardStartMotd.contains .INIT_CAP_NEGOTIATION = true ∧ Gen.Conn.guardStartMotd.contains .INIT_WAITING_MOTD = true ∧
    Gen.Conn.guardEndMotd.contains .INIT_CAP_NEGOTIATION = true ∧ Gen.Conn.guardEndMotd.contains .INIT_WAITING_MOTD = true ∧
    Gen.Conn.guardEndMotd.contains .INIT_MOTD = true := by decide

/-- Irc.endCapabilityNegociation in INIT_CAP_NEGOTIATION: abort when SASL is required and missing, else CAP END -/
theorem endCap_neg (hd : cfg.realDriver = false) (s : St) (hf : s.fsm = .INIT_CAP_NEGOTIATION) :
    endCap cfg s = (if saslMissing cfg s = true then ok (event (.reconnect true none) s)
      else ok (sendMsg .capEnd { s with fsm := .INIT_WAITING_MOTD, endCount := s.endCount + 1 })) := by
  unfold endCap
  split
  · rw [stub_reconnect hd]
  · unfold onCapEnd transition
    simp only [hf, tabP_capEnd.1, if_true, bind_ok, tabP_capEnd.2]

/-- Irc.tryNextSaslMechanism in INIT_SASL -/
theorem tryNext_sasl (hd : cfg.realDriver = false) (s : St) (hf : s.fsm = .INIT_SASL) :
    tryNextSasl cfg s =
      (match s.saslNext with
       | m :: rest => ok (sendMsg (.authMech (asciiUpper m)) { s with saslCur := some m, saslNext := rest })
       | [] => if cfg.required = true then ok (event (.reconnect true none) s)
               else ok (sendMsg .capEnd { s with saslCur := none, fsm := .INIT_WAITING_MOTD, endCount := s.endCount + 1 })) := by
  unfold tryNextSasl expectState
  simp only [hf, tabP_sasl.2.2.1, if_true, bind_ok]
  cases hn : s.saslNext with
  | cons m rest => rfl
  | nil =>
    simp only
    split
    · rw [stub_reconnect hd]
    · rename_i hr
      unfold onSaslAuthFinished tableTransition
      simp only [hf, tabP_sasl.2.1, bind_ok, if_true]
      rw [endCap_neg hd _ rfl]
      have hr' : cfg.required = false := by simpa using hr
      simp [saslMissing, hr']

/-- Irc.capUpkeep in INIT_CAP_NEGOTIATION -/
theorem capUpkeep_neg (hd : cfg.realDriver = false) (s : St) (hf : s.fsm = .INIT_CAP_NEGOTIATION) :
    capUpkeep cfg s =
      (if !subset (s.ack ++ s.nak) s.req then ok (event (.reconnect true none) s)
       else if subset s.req (s.ack ++ s.nak) then
         (if s.ack.contains sSasl then maybeStartSasl cfg s else endCap cfg s)
       else ok s) := by
  unfold capUpkeep expectState
  simp only [hf, tabP_upkeep.1, if_true, bind_ok, true_or]
  split
  · rw [stub_reconnect hd]
  · split
    · split
      · rfl
      · simp
    · rfl

/-- Irc.capUpkeep outside INIT_CAP_NEGOTIATION / CONNECTED: the state check raises -/
theorem capUpkeep_raises (s : St) (hf : Gen.Conn.expectCapUpkeep.contains s.fsm = false) :
    capUpkeep cfg s = raise "ValueError" s := by
  unfold capUpkeep expectState
  rw [if_neg (by rw [hf]; exact Bool.false_ne_true)]
  rfl

/-- the mechanisms left after the filter of Irc._maybeStartSasl -/
def filteredNext (next : List Str) (v : Option Str) : List Str :=
  match v with
  | none => next
  | some x => filterMechs next x

/-- Irc._maybeStartSasl when it starts: INIT_CAP_NEGOTIATION, not authenticated, sasl acknowledged and listed -/
theorem maybeStartSasl_neg (s : St) (hf : s.fsm = .INIT_CAP_NEGOTIATION) (ha : s.saslAuth = false)
    (hack : s.ack.contains sSasl = true) (v : Option Str) (hls : dictGet s.ls sSasl = some v) :
    maybeStartSasl cfg s = tryNextSasl cfg { s with fsm := .INIT_SASL, saslNext := filteredNext s.saslNext v } := by
  unfold maybeStartSasl onSaslCap tableTransition
  simp only [ha, hack, Bool.not_false, Bool.and_self, if_true, hf, tabP_sasl.1, bind_ok, hls]
  cases v <;> rfl

theorem sendSaslString_eq (bytes : List Nat) (s : St) :
    sendSaslString bytes s =
      { s with fastq := s.fastq ++ (authChunks Gen.Conn.authenticateChunkSize (b64encode bytes)).map Out.authPayload } := by
  unfold sendSaslString
  generalize authChunks Gen.Conn.authenticateChunkSize (b64encode bytes) = l
  induction l generalizing s with
  | nil => simp
  | cons c cs ih => rw [List.foldl_cons, ih]; simp [sendMsg]

theorem authChunks_ne (sz : Nat) (a : Str) : authChunks sz a ≠ [] := by
  unfold authChunks authChunksAux
  split <;> simp

/-- shape of the output of `authenticate_generator`: full-size pieces followed by one final piece that is
shorter (or `+` when nothing is left), together spelling the base64 text -/
def ChunksOk (sz : Nat) (a : Str) (l : List Str) : Prop :=
  ∃ pieces final, l = pieces ++ [final] ∧ (∀ p ∈ pieces, p.length = sz) ∧
    ((final.length < sz ∧ final ≠ [] ∧ pieces.flatten ++ final = a) ∨ (final = sPlus ∧ pieces.flatten = a))

theorem authChunksAux_ok (sz : Nat) (hsz : 0 < sz) : ∀ (fuel : Nat) (a : Str), a.length < fuel →
    ChunksOk sz a (authChunksAux sz fuel a) := by
  intro fuel
  induction fuel with
  | zero => intro a h; omega
  | succ k ih =>
    intro a h
    unfold authChunksAux
    by_cases hlt : a.length < sz
    · rw [if_pos hlt]
      by_cases he : a.isEmpty = true
      · rw [if_pos he]
        have : a = [] := by simpa using he
        exact ⟨[], sPlus, rfl, by simp, .inr ⟨rfl, by simp [this]⟩⟩
      · rw [if_neg he]
        have : a ≠ [] := by simpa using he
        exact ⟨[], a, rfl, by simp, .inl ⟨hlt, this, by simp⟩⟩
    · rw [if_neg hlt]
      have hlen : (a.drop sz).length < k := by simp [List.length_drop]; omega
      obtain ⟨pieces, final, h1, h2, h3⟩ := ih (a.drop sz) hlen
      refine ⟨a.take sz :: pieces, final, by rw [h1]; rfl, ?_, ?_⟩
      · intro p hp
        simp only [List.mem_cons] at hp
        rcases hp with rfl | hp
        · simp [List.length_take]; omega
        · exact h2 p hp
      · rcases h3 with ⟨a1, a2, a3⟩ | ⟨a1, a3⟩
        · exact .inl ⟨a1, a2, by simp only [List.flatten_cons, List.append_assoc]; rw [a3]; exact List.take_append_drop sz a⟩
        · exact .inr ⟨a1, by simp only [List.flatten_cons]; rw [a3]; exact List.take_append_drop sz a⟩

/-- `authenticate_generator`: for every text, the lines are full-size pieces followed by one final line
that is shorter than the chunk size or `+`; concatenated (the terminating `+` dropped) they are the text -/
theorem chunks_ok (sz : Nat) (hsz : 0 < sz) (a : Str) : ChunksOk sz a (authChunks sz a) :=
  authChunksAux_ok sz hsz (a.length + 1) a (Nat.lt_succ_self _)

theorem tabP_chunk : 1 < Gen.Conn.authenticateChunkSize := by decide

def isPayloadOut : Out → Bool
  | .authPayload _ => true
  | .authOpaque => true
  | .authAbort => true
  | _ => false

/-- a line that completes an answer: shorter than the chunk size (or the signature / abort marker) -/
def isFinalOut : Out → Bool
  | .authPayload c => c.length != Gen.Conn.authenticateChunkSize
  | .authOpaque => true
  | .authAbort => true
  | _ => false

/-- the lines of one answer: credentials lines only, the last one completing it -/
def Answer (outs : List Out) : Prop :=
  (∀ o ∈ outs, isPayloadOut o = true) ∧ ∃ init o, outs = init ++ [o] ∧ isFinalOut o = true

theorem sendSasl_sends (bytes : List Nat) (s : St) :
    ∃ outs, Answer outs ∧ sendSaslString bytes s = { s with fastq := s.fastq ++ outs } := by
  refine ⟨(authChunks Gen.Conn.authenticateChunkSize (b64encode bytes)).map Out.authPayload, ⟨?_, ?_⟩, sendSaslString_eq bytes s⟩
  · intro o ho; simp only [List.mem_map] at ho; obtain ⟨c, _, rfl⟩ := ho; rfl
  · obtain ⟨pieces, final, h1, _, h3⟩ := chunks_ok Gen.Conn.authenticateChunkSize (by have := tabP_chunk; omega) (b64encode bytes)
    refine ⟨pieces.map Out.authPayload, .authPayload final, by rw [h1]; simp, ?_⟩
    have hlen : final.length ≠ Gen.Conn.authenticateChunkSize := by
      rcases h3 with ⟨a1, _, _⟩ | ⟨a1, _⟩
      · omega
      · rw [a1]; have := tabP_chunk; simp [sPlus]; omega
    simp [isFinalOut, hlen]

/-- the answer of the bot to a complete server AUTHENTICATE when its current mechanism is one it
made available itself: at least one credentials / abort line, nothing else changes -/
theorem authRespond_sends (n : Nat) (s : St) (m : Str) (hc : s.saslCur = some m) (hm : mechAvailable cfg m = true) :
    ∃ outs, Answer outs ∧ (authRespond cfg n s).st = { s with fastq := s.fastq ++ outs } := by
  unfold authRespond
  split
  · rename_i h; rw [hc] at h; cases h
  · rename_i m' h
    rw [hc] at h; injection h with h; subst h
    by_cases h1 : m = sEcdsa
    · simp only [h1, if_true]
      split
      · exact sendSasl_sends _ s
      · split
        · exact ⟨[.authOpaque], ⟨by simp [isPayloadOut], [], .authOpaque, rfl, rfl⟩, rfl⟩
        · exact ⟨[.authAbort], ⟨by simp [isPayloadOut], [], .authAbort, rfl, rfl⟩, rfl⟩
    · simp only [h1, if_false]
      by_cases h2 : m = sExternal
      · simp only [h2, if_true]; exact sendSasl_sends _ s
      · simp only [h2, if_false]
        unfold mechAvailable at hm
        simp only [h1, h2, if_false] at hm
        by_cases h3 : sScramPfx.isPrefixOf m = true
        · simp [h3] at hm
        · simp only [h3, if_false] at hm ⊢
          by_cases h4 : m = sPlain
          · simp only [h4, if_true]; exact sendSasl_sends _ s
          · simp [h4] at hm

/-- everything the progress invariant looks at, except the queues -/
def pcore (s : St) :=
  (s.fsm, s.ls, s.req, s.ack, s.nak, s.saslNext, s.saslCur, s.saslAuth, s.dec, s.nick, s.altNicks, s.tried, s.afterConnect, s.ev)

/-- Irc.doAuthenticate in INIT_SASL on a complete, well-formed server AUTHENTICATE with no pending chunks -/
theorem doAuthenticate_sasl (s : St) (c : Str) (hf : s.fsm = .INIT_SASL) (hdec : s.dec = none)
    (hc : c = sPlus ∨ (c.length ≠ Gen.Conn.authenticateChunkSize ∧ (b64decodedLen [c]).isSome = true))
    (m : Str) (hcur : s.saslCur = some m) (hm : mechAvailable cfg m = true) :
    ∃ outs, Answer outs ∧
      (doAuthenticate cfg sAUTHENTICATE [c] s).st.fastq = s.fastq ++ outs ∧
      pcore (doAuthenticate cfg sAUTHENTICATE [c] s).st = pcore s := by
  have hcd : curDecoder s = ⟨[], false⟩ := by simp [curDecoder, hdec]
  have hready : (decoderFeed (curDecoder s) c).ready = true := by
    rw [hcd]; unfold decoderFeed
    rcases hc with rfl | ⟨h, _⟩
    · simp
    · simp [h]
  have hchunks : (b64decodedLen (decoderFeed (curDecoder s) c).chunks).isSome = true := by
    rw [hcd]; unfold decoderFeed
    rcases hc with rfl | ⟨h, h2⟩
    · simp only [if_true]; decide
    · by_cases hp : c = sPlus
      · subst hp; simp only [if_true]; decide
      · simp only [hp, if_false, List.nil_append]; exact h2
  have hexp : expectState Gen.Conn.expectDoAuthenticate s = ok s := by
    unfold expectState; rw [hf, if_pos tabP_sasl.2.2.2.1]
  unfold doAuthenticate
  rw [hexp, bind_ok]
  simp only [ne_eq, not_true_eq_false, if_false, hready, Bool.not_true, Bool.false_eq_true]
  cases hb : b64decodedLen (decoderFeed (curDecoder s) c).chunks with
  | none => rw [hb] at hchunks; cases hchunks
  | some n =>
    simp only
    obtain ⟨outs, h1, h3⟩ := authRespond_sends (cfg := cfg) n ({ s with dec := none } : St) m hcur hm
    refine ⟨outs, h1, ?_, ?_⟩
    · rw [h3]
    · rw [h3]; simp [pcore, hdec]

/-! ### what one step does, in terms of the handler -/

/-- the fields of the Irc object the progress invariant talks about -/
structure Bot where
  fsm : Fsm
  ls : List (Str × Option Str)
  req : List Str
  ack : List Str
  nak : List Str
  saslNext : List Str
  saslCur : Option Str
  saslAuth : Bool
  dec : Option Decoder
  nick : Str
  altNicks : List Str
  tried : List Str
  afterConnect : Bool

def bot (s : St) : Bot :=
  ⟨s.fsm, s.ls, s.req, s.ack, s.nak, s.saslNext, s.saslCur, s.saslAuth, s.dec, s.nick, s.altNicks, s.tried, s.afterConnect⟩

theorem bot_drain (s : St) : bot (drain s) = bot s := rfl
theorem bot_callbacks (m : Msg) (s : St) : bot (callbacks cfg m s) = bot s := by
  unfold callbacks; split <;> rfl
theorem ev_callbacks (m : Msg) (s : St) : (callbacks cfg m s).ev = s.ev := by
  unfold callbacks; split <;> rfl

/-- one step, when the nick-setting prelude of feedMsg leaves `s1` -/
theorem step_facts (s s1 : St) (m : Msg) (hn : nickSetter m s = ok s1) :
    (step cfg s m).fast = (runHandler cfg m s1).st.fastq ∧
    (step cfg s m).events = (runHandler cfg m s1).st.ev ∧
    bot (step cfg s m).st = bot (runHandler cfg m s1).st := by
  unfold step observeStep feedMsg
  rw [hn, bind_ok]
  unfold R.bind
  cases (runHandler cfg m s1).exc with
  | some e => exact ⟨rfl, rfl, rfl⟩
  | none =>
    simp only [ok]
    exact ⟨callbacks_fastq m _, ev_callbacks m _, by rw [bot_drain, bot_callbacks]⟩

theorem nickSetter_plain (m : Msg) (s : St) (h : Gen.Conn.nickSetters.contains m.command = false) :
    nickSetter m s = ok s := by
  unfold nickSetter; rw [if_neg (by rw [h]; exact Bool.false_ne_true)]

theorem nickSetter_numeric (c a : Str) (args : List Str) (n : Str) (s : St)
    (h : Gen.Conn.nickSetters.contains c = true) :
    nickSetter ⟨c, a :: args, n⟩ s = ok { s with nick := a } := by
  unfold nickSetter; rw [if_pos h]

/-! ### `_addCapabilities` under the stub driver: the advertised set grows; an `sts` item may abort -/

/-- relation between the state before and after `_addCapabilities`: the queue is untouched, driver
events are only appended, and if none was appended nothing but `capabilities_ls` (which only gains keys)
and the STS store changed -/
def AddRel (s s' : St) : Prop :=
  s'.fastq = s.fastq ∧ ∃ extra, s'.ev = s.ev ++ extra ∧
    (extra = [] → { bot s' with ls := [] } = { bot s with ls := [] } ∧ ∀ k ∈ keys s.ls, k ∈ keys s'.ls)

theorem AddRel.refl (s : St) : AddRel s s := ⟨rfl, [], by simp, fun _ => ⟨rfl, fun _ h => h⟩⟩

theorem AddRel.trans {a b c : St} (h1 : AddRel a b) (h2 : AddRel b c) : AddRel a c := by
  obtain ⟨q1, e1, he1, f1⟩ := h1
  obtain ⟨q2, e2, he2, f2⟩ := h2
  refine ⟨q2.trans q1, e1 ++ e2, by rw [he2, he1, List.append_assoc], fun h => ?_⟩
  have h1' : e1 = [] := (List.append_eq_nil_iff.mp h).1
  have h2' : e2 = [] := (List.append_eq_nil_iff.mp h).2
  obtain ⟨b1, k1⟩ := f1 h1'
  obtain ⟨b2, k2⟩ := f2 h2'
  exact ⟨b2.trans b1, fun k hk => k2 k (k1 k hk)⟩

theorem keys_dictSet {β : Type} (d : List (Str × β)) (k : Str) (v : β) : ∀ x ∈ keys d, x ∈ keys (dictSet d k v) := by
  induction d with
  | nil => intro x hx; simp [keys] at hx
  | cons p ps ih =>
    obtain ⟨k', v'⟩ := p
    intro x hx
    unfold dictSet
    split
    · rename_i he; simp only [keys, List.map_cons, List.mem_cons] at hx ⊢
      rcases hx with rfl | hx
      · exact .inl he
      · exact .inr hx
    · simp only [keys, List.map_cons, List.mem_cons] at hx ⊢
      rcases hx with rfl | hx
      · exact .inl rfl
      · exact .inr (ih x hx)

theorem mem_keys_dictSet {β : Type} (d : List (Str × β)) (k : Str) (v : β) : k ∈ keys (dictSet d k v) := by
  induction d with
  | nil => simp [dictSet, keys]
  | cons p ps ih =>
    obtain ⟨k', v'⟩ := p
    unfold dictSet
    split
    · simp [keys]
    · simp only [keys, List.map_cons, List.mem_cons]; exact .inr ih

theorem addRel_setLs (k : Str) (v : Option Str) (s : St) : AddRel s (setLs k v s) :=
  ⟨rfl, [], by simp [setLs], fun _ => ⟨rfl, keys_dictSet s.ls k v⟩⟩

theorem addRel_event (o : Out) (s : St) : AddRel s (event o s) :=
  ⟨rfl, [o], rfl, fun h => by cases h⟩

theorem addRel_onCapSts (hd : cfg.realDriver = false) (policy : Str) (s : St) : AddRel s (onCapSts cfg policy s) := by
  unfold onCapSts
  split
  · exact .refl s
  · split
    · exact ⟨rfl, [], by simp, fun _ => ⟨rfl, fun _ h => h⟩⟩
    · rw [stub_reconnect hd]
      exact ⟨rfl, [.reconnect true (some ⟨s.drv.current.host, _, s.drv.current.attempt, true⟩)], rfl, fun h => by cases h⟩

theorem addRel_addCapability (hd : cfg.realDriver = false) (s : St) (item : Str) : AddRel s (addCapability cfg s item) := by
  unfold addCapability
  split
  · split
    · exact (addRel_onCapSts hd _ s).trans (addRel_setLs _ _ _)
    · exact addRel_setLs _ _ _
  · split
    · rw [stub_reconnect hd]; exact (addRel_event _ s).trans (addRel_setLs _ _ _)
    · exact addRel_setLs _ _ _

theorem addRel_addCapabilities (hd : cfg.realDriver = false) (caps : Str) (s : St) :
    AddRel s (addCapabilities cfg caps s) := by
  unfold addCapabilities
  generalize splitWs caps = l
  induction l generalizing s with
  | nil => exact .refl s
  | cons c cs ih => simp only [List.foldl_cons]; exact (addRel_addCapability hd s c).trans (ih _)

/-! ### the joint invariant -/

structure Common (cfg : Cfg) (b : Bot) (v : View) : Prop where
  mechsNext : ∀ m ∈ b.saslNext, mechAvailable cfg m = true
  mechsCur : ∀ m, b.saslCur = some m → mechAvailable cfg m = true
  nick0 : v.stage = 0 → b.nick = cfg.nick ∧ cfg.nick ∈ b.tried ∧ b.afterConnect = false

inductive Phase (cfg : Cfg) (b : Bot) (v : View) : Prop
  /-- capability negotiation: the final LS, or the answer to a CAP REQ, is owed -/
  | neg (h3 : v.v3 = true) (he : v.ended = false) (hs : v.stage = 0) (hf : b.fsm = .INIT_CAP_NEGOTIATION)
      (ha : v.auth = .none) (hauth : b.saslAuth = false) (hd : b.dec = none)
      (hls : v.lsOwed = true → b.req = [] ∧ b.ack = [] ∧ b.nak = [] ∧ v.reqs = [])
      (howe : v.lsOwed = false → v.reqs ≠ [])
      (hacc : ∀ c ∈ b.req, c ∈ b.ack ∨ c ∈ b.nak ∨ c ∈ v.reqs.flatten)
      (hkeys : (∀ c ∈ b.ack, c ∈ keys b.ls) ∧ (∀ c ∈ v.reqs.flatten, c ∈ keys b.ls))
      (hne : ∀ l ∈ v.reqs, l ≠ [])
  /-- SASL exchange: an answer to the mechanism request or to the credentials is owed -/
  | sasl (h3 : v.v3 = true) (he : v.ended = false) (hs : v.stage = 0) (hf : b.fsm = .INIT_SASL)
      (ha : v.auth.owed = true) (hauth : b.saslAuth = false) (hd : b.dec = none) (hcur : b.saslCur ≠ none)
      (hl : v.lsOwed = false) (hres : ∀ c ∈ b.req, c ∈ b.ack ∨ c ∈ b.nak)
  /-- CAP END sent: the welcome numerics are owed -/
  | waiting (h3 : v.v3 = true) (he : v.ended = true) (hs : v.stage ≤ 5) (hf : b.fsm = .INIT_WAITING_MOTD)
      (ha : v.auth = .none) (hl : v.lsOwed = false) (hres : ∀ c ∈ b.req, c ∈ b.ack ∨ c ∈ b.nak)
  /-- a server without capability negotiation: the welcome numerics are owed from the start -/
  | nocap (h3 : v.v3 = false) (hs : v.stage ≤ 5) (hf : b.fsm = .INIT_CAP_NEGOTIATION) (ha : v.auth = .none)
      (hreq : b.req = [])
  | motd (hw : canWelcome v = true) (hs : v.stage = 6) (hf : b.fsm = .INIT_MOTD) (ha : v.auth = .none)
      (hl : v.v3 = true → v.lsOwed = false) (hres : ∀ c ∈ b.req, c ∈ b.ack ∨ c ∈ b.nak)

/-- the conformant server still owes the client something (it has a move that is not a PING / notice) -/
def Owes (v : View) : Prop :=
  (v.v3 = true ∧ (v.lsOwed = true ∨ v.reqs ≠ [] ∨ v.auth.owed = true)) ∨ (canWelcome v = true ∧ v.stage < 7)

theorem owes_of_phase {cfg : Cfg} {b : Bot} {v : View} (p : Phase cfg b v) : Owes v := by
  cases p with
  | neg h3 he hs hf ha hauth hd hls howe hacc hkeys hne =>
    left; refine ⟨h3, ?_⟩
    cases h : v.lsOwed with
    | true => exact .inl rfl
    | false => exact .inr (.inl (howe h))
  | sasl h3 he hs hf ha hauth hd hcur hl _ => exact .inl ⟨h3, .inr (.inr ha)⟩
  | waiting h3 he hs hf ha hl _ => exact .inr ⟨by simp [canWelcome, he], by omega⟩
  | nocap h3 hs hf ha _ => exact .inr ⟨by simp [canWelcome, h3], by omega⟩
  | motd hw hs hf ha hl _ => exact .inr ⟨hw, by omega⟩

/-- aborted deliberately, or connected (end of MOTD seen), or the registration is in one of its phases -/
def Inv (cfg : Cfg) (s : St) (v : View) : Prop :=
  v.aborted = true ∨ s.afterConnect = true ∨ (Common cfg (bot s) v ∧ Phase cfg (bot s) v)

/-! ### what the server sees of a step -/

theorem seeOut_aborted (v : View) (o : Out) : (seeOut v o).aborted = v.aborted := by
  cases o <;> rfl

theorem fold_aborted (l : List Out) (v : View) : (l.foldl seeOut v).aborted = v.aborted := by
  induction l generalizing v with
  | nil => rfl
  | cons o os ih => simp only [List.foldl_cons, ih, seeOut_aborted]

theorem seeStep_aborted (v : View) (r : StepResult) (h : r.events ≠ []) : (seeStep v r).aborted = true := by
  unfold seeStep
  cases he : r.events with
  | nil => exact absurd he h
  | cons _ _ => simp

theorem seeStep_quiet (v : View) (r : StepResult) (h : r.events = []) (ha : v.aborted = false) :
    seeStep v r = r.fast.foldl seeOut v := by
  unfold seeStep
  have := fold_aborted r.fast v
  simp only [h, List.isEmpty_nil, Bool.not_true, Bool.or_false]

/-! ### the moves that leave the phase alone -/

theorem run_capLs {cfg : Cfg} {m : Msg} (hd : dispatch m = .capLs) (s : St) : runHandler cfg m s = doCapLs cfg m.args s := by
  unfold runHandler; rw [hd]

theorem run_capAck {cfg : Cfg} {m : Msg} (hd : dispatch m = .capAck) (s : St) : runHandler cfg m s = doCapAckNak cfg true m.args s := by
  unfold runHandler; rw [hd]

theorem run_capNak {cfg : Cfg} {m : Msg} (hd : dispatch m = .capNak) (s : St) : runHandler cfg m s = doCapAckNak cfg false m.args s := by
  unfold runHandler; rw [hd]

theorem run_authenticate {cfg : Cfg} {m : Msg} (hd : dispatch m = .authenticate) (s : St) : runHandler cfg m s = doAuthenticate cfg m.command m.args s := by
  unfold runHandler; rw [hd]

theorem run_n903 {cfg : Cfg} {m : Msg} (hd : dispatch m = .n903) (s : St) : runHandler cfg m s = do903 cfg s := by
  unfold runHandler; rw [hd]

theorem run_n904to907 {cfg : Cfg} {m : Msg} (hd : dispatch m = .n904to907) (s : St) : runHandler cfg m s = tryNextSasl cfg s := by
  unfold runHandler; rw [hd]

theorem run_n908 {cfg : Cfg} {m : Msg} (hd : dispatch m = .n908) (s : St) : runHandler cfg m s = do908 m.args s := by
  unfold runHandler; rw [hd]

theorem run_n002 {cfg : Cfg} {m : Msg} (hd : dispatch m = .n002) (s : St) : runHandler cfg m s = do002 m.args s := by
  unfold runHandler; rw [hd]

theorem run_n375 {cfg : Cfg} {m : Msg} (hd : dispatch m = .n375) (s : St) : runHandler cfg m s = do375 cfg s := by
  unfold runHandler; rw [hd]

theorem run_n376 {cfg : Cfg} {m : Msg} (hd : dispatch m = .n376) (s : St) : runHandler cfg m s = do376 cfg s := by
  unfold runHandler; rw [hd]

theorem run_n43x {cfg : Cfg} {m : Msg} (hd : dispatch m = .n43x) (s : St) : runHandler cfg m s = do43x cfg s := by
  unfold runHandler; rw [hd]

theorem run_ping {cfg : Cfg} {m : Msg} (hd : dispatch m = .ping) (s : St) : runHandler cfg m s = doPing m.args s := by
  unfold runHandler; rw [hd]

theorem run_none {cfg : Cfg} {m : Msg} (hd : dispatch m = .none) (s : St) : runHandler cfg m s = ok s := by
  unfold runHandler; rw [hd]

/-- a step that changes neither the bot fields nor the view keeps the invariant -/
theorem inv_unchanged {cfg : Cfg} {s s' : St} {v v' : View} (hb : bot s' = bot s) (hv : v' = v)
    (h : Common cfg (bot s) v ∧ Phase cfg (bot s) v) : Inv cfg s' v' := by
  subst hv; rw [← hb] at h; exact .inr (.inr h)

theorem pres_ping {cfg : Cfg} {s : St} {v : View} (x n : Str) (hq : s.fastq = [] ∧ s.ev = []) (ha : v.aborted = false)
    (h : Common cfg (bot s) v ∧ Phase cfg (bot s) v) :
    Inv cfg (step cfg s ⟨sPING, [x], n⟩).st (seeStep v (step cfg s ⟨sPING, [x], n⟩)) := by
  obtain ⟨f1, f2, f3⟩ := step_facts (cfg := cfg) s s ⟨sPING, [x], n⟩ (nickSetter_plain _ _ (show Gen.Conn.nickSetters.contains sPING = false by decide))
  rw [run_ping (show dispatch ⟨sPING, [x], n⟩ = .ping from rfl)] at f1 f2 f3
  simp only [doPing, ok, sendMsg, hq.1, hq.2, List.nil_append] at f1 f2 f3
  refine inv_unchanged f3 ?_ h
  rw [seeStep_quiet _ _ f2 ha, f1]; rfl

theorem pres_noop {cfg : Cfg} {s : St} {v : View} (m : Msg) (hd : dispatch m = .none)
    (hn : Gen.Conn.nickSetters.contains m.command = false) (hq : s.fastq = [] ∧ s.ev = []) (ha : v.aborted = false)
    (h : Common cfg (bot s) v ∧ Phase cfg (bot s) v) : Inv cfg (step cfg s m).st (seeStep v (step cfg s m)) := by
  obtain ⟨f1, f2, f3⟩ := step_facts (cfg := cfg) s s m (nickSetter_plain _ _ hn)
  rw [run_none hd] at f1 f2 f3
  simp only [ok, hq.1, hq.2] at f1 f2 f3
  refine inv_unchanged f3 ?_ h
  rw [seeStep_quiet _ _ f2 ha, f1]; rfl

/-- once `afterConnect` is set the invariant holds for good (stub driver: nothing takes it back) -/
theorem pres_connected {cfg : Cfg} (hd : cfg.realDriver = false) {s : St} (m : Msg) (v : View)
    (h : s.afterConnect = true) : Inv cfg (step cfg s m).st v :=
  .inr (.inl (afterConnect_moves hd (ref_feedMsg (cfg := cfg) m s) h))

/-! ### congruence of the phase predicate -/

/-- the bot fields the phases talk about -/
def pfields (b : Bot) := (b.fsm, b.ls, b.req, b.ack, b.nak, b.saslCur, b.saslAuth, b.dec)

theorem phase_congr {cfg : Cfg} {b b' : Bot} {v : View} (h : pfields b' = pfields b) (p : Phase cfg b v) : Phase cfg b' v := by
  simp only [pfields, Prod.mk.injEq] at h
  obtain ⟨e1, e2, e3, e4, e5, e6, e7, e8⟩ := h
  cases p with
  | neg h3 he hs hf ha hauth hd hls howe hacc hkeys hne =>
    exact .neg h3 he hs (e1 ▸ hf) ha (e7 ▸ hauth) (e8 ▸ hd) (by rw [e3, e4, e5]; exact hls) howe
      (by rw [e3, e4, e5]; exact hacc) (by rw [e2, e4]; exact hkeys) hne
  | sasl h3 he hs hf ha hauth hd hcur hl hres =>
    exact .sasl h3 he hs (e1 ▸ hf) ha (e7 ▸ hauth) (e8 ▸ hd) (e6 ▸ hcur) hl (by rw [e3, e4, e5]; exact hres)
  | waiting h3 he hs hf ha hl hres => exact .waiting h3 he hs (e1 ▸ hf) ha hl (by rw [e3, e4, e5]; exact hres)
  | nocap h3 hs hf ha hreq => exact .nocap h3 hs (e1 ▸ hf) ha (e3 ▸ hreq)
  | motd hw hs hf ha hl hres => exact .motd hw hs (e1 ▸ hf) ha hl (by rw [e3, e4, e5]; exact hres)

/-- in the phases in which the welcome may arrive, the stage may advance up to 5 -/
theorem phase_stage {cfg : Cfg} {b : Bot} {v : View} (k : Nat) (hk : k ≤ 5) (hw : canWelcome v = true) (hs : v.stage ≤ 5)
    (p : Phase cfg b v) : Phase cfg b { v with stage := k } := by
  cases p with
  | neg h3 he _ _ _ _ _ _ _ _ _ _ => simp [canWelcome, h3, he] at hw
  | sasl h3 he _ _ _ _ _ _ _ _ => simp [canWelcome, h3, he] at hw
  | waiting h3 he _ hf ha hl hres => exact .waiting h3 he hk hf ha hl hres
  | nocap h3 _ hf ha hreq => exact .nocap h3 hk hf ha hreq
  | motd _ hs6 _ _ _ _ => omega

/-! ### welcome numerics 001–005 -/

theorem welcome_setter (k : Nat) (hk : 1 ≤ k ∧ k ≤ 5) : Gen.Conn.nickSetters.contains (welcomeNumeric k) = true := by
  obtain ⟨h1, h2⟩ := hk
  have : k = 1 ∨ k = 2 ∨ k = 3 ∨ k = 4 ∨ k = 5 := by omega
  rcases this with rfl | rfl | rfl | rfl | rfl <;> decide

theorem welcome_dispatch (k : Nat) (hk : 1 ≤ k ∧ k ≤ 5) (a : List Str) (n : Str) :
    dispatch ⟨welcomeNumeric k, a, n⟩ = .none ∨ dispatch ⟨welcomeNumeric k, a, n⟩ = .n002 := by
  obtain ⟨h1, h2⟩ := hk
  have : k = 1 ∨ k = 2 ∨ k = 3 ∨ k = 4 ∨ k = 5 := by omega
  rcases this with rfl | rfl | rfl | rfl | rfl
  · exact .inl rfl
  · exact .inr rfl
  · exact .inl rfl
  · exact .inl rfl
  · exact .inl rfl

theorem do002_st (args : List Str) (s : St) : (do002 args s).st = s := by
  unfold do002; split
  · rfl
  · split <;> rfl

theorem pres_welcome {cfg : Cfg} {s : St} {v : View} (k : Nat) (a : Str) (args : List Str) (n : Str)
    (hw : canWelcome v = true) (hk : 1 ≤ k ∧ k ≤ 5) (hs : v.stage + 1 = k)
    (hq : s.fastq = [] ∧ s.ev = []) (ha : v.aborted = false) (h : Common cfg (bot s) v ∧ Phase cfg (bot s) v) :
    Inv cfg (step cfg s ⟨welcomeNumeric k, a :: args, n⟩).st
      (seeStep { v with stage := k } (step cfg s ⟨welcomeNumeric k, a :: args, n⟩)) := by
  obtain ⟨f1, f2, f3⟩ := step_facts (cfg := cfg) s { s with nick := a } ⟨welcomeNumeric k, a :: args, n⟩
    (nickSetter_numeric _ _ _ _ _ (welcome_setter k hk))
  have hst : (runHandler cfg ⟨welcomeNumeric k, a :: args, n⟩ { s with nick := a }).st = { s with nick := a } := by
    rcases welcome_dispatch k hk (a :: args) n with hd | hd
    · rw [run_none hd]; rfl
    · rw [run_n002 hd]; exact do002_st _ _
  rw [hst] at f1 f2 f3
  simp only [hq.1, hq.2] at f1 f2
  rw [seeStep_quiet { v with stage := k } _ f2 ha, f1]
  obtain ⟨hc, hp⟩ := h
  refine .inr (.inr ⟨⟨?_, ?_, ?_⟩, ?_⟩)
  · rw [f3]; exact hc.mechsNext
  · rw [f3]; exact hc.mechsCur
  · intro h0; simp only [List.foldl_nil] at h0; omega
  · rw [f3]
    exact phase_congr (b := bot s) rfl (phase_stage k hk.2 hw (by omega) hp)

theorem pres_motdLine {cfg : Cfg} {s : St} {v : View} (a : Str) (args : List Str) (n : Str) (hs : v.stage = 6)
    (hq : s.fastq = [] ∧ s.ev = []) (ha : v.aborted = false) (h : Common cfg (bot s) v ∧ Phase cfg (bot s) v) :
    Inv cfg (step cfg s ⟨num '3' '7' '2', a :: args, n⟩).st (seeStep v (step cfg s ⟨num '3' '7' '2', a :: args, n⟩)) := by
  obtain ⟨f1, f2, f3⟩ := step_facts (cfg := cfg) s { s with nick := a } ⟨num '3' '7' '2', a :: args, n⟩
    (nickSetter_numeric _ _ _ _ _ (show Gen.Conn.nickSetters.contains (num '3' '7' '2') = true by decide))
  rw [run_none (show dispatch ⟨num '3' '7' '2', a :: args, n⟩ = .none from rfl)] at f1 f2 f3
  simp only [ok, hq.1, hq.2] at f1 f2
  rw [seeStep_quiet v _ f2 ha, f1]
  obtain ⟨hc, hp⟩ := h
  refine .inr (.inr ⟨⟨?_, ?_, ?_⟩, ?_⟩)
  · rw [f3]; exact hc.mechsNext
  · rw [f3]; exact hc.mechsCur
  · intro h0; simp only [List.foldl_nil] at h0; omega
  · rw [f3]; exact phase_congr (b := bot s) rfl hp

/-! ### MOTD -/

theorem do375_stub {cfg : Cfg} (hd : cfg.realDriver = false) (s : St)
    (hf : s.fsm = .INIT_CAP_NEGOTIATION ∨ s.fsm = .INIT_WAITING_MOTD) :
    do375 cfg s = (if saslMissing cfg s = true then ok (event (.reconnect true none) s) else ok { s with fsm := .INIT_MOTD }) := by
  unfold do375
  split
  · rw [stub_reconnect hd]
  · unfold transition
    have hg : Gen.Conn.guardStartMotd.contains s.fsm = true := by
      rcases hf with hf | hf <;> rw [hf]
      · exact tabP_motd.2.2.1
      · exact tabP_motd.2.2.2.1
    simp only [hg, if_true, tabP_motd.1]

theorem do376_stub {cfg : Cfg} (hd : cfg.realDriver = false) (s : St)
    (hf : s.fsm = .INIT_CAP_NEGOTIATION ∨ s.fsm = .INIT_WAITING_MOTD ∨ s.fsm = .INIT_MOTD) :
    do376 cfg s = (if saslMissing cfg s = true then ok (event (.reconnect true none) s)
      else ok { s with fsm := .CONNECTED, afterConnect := true, altNicks := cfg.alternates }) := by
  unfold do376
  split
  · rw [stub_reconnect hd]
  · unfold transition
    have hg : Gen.Conn.guardEndMotd.contains s.fsm = true := by
      rcases hf with hf | hf | hf <;> rw [hf]
      · exact tabP_motd.2.2.2.2.1
      · exact tabP_motd.2.2.2.2.2.1
      · exact tabP_motd.2.2.2.2.2.2
    simp only [hg, if_true, tabP_motd.2.1, bind_ok]

theorem inv_aborted {cfg : Cfg} {s : St} {v : View} {r : StepResult} (h : r.events ≠ []) : Inv cfg s (seeStep v r) :=
  .inl (seeStep_aborted v r h)

theorem phase_fsm_welcome {cfg : Cfg} {b : Bot} {v : View} (hw : canWelcome v = true) (hs : v.stage ≤ 5) (p : Phase cfg b v) :
    (b.fsm = .INIT_CAP_NEGOTIATION ∨ b.fsm = .INIT_WAITING_MOTD) ∧ v.auth = .none ∧ (v.v3 = true → v.lsOwed = false) ∧
    (∀ c ∈ b.req, c ∈ b.ack ∨ c ∈ b.nak) := by
  cases p with
  | neg h3 he _ _ _ _ _ _ _ _ _ _ => simp [canWelcome, h3, he] at hw
  | sasl h3 he _ _ _ _ _ _ _ _ => simp [canWelcome, h3, he] at hw
  | waiting h3 he _ hf ha hl hres => exact ⟨.inr hf, ha, fun _ => hl, hres⟩
  | nocap h3 _ hf ha hreq => exact ⟨.inl hf, ha, fun h => (by rw [h3] at h; cases h), fun c hc => (by rw [hreq] at hc; cases hc)⟩
  | motd _ hs6 _ _ _ _ => omega

theorem pres_motdStart {cfg : Cfg} (hd : cfg.realDriver = false) {s : St} {v : View} (a : Str) (args : List Str) (n : Str)
    (hw : canWelcome v = true) (hs : v.stage = 5)
    (hq : s.fastq = [] ∧ s.ev = []) (ha : v.aborted = false) (h : Common cfg (bot s) v ∧ Phase cfg (bot s) v) :
    Inv cfg (step cfg s ⟨num '3' '7' '5', a :: args, n⟩).st
      (seeStep { v with stage := 6 } (step cfg s ⟨num '3' '7' '5', a :: args, n⟩)) := by
  obtain ⟨f1, f2, f3⟩ := step_facts (cfg := cfg) s { s with nick := a } ⟨num '3' '7' '5', a :: args, n⟩
    (nickSetter_numeric _ _ _ _ _ (show Gen.Conn.nickSetters.contains (num '3' '7' '5') = true by decide))
  obtain ⟨hc, hp⟩ := h
  obtain ⟨hfsm, hauth, hl, hres⟩ := phase_fsm_welcome hw (by omega) hp
  have hrun := run_n375 (cfg := cfg) (show dispatch ⟨num '3' '7' '5', a :: args, n⟩ = .n375 from rfl) ({ s with nick := a } : St)
  have h375 := do375_stub hd ({ s with nick := a } : St) hfsm
  by_cases hm : saslMissing cfg ({ s with nick := a } : St) = true
  · rw [if_pos hm] at h375
    rw [hrun, h375] at f2
    exact inv_aborted (by rw [f2]; simp [ok, event])
  · rw [if_neg hm] at h375
    rw [hrun, h375] at f1 f2 f3
    simp only [ok, hq.1, hq.2] at f1 f2
    rw [seeStep_quiet { v with stage := 6 } _ f2 ha, f1]
    refine .inr (.inr ⟨⟨?_, ?_, ?_⟩, ?_⟩)
    · rw [f3]; exact hc.mechsNext
    · rw [f3]; exact hc.mechsCur
    · intro h0; simp at h0
    · rw [f3]; exact .motd hw rfl rfl hauth hl hres

theorem pres_endMotd {cfg : Cfg} (hd : cfg.realDriver = false) {s s1 : St} {v' : View} (m : Msg)
    (hn : nickSetter m s = ok s1) (hdisp : dispatch m = .n376) (hb : bot s1 = { bot s with nick := s1.nick })
    (he : s1.ev = s.ev) (hfq : s1.fastq = s.fastq)
    (hf : s.fsm = .INIT_CAP_NEGOTIATION ∨ s.fsm = .INIT_WAITING_MOTD ∨ s.fsm = .INIT_MOTD)
    (hq : s.fastq = [] ∧ s.ev = []) : Inv cfg (step cfg s m).st (seeStep v' (step cfg s m)) := by
  obtain ⟨f1, f2, f3⟩ := step_facts (cfg := cfg) s s1 m hn
  have hf1 : s1.fsm = .INIT_CAP_NEGOTIATION ∨ s1.fsm = .INIT_WAITING_MOTD ∨ s1.fsm = .INIT_MOTD := by
    have : s1.fsm = s.fsm := congrArg Bot.fsm hb
    rw [this]; exact hf
  have h376 := do376_stub hd s1 hf1
  by_cases hm : saslMissing cfg s1 = true
  · rw [if_pos hm] at h376
    rw [run_n376 hdisp, h376] at f2
    exact inv_aborted (by rw [f2]; simp [ok, event])
  · rw [if_neg hm] at h376
    rw [run_n376 hdisp, h376] at f3
    exact .inr (.inl (congrArg Bot.afterConnect f3))

/-! ### nick collisions before the welcome -/

def isNickOut : Out → Bool
  | .nick _ => true
  | .nickRandom => true
  | _ => false

theorem seeOut_nick (v : View) (o : Out) (h : isNickOut o = true) : seeOut v o = v := by
  cases o <;> first | rfl | cases h

/-- Irc.do43x before the welcome, the start nick being a tried one: a new NICK is always sent -/
theorem do43x_sends {cfg : Cfg} (s : St) (ha : s.afterConnect = false) (hn : s.nick = cfg.nick) (ht : cfg.nick ∈ s.tried) :
    ∃ o alt tr, isNickOut o = true ∧ do43x cfg s = ok (sendMsg o { s with altNicks := alt, tried := tr }) ∧
      ∀ x ∈ s.tried, x ∈ tr := by
  have htc : s.tried.contains cfg.nick = true := by simpa using ht
  unfold do43x
  rw [if_neg (by rw [ha]; exact Bool.false_ne_true)]
  unfold getNextNick
  cases hal : s.altNicks with
  | nil =>
    simp only [nickFallback]
    rw [if_pos htc]
    exact ⟨.nickRandom, [], s.tried, rfl, by rw [← hal], fun _ h => h⟩
  | cons a rest =>
    simp only
    by_cases hc : s.tried.contains (altNick cfg a) = true
    · rw [if_pos hc]
      simp only [nickFallback]
      rw [if_pos htc]
      exact ⟨.nickRandom, rest, s.tried, rfl, rfl, fun _ h => h⟩
    · rw [if_neg hc]
      have hne : altNick cfg a ≠ s.nick := by
        intro he; rw [he, hn] at hc; exact hc htc
      simp only
      rw [if_neg hne]
      exact ⟨.nick (altNick cfg a), rest, s.tried ++ [altNick cfg a], rfl, rfl, fun x h => List.mem_append_left _ h⟩

theorem refusal_dispatch (c : Str) (hc : isNickRefusal c = true) (args : List Str) (n : Str) :
    dispatch ⟨c, args, n⟩ = .n43x ∧ Gen.Conn.nickSetters.contains c = false := by
  unfold isNickRefusal at hc
  simp only [Bool.or_eq_true, decide_eq_true_eq] at hc
  rcases hc with (rfl | rfl) | rfl <;> exact ⟨rfl, by decide⟩

theorem pres_nickRefused {cfg : Cfg} {s : St} {v : View} (c : Str) (args : List Str) (n : Str)
    (hs : v.stage = 0) (hc : isNickRefusal c = true)
    (hq : s.fastq = [] ∧ s.ev = []) (ha : v.aborted = false) (h : Common cfg (bot s) v ∧ Phase cfg (bot s) v) :
    Inv cfg (step cfg s ⟨c, args, n⟩).st (seeStep v (step cfg s ⟨c, args, n⟩)) := by
  obtain ⟨hd, hns⟩ := refusal_dispatch c hc args n
  obtain ⟨f1, f2, f3⟩ := step_facts (cfg := cfg) s s ⟨c, args, n⟩ (nickSetter_plain _ _ hns)
  obtain ⟨hcm, hp⟩ := h
  obtain ⟨h1, h2, h3⟩ := hcm.nick0 hs
  obtain ⟨o, alt, tr, ho, hdo, htr⟩ := do43x_sends (cfg := cfg) s h3 h1 h2
  rw [run_n43x hd, hdo] at f1 f2 f3
  simp only [ok, sendMsg, hq.1, hq.2, List.nil_append] at f1 f2
  rw [seeStep_quiet v _ f2 ha, f1]
  simp only [List.foldl_cons, List.foldl_nil, seeOut_nick v o ho]
  refine .inr (.inr ⟨⟨?_, ?_, ?_⟩, ?_⟩)
  · rw [f3]; exact hcm.mechsNext
  · rw [f3]; exact hcm.mechsCur
  · intro _; rw [f3]; exact ⟨h1, htr _ h2, h3⟩
  · rw [f3]; exact phase_congr (b := bot s) rfl hp

/-! ### RPL_SASLMECHS (908): the handler fails, nothing changes -/

theorem pres_mechs {cfg : Cfg} {s : St} {v : View} (args : List Str) (n : Str)
    (hq : s.fastq = [] ∧ s.ev = []) (ha : v.aborted = false) (h : Common cfg (bot s) v ∧ Phase cfg (bot s) v) :
    Inv cfg (step cfg s ⟨num '9' '0' '8', args, n⟩).st (seeStep v (step cfg s ⟨num '9' '0' '8', args, n⟩)) := by
  obtain ⟨f1, f2, f3⟩ := step_facts (cfg := cfg) s s ⟨num '9' '0' '8', args, n⟩
    (nickSetter_plain _ _ (show Gen.Conn.nickSetters.contains (num '9' '0' '8') = false by decide))
  have hst : (do908 args s).st = s := by unfold do908; split <;> rfl
  rw [run_n908 (show dispatch ⟨num '9' '0' '8', args, n⟩ = .n908 from rfl), hst] at f1 f2 f3
  simp only [hq.1, hq.2] at f1 f2
  refine inv_unchanged f3 ?_ h
  rw [seeStep_quiet _ _ f2 ha, f1]; rfl

/-! ### the SASL exchange -/

theorem bot_of_pcore {s s' : St} (h : pcore s' = pcore s) : bot s' = bot s ∧ s'.ev = s.ev := by
  simp only [pcore, Prod.mk.injEq] at h
  obtain ⟨h1, h2, h3, h4, h5, h6, h7, h8, h9, h10, h11, h12, h13, h14⟩ := h
  exact ⟨by simp [bot, *], h14⟩

theorem seeOut_payload (o : Out) (h : isPayloadOut o = true) : ∃ x, ∀ v : View, seeOut v o = { v with auth := x } := by
  cases o <;> first | exact ⟨_, fun _ => rfl⟩ | cases h

theorem fold_payload_aux (outs : List Out) (hall : ∀ o ∈ outs, isPayloadOut o = true) (v : View) :
    ∃ x, outs.foldl seeOut v = { v with auth := x } := by
  induction outs generalizing v with
  | nil => exact ⟨v.auth, rfl⟩
  | cons o os ih =>
    obtain ⟨x, hx⟩ := seeOut_payload o (hall o List.mem_cons_self)
    obtain ⟨y, hy⟩ := ih (fun q hq => hall q (List.mem_cons_of_mem _ hq)) { v with auth := x }
    exact ⟨y, by rw [List.foldl_cons, hx, hy]⟩

/-- the server has a complete answer in front of it once the lines of an `Answer` arrived -/
theorem fold_payload (outs : List Out) (v : View) (h : Answer outs) : outs.foldl seeOut v = { v with auth := .payload } := by
  obtain ⟨hall, init, o, rfl, hfin⟩ := h
  obtain ⟨x, hx⟩ := fold_payload_aux init (fun q hq => hall q (List.mem_append_left _ hq)) v
  rw [List.foldl_append, hx]
  simp only [List.foldl_cons, List.foldl_nil]
  cases o with
  | authPayload c =>
    simp only [isFinalOut, bne_iff_ne, ne_eq] at hfin
    simp [seeOut, hfin]
  | authOpaque => rfl
  | authAbort => rfl
  | _ => cases hfin

theorem owed_ne_none {a : AuthSt} (h : a.owed = true) : a ≠ .none := by
  intro he; rw [he] at h; cases h

theorem phase_sasl_of_auth {cfg : Cfg} {b : Bot} {v : View} (ha : v.auth ≠ .none) (p : Phase cfg b v) :
    v.v3 = true ∧ v.ended = false ∧ v.stage = 0 ∧ b.fsm = .INIT_SASL ∧ b.saslAuth = false ∧ b.dec = none ∧
    b.saslCur ≠ none ∧ v.lsOwed = false ∧ (∀ c ∈ b.req, c ∈ b.ack ∨ c ∈ b.nak) := by
  cases p with
  | neg _ _ _ _ h _ _ _ _ _ _ _ => exact absurd h ha
  | sasl h3 he hs hf _ hauth hd hcur hl hres => exact ⟨h3, he, hs, hf, hauth, hd, hcur, hl, hres⟩
  | waiting _ _ _ _ h _ _ => exact absurd h ha
  | nocap _ _ _ h _ => exact absurd h ha
  | motd _ _ _ h _ _ => exact absurd h ha

theorem pres_authContinue {cfg : Cfg} {s : St} {v : View} (c n : Str) (hav : v.auth.owed = true)
    (hc : c = sPlus ∨ (c.length ≠ Gen.Conn.authenticateChunkSize ∧ (b64decodedLen [c]).isSome = true))
    (hq : s.fastq = [] ∧ s.ev = []) (ha : v.aborted = false) (h : Common cfg (bot s) v ∧ Phase cfg (bot s) v) :
    Inv cfg (step cfg s ⟨sAUTHENTICATE, [c], n⟩).st
      (seeStep { v with auth := .none } (step cfg s ⟨sAUTHENTICATE, [c], n⟩)) := by
  obtain ⟨hcm, hp⟩ := h
  obtain ⟨h3, he, hs, hf, hauth, hd, hcur, hl, hres⟩ := phase_sasl_of_auth (owed_ne_none hav) hp
  obtain ⟨f1, f2, f3⟩ := step_facts (cfg := cfg) s s ⟨sAUTHENTICATE, [c], n⟩
    (nickSetter_plain _ _ (show Gen.Conn.nickSetters.contains sAUTHENTICATE = false by decide))
  rw [run_authenticate (show dispatch ⟨sAUTHENTICATE, [c], n⟩ = .authenticate from rfl)] at f1 f2 f3
  cases hm : s.saslCur with
  | none => exact absurd hm hcur
  | some m =>
    obtain ⟨outs, o1, o3, o4⟩ := doAuthenticate_sasl (cfg := cfg) s c hf hd hc m hm (hcm.mechsCur m hm)
    obtain ⟨hb, hev⟩ := bot_of_pcore o4
    simp only at f1 f2 f3
    rw [o3, hq.1, List.nil_append] at f1
    rw [hev, hq.2] at f2
    rw [hb] at f3
    rw [seeStep_quiet { v with auth := .none } _ f2 ha, f1, fold_payload outs _ o1]
    refine .inr (.inr ⟨⟨?_, ?_, ?_⟩, ?_⟩)
    · rw [f3]; exact hcm.mechsNext
    · rw [f3]; exact hcm.mechsCur
    · intro _; rw [f3]; exact hcm.nick0 hs
    · rw [f3]; exact .sasl h3 he hs hf rfl hauth hd hcur hl hres

/-- Irc.do903 in INIT_SASL: authenticated, back to the negotiation state, CAP END at once -/
theorem do903_sasl {cfg : Cfg} (hd : cfg.realDriver = false) (s : St) (hf : s.fsm = .INIT_SASL) :
    do903 cfg s = ok (sendMsg .capEnd { s with saslAuth := true, fsm := .INIT_WAITING_MOTD, endCount := s.endCount + 1 }) := by
  unfold do903 expectState
  rw [hf, if_pos tabP_sasl.2.2.2.2, bind_ok]
  unfold onSaslAuthFinished tableTransition
  simp only [hf, tabP_sasl.2.1, bind_ok, if_true]
  rw [endCap_neg hd _ rfl]
  simp [saslMissing]

theorem pres_authOk {cfg : Cfg} (hd : cfg.realDriver = false) {s : St} {v : View} (args : List Str) (n : Str)
    (hav : v.auth = .payload) (hq : s.fastq = [] ∧ s.ev = []) (ha : v.aborted = false)
    (h : Common cfg (bot s) v ∧ Phase cfg (bot s) v) :
    Inv cfg (step cfg s ⟨num '9' '0' '3', args, n⟩).st
      (seeStep { v with auth := .none } (step cfg s ⟨num '9' '0' '3', args, n⟩)) := by
  obtain ⟨hcm, hp⟩ := h
  obtain ⟨h3, he, hs, hf, hauth, hdec, hcur, hl, hres⟩ := phase_sasl_of_auth (by rw [hav]; simp) hp
  obtain ⟨f1, f2, f3⟩ := step_facts (cfg := cfg) s s ⟨num '9' '0' '3', args, n⟩
    (nickSetter_plain _ _ (show Gen.Conn.nickSetters.contains (num '9' '0' '3') = false by decide))
  rw [run_n903 (show dispatch ⟨num '9' '0' '3', args, n⟩ = .n903 from rfl), do903_sasl hd s hf] at f1 f2 f3
  simp only [ok, sendMsg, hq.1, hq.2, List.nil_append] at f1 f2
  rw [seeStep_quiet { v with auth := .none } _ f2 ha, f1]
  simp only [List.foldl_cons, List.foldl_nil, seeOut]
  refine .inr (.inr ⟨⟨?_, ?_, ?_⟩, ?_⟩)
  · rw [f3]; exact hcm.mechsNext
  · rw [f3]; exact hcm.mechsCur
  · intro _; rw [f3]; exact hcm.nick0 hs
  · rw [f3]; exact .waiting h3 rfl (by simp only; omega) rfl rfl hl hres

theorem fail_dispatch (c : Str) (hc : isFailNumeric c = true) (args : List Str) (n : Str) :
    dispatch ⟨c, args, n⟩ = .n904to907 ∧ Gen.Conn.nickSetters.contains c = false := by
  unfold isFailNumeric at hc
  simp only [Bool.or_eq_true, decide_eq_true_eq] at hc
  rcases hc with ((rfl | rfl) | rfl) | rfl <;> exact ⟨rfl, by decide⟩

theorem pres_authFail {cfg : Cfg} (hd : cfg.realDriver = false) {s : St} {v : View} (c : Str) (args : List Str) (n : Str)
    (hav : v.auth.owed = true) (hc : isFailNumeric c = true) (hq : s.fastq = [] ∧ s.ev = []) (ha : v.aborted = false)
    (h : Common cfg (bot s) v ∧ Phase cfg (bot s) v) :
    Inv cfg (step cfg s ⟨c, args, n⟩).st (seeStep { v with auth := .none } (step cfg s ⟨c, args, n⟩)) := by
  obtain ⟨hcm, hp⟩ := h
  obtain ⟨h3, he, hs, hf, hauth, hdec, hcur, hl, hres⟩ := phase_sasl_of_auth (owed_ne_none hav) hp
  obtain ⟨hdisp, hns⟩ := fail_dispatch c hc args n
  obtain ⟨f1, f2, f3⟩ := step_facts (cfg := cfg) s s ⟨c, args, n⟩ (nickSetter_plain _ _ hns)
  have ht := tryNext_sasl (cfg := cfg) hd s hf
  rw [run_n904to907 hdisp] at f1 f2 f3
  cases hnx : s.saslNext with
  | cons m rest =>
    rw [hnx] at ht; simp only at ht
    rw [ht] at f1 f2 f3
    simp only [ok, sendMsg, hq.1, hq.2, List.nil_append] at f1 f2
    rw [seeStep_quiet { v with auth := .none } _ f2 ha, f1]
    simp only [List.foldl_cons, List.foldl_nil, seeOut]
    have hmem : m ∈ (bot s).saslNext := by show m ∈ s.saslNext; rw [hnx]; exact List.mem_cons_self
    refine .inr (.inr ⟨⟨?_, ?_, ?_⟩, ?_⟩)
    · rw [f3]; intro x hx; exact hcm.mechsNext x (by show x ∈ s.saslNext; rw [hnx]; exact List.mem_cons_of_mem _ hx)
    · rw [f3]; intro x hx
      have : m = x := by simpa [bot, sendMsg, ok] using hx
      rw [← this]; exact hcm.mechsNext m hmem
    · intro _; rw [f3]; exact hcm.nick0 hs
    · rw [f3]; exact .sasl h3 he hs hf rfl hauth hdec (by simp [bot, sendMsg, ok]) hl hres
  | nil =>
    rw [hnx] at ht; simp only at ht
    by_cases hr : cfg.required = true
    · rw [if_pos hr] at ht
      rw [ht] at f2
      exact inv_aborted (by rw [f2]; simp [ok, event])
    · rw [if_neg hr] at ht
      rw [ht] at f1 f2 f3
      simp only [ok, sendMsg, hq.1, hq.2, List.nil_append] at f1 f2
      rw [seeStep_quiet { v with auth := .none } _ f2 ha, f1]
      simp only [List.foldl_cons, List.foldl_nil, seeOut]
      refine .inr (.inr ⟨⟨?_, ?_, ?_⟩, ?_⟩)
      · rw [f3]; intro x hx; simp [bot, sendMsg, ok] at hx
      · rw [f3]; intro x hx; simp [bot, sendMsg, ok] at hx
      · intro _; rw [f3]; exact hcm.nick0 hs
      · rw [f3]; exact .waiting h3 rfl (by simp only; omega) rfl rfl hl hres

/-! ### list / set / dictionary facts used by the CAP moves -/

theorem mem_union {a b : List Str} {c : Str} : c ∈ union a b ↔ c ∈ a ∨ c ∈ b := by
  unfold union
  induction b generalizing a with
  | nil => simp
  | cons x xs ih =>
    simp only [List.foldl_cons]
    split
    · rename_i hc
      rw [ih]; simp only [List.mem_cons]
      have hx : x ∈ a := by simpa using hc
      constructor
      · rintro (h | h)
        · exact .inl h
        · exact .inr (.inr h)
      · rintro (h | h | h)
        · exact .inl h
        · exact .inl (h ▸ hx)
        · exact .inr h
    · rw [ih]; simp only [List.mem_append, List.mem_cons, List.not_mem_nil, or_false]
      constructor
      · rintro ((h | h) | h)
        · exact .inl h
        · exact .inr (.inl h)
        · exact .inr (.inr h)
      · rintro (h | h | h)
        · exact .inl (.inl h)
        · exact .inl (.inr h)
        · exact .inr h

theorem subset_iff {a b : List Str} : subset a b = true ↔ ∀ x ∈ a, x ∈ b := by
  simp [subset, List.all_eq_true]

theorem dictGet_of_mem_keys {β : Type} {d : List (Str × β)} {k : Str} (h : k ∈ keys d) : ∃ v, dictGet d k = some v := by
  induction d with
  | nil => simp [keys] at h
  | cons p ps ih =>
    obtain ⟨k', v'⟩ := p
    unfold dictGet
    by_cases he : k' = k
    · exact ⟨v', by simp [he]⟩
    · simp only [he, if_false]
      simp only [keys, List.map_cons, List.mem_cons] at h
      rcases h with h | h
      · exact absurd h.symm he
      · exact ih h

theorem fillGo_ne {width : Nat} {l : List Str} : ∀ {cur : List Str} {n : Nat} {line : List Str},
    cur ≠ [] → line ∈ fillGo width l cur n → line ≠ [] := by
  induction l with
  | nil => intro cur n line hc h; simp only [fillGo, List.mem_singleton] at h; rw [h]; exact hc
  | cons w ws ih =>
    intro cur n line hc h
    unfold fillGo at h
    split at h
    · exact ih (by simp) h
    · simp only [List.mem_cons] at h
      rcases h with rfl | h
      · exact hc
      · exact ih (by simp) h

theorem fill_ne {width : Nat} {l line : List Str} (h : line ∈ fill width l) : line ≠ [] := by
  cases l with
  | nil => simp [fill] at h
  | cons w ws => exact fillGo_ne (by simp) h

theorem fillGo_covers {width : Nat} {l : List Str} : ∀ {cur : List Str} {n : Nat} {w : Str},
    (w ∈ cur ∨ w ∈ l) → ∃ line ∈ fillGo width l cur n, w ∈ line := by
  induction l with
  | nil =>
    intro cur n w h
    rcases h with h | h
    · exact ⟨cur, by simp [fillGo], h⟩
    · simp at h
  | cons x xs ih =>
    intro cur n w h
    unfold fillGo
    split
    · apply ih
      rcases h with h | h
      · exact .inl (List.mem_append_left _ h)
      · simp only [List.mem_cons] at h
        rcases h with rfl | h
        · exact .inl (by simp)
        · exact .inr h
    · rcases h with h | h
      · exact ⟨cur, List.mem_cons_self, h⟩
      · simp only [List.mem_cons] at h
        have : w ∈ [x] ∨ w ∈ xs := by
          rcases h with rfl | h
          · exact .inl (by simp)
          · exact .inr h
        obtain ⟨line, hl, hw⟩ := ih (cur := [x]) (n := x.length) this
        exact ⟨line, List.mem_cons_of_mem _ hl, hw⟩

theorem fill_covers {width : Nat} {l : List Str} {w : Str} (h : w ∈ l) : ∃ line ∈ fill width l, w ∈ line := by
  cases l with
  | nil => simp at h
  | cons x xs =>
    simp only [fill]
    apply fillGo_covers
    simp only [List.mem_cons] at h
    rcases h with rfl | h
    · exact .inl (by simp)
    · exact .inr h

theorem fill_eq_nil {width : Nat} {l : List Str} (h : fill width l = []) : l = [] := by
  cases l with
  | nil => rfl
  | cons w ws =>
    exfalso
    obtain ⟨line, hl, _⟩ := fill_covers (width := width) (l := w :: ws) (w := w) List.mem_cons_self
    rw [h] at hl; cases hl

theorem fold_capReq (lines : List (List Str)) (v : View) :
    (lines.map Out.capReq).foldl seeOut v = { v with reqs := v.reqs ++ lines } := by
  induction lines generalizing v with
  | nil => simp
  | cons l ls ih => simp only [List.map_cons, List.foldl_cons, seeOut, ih, List.append_assoc, List.singleton_append]

theorem mem_flatten_of {ls : List (List Str)} {l : List Str} {c : Str} (hl : l ∈ ls) (hc : c ∈ l) : c ∈ ls.flatten :=
  List.mem_flatten.mpr ⟨l, hl, hc⟩

/-! ### CAP LS -/

def cfields (b : Bot) := (b.saslNext, b.saslCur, b.nick, b.tried, b.afterConnect)

theorem common_congr {cfg : Cfg} {b b' : Bot} {v : View} (h : cfields b' = cfields b) (c : Common cfg b v) : Common cfg b' v := by
  simp only [cfields, Prod.mk.injEq] at h
  obtain ⟨e1, e2, e3, e4, e5⟩ := h
  exact ⟨e1 ▸ c.mechsNext, e2 ▸ c.mechsCur, fun h0 => by rw [e3, e4, e5]; exact c.nick0 h0⟩

theorem common_view {cfg : Cfg} {b : Bot} {v v' : View} (h : v'.stage = v.stage) (c : Common cfg b v) : Common cfg b v' :=
  ⟨c.mechsNext, c.mechsCur, fun h0 => c.nick0 (h ▸ h0)⟩

theorem bot_eq_mod_ls {b b' : Bot} (h : ({ b' with ls := [] } : Bot) = { b with ls := [] }) :
    cfields b' = cfields b ∧ b'.fsm = b.fsm ∧ b'.req = b.req ∧ b'.ack = b.ack ∧ b'.nak = b.nak ∧
    b'.saslAuth = b.saslAuth ∧ b'.dec = b.dec ∧ b'.saslCur = b.saslCur := by
  cases b; cases b'
  simp only [Bot.mk.injEq] at h
  obtain ⟨h1, _, h3, h4, h5, h6, h7, h8, h9, h10, h11, h12, h13⟩ := h
  subst_vars
  simp [cfields]

theorem phase_neg_of_lsOwed {cfg : Cfg} {b : Bot} {v : View} (h3 : v.v3 = true) (ho : v.lsOwed = true) (p : Phase cfg b v) :
    v.ended = false ∧ v.stage = 0 ∧ b.fsm = .INIT_CAP_NEGOTIATION ∧ v.auth = .none ∧ b.saslAuth = false ∧ b.dec = none ∧
    b.req = [] ∧ b.ack = [] ∧ b.nak = [] ∧ v.reqs = [] := by
  cases p with
  | neg _ he hs hf ha hauth hd hls _ _ _ _ => obtain ⟨a, b, c, d⟩ := hls ho; exact ⟨he, hs, hf, ha, hauth, hd, a, b, c, d⟩
  | sasl _ _ _ _ _ _ _ _ hl _ => rw [ho] at hl; cases hl
  | waiting _ _ _ _ _ hl _ => rw [ho] at hl; cases hl
  | nocap h3' _ _ _ _ => rw [h3] at h3'; cases h3'
  | motd _ _ _ _ hl _ => have := hl h3; rw [ho] at this; cases this

theorem doCapLs_more {cfg : Cfg} (t caps : Str) (s : St) :
    doCapLs cfg [t, sLS, sStar, caps] s = ok (addCapabilities cfg caps s) := by
  unfold doCapLs; simp

theorem doCapLs_final {cfg : Cfg} (t caps : Str) (s : St) :
    doCapLs cfg [t, sLS, caps] s = capLsFinal cfg (addCapabilities cfg caps s) := by
  unfold doCapLs; rfl

theorem pres_lsMore {cfg : Cfg} (hd : cfg.realDriver = false) {s : St} {v : View} (t caps n : Str)
    (h3 : v.v3 = true) (ho : v.lsOwed = true) (hq : s.fastq = [] ∧ s.ev = []) (ha : v.aborted = false)
    (h : Common cfg (bot s) v ∧ Phase cfg (bot s) v) :
    Inv cfg (step cfg s ⟨sCAP, [t, sLS, sStar, caps], n⟩).st (seeStep v (step cfg s ⟨sCAP, [t, sLS, sStar, caps], n⟩)) := by
  obtain ⟨hcm, hp⟩ := h
  obtain ⟨f1, f2, f3⟩ := step_facts (cfg := cfg) s s ⟨sCAP, [t, sLS, sStar, caps], n⟩
    (nickSetter_plain _ _ (show Gen.Conn.nickSetters.contains sCAP = false by decide))
  rw [run_capLs (show dispatch ⟨sCAP, [t, sLS, sStar, caps], n⟩ = .capLs from rfl)] at f1 f2 f3
  simp only [doCapLs_more, ok] at f1 f2 f3
  obtain ⟨a1, extra, a2, a3⟩ := addRel_addCapabilities hd caps s
  cases extra with
  | cons e es => exact inv_aborted (by rw [f2, a2]; simp)
  | nil =>
    obtain ⟨hb, hk⟩ := a3 rfl
    rw [a1, hq.1] at f1
    rw [a2, hq.2] at f2
    rw [seeStep_quiet v _ (by simpa using f2) ha, f1]
    simp only [List.foldl_nil]
    obtain ⟨he, hs, hf, hau, hauth, hdec, hr, hak, hnk, hrq⟩ := phase_neg_of_lsOwed h3 ho hp
    obtain ⟨e_c, e_fsm, e_req, e_ack, e_nak, e_auth, e_dec, _⟩ := bot_eq_mod_ls hb
    refine .inr (.inr ⟨?_, ?_⟩)
    · rw [f3]; exact common_congr e_c hcm
    · rw [f3]
      refine .neg h3 he hs (e_fsm.trans hf) hau (e_auth.trans hauth) (e_dec.trans hdec)
        (fun _ => ⟨e_req.trans hr, e_ack.trans hak, e_nak.trans hnk, hrq⟩) (fun h => by rw [ho] at h; cases h) ?_ ?_ ?_
      · intro c hc; rw [e_req.trans hr] at hc; cases hc
      · refine ⟨fun c hc => ?_, fun c hc => ?_⟩
        · rw [e_ack.trans hak] at hc; cases hc
        · rw [hrq] at hc; simp at hc
      · intro l hl; rw [hrq] at hl; cases hl

theorem foldl_capReq_eq (lines : List (List Str)) (s : St) :
    lines.foldl (fun s l => sendMsg (.capReq l) s) s = { s with fastq := s.fastq ++ lines.map Out.capReq } := by
  induction lines generalizing s with
  | nil => simp
  | cons l ls ih => rw [List.foldl_cons, ih]; simp [sendMsg]

theorem requestCaps_eq (caps : List Str) (s : St) :
    requestCaps caps s = { s with req := union s.req (arrangeCaps s.ack caps),
                                  fastq := s.fastq ++ (fill capReqWidth (arrangeCaps s.ack caps)).map Out.capReq } := by
  unfold requestCaps
  simp only [foldl_capReq_eq]

/-- the end-of-LS branch in INIT_CAP_NEGOTIATION -/
theorem capLsFinal_neg {cfg : Cfg} (s : St) (hf : s.fsm = .INIT_CAP_NEGOTIATION) :
    capLsFinal cfg s =
      (if (fill capReqWidth (arrangeCaps s.ack (newCaps s))).isEmpty = true then endCap cfg (requestCaps (newCaps s) s)
       else ok (requestCaps (newCaps s) s)) := by
  unfold capLsFinal expectState
  rw [if_neg (by rw [hf]; decide), hf, if_pos tabP_ls, bind_ok]

theorem endCap_ev_ne {cfg : Cfg} (hd : cfg.realDriver = false) (s : St) (h : s.ev ≠ []) : (endCap cfg s).st.ev ≠ [] := by
  unfold endCap
  split
  · rw [stub_reconnect hd]; simp [ok, event]
  · unfold onCapEnd transition
    simp only
    by_cases hg : Gen.Conn.guardCapEnd.contains s.fsm = true
    · rw [if_pos hg, bind_ok]; simpa [ok, sendMsg] using h
    · rw [if_neg hg]; simpa [raise, R.bind] using h

theorem requestCaps_ev (caps : List Str) (s : St) : (requestCaps caps s).ev = s.ev := by rw [requestCaps_eq]

theorem capLsFinal_ev_ne {cfg : Cfg} (hd : cfg.realDriver = false) (s : St) (h : s.ev ≠ []) : (capLsFinal cfg s).st.ev ≠ [] := by
  unfold capLsFinal
  split
  · exact h
  · unfold expectState
    by_cases hg : Gen.Conn.expectDoCapLs.contains s.fsm = true
    · rw [if_pos hg, bind_ok]
      split
      · exact endCap_ev_ne hd _ (by rw [requestCaps_ev]; exact h)
      · simp only [ok]; rw [requestCaps_ev]; exact h
    · rw [if_neg hg]; simpa [raise, R.bind] using h

theorem pres_lsFinal {cfg : Cfg} (hd : cfg.realDriver = false) {s : St} {v : View} (t caps n : Str)
    (h3 : v.v3 = true) (ho : v.lsOwed = true) (hq : s.fastq = [] ∧ s.ev = []) (ha : v.aborted = false)
    (h : Common cfg (bot s) v ∧ Phase cfg (bot s) v) :
    Inv cfg (step cfg s ⟨sCAP, [t, sLS, caps], n⟩).st
      (seeStep { v with lsOwed := false } (step cfg s ⟨sCAP, [t, sLS, caps], n⟩)) := by
  obtain ⟨hcm, hp⟩ := h
  obtain ⟨f1, f2, f3⟩ := step_facts (cfg := cfg) s s ⟨sCAP, [t, sLS, caps], n⟩
    (nickSetter_plain _ _ (show Gen.Conn.nickSetters.contains sCAP = false by decide))
  rw [run_capLs (show dispatch ⟨sCAP, [t, sLS, caps], n⟩ = .capLs from rfl)] at f1 f2 f3
  simp only [doCapLs_final] at f1 f2 f3
  obtain ⟨a1, extra, a2, a3⟩ := addRel_addCapabilities hd caps s
  cases extra with
  | cons e es =>
    exact inv_aborted (by rw [f2]; exact capLsFinal_ev_ne hd _ (by rw [a2]; simp))
  | nil =>
    obtain ⟨hb, hk⟩ := a3 rfl
    obtain ⟨e_c, e_fsm, e_req, e_ack, e_nak, e_auth, e_dec, e_cur⟩ := bot_eq_mod_ls hb
    obtain ⟨he, hs, hf, hau, hauth, hdec, hr, hak, hnk, hrq⟩ := phase_neg_of_lsOwed h3 ho hp
    generalize hs1 : addCapabilities cfg caps s = s1 at *
    have hf1 : s1.fsm = .INIT_CAP_NEGOTIATION := e_fsm.trans hf
    have hq1 : s1.fastq = [] := a1.trans hq.1
    have he1 : s1.ev = [] := by rw [a2, hq.2]; rfl
    rw [capLsFinal_neg s1 hf1] at f1 f2 f3
    have hreq1 : s1.req = [] := e_req.trans hr
    have hack1 : s1.ack = [] := e_ack.trans hak
    by_cases hemp : (fill capReqWidth (arrangeCaps s1.ack (newCaps s1))).isEmpty = true
    · -- nothing to request: CAP END (or abort when SASL is required)
      rw [if_pos hemp] at f1 f2 f3
      have hfill : fill capReqWidth (arrangeCaps s1.ack (newCaps s1)) = [] := by simpa using hemp
      have hrc : requestCaps (newCaps s1) s1 = { s1 with req := union s1.req (arrangeCaps s1.ack (newCaps s1)) } := by
        rw [requestCaps_eq, hfill]; simp
      have he2 := endCap_neg (cfg := cfg) hd ({ s1 with req := union s1.req (arrangeCaps s1.ack (newCaps s1)) } : St) hf1
      rw [hrc, he2] at f1 f2 f3
      by_cases hm : saslMissing cfg ({ s1 with req := union s1.req (arrangeCaps s1.ack (newCaps s1)) } : St) = true
      · rw [if_pos hm] at f2
        exact inv_aborted (by rw [f2]; simp [ok, event])
      · rw [if_neg hm] at f1 f2 f3
        simp only [ok, sendMsg, hq1, he1, List.nil_append] at f1 f2
        rw [seeStep_quiet { v with lsOwed := false } _ f2 ha, f1]
        simp only [List.foldl_cons, List.foldl_nil, seeOut]
        refine .inr (.inr ⟨?_, ?_⟩)
        · rw [f3]; exact common_congr (b := bot s) e_c (common_view (v := v) rfl hcm)
        · rw [f3]
          refine .waiting h3 rfl (by simp only; omega) rfl hau rfl ?_
          intro c hc
          have hc' : c ∈ union s1.req (arrangeCaps s1.ack (newCaps s1)) := hc
          rw [mem_union, hreq1, fill_eq_nil hfill] at hc'
          rcases hc' with h | h <;> cases h
    · -- CAP REQ lines go out
      rw [if_neg hemp] at f1 f2 f3
      rw [requestCaps_eq] at f1 f2 f3
      simp only [ok, hq1, he1, List.nil_append] at f1 f2
      rw [seeStep_quiet { v with lsOwed := false } _ f2 ha, f1, fold_capReq]
      simp only [hrq, List.nil_append]
      have hne : fill capReqWidth (arrangeCaps s1.ack (newCaps s1)) ≠ [] := by simpa using hemp
      refine .inr (.inr ⟨?_, ?_⟩)
      · rw [f3]; exact common_congr (b := bot s) e_c (common_view (v := v) rfl hcm)
      · rw [f3]
        refine .neg h3 he hs hf1 hau (e_auth.trans hauth) (e_dec.trans hdec) (fun h => by cases h) (fun _ => hne) ?_ ?_ ?_
        · intro c hc
          have hc' : c ∈ union s1.req (arrangeCaps s1.ack (newCaps s1)) := hc
          rw [mem_union, hreq1] at hc'
          rcases hc' with hc' | hc'
          · cases hc'
          · obtain ⟨line, hl, hw⟩ := fill_covers (width := capReqWidth) hc'
            exact .inr (.inr (mem_flatten_of hl hw))
        · refine ⟨fun c hc => ?_, fun c hc => ?_⟩
          · have : c ∈ s1.ack := hc
            rw [hack1] at this; cases this
          · obtain ⟨line, hl, hw⟩ := List.mem_flatten.mp hc
            exact (mem_newCaps (mem_arrangeCaps (mem_fill hl c hw))).1
        · intro l hl; exact fill_ne hl

/-! ### CAP ACK / CAP NAK -/

/-- the state Irc.doCapAck / doCapNak hand to capUpkeep -/
def ackNakSt (isAck : Bool) (l : List Str) (s : St) : St :=
  if isAck then { s with ack := union s.ack l, saslAcked := s.saslAcked || (union s.ack l).contains sSasl }
  else { s with nak := union s.nak l }

theorem doCapAckNak_eq {cfg : Cfg} (isAck : Bool) (t sub caps : Str) (s : St) :
    doCapAckNak cfg isAck [t, sub, caps] s =
      (if (splitWs caps).isEmpty = true then raise "AssertionError" s else capUpkeep cfg (ackNakSt isAck (splitWs caps) s)) := by
  unfold doCapAckNak ackNakSt
  simp only
  split
  · rfl
  · cases isAck <;> simp

def newAck (isAck : Bool) (l : List Str) (s : St) : List Str := if isAck then union s.ack l else s.ack
def newNak (isAck : Bool) (l : List Str) (s : St) : List Str := if isAck then s.nak else union s.nak l

theorem ackNakSt_facts (isAck : Bool) (l : List Str) (s : St) :
    bot (ackNakSt isAck l s) = { bot s with ack := newAck isAck l s, nak := newNak isAck l s } ∧
    (ackNakSt isAck l s).fastq = s.fastq ∧ (ackNakSt isAck l s).ev = s.ev ∧
    (ackNakSt isAck l s).ack = newAck isAck l s ∧ (ackNakSt isAck l s).nak = newNak isAck l s ∧
    (ackNakSt isAck l s).req = s.req ∧ (ackNakSt isAck l s).fsm = s.fsm ∧ (ackNakSt isAck l s).ls = s.ls ∧
    (ackNakSt isAck l s).saslAuth = s.saslAuth ∧ (ackNakSt isAck l s).saslNext = s.saslNext := by
  cases isAck <;> simp [ackNakSt, newAck, newNak, bot]

theorem newAckNak_mem (isAck : Bool) (l : List Str) (s : St) :
    (∀ c ∈ s.ack, c ∈ newAck isAck l s) ∧ (∀ c ∈ s.nak, c ∈ newNak isAck l s) ∧
    (∀ c ∈ l, c ∈ newAck isAck l s ∨ c ∈ newNak isAck l s) ∧ (∀ c ∈ newAck isAck l s, c ∈ s.ack ∨ c ∈ l) := by
  cases isAck
  · simp only [newAck, newNak, Bool.false_eq_true, if_false]
    exact ⟨fun _ h => h, fun c h => mem_union.mpr (.inl h), fun c h => .inr (mem_union.mpr (.inr h)), fun c h => .inl h⟩
  · simp only [newAck, newNak, if_true]
    exact ⟨fun c h => mem_union.mpr (.inl h), fun _ h => h, fun c h => .inl (mem_union.mpr (.inr h)), fun c h => mem_union.mp h⟩

theorem filteredNext_sub {next : List Str} {v : Option Str} {x : Str} (h : x ∈ filteredNext next v) : x ∈ next := by
  unfold filteredNext at h
  cases v with
  | none => exact h
  | some y => simp only [filterMechs, List.mem_filter] at h; exact h.1

/-- the phases other than the negotiation itself only see the acknowledged / refused sets change -/
theorem phase_ackNak {cfg : Cfg} {b : Bot} {v : View} (A N : List Str) (rest : List (List Str))
    (hA : ∀ c ∈ b.ack, c ∈ A) (hN : ∀ c ∈ b.nak, c ∈ N)
    (hne : b.fsm ≠ .INIT_CAP_NEGOTIATION) (p : Phase cfg b v) : Phase cfg { b with ack := A, nak := N } { v with reqs := rest } := by
  have grow : (∀ c ∈ b.req, c ∈ b.ack ∨ c ∈ b.nak) → ∀ c ∈ b.req, c ∈ A ∨ c ∈ N := fun h c hc => by
    rcases h c hc with h | h
    · exact .inl (hA c h)
    · exact .inr (hN c h)
  cases p with
  | neg _ _ _ hf _ _ _ _ _ _ _ _ => exact absurd hf hne
  | sasl h3 he hs hf ha hauth hd hcur hl hres => exact .sasl h3 he hs hf ha hauth hd hcur hl (grow hres)
  | waiting h3 he hs hf ha hl hres => exact .waiting h3 he hs hf ha hl (grow hres)
  | nocap h3 hs hf ha _ => exact absurd hf hne
  | motd hw hs hf ha hl hres => exact .motd hw hs hf ha hl (grow hres)

theorem phase_fsm_of_reqs {cfg : Cfg} {b : Bot} {v : View} (h3 : v.v3 = true) (p : Phase cfg b v) :
    b.fsm = .INIT_CAP_NEGOTIATION ∨ b.fsm = .INIT_SASL ∨ b.fsm = .INIT_WAITING_MOTD ∨ b.fsm = .INIT_MOTD := by
  cases p with
  | neg _ _ _ hf _ _ _ _ _ _ _ _ => exact .inl hf
  | sasl _ _ _ hf _ _ _ _ _ _ => exact .inr (.inl hf)
  | waiting _ _ _ hf _ _ _ => exact .inr (.inr (.inl hf))
  | nocap h3' _ _ _ _ => rw [h3] at h3'; cases h3'
  | motd _ _ hf _ _ _ => exact .inr (.inr (.inr hf))

theorem run_ackNak {cfg : Cfg} (isAck : Bool) (t sub caps n : Str)
    (hdisp : dispatch ⟨sCAP, [t, sub, caps], n⟩ = (if isAck then .capAck else .capNak)) (s : St) :
    runHandler cfg ⟨sCAP, [t, sub, caps], n⟩ s = doCapAckNak cfg isAck [t, sub, caps] s := by
  cases isAck
  · rw [run_capNak (by simpa using hdisp)]
  · rw [run_capAck (by simpa using hdisp)]

theorem pres_ackNak {cfg : Cfg} (hd : cfg.realDriver = false) {s : St} {v : View} (isAck : Bool) (t sub caps n : Str)
    (hdisp : dispatch ⟨sCAP, [t, sub, caps], n⟩ = (if isAck then .capAck else .capNak))
    (ws : List Str) (rest : List (List Str)) (h3 : v.v3 = true) (hrq : v.reqs = ws :: rest) (hw : splitWs caps = ws)
    (hq : s.fastq = [] ∧ s.ev = []) (ha : v.aborted = false) (h : Common cfg (bot s) v ∧ Phase cfg (bot s) v) :
    Inv cfg (step cfg s ⟨sCAP, [t, sub, caps], n⟩).st
      (seeStep { v with reqs := rest } (step cfg s ⟨sCAP, [t, sub, caps], n⟩)) := by
  obtain ⟨hcm, hp⟩ := h
  obtain ⟨f1, f2, f3⟩ := step_facts (cfg := cfg) s s ⟨sCAP, [t, sub, caps], n⟩
    (nickSetter_plain _ _ (show Gen.Conn.nickSetters.contains sCAP = false by decide))
  rw [run_ackNak isAck t sub caps n hdisp, doCapAckNak_eq, hw] at f1 f2 f3
  obtain ⟨b1, b2, b3, b4, b5, b6, b7, b8, b9, b10⟩ := ackNakSt_facts isAck ws s
  obtain ⟨m1, m2, m3, m4⟩ := newAckNak_mem isAck ws s
  by_cases hneg : s.fsm = .INIT_CAP_NEGOTIATION
  · -- the negotiation phase proper
    cases hp with
    | sasl _ _ _ hf _ _ _ _ _ _ => rw [show (bot s).fsm = s.fsm from rfl, hneg] at hf; cases hf
    | waiting _ _ _ hf _ _ _ => rw [show (bot s).fsm = s.fsm from rfl, hneg] at hf; cases hf
    | nocap h3' _ _ _ _ => rw [h3] at h3'; cases h3'
    | motd _ _ hf _ _ _ => rw [show (bot s).fsm = s.fsm from rfl, hneg] at hf; cases hf
    | neg _ he hs hf hau hauth hdec hls howe hacc hkeys hne =>
      have hlo : v.lsOwed = false := by
        cases hlo : v.lsOwed with
        | false => rfl
        | true => have := (hls hlo).2.2.2; rw [hrq] at this; cases this
      have hwsne : ws ≠ [] := hne ws (by rw [hrq]; exact List.mem_cons_self)
      have hwe : ws.isEmpty = false := by cases ws <;> simp_all
      rw [hwe] at f1 f2 f3
      simp only [Bool.false_eq_true, if_false] at f1 f2 f3
      have hfs' : (ackNakSt isAck ws s).fsm = .INIT_CAP_NEGOTIATION := b7.trans hneg
      rw [capUpkeep_neg hd _ hfs', b4, b5, b6] at f1 f2 f3
      -- accounting for the new sets
      have hacc' : ∀ c ∈ s.req, c ∈ newAck isAck ws s ∨ c ∈ newNak isAck ws s ∨ c ∈ rest.flatten := by
        intro c hc
        rcases hacc c hc with h | h | h
        · exact .inl (m1 c h)
        · exact .inr (.inl (m2 c h))
        · rw [hrq, List.flatten_cons, List.mem_append] at h
          rcases h with h | h
          · rcases m3 c h with h | h
            · exact .inl h
            · exact .inr (.inl h)
          · exact .inr (.inr h)
      have hkeysA : ∀ c ∈ newAck isAck ws s, c ∈ keys s.ls := by
        intro c hc
        rcases m4 c hc with h | h
        · exact hkeys.1 c h
        · exact hkeys.2 c (by rw [hrq, List.flatten_cons]; exact List.mem_append_left _ h)
      by_cases hun : subset (newAck isAck ws s ++ newNak isAck ws s) s.req = true
      · simp only [hun, Bool.not_true, Bool.false_eq_true, if_false] at f1 f2 f3
        by_cases hall : subset s.req (newAck isAck ws s ++ newNak isAck ws s) = true
        · have hresN : ∀ c ∈ s.req, c ∈ newAck isAck ws s ∨ c ∈ newNak isAck ws s := fun c hc =>
            List.mem_append.mp (subset_iff.mp hall c hc)
          simp only [hall, if_true] at f1 f2 f3
          by_cases hsasl : (newAck isAck ws s).contains sSasl = true
          · -- SASL starts
            simp only [hsasl, if_true] at f1 f2 f3
            obtain ⟨v0, hv0⟩ := dictGet_of_mem_keys (hkeysA sSasl (by simpa using hsasl))
            have hms := maybeStartSasl_neg (cfg := cfg) (ackNakSt isAck ws s) hfs' (b9.trans hauth)
              (by rw [b4]; exact hsasl) v0 (by rw [b8]; exact hv0)
            have htn := tryNext_sasl (cfg := cfg) hd
              ({ ackNakSt isAck ws s with fsm := .INIT_SASL, saslNext := filteredNext (ackNakSt isAck ws s).saslNext v0 } : St) rfl
            rw [hms, htn] at f1 f2 f3
            simp only at f1 f2 f3
            cases hfn : filteredNext (ackNakSt isAck ws s).saslNext v0 with
            | cons m r =>
              simp only [hfn, ok, sendMsg, b2, b3, hq.1, hq.2, List.nil_append] at f1 f2 f3
              rw [seeStep_quiet { v with reqs := rest } _ f2 ha, f1]
              simp only [List.foldl_cons, List.foldl_nil, seeOut]
              have hmem : ∀ x ∈ m :: r, x ∈ s.saslNext := fun x hx => by
                have : x ∈ filteredNext (ackNakSt isAck ws s).saslNext v0 := by rw [hfn]; exact hx
                exact b10 ▸ filteredNext_sub this
              refine .inr (.inr ⟨⟨?_, ?_, ?_⟩, ?_⟩)
              · rw [f3]; intro x hx; exact hcm.mechsNext x (hmem x (List.mem_cons_of_mem _ hx))
              · rw [f3]; intro x hx
                have : m = x := by simpa [bot] using hx
                rw [← this]; exact hcm.mechsNext m (hmem m List.mem_cons_self)
              · intro _; rw [f3]
                have := hcm.nick0 hs
                cases isAck <;> simpa [bot, ackNakSt] using this
              · rw [f3]; exact .sasl h3 he hs rfl rfl (by cases isAck <;> simpa [bot, ackNakSt] using hauth)
                  (by cases isAck <;> simpa [bot, ackNakSt] using hdec) (by simp [bot]) hlo
                  (by show ∀ c ∈ (ackNakSt isAck ws s).req, c ∈ (ackNakSt isAck ws s).ack ∨ c ∈ (ackNakSt isAck ws s).nak
                      rw [b4, b5, b6]; exact hresN)
            | nil =>
              rw [hfn] at f1 f2 f3
              by_cases hr : cfg.required = true
              · simp only [hr, if_true, ok, event] at f2
                exact inv_aborted (by rw [f2]; simp)
              · simp only [hr, Bool.false_eq_true, if_false, ok, sendMsg, b2, b3, hq.1, hq.2, List.nil_append] at f1 f2 f3
                rw [seeStep_quiet { v with reqs := rest } _ f2 ha, f1]
                simp only [List.foldl_cons, List.foldl_nil, seeOut]
                refine .inr (.inr ⟨⟨?_, ?_, ?_⟩, ?_⟩)
                · rw [f3]; intro x hx; simp [bot] at hx
                · rw [f3]; intro x hx; simp [bot] at hx
                · intro _; rw [f3]
                  have := hcm.nick0 hs
                  cases isAck <;> simpa [bot, ackNakSt] using this
                · rw [f3]; exact .waiting h3 rfl (by simp only; omega) rfl hau hlo
                    (by show ∀ c ∈ (ackNakSt isAck ws s).req, c ∈ (ackNakSt isAck ws s).ack ∨ c ∈ (ackNakSt isAck ws s).nak
                        rw [b4, b5, b6]; exact hresN)
          · -- no sasl: CAP END
            simp only [hsasl, Bool.false_eq_true, if_false] at f1 f2 f3
            have hec := endCap_neg (cfg := cfg) hd (ackNakSt isAck ws s) hfs'
            rw [hec] at f1 f2 f3
            by_cases hm : saslMissing cfg (ackNakSt isAck ws s) = true
            · rw [if_pos hm] at f2
              exact inv_aborted (by rw [f2]; simp [ok, event])
            · rw [if_neg hm] at f1 f2 f3
              simp only [ok, sendMsg, b2, b3, hq.1, hq.2, List.nil_append] at f1 f2
              rw [seeStep_quiet { v with reqs := rest } _ f2 ha, f1]
              simp only [List.foldl_cons, List.foldl_nil, seeOut]
              refine .inr (.inr ⟨?_, ?_⟩)
              · rw [f3]
                refine common_congr (b := bot s) ?_ (common_view (v := v) rfl hcm)
                cases isAck <;> simp [cfields, bot, ackNakSt, sendMsg, ok]
              · rw [f3]; exact .waiting h3 rfl (by simp only; omega) rfl hau hlo
                  (by show ∀ c ∈ (ackNakSt isAck ws s).req, c ∈ (ackNakSt isAck ws s).ack ∨ c ∈ (ackNakSt isAck ws s).nak
                      rw [b4, b5, b6]; exact hresN)
        · -- still waiting for the answer to another CAP REQ
          simp only [hall, Bool.false_eq_true, if_false, ok, b2, b3, hq.1, hq.2] at f1 f2 f3
          rw [seeStep_quiet { v with reqs := rest } _ f2 ha, f1]
          simp only [List.foldl_nil]
          have hrest : rest ≠ [] := by
            intro hre
            apply hall
            rw [subset_iff]
            intro c hc
            rcases hacc' c hc with h | h | h
            · exact List.mem_append_left _ h
            · exact List.mem_append_right _ h
            · rw [hre] at h; simp at h
          refine .inr (.inr ⟨?_, ?_⟩)
          · rw [f3, b1]; exact common_congr (b := bot s) rfl (common_view (v := v) rfl hcm)
          · rw [f3, b1]
            refine .neg h3 he hs hneg hau hauth hdec (fun h => by rw [hlo] at h; cases h) (fun _ => hrest) hacc' ⟨hkeysA, ?_⟩ ?_
            · intro c hc
              exact hkeys.2 c (by rw [hrq, List.flatten_cons]; exact List.mem_append_right _ hc)
            · intro l hl; exact hne l (by rw [hrq]; exact List.mem_cons_of_mem _ hl)
      · -- an answer for something that was not requested: the bot drops the connection
        simp only [hun, Bool.not_false, if_true, ok, event] at f2
        exact inv_aborted (by rw [f2]; simp)
  · -- any other phase: capUpkeep's state check fails, only the sets change
    have hfsm := phase_fsm_of_reqs h3 hp
    have hcont : Gen.Conn.expectCapUpkeep.contains s.fsm = false := by
      rcases hfsm with h | h | h | h
      · exact absurd h hneg
      · rw [show s.fsm = .INIT_SASL from h]; exact tabP_upkeep.2.1
      · rw [show s.fsm = .INIT_WAITING_MOTD from h]; exact tabP_upkeep.2.2.1
      · rw [show s.fsm = .INIT_MOTD from h]; exact tabP_upkeep.2.2.2
    by_cases hwe : ws.isEmpty = true
    · simp only [hwe, if_true, raise, hq.1, hq.2] at f1 f2 f3
      rw [seeStep_quiet { v with reqs := rest } _ f2 ha, f1]
      simp only [List.foldl_nil]
      refine .inr (.inr ⟨?_, ?_⟩)
      · rw [f3]; exact common_view (v := v) rfl hcm
      · rw [f3]
        have := phase_ackNak (cfg := cfg) (b := bot s) (v := v) s.ack s.nak rest (fun _ h => h) (fun _ h => h) hneg hp
        exact this
    · simp only [hwe, Bool.false_eq_true, if_false] at f1 f2 f3
      rw [capUpkeep_raises _ (by rw [b7]; exact hcont)] at f1 f2 f3
      simp only [raise, b2, b3, hq.1, hq.2] at f1 f2 f3
      rw [seeStep_quiet { v with reqs := rest } _ f2 ha, f1]
      simp only [List.foldl_nil]
      refine .inr (.inr ⟨?_, ?_⟩)
      · rw [f3, b1]; exact common_congr (b := bot s) rfl (common_view (v := v) rfl hcm)
      · rw [f3, b1]; exact phase_ackNak _ _ rest m1 m2 hneg hp

/-! ### joint histories and the invariant along them -/

/-- the bot and a conformant server, from `Irc()` on: the server makes a move, the bot reacts, the server
sees the reaction; nothing more happens on this connection once the bot has aborted -/
inductive PReach (cfg : Cfg) (base : St) (v3 : Bool) : St → View → Prop
  | start : PReach cfg base v3 (start cfg base).st (seeStep { v3 := v3 } (start cfg base))
  | step {s : St} {v v1 : View} {m : Msg} : PReach cfg base v3 s v → v.aborted = false → SrvMove v m v1 →
      PReach cfg base v3 (step cfg s m).st (seeStep v1 (step cfg s m))

theorem bot_initSt (cfg : Cfg) (base : St) :
    bot (initSt cfg base) = ⟨.INIT_CAP_NEGOTIATION, [], [], [], [], cfg.mechanisms.filter (mechAvailable cfg), none, false, none,
      cfg.nick, cfg.alternates, [cfg.nick], false⟩ := by
  unfold initSt queueConnectMessages transition clearForReset resetSasl
  have h := tab_init
  simp only [h.2, if_true, ok, bot, h.1, List.nil_append]

theorem seeOut_connect (v : View) (o : Out) (h : o.kind = .connect ∨ o.kind = .nick) : seeOut v o = v := by
  cases o <;> first | rfl | (rcases h with h | h <;> cases h)

theorem fold_connect (cfg : Cfg) (n : Str) (v : View) : (connectMsgs cfg n).foldl seeOut v = v := by
  unfold connectMsgs
  by_cases h : cfg.password.isEmpty = true <;> simp [h, seeOut]

theorem start_facts (cfg : Cfg) (base : St) :
    (start cfg base).fast = connectMsgs cfg cfg.nick ∧ (start cfg base).events = [] ∧
    bot (start cfg base).st = bot (initSt cfg base) := by
  refine ⟨?_, ?_, rfl⟩
  · show (initSt cfg base).fastq = _
    unfold initSt queueConnectMessages transition clearForReset resetSasl
    simp only [tab_init.2, if_true, ok, List.nil_append]
  · show (initSt cfg base).ev = _
    unfold initSt queueConnectMessages transition clearForReset resetSasl
    simp only [tab_init.2, if_true, ok]

theorem inv_start (cfg : Cfg) (base : St) (v3 : Bool) :
    Inv cfg (start cfg base).st (seeStep { v3 := v3 } (start cfg base)) := by
  obtain ⟨f1, f2, f3⟩ := start_facts cfg base
  rw [seeStep_quiet _ _ f2 rfl, f1, fold_connect]
  refine .inr (.inr ⟨⟨?_, ?_, ?_⟩, ?_⟩)
  · rw [f3, bot_initSt]; intro m hm; exact (List.mem_filter.mp hm).2
  · rw [f3, bot_initSt]; intro m hm; cases hm
  · intro _; rw [f3, bot_initSt]; exact ⟨rfl, by simp, rfl⟩
  · rw [f3, bot_initSt]
    cases v3 with
    | true =>
      exact .neg rfl rfl rfl rfl rfl rfl rfl (fun _ => ⟨rfl, rfl, rfl, rfl⟩) (fun h => by cases h)
        (fun c hc => by cases hc) ⟨fun c hc => (by cases hc), fun c hc => (by simp at hc)⟩ (fun l hl => by cases hl)
    | false => exact .nocap rfl (by simp) rfl rfl rfl

theorem preach_drained {cfg : Cfg} {base : St} {v3 : Bool} {s : St} {v : View} (r : PReach cfg base v3 s v) :
    s.fastq = [] ∧ s.ev = [] := by
  cases r <;> exact ⟨rfl, rfl⟩

/-- the invariant holds along every joint history (stub driver: an abort ends the epoch) -/
theorem inv_preach {cfg : Cfg} (hd : cfg.realDriver = false) {base : St} {v3 : Bool} {s : St} {v : View}
    (r : PReach cfg base v3 s v) : Inv cfg s v := by
  induction r with
  | start => exact inv_start cfg base v3
  | step r0 hna mv ih =>
    rename_i s v v1 m
    have hq := preach_drained r0
    rcases ih with h | h | h
    · rw [hna] at h; cases h
    · exact pres_connected hd m _ h
    · cases mv
      case ping x n => exact pres_ping x n hq hna h
      case noop hdm hn => exact pres_noop _ hdm hn hq hna h
      case lsMore t caps n h3 ho => exact pres_lsMore hd t caps n h3 ho hq hna h
      case lsFinal t caps n h3 ho => exact pres_lsFinal hd t caps n h3 ho hq hna h
      case ack t caps n ws rest h3 hrq hw => exact pres_ackNak hd true t sACK caps n rfl ws rest h3 hrq hw hq hna h
      case nak t caps n ws rest h3 hrq hw => exact pres_ackNak hd false t sNAK caps n rfl ws rest h3 hrq hw hq hna h
      case authContinue c n h3 hav hc => exact pres_authContinue c n hav hc hq hna h
      case authOk args n h3 hav => exact pres_authOk hd args n hav hq hna h
      case authFail c args n h3 hav hc => exact pres_authFail hd c args n hav hc hq hna h
      case mechs args n hav => exact pres_mechs args n hq hna h
      case nickRefused c args n hs hc => exact pres_nickRefused c args n hs hc hq hna h
      case welcome k a args n hw hk hs => exact pres_welcome k a args n hw hk hs hq hna h
      case motdStart a args n hw hs => exact pres_motdStart hd a args n hw hs hq hna h
      case motdLine a args n hw hs => exact pres_motdLine a args n hs hq hna h
      case motdEnd a args n hw hs =>
        obtain ⟨hcm, hp⟩ := h
        have hf : s.fsm = .INIT_MOTD := by
          cases hp with
          | neg _ _ hs0 _ _ _ _ _ _ _ _ _ => omega
          | sasl _ _ hs0 _ _ _ _ _ _ _ => omega
          | waiting _ _ hs5 _ _ _ _ => omega
          | nocap _ hs5 _ _ _ => omega
          | motd _ _ hf _ _ _ => exact hf
        exact pres_endMotd hd (v' := { v with stage := 7 }) ⟨num '3' '7' '6', a :: args, n⟩
          (nickSetter_numeric _ _ _ _ _ (show Gen.Conn.nickSetters.contains (num '3' '7' '6') = true by decide)) rfl rfl rfl rfl
          (.inr (.inr hf)) hq
      case noMotd args n hw hs =>
        obtain ⟨hcm, hp⟩ := h
        obtain ⟨hfsm, _, _, _⟩ := phase_fsm_welcome hw (by omega) hp
        have hf : s.fsm = .INIT_CAP_NEGOTIATION ∨ s.fsm = .INIT_WAITING_MOTD ∨ s.fsm = .INIT_MOTD := by
          rcases hfsm with h | h
          · exact .inl h
          · exact .inr (.inl h)
        exact pres_endMotd hd (v' := { v with stage := 7 }) ⟨num '4' '2' '2', args, n⟩
          (nickSetter_plain _ _ (show Gen.Conn.nickSetters.contains (num '4' '2' '2') = false by decide)) rfl rfl rfl rfl hf hq

/-! ### an executable acceptor for the conformant-server relation (used by the harness to check that
its conformant scripts lie inside the domain of `progress`) -/

def welcomeIndex (c : Str) : Option Nat :=
  if c = num '0' '0' '1' then some 1 else if c = num '0' '0' '2' then some 2 else if c = num '0' '0' '3' then some 3
  else if c = num '0' '0' '4' then some 4 else if c = num '0' '0' '5' then some 5 else none

def srvPing (v : View) (args : List Str) : Option View :=
  match args with
  | [_] => some v
  | _ => none

def srvCap (v : View) (args : List Str) : Option View :=
  match args with
  | [_, sub, star, _] => if sub = sLS ∧ star = sStar ∧ v.v3 = true ∧ v.lsOwed = true then some v else none
  | [_, sub, caps] =>
    if sub = sLS then (if v.v3 = true ∧ v.lsOwed = true then some { v with lsOwed := false } else none)
    else if sub = sACK ∨ sub = sNAK then
      (match v.reqs with
       | ws :: rest => if v.v3 = true ∧ splitWs caps = ws then some { v with reqs := rest } else none
       | [] => none)
    else none
  | _ => none

def srvAuth (v : View) (args : List Str) : Option View :=
  match args with
  | [c] => if v.v3 = true ∧ v.auth.owed = true ∧
              (c = sPlus ∨ (c.length ≠ Gen.Conn.authenticateChunkSize ∧ (b64decodedLen [c]).isSome = true))
           then some { v with auth := .none } else none
  | _ => none

def srvSaslNumeric (v : View) (cmd : Str) : Option View :=
  if cmd = num '9' '0' '3' then (if v.v3 = true ∧ v.auth = .payload then some { v with auth := .none } else none)
  else if isFailNumeric cmd = true then (if v.v3 = true ∧ v.auth.owed = true then some { v with auth := .none } else none)
  else if cmd = num '9' '0' '8' then (if v.auth = .mech then some v else none)
  else none

def srvMotd (v : View) (cmd : Str) (args : List Str) : Option View :=
  if cmd = num '3' '7' '5' then
    (match args with | _ :: _ => if canWelcome v = true ∧ v.stage = 5 then some { v with stage := 6 } else none | [] => none)
  else if cmd = num '3' '7' '6' then
    (match args with | _ :: _ => if canWelcome v = true ∧ v.stage = 6 then some { v with stage := 7 } else none | [] => none)
  else if cmd = num '4' '2' '2' then (if canWelcome v = true ∧ v.stage = 5 then some { v with stage := 7 } else none)
  else if cmd = num '3' '7' '2' then
    (match args with | _ :: _ => if canWelcome v = true ∧ v.stage = 6 then some v else none | [] => none)
  else none

def srvWelcome (v : View) (cmd : Str) (args : List Str) : Option View :=
  match welcomeIndex cmd, args with
  | some k, _ :: _ => if canWelcome v = true ∧ v.stage + 1 = k then some { v with stage := k } else none
  | _, _ => none

def isSaslNumeric (cmd : Str) : Bool := cmd = num '9' '0' '3' || isFailNumeric cmd || cmd = num '9' '0' '8'
def isMotdNumeric (cmd : Str) : Bool :=
  cmd = num '3' '7' '5' || cmd = num '3' '7' '6' || cmd = num '4' '2' '2' || cmd = num '3' '7' '2'

def srvMoveC (v : View) (cmd : Str) (args : List Str) (n : Str) : Option View :=
  if cmd = sPING then srvPing v args
  else if cmd = sCAP then srvCap v args
  else if cmd = sAUTHENTICATE then srvAuth v args
  else if isSaslNumeric cmd = true then srvSaslNumeric v cmd
  else if isNickRefusal cmd = true then (if v.stage = 0 then some v else none)
  else if isMotdNumeric cmd = true then srvMotd v cmd args
  else if (welcomeIndex cmd).isSome = true then srvWelcome v cmd args
  else if dispatch ⟨cmd, args, n⟩ = .none ∧ Gen.Conn.nickSetters.contains cmd = false then some v else none

def srvMoveB (v : View) (m : Msg) : Option View := srvMoveC v m.command m.args m.nick

theorem welcomeIndex_spec {c : Str} {k : Nat} (h : welcomeIndex c = some k) : c = welcomeNumeric k ∧ 1 ≤ k ∧ k ≤ 5 := by
  unfold welcomeIndex at h
  split at h
  · injection h with h; subst h; rename_i hc; exact ⟨hc, by decide, by decide⟩
  · split at h
    · injection h with h; subst h; rename_i hc; exact ⟨hc, by decide, by decide⟩
    · split at h
      · injection h with h; subst h; rename_i hc; exact ⟨hc, by decide, by decide⟩
      · split at h
        · injection h with h; subst h; rename_i hc; exact ⟨hc, by decide, by decide⟩
        · split at h
          · injection h with h; subst h; rename_i hc; exact ⟨hc, by decide, by decide⟩
          · cases h

theorem srvPing_sound {v v1 : View} {args : List Str} {n : Str} (h : srvPing v args = some v1) : SrvMove v ⟨sPING, args, n⟩ v1 := by
  unfold srvPing at h
  split at h
  · injection h with h; subst h; exact .ping _ _ _
  · cases h

theorem srvCap_sound {v v1 : View} {args : List Str} {n : Str} (h : srvCap v args = some v1) : SrvMove v ⟨sCAP, args, n⟩ v1 := by
  unfold srvCap at h
  split at h
  · split at h
    · rename_i hcond; obtain ⟨rfl, rfl, h3, ho⟩ := hcond
      injection h with h; subst h; exact .lsMore _ _ _ _ h3 ho
    · cases h
  · split at h
    · rename_i hsub; subst hsub
      split at h
      · rename_i hcond; injection h with h; subst h; exact .lsFinal _ _ _ _ hcond.1 hcond.2
      · cases h
    · split at h
      · rename_i hsub
        split at h
        · rename_i ws rest hreqs
          split at h
          · rename_i hcond; injection h with h; subst h
            rcases hsub with rfl | rfl
            · exact .ack _ _ _ _ ws rest hcond.1 hreqs hcond.2
            · exact .nak _ _ _ _ ws rest hcond.1 hreqs hcond.2
          · cases h
        · cases h
      · cases h
  · cases h

theorem srvAuth_sound {v v1 : View} {args : List Str} {n : Str} (h : srvAuth v args = some v1) :
    SrvMove v ⟨sAUTHENTICATE, args, n⟩ v1 := by
  unfold srvAuth at h
  split at h
  · split at h
    · rename_i hcond; injection h with h; subst h
      exact .authContinue _ _ _ hcond.1 hcond.2.1 hcond.2.2
    · cases h
  · cases h

theorem srvSaslNumeric_sound {v v1 : View} {cmd : Str} {args : List Str} {n : Str} (h : srvSaslNumeric v cmd = some v1) :
    SrvMove v ⟨cmd, args, n⟩ v1 := by
  unfold srvSaslNumeric at h
  split at h
  · rename_i hc; subst hc
    split at h
    · rename_i hcond; injection h with h; subst h; exact .authOk _ _ _ hcond.1 hcond.2
    · cases h
  · split at h
    · rename_i hf
      split at h
      · rename_i hcond; injection h with h; subst h; exact .authFail _ _ _ _ hcond.1 hcond.2 hf
      · cases h
    · split at h
      · rename_i hc; subst hc
        split at h
        · rename_i hcond; injection h with h; subst h; exact .mechs _ _ _ hcond
        · cases h
      · cases h

theorem srvMotd_sound {v v1 : View} {cmd : Str} {args : List Str} {n : Str} (h : srvMotd v cmd args = some v1) :
    SrvMove v ⟨cmd, args, n⟩ v1 := by
  unfold srvMotd at h
  split at h
  · rename_i hc; subst hc
    split at h
    · split at h
      · rename_i hcond; injection h with h; subst h; exact .motdStart _ _ _ _ hcond.1 hcond.2
      · cases h
    · cases h
  · split at h
    · rename_i hc; subst hc
      split at h
      · split at h
        · rename_i hcond; injection h with h; subst h; exact .motdEnd _ _ _ _ hcond.1 hcond.2
        · cases h
      · cases h
    · split at h
      · rename_i hc; subst hc
        split at h
        · rename_i hcond; injection h with h; subst h; exact .noMotd _ _ _ hcond.1 hcond.2
        · cases h
      · split at h
        · rename_i hc; subst hc
          split at h
          · split at h
            · rename_i hcond; injection h with h; subst h; exact .motdLine _ _ _ _ hcond.1 hcond.2
            · cases h
          · cases h
        · cases h

theorem srvWelcome_sound {v v1 : View} {cmd : Str} {args : List Str} {n : Str} (h : srvWelcome v cmd args = some v1) :
    SrvMove v ⟨cmd, args, n⟩ v1 := by
  unfold srvWelcome at h
  split at h
  · rename_i k a rest hk
    obtain ⟨rfl, hk1, hk5⟩ := welcomeIndex_spec hk
    split at h
    · rename_i hcond; injection h with h; subst h
      exact .welcome _ k _ _ _ hcond.1 ⟨hk1, hk5⟩ hcond.2
    · cases h
  · cases h

/-- whatever the acceptor accepts is a move of the conformant-server relation -/
theorem srvMoveC_sound {v v1 : View} {cmd : Str} {args : List Str} {n : Str}
    (h : srvMoveC v cmd args n = some v1) : SrvMove v ⟨cmd, args, n⟩ v1 := by
  unfold srvMoveC at h
  by_cases h1 : cmd = sPING
  · rw [if_pos h1] at h; subst h1; exact srvPing_sound h
  · rw [if_neg h1] at h
    by_cases h2 : cmd = sCAP
    · rw [if_pos h2] at h; subst h2; exact srvCap_sound h
    · rw [if_neg h2] at h
      by_cases h3 : cmd = sAUTHENTICATE
      · rw [if_pos h3] at h; subst h3; exact srvAuth_sound h
      · rw [if_neg h3] at h
        by_cases h4 : isSaslNumeric cmd = true
        · rw [if_pos h4] at h; exact srvSaslNumeric_sound h
        · rw [if_neg h4] at h
          by_cases h5 : isNickRefusal cmd = true
          · rw [if_pos h5] at h
            split at h
            · rename_i hs; injection h with h; subst h; exact .nickRefused _ _ _ _ hs h5
            · cases h
          · rw [if_neg h5] at h
            by_cases h6 : isMotdNumeric cmd = true
            · rw [if_pos h6] at h; exact srvMotd_sound h
            · rw [if_neg h6] at h
              by_cases h7 : (welcomeIndex cmd).isSome = true
              · rw [if_pos h7] at h; exact srvWelcome_sound h
              · rw [if_neg h7] at h
                split at h
                · rename_i hcond; injection h with h; subst h; exact .noop _ _ hcond.1 hcond.2
                · cases h

theorem srvMoveB_sound {v v1 : View} {m : Msg} (h : srvMoveB v m = some v1) : SrvMove v m v1 := by
  obtain ⟨cmd, args, n⟩ := m
  exact srvMoveC_sound h

end C08
