/-
C08 — every function of the model refines the abstract move system of `Abs.lean`.
The only facts used about the extracted FSM tables are the table lemmas `tab_*` (by `decide`).
-/
import LimnoriaModel.C08.Abs
namespace C08
open Py
open Gen.Conn (Fsm)

/-! ### table lemmas: what the proofs need from the extracted guards -/

theorem tab_capEnd : Gen.Conn.toCapEnd = .INIT_WAITING_MOTD ∧
    ∀ f, Gen.Conn.guardCapEnd.contains f = true → f = .INIT_CAP_NEGOTIATION := by
  refine ⟨by decide, fun f => ?_⟩; cases f <;> decide

theorem tab_init : Gen.Conn.toInitMessagesSent = .INIT_CAP_NEGOTIATION ∧
    Gen.Conn.guardInitMessagesSent.contains Gen.Conn.fsmReset = true := by decide

theorem tab_shutdown : Gen.Conn.toShutdown = .SHUTTING_DOWN := by decide

theorem tab_saslCap : ∀ f t, Gen.Conn.onSaslCap.lookup f = some t →
    (f = .INIT_CAP_NEGOTIATION ∧ t = .INIT_SASL) ∨ (f = .CONNECTED ∧ t = .CONNECTED_SASL) := by
  intro f t; cases f <;> cases t <;> decide

theorem tab_saslFin : ∀ f t, Gen.Conn.onSaslAuthFinished.lookup f = some t →
    (f = .INIT_SASL ∧ t = .INIT_CAP_NEGOTIATION) ∨ (f = .CONNECTED_SASL ∧ t = .CONNECTED) := by
  intro f t; cases f <;> cases t <;> decide

theorem tab_startMotd : Gen.Conn.toStartMotd = .INIT_MOTD ∧ ∀ f, Gen.Conn.guardStartMotd.contains f = true →
    f = .INIT_CAP_NEGOTIATION ∨ f = .INIT_WAITING_MOTD ∨ f = .CONNECTED ∨ f = .CONNECTED_SASL := by
  refine ⟨by decide, fun f => ?_⟩; cases f <;> decide

theorem tab_endMotd : Gen.Conn.toEndMotd = .CONNECTED ∧ ∀ f, Gen.Conn.guardEndMotd.contains f = true →
    f = .INIT_CAP_NEGOTIATION ∨ f = .INIT_WAITING_MOTD ∨ f = .INIT_MOTD ∨ f = .CONNECTED ∨ f = .CONNECTED_SASL := by
  refine ⟨by decide, fun f => ?_⟩; cases f <;> decide

theorem tab_tryNext : ∀ f, Gen.Conn.expectTryNextSasl.contains f = true → isSaslState f = true := by
  intro f; cases f <;> decide

theorem tab_do903 : ∀ f, Gen.Conn.expectDo903.contains f = true → isSaslState f = true := by
  intro f; cases f <;> decide

theorem tab_doAuth : ∀ f, Gen.Conn.expectDoAuthenticate.contains f = true → isSaslState f = true := by
  intro f; cases f <;> decide

/-! ### primitives -/

variable {cfg : Cfg} {K : Kind → Bool}

theorem α_sendMsg (o : Out) (s : St) : α (sendMsg o s) = { α s with kinds := (α s).kinds ++ [o.kind] } := by
  simp [α, sendMsg]

theorem α_queueJoin (s : St) : α (queueMsg .join s) = { α s with joinQ := true } := by
  simp [α, queueMsg, List.all_append, isSide]

theorem α_event (o : Out) (s : St) (ho : isSide o = true) :
    α (event o s) = { α s with aborts := (α s).aborts + (if isReconnect o = true then 1 else 0) } := by
  by_cases h : isReconnect o = true <;> simp [α, event, List.filter_append, h, ho]

theorem ref_sendMsg (o : Out) (s : St) (hK : K o.kind = true) (hE : o.kind ≠ .capEnd)
    (hS : o.kind.sasl = true → isSaslState s.fsm = true) : Moves cfg K (α s) (α (sendMsg o s)) := by
  rw [α_sendMsg]; exact .single (.emit _ _ hK hE hS)

theorem ref_event (o : Out) (s : St) (ho : isSide o = true) : Moves cfg K (α s) (α (event o s)) := by
  rw [α_event _ _ ho]
  by_cases h : isReconnect o = true
  · simp only [h, if_true]; exact .single (.abort _)
  · simp only [h]; exact .of_eq (by simp)

/-- a handler result refines `Moves` -/
def Ref (cfg : Cfg) (K : Kind → Bool) (s : St) (r : R) : Prop := Moves cfg K (α s) (α r.st)

theorem Ref.bind {s : St} {r : R} {f : St → R} (h1 : Ref cfg K s r)
    (h2 : r.exc = none → Ref cfg K r.st (f r.st)) : Ref cfg K s (r.bind f) := by
  unfold R.bind
  cases h : r.exc with
  | some e => simpa [h] using h1
  | none => simp only [h]; exact Moves.trans h1 (h2 h)

theorem Ref.of_α_eq {s s' : St} {r : R} (hr : Ref cfg K s' r) (h : α s' = α s) : Ref cfg K s r := by
  unfold Ref at *; rw [← h]; exact hr

theorem ref_ok (s : St) : Ref cfg K s (ok s) := .refl _
theorem ref_raise (e : String) (s : St) : Ref cfg K s (raise e s) := .refl _

theorem ref_expectState (l : List Fsm) (s : St) : Ref cfg K s (expectState l s) := by
  unfold expectState; split <;> exact .refl _

theorem expectState_ok {l : List Fsm} {s : St} (h : (expectState l s).exc = none) :
    (expectState l s).st = s ∧ l.contains s.fsm = true := by
  unfold expectState at h ⊢
  by_cases hc : l.contains s.fsm = true
  · rw [if_pos hc]; exact ⟨rfl, hc⟩
  · rw [if_neg hc] at h; simp [raise] at h

/-! ### FSM transitions -/

theorem ref_onShutdown (s : St) : Ref cfg K s (onShutdown s) := by
  unfold onShutdown transition
  simp only [tab_shutdown]
  exact .single (.shutdown _)

theorem ref_onSaslCap (s : St) (hack : s.ack.contains sSasl = true) (hauth : s.saslAuth = false)
    (hK : K .startSasl = true) : Ref cfg K s (onSaslCap s) := by
  unfold onSaslCap tableTransition
  cases h : Gen.Conn.onSaslCap.lookup s.fsm with
  | none => exact .refl _
  | some to => exact .single (.saslStart (α s) to (tab_saslCap _ _ h) hack hauth hK)

theorem ref_onSaslAuthFinished (s : St) : Ref cfg K s (onSaslAuthFinished s) := by
  unfold onSaslAuthFinished tableTransition
  cases h : Gen.Conn.onSaslAuthFinished.lookup s.fsm with
  | none => exact .refl _
  | some to => exact .single (.saslFinish (α s) to (tab_saslFin _ _ h))

/-! ### reset and the driver -/

theorem kinds_connectMsgs (cfg : Cfg) (n : Str) : (connectMsgs cfg n).map Out.kind = connectKinds cfg := by
  unfold connectMsgs connectKinds
  by_cases h : cfg.password.isEmpty = true <;> simp [h, Out.kind]

theorem tab_wanted : Gen.Conn.requestCapabilities.all isWanted = true ∧
    (Gen.Conn.requestCapabilities ++ [sSasl]).all isWanted = true := by decide

theorem wanted_resetSasl (cfg : Cfg) (s : St) : (resetSasl cfg s).wanted.all isWanted = true := by
  unfold resetSasl
  simp only
  split
  · exact tab_wanted.1
  · exact tab_wanted.2

theorem α_ircReset (cfg : Cfg) (s : St) :
    α (ircReset cfg s) = { fsm := .INIT_CAP_NEGOTIATION, saslAuth := false, afterConnect := false, endCount := 0,
                           epoch := s.epoch + 1, ackSasl := false, kinds := connectKinds cfg, aborts := (α s).aborts,
                           acked := false, slowOk := true, evOk := (α s).evOk, wantedOk := true,
                           policies := (α s).policies, forced := (α s).forced, sock := (α s).sock,
                           sent := false, joinQ := false, conn := (α s).conn, host := (α s).host, bad := (α s).bad } := by
  have hw := wanted_resetSasl cfg s
  unfold ircReset queueConnectMessages transition clearForReset
  have h := tab_init
  simp only [h.2, if_true, ok, α, h.1, List.nil_append, kinds_connectMsgs, hw]
  simp [sSasl, resetSasl]

theorem ref_ircReset (s : St) (h : cfg.realDriver = true) : Moves cfg K (α s) (α (ircReset cfg s)) := by
  rw [α_ircReset]; exact .single (.reset (α s) h)

theorem ref_connectTo (srv : Server) (s : St) (hr : cfg.realDriver = true) (hK : K .connPerm = true)
    (hj : s.slowq.contains .join = false)
    (hp : (dictGet s.db.policies srv.host).isSome = true → srv.forced = true ∨ (cfg.ssl && cfg.certValidation) = true) :
    Moves cfg K (α s) (α (connectTo cfg srv s)) := by
  unfold connectTo
  simp only
  split
  · rw [α_event _ _ rfl]
    have := Move.connFail (cfg := cfg) (K := K) (α s) srv.forced srv.host hr hK
    exact .single (by simpa [isReconnect, α] using this)
  · rw [α_event _ _ rfl]
    have := Move.conn (cfg := cfg) (K := K) (α s) srv.forced srv.host hr hK hj hp
    exact .single (by simpa [isReconnect, α] using this)

theorem applySts_post {s s' : St} {srv srv' : Server} (h : applyStsPolicy s srv = some (srv', s')) :
    s'.slowq = s.slowq ∧
    ((dictGet s'.db.policies srv'.host).isSome = true → srv'.forced = true) := by
  unfold applyStsPolicy at h
  split at h
  · rename_i hn
    injection h with h; injection h with h1 h2; subst h1; subst h2
    exact ⟨rfl, fun hc => by rw [hn] at hc; cases hc⟩
  · split at h
    · split at h
      · injection h with h; injection h with h1 h2; subst h1; subst h2
        refine ⟨rfl, fun hc => ?_⟩
        exfalso
        simp only at hc
        have : dictGet (dictDel s.db.policies srv.host) srv.host = none := by
          generalize s.db.policies = d
          induction d with
          | nil => rfl
          | cons p ps ih =>
            obtain ⟨k, v⟩ := p
            unfold dictDel
            by_cases hk : k = srv.host
            · simp [hk]; exact ih
            · simp [hk, dictGet]; exact ih
        rw [this] at hc; cases hc
      · injection h with h; injection h with h1 h2; subst h1; subst h2
        exact ⟨rfl, fun _ => rfl⟩
    · cases h

theorem ref_applyStsPolicy {s s' : St} {srv srv' : Server} (h : applyStsPolicy s srv = some (srv', s')) :
    Moves cfg K (α s) (α s') := by
  unfold applyStsPolicy at h
  split at h
  · injection h with h; injection h with _ h; subst h; exact .refl _
  · split at h
    · split at h
      · injection h with h; injection h with _ h; subst h
        exact .single (.expire (α s) srv.host)
      · injection h with h; injection h with _ h; subst h; exact .refl _
    · cases h

/-- SocketDriver.reconnect without a given server (the only way the code connects at once) -/
theorem ref_drvConnect (s : St) (hr : cfg.realDriver = true) (hK : K .connPerm = true)
    (hj : s.slowq.contains .join = false) : Moves cfg K (α s) (α (drvConnect cfg none s)) := by
  unfold drvConnect
  simp only
  cases h : getNextServer cfg s with
  | none => exact .refl _
  | some p =>
    obtain ⟨x, s'⟩ := p
    simp only
    unfold getNextServer at h
    split at h
    · cases h
    · have h1 := ref_applyStsPolicy (cfg := cfg) (K := K) h
      obtain ⟨q1, q2⟩ := applySts_post h
      refine Moves.trans (Moves.trans (.of_eq rfl) h1) (ref_connectTo x s' hr hK (by rw [q1]; exact hj) ?_)
      intro hc; exact .inl (q2 hc)

theorem ref_drvDisconnect (s : St) : Moves cfg K (α s) (α (drvDisconnect s)) := by
  unfold drvDisconnect; split
  · rw [α_event _ _ rfl]
    have := Move.disc (cfg := cfg) (K := K) (α s)
    exact .single (by simpa [isReconnect, α] using this)
  · exact .refl _

theorem slowq_ircReset (cfg : Cfg) (s : St) : (ircReset cfg s).slowq = [] := by
  unfold ircReset queueConnectMessages transition clearForReset resetSasl
  simp only; split <;> rfl

/-- SocketDriver.reconnect: `wait=False` is only ever called without a server argument -/
theorem ref_realReconnect (w : Bool) (srv : Option Server) (s : St) (h : cfg.realDriver = true)
    (hK : w = false → K .connPerm = true ∧ srv = none) : Moves cfg K (α s) (α (realReconnect cfg w srv s)) := by
  have hd := @ref_drvDisconnect cfg K { s with drv := { s.drv with attempt := s.drv.attempt + 1, scheduled := false } }
  have hr := @ref_ircReset cfg K (drvDisconnect { s with drv := { s.drv with attempt := s.drv.attempt + 1, scheduled := false } }) h
  have hr := Moves.trans (Moves.trans (.of_eq rfl) hd) hr
  unfold realReconnect
  cases w
  · simp only [Bool.false_eq_true, if_false]
    obtain ⟨hk, rfl⟩ := hK rfl
    exact Moves.trans hr (ref_drvConnect _ h hk (by rw [slowq_ircReset]; rfl))
  · simp only [if_true]; exact hr

theorem ref_drvReconnectGen (w : Bool) (srv : Option Server) (s : St) (hK : w = false → K .connPerm = true ∧ srv = none) :
    Moves cfg K (α s) (α (drvReconnect cfg w srv s)) := by
  unfold drvReconnect
  by_cases h : cfg.realDriver = true
  · simp only [h, if_true]
    exact Moves.trans (ref_event (.reconnect w srv) s rfl) (ref_realReconnect w srv _ h hK)
  · simp only [h]; exact ref_event _ s rfl

/-- `driver.reconnect(wait=True, …)`: never opens a socket at once -/
theorem ref_drvReconnect (w : Bool) (srv : Option Server) (s : St) (hw : w = true := by rfl) :
    Moves cfg K (α s) (α (drvReconnect cfg w srv s)) :=
  ref_drvReconnectGen w srv s (fun h => by rw [hw] at h; cases h)

/-! ### CAP END and SASL -/

theorem ref_endCap (s : St) : Ref cfg K s (endCap cfg s) := by
  unfold endCap
  by_cases hm : saslMissing cfg s = true
  · simp only [hm, if_true]; exact ref_drvReconnect _ _ s
  · simp only [hm]
    unfold onCapEnd transition
    simp only
    by_cases hg : Gen.Conn.guardCapEnd.contains s.fsm = true
    · simp only [hg, if_true, bind_ok, tab_capEnd.1]
      have hf := tab_capEnd.2 _ hg
      have hm' : missing cfg (α s) = false := by simpa [missing, saslMissing, α] using hm
      have := Move.capEnd (cfg := cfg) (K := K) (α s) hf hm'
      exact .single (by simpa [α, sendMsg, ok, Out.kind] using this)
    · simp only [hg]; exact .refl _

theorem ref_sendChunks (l : List Str) (s : St) (hK : K .payload = true) (hS : isSaslState s.fsm = true) :
    Moves cfg K (α s) (α (l.foldl (fun s c => sendMsg (.authPayload c) s) s)) ∧
    (l.foldl (fun s c => sendMsg (.authPayload c) s) s).fsm = s.fsm := by
  induction l generalizing s with
  | nil => exact ⟨.refl _, rfl⟩
  | cons c cs ih =>
    simp only [List.foldl_cons]
    obtain ⟨m, f⟩ := ih (sendMsg (.authPayload c) s) (by simpa [sendMsg] using hS)
    exact ⟨Moves.trans (ref_sendMsg (.authPayload c) s hK (by simp [Out.kind]) (fun _ => hS)) m, f⟩

theorem ref_sendSaslString (bytes : List Nat) (s : St) (hK : K .payload = true) (hS : isSaslState s.fsm = true) :
    Moves cfg K (α s) (α (sendSaslString bytes s)) := by
  unfold sendSaslString
  obtain ⟨m, f⟩ := ref_sendChunks (cfg := cfg) (authChunks Gen.Conn.authenticateChunkSize (b64encode bytes)) s hK hS
  refine Moves.trans m ?_
  have := Move.respond (cfg := cfg) (K := K) (α ((authChunks Gen.Conn.authenticateChunkSize (b64encode bytes)).foldl
    (fun s c => sendMsg (.authPayload c) s) s)) (by show isSaslState _ = true; rw [show (α _).fsm = _ from f]; exact hS) hK
  exact .single this

/-- a step that only changes fields the abstraction does not see, after `sendSaslString` -/
theorem ref_sendSaslString_with (bytes : List Nat) (s : St) (n : Nat) (hK : K .payload = true) (hS : isSaslState s.fsm = true) :
    Moves cfg K (α s) (α ({ sendSaslString bytes s with scramStep := n } : St)) :=
  Moves.trans (ref_sendSaslString bytes s hK hS) (.of_eq rfl)

theorem ref_tryNextSasl (s : St) (hK : K .authMech = true) : Ref cfg K s (tryNextSasl cfg s) := by
  unfold tryNextSasl
  refine Ref.bind (ref_expectState _ s) fun h => ?_
  obtain ⟨hs, hc⟩ := expectState_ok h
  rw [hs]
  have hsasl := tab_tryNext _ hc
  cases hn : s.saslNext with
  | cons m rest =>
    simp only
    have h1 : Moves cfg K (α s) (α ({ s with saslCur := some m, saslNext := rest, saslSent := false, scramStep := 0 } : St)) :=
      .single (.unsent (α s))
    exact Moves.trans h1 (ref_sendMsg _ _ hK (by simp [Out.kind]) (fun _ => hsasl))
  | nil =>
    simp only
    by_cases hr : cfg.required = true
    · simp only [hr, if_true]; exact ref_drvReconnect _ _ s
    · simp only [hr]
      refine Ref.bind (Ref.of_α_eq (ref_onSaslAuthFinished _) rfl) fun _ => ?_
      split
      · exact ref_endCap _
      · exact .refl _

theorem ref_maybeStartSasl (s : St) (hK : K .authMech = true) (hK2 : K .startSasl = true) :
    Ref cfg K s (maybeStartSasl cfg s) := by
  unfold maybeStartSasl
  split
  · rename_i hc
    simp only [Bool.and_eq_true, Bool.not_eq_true', ] at hc
    refine Ref.bind (ref_onSaslCap s hc.2 hc.1 hK2) fun _ => ?_
    split
    · exact .refl _
    · exact ref_tryNextSasl _ hK
    · exact Ref.of_α_eq (ref_tryNextSasl _ hK) rfl
  · exact .refl _

theorem ref_capUpkeep (s : St) (hK : K .authMech = true) (hK2 : K .startSasl = true) : Ref cfg K s (capUpkeep cfg s) := by
  unfold capUpkeep
  refine Ref.bind (ref_expectState _ s) fun h => ?_
  obtain ⟨hs, _⟩ := expectState_ok h
  rw [hs]
  simp only
  split
  · exact ref_drvReconnect _ _ s
  · split
    · split
      · split
        · exact ref_maybeStartSasl _ hK hK2
        · exact .refl _
      · split
        · exact ref_endCap _
        · exact .refl _
    · exact .refl _

/-! ### AUTHENTICATE and the SASL numerics -/

theorem ref_scramRespond (m : Str) (s : St) (hK : K .payload = true) (hS : isSaslState s.fsm = true) :
    Ref cfg K s (scramRespond cfg m s) := by
  unfold scramRespond
  split
  · split
    · exact ref_sendSaslString_with _ s 1 hK hS
    · exact ref_sendMsg _ s hK (by decide) (fun _ => hS)
  · split
    · split
      · exact ref_sendSaslString_with _ s 2 hK hS
      · exact ref_sendMsg _ s hK (by decide) (fun _ => hS)
    · split
      · split
        · exact ref_sendSaslString_with _ s 3 hK hS
        · exact ref_sendMsg _ s hK (by decide) (fun _ => hS)
      · exact .refl _

theorem ref_authRespond (n : Nat) (s : St) (hK : K .payload = true) (hS : isSaslState s.fsm = true) :
    Ref cfg K s (authRespond cfg n s) := by
  unfold authRespond
  split
  · exact .refl _
  · split
    · split
      · exact ref_sendSaslString _ s hK hS
      · split
        · refine Moves.trans (ref_sendMsg .authOpaque s hK (by decide) (fun _ => hS)) ?_
          exact .single (.respond _ (by simpa [α, sendMsg] using hS) hK)
        · exact ref_sendMsg _ s hK (by decide) (fun _ => hS)
    · split
      · exact ref_sendSaslString _ s hK hS
      · split
        · exact ref_scramRespond _ s hK hS
        · split
          · exact ref_sendSaslString _ s hK hS
          · exact .refl _

theorem ref_doAuthenticate (cmd : Str) (args : List Str) (s : St) (hK : K .payload = true) :
    Ref cfg K s (doAuthenticate cfg cmd args s) := by
  unfold doAuthenticate
  refine Ref.bind (ref_expectState _ s) fun h => ?_
  obtain ⟨hs, hc⟩ := expectState_ok h
  rw [hs]
  have hsasl := tab_doAuth _ hc
  split
  · exact .of_eq rfl
  · split
    · exact .of_eq rfl
    · split
      · exact .of_eq rfl
      · split
        · exact .of_eq rfl
        · exact Ref.of_α_eq (ref_authRespond _ _ hK (by simpa using hsasl)) rfl

theorem ref_do903 (s : St) (hK : K .authPerm = true) : Ref cfg K s (do903 cfg s) := by
  unfold do903
  refine Ref.bind (ref_expectState _ s) fun h => ?_
  obtain ⟨hs, hc⟩ := expectState_ok h
  rw [hs]
  have hsasl := tab_do903 _ hc
  by_cases hsent : s.saslSent = true
  · rw [if_neg (by rw [hsent]; decide)]
    have h1 : Moves cfg K (α s) (α ({ s with saslAuth := true } : St)) := .single (.authOk (α s) hsasl hsent hK)
    refine Ref.bind (Moves.trans h1 (ref_onSaslAuthFinished _)) fun _ => ?_
    split
    · exact ref_endCap _
    · exact .refl _
  · have : s.saslSent = false := by simpa using hsent
    rw [if_pos (by rw [this]; rfl)]
    exact .refl _

theorem ref_do908 (args : List Str) (s : St) : Ref cfg K s (do908 args s) := by
  unfold do908; split <;> exact .refl _

/-! ### CAP LS / ACK / NAK / NEW / DEL -/

theorem α_setLs (k : Str) (v : Option Str) (s : St) : α (setLs k v s) = α s := rfl

theorem ref_onCapSts (policy : Str) (s : St) (hK : K .storePerm = true) : Moves cfg K (α s) (α (onCapSts cfg policy s)) := by
  unfold onCapSts
  split
  · exact .refl _
  · split
    · rename_i hsec
      exact .single (.store (α s) (by simpa [aSecure, secureConn, α] using hsec) _ hK)
    · exact Moves.trans (ref_onShutdown s) (ref_drvReconnect _ _ _)

theorem ref_addCapability (s : St) (item : Str) (hK : K .storePerm = true) : Moves cfg K (α s) (α (addCapability cfg s item)) := by
  unfold addCapability
  split
  · split
    · rw [α_setLs]; exact ref_onCapSts _ s hK
    · exact .of_eq rfl
  · split
    · rw [α_setLs]; exact ref_drvReconnect _ _ s
    · exact .of_eq rfl

theorem ref_addCapabilities (caps : Str) (s : St) (hK : K .storePerm = true) : Moves cfg K (α s) (α (addCapabilities cfg caps s)) := by
  unfold addCapabilities
  generalize splitWs caps = l
  induction l generalizing s with
  | nil => exact .refl _
  | cons c cs ih => simp only [List.foldl_cons]; exact Moves.trans (ref_addCapability s c hK) (ih _)

theorem ref_requestCaps (caps : List Str) (s : St) (hK : K .capReq = true) :
    Moves cfg K (α s) (α (requestCaps caps s)) := by
  unfold requestCaps
  simp only
  generalize fill capReqWidth (arrangeCaps s.ack caps) = lines
  have : ∀ (l : List (List Str)) (t : St), Moves cfg K (α t) (α (l.foldl (fun s l => sendMsg (.capReq l) s) t)) := by
    intro l
    induction l with
    | nil => intro t; exact .refl _
    | cons x xs ih =>
      intro t; simp only [List.foldl_cons]
      exact Moves.trans (ref_sendMsg (.capReq x) t hK (by simp [Out.kind]) (by simp [Out.kind, Kind.sasl])) (ih _)
  exact Moves.trans (.of_eq rfl) (this lines { s with req := union s.req (arrangeCaps s.ack caps) })

theorem ref_capLsFinal (s : St) (hK : K .capReq = true) : Ref cfg K s (capLsFinal cfg s) := by
  unfold capLsFinal
  split
  · exact .refl _
  · refine Ref.bind (ref_expectState _ _) fun h => ?_
    obtain ⟨hs, _⟩ := expectState_ok h
    rw [hs]
    split
    · exact Moves.trans (ref_requestCaps _ _ hK) (ref_endCap _)
    · exact ref_requestCaps _ _ hK

theorem ref_doCapLs (args : List Str) (s : St) (hK : K .capReq = true) (hS : K .storePerm = true) : Ref cfg K s (doCapLs cfg args s) := by
  unfold doCapLs
  split
  · split
    · exact .refl _
    · exact ref_addCapabilities _ s hS
  · exact Moves.trans (ref_addCapabilities _ s hS) (ref_capLsFinal _ hK)
  · exact .refl _

/-- the acknowledged set changes and `saslAcked` is raised when `sasl` is in the new set -/
theorem ref_ackGain (l : List Str) (s : St) (hK : K .ackPerm = true) :
    Moves cfg K (α s) (α ({ s with ack := l, saslAcked := s.saslAcked || l.contains sSasl } : St)) := by
  by_cases h : sSasl ∈ l
  · have e : α ({ s with ack := l, saslAcked := s.saslAcked || l.contains sSasl } : St)
        = { α s with ackSasl := true, acked := true } := by simp [α, h]
    rw [e]; exact .single (.ackGain _ hK)
  · have e : α ({ s with ack := l, saslAcked := s.saslAcked || l.contains sSasl } : St)
        = { α s with ackSasl := false } := by simp [α, h]
    rw [e]; exact .single (.ackLose _)

theorem ref_ackFilter (p : Str → Bool) (s : St) :
    Moves cfg K (α s) (α ({ s with ack := s.ack.filter p } : St)) := by
  by_cases h : sSasl ∈ s.ack.filter p
  · have h2 : sSasl ∈ s.ack := (List.mem_filter.mp h).1
    have e : α ({ s with ack := s.ack.filter p } : St) = α s := by
      have h1 : (s.ack.filter p).contains sSasl = true := by simpa using h
      have h3 : s.ack.contains sSasl = true := by simpa using h2
      simp only [α, h1, h3]
    rw [e]; exact .refl _
  · have e : α ({ s with ack := s.ack.filter p } : St) = { α s with ackSasl := false } := by
      have h1 : (s.ack.filter p).contains sSasl = false := by simpa using h
      simp only [α, h1]
    rw [e]; exact .single (.ackLose _)

theorem ref_doCapAckNak (isAck : Bool) (args : List Str) (s : St) (hK : K .authMech = true) (hK2 : K .startSasl = true)
    (hK3 : isAck = true → K .ackPerm = true) : Ref cfg K s (doCapAckNak cfg isAck args s) := by
  unfold doCapAckNak
  split
  · simp only
    split
    · exact .refl _
    · split
      · rename_i hia; exact Moves.trans (ref_ackGain _ s (hK3 hia)) (ref_capUpkeep _ hK hK2)
      · exact Ref.of_α_eq (ref_capUpkeep _ hK hK2) rfl
  · exact .refl _

theorem ref_doCapDel (args : List Str) (s : St) : Ref cfg K s (doCapDel args s) := by
  unfold doCapDel
  split
  · simp only
    split
    · exact .refl _
    · generalize splitWs _ = l
      show Moves cfg K (α s) (α (l.foldl _ s))
      induction l generalizing s with
      | nil => exact .refl _
      | cons c cs ih =>
        simp only [List.foldl_cons]
        refine Moves.trans ?_ (ih _)
        unfold delCap
        exact Moves.trans (ref_ackFilter (· != capName c) s) (.of_eq rfl)
  · exact .refl _

theorem ref_capNewFinal (s : St) (hK : K .capReq = true) : Moves cfg K (α s) (α (capNewFinal s)) := by
  unfold capNewFinal
  split
  · exact .refl _
  · split
    · exact .refl _
    · exact ref_requestCaps _ _ hK

theorem ref_doCapNew (args : List Str) (s : St) (hK : K .capReq = true) (hS : K .storePerm = true) : Ref cfg K s (doCapNew cfg args s) := by
  unfold doCapNew
  split
  · split
    · exact .refl _
    · exact Moves.trans (ref_addCapabilities _ s hS) (ref_capNewFinal _ hK)
  · exact .refl _

/-! ### nick collisions, MOTD, PING, ERROR, NICK -/

theorem α_nickFallback (s : St) : α (nickFallback cfg s).2 = α s := by
  unfold nickFallback; split <;> rfl

theorem α_getNextNick (s : St) : α (getNextNick cfg s).2 = α s := by
  unfold getNextNick
  split
  · split
    · rw [α_nickFallback]; rfl
    · rfl
  · exact α_nickFallback s

theorem ref_do43x (s : St) (hK : K .nick = true) : Ref cfg K s (do43x cfg s) := by
  unfold do43x
  split
  · exact .refl _
  · have h := α_getNextNick (cfg := cfg) s
    split
    · rename_i n s' he
      rw [he] at h
      simp only at h
      split
      · exact .of_eq h.symm
      · exact Moves.trans (.of_eq h.symm) (ref_sendMsg _ _ hK (by simp [Out.kind]) (by simp [Out.kind, Kind.sasl]))
    · rename_i s' he
      rw [he] at h
      simp only at h
      exact Moves.trans (.of_eq h.symm) (ref_sendMsg _ _ hK (by simp [Out.kind]) (by simp [Out.kind, Kind.sasl]))

theorem missing_α (s : St) : missing cfg (α s) = saslMissing cfg s := rfl

theorem ref_do375 (s : St) : Ref cfg K s (do375 cfg s) := by
  unfold do375
  by_cases hm : saslMissing cfg s = true
  · simp only [hm, if_true]; exact ref_drvReconnect _ _ s
  · simp only [hm]
    unfold transition
    simp only
    by_cases hg : Gen.Conn.guardStartMotd.contains s.fsm = true
    · simp only [hg, if_true, tab_startMotd.1]
      exact .single (.startMotd (α s) (tab_startMotd.2 _ hg) (by simpa [missing_α] using hm))
    · simp only [hg]; exact .refl _

theorem ref_do376 (s : St) : Ref cfg K s (do376 cfg s) := by
  unfold do376
  by_cases hm : saslMissing cfg s = true
  · simp only [hm, if_true]; exact ref_drvReconnect _ _ s
  · simp only [hm]
    unfold transition
    simp only
    by_cases hg : Gen.Conn.guardEndMotd.contains s.fsm = true
    · simp only [hg, if_true, tab_endMotd.1, bind_ok]
      have hm' : missing cfg (α s) = false := by simpa [missing_α] using hm
      refine Moves.trans (.single (.endMotd (α s) (tab_endMotd.2 _ hg) hm')) ?_
      exact .single (.setAfterConnect _ rfl hm')
    · simp only [hg]; exact .refl _

theorem ref_doPing (args : List Str) (s : St) (hK : K .pong = true) : Ref cfg K s (doPing args s) := by
  unfold doPing
  split
  · exact .refl _
  · exact ref_sendMsg _ s hK (by simp [Out.kind]) (by simp [Out.kind, Kind.sasl])

theorem ref_doError (args : List Str) (s : St) (hK : K .connPerm = true) : Ref cfg K s (doError cfg args s) := by
  unfold doError
  split
  · exact .refl _
  · split
    · exact ref_drvReconnectGen _ _ s (fun _ => ⟨hK, rfl⟩)
    · split
      · exact ref_drvReconnect _ _ s
      · exact .refl _

theorem ref_doNick (n : Str) (args : List Str) (s : St) : Ref cfg K s (doNick n args s) := by
  unfold doNick
  split
  · split
    · exact .refl _
    · exact .of_eq rfl
  · exact .refl _

theorem ref_do002 (args : List Str) (s : St) : Ref cfg K s (do002 args s) := by
  unfold do002
  split
  · exact .refl _
  · split <;> exact .refl _

/-! ### feedMsg -/

/-- the message kinds a handler may put on the fast queue by itself (CAP END has its own move) -/
def handlerKinds : Handler → Kind → Bool
  | .capLs, k => k = .capReq || k = .storePerm
  | .capNew, k => k = .capReq || k = .storePerm
  | .capAck, k => k = .authMech || k = .startSasl || k = .ackPerm
  | .capNak, k => k = .authMech || k = .startSasl
  | .authenticate, k => k = .payload
  | .n904to907, k => k = .authMech
  | .n43x, k => k = .nick
  | .ping, k => k = .pong
  | .error, k => k = .connPerm
  | .n903, k => k = .authPerm
  | .n376, k => k = .joinPerm
  | _, _ => false

theorem ref_runHandler (m : Msg) (s : St) : Ref cfg (handlerKinds (dispatch m)) s (runHandler cfg m s) := by
  unfold runHandler
  cases h : dispatch m <;> simp only [handlerKinds]
  · exact ref_doCapLs _ _ (by decide) (by decide)
  · exact ref_doCapAckNak _ _ _ (by decide) (by decide) (fun _ => by decide)
  · exact ref_doCapAckNak _ _ _ (by decide) (by decide) (fun h => by cases h)
  · exact ref_doCapNew _ _ (by decide) (by decide)
  · exact ref_doCapDel _ _
  · exact ref_doAuthenticate _ _ _ (by decide)
  · exact ref_do903 _ (by decide)
  · exact ref_tryNextSasl _ (by decide)
  · exact ref_do908 _ _
  · exact ref_do002 _ _
  · exact ref_do375 _
  · exact ref_do376 _
  · exact ref_do43x _ (by decide)
  · exact ref_doPing _ _ (by decide)
  · exact ref_doError _ _ (by decide)
  · exact ref_doNick _ _ _
  · exact .refl _

theorem ref_nickSetter (m : Msg) (s : St) : Ref cfg K s (nickSetter m s) := by
  unfold nickSetter
  split
  · split
    · exact .refl _
    · exact .of_eq rfl
  · exact .refl _

/-- Irc.do376 returned normally: it completed (`afterConnect`), or it dropped the connection -/
theorem do376_post (s : St) (h : (do376 cfg s).exc = none) :
    (do376 cfg s).st.afterConnect = true ∨ (do376 cfg s).st.drv.connected = false ∨ cfg.realDriver = false := by
  unfold do376 at h ⊢
  by_cases hm : saslMissing cfg s = true
  · simp only [hm, if_true]
    by_cases hr : cfg.realDriver = true
    · right; left
      unfold drvReconnect realReconnect
      simp only [hr, if_true, ok]
      have hi : ∀ t : St, (ircReset cfg t).drv = t.drv := by
        intro t; unfold ircReset queueConnectMessages transition clearForReset resetSasl
        simp only; split <;> rfl
      simp only [drvSchedule, hi]
      unfold drvDisconnect
      split
      · simp [event]
      · rename_i hc; simpa using hc
    · exact .inr (.inr (by simpa using hr))
  · simp only [hm] at h ⊢
    unfold transition at h ⊢
    simp only at h ⊢
    by_cases hg : Gen.Conn.guardEndMotd.contains s.fsm = true
    · simp only [hg, if_true, bind_ok]; exact .inl rfl
    · simp only [hg] at h; simp [raise, R.bind] at h

theorem ref_callbacks (m : Msg) (s : St) (hK : dispatch m = .n376 → K .joinPerm = true)
    (h : dispatch m = .n376 → s.afterConnect = true ∨ s.drv.connected = false ∨ cfg.realDriver = false) :
    Moves cfg K (α s) (α (callbacks cfg m s)) := by
  unfold callbacks; split
  · rename_i hc
    rw [α_queueJoin]
    exact .single (.joinQueue (α s) (h hc.2) (hK hc.2))
  · exact .refl _

theorem ref_feedMsg (m : Msg) (s : St) : Ref cfg (handlerKinds (dispatch m)) s (feedMsg cfg m s) := by
  unfold feedMsg
  refine Ref.bind (ref_nickSetter m s) fun _ => ?_
  refine Ref.bind (ref_runHandler m _) fun hx => ?_
  refine ref_callbacks m _ (fun hd => by rw [hd]; rfl) fun hd => ?_
  unfold runHandler at hx ⊢
  rw [hd] at hx ⊢
  exact do376_post _ hx

end C08
