/-
C08 — control-flow abstraction of the model.

`α : St → Abs` keeps the FSM state, the SASL/afterConnect flags, the ghost counters, whether `sasl` is
acknowledged, the *kinds* of the messages waiting on the fast queue and the number of driver aborts.
`Move` lists the elementary changes the handlers can make to that abstraction, each with the guard under
which the code makes it; `Moves` is the reflexive-transitive closure.  Every function of the model is
shown to refine `Moves` (one lemma per function, using the table lemmas about the extracted FSM guards).
All control-flow invariants are then proved once, on `Move`.
-/
import LimnoriaModel.C08.Model
namespace C08
open Py
open Gen.Conn (Fsm)

inductive Kind where
  | connect | capReq | capEnd | authMech | payload | nick | pong
  | startSasl      -- not a message: the permission to enter a SASL state (`on_sasl_cap`)
  | ackPerm        -- not a message: the permission to raise the ghost `saslAcked` (CAP ACK)
  | connPerm       -- not a message: the permission to open a new socket at once (`reconnect(wait=False)`)
  | authPerm       -- not a message: the permission to raise `sasl_authenticated` (903)
  | side           -- JOINs (normal queue only) and driver events: never on the fast queue
  | joinPerm       -- not a message: the permission to queue the JOINs (Owner.do376/do377/do422)
  | storePerm      -- not a message: the permission to store an STS policy (CAP LS / CAP NEW)
deriving DecidableEq, Repr

def Out.kind : Out → Kind
  | .capLs => .connect
  | .pass _ => .connect
  | .user _ _ => .connect
  | .nick _ => .nick
  | .nickRandom => .nick
  | .capReq _ => .capReq
  | .capEnd => .capEnd
  | .authMech _ => .authMech
  | .authPayload _ => .payload
  | .authOpaque => .payload
  | .authAbort => .payload
  | .pong _ => .pong
  | _ => .side         -- join / driver events never enter the fast queue

def isSaslState (f : Fsm) : Bool := f = .INIT_SASL || f = .CONNECTED_SASL

/-- kinds that are only sent inside a SASL exchange -/
def Kind.sasl (k : Kind) : Bool := k = .authMech || k = .payload

structure Abs where
  fsm : Fsm
  saslAuth : Bool
  afterConnect : Bool
  endCount : Nat
  epoch : Nat
  ackSasl : Bool
  kinds : List Kind
  aborts : Nat
  acked : Bool       -- ghost `saslAcked`
  slowOk : Bool      -- the normal queue holds nothing but JOINs
  evOk : Bool        -- the event list holds nothing but driver events
  wantedOk : Bool    -- REQUEST_CAPABILITIES ⊆ the extracted set + `sasl`
  policies : List (Str × Str)   -- the stored STS policies (ircdb.networks)
  forced : Bool      -- driver.currentServer.force_tls_verification
  sock : Nat         -- sockets opened so far
  sent : Bool        -- sasl_response_sent
  joinQ : Bool       -- a JOIN of Owner.do376 waits on the normal queue
  conn : Bool        -- driver.connected
  host : Str         -- driver.currentServer.hostname
  bad : Bool         -- ghost `joinBad`
deriving DecidableEq, Repr

def isReconnect : Out → Bool
  | .reconnect _ _ => true
  | _ => false

/-- things that are not messages of the fast queue -/
def isSide : Out → Bool
  | .join => true
  | .reconnect _ _ => true
  | .closed => true
  | .connected _ _ _ => true
  | .connectFailed _ => true
  | _ => false

def isWanted (c : Str) : Bool := Gen.Conn.requestCapabilities.contains c || c == sSasl

def α (s : St) : Abs :=
  { fsm := s.fsm, saslAuth := s.saslAuth, afterConnect := s.afterConnect, endCount := s.endCount,
    epoch := s.epoch, ackSasl := s.ack.contains sSasl, kinds := s.fastq.map Out.kind,
    aborts := (s.ev.filter isReconnect).length, acked := s.saslAcked,
    slowOk := s.slowq.all isSide, evOk := s.ev.all isSide, wantedOk := s.wanted.all isWanted,
    policies := s.db.policies, forced := s.drv.current.forced, sock := s.drv.sock,
    sent := s.saslSent, joinQ := s.slowq.contains .join, conn := s.drv.connected, host := s.drv.current.host,
    bad := s.joinBad }

/-- `secure_connection` of Irc._onCapSts, on the abstraction -/
def aSecure (cfg : Cfg) (a : Abs) : Bool := a.forced || (cfg.ssl && cfg.certValidation)

/-- `Irc._abortIfSaslRequired` would abort -/
def missing (cfg : Cfg) (a : Abs) : Bool := cfg.required && !a.saslAuth

/-- kinds of the messages queued by `_queueConnectMessages` -/
def connectKinds (cfg : Cfg) : List Kind :=
  [.connect] ++ (if cfg.password.isEmpty then [] else [.connect]) ++ [.nick, .connect]

inductive Move (cfg : Cfg) (K : Kind → Bool) : Abs → Abs → Prop
  /-- a message of an allowed kind is queued; SASL kinds only inside a SASL state; CAP END never this way -/
  | emit (a : Abs) (k : Kind) (hK : K k = true) (hEnd : k ≠ .capEnd) (hS : k.sasl = true → isSaslState a.fsm = true) :
      Move cfg K a { a with kinds := a.kinds ++ [k] }
  /-- endCapabilityNegociation: only from INIT_CAP_NEGOTIATION, not when SASL is required and missing -/
  | capEnd (a : Abs) (h : a.fsm = .INIT_CAP_NEGOTIATION) (hm : missing cfg a = false) :
      Move cfg K a { a with fsm := .INIT_WAITING_MOTD, endCount := a.endCount + 1, kinds := a.kinds ++ [.capEnd] }
  /-- on_sasl_cap from _maybeStartSasl -/
  | saslStart (a : Abs) (to : Fsm) (h : (a.fsm = .INIT_CAP_NEGOTIATION ∧ to = .INIT_SASL) ∨ (a.fsm = .CONNECTED ∧ to = .CONNECTED_SASL))
      (hack : a.ackSasl = true) (hauth : a.saslAuth = false) (hK : K .startSasl = true) : Move cfg K a { a with fsm := to }
  /-- on_sasl_auth_finished -/
  | saslFinish (a : Abs) (to : Fsm) (h : (a.fsm = .INIT_SASL ∧ to = .INIT_CAP_NEGOTIATION) ∨ (a.fsm = .CONNECTED_SASL ∧ to = .CONNECTED)) :
      Move cfg K a { a with fsm := to }
  | startMotd (a : Abs) (h : a.fsm = .INIT_CAP_NEGOTIATION ∨ a.fsm = .INIT_WAITING_MOTD ∨ a.fsm = .CONNECTED ∨ a.fsm = .CONNECTED_SASL)
      (hm : missing cfg a = false) : Move cfg K a { a with fsm := .INIT_MOTD }
  | endMotd (a : Abs) (h : a.fsm = .INIT_CAP_NEGOTIATION ∨ a.fsm = .INIT_WAITING_MOTD ∨ a.fsm = .INIT_MOTD ∨ a.fsm = .CONNECTED ∨ a.fsm = .CONNECTED_SASL)
      (hm : missing cfg a = false) : Move cfg K a { a with fsm := .CONNECTED }
  | setAfterConnect (a : Abs) (h : a.fsm = .CONNECTED) (hm : missing cfg a = false) : Move cfg K a { a with afterConnect := true }
  | shutdown (a : Abs) : Move cfg K a { a with fsm := .SHUTTING_DOWN }
  /-- do903: the server says the authentication succeeded; honoured only inside a SASL state, after a
  complete response of ours for the current mechanism -/
  | authOk (a : Abs) (h : isSaslState a.fsm = true) (hs : a.sent = true) (hK : K .authPerm = true) :
      Move cfg K a { a with saslAuth := true }
  /-- sendSaslString completed: only a handler that may send credentials, inside a SASL state -/
  | respond (a : Abs) (h : isSaslState a.fsm = true) (hK : K .payload = true) : Move cfg K a { a with sent := true }
  /-- tryNextSaslMechanism starts another mechanism -/
  | unsent (a : Abs) : Move cfg K a { a with sent := false }
  /-- Owner.do376/do377/do422 queue the JOINs: after Irc.do376 completed, or after it dropped the connection -/
  | joinQueue (a : Abs) (h : a.afterConnect = true ∨ a.conn = false ∨ cfg.realDriver = false) (hK : K .joinPerm = true) :
      Move cfg K a { a with joinQ := true }
  /-- SocketDriver.reconnect closes the current socket -/
  | disc (a : Abs) : Move cfg K a { a with conn := false }
  /-- SocketDriver.reconnect: the connection attempt to the next server failed -/
  | connFail (a : Abs) (f : Bool) (h : Str) (hr : cfg.realDriver = true) (hK : K .connPerm = true) :
      Move cfg K a { a with forced := f, sock := a.sock + 1, conn := false, host := h }
  /-- a CAP ACK leaves `sasl` acknowledged -/
  | ackGain (a : Abs) (hK : K .ackPerm = true) : Move cfg K a { a with ackSasl := true, acked := true }
  /-- CAP DEL removes `sasl` from the acknowledged set -/
  | ackLose (a : Abs) : Move cfg K a { a with ackSasl := false }
  | abort (a : Abs) : Move cfg K a { a with aborts := a.aborts + 1 }
  /-- Irc.reset() from inside a handler: only with the real driver -/
  | reset (a : Abs) (h : cfg.realDriver = true) :
      Move cfg K a { fsm := .INIT_CAP_NEGOTIATION, saslAuth := false, afterConnect := false, endCount := 0,
                     epoch := a.epoch + 1, ackSasl := false, kinds := connectKinds cfg, aborts := a.aborts,
                     acked := false, slowOk := true, evOk := a.evOk, wantedOk := true,
                     policies := a.policies, forced := a.forced, sock := a.sock,
                     sent := false, joinQ := false, conn := a.conn, host := a.host, bad := a.bad }
  /-- Irc._onCapSts stores the policy: only on a connection it considers secure -/
  | store (a : Abs) (h : aSecure cfg a = true) (ps : List (Str × Str)) (hK : K .storePerm = true) :
      Move cfg K a { a with policies := ps }
  /-- ServersMixin._applyStsPolicy drops an expired policy -/
  | expire (a : Abs) (host : Str) : Move cfg K a { a with policies := dictDel a.policies host }
  /-- SocketDriver.reconnect opens a socket to the next server: nothing of an earlier connection waits on
  the normal queue; a server for whose host a policy is stored is connected to with forced verification -/
  | conn (a : Abs) (f : Bool) (h : Str) (hr : cfg.realDriver = true) (hK : K .connPerm = true) (hj : a.joinQ = false)
      (hp : (dictGet a.policies h).isSome = true → f = true ∨ (cfg.ssl && cfg.certValidation) = true) :
      Move cfg K a { a with forced := f, sock := a.sock + 1, conn := true, host := h }

inductive Moves (cfg : Cfg) (K : Kind → Bool) : Abs → Abs → Prop
  | refl (a : Abs) : Moves cfg K a a
  | step {a b c : Abs} : Moves cfg K a b → Move cfg K b c → Moves cfg K a c

namespace Moves
variable {cfg : Cfg} {K : Kind → Bool}

theorem single {a b : Abs} (h : Move cfg K a b) : Moves cfg K a b := .step (.refl a) h

theorem trans {a b c : Abs} (h1 : Moves cfg K a b) (h2 : Moves cfg K b c) : Moves cfg K a c := by
  induction h2 with
  | refl => exact h1
  | step _ m ih => exact .step ih m

theorem of_eq {a b : Abs} (h : a = b) : Moves cfg K a b := h ▸ .refl a

end Moves

theorem Move.mono {cfg : Cfg} {K K' : Kind → Bool} (hK : ∀ k, K k = true → K' k = true) {a b : Abs}
    (h : Move cfg K a b) : Move cfg K' a b := by
  cases h
  case emit k h1 h2 h3 => exact .emit _ k (hK k h1) h2 h3
  case capEnd h hm => exact .capEnd _ h hm
  case saslStart to h h1 h2 h3 => exact .saslStart _ to h h1 h2 (hK _ h3)
  case saslFinish to h => exact .saslFinish _ to h
  case startMotd h hm => exact .startMotd _ h hm
  case endMotd h hm => exact .endMotd _ h hm
  case setAfterConnect h hm => exact .setAfterConnect _ h hm
  case shutdown => exact .shutdown _
  case authOk h hs hp => exact .authOk _ h hs (hK _ hp)
  case respond h hp => exact .respond _ h (hK _ hp)
  case unsent => exact .unsent _
  case joinQueue h hp => exact .joinQueue _ h (hK _ hp)
  case disc => exact .disc _
  case connFail f h hr hp => exact .connFail _ f h hr (hK _ hp)
  case ackGain h => exact .ackGain _ (hK _ h)
  case ackLose => exact .ackLose _
  case abort => exact .abort _
  case reset h => exact .reset _ h
  case store h ps hp => exact .store _ h ps (hK _ hp)
  case expire host => exact .expire _ host
  case conn f h hr hp hj hpol => exact .conn _ f h hr (hK _ hp) hj hpol

theorem Moves.mono {cfg : Cfg} {K K' : Kind → Bool} (hK : ∀ k, K k = true → K' k = true) {a b : Abs}
    (h : Moves cfg K a b) : Moves cfg K' a b := by
  induction h with
  | refl => exact .refl _
  | step _ m ih => exact .step ih (m.mono hK)

end C08
