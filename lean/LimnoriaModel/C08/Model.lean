/-
C08 / C09 — executable model of the connection-registration state machine of `irclib.Irc`
(src/irclib.py: IrcStateFsm, IrcState.reset, Irc.feedMsg dispatch, reset/_setNonResettingVariables/
resetSasl/_queueConnectMessages, capUpkeep, endCapabilityNegociation, tryNextSaslMechanism,
_maybeStartSasl, doAuthenticate (+ecdsa, +scram with the library calls as parameters), do903..do908, doCapAck/Nak/Ls/New/Del, _addCapabilities,
_onCapSts, _requestCaps, _getNextNick, do43x, do375/376/377/422, doPing, doError, doNick),
of `ircutils.AuthenticateDecoder / authenticate_generator / parseStsPolicy`
and of the parts of `drivers.ServersMixin` / `drivers.Socket.SocketDriver` that decide when the Irc
object is reset, which server is used next and how TLS is verified.

Python exceptions are explicit (`R.exc`); a handler that raises keeps the effects it had so far.
Sets are lists compared up to order/duplicates by the driver.  No Mathlib, no partial, no unsafe.
-/
import LimnoriaModel.Py.Basic
import LimnoriaModel.Gen.Conn
namespace C08
open Py
open Gen.Conn (Fsm)

/-! ### string constants (explicit character lists so that `decide` can evaluate the model) -/
def sSasl : Str := ['s','a','s','l']
def sSts : Str := ['s','t','s']
def sEcho : Str := ['e','c','h','o','-','m','e','s','s','a','g','e']
def sLabeled : Str := ['l','a','b','e','l','e','d','-','r','e','s','p','o','n','s','e']
def sPlain : Str := ['p','l','a','i','n']
def sExternal : Str := ['e','x','t','e','r','n','a','l']
def sEcdsa : Str := ['e','c','d','s','a','-','n','i','s','t','2','5','6','p','-','c','h','a','l','l','e','n','g','e']
def sScramPfx : Str := ['s','c','r','a','m','-']
def sDashPlus : Str := ['-','p','l','u','s']
def sPort : Str := ['p','o','r','t']
def sDuration : Str := ['d','u','r','a','t','i','o','n']
def sPlus : Str := ['+']
def sStar : Str := ['*']
def sCAP : Str := ['C','A','P']
def sAUTHENTICATE : Str := ['A','U','T','H','E','N','T','I','C','A','T','E']
def sPING : Str := ['P','I','N','G']
def sPONG : Str := ['P','O','N','G']
def sERROR : Str := ['E','R','R','O','R']
def sNICK : Str := ['N','I','C','K']
def sClosingLink : Str := ['c','l','o','s','i','n','g',' ','l','i','n','k']
def sTooFast : Str := ['t','o','o',' ','f','a','s','t']
def sPctS : Str := ['%','s']
def num (a b c : Char) : Str := [a, b, c]

/-! ### small Python helpers -/

def asciiUpper (s : Str) : Str := s.map asciiUpperChar

/-- code-point lexicographic `<` on strings (Python `str.__lt__`) -/
def strLt : Str → Str → Bool
  | [], [] => false
  | [], _ :: _ => true
  | _ :: _, [] => false
  | a :: as, b :: bs => if a.toNat < b.toNat then true else if b.toNat < a.toNat then false else strLt as bs

def insertSorted (x : Str) : List Str → List Str
  | [] => [x]
  | y :: ys => if strLt y x then y :: insertSorted x ys else x :: y :: ys

/-- `sorted(caps)` (insertion sort: structural, so the kernel can evaluate it) -/
def isort : List Str → List Str
  | [] => []
  | x :: xs => insertSorted x (isort xs)

/-- `a <= b` on sets -/
def subset (a b : List Str) : Bool := a.all (fun x => b.contains x)

/-- set union kept duplicate-free when the left operand is -/
def union (a b : List Str) : List Str := b.foldl (fun acc x => if acc.contains x then acc else acc ++ [x]) a

/-- Python dict with insertion order: `d[k] = v` -/
def dictSet {β : Type} (d : List (Str × β)) (k : Str) (v : β) : List (Str × β) :=
  match d with
  | [] => [(k, v)]
  | (k', v') :: rest => if k' = k then (k, v) :: rest else (k', v') :: dictSet rest k v

def dictGet {β : Type} (d : List (Str × β)) (k : Str) : Option β :=
  match d with
  | [] => none
  | (k', v') :: rest => if k' = k then some v' else dictGet rest k

def dictDel {β : Type} (d : List (Str × β)) (k : Str) : List (Str × β) := d.filter (fun p => p.1 != k)

def keys {β : Type} (d : List (Str × β)) : List Str := d.map (·.1)

/-- `int(s)` for a token without blanks, ASCII digits only: optional sign, digit groups separated by
single underscores.  (Unicode digits and the 4300-digit limit are outside the model.) -/
def digitsVal : Str → Nat → Bool → Option Nat      -- rest, accumulator, "previous char was a digit"
  | [], acc, prevDigit => if prevDigit then some acc else none
  | c :: cs, acc, prevDigit =>
    if isDigit c then digitsVal cs (acc * 10 + (c.toNat - 48)) true
    else if c = '_' ∧ prevDigit ∧ cs.head?.any isDigit then digitsVal cs acc false
    else none

def pyInt (s : Str) : Option Int :=
  match s with
  | '+' :: r => (digitsVal r 0 false).map Int.ofNat
  | '-' :: r => (digitsVal r 0 false).map (fun n => - Int.ofNat n)
  | r => (digitsVal r 0 false).map Int.ofNat

/-! ### base64 (`base64.b64encode`, and which inputs `base64.b64decode` accepts) -/

def b64Char (n : Nat) : Char :=
  if n < 26 then Char.ofNat (65 + n) else if n < 52 then Char.ofNat (97 + (n - 26))
  else if n < 62 then Char.ofNat (48 + (n - 52)) else if n = 62 then '+' else '/'

/-- bytes are naturals below 256 (kernel-friendly) -/
def b64encode : List Nat → Str
  | [] => []
  | [a] => [b64Char (a / 4), b64Char ((a % 4) * 16), '=', '=']
  | [a, b] => [b64Char (a / 4), b64Char ((a % 4) * 16 + b / 16), b64Char ((b % 16) * 4), '=']
  | a :: b :: c :: rest =>
    b64Char (a / 4) :: b64Char ((a % 4) * 16 + b / 16) ::
    b64Char ((b % 16) * 4 + c / 64) :: b64Char (c % 64) :: b64encode rest

/-- UTF-8 encoding of one code point -/
def utf8Char (c : Char) : List Nat :=
  let n := c.toNat
  if n < 0x80 then [n]
  else if n < 0x800 then [0xC0 + n / 64, 0x80 + n % 64]
  else if n < 0x10000 then [0xE0 + n / 4096, 0x80 + (n / 64) % 64, 0x80 + n % 64]
  else [0xF0 + n / 262144, 0x80 + (n / 4096) % 64, 0x80 + (n / 64) % 64, 0x80 + n % 64]

/-- `s.encode('utf-8')` -/
def utf8 (s : Str) : List Nat := s.flatMap utf8Char

def isB64Data (c : Char) : Bool :=
  ('A' ≤ c && c ≤ 'Z') || ('a' ≤ c && c ≤ 'z') || ('0' ≤ c && c ≤ '9') || c = '+' || c = '/'

/-- `binascii.a2b_base64` (non-strict) as a scanner: `some n` = decodes to `n` bytes, `none` =
`binascii.Error`.  State: position in the current quad, pads seen since the last data character. -/
def b64scan : Str → Nat → Nat → Nat → Option Nat
  | [], quad, _, n => if quad = 0 then some n else none
  | c :: cs, quad, pads, n =>
    if c = '=' then
      if quad ≥ 2 then (if quad + (pads + 1) ≥ 4 then some n else b64scan cs quad (pads + 1) n)
      else b64scan cs quad pads n
    else if isB64Data c then
      (if quad = 0 then b64scan cs 1 0 n else if quad = 3 then b64scan cs 0 0 (n + 1) else b64scan cs (quad + 1) 0 (n + 1))
    else b64scan cs quad pads n

/-- length of `base64.b64decode(b''.join(chunks))`, `none` when it raises -/
def b64decodedLen (chunks : List Str) : Option Nat := b64scan chunks.flatten 0 0 0

/-- `ircutils.authenticate_generator(b64)`: pieces of `sz` characters; a final `+` when the length is a
multiple of `sz` (including 0).  `fuel` ≥ length + 1. -/
def authChunksAux (sz : Nat) : Nat → Str → List Str
  | 0, _ => []
  | fuel + 1, a =>
    if a.length < sz then [if a.isEmpty then sPlus else a]
    else a.take sz :: authChunksAux sz fuel (a.drop sz)

def authChunks (sz : Nat) (a : Str) : List Str := authChunksAux sz (a.length + 1) a

/-! ### textwrap.wrap(' '.join(words), width, break_long_words=False, break_on_hyphens=False) -/

def fillGo (width : Nat) : List Str → List Str → Nat → List (List Str)
  | [], cur, _ => [cur]
  | w :: ws, cur, n =>
    if n + 1 + w.length ≤ width then fillGo width ws (cur ++ [w]) (n + 1 + w.length)
    else cur :: fillGo width ws [w] w.length

/-- greedy word fill: a word joins the current line when it fits after one blank; the first word of
a line is always taken -/
def fill (width : Nat) : List Str → List (List Str)
  | [] => []
  | w :: ws => fillGo width ws [w] w.length

/-! ### data -/

structure Server where
  host : Str
  port : Int
  attempt : Option Int
  forced : Bool          -- force_tls_verification
deriving DecidableEq, Repr

structure Decoder where  -- ircutils.AuthenticateDecoder
  chunks : List Str
  ready : Bool
deriving DecidableEq, Repr

/-- what leaves the Irc object: messages put on its queues, and calls on the driver -/
inductive Out where
  | capLs                                   -- CAP LS 302
  | pass (p : Str)
  | nick (n : Str)
  | nickRandom                              -- NICK <configured nick with random digits> (not modelled)
  | user (ident real : Str)
  | capReq (words : List Str)               -- CAP REQ :<words joined by one blank>
  | capEnd
  | authMech (m : Str)                      -- AUTHENTICATE <MECHANISM>
  | authPayload (chunk : Str)               -- AUTHENTICATE <chunk of base64 credentials>
  | authOpaque                              -- AUTHENTICATE <ecdsa signature> (crypto not modelled)
  | authAbort                               -- AUTHENTICATE *
  | pong (a : Str)
  | join                                    -- Owner.do376: queueMsg(JOIN ...) for the configured channels
  | reconnect (wait : Bool) (server : Option Server)   -- driver.reconnect(...)
  | closed                                  -- real driver: socket of the current connection closed
  | connected (srv : Server) (tls : Bool) (verify : Bool)  -- real driver: new socket connected
  | connectFailed (srv : Server)            -- real driver: connecting (or the TLS handshake set-up) failed
deriving DecidableEq, Repr

structure Cfg where
  nick : Str
  ident : Str
  user : Str
  password : Str           -- supybot.networks.<net>.password
  alternates : List Str    -- supybot.nick.alternates
  mechanisms : List Str    -- supybot.networks.<net>.sasl.mechanisms
  saslUser : Str
  saslPass : Str
  ecdsaKey : Str
  ecdsaKeyOk : Bool        -- parameter: the key file loads and signs a 32-byte challenge
  certfile : Bool          -- network or global certfile configured
  required : Bool          -- supybot.networks.<net>.sasl.required
  joins : Bool             -- the network has channels to join (Owner.do376)
  hasCrypto : Bool         -- `cryptography` importable
  hasScram : Bool := false -- `pyxmpp2_scram` importable
  -- the SCRAM library as parameters: supported hash names, the client-first message, the client-final
  -- message (`none` = `challenge()` raises ScramException), the outcome of `finish()`
  scramHashes : List Str := []
  scramFirst : List Nat := []
  scramFinal : Option (List Nat) := none
  scramFinish : Nat := 0   -- 0 = accepted, 1 = BadSuccessException, other = another ScramException
  realDriver : Bool        -- SocketDriver semantics (reconnect resets the Irc) vs recording stub
  ssl : Bool               -- supybot.networks.<net>.ssl (driver.ssl)
  certValidation : Bool    -- driver.anyCertValidationEnabled()
  verifyCerts : Bool       -- supybot.protocols.ssl.verifyCertificates
  servers : List Server    -- supybot.networks.<net>.servers
  tlsFails : Bool := false -- wrapping a socket in TLS raises (e.g. ssl.authorityCertificate names a directory)
deriving Repr

/-- ircdb.networks.getNetwork(net): persisted across connections and restarts -/
structure Db where
  policies : List (Str × Str) := []       -- stsPolicies: hostname -> raw policy
  lastDisc : List (Str × Nat) := []       -- lastDisconnectTimes
deriving DecidableEq, Repr

structure Drv where
  connected : Bool := false
  current : Server := ⟨[], 0, none, false⟩
  servers : List Server := []
  scheduled : Bool := false                -- nextReconnectTime is set
  attempt : Int := -1
  sock : Nat := 0                          -- sockets opened so far (the current one has this number)
  failNext : Nat := 0                      -- environment: the next so many connect() calls are refused
deriving DecidableEq, Repr

structure St where
  -- IrcState
  fsm : Fsm := Gen.Conn.fsmReset
  ls : List (Str × Option Str) := []
  req : List Str := []
  ack : List Str := []
  nak : List Str := []
  -- Irc
  saslNext : List Str := []
  saslCur : Option Str := none
  saslAuth : Bool := false
  saslSent : Bool := false   -- sasl_response_sent: a complete response went out for the current mechanism
  scramStep : Nat := 0       -- sasl_scram_state['step']: 0 uninitialized, 1 first-sent, 2 final-sent, 3 authenticated
  -- sasl_username / sasl_password / sasl_ecdsa_key as read from the configuration by the last resetSasl
  saslUser : Str := []
  saslPass : Str := []
  ecdsaKeyOk : Bool := false
  dec : Option Decoder := none
  nick : Str := []
  altNicks : List Str := []
  tried : List Str := []
  afterConnect : Bool := false
  -- self.REQUEST_CAPABILITIES (rebuilt from the class-level set by every resetSasl)
  wanted : List Str := Gen.Conn.requestCapabilities
  -- Irc.fastqueue / Irc.queue (messages not yet taken by the driver)
  fastq : List Out := []
  slowq : List Out := []
  -- driver calls and socket events of the current step
  ev : List Out := []
  drv : Drv := {}
  db : Db := {}
  now : Nat := 0
  wire : List (Nat × Out) := []   -- real driver: what was written during this operation, with the socket number
  -- ghost (not observable in the implementation; used by the theorems)
  epoch : Nat := 0          -- number of Irc.reset() calls so far
  endCount : Nat := 0       -- CAP END sent in this epoch
  saslAcked : Bool := false -- a CAP ACK left `sasl` acknowledged at some point of this epoch
  joinBad : Bool := false   -- real driver: a JOIN of Owner.do376 was written to a socket while `afterConnect` was not set
deriving Repr

/-- result of a handler: the state reached and the exception raised, if any -/
structure R where
  st : St
  exc : Option String := none

def R.bind (r : R) (f : St → R) : R :=
  match r.exc with
  | some _ => r
  | none => f r.st

def ok (s : St) : R := ⟨s, none⟩
def raise (e : String) (s : St) : R := ⟨s, some e⟩

@[simp] theorem bind_ok (s : St) (f : St → R) : (ok s).bind f = f s := rfl
@[simp] theorem bind_raise (e : String) (s : St) (f : St → R) : (raise e s).bind f = raise e s := rfl

def sendMsg (o : Out) (s : St) : St := { s with fastq := s.fastq ++ [o] }
def queueMsg (o : Out) (s : St) : St := { s with slowq := s.slowq ++ [o] }
def event (o : Out) (s : St) : St := { s with ev := s.ev ++ [o] }

/-! ### FSM -/

def transition (to : Fsm) (expected : Option (List Fsm)) (s : St) : R :=
  match expected with
  | none => ok { s with fsm := to }
  | some l => if l.contains s.fsm then ok { s with fsm := to } else raise "ValueError" s

def expectState (l : List Fsm) (s : St) : R :=
  if l.contains s.fsm then ok s else raise "ValueError" s

def tableTransition (t : List (Fsm × Fsm)) (s : St) : R :=
  match t.lookup s.fsm with
  | some to => ok { s with fsm := to }
  | none => raise "ValueError" s

def onSaslCap : St → R := tableTransition Gen.Conn.onSaslCap
def onSaslAuthFinished : St → R := tableTransition Gen.Conn.onSaslAuthFinished
def onCapEnd : St → R := transition Gen.Conn.toCapEnd (some Gen.Conn.guardCapEnd)
def onShutdown : St → R := transition Gen.Conn.toShutdown none

/-! ### reset -/

def mechAvailable (cfg : Cfg) (m : Str) : Bool :=
  if m = sEcdsa then cfg.hasCrypto && !cfg.saslUser.isEmpty && !cfg.ecdsaKey.isEmpty
  else if m = sExternal then cfg.certfile
  else if sScramPfx.isPrefixOf m then cfg.hasScram && !cfg.saslUser.isEmpty && !cfg.saslPass.isEmpty
  else if m = sPlain then !cfg.saslUser.isEmpty && !cfg.saslPass.isEmpty
  else false

/-- Irc.resetSasl -/
def resetSasl (cfg : Cfg) (s : St) : St :=
  let next := cfg.mechanisms.filter (mechAvailable cfg)
  { s with saslAuth := false, saslSent := false, scramStep := 0, dec := none, saslNext := next, saslCur := none,
           saslUser := cfg.saslUser, saslPass := cfg.saslPass, ecdsaKeyOk := cfg.ecdsaKeyOk,
           wanted := if next.isEmpty then Gen.Conn.requestCapabilities else Gen.Conn.requestCapabilities ++ [sSasl] }

/-- the messages Irc._queueConnectMessages / sendAuthenticationMessages put on the fast queue -/
def connectMsgs (cfg : Cfg) (nick : Str) : List Out :=
  [.capLs] ++ (if cfg.password.isEmpty then [] else [.pass cfg.password]) ++ [.nick nick, .user cfg.ident cfg.user]

/-- Irc._queueConnectMessages (not a zombie); the nick we start with counts as tried -/
def queueConnectMessages (cfg : Cfg) (s : St) : St :=
  (transition Gen.Conn.toInitMessagesSent (some Gen.Conn.guardInitMessagesSent)
    { s with fastq := s.fastq ++ connectMsgs cfg s.nick, tried := s.tried ++ [s.nick] }).st

/-- the fields Irc.reset() gives their start values: _setNonResettingVariables, IrcState.reset, queues -/
def clearForReset (cfg : Cfg) (s : St) : St :=
  { resetSasl cfg s with
      nick := cfg.nick, altNicks := cfg.alternates, tried := [], afterConnect := false,
      fsm := Gen.Conn.fsmReset, ls := [], req := [], ack := [], nak := [],
      fastq := [], slowq := [], epoch := s.epoch + 1, endCount := 0, saslAcked := false }

/-- Irc.reset() -/
def ircReset (cfg : Cfg) (s : St) : St := queueConnectMessages cfg (clearForReset cfg s)

/-! ### driver: ServersMixin / SocketDriver -/

structure StsPolicy where
  port : Int
  duration : Option Int
deriving DecidableEq, Repr

def parseKv (kv : Str) : Str × Option Str :=
  match split1 '=' kv with
  | some (k, v) => (k, some v)
  | none => (kv, none)

/-- the dict built by the first loop of `ircutils.parseStsPolicy` -/
def stsDict (policy : Str) : List (Str × Option Str) :=
  (splitChar ',' policy).foldl (fun d kv => dictSet d (parseKv kv).1 (parseKv kv).2) []

def stsInt (d : List (Str × Option Str)) (k : Str) : Option Int :=
  match dictGet d k with
  | some (some v) => pyInt v
  | _ => none

/-- `ircutils.parseStsPolicy(log, policy, parseDuration)`; `none` = returned None -/
def parseStsPolicy (policy : Str) (parseDuration : Bool) : Option StsPolicy :=
  let d := stsDict policy
  match stsInt d sPort with
  | none => none
  | some p =>
    if parseDuration then
      match stsInt d sDuration with
      | none => none
      | some dur => some ⟨p, some dur⟩
    else some ⟨p, none⟩

/-- has the stored policy expired: the duration counts from the last recorded disconnection; none
recorded = not started to expire -/
def stsExpired (last : Option Nat) (dur : Int) (now : Nat) : Bool :=
  match last with
  | none => false
  | some l => decide (Int.ofNat l + dur < Int.ofNat now)

/-- ServersMixin._applyStsPolicy.  `none` = the code raises (stored policy no longer parses). -/
def applyStsPolicy (s : St) (server : Server) : Option (Server × St) :=
  match dictGet s.db.policies server.host with
  | none => some (server, s)
  | some policy =>
    match parseStsPolicy policy true with
    | some ⟨port, some dur⟩ =>
      if stsExpired (dictGet s.db.lastDisc server.host) dur s.now then
        some (server, { s with db := { s.db with policies := dictDel s.db.policies server.host } })
      else some (⟨server.host, port, server.attempt, true⟩, s)
    | _ => none

/-- ServersMixin._getNextServer: next entry of the server list (reloaded from the configuration when
exhausted) with the stored STS policy applied.  `none` = assertion / exception. -/
def getNextServer (cfg : Cfg) (s : St) : Option (Server × St) :=
  match (if s.drv.servers.isEmpty then cfg.servers else s.drv.servers) with
  | [] => none
  | srv :: rest => applyStsPolicy { s with drv := { s.drv with servers := rest } } srv

/-- the TLS decision of SocketDriver.reconnect / starttls: (wrap in TLS, verify the certificate) -/
def tlsChoice (cfg : Cfg) (srv : Server) : Bool × Bool :=
  let tls := cfg.ssl || srv.forced
  (tls, tls && (if srv.forced && !cfg.certValidation then true else cfg.verifyCerts))

/-- does this connection attempt fail: the peer refuses, or TLS cannot be set up -/
def connectFails (cfg : Cfg) (srv : Server) (s : St) : Bool :=
  decide (0 < s.drv.failNext) || ((tlsChoice cfg srv).1 && cfg.tlsFails)

/-- the connecting half of SocketDriver.reconnect once the server is known -/
def connectTo (cfg : Cfg) (srv : Server) (s : St) : St :=
  let srv' : Server := { srv with attempt := some (srv.attempt.getD s.drv.attempt) }
  if connectFails cfg srv' s then
    -- socket.error: logged, `scheduleReconnect()`; the driver stays unconnected
    event (.connectFailed srv')
      { s with drv := { s.drv with current := srv', attempt := srv.attempt.getD s.drv.attempt, connected := false,
                                   scheduled := true, sock := s.drv.sock + 1, failNext := s.drv.failNext - 1 } }
  else
  event (.connected srv' (tlsChoice cfg srv').1 (tlsChoice cfg srv').2)
    { s with drv := { s.drv with current := srv', attempt := srv.attempt.getD s.drv.attempt, connected := true,
                                 sock := s.drv.sock + 1 } }

/-- the environment refuses connections for a while (`SocketDriver` histories) -/
def setFails (n : Nat) (s : St) : St := { s with drv := { s.drv with failNext := n } }

/-- SocketDriver.reconnect(wait=False) after the reset: pick the server, connect, maybe TLS -/
def drvConnect (cfg : Cfg) (server : Option Server) (s : St) : St :=
  match server with
  | some srv => connectTo cfg srv s
  | none =>
    match getNextServer cfg s with
    | none => s                                   -- assertion / exception: outside the modelled runs
    | some (srv, s) => connectTo cfg srv s

/-- the `if self.connected:` block of SocketDriver.reconnect: record the disconnection, close -/
def drvDisconnect (s : St) : St :=
  if s.drv.connected then
    event .closed { s with db := { s.db with lastDisc := dictSet s.db.lastDisc s.drv.current.host s.now },
                           drv := { s.drv with connected := false } }
  else s

/-- the `if wait:` block: the given server becomes the next one, reconnect is scheduled -/
def drvSchedule (server : Option Server) (s : St) : St :=
  { s with drv := { s.drv with scheduled := true,
                               servers := (match server with | some srv => [srv] | none => []) ++ s.drv.servers } }

/-- SocketDriver.reconnect(wait, server) (reset=True) -/
def realReconnect (cfg : Cfg) (wait : Bool) (server : Option Server) (s : St) : St :=
  let s1 := ircReset cfg (drvDisconnect { s with drv := { s.drv with attempt := s.drv.attempt + 1, scheduled := false } })
  if wait then drvSchedule server s1 else drvConnect cfg server s1

/-- `driver.reconnect(wait, server)` as seen from the Irc object.
Stub driver: only recorded.  SocketDriver: disconnect bookkeeping, `irc.reset()`, then either schedule
(wait) or connect immediately. -/
def drvReconnect (cfg : Cfg) (wait : Bool) (server : Option Server) (s : St) : St :=
  if cfg.realDriver then realReconnect cfg wait server (event (.reconnect wait server) s)
  else event (.reconnect wait server) s

/-! ### CAP END, SASL -/

/-- the test of Irc._abortIfSaslRequired -/
def saslMissing (cfg : Cfg) (s : St) : Bool := cfg.required && !s.saslAuth

/-- Irc.endCapabilityNegociation -/
def endCap (cfg : Cfg) (s : St) : R :=
  if saslMissing cfg s then ok (drvReconnect cfg true none s) else
  (onCapEnd s).bind fun s => ok (sendMsg .capEnd { s with endCount := s.endCount + 1 })

/-- Irc.sendSaslString -/
def sendSaslString (bytes : List Nat) (s : St) : St :=
  { (authChunks Gen.Conn.authenticateChunkSize (b64encode bytes)).foldl (fun s c => sendMsg (.authPayload c) s) s with
    saslSent := true }

/-- Irc.tryNextSaslMechanism -/
def tryNextSasl (cfg : Cfg) (s : St) : R :=
  (expectState Gen.Conn.expectTryNextSasl s).bind fun s =>
  match s.saslNext with
  | m :: rest => ok (sendMsg (.authMech (asciiUpper m)) { s with saslCur := some m, saslNext := rest, saslSent := false, scramStep := 0 })
  | [] =>
    if cfg.required then ok (drvReconnect cfg true none s)     -- "aborting connection"
    else
      (onSaslAuthFinished { s with saslCur := none }).bind fun s =>
      if s.fsm = .INIT_CAP_NEGOTIATION then endCap cfg s else ok s

/-- the mechanism filter of Irc._maybeStartSasl -/
def filterMechs (next : List Str) (v : Str) : List Str :=
  next.filter (fun x => ((splitChar ',' v).map asciiLower).contains (asciiLower x))

/-- Irc._maybeStartSasl -/
def maybeStartSasl (cfg : Cfg) (s : St) : R :=
  if !s.saslAuth && s.ack.contains sSasl then
    (onSaslCap s).bind fun s =>
    match dictGet s.ls sSasl with
    | none => raise "AssertionError" s
    | some none => tryNextSasl cfg s
    | some (some v) => tryNextSasl cfg { s with saslNext := filterMechs s.saslNext v }
  else ok s

/-- Irc.capUpkeep -/
def capUpkeep (cfg : Cfg) (s : St) : R :=
  (expectState Gen.Conn.expectCapUpkeep s).bind fun s =>
  let responded := s.ack ++ s.nak
  if !subset responded s.req then ok (drvReconnect cfg true none s)
  else if subset s.req responded then
    if s.ack.contains sSasl then
      (if s.fsm = .INIT_CAP_NEGOTIATION ∨ s.fsm = .CONNECTED then maybeStartSasl cfg s else ok s)
    else if s.fsm ≠ .CONNECTED then endCap cfg s
    else ok s
  else ok s

/-- AuthenticateDecoder.feed -/
def decoderFeed (d : Decoder) (chunk : Str) : Decoder :=
  { chunks := if chunk = sPlus then d.chunks else d.chunks ++ [chunk],
    ready := d.ready || chunk = sPlus || chunk.length ≠ Gen.Conn.authenticateChunkSize }

/-- the hash name Irc._doAuthenticateScramFirst derives from the mechanism name -/
def scramHash (m : Str) : Str :=
  let h := m.drop sScramPfx.length
  asciiUpper (if sDashPlus.isSuffixOf h then h.take (h.length - sDashPlus.length) else h)

/-- the SCRAM step machine of Irc.doAuthenticate (library calls are parameters of `cfg`); every failure
sends `AUTHENTICATE *` and leaves the next mechanism to the handler of 906 -/
def scramRespond (cfg : Cfg) (m : Str) (s : St) : R :=
  if s.scramStep = 0 then
    if cfg.scramHashes.contains (scramHash m) then ok { sendSaslString cfg.scramFirst s with scramStep := 1 }
    else ok (sendMsg .authAbort s)
  else if s.scramStep = 1 then
    match cfg.scramFinal with
    | some b => ok { sendSaslString b s with scramStep := 2 }
    | none => ok (sendMsg .authAbort s)
  else if s.scramStep = 2 then
    if cfg.scramFinish = 0 then ok { sendSaslString [] s with scramStep := 3 }
    else ok (sendMsg .authAbort s)
  else raise "AssertionError" s

/-- the mechanism-specific tail of Irc.doAuthenticate; `n` = length of the decoded server string -/
def authRespond (cfg : Cfg) (n : Nat) (s : St) : R :=
  match s.saslCur with
  | none => raise "AttributeError" s
  | some m =>
    if m = sEcdsa then
      if n = 0 then ok (sendSaslString (utf8 s.saslUser) s)
      else if s.ecdsaKeyOk && n = 32 then ok { sendMsg .authOpaque s with saslSent := true }
      else ok (sendMsg .authAbort s)
    else if m = sExternal then ok (sendSaslString [] s)
    else if sScramPfx.isPrefixOf m then scramRespond cfg m s
    else if m = sPlain then
      ok (sendSaslString (utf8 s.saslUser ++ [0] ++ utf8 s.saslUser ++ [0] ++ utf8 s.saslPass) s)
    else ok s

/-- `self.authenticate_decoder`, created on demand -/
def curDecoder (s : St) : Decoder := s.dec.getD ⟨[], false⟩

/-- Irc.doAuthenticate.  `cmd` is the command as received (the decoder asserts its exact spelling). -/
def doAuthenticate (cfg : Cfg) (cmd : Str) (args : List Str) (s : St) : R :=
  (expectState Gen.Conn.expectDoAuthenticate s).bind fun s =>
  if cmd ≠ sAUTHENTICATE then raise "AssertionError" { s with dec := some (curDecoder s) } else
  match args with
  | [] => raise "IndexError" { s with dec := some (curDecoder s) }
  | chunk :: _ =>
    if !(decoderFeed (curDecoder s) chunk).ready then ok { s with dec := some (decoderFeed (curDecoder s) chunk) } else
    match b64decodedLen (decoderFeed (curDecoder s) chunk).chunks with
    | none => raise "Error" { s with dec := some (decoderFeed (curDecoder s) chunk) }   -- binascii.Error, decoder kept
    | some n => authRespond cfg n { s with dec := none }

/-- Irc.do903: honoured only as the end of a SASL exchange, after a complete response of ours -/
def do903 (cfg : Cfg) (s : St) : R :=
  (expectState Gen.Conn.expectDo903 s).bind fun s =>
  if !s.saslSent then ok s else
  (onSaslAuthFinished { s with saslAuth := true }).bind fun s =>
  if s.fsm = .INIT_CAP_NEGOTIATION then endCap cfg s else ok s

/-- Irc.do908: `msg.args[1]`, then the undefined `self.filterSaslMechanisms` -/
def do908 (args : List Str) (s : St) : R :=
  if args.length < 2 then raise "IndexError" s else raise "AttributeError" s

/-! ### CAP LS / ACK / NAK / NEW / DEL -/

def lstripEqTilde (s : Str) : Str := s.dropWhile (fun c => c = '=' || c = '~')

/-- is the connection secure in the sense of Irc._onCapSts -/
def secureConn (cfg : Cfg) (s : St) : Bool := s.drv.current.forced || (cfg.ssl && cfg.certValidation)

/-- Irc._onCapSts -/
def onCapSts (cfg : Cfg) (policy : Str) (s : St) : St :=
  match parseStsPolicy policy (secureConn cfg s) with
  | none => s
  | some p =>
    if secureConn cfg s then { s with db := { s.db with policies := dictSet s.db.policies s.drv.current.host policy } }
    else drvReconnect cfg true (some ⟨s.drv.current.host, p.port, s.drv.current.attempt, true⟩) (onShutdown s).st

def setLs (k : Str) (v : Option Str) (s : St) : St := { s with ls := dictSet s.ls k v }

/-- one iteration of the loop of Irc._addCapabilities -/
def addCapability (cfg : Cfg) (s : St) (item0 : Str) : St :=
  match split1 '=' (lstripEqTilde item0) with
  | some (cap, value) =>
    if cap = sSts then setLs cap (some value) (onCapSts cfg value s) else setLs cap (some value) s
  | none =>
    if lstripEqTilde item0 = sSts then setLs (lstripEqTilde item0) none (drvReconnect cfg true none s)
    else setLs (lstripEqTilde item0) none s

/-- Irc._addCapabilities -/
def addCapabilities (cfg : Cfg) (capstring : Str) (s : St) : St :=
  (splitWs capstring).foldl (addCapability cfg) s

/-- `set(ls) & (REQUEST_CAPABILITIES - ack)` -/
def newCaps (s : St) : List Str :=
  (keys s.ls).filter (fun c => s.wanted.contains c && !s.ack.contains c)

/-- the reordering of Irc._requestCaps: echo-message only next to labeled-response -/
def arrangeCaps (ack : List Str) (caps : List Str) : List Str :=
  let caps := isort caps
  if caps.contains sEcho && !ack.contains sLabeled then
    let c := caps.filter (· != sEcho)                -- caps.remove(...): caps comes from a set
    if c.contains sLabeled then sEcho :: sLabeled :: c.filter (· != sLabeled) else c
  else caps

def capReqWidth : Nat := Gen.Conn.maxLineSize - Gen.Conn.capReqPrefix.length

/-- Irc._requestCaps -/
def requestCaps (caps : List Str) (s : St) : St :=
  let caps := arrangeCaps s.ack caps
  let s := { s with req := union s.req caps }
  (fill capReqWidth caps).foldl (fun s l => sendMsg (.capReq l) s) s

/-- the end-of-LS branch of Irc.doCapLs after `_addCapabilities` -/
def capLsFinal (cfg : Cfg) (s : St) : R :=
  if s.fsm = .SHUTTING_DOWN then ok s else
  (expectState Gen.Conn.expectDoCapLs s).bind fun s =>
  if (fill capReqWidth (arrangeCaps s.ack (newCaps s))).isEmpty then endCap cfg (requestCaps (newCaps s) s)
  else ok (requestCaps (newCaps s) s)

def doCapLs (cfg : Cfg) (args : List Str) (s : St) : R :=
  match args with
  | [_, _, star, caps] =>
    if star ≠ sStar then ok s else ok (addCapabilities cfg caps s)
  | [_, _, caps] => capLsFinal cfg (addCapabilities cfg caps s)
  | _ => ok s

def doCapAckNak (cfg : Cfg) (isAck : Bool) (args : List Str) (s : St) : R :=
  match args with
  | [_, _, caps] =>
    let l := splitWs caps
    if l.isEmpty then raise "AssertionError" s else
    if isAck then capUpkeep cfg { s with ack := union s.ack l, saslAcked := s.saslAcked || (union s.ack l).contains sSasl }
    else capUpkeep cfg { s with nak := union s.nak l }
  | _ => ok s

def capName (c : Str) : Str := (splitChar '=' c).headD []

/-- one iteration of the loop of Irc.doCapDel: an acknowledged capability that is taken away counts as
refused from now on -/
def delCap (s : St) (c : Str) : St :=
  { s with ls := dictDel s.ls (capName c), ack := s.ack.filter (· != capName c),
           nak := if s.ack.contains (capName c) then union s.nak [capName c] else s.nak }

def doCapDel (args : List Str) (s : St) : R :=
  match args with
  | [_, _, caps] =>
    let l := splitWs caps
    if l.isEmpty then raise "AssertionError" s else
    ok (l.foldl delCap s)
  | _ => ok s

/-- Irc.doCapNew after `_addCapabilities` -/
def capNewFinal (s : St) : St :=
  if s.fsm = .SHUTTING_DOWN then s else
  if (newCaps s).isEmpty then s else requestCaps (newCaps s) s

def doCapNew (cfg : Cfg) (args : List Str) (s : St) : R :=
  match args with
  | [_, _, caps] =>
    if (splitWs caps).isEmpty then raise "AssertionError" s else ok (capNewFinal (addCapabilities cfg caps s))
  | _ => ok s

/-! ### nick collisions, MOTD, PING, ERROR, NICK -/

/-- `nick %= base` for a template with at most one `%s` and no other `%` -/
def expandAlt (base : Str) : Str → Str
  | [] => []
  | '%' :: 's' :: rest => base ++ rest
  | c :: rest => c :: expandAlt base rest

/-- the tail of Irc._getNextNick: the configured nick if not tried yet, else random digits -/
def nickFallback (cfg : Cfg) (s : St) : Option Str × St :=
  if s.tried.contains cfg.nick then (none, s) else (some cfg.nick, { s with tried := s.tried ++ [cfg.nick] })

def altNick (cfg : Cfg) (a : Str) : Str := if Py.contains sPctS a then expandAlt cfg.nick a else a

/-- Irc._getNextNick: `some n` = a determined nick, `none` = the random-digit variation -/
def getNextNick (cfg : Cfg) (s : St) : Option Str × St :=
  match s.altNicks with
  | a :: rest =>
    if s.tried.contains (altNick cfg a) then nickFallback cfg { s with altNicks := rest }
    else (some (altNick cfg a), { s with altNicks := rest, tried := s.tried ++ [altNick cfg a] })
  | [] => nickFallback cfg s

/-- Irc.do43x -/
def do43x (cfg : Cfg) (s : St) : R :=
  if s.afterConnect then ok s else
  match getNextNick cfg s with
  | (some n, s) => if n = s.nick then raise "AssertionError" s else ok (sendMsg (.nick n) s)
  | (none, s) => ok (sendMsg .nickRandom s)

def do375 (cfg : Cfg) (s : St) : R :=
  if saslMissing cfg s then ok (drvReconnect cfg true none s) else
  transition Gen.Conn.toStartMotd (some Gen.Conn.guardStartMotd) s

/-- Irc.do376 (= do377 = do422); user modes are not modelled (none configured) -/
def do376 (cfg : Cfg) (s : St) : R :=
  if saslMissing cfg s then ok (drvReconnect cfg true none s) else
  (transition Gen.Conn.toEndMotd (some Gen.Conn.guardEndMotd) s).bind fun s =>
  ok { s with afterConnect := true, altNicks := cfg.alternates }

def doPing (args : List Str) (s : St) : R :=
  match args with
  | [] => raise "IndexError" s
  | a :: _ => ok (sendMsg (.pong a) s)

def doError (cfg : Cfg) (args : List Str) (s : St) : R :=
  match args with
  | [] => raise "IndexError" s
  | a :: _ =>
    if sClosingLink.isPrefixOf (asciiLower a) then ok (drvReconnect cfg false none s)
    else if Py.contains sTooFast a then ok (drvReconnect cfg true none s)
    else ok s

/-- Irc.doNick for the bot's own nick (`msgNick` = `msg.nick`) -/
def doNick (msgNick : Str) (args : List Str) (s : St) : R :=
  if msgNick = s.nick then
    match args with
    | [] => raise "IndexError" s
    | n :: _ => ok { s with nick := n }
  else ok s

/-- Irc.do002: `(beginning, version) = rsplit(msg.args[-1], maxsplit=1)` -/
def do002 (args : List Str) (s : St) : R :=
  match args.getLast? with
  | none => raise "IndexError" s
  | some a => if (splitWs a).length < 2 then raise "ValueError" s else ok s

/-! ### feedMsg -/

/-- an incoming message: `command`, `args` and `msg.nick` (prefix up to `!`) -/
structure Msg where
  command : Str
  args : List Str
  nick : Str := []
deriving DecidableEq, Repr

inductive Handler where
  | capLs | capAck | capNak | capNew | capDel | authenticate
  | n903 | n904to907 | n908 | n002 | n375 | n376 | n43x | ping | error | nick | none
deriving DecidableEq, Repr

/-- IrcCommandDispatcher.dispatchCommand restricted to the handlers `Irc` defines (ASCII commands) -/
def dispatch (m : Msg) : Handler :=
  let c := asciiUpper m.command
  if c = sCAP then
    match m.args with
    | _ :: sub :: _ =>
      let sub := asciiLower sub
      if sub = ['l','s'] then .capLs else if sub = ['a','c','k'] then .capAck
      else if sub = ['n','a','k'] then .capNak else if sub = ['n','e','w'] then .capNew
      else if sub = ['d','e','l'] then .capDel else .none
    | _ => .none
  else if c = sAUTHENTICATE then .authenticate
  else if c = num '9' '0' '3' then .n903
  else if c = num '9' '0' '4' ∨ c = num '9' '0' '5' ∨ c = num '9' '0' '6' ∨ c = num '9' '0' '7' then .n904to907
  else if c = num '9' '0' '8' then .n908
  else if c = num '0' '0' '2' then .n002
  else if c = num '3' '7' '5' then .n375
  else if c = num '3' '7' '6' ∨ c = num '3' '7' '7' ∨ c = num '4' '2' '2' then .n376
  else if c = num '4' '3' '2' ∨ c = num '4' '3' '3' ∨ c = num '4' '3' '7' then .n43x
  else if c = sPING then .ping
  else if c = sERROR then .error
  else if c = sNICK then .nick
  else .none

def runHandler (cfg : Cfg) (m : Msg) (s : St) : R :=
  match dispatch m with
  | .capLs => doCapLs cfg m.args s
  | .capAck => doCapAckNak cfg true m.args s
  | .capNak => doCapAckNak cfg false m.args s
  | .capNew => doCapNew cfg m.args s
  | .capDel => doCapDel m.args s
  | .authenticate => doAuthenticate cfg m.command m.args s
  | .n903 => do903 cfg s
  | .n904to907 => tryNextSasl cfg s
  | .n908 => do908 m.args s
  | .n002 => do002 m.args s
  | .n375 => do375 cfg s
  | .n376 => do376 cfg s
  | .n43x => do43x cfg s
  | .ping => doPing m.args s
  | .error => doError cfg m.args s
  | .nick => doNick m.nick m.args s
  | .none => ok s

/-- the part of Irc.feedMsg before the dispatch: `_nickSetters` keep `self.nick` updated -/
def nickSetter (m : Msg) (s : St) : R :=
  if Gen.Conn.nickSetters.contains m.command then
    match m.args with
    | [] => raise "IndexError" s
    | a :: _ => ok { s with nick := a }
  else ok s

/-- the callbacks that run after the handler returned normally: Owner.do376/do377/do422 -/
def callbacks (cfg : Cfg) (m : Msg) (s : St) : St :=
  if cfg.joins ∧ dispatch m = .n376 then queueMsg .join s else s

/-- Irc.feedMsg (firewalled: an exception ends the processing of this message) -/
def feedMsg (cfg : Cfg) (m : Msg) (s : St) : R :=
  (nickSetter m s).bind fun s =>
  (runHandler cfg m s).bind fun s => ok (callbacks cfg m s)

/-- one observed step: state with the queues drained, what was on the fast queue, on the normal
queue, the driver calls / socket events, and the exception that ended the processing (if any) -/
structure StepResult where
  st : St
  fast : List Out
  slow : List Out
  events : List Out
  exc : Option String := none

def drain (s : St) : St := { s with fastq := [], slowq := [], ev := [] }

def observeStep (r : R) : StepResult := ⟨drain r.st, r.st.fastq, r.st.slowq, r.st.ev, r.exc⟩

/-- `irc.feedMsg(m)` followed by taking every queued message (stub driver) -/
def step (cfg : Cfg) (s : St) (m : Msg) : StepResult := observeStep (feedMsg cfg m s)

/-- operations of a stub-driver history: a server message, or `irc.reset()` called by the driver -/
inductive Op where
  | msg (m : Msg)
  | reset
deriving DecidableEq, Repr

def applyOp (cfg : Cfg) (s : St) : Op → StepResult
  | .msg m => step cfg s m
  | .reset => observeStep (ok (ircReset cfg s))

/-- `Irc(network)` with a fresh `IrcState`: the same start values as after a reset, epoch 0 -/
def initSt (cfg : Cfg) (base : St) : St :=
  queueConnectMessages cfg { clearForReset cfg base with ev := [], epoch := 0 }

/-- the first observation: `Irc(network)` and everything it queued -/
def start (cfg : Cfg) (base : St) : StepResult := observeStep (ok (initSt cfg base))

/-! ### SocketDriver: the run loop -/

/-- SocketDriver._sendIfMsgs: everything the Irc object hands out goes to the current socket -/
def flush (s : St) : St :=
  if s.drv.connected then
    { s with wire := s.wire ++ (s.fastq ++ s.slowq).map (fun o => (s.drv.sock, o)), fastq := [], slowq := [],
             joinBad := s.joinBad || ((s.fastq ++ s.slowq).contains .join && !s.afterConnect) }
  else s

/-- the loop of SocketDriver._read over the complete lines of one recv(): the lines are fed to the Irc
object one by one; once a handler made the driver reconnect (another socket, or not connected any more)
the rest of the chunk — sent by the server of the connection just left — is dropped -/
def feedLines (cfg : Cfg) : List Msg → St → St
  | [], s => s
  | m :: ms, s =>
    let s' := (feedMsg cfg m s).st
    if s'.drv.sock ≠ s.drv.sock ∨ s'.drv.connected = false then s' else feedLines cfg ms s'

/-- `SocketDriver(irc)`: `connect()` = `reconnect(reset=False)` -/
def drvStart (cfg : Cfg) (s : St) : St :=
  flush (drvConnect cfg none { s with drv := { s.drv with attempt := s.drv.attempt + 1, scheduled := false }, ev := [], wire := [] })

/-- the head of `SocketDriver.run()`: the scheduled reconnect, if one is scheduled and due -/
def drvDue (cfg : Cfg) (due : Bool) (s : St) : St :=
  if s.drv.scheduled && due then realReconnect cfg false none (event (.reconnect false none) s) else s

/-- one `SocketDriver.run()`: the scheduled reconnect if it is due, then (when connected) flush, read the
lines of one recv(), flush.  `now` is the clock, `due` = "`now > nextReconnectTime`". -/
def drvRun (cfg : Cfg) (now : Nat) (due : Bool) (lines : List Msg) (s : St) : St :=
  let s1 := drvDue cfg due { s with now := now, ev := [], wire := [] }
  if s1.drv.connected then flush (feedLines cfg lines (flush s1)) else s1

end C08
