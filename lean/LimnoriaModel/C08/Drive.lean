/-
C08 — line-protocol driver.
  new   k:v k:v ...          configuration + initial data base; answers with the observation after Irc()
  msg   <command> <args> <nick>   Irc.feedMsg, queues drained
  reset                      Irc.reset() called directly (stub driver runs)
  cfg   k:v k:v ...          the configuration changes while the bot runs (same keys as `new`)
  dstart                     SocketDriver(irc)                       (real driver runs)
  fail <n>                   the next n connection attempts are refused
  restart <now>              the process is restarted: new Irc, new SocketDriver, same networks data base
  run <now> <due> <msg> ...  one SocketDriver.run(); each message is hexcmd;hexargs;hexnick
Observation (TAB separated): outs fsm ls req ack nak next cur auth+sent+scramstep dec nick after exc wanted policies lastdisc
-/
import LimnoriaModel.C08.Progress
import LimnoriaModel.Driver.Core
namespace C08
open Py Wire

def field (fs : List String) (k : String) : Option String :=
  fs.findSome? fun f => if f.startsWith (k ++ ":") then some ((f.drop (k.length + 1)).toString) else none

def fBool (fs : List String) (k : String) : Bool := field fs k == some "1"
def fStr (fs : List String) (k : String) : Option Str := (field fs k).bind dec
def fList (fs : List String) (k : String) : Option (List Str) := (field fs k).bind decList
def fNat (fs : List String) (k : String) : Nat := ((field fs k).bind String.toNat?).getD 0

/-- server as `hexhost/port/forced` (attempt None) -/
def decServer (f : String) : Option Server :=
  match f.splitOn "/" with
  | [h, p, fo] => do
    let h ← dec h
    let p ← p.toInt?
    pure ⟨h, p, none, fo == "1"⟩
  | _ => none

def decServers (f : String) : Option (List Server) :=
  if f = "-" then some [] else (f.splitOn ",").mapM decServer

def decPairs (f : String) : Option (List (String × String)) :=
  if f = "-" then some [] else
  (f.splitOn ",").mapM fun item =>
    match item.splitOn "=" with
    | [k, v] => some (k, v)
    | _ => none

def parseCfg (fs : List String) : Option Cfg := do
  let nick ← fStr fs "nick"
  let ident ← fStr fs "ident"
  let user ← fStr fs "user"
  let password ← fStr fs "password"
  let alternates ← fList fs "alternates"
  let mechanisms ← fList fs "mechanisms"
  let saslUser ← fStr fs "sasluser"
  let saslPass ← fStr fs "saslpass"
  let ecdsaKey ← fStr fs "ecdsakey"
  let servers ← (field fs "servers").bind decServers
  let scramHashes ← fList fs "scramhashes"
  let scramFirst ← fStr fs "scramfirst"
  let scramFinal ← (field fs "scramfinal").bind decOpt
  pure { nick, ident, user, password, alternates, mechanisms, saslUser, saslPass, ecdsaKey,
         ecdsaKeyOk := fBool fs "ecdsaok", certfile := fBool fs "certfile", required := fBool fs "required",
         joins := fBool fs "joins", hasCrypto := fBool fs "crypto", realDriver := fBool fs "real",
         ssl := fBool fs "ssl", certValidation := fBool fs "certvalidation", verifyCerts := fBool fs "verifycerts",
         servers, hasScram := fBool fs "scram", scramHashes, scramFirst := utf8 scramFirst,
         scramFinal := scramFinal.map utf8, scramFinish := fNat fs "scramfinish", tlsFails := fBool fs "tlsfails" }

def parseDb (fs : List String) : Option Db := do
  let pol ← (field fs "policies").bind decPairs
  let pol ← pol.mapM fun (k, v) => do pure ((← dec k), (← dec v))
  let ld ← (field fs "lastdisc").bind decPairs
  let ld ← ld.mapM fun (k, v) => do pure ((← dec k), (← v.toNat?))
  pure { policies := pol, lastDisc := ld }

/-! rendering -/

def dedup : List Str → List Str
  | [] => []
  | x :: xs => if xs.contains x then dedup xs else x :: dedup xs

def encSet (l : List Str) : String := encList (isort (dedup l))

def encServer (s : Server) : String :=
  enc s.host ++ "/" ++ toString s.port ++ "/" ++ (match s.attempt with | none => "~" | some a => toString a) ++ "/" ++ (if s.forced then "1" else "0")

def msgTok (cmd : String) (args : List Str) : String := "M:" ++ cmd ++ ":" ++ encList args

def encOutBase : Out → String
  | .capLs => msgTok "CAP" ["LS".toList, "302".toList]
  | .pass p => msgTok "PASS" [p]
  | .nick n => msgTok "NICK" [n]
  | .nickRandom => "M:NICK:?"
  | .user i r => msgTok "USER" [i, "0".toList, "*".toList, r]
  | .capReq ws => msgTok "CAP" ["REQ".toList, joinChar ' ' ws]
  | .capEnd => msgTok "CAP" ["END".toList]
  | .authMech m => msgTok "AUTHENTICATE" [m]
  | .authPayload c => msgTok "AUTHENTICATE" [c]
  | .authOpaque => "M:AUTHENTICATE:?"
  | .authAbort => msgTok "AUTHENTICATE" ["*".toList]
  | .pong a => msgTok "PONG" [a]
  | .join => "M:JOIN:?"
  | .reconnect w srv => "R:" ++ (if w then "1" else "0") ++ ":" ++ (match srv with | none => "~" | some s => encServer s)
  | .closed => "X"
  | .connected srv tls v => "C:" ++ encServer srv ++ ":" ++ (if tls then "1" else "0") ++ ":" ++ (if v then "1" else "0")
  | .connectFailed srv => "F:" ++ encServer srv

def encOut : Out → String := encOutBase

def encOuts (l : List Out) : String := if l.isEmpty then "-" else ";".intercalate (l.map encOut)

def encLs (ls : List (Str × Option Str)) : String :=
  let ks := isort (dedup (keys ls))
  if ks.isEmpty then "-" else
  ",".intercalate (ks.map fun k => enc k ++ "=" ++ encOpt ((dictGet ls k).getD none))

def encDec : Option Decoder → String
  | none => "~"
  | some d => (if d.ready then "1" else "0") ++ ":" ++ encList d.chunks

def encDb (db : Db) : String :=
  let ks := isort (dedup (keys db.policies))
  let ks2 := isort (dedup (keys db.lastDisc))
  (if ks.isEmpty then "-" else ",".intercalate (ks.map fun k => enc k ++ "=" ++ enc ((dictGet db.policies k).getD []))) ++ "\t" ++
  (if ks2.isEmpty then "-" else ",".intercalate (ks2.map fun k => enc k ++ "=" ++ toString ((dictGet db.lastDisc k).getD 0)))

def observe (s : St) (outs : List Out) (exc : Option String) : String :=
  "\t".intercalate [encOuts outs, s.fsm.name, encLs s.ls, encSet s.req, encSet s.ack, encSet s.nak,
    encList s.saslNext, encOpt s.saslCur,
    (if s.saslAuth then "1" else "0") ++ (if s.saslSent then "1" else "0") ++ toString s.scramStep, encDec s.dec, enc s.nick,
    (if s.afterConnect then "1" else "0"), exc.getD "-", encSet s.wanted, encDb s.db]

structure DState where
  cfg : Option Cfg := none
  st : St := {}
  -- the conformant-server monitor of Progress.lean, run alongside stub-driver histories
  view : View := { v3 := true }
  accepted : Nat := 0        -- server messages accepted by the relation `SrvMove` so far
  rejected : Nat := 0        -- … and refused (the history then lies outside the domain of `progress`)

def obsR (r : StepResult) : String := observe r.st (r.fast ++ r.slow ++ r.events) r.exc

def decMsg (f : String) : Option Msg :=
  match f.splitOn ";" with
  | [c, a, n] => do
    let c ← dec c
    let a ← decList a
    let n ← dec n
    pure ⟨c, a, n⟩
  | _ => none

def encWire (w : List (Nat × Out)) : String :=
  if w.isEmpty then "-" else ";".intercalate (w.map fun (n, o) => toString n ++ "@" ++ encOut o)

def encDrv (d : Drv) : String :=
  (if d.connected then "1" else "0") ++ "\t" ++ encServer d.current ++ "\t" ++
  (if d.servers.isEmpty then "-" else ",".intercalate (d.servers.map encServer)) ++ "\t" ++
  (if d.scheduled then "1" else "0") ++ "\t" ++ toString d.sock

/-- observation after a real-driver operation: the queues are reported, not drained (the driver drains
them itself when it is connected), plus what went over the wire and the driver's own state -/
def observeD (s : St) : String :=
  observe s s.ev none ++ "\t" ++ encOuts (s.fastq ++ s.slowq) ++ "\t" ++ encWire s.wire ++ "\t" ++ encDrv s.drv

def stepD (d : DState) : List String → DState × String
  | "new" :: fs =>
    match parseCfg fs, parseDb fs, (field fs "stub").bind decServer with
    | some cfg, some db, some stub =>
      let base : St := { db := db, now := fNat fs "now", drv := { current := stub } }
      let r := start cfg base
      -- with the real driver nobody has taken the connect messages yet: they stay queued
      ({ cfg := some cfg, st := if cfg.realDriver then { initSt cfg base with ev := [] } else r.st,
         view := seeStep { v3 := !(fBool fs "nov3") } r }, obsR r)
    | _, _, _ => (d, "bad-op")
  | ["msg", c, a, n] =>
    match d.cfg, dec c, decList a, dec n with
    | some cfg, some c, some a, some n =>
      let r := step cfg d.st ⟨c, a, n⟩
      let d' : DState := match srvMoveB d.view ⟨c, a, n⟩ with
        | some v1 => if d.rejected = 0 && !d.view.aborted then { d with view := seeStep v1 r, accepted := d.accepted + 1 } else d
        | none => if d.view.aborted then d else { d with rejected := d.rejected + 1 }
      ({ d' with st := r.st }, obsR r)
    | _, _, _, _ => (d, "bad-op")
  | "cfg" :: fs =>
    -- the operator changes the configuration; the Irc object only looks at it at the next reset
    match parseCfg fs with
    | some cfg => ({ d with cfg := some cfg }, observe d.st [] none)
    | none => (d, "bad-op")
  | ["reset"] =>
    match d.cfg with
    | some cfg =>
      let r := applyOp cfg d.st .reset
      ({ d with st := r.st }, obsR r)
    | none => (d, "bad-op")
  | ["viewq"] =>
    -- the conclusion of theorem `progress`, evaluated on the model, for histories the relation accepted
    let v := d.view
    let owes := (v.v3 && (v.lsOwed || !v.reqs.isEmpty || v.auth.owed)) || (canWelcome v && decide (v.stage < 7))
    (d, s!"acc={d.accepted} rej={d.rejected} after={if d.st.afterConnect then 1 else 0} aborted={if v.aborted then 1 else 0} owes={if owes then 1 else 0} reopened={if v.reopened then 1 else 0}")
  | ["dstart"] =>
    match d.cfg with
    | some cfg => let s := drvStart cfg d.st; ({ d with st := s }, observeD s)
    | none => (d, "bad-op")
  | ["fail", n] =>
    -- the environment refuses the next `n` connection attempts
    match n.toNat? with
    | some n => let s := setFails n { d.st with ev := [], wire := [] }; ({ d with st := s }, observeD s)
    | none => (d, "bad-op")
  | ["restart", now] =>
    -- the bot is stopped and started again: the networks data base persists, everything else is new
    match d.cfg, now.toNat? with
    | some cfg, some now =>
      let base : St := { db := d.st.db, now := now, drv := { sock := d.st.drv.sock, failNext := d.st.drv.failNext }, joinBad := d.st.joinBad }
      let s := drvStart cfg (initSt cfg base)
      ({ d with st := s }, observeD s)
    | _, _ => (d, "bad-op")
  | "run" :: now :: due :: msgs =>
    match d.cfg, now.toNat?, msgs.mapM decMsg with
    | some cfg, some now, some ms =>
      let s := drvRun cfg now (due == "1") ms d.st
      ({ d with st := s }, observeD s)
    | _, _, _ => (d, "bad-op")
  | _ => (d, "bad-op")

def handler : Driver.Handler := { σ := DState, init := {}, step := stepD }
end C08
